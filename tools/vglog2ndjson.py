#!/usr/bin/env python3
"""vglog2ndjson.py <valgrind log> <out.ndjson>: the marker lines written by harness/taint_driver.c and memcheck's
error blocks, in log order, as NDJSON events for sys/TraceConstTime.tla.
report.kind: branch (conditional jump or move depends on secret), address (secret used as an address),
syscall (secret passed to the kernel), memory (any other memcheck error). report.fn = innermost frame that is not
one of Valgrind's own replacement functions' internals (those keep their libc name, e.g. memcmp/bcmp)."""
import json, re, sys

def convert(src, dst):
    out = []
    cur = None
    for line in open(src, errors="replace"):
        m = re.match(r"\*\*\d+\*\* CT-(\w+)\s*(.*)", line)
        if m:
            if cur: out.append(cur); cur = None
            k, rest = m.group(1), m.group(2).split()
            if k == "BEGIN":
                d = dict(x.split("=") for x in rest)
                out.append({"e": "begin", "valgrind": int(d["valgrind"]), "aes": int(d["aes"]), "lens": []})
            elif k == "LENS": out[0]["lens"] += [int(x) for x in rest[0].split(",")]
            elif k == "OP": out.append({"e": "op", "op": rest[0], "len": int(rest[1])})
            elif k == "END": out.append({"e": "end", "op": rest[0], "len": int(rest[1])})
            elif k == "SKIP": out.append({"e": "skip", "op": rest[0]})
            elif k == "DONE": out.append({"e": "done"})
            continue
        m = re.match(r"==\d+==\s+(\S.*)", line)
        if not m:
            if re.match(r"==\d+==\s*$", line) and cur: out.append(cur); cur = None
            continue
        t = m.group(1)
        fm = re.match(r"(?:at|by) 0x[0-9A-Fa-f]+: (\S+)", t)
        if fm:
            if cur is not None: cur["frames"].append(fm.group(1))
            continue
        if cur is not None and not t.startswith(("Uninitialised value was", "Address ", "in ", "Block ", "Access ")) and not fm:
            pass
        if t.startswith("Conditional jump or move depends on uninitialised"): kind = "branch"
        elif t.startswith("Use of uninitialised value"): kind = "address"
        elif t.startswith("Syscall param"): kind = "syscall"
        elif t.startswith(("Invalid ", "Mismatched", "Source and destination overlap", "Argument ", "Process terminating", "Jump to the invalid")): kind = "memory"
        else: continue
        if cur: out.append(cur)
        cur = {"e": "report", "kind": kind, "what": t[:80], "frames": []}
    if cur: out.append(cur)
    with open(dst, "w") as fh:
        for r in out:
            if r["e"] == "report":
                r["fn"] = r["frames"][0] if r["frames"] else "?"
                r["frames"] = r["frames"][:8]
            fh.write(json.dumps(r, separators=(",", ":")) + "\n")
    return out

if __name__ == "__main__":
    convert(sys.argv[1], sys.argv[2])
