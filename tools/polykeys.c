/* tools/polykeys.c - chooses the fixed Poly1305 keys of harness/poly_keys.h: clamped r whose square (e = 2) or fourth power (e = 4)
 * modulo 2^130 - 5 has one limb (radix 2^44: 44/44/42 bits; radix 2^26: five limbs) at a boundary - all zeros or all ones - with the
 * lowest bit of the next limb chosen.  Those are the values the vectorised backends precompute and store (r^2, r^4), and a carry chain
 * is exercised at its edge only by such keys (about one clamped key in 2^40 per limb otherwise).  This tool only PICKS inputs (random
 * X of the wanted shape, square roots modulo p, keep the clamped ones: about 2^24 trials per key); every tag is judged by the spec.
 * usage: polykeys e radix limb kind nextbit seed  -> one line "e radix limb kind nextbit <r as 32 hex digits, little endian>" */
#include <stdint.h>
#include <stdio.h>
#include <stdlib.h>
#include <string.h>
typedef unsigned __int128 u128;
typedef struct { uint64_t l[3]; } fe;
#define M44 0xfffffffffffULL
#define M42 0x3ffffffffffULL
static fe mul(fe a, fe b) {
    uint64_t s1 = b.l[1] * 20, s2 = b.l[2] * 20; u128 d0, d1, d2; uint64_t c; fe h;
    d0 = (u128) a.l[0] * b.l[0] + (u128) a.l[1] * s2 + (u128) a.l[2] * s1;
    d1 = (u128) a.l[0] * b.l[1] + (u128) a.l[1] * b.l[0] + (u128) a.l[2] * s2;
    d2 = (u128) a.l[0] * b.l[2] + (u128) a.l[1] * b.l[1] + (u128) a.l[2] * b.l[0];
    c = (uint64_t) (d0 >> 44); h.l[0] = (uint64_t) d0 & M44; d1 += c;
    c = (uint64_t) (d1 >> 44); h.l[1] = (uint64_t) d1 & M44; d2 += c;
    c = (uint64_t) (d2 >> 42); h.l[2] = (uint64_t) d2 & M42; h.l[0] += c * 5;
    c = h.l[0] >> 44; h.l[0] &= M44; h.l[1] += c;
    c = h.l[1] >> 44; h.l[1] &= M44; h.l[2] += c;
    return h;
}
static fe canon(fe h) {
    uint64_t c, g0, g1, g2;
    for (int i = 0; i < 2; i++) { c = h.l[2] >> 42; h.l[2] &= M42; h.l[0] += c * 5; c = h.l[0] >> 44; h.l[0] &= M44; h.l[1] += c; c = h.l[1] >> 44; h.l[1] &= M44; h.l[2] += c; }
    g0 = h.l[0] + 5; c = g0 >> 44; g0 &= M44; g1 = h.l[1] + c; c = g1 >> 44; g1 &= M44; g2 = h.l[2] + c;
    if (g2 >> 42) { h.l[0] = g0; h.l[1] = g1; h.l[2] = g2 & M42; }
    return h;
}
static int eq(fe a, fe b) { a = canon(a); b = canon(b); return a.l[0] == b.l[0] && a.l[1] == b.l[1] && a.l[2] == b.l[2]; }
static fe neg(fe a) { fe r; a = canon(a); /* p - a */
    int64_t t0 = (int64_t) (M44 - 4) - (int64_t) a.l[0], t1 = (int64_t) M44 - (int64_t) a.l[1], t2 = (int64_t) M42 - (int64_t) a.l[2];
    if (t0 < 0) { t0 += (int64_t) 1 << 44; t1 -= 1; } if (t1 < 0) { t1 += (int64_t) 1 << 44; t2 -= 1; }
    r.l[0] = (uint64_t) t0; r.l[1] = (uint64_t) t1; r.l[2] = (uint64_t) t2; return r; }
static fe sqn(fe a, int n) { while (n--) a = mul(a, a); return a; }
static fe root(fe x) { /* x^(2^128 - 1) = x^((p+1)/4) */
    fe a = x; int k = 1;
    while (k < 128) { a = mul(sqn(a, k), a); k *= 2; }
    return a;
}
static uint64_t S;
static uint64_t rnd(void) { uint64_t z = (S += 0x9e3779b97f4a7c15ULL); z = (z ^ (z >> 30)) * 0xbf58476d1ce4e5b9ULL; z = (z ^ (z >> 27)) * 0x94d049bb133111ebULL; return z ^ (z >> 31); }
static int clamped(fe r, unsigned char out[16]) {
    r = canon(r); if (r.l[2] >> 40) return 0;            /* r < 2^128 */
    u128 v = (u128) r.l[0] | ((u128) r.l[1] << 44) | ((u128) r.l[2] << 88);
    for (int i = 0; i < 16; i++) out[i] = (unsigned char) (v >> (8 * i));
    if ((out[3] | out[7] | out[11] | out[15]) & 0xf0) return 0;
    if ((out[4] | out[8] | out[12]) & 0x03) return 0;
    return 1;
}
int main(int argc, char **argv) {
    if (argc != 7) return 2;
    int e = atoi(argv[1]), radix = atoi(argv[2]), j = atoi(argv[3]), kind = atoi(argv[4]), nb = atoi(argv[5]); S = strtoull(argv[6], NULL, 10) * 0x100000001b3ULL + 12345;
    static const int B44[4] = { 0, 44, 88, 130 }, B26[6] = { 0, 26, 52, 78, 104, 130 };
    const int *bd = radix == 44 ? B44 : B26; int lo = bd[j], hi = bd[j + 1];
    for (unsigned long trial = 0;; trial++) {
        unsigned char bits[17]; for (int i = 0; i < 17; i += 8) { uint64_t z = rnd(); memcpy(bits + i, &z, i + 8 <= 17 ? 8 : 17 - i); }
        bits[16] &= 3;
        for (int b = lo; b < hi; b++) { if (kind) bits[b >> 3] |= (unsigned char) (1u << (b & 7)); else bits[b >> 3] &= (unsigned char) ~(1u << (b & 7)); }
        if (hi < 130) { if (nb) bits[hi >> 3] |= (unsigned char) (1u << (hi & 7)); else bits[hi >> 3] &= (unsigned char) ~(1u << (hi & 7)); }
        u128 lo128 = 0; for (int i = 0; i < 16; i++) lo128 |= (u128) bits[i] << (8 * i);
        fe x; x.l[0] = (uint64_t) lo128 & M44; x.l[1] = (uint64_t) (lo128 >> 44) & M44; x.l[2] = ((uint64_t) (lo128 >> 88)) | ((uint64_t) bits[16] << 40);
        fe xc = canon(x); if (xc.l[0] != x.l[0] || xc.l[1] != x.l[1] || xc.l[2] != x.l[2]) continue;        /* X >= p */
        fe s = root(x); if (!eq(mul(s, s), x)) continue;                                                       /* not a square */
        fe t;
        if (e == 2) t = s;
        else { t = root(s); fe t2 = mul(t, t); if (!eq(t2, s) && !eq(t2, neg(s))) continue; if (!eq(mul(t2, t2), x)) continue; }
        unsigned char out[16];
        for (int sg = 0; sg < 2; sg++) { fe r = sg ? neg(t) : t;
            if (clamped(r, out)) { printf("%d %d %d %d %d ", e, radix, j, kind, nb); for (int i = 0; i < 16; i++) printf("%02x", out[i]); printf(" %lu\n", trial); return 0; } }
    }
}
