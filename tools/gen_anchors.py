#!/usr/bin/env python3
"""Development-time generator of spec/anchors/*.ndjson: inputs with outputs computed by implementations that are
independent of libsodium AND of the TLA+ modules (Python hashlib / hmac, OpenSSL 3 command line). ./check --setup
feeds these records to the oracle modules; a spec module is used as an oracle only if its anchors pass.
The generated files are committed, so neither Python's hashlib nor OpenSSL is needed at check time."""
import hashlib, hmac, json, os, random, subprocess
HERE = os.path.dirname(os.path.dirname(os.path.abspath(__file__)))
rnd = random.Random(20261003)
def rb(n): return bytes(rnd.randrange(256) for _ in range(n))
def L(b): return list(b)
def ossl_mac(alg, key, msg, opts=()):
    p = subprocess.run(["openssl", "mac", "-macopt", "hexkey:" + key.hex()] + [x for o in opts for x in ("-macopt", o)] + ["-binary", alg], input=msg, capture_output=True)
    assert p.returncode == 0, p.stderr
    return p.stdout
def hkdf_expand(prk, info, n, h):
    out, t, i = b"", b"", 1
    while len(out) < n:
        t = hmac.new(prk, t + info + bytes([i]), h).digest(); out += t; i += 1
    return out[:n]
recs = []
for n in [0, 1, 3, 55, 56, 63, 64, 65, 111, 112, 119, 120, 127, 128, 129, 200, 257]:
    m = rb(n)
    recs.append({"op": "sha256", "outlen": 32, "m": L(m), "k": [], "forms": 1, "outs": [L(hashlib.sha256(m).digest())]})
    recs.append({"op": "sha512", "outlen": 64, "m": L(m), "k": [], "forms": 1, "outs": [L(hashlib.sha512(m).digest())]})
    for kl in (0, 1, 32, 64, 65, 128, 129):
        k = rb(kl)
        if n % 3 == 0:
            recs.append({"op": "hmacsha256", "outlen": 32, "m": L(m), "k": L(k), "forms": 1, "outs": [L(hmac.new(k, m, "sha256").digest())], "verify": 0})
            recs.append({"op": "hmacsha512", "outlen": 64, "m": L(m), "k": L(k), "forms": 1, "outs": [L(hmac.new(k, m, "sha512").digest())], "verify": 0})
            recs.append({"op": "hmacsha512256", "outlen": 32, "m": L(m), "k": L(k), "forms": 1, "outs": [L(hmac.new(k, m, "sha512").digest()[:32])], "verify": 0})
    for (ol, kl) in ((64, 0), (32, 32), (1, 64), (17, 5), (48, 64)):
        k = rb(kl)
        recs.append({"op": "blake2b", "outlen": ol, "m": L(m), "k": L(k), "forms": 1, "outs": [L(hashlib.blake2b(m, key=k, digest_size=ol).digest())]})
        s, p = rb(16), rb(16)
        recs.append({"op": "blake2b_sp", "outlen": ol, "m": L(m), "k": L(k), "salt": L(s), "pers": L(p), "forms": 1,
                     "outs": [L(hashlib.blake2b(m, key=k, digest_size=ol, salt=s, person=p).digest())]})
    k16, k32 = rb(16), rb(32)
    recs.append({"op": "siphash24", "outlen": 8, "m": L(m), "k": L(k16), "forms": 1, "outs": [L(ossl_mac("SIPHASH", k16, m, ["size:8"]))]})
    recs.append({"op": "siphashx24", "outlen": 16, "m": L(m), "k": L(k16), "forms": 1, "outs": [L(ossl_mac("SIPHASH", k16, m, ["size:16"]))]})
    recs.append({"op": "poly1305", "outlen": 16, "m": L(m), "k": L(k32), "forms": 1, "outs": [L(ossl_mac("POLY1305", k32, m))], "verify": 0})
    kff = b"\xff" * 32
    recs.append({"op": "poly1305", "outlen": 16, "m": L(b"\xff" * n), "k": L(kff), "forms": 1, "outs": [L(ossl_mac("POLY1305", kff, b"\xff" * n))], "verify": 0})
# the SipHash paper's vector and RFC 8439 2.5.2
recs.append({"op": "siphash24", "outlen": 8, "m": list(range(15)), "k": list(range(16)), "forms": 1, "outs": [L(bytes.fromhex("e545be4961ca29a1"))]})
recs.append({"op": "poly1305", "outlen": 16, "m": L(b"Cryptographic Forum Research Group"), "k": L(bytes.fromhex("85d6be7857556d337f4452fe42d506a80103808afb0db2fd4abff6af4149f51b")),
             "forms": 1, "outs": [L(bytes.fromhex("a8061dc1305136c6c22b8baf0c0127a9"))], "verify": 0})
for i in range(10):
    salt, ikm, info = rb(i * 9), rb(10 + i * 7), rb(i * 5)
    ol = [0, 1, 32, 33, 64, 65, 100, 255, 256, 300][i]
    for name, h, hl in (("hkdf256", "sha256", 32), ("hkdf512", "sha512", 64)):
        prk = hmac.new(salt if salt else bytes(hl), ikm, h).digest()
        recs.append({"op": name, "ret": 0, "salt": L(salt), "ikm": L(ikm), "info": L(info), "prk": L(prk), "out": L(hkdf_expand(prk, info, ol, h))})
with open(os.path.join(HERE, "spec", "anchors", "hash_anchors.ndjson"), "w") as f:
    for r in recs:
        f.write(json.dumps(r, separators=(",", ":")) + "\n")
print("hash anchors:", len(recs))

# ---------------------------------------------------------------- AEAD and stream anchors through OpenSSL's libcrypto (ctypes)
import ctypes, ctypes.util
lc = ctypes.CDLL(ctypes.util.find_library("crypto"))
lc.EVP_CIPHER_CTX_new.restype = ctypes.c_void_p
lc.EVP_CIPHER_fetch.restype = ctypes.c_void_p
lc.EVP_CIPHER_fetch.argtypes = [ctypes.c_void_p, ctypes.c_char_p, ctypes.c_char_p]
def evp_aead(name, key, iv, ad, msg, taglen=16):
    ctx = ctypes.c_void_p(lc.EVP_CIPHER_CTX_new())
    ciph = ctypes.c_void_p(lc.EVP_CIPHER_fetch(None, name, None))
    assert ciph.value
    assert lc.EVP_EncryptInit_ex(ctx, ciph, None, None, None) == 1
    assert lc.EVP_CIPHER_CTX_ctrl(ctx, 0x9, len(iv), None) == 1            # EVP_CTRL_AEAD_SET_IVLEN
    assert lc.EVP_EncryptInit_ex(ctx, None, None, key, iv) == 1
    outl = ctypes.c_int(0)
    if ad:
        assert lc.EVP_EncryptUpdate(ctx, None, ctypes.byref(outl), ad, len(ad)) == 1
    out = ctypes.create_string_buffer(len(msg) + 32)
    n = 0
    if msg:
        assert lc.EVP_EncryptUpdate(ctx, out, ctypes.byref(outl), msg, len(msg)) == 1
        n = outl.value
    assert lc.EVP_EncryptFinal_ex(ctx, ctypes.byref(out, n), ctypes.byref(outl)) == 1
    n += outl.value
    tag = ctypes.create_string_buffer(taglen)
    assert lc.EVP_CIPHER_CTX_ctrl(ctx, 0x10, taglen, tag) == 1             # EVP_CTRL_AEAD_GET_TAG
    lc.EVP_CIPHER_CTX_free(ctx)
    return out.raw[:n], tag.raw
def evp_stream(name, key, iv, n):
    ctx = ctypes.c_void_p(lc.EVP_CIPHER_CTX_new())
    ciph = ctypes.c_void_p(lc.EVP_CIPHER_fetch(None, name, None))
    assert lc.EVP_EncryptInit_ex(ctx, ciph, None, key, iv) == 1
    out = ctypes.create_string_buffer(n + 64); outl = ctypes.c_int(0)
    assert lc.EVP_EncryptUpdate(ctx, out, ctypes.byref(outl), bytes(n), n) == 1
    lc.EVP_CIPHER_CTX_free(ctx)
    return out.raw[:n]
arecs = []
for ml, al in [(0, 0), (1, 0), (0, 5), (16, 16), (17, 13), (63, 1), (64, 0), (65, 33), (100, 12), (128, 31), (129, 64), (255, 7), (300, 100)]:
    k, n12, ad, m = rb(32), rb(12), rb(al), rb(ml)
    for alg, name in (("chacha20poly1305_ietf", b"ChaCha20-Poly1305"), ("aes256gcm", b"AES-256-GCM")):
        c, t = evp_aead(name, k, n12, ad, m)
        arecs.append({"op": "aead", "alg": alg, "k": L(k), "n": L(n12), "ad": L(ad), "m": L(m), "nforms": 2, "dec_ok": True, "res": [{"c": L(c), "t": L(t)}]})
with open(os.path.join(HERE, "spec", "anchors", "aead_anchors.ndjson"), "w") as f:
    for r in arecs:
        f.write(json.dumps(r, separators=(",", ":")) + "\n")
print("aead anchors:", len(arecs))
# ChaCha20 (OpenSSL: 16-byte IV = 32-bit little-endian counter || 96-bit nonce) as stream-group records
srecs = []
for ic in (0, 1, 0xfffffff0):
    k, n12 = rb(32), rb(12)
    ks = evp_stream(b"ChaCha20", k, ic.to_bytes(4, "little") + n12, 700)
    sums, s1, s2 = [], 0, 0
    for i in range(701):
        sums.append([i, s1, s2])
        if i < 700:
            s1 += ks[i]; s2 += ((i % 251) + 1) * ks[i]
    bl = [b for b in (0, 1, 63, 64, 65, 127, 128, 129, 191, 192, 255, 256, 257, 319, 320, 383, 384, 447, 448, 511, 512, 513, 575, 576, 577, 639, 640, 700)]
    srecs.append({"op": "stream", "v": "chacha20_ietf", "form": 0, "k": L(k), "n": L(n12), "ic": L(ic.to_bytes(8, "little")), "maxlen": 700,
                  "sums": sums, "full": [L(ks[:b]) for b in bl], "ret0": True, "untouched": True})
with open(os.path.join(HERE, "spec", "anchors", "stream_anchors.ndjson"), "w") as f:
    for r in srecs:
        f.write(json.dumps(r, separators=(",", ":")) + "\n")
print("stream anchors:", len(srecs))
