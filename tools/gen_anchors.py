#!/usr/bin/env python3
"""Development-time generator of spec/anchors/*.ndjson: inputs with outputs computed by implementations that are
independent of libsodium AND of the TLA+ modules (Python hashlib / hmac, OpenSSL 3 command line). ./check --setup
feeds these records to the oracle modules; a spec module is used as an oracle only if its anchors pass.
The generated files are committed, so neither Python's hashlib nor OpenSSL is needed at check time."""
import hashlib, hmac, json, os, random, subprocess
HERE = os.path.dirname(os.path.dirname(os.path.abspath(__file__)))
rnd = random.Random(20261003)
def rb(n): return bytes(rnd.randrange(256) for _ in range(n))
def L(b): return list(b)
def ossl_mac(alg, key, msg, opts=()):
    p = subprocess.run(["openssl", "mac", "-macopt", "hexkey:" + key.hex()] + [x for o in opts for x in ("-macopt", o)] + ["-binary", alg], input=msg, capture_output=True)
    assert p.returncode == 0, p.stderr
    return p.stdout
def hkdf_expand(prk, info, n, h):
    out, t, i = b"", b"", 1
    while len(out) < n:
        t = hmac.new(prk, t + info + bytes([i]), h).digest(); out += t; i += 1
    return out[:n]
recs = []
for n in [0, 1, 3, 55, 56, 63, 64, 65, 111, 112, 119, 120, 127, 128, 129, 200, 257]:
    m = rb(n)
    recs.append({"op": "sha256", "outlen": 32, "m": L(m), "k": [], "forms": 1, "outs": [L(hashlib.sha256(m).digest())]})
    recs.append({"op": "sha512", "outlen": 64, "m": L(m), "k": [], "forms": 1, "outs": [L(hashlib.sha512(m).digest())]})
    for kl in (0, 1, 32, 64, 65, 128, 129):
        k = rb(kl)
        if n % 3 == 0:
            recs.append({"op": "hmacsha256", "outlen": 32, "m": L(m), "k": L(k), "forms": 1, "outs": [L(hmac.new(k, m, "sha256").digest())], "verify": 0})
            recs.append({"op": "hmacsha512", "outlen": 64, "m": L(m), "k": L(k), "forms": 1, "outs": [L(hmac.new(k, m, "sha512").digest())], "verify": 0})
            recs.append({"op": "hmacsha512256", "outlen": 32, "m": L(m), "k": L(k), "forms": 1, "outs": [L(hmac.new(k, m, "sha512").digest()[:32])], "verify": 0})
    for (ol, kl) in ((64, 0), (32, 32), (1, 64), (17, 5), (48, 64)):
        k = rb(kl)
        recs.append({"op": "blake2b", "outlen": ol, "m": L(m), "k": L(k), "forms": 1, "outs": [L(hashlib.blake2b(m, key=k, digest_size=ol).digest())]})
        s, p = rb(16), rb(16)
        recs.append({"op": "blake2b_sp", "outlen": ol, "m": L(m), "k": L(k), "salt": L(s), "pers": L(p), "forms": 1,
                     "outs": [L(hashlib.blake2b(m, key=k, digest_size=ol, salt=s, person=p).digest())]})
    k16, k32 = rb(16), rb(32)
    recs.append({"op": "siphash24", "outlen": 8, "m": L(m), "k": L(k16), "forms": 1, "outs": [L(ossl_mac("SIPHASH", k16, m, ["size:8"]))]})
    recs.append({"op": "siphashx24", "outlen": 16, "m": L(m), "k": L(k16), "forms": 1, "outs": [L(ossl_mac("SIPHASH", k16, m, ["size:16"]))]})
    recs.append({"op": "poly1305", "outlen": 16, "m": L(m), "k": L(k32), "forms": 1, "outs": [L(ossl_mac("POLY1305", k32, m))], "verify": 0})
    kff = b"\xff" * 32
    recs.append({"op": "poly1305", "outlen": 16, "m": L(b"\xff" * n), "k": L(kff), "forms": 1, "outs": [L(ossl_mac("POLY1305", kff, b"\xff" * n))], "verify": 0})
# the SipHash paper's vector and RFC 8439 2.5.2
recs.append({"op": "siphash24", "outlen": 8, "m": list(range(15)), "k": list(range(16)), "forms": 1, "outs": [L(bytes.fromhex("e545be4961ca29a1"))]})
recs.append({"op": "poly1305", "outlen": 16, "m": L(b"Cryptographic Forum Research Group"), "k": L(bytes.fromhex("85d6be7857556d337f4452fe42d506a80103808afb0db2fd4abff6af4149f51b")),
             "forms": 1, "outs": [L(bytes.fromhex("a8061dc1305136c6c22b8baf0c0127a9"))], "verify": 0})
for i in range(10):
    salt, ikm, info = rb(i * 9), rb(10 + i * 7), rb(i * 5)
    ol = [0, 1, 32, 33, 64, 65, 100, 255, 256, 300][i]
    for name, h, hl in (("hkdf256", "sha256", 32), ("hkdf512", "sha512", 64)):
        prk = hmac.new(salt if salt else bytes(hl), ikm, h).digest()
        recs.append({"op": name, "ret": 0, "salt": L(salt), "ikm": L(ikm), "info": L(info), "prk": L(prk), "out": L(hkdf_expand(prk, info, ol, h))})
with open(os.path.join(HERE, "spec", "anchors", "hash_anchors.ndjson"), "w") as f:
    for r in recs:
        f.write(json.dumps(r, separators=(",", ":")) + "\n")
print("hash anchors:", len(recs))
