#!/usr/bin/env python3
"""Writes MANIFEST.json from the table below (kept next to the checks so the two cannot drift)."""
import json, os
HERE = os.path.dirname(os.path.dirname(os.path.abspath(__file__)))
HOOK_COMMITS = ["1c683d2", "b5da747", "ff97915", "47ff84c"]
FIX_COMMITS = ["871fcdb", "417869c"]
CHECKS = {
 "C09": dict(level="model_checking", design="3/C09",
   technique="TLC exhaustive model checking of SecretStream.tla + trace validation (TLC) of recorded real executions + TLC-evaluated byte-level oracle",
   text="TLC explores every interleaving of push / explicit rekey / pull-of-any-chunk (intact, tampered, replayed, foreign, wrong ad) on the symbolic-crypto model within small constants and checks Prefix, OnlyNext, Sync, Resync, FailUnchanged; the model is bound to the code by replaying TLC-generated behaviours and seeded random long histories on the real API (5 backend/build configurations, counters at 2^32-k) and validating every recorded event - return code, message, tag, counter, key change, state-unchanged, output-untouched, byte equality of the two states - with the trace specification; chunk, header and rekey bytes are validated against the documented construction evaluated by TLC.",
   note="Trusted: TLC, the harness's projection (digests identify byte strings), symbolic perfect cryptography in the model; bounds: MaxPush 3 (quick) / 4 (thorough), one explicit rekey per side, one foreign chunk in the exhaustive model; traces are not bounded that way."),
}
CHECKS["C15"] = dict(level="model_checking", design="3/C15",
   technique="TLC exhaustive check of the decoder automaton (CodecMachine.tla) against the declarative RFC 4648 decoder (Codec.tla) + TLC validation of recorded decoder/encoder executions",
   text="TLC checks, for every text up to length 4 (5 thorough) over a 12-character alphabet holding a representative of every character class, every codec/variant, ignore option, capacity and end-pointer option, that the decoder automaton shaped like the C loops returns exactly what the declarative decoder written from RFC 4648 and the documented contract returns (Agree, WithinCapacity, RoundTrip). The real sodium_hex2bin/sodium_base642bin are then run on every text up to length 3 (4 thorough) over a 13..16-character alphabet, every byte value 0..255 in five contexts, mutated valid encodings and long texts, under all 5 codecs x ignore x end pointer x capacity 0..4 with text and output ending at PROT_NONE pages, encoders and round trips for every length 0..70 (300), and TLC judges every record against Codec.tla.",
   note="Trusted: TLC, the driver's projection of call results into records. errno classes and the reported length on failure are not compared (the property does not state them). Bounded text length for the exhaustive parts; longer texts only by mutation sampling.")
CHECKS["C16"] = dict(level="model_checking", design="3/C16",
   technique="TLC exhaustive check of the pad/unpad loops (PadMachine.tla) against Pad.tla + TLC validation of recorded executions",
   text="TLC checks for every buffer over {00,80,01,81} up to 8 (10) bytes and every block size 0..6 (8) that the constant-time pad and unpad loops written out as in the C code return what the declarative ISO 7816-4 definition returns, for every capacity, and that unpad(pad(x)) = len(x). The real functions are run on a sweep of lengths 0..80 (300) x 21 (140) block sizes x capacities around the boundary, markers at every position of the final block with corrupted variants, and exhaustively on all final blocks over {00,80,01} for block sizes <= 6, with buffers ending at PROT_NONE pages and the final block placed against a PROT_NONE page on either side (so a read outside the final block faults); TLC judges every record against Pad.tla.",
   note="Trusted: TLC and the driver's projection. Block sizes above 65536 are not executed. The overflow/misuse case belongs to C12.")
CHECKS["C14"] = dict(level="exploration", design="3/C14",
   technique="TLC-evaluated oracle (CtHelpers.tla) over recorded executions of the real helpers on exhaustive small and structured operands",
   text="Every call of sodium_memcmp/compare/is_zero/increment/add/sub/memzero and crypto_verify_16/32/64 made by the driver is judged by TLC against exact definitions (equality, little-endian order decided by the most significant differing byte, carry/borrow folds modulo 2^(8 len)): exhaustive 1-byte operands, a 16^4 class product and 60000 random 2-byte operands, and for each length 0..70 (130) single-bit and single-byte differences at every position, carry/borrow chains of every length, seam patterns for the 8/12/24/64-byte assembly paths, all 16 alignments, in the native (asm), noasm and portable builds. It is an input sweep with an independent oracle, not a proof over all operands.",
   note="Trusted: TLC and the driver's projection; only the executed operand pairs are decided.")
CHECKS["C17"] = dict(level="model_checking", design="3/C17",
   technique="TLC exhaustive model checking of GuardedAlloc.tla (scaled page) + trace validation (TLC) of real malloc/mprotect/probe/free executions with the real page size",
   text="TLC explores every allocation size 0..3 pages+1 (page 32, canary 16), every sequence of up to 4 protection changes and probes and free, and checks the layout invariants for all sizes (user end = guard page start, canary adjacent and inside the first data page so that free/mprotect recover the data pages, rounding), that an access past the end faults under every protection, that protections apply to the whole user region, and that free terminates the process exactly when a canary byte was altered. The real library is then driven through scripted scenarios (all sizes around every page boundary up to 3 pages, every protection sequence up to length 2 (4 thorough), real read/write probes caught by a SIGSEGV handler, canary tampering, free in a forked child, oversize and overflowing requests) and every recorded event - layout read from /proc/self/maps, fill byte, probe outcome, termination - is validated against the same specification instantiated with page size 4096.",
   note="Trusted: TLC, /proc/self/maps as the observation of protections, fork/wait as observation of termination. mlock/madvise are not observed. x86-64 Linux only.")
CHECKS["C20"] = dict(level="fault_enumeration", design="3/C20",
   technique="exhaustive single/suffix fault injection at every allocation request (link-time interposition) validated by TLC against the AllocFault.tla monitor; TLC model check of the allocation-protocol design",
   text="For each of 18 API calls (Argon2i/id raw, string, verify with right and wrong password, needs_rehash; scrypt raw, string, verify, low-level; sodium_malloc, sodium_allocarray) and each build variant that changes the allocator branch (mmap, posix_memalign, malloc+63), the call's n allocation requests are counted and the call is re-run in a forked child with request i failing and with every request from i on failing, for every i; the recorded events (requests, releases, return value, whether the right hash/string/match/pointer was produced, crash) are validated by TLC against the monitor: no double or foreign free, and if any request failed then error return, nothing produced, nothing leaked. TLC also explores every failure subset of the design model of the protocols. Enumeration is complete for the listed calls and parameter sets (exhaustive: true); it is not a statement about other parameter sets.",
   note="Trusted: the linker interposition sees every request the library makes (libc-internal requests would not be seen; none exist on these paths); fork/wait as crash observation. mprotect/mlock failures are not injected.")
CHECKS["C18"] = dict(level="model_checking", design="3/C18",
   technique="TLC exhaustive model checking of the rejection sampler (RandomSource.tla, 6-bit words) + trace validation (TLC, real 32-bit arithmetic) of recorded sampler / generator executions under a scripted random source",
   text="TLC explores every bound 0..63 and every sequence of up to two draws of the sampler state machine at word size 6 and checks range, first-accepted-draw, no-draw-for-n<2 and exact uniformity of the accepted set (the invariant that separates the right threshold from r <= min or a wrong modulus). The same state machine, instantiated with exact 32-bit arithmetic on BigNat, validates traces of the real randombytes_uniform under a scripted source (public API, uniform = NULL): structured bounds (0,1,2,2^k+-1,2^31+-1,2^32-1,random) x draws placed at the threshold -1/0/+1, including how many draws were consumed. Every generating API (45: all keygens, key pairs, scalar/point generators, secretstream header, sealed box, password-hash strings) is run under three scripts, twice with the same bytes and once with perturbed bytes, and TLC checks request sizes, secret = served bytes (scalars: the rejection loop on L computed in the spec), salt encoded in the hash string, reproducibility and sensitivity; the deterministic generator is compared with the ChaCha20-IETF keystream under 'LibsodiumDRG' computed by TLC at ~60 lengths up to 1100 bytes for two seeds.",
   note="Trusted: TLC; the scripted source sees every request because it is the installed implementation. Public keys/points as functions of the served bytes are checked under C05-C07, not here.")
CHECKS["C19"] = dict(level="model_checking", design="3/C19",
   technique="TLC model checking of Init.tla (N threads, safety + liveness under weak fairness) + trace validation (TLC) of hook-recorded real sodium_init races; ThreadSanitizer as observer for the race-freedom half",
   text="TLC explores every interleaving of 3 (thorough: also 5) threads stepping through sodium_init one action per step taken under the lock (lock, check, cpu, stir, alloc, eight picks, set-initialised, unlock, return, use) and checks mutual exclusion, once-only initialisation, no-partial-initialisation-visible-after-return, return values (exactly one 0, the rest 1) and termination under weak fairness; three wrong designs (flag set first + unlocked check, unlock before the picks, flag never set) must violate them. The real library is raced in a fresh process per trial (2..16 threads behind a barrier, seeded spins, 5 CPU masks, 2-3 builds) with the guarded hook reporting every step under the lock stamped by a global sequence number, and TLC must explain every recorded trial as a behaviour of Init with the reported return values; a thread returning without the lock steps, a step while another thread is inside, a return before initialisation is complete or two initialisations are rejected whatever the timing was. Race freedom of the rest of the API is observed with ThreadSanitizer on a 20-family workload with the default and the internal random source, and per-thread results are compared with a sequential run.",
   note="Trusted: TLC; the hook's atomic sequence counter; ThreadSanitizer's happens-before analysis for the second half (this half is observer-based exploration of the executed workload, not model checking: TLA+ cannot see unordered memory accesses). Sequentially consistent memory in the model.")
CHECKS["C10"] = dict(level="model_checking", design="3/C10",
   technique="TLC exhaustive check of the detection/dispatch specification (Dispatch.tla) + TLC trace validation of detection and pick events under 20 CPUID/XCR0 masks and 4 builds + TLC-checked equality of a 94-function corpus across all 23 configurations",
   text="TLC enumerates every architecturally closed CPUID bit set x every set of OS-enabled state components x 4 builds (19 968 configurations) and checks that the detection function never reports a feature processor+OS lack, that no selected implementation executes an absent feature and that AES-GCM reports itself available only with its hardware; dropping the XCR0 test must violate it. The real library is then started under 20 masks that clear CPUID/XCR0 bits before detection (guarded hook) on the native build plus the noasm, no128 and portable builds: the trace specification requires the reported feature flags to equal Dispatch!Detect of the masked inputs and every pick event to equal Dispatch!Pick (all 23 implementations get selected by some configuration), AES-GCM availability as specified and clean failure in the build without it. A shared corpus (94 function families, boundary lengths, ~3.9k calls quick / 6.8k thorough) runs in each configuration and every (function, case) result and return code must equal the reference configuration's.",
   note="Trusted: TLC; the hook mask can only hide features; the reference configuration's bytes are validated by the owning properties, here only equality. Other architectures are out of reach.")
CHECKS["C03"] = dict(level="exploration", design="3/C03",
   technique="TLC-evaluated oracle (ChaCha.tla / Salsa.tla written from the specifications) over recorded executions at every length, every call form, counter windows around 2^32 and 2^64, on every backend",
   text="For each of 7 variants x 3 call forms x several (key, nonce, initial counter) windows x 6 backend/build configurations the real functions are run at EVERY length 0..2304 with the output ending at a PROT_NONE page; TLC evaluates the keystream of the group once from the specification module and checks every length against it (all bytes at 36 boundary lengths, two position-weighted checksums at every other length), which also decides 'start at counter i = skip 64*i bytes' across the 32-bit carries because the specification's counter is arithmetic in N; IETF probes at the counter limit +-1 must end in the misuse handler exactly when ic + ceil(len/64) > 2^32; HChaCha20/HSalsa20/Salsa20 cores with and without the constant argument are byte-exact. An input sweep with an independent oracle, not a proof.",
   note="Trusted: TLC; spec modules are anchored on RFC 8439 vectors (ChaCha block, Poly1305) in spec/anchors; at non-boundary lengths only checksums are compared.")
CHECKS["C04"] = dict(level="exploration", design="3/C04",
   technique="TLC-evaluated oracle (Sha2.tla, Blake2b.tla, SipHash.tla, Poly1305.tla written from the standards, anchored on hashlib/OpenSSL vectors) over recorded one-shot and multi-part executions on every backend",
   text="For every listed message length the driver runs the one-shot call and init/update/final under 16 chunkings (single bytes, empty chunks, splits around 16/64/128, random) for SHA-256/512, the three HMACs with key lengths 0..128, BLAKE2b with every output and key length plus salt/personalisation, SipHash-2-4 (64/128 bit), Poly1305 incl. crafted accumulators at 2^130-5+-k and all-0xff blocks, HKDF-SHA-256/512 incl. the 255*HashLen limit, crypto_kdf incl. its range, every single-bit flip of MAC tags, and all out-of-range length combinations; each (function, input) record lists every distinct output seen and TLC requires exactly one, equal to the value it computes from the specification module; run on all BLAKE2b (avx2/sse4.1/ssse3/ref) and Poly1305 (sse2/donna64/donna32) backends and the portable build. An input sweep with an independent oracle, not a proof.",
   note="Trusted: TLC; the SHA-2 constants are derived from the FIPS definition (integer roots of primes) by tools/gen_tables.py; spec modules must pass 420 anchor records computed by hashlib/hmac/OpenSSL (setup).")
CHECKS["C05"] = dict(level="exploration", design="3/C05",
   technique="TLC-evaluated oracle (X25519.tla: RFC 7748 ladder on exact field arithmetic in Fe25519.tla) over recorded executions on all three ladder/field backends",
   text="The real crypto_scalarmult / _base / box_beforenm (both ciphers) / kx session keys / seeded key pairs are run on structured inputs - the low-order and non-canonical point encodings with either top bit, u around p and 2^255, all-ones limb patterns of both field radices, all clamp-bit patterns, all-zero and all-one scalars, crafted pairs whose shared point is the tiny value 9 - and seeded random pairs, on sandy2x, ref10/fe_51, ref10/fe_25_5 and the portable build; TLC computes the RFC 7748 result (scalar clamped, top bit ignored, non-canonical u reduced, ladder with conditional swaps, inversion, canonical encoding) and requires equal bytes, failure exactly for the all-zero shared point, HSalsa20/HChaCha20 of the shared point for precomputation, BLAKE2b-512(q || client_pk || server_pk) split and crossed for kx, SHA-512 / BLAKE2b-256 seed expansion. About 2.7 s of TLC per scalar multiplication bounds the number of inputs (142 distinct records quick). An input sweep with an independent oracle, not a proof.",
   note="Trusted: TLC; Fe25519/X25519 modules anchored on the RFC 7748 section 5.2 vector and on OpenSSL-generated pairs (spec/anchors). On failure only the return code is compared (the property does not state the buffer contents).")
NOT_YET = {}
def main():
    props = [json.loads(l) for l in open(os.path.join(HERE, "properties.jsonl"))]
    checks = []
    na = []
    for p in props:
        pid = p["id"]
        if pid in CHECKS:
            c = CHECKS[pid]
            checks.append({
                "property_id": pid,
                "quick_cmd": "./check %s --tier quick" % pid,
                "thorough_cmd": "./check %s --tier thorough" % pid,
                "evidence_file": "evidence/%s.json" % pid,
                "replay_cmd_template": "./check %s --replay {path}" % pid,
                "engine": "tlc",
                "level_claimed": {"category": c["level"], "text": c["text"], "design_ref": "DESIGN.md section " + c["design"]},
                "level_note": c["note"],
                "technique": c["technique"],
            })
        else:
            na.append({"property_id": pid, "reason": NOT_YET.get(pid, "check not built yet in this round (see DESIGN.md section 7 for the order); no claim is made")})
    m = {
        "version": 1,
        "setup_cmd": "./check --setup",
        "hooks": {
            "guard": "SODIUM_VERIF",
            "enable": "build/build_variant.sh compiles /repo/src/libsodium flat with -DSODIUM_VERIF (CPUID/XCR0 clear masks from the environment, pick_best_implementation events, sodium_init events)",
            "baseline_off_cmd": "cd /repo && make -j16 check",
            "source_commits": HOOK_COMMITS,
            "add_only": True,
        },
        "engines": [{"name": "tlc", "path": "/verif/check", "serves_properties": sorted(CHECKS),
                     "kind_free_text": "TLA+ specifications under spec/ checked by TLC 1.8.0 (exhaustive, simulation, trace validation, oracle evaluation); C harnesses under harness/ drive and record the real library"}],
        "checks": checks,
        "notes": "All checks rebuild libsodium from /repo's working tree (flat build, several variants) into a scratch directory under /var/tmp which is removed on exit. Exit 2 = machinery failure (never a claim about the code).",
        "not_applicable": na,
    }
    with open(os.path.join(HERE, "MANIFEST.json"), "w") as fh:
        json.dump(m, fh, indent=1)
        fh.write("\n")
if __name__ == "__main__":
    main()
