#!/bin/bash
# build_variant.sh <variant> <outdir> [repo]
# Flat rebuild of libsodium from the working tree of <repo> (default /repo) into <outdir>/libsodium.a,
# with the verification hooks enabled (-DSODIUM_VERIF) unless VERIF_NOHOOKS=1.
# Variants: native noasm no128 portable nommap asan tsan ubsan
set -e
variant=${1:?variant}; out=${2:?outdir}; repo=${3:-${VERIF_REPO:-/repo}}
src=$repo/src/libsodium
mkdir -p "$out/obj"
defs=$(grep -m1 '^DEFS = ' "$src/Makefile" 2>/dev/null | sed 's/^DEFS = //') || true
if [ -z "$defs" ]; then defs=$(cat "$(dirname "$0")/defs.native"); fi
drop() { for d in "$@"; do defs=$(printf '%s' "$defs" | sed -E "s/ -D${d}=[^ ]*//g"); done; }
CC=${CC:-gcc}; extra=""; opt="-O2"
case "$variant" in
  native) ;;
  noasm) drop HAVE_AMD64_ASM HAVE_AVX_ASM HAVE_INLINE_ASM ;;
  no128) drop HAVE_TI_MODE ;;
  portable) drop HAVE_AMD64_ASM HAVE_AVX_ASM HAVE_INLINE_ASM HAVE_TI_MODE NATIVE_LITTLE_ENDIAN HAVE_CPUID \
      HAVE_MMINTRIN_H HAVE_EMMINTRIN_H HAVE_PMMINTRIN_H HAVE_TMMINTRIN_H HAVE_SMMINTRIN_H HAVE_AVXINTRIN_H \
      HAVE_AVX2INTRIN_H HAVE_AVX512FINTRIN_H HAVE_WMMINTRIN_H HAVE_RDRAND ;;
  nommap) drop HAVE_MMAP HAVE_MLOCK HAVE_MADVISE ;;
  nommap2) drop HAVE_MMAP HAVE_MLOCK HAVE_MADVISE HAVE_POSIX_MEMALIGN ;;
  asan) CC=${CC_SAN:-clang}; extra="-fsanitize=address,undefined -fno-sanitize=alignment,nonnull-attribute,returns-nonnull-attribute -fno-sanitize-recover=undefined -fno-omit-frame-pointer -g"; opt="-O1" ;;
  tsan) CC=${CC_SAN:-clang}; extra="-fsanitize=thread -g"; opt="-O1" ;;
  *) echo "unknown variant $variant" >&2; exit 2 ;;
esac
hooks="-DSODIUM_VERIF"; [ "${VERIF_NOHOOKS:-0}" = 1 ] && hooks=""
cflags="$opt -pthread -fno-strict-aliasing -fno-strict-overflow -Wno-deprecated-declarations -Wno-unknown-pragmas -w $extra $hooks -DSODIUM_STATIC=1 -I$src/include/sodium -I$src/include"
printf '%s\n' "$defs" > "$out/defs.txt"
cd "$src"
find . -name '*.c' -o -name '*.S' | sort > "$out/files.txt"
export CC cflags defs out
compile_one() {
  f=$1; o="$out/obj/$(printf '%s' "$f" | sed 's#^\./##; s#/#__#g').o"
  eval "$CC $cflags $defs -c \"$f\" -o \"$o\"" || { echo "FAILED $f" >&2; exit 1; }
}
export -f compile_one
xargs -P "${VERIF_JOBS:-16}" -I{} bash -c 'compile_one {}' < "$out/files.txt"
rm -f "$out/libsodium.a"
ar rcs "$out/libsodium.a" "$out"/obj/*.o
echo "$variant" > "$out/variant.txt"
