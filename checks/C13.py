"""C13 - in-place and overlapping buffers.
1. TLC checks sys/Overlap (symbolic memory, position-dependent injective cipher): secretbox easy/open, sign and
   sign_open for every length <= 9, every placement of the message within +-12 of the output, every stride 1..4;
   exact aliasing for the strided stream core; dropping one side of the pointer-distance test must fail, and plain
   stream XOR at other offsets must fail (that is the contract table).
2. harness/overlap_driver.c runs every overlap-tolerant API with overlapping buffers (29 offsets in [-80, 80] quick,
   all 161 thorough) and with disjoint buffers and records equality, outside-untouched and return-code equality;
   spec/trace/OracleOverlap.tla validates every record against the contract table. Stream/AEAD backends via masks."""
import json
import vlib

LEVEL = "model_checking"
CFGS = [("native", {}), ("native", {"SODIUM_VERIF_CPUID7_EBX_CLEAR": "0x10020"}),
        ("native", {"SODIUM_VERIF_CPUID1_ECX_CLEAR": "0x12080201", "SODIUM_VERIF_CPUID1_EDX_CLEAR": "0x4000000"}), ("noasm", {}), ("portable", {})]


def run(R):
    thorough = R.tier == "thorough"
    r = R.tlc("sys/Overlap.tla", "MCOverlap.cfg", workers=vlib.NCPU, timeout=1800, heap="8g")
    if r.violated:
        R.violation("Overlap model: an overlap-tolerant algorithm gives a wrong result for some placement: " + r.tail(25), r.out, name="model")
    for cfg in ("MCOverlapBroken.cfg", "MCOverlapContract.cfg"):
        rb = R.tlc("sys/Overlap.tla", cfg, workers=4, timeout=600)
        if not rb.violated:
            raise vlib.MachineryError("vacuity: %s is not rejected" % cfg)
    R.add("states", r.distinct); R.add("transitions", r.generated)
    R.cov["model"] = {"module": "Overlap", "placements": r.distinct, "broken_variants_rejected": 2}
    R.build_all(sorted({v for v, _ in CFGS}))
    files = []
    for i, (variant, env) in enumerate(CFGS):
        exe = R.cc("overlap_driver", ["overlap_driver.c"], variant)
        out = R.path("ov", "o%d.ndjson" % i)
        R.run([exe, str(R.seed + i), "full" if (thorough and i in (0, 1)) else "quick", out], env=env, ok_codes=(0, 70), timeout=3000)
        files += R.split_file(out, 3 if not (thorough and i in (0, 1)) else 12, "ov%d" % i)
    total, bad = R.oracle("trace/OracleOverlap.tla", files, timeout=1800)
    seen = set()
    for b in bad:
        if b["api"] in seen:
            continue
        seen.add(b["api"])
        R.violation("%s with overlapping buffers (length %d, offset %d) differs from the disjoint call (equal=%s, outside untouched=%s, same return=%s)"
                    % (b["api"], b["len"], b["off"], b["equal"], b["outside_ok"], b["ret_same"]), b, name="overlap")
    R.add("traces_validated_against_impl", total)
    R.cov["configurations"] = ["%s %s" % c for c in CFGS]
    R.sample_line(files[0], 7)
    R.assumptions += ["the disjoint reference outputs themselves are validated under C01/C03/C06"]


def replay(R, path):
    run(R)
