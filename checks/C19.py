"""C19 - initialisation and all operations are thread-safe.
1. TLC model-checks sys/Init (N threads racing through sodium_init, one action per step under the lock) for
   Mutex, InitOnce, NoPartial, Returns and termination under weak fairness; three wrong designs must fail.
2. harness/init_race.c: a fresh process per trial, N in {2,3,4,8,16} threads behind a barrier with seeded
   spins; the SODIUM_VERIF hook reports every step taken under the init lock with a global sequence number;
   sys/TraceInit.tla must be able to explain every recorded trial as a behaviour of Init (and the reported
   CPU features / picked implementations as Dispatch says).
3. harness/mt_workload.c on the ThreadSanitizer build: 2..16 threads over every API family, with the default
   and the internal random source; any ThreadSanitizer report is a violation; deterministic results must equal
   the sequential run."""
import json
import os
import re
import vlib

LEVEL = "model_checking"
MASKS = [{}, {"SODIUM_VERIF_CPUID7_EBX_CLEAR": "0x10000"}, {"SODIUM_VERIF_CPUID7_EBX_CLEAR": "0x10020"},
         {"SODIUM_VERIF_XCR0_CLEAR": "0x4"}, {"SODIUM_VERIF_CPUID1_ECX_CLEAR": "0x18080201", "SODIUM_VERIF_CPUID1_EDX_CLEAR": "0x4000000"}]


def validate_init_traces(R, traces):
    res = R.tlc_shards("sys/TraceInit.tla", "TraceInit.cfg", [{"TRACE": t[0]} for t in traces], timeout=1800)
    nacc = 0
    for (tp, variant, env, seed), rr in zip(traces, res):
        lines = open(tp).read().splitlines()
        ntr = sum(1 for x in lines if x.startswith('{"e":"reset"'))
        if rr.ok:
            nacc += ntr
            continue
        m = re.search(r'"REJECTED at line",\s*(\d+)', rr.out)
        inv = re.search(r"Invariant (\w+) is violated", rr.out)
        if not m and not inv:
            raise vlib.MachineryError("TraceInit failed without a verdict:\n" + rr.tail(25))
        line = int(m.group(1)) if m else len(lines)
        line = max(1, min(line, len(lines)))
        start = max(i for i in range(line) if lines[i].startswith('{"e":"reset"'))
        nacc += sum(1 for x in lines[:start] if x.startswith('{"e":"reset"'))
        R.violation("sodium_init trace rejected by TraceInit (%s) at line %d (%s %s): %s" % (inv.group(1) if inv else "no behaviour of Init explains it", line, variant, env, lines[line - 1][:200]),
                    {"variant": variant, "env": env, "seed": seed, "events": lines[start:line + 1]}, name="trace")
    return nacc


def run(R):
    thorough = R.tier == "thorough"
    states = trans = 0
    for cfg in (["MCInit_ok.cfg", "MCInit_ok5.cfg"] if thorough else ["MCInit_ok.cfg"]):
        r = R.tlc("sys/MCInit.tla", cfg, workers=4, timeout=1800, heap="8g")
        if r.violated:
            R.violation("Init design model violates a property (%s): %s" % (cfg, r.tail(30)), r.out, name="model")
        states += r.distinct; trans += r.generated
    for v in ("FlagFirstUnlockedCheck", "UnlockBeforePicks", "NoSetInit"):
        rb = R.tlc("sys/MCInit.tla", "MCInit_%s.cfg" % v, workers=2, timeout=300)
        if not rb.violated:
            raise vlib.MachineryError("vacuity: wrong design %s is not rejected" % v)
    R.add("states", states); R.add("transitions", trans)
    R.cov["model"] = {"module": "Init", "threads": "3%s" % (" and 5" if thorough else ""), "distinct": states, "generated": trans,
                      "properties": ["Mutex", "InitOnce", "NoPartial", "Returns", "Terminates (weak fairness)"], "broken_variants_rejected": 3}
    # --- traces of the real sodium_init
    variants = ["native", "noasm", "portable"] if thorough else ["native", "portable"]
    R.build_all(variants + ["tsan"])
    traces = []
    ntr = 600 if thorough else 40
    k = 0
    for variant in variants:
        exe = R.cc("init_race", ["init_race.c"], variant)
        for env in (MASKS if variant == "native" else [{}]):
            tp = R.path("init", "t%d.ndjson" % k)
            R.run([exe, str(R.seed + k), str(ntr), tp], env=env, timeout=1800)
            traces.append((tp, variant, env, R.seed + k))
            k += 1
    nacc = validate_init_traces(R, traces)
    R.add("traces_validated_against_impl", nacc)
    R.cov["init_trials"] = nacc
    # --- race detection on the mixed workload
    exe = R.cc("mt_workload", ["mt_workload.c"], "tsan")
    reports = 0
    mtfiles = []
    runs = [(8, 3, "default"), (8, 3, "internal"), (2, 4, "default"), (16, 2, "default"), (8, 2, "default-closed"), (12, 2, "default-closed"),
            (8, 2, "default-fallback"), (16, 1, "default-fallback")]      # getrandom() unavailable: every thread served from the shared /dev/urandom descriptor
    if thorough:
        runs += [(16, 6, "internal"), (4, 10, "default"), (12, 5, "default"), (3, 10, "internal")]
    for i, (n, it, rng) in enumerate(runs):
        out = R.path("mt", "mt%d.ndjson" % i)
        rr = R.run([exe, str(R.seed + i), str(n), str(it), rng, out], env={"TSAN_OPTIONS": "halt_on_error=0 exitcode=0 report_signal_unsafe=0"}, timeout=1800, ok_codes=None)
        if rr.returncode != 0:
            R.violation("multi-thread workload crashed (rc=%d, rng=%s)" % (rr.returncode, rng), {"stderr": rr.stderr[-2000:]}, name="mtcrash")
            continue
        blocks = re.split(r"(?=WARNING: ThreadSanitizer)", rr.stderr)
        seen = set()
        for b in blocks:
            if not b.startswith("WARNING: ThreadSanitizer"):
                continue
            frames = re.findall(r"#0 (\S+) (\S+?):(\d+)", b)
            key = tuple(sorted(set((f[0], os.path.basename(f[1]), f[2]) for f in frames[:2])))
            if key in seen:
                continue
            seen.add(key)
            reports += 1
            R.violation("ThreadSanitizer: data race in %s (random source: %s, %d threads)" % (" / ".join("%s %s:%s" % k for k in key), rng, n),
                        {"rng": rng, "threads": n, "report": b[:3000]}, name="race")
        recs = list(vlib.read_ndjson(out))
        for x in [x for x in recs if x.get("e") == "mtrand"]:
            if not x["getrandom_denied"]:
                R.notes.append("the seccomp filter that hides getrandom() could not be installed here: the fallback run used the ordinary path")
            if x["repeated"] or x["all_zero"]:
                R.violation("default generator (urandom fallback) under %d threads: %d of %d 16-byte blocks handed out more than once, %d all-zero" % (n, x["repeated"], x["blocks"], x["all_zero"]), x, name="mtrand")
        bad = [x for x in recs if x.get("e") == "mt" and x["equal"] != x["iters"]]
        for b in bad[:3]:
            R.violation("result under concurrency differs from the sequential run: %s" % json.dumps(b), b, name="mtdiff")
        mtfiles.append(out)
    # --- the whole wrapped API (the calls TLC enumerates from Contract.tla) run concurrently on the TSan build
    from checks import C12
    gen = C12.generate(R, "GenContract.cfg")
    script = R.path("mt", "api-script.txt")
    step = 2 if thorough else 9
    nlines = 0
    with open(script, "w") as fh:
        for p in C12.PARTS:
            for i, l in enumerate(open(gen[p][1])):
                f = l.split()
                if f[5] == "H" and f[6] == "16" and i % step == 0:
                    fh.write(l); nlines += 1
    exe2 = R.cc("contract_mt", ["contract_mt.c"], "tsan", extra=["-Wno-deprecated-declarations"])
    api_runs = [(6, R.seed), (13, R.seed + 1)] + ([(16, R.seed + 2), (3, R.seed + 3)] if thorough else [])
    api_calls = 0
    for (n, sd) in api_runs:
        out = R.path("mt", "api-%d.ndjson" % n)
        rr = R.run([exe2, str(sd), script, str(n), out], env={"TSAN_OPTIONS": "halt_on_error=0 exitcode=0 report_signal_unsafe=0"}, timeout=3000, ok_codes=None)
        if rr.returncode != 0:
            R.violation("concurrent API run crashed (rc=%d, %d threads): %s" % (rr.returncode, n, rr.stderr[-300:].replace("\n", " | ")), {"stderr": rr.stderr[-3000:]}, name="mtcrash")
            continue
        api_calls += vlib.read_ndjson(out)[-1]["calls_executed"]
        seen = set()
        for b in re.split(r"(?=WARNING: ThreadSanitizer)", rr.stderr):
            if not b.startswith("WARNING: ThreadSanitizer"):
                continue
            frames = re.findall(r"#0 (\S+) (\S+?):(\d+)", b)
            key = tuple(sorted(set((f[0], os.path.basename(f[1]), f[2]) for f in frames[:2])))
            if key in seen:
                continue
            seen.add(key)
            reports += 1
            R.violation("ThreadSanitizer: data race in %s (whole-API run, %d threads)" % (" / ".join("%s %s:%s" % k for k in key), n),
                        {"threads": n, "report": b[:3000]}, name="race")
    R.cov["race_detection_whole_api"] = {"script_lines": nlines, "wrapped_functions": len({l.split()[1] for l in open(script)}),
                                         "runs": ["%d threads" % n for n, _ in api_runs], "calls_executed": api_calls}
    R.cov["race_detection"] = {"observer": "ThreadSanitizer (clang 14) on a mixed workload over 14 deterministic + 6 non-deterministic API families", "runs": ["%d threads x %d iterations, %s source" % r for r in runs], "reports": reports}
    R.sample(open(traces[0][0]).read().splitlines()[2:12])
    R.assumptions += ["the once-initialisation half is decided by model checking + trace validation; race freedom of the remaining API is decided by a happens-before observer (ThreadSanitizer) on the executed workload, which the TLA+ specification cannot see",
                      "sequence numbers of hook events are taken with an atomic counter inside the library's critical section"]


def replay(R, path):
    d = json.load(open(path))
    c = d["case"]
    if "events" in c:
        tp = R.path("init", "replay.ndjson")
        open(tp, "w").write("\n".join(c["events"]) + "\n")
        rr = R.tlc("sys/TraceInit.tla", "TraceInit.cfg", env={"TRACE": tp})
        if not rr.ok:
            R.violation("recorded sodium_init trial rejected by TraceInit", c, name="trace")
    R.add("states", 1); R.add("transitions", 1); R.add("traces_validated_against_impl", 1)
