"""C16 - sodium_pad / sodium_unpad.
1. TLC model-checks sys/PadMachine (the constant-time loops written out) against lib/Pad.tla for every
   buffer over {00, 80, 01, 81} up to a bound and every block size up to a bound.
2. Direction B: the real functions on a sweep of (length, block size, capacity), markers at every position
   of the final block with corrupted variants, exhaustive final blocks over {00,80,01} for block sizes <= 6;
   buffers end at PROT_NONE pages and the final block is placed against a PROT_NONE page on either side.
   TLC judges every record with spec/trace/OraclePad.tla."""
import json
import vlib

LEVEL = "model_checking"
BS_QUICK = [0, 1, 2, 3, 4, 5, 6, 7, 8, 13, 16, 17, 31, 32, 33, 40, 64, 100, 128, 130, 256]
BS_THOROUGH = list(range(0, 131)) + [255, 256, 257, 300, 511, 512, 513, 1000, 2048]


def run(R):
    thorough = R.tier == "thorough"
    r = R.tlc("sys/MCPadMachine.tla", "MCPadMachine10.cfg" if thorough else "MCPadMachine.cfg", workers=vlib.NCPU, timeout=2400, heap="16g")
    if r.violated:
        R.violation("PadMachine disagrees with lib/Pad.tla: " + r.tail(30), r.out, name="model")
    rb = R.tlc("sys/MCPadMachine.tla", "MCPadMachineBroken.cfg", workers=4, timeout=600)
    if not rb.violated:
        raise vlib.MachineryError("vacuity: broken unpad loop (scans blocksize-1 bytes) is not rejected")
    R.add("states", r.distinct); R.add("transitions", r.generated)
    R.cov["model"] = {"module": "MCPadMachine", "distinct": r.distinct, "generated": r.generated, "broken_variants_rejected": 1}
    # the length arithmetic of sodium_pad on the real 64-bit word, every (length, block size, capacity): Apalache (SMT)
    okp, outp, cexp = R.apalache("sys/PadLenAll.tla", "AllOK", cinit="ConstInit", length=1)
    if not okp:
        R.violation("PadLenAll.tla: the padded length computed by sodium_pad is not the next multiple of the block size within the capacity "
                    "for some 64-bit (length, block size, capacity): " + cexp[-1200:], {"apalache": outp[-3000:], "counterexample": cexp}, name="unbounded")
    if R.apalache("sys/PadLenAll.tla", "AllOK", cinit="ConstInitNoMisuse", length=0)[0]:
        raise vlib.MachineryError("vacuity: sodium_pad without its wrap test is not refuted by PadLenAll!Exact")
    R.cov["unbounded_smt"] = {"module": "PadLenAll", "invariant": "Exact", "domain": "every 64-bit length, block size >= 1, capacity", "broken_variants_refuted": 1}
    variants = ["native", "portable"]
    R.build_all(variants)
    files = []
    bss = BS_THOROUGH if thorough else BS_QUICK
    for variant in variants:
        exe = R.cc("pad_driver", ["pad_driver.c"], variant)
        groups = vlib.shard(bss, 8)
        for i, g in enumerate(groups):
            out = R.path("pad", "%s-%d.ndjson" % (variant, i))
            R.run([exe, str(R.seed + i), "300" if thorough else "80", out] + [str(b) for b in g], ok_codes=(0, 70))
            files.append(out)
    for variant in variants:            # lengths of 2^32 + k bytes (sparse mapping)
        out = R.path("pad", "huge-%s.ndjson" % variant)
        R.run([R.cc("pad_driver", ["pad_driver.c"], variant), str(R.seed), "0", out, "huge"], ok_codes=(0, 70), timeout=1800)
        files.append(out)
    total, bad = R.oracle("trace/OraclePad.tla", files, timeout=5000)
    for b in bad[:5]:
        R.violation("padding record rejected by lib/Pad.tla: %s" % json.dumps(b)[:300], {"records": [b]}, name="pad")
    if len(bad) > 5:
        R.notes.append("%d further rejected records not listed" % (len(bad) - 5))
    R.add("traces_validated_against_impl", total)
    R.cov["block_sizes"] = bss if not thorough else "0..130 and %s" % bss[131:]
    R.cov["variants"] = variants
    R.sample_line(files[0], 5)
    R.sample_line(files[0], 10**9)
    R.assumptions += ["block sizes above 2048 are not executed (the loop is linear in the block size)",
                      "length + padding overflowing size_t (misuse) is covered by C12, not here"]


def replay(R, path):
    d = json.load(open(path))
    recs = d["case"]["records"]
    p = R.path("pad", "replay.ndjson")
    vlib.write_ndjson(p, recs)
    total, bad = R.oracle("trace/OraclePad.tla", [p])
    for b in bad:
        R.violation("padding record rejected by lib/Pad.tla (recorded case): %s" % json.dumps(b)[:300], {"records": [b]}, name="pad")
    R.add("states", 1); R.add("transitions", 1); R.add("traces_validated_against_impl", total)
