"""C03 - stream ciphers. Direction B with the TLA+ specification as oracle: harness/stream_driver.c runs every
variant (ChaCha20 64-bit counter, IETF, XChaCha20, Salsa20/20/12/8, XSalsa20) in the stream, xor and xor_ic
forms at EVERY length 0..maxlen from several initial counters (0, just below 2^32 and 2^64 so that the carry
happens inside the stream, random), on every backend (ChaCha: avx2/ssse3/ref; Salsa20: avx2/xmm6 asm/sse2/ref);
TLC evaluates lib/ChaCha.tla / lib/Salsa.tla once per group and checks every length against it
(spec/trace/OracleStream.tla); IETF counter-limit probes (misuse exactly when ic + blocks > 2^32); cores."""
import json
import vlib

LEVEL = "exploration"
CFGS = [("native", {}), ("native", {"SODIUM_VERIF_CPUID7_EBX_CLEAR": "0x10020"}),
        ("native", {"SODIUM_VERIF_CPUID1_ECX_CLEAR": "0x10080200"}), ("noasm", {}), ("portable", {}), ("no128", {})]


def run(R):
    thorough = R.tier == "thorough"
    # the two-word block counter advanced in batches (scaled words): every initial counter, every stream length
    rm = R.tlc("sys/BlockCounter.tla", "MCBlockCounter.cfg", workers=4, timeout=600)
    if rm.violated:
        R.violation("BlockCounter.tla: a block is produced under the wrong counter: " + rm.tail(30), rm.out, name="model")
    for cfg in ("MCBlockCounterBroken1.cfg", "MCBlockCounterBroken2.cfg"):
        if not R.tlc("sys/BlockCounter.tla", cfg, workers=2, timeout=300).violated:
            raise vlib.MachineryError("vacuity: %s (missing / per-batch carry) is not rejected" % cfg)
    R.cov["counter_model"] = {"module": "BlockCounter", "word_bits": 4, "distinct": rm.distinct, "broken_variants_rejected": 2}
    R.build_all(sorted({v for v, _ in CFGS}))
    files = []
    seeds = [R.seed] if not thorough else [R.seed + j for j in range(8)]
    for s in seeds:
        for i, (variant, env) in enumerate(CFGS):
            exe = R.cc("stream_driver", ["stream_driver.c"], variant, extra=["-Wno-deprecated-declarations"])
            out = R.path("stream", "s%d-%d.ndjson" % (s, i))
            R.run([exe, str(s + 10 * i), "2304" if (thorough or i < 3) else "1100", out], env=env, ok_codes=(0, 70), timeout=1800)
            files += R.split_file(out, 3, "st-%d-%d" % (s, i))
    if thorough:          # 4 GiB + 256 bytes of keystream per cipher (needs about 4 GiB of memory for a few seconds per cipher)
        for j, (variant, env) in enumerate([CFGS[0], CFGS[-1]]):
            exe = R.cc("stream_driver", ["stream_driver.c"], variant, extra=["-Wno-deprecated-declarations"])
            out = R.path("stream", "huge-%d.ndjson" % j)
            R.run([exe, str(R.seed + j), "huge", out], env=env, ok_codes=(0, 70), timeout=3000)
            files += R.split_file(out, 4, "huge-%d" % j)
        # Salsa20/12 and Salsa20/8: one call of 256 GiB + 64 MiB each (about ten minutes, in parallel), blocks 2^32.. judged by the oracle
        import concurrent.futures
        exe = R.cc("stream_driver", ["stream_driver.c"], CFGS[0][0], extra=["-Wno-deprecated-declarations"])
        def wrap(v):
            out = R.path("stream", "wrap32-%d.ndjson" % v)
            R.run([exe, str(R.seed + v), "wrap32", out, str(v)], env=CFGS[0][1], ok_codes=(0, 70), timeout=3400)
            return out
        with concurrent.futures.ThreadPoolExecutor(2) as ex:
            wf = list(ex.map(wrap, [4, 5]))
        nw = sum(1 for f in wf for _ in open(f))
        if nw == 8:
            files += wf
        else:
            R.notes.append("wrap32 (256 GiB keystream of Salsa20/12 and Salsa20/8) could not be mapped here: %d of 8 records" % nw)
        R.cov["wrap32_records"] = nw
    ngroups = nlen = 0
    distinct = set()
    for f in files:
        for ln in open(f):
            x = json.loads(ln)
            if x.get("op") == "stream":
                ngroups += 1
                nlen += x["maxlen"] + 1
                distinct.add((x["v"], x["form"], tuple(x["k"][:8]), tuple(x["ic"])))
            elif "op" in x:
                distinct.add((x["op"], json.dumps(x, sort_keys=True)[:200]))
    total, bad = R.oracle("trace/OracleStream.tla", files, timeout=2400)
    for b in bad[:6]:
        desc = {k: b[k] for k in b if k not in ("sums", "full")}
        R.violation("stream cipher output differs from the specification: %s" % json.dumps(desc)[:300], desc, name="stream")
    R.cov.update({"evaluations": nlen + total - ngroups, "distinct_nontrivial": len(distinct),
                  "rule": "one group per (variant, call form, key, nonce, initial counter): every length 0..maxlen checked against the TLC-evaluated keystream (bytes at 36 boundary lengths, two position-weighted checksums at every length, guard page after the output); evaluations = (group, length) pairs + core/limit records; distinct_nontrivial = distinct groups (initial counters 0, 2^32-k, 2^64-k, random) + distinct core/limit records",
                  "groups": ngroups, "configurations": ["%s %s" % c for c in CFGS]})
    R.sample_line(files[0], 0, drop=("sums", "full"))
    R.assumptions += ["at non-boundary lengths only two checksums of the output are compared (a difference that preserves both the byte sum and the position-weighted sum would be missed)"]


def replay(R, path):
    run(R)
