"""C18 - random generation.
1. TLC model-checks sys/RandomSource at word size 6 bits: every bound, every draw sequence up to 2 draws;
   result in range, first accepted draw, no draw for n < 2, exact uniformity of the accepted set.
2. A scripted randombytes implementation is installed through the public API; harness/rand_driver.c records
   randombytes_uniform on structured bounds with draws placed at the rejection threshold +-1, every generating
   API (45) under three scripts each (replayed and perturbed), and the deterministic generator at ~60 lengths;
   sys/TraceRandomSource.tla validates the events with real 32-bit arithmetic (BigNat), the generator table and
   the ChaCha20-IETF definition."""
import json
import re
import vlib

LEVEL = "model_checking"


def run(R):
    thorough = R.tier == "thorough"
    r = R.tlc("sys/MCRandomSource.tla", "MCRandomSource.cfg", workers=vlib.NCPU, timeout=900, heap="8g")
    if r.violated:
        R.violation("RandomSource design model violates an invariant: " + r.tail(30), r.out, name="model")
    rb = R.tlc("sys/MCRandomSource.tla", "MCRandomSourceBroken.cfg", workers=2, timeout=300)
    if not rb.violated:
        raise vlib.MachineryError("vacuity: the off-by-one rejection threshold is not rejected by Uniform")
    rl = R.tlc("sys/RandomLifecycle.tla", "MCRandomLifecycle.cfg", workers=2, timeout=300)
    if rl.violated:
        R.violation("RandomLifecycle: a request is not served by the source installed last: " + rl.tail(20), rl.out, name="model")
    if not R.tlc("sys/RandomLifecycle.tla", "MCRandomLifecycleBroken.cfg", workers=2, timeout=300).violated:
        raise vlib.MachineryError("vacuity: a close that forgets the installed source is not rejected")
    R.add("states", r.distinct + rl.distinct); R.add("transitions", r.generated + rl.generated)
    R.cov["model"] = {"module": "MCRandomSource", "word_bits": 6, "distinct": r.distinct, "generated": r.generated, "broken_variants_rejected": 1}
    variants = ["native", "portable"]
    R.build_all(variants)
    traces = []
    nrun = 32 if thorough else 4
    for i in range(nrun):
        variant = variants[i % 2]
        exe = R.cc("rand_driver", ["rand_driver.c"], variant)
        tp = R.path("rand", "t%d.ndjson" % i)
        R.run([exe, str(R.seed + i), "1500" if thorough else "60", tp], ok_codes=(0, 70))
        traces.append((tp, variant, R.seed + i))
    res = R.tlc_shards("sys/TraceRandomSource.tla", "TraceRandomSource.cfg", [{"TRACE": t[0]} for t in traces], timeout=1800)
    nacc = 0
    for (tp, variant, seed), rr in zip(traces, res):
        lines = open(tp).read().splitlines()
        if any(x.startswith('{"e":"crash"') for x in lines):
            R.violation("library crashed while generating: %s" % lines[-1], {"variant": variant, "seed": seed, "tail": lines[-3:]}, name="crash")
            continue
        if rr.ok:
            nacc += sum(1 for x in lines if x.startswith('{"e":"u_begin"') or x.startswith('{"e":"gen"') or x.startswith('{"e":"det"'))
            continue
        m = re.search(r'"REJECTED at line",\s*(\d+)', rr.out)
        if not m:
            raise vlib.MachineryError("trace validation failed without a rejected line:\n" + rr.tail(25))
        line = int(m.group(1))
        start = line - 1
        while start > 0 and lines[start].startswith('{"e":"u_') and not lines[start].startswith('{"e":"u_begin"'):
            start -= 1
        R.violation("random-source trace rejected by TraceRandomSource at line %d (%s): %s" % (line, variant, lines[line - 1][:300]),
                    {"variant": variant, "seed": seed, "events": lines[start:line]}, name="trace")
    R.add("traces_validated_against_impl", nacc)
    R.cov["trace_files"] = len(traces)
    R.cov["variants"] = variants
    lines = open(traces[0][0]).read().splitlines()
    R.sample(lines[30:34])
    R.sample([x[:200] for x in lines if '"gen"' in x][33:35])
    R.assumptions += ["public keys / points derived from the served bytes are validated under C05/C06/C07 (here: request sizes, secret = served bytes, reproducibility, sensitivity)",
                      "the source's own bounded generator is NULL, as the property states"]


def replay(R, path):
    d = json.load(open(path))
    tp = R.path("rand", "replay.ndjson")
    open(tp, "w").write("\n".join(d["case"]["events"]) + "\n")
    rr = R.tlc("sys/TraceRandomSource.tla", "TraceRandomSource.cfg", env={"TRACE": tp})
    if not rr.ok:
        R.violation("recorded random-source events rejected by TraceRandomSource", d["case"], name="trace")
    R.add("states", 1); R.add("transitions", 1); R.add("traces_validated_against_impl", 1)
