"""C04 - hashes, MACs and KDFs. Direction B with the TLA+ specification as oracle: harness/hash_driver.c runs, for
every message length (every length 0..70 and around every 64-byte boundary, stepped in between; every length in the
thorough tier), the one-shot call and the init/update/final form under 16 chunkings (single bytes, empty chunks,
splits at 1/15/16/17/63/64/65/127/128, random) of SHA-256, SHA-512, HMAC-SHA-256/512/512-256 (key lengths 0..128),
BLAKE2b (every output/key length, salt, personalisation), SipHash-2-4 (64/128), Poly1305 (+ crafted accumulators at
2^130-5+-k, all-0xff blocks), HKDF, crypto_kdf, verify functions under every single-bit flip, out-of-range lengths;
one record per (function, input) with every DISTINCT output; TLC evaluates the function from lib/Sha2, Blake2b,
SipHash, Poly1305 and requires exactly one output, equal to it. Every compression backend via CPU masks/builds."""
import json
import vlib

LEVEL = "exploration"
CFGS = [("native", {}), ("native", {"SODIUM_VERIF_CPUID1_ECX_CLEAR": "0x10000000"}), ("native", {"SODIUM_VERIF_CPUID1_ECX_CLEAR": "0x10080000"}),
        ("native", {"SODIUM_VERIF_CPUID1_ECX_CLEAR": "0x10080201", "SODIUM_VERIF_CPUID1_EDX_CLEAR": "0x4000000"}),
        ("no128", {"SODIUM_VERIF_CPUID1_EDX_CLEAR": "0x4000000"}), ("portable", {})]


MP_ALGS = ["sha256", "sha512", "blake2b", "blake2bk"]


def streaming(R, thorough):
    """the buffering state machines: exhaustive splits on the scaled model, then the counters of the real state
    structures after every update validated against the same machines with the real block sizes"""
    st = gen = 0
    for cfg in ("MCStreamingMd.cfg", "MCStreamingBlake.cfg", "MCStreamingBlakeKeyed.cfg"):
        r = R.tlc("sys/Streaming.tla", cfg, workers=4, timeout=900)
        if r.violated:
            R.violation("Streaming.tla: a split changes the compressed block sequence (%s): %s" % (cfg, r.tail(30)), r.out, name="model")
        st += r.distinct; gen += r.generated
    for cfg in ("MCStreamingMdBroken.cfg", "MCStreamingBlakeBroken.cfg"):
        if not R.tlc("sys/Streaming.tla", cfg, workers=2, timeout=600).violated:
            raise vlib.MachineryError("vacuity: %s is not rejected" % cfg)
    # the key-power precomputation of the vectorised Poly1305 backend, every clamped key of the scaled model
    r = R.tlc("sys/PolyPowers.tla", "MCPolyPowers.cfg", workers=8, timeout=900, heap="6g")
    if r.violated:
        R.violation("PolyPowers.tla: a stored power of r is not r^2 / r^4: %s" % r.tail(30), r.out, name="model")
    if not R.tlc("sys/PolyPowers.tla", "MCPolyPowersBroken.cfg", workers=4, timeout=600, heap="6g").violated:
        raise vlib.MachineryError("vacuity: MCPolyPowersBroken.cfg (dropped carry) is not rejected")
    st += r.distinct; gen += r.generated
    R.cov["poly1305_powers_model"] = {"module": "PolyPowers", "distinct": r.distinct, "limb_widths": "9/9/7 repacked into 5 x 5 bits", "broken_variants_rejected": 1}
    envs, meta = [], []
    for variant in ("native", "portable"):
        exe = R.cc("mp_driver", ["mp_driver.c"], variant)
        for a in MP_ALGS:
            out = R.path("mp", "%s-%s.ndjson" % (variant, a))
            R.run([exe, str(R.seed), a, "400" if thorough else "80", out], ok_codes=(0, 70))
            envs.append({"TRACE": out}); meta.append((variant, a, out))
    import re
    from concurrent.futures import ThreadPoolExecutor
    with ThreadPoolExecutor(max_workers=8) as ex:
        res = list(ex.map(lambda m: R.tlc("sys/TraceStreaming.tla", "TraceStreaming_%s.cfg" % m[1], env={"TRACE": m[2]}, timeout=1800, heap="3g",
                                          extra=(), tag="ts-%s-%s" % (m[0], m[1])), meta))
    lines = 0
    for (variant, a, out), tr in zip(meta, res):
        evs = open(out).read().splitlines()
        lines += len(evs)
        m = re.search(r'"REJECTED at line",\s*(\d+)', tr.out)
        if m or tr.violated or not tr.ok:
            k = int(m.group(1)) if m else 0
            R.violation("multi-part %s (%s build): the state after an update / the final digest is not what Streaming.tla allows: %s"
                        % (a, variant, (evs[k - 1] if 0 < k <= len(evs) else tr.tail(8))[:300]),
                        {"alg": a, "variant": variant, "events": evs[max(0, k - 6):k + 1]}, name="streaming")
    # long streams (beyond 2^32 bits): counters only
    big = []
    for variant in (("native", "portable") if thorough else ("native",)):
        exe = R.cc("mp_driver", ["mp_driver.c"], variant)
        for a in ("sha256", "sha512", "blake2b"):
            out = R.path("mp", "big-%s-%s.ndjson" % (variant, a))
            big.append((variant, a, out, exe))
    nbig = len(big)
    for a in (("sha256", "sha512", "blake2b") if thorough else ("sha512", "blake2b")):        # 4 GiB + 1 MiB, sparse
        big.append(("native", a, R.path("mp", "huge-%s.ndjson" % a), R.cc("mp_driver", ["mp_driver.c"], "native")))
    with ThreadPoolExecutor(max_workers=6) as ex:
        list(ex.map(lambda im: R.run([im[1][3], str(R.seed), im[1][1], "513", im[1][2], "big" if im[0] < nbig else "huge"], ok_codes=(0, 70), timeout=1800), list(enumerate(big))))
        bres = list(ex.map(lambda m: R.tlc("sys/TraceStreamCounter.tla", "TraceStreamCounter_%s.cfg" % m[1], env={"TRACE": m[2]}, timeout=900, heap="2g",
                                           tag="sc-%s-%s" % (m[0], m[1])), big))
    for (variant, a, out, _), tr in zip(big, bres):
        evs = open(out).read().splitlines()
        lines += len(evs)
        m = re.search(r'"REJECTED at line",\s*(\d+)', tr.out)
        if m or tr.violated or not tr.ok:
            k = int(m.group(1)) if m else 0
            R.violation("multi-part %s on a 513 MiB stream (%s build): byte counter / buffered amount / final digest is not what TraceStreamCounter allows: %s"
                        % (a, variant, (evs[k - 1] if 0 < k <= len(evs) else tr.tail(8))[:300]),
                        {"alg": a, "variant": variant, "events": evs[max(0, k - 4):k + 1]}, name="longstream")
    R.cov["streaming_model"] = {"module": "Streaming", "distinct": st, "generated": gen, "broken_variants_rejected": 2,
                                "trace_events_validated": lines, "algorithms": MP_ALGS, "long_streams": "513 MiB in 1 MiB updates and 4 GiB + 1 MiB in 1 GiB updates (sparse), SHA-256 / SHA-512 / BLAKE2b"}
    return lines


def run(R):
    thorough = R.tier == "thorough"
    R.build_all(sorted({v for v, _ in CFGS}))
    nstream = streaming(R, thorough)
    files = []
    for i, (variant, env) in enumerate(CFGS):
        exe = R.cc("hash_driver", ["hash_driver.c"], variant, extra=["-Wno-deprecated-declarations"])
        out = R.path("hash", "h%d.ndjson" % i)
        if thorough:
            args = ["1024" if i == 0 else "520", "1" if i == 0 else "3"]
        else:
            args = ["300" if i == 0 else "200", "9" if i == 0 else "17"]
        R.run([exe, str(R.seed + i)] + args + [out], env=env, ok_codes=(0, 70), timeout=1800)
        files += R.split_file(out, 4 if not thorough else (16 if i == 0 else 6), "h%d" % i)
    distinct = set()
    forms = 0
    for f in files:
        for ln in open(f):
            x = json.loads(ln)
            if "m" in x and len(x["m"]) > 0:
                distinct.add((x["op"], x["outlen"], len(x["k"]), vlib.sha(json.dumps(x["m"]))[:16]))
            forms += x.get("forms", 1)
    total, bad = R.oracle("trace/OracleHash.tla", files, timeout=3000)
    for b in bad[:6]:
        desc = {k: (b[k] if not isinstance(b[k], list) or len(b[k]) < 40 else b[k][:40] + ["..."]) for k in b}
        R.violation("%s: observed output(s) differ from the specification (or chunkings/forms disagree: %d distinct outputs), input length %d"
                    % (b["op"], len(b.get("outs", [])), len(b.get("m", []))), b, name="hash")
    R.cov.update({"evaluations": forms, "distinct_nontrivial": len(distinct),
                  "rule": "evaluations = API executions (one-shot + every chunking) summarised in the records; distinct_nontrivial = distinct (function, output length, key length, non-empty message) inputs judged byte-exactly by TLC; messages: random / all-00 / all-ff at the listed lengths, crafted Poly1305 accumulators",
                  "records": total, "traces_validated_against_impl": nstream, "configurations": ["%s %s" % c for c in CFGS]})
    R.sample_line(files[0], 3, drop=("m",))
    R.assumptions += ["spec modules anchored against hashlib / OpenSSL vectors in spec/anchors"]


def replay(R, path):
    d = json.load(open(path))
    p = R.path("hash", "replay.ndjson")
    vlib.write_ndjson(p, [d["case"]])
    total, bad = R.oracle("trace/OracleHash.tla", [p])
    for b in bad:
        R.violation("%s: recorded output differs from the specification" % b["op"], b, name="hash")
    R.cov.update({"evaluations": 1, "distinct_nontrivial": 2, "rule": "replay"})
