"""C15 - hex / Base64 codecs.
1. TLC model-checks sys/CodecMachine (the decoders as character-at-a-time automata shaped like the C
   loops) against the declarative decoders of lib/Codec.tla for every text up to a bound.
2. Direction B: the real decoders are run on every text up to length L over an alphabet with a
   representative of every character class (incl. NUL and bytes >= 0x80), every single byte 0..255 in
   three contexts, mutated valid encodings and long texts, under every option combination (5 codecs x
   ignore NULL/set x end pointer x capacity 0..max); encoders + round trips for every length; TLC judges
   every record with spec/trace/OracleCodec.tla."""
import itertools
import json
import random
import re
import subprocess

import vlib

LEVEL = "model_checking"
ALPHA = [0x41, 0x42, 0x51, 0x2f, 0x5f, 0x2b, 0x2d, 0x3d, 0x20, 0x21, 0x00, 0xff, 0x80, 0x66, 0x30, 0x47]


def b64(bs, v):
    import base64
    t = base64.urlsafe_b64encode(bs) if v in (5, 7) else base64.b64encode(bs)
    return t.rstrip(b"=") if v in (3, 7) else t


def texts_for(R, rng):
    L = 4 if R.tier == "thorough" else 3
    texts = set()
    alpha = ALPHA if R.tier == "thorough" else ALPHA[:13]
    for n in range(0, L + 1):
        a = alpha if n < L or R.tier != "thorough" else ALPHA[:12]
        for t in itertools.product(a, repeat=n):
            texts.add(bytes(t))
    for c in range(256):                           # every byte value inside otherwise valid contexts
        for t in (b"AA" + bytes([c]) + b"A", bytes([c]) + b"AAA", b"AAA" + bytes([c]), b"4" + bytes([c]), bytes([c]) + b"4"):
            texts.add(t)
    # mutated valid encodings, longer texts
    for n in list(range(0, 24)) + [31, 32, 33, 47, 48, 49, 62, 63, 64]:
        bs = bytes(rng.randrange(256) for _ in range(n))
        for v in (1, 3, 5, 7):
            t = b64(bs, v)
            texts.add(t)
            if t:
                i = rng.randrange(len(t))
                texts.add(t[:i] + b" " + t[i:])                 # ignorable character inside
                texts.add(t[:i] + b"!" + t[i:])                 # junk inside
                texts.add(t[:-1])                               # truncated
                texts.add(t + b"=")                             # extra padding
                texts.add(t + b"A")
                texts.add(t.rstrip(b"="))
                texts.add(t[:i] + bytes([t[i] ^ 1]) + t[i + 1:])  # may create non-zero trailing bits
                texts.add(t[:-1] + b"/" if t[-1:] != b"=" else t[:-2] + b"B=")
                texts.add(t + b" \n")
        h = bs.hex().encode()
        texts.add(h); texts.add(h.upper()); texts.add(h[:-1]); texts.add(h + b":"); texts.add(b" ".join([h[i:i + 2] for i in range(0, len(h), 2)]))
        texts.add(h[:1] + b" " + h[1:])
    return sorted(texts)


def model_check(R):
    cfg = "MCCodecMachine4.cfg" if R.tier == "thorough" else "MCCodecMachine.cfg"
    r = R.tlc("sys/MCCodecMachine.tla", cfg, workers=vlib.NCPU, timeout=2400, heap="16g")
    if r.violated:
        R.violation("CodecMachine (decoder automaton) disagrees with the declarative decoder: " + r.tail(40), r.out, name="model")
    R.add("states", r.distinct)
    R.add("transitions", r.generated)
    R.cov["model"] = {"module": "MCCodecMachine", "cfg": cfg, "distinct": r.distinct, "generated": r.generated, "depth": r.depth}
    rb = R.tlc("sys/MCCodecMachine.tla", "MCCodecMachineBroken.cfg", workers=vlib.NCPU, timeout=600, heap="8g")
    if not rb.violated:
        raise vlib.MachineryError("vacuity: the broken decoder automaton (trailing bits unchecked) is not rejected")
    R.cov["model"]["broken_variants_rejected"] = 1


def run(R):
    rng = random.Random(R.seed)
    model_check(R)
    texts = texts_for(R, rng)
    variants = ["native", "portable"] if R.tier == "quick" else ["native", "noasm", "portable"]
    R.build_all(variants)
    files = []
    nshard = 12
    chunks = vlib.shard(texts, nshard)
    for vi, variant in enumerate(variants):
        exe = R.cc("codec_driver", ["codec_driver.c"], variant)
        for i, ch in enumerate(chunks if vi == 0 else chunks[:3]):
            tp = R.path("codec", "texts-%s-%d.hex" % (variant, i))
            open(tp, "w").write("\n".join(t.hex() for t in ch) + "\n")
            out = R.path("codec", "dec-%s-%d.ndjson" % (variant, i))
            R.run([exe, "dec", tp, "200a", "4", out], ok_codes=(0, 70))
            files.append(out)
            if i < 3:        # an ignore set that shares characters with the alphabets ('-' URL-safe, 'A' every alphabet and hex):
                out = R.path("codec", "dec-ovl-%s-%d.ndjson" % (variant, i))         # alphabet characters are decoded, never skipped
                R.run([exe, "dec", tp, "2d412f", "4", out], ok_codes=(0, 70))
                files.append(out)
        out = R.path("codec", "enc-%s.ndjson" % variant)
        R.run([exe, "enc", "300" if R.tier == "thorough" else "70", str(R.seed), out], ok_codes=(0, 70))
        files.append(out)
    total, bad = R.oracle("trace/OracleCodec.tla", files)
    groups = {}
    for b in bad:
        hi = b["op"] == "dec" and b["codec"] != 0 and any(c >= 128 for c in b["text"])
        groups.setdefault("high-bit byte accepted as base64 digit" if hi else "other", []).append(b)
    for g, items in groups.items():
        R.violation("codec record rejected by lib/Codec.tla (%s; %d records), first: %s" % (g, len(items), json.dumps(items[0])[:400]),
                    {"group": g, "count": len(items), "records": items[:50]}, name="codec")
    R.add("traces_validated_against_impl", total)
    R.cov["decode_texts"] = len(texts)
    R.cov["records_validated"] = total
    R.cov["variants"] = variants
    R.sample({"text": list(texts[len(texts) // 2])})
    R.sample_line(files[0], 0)
    R.assumptions += ["errno classes are not compared (the property does not state them)",
                      "on failure only the non-zero return, 'reported length <= capacity' and 'end pointer inside the text' are required",
                      "NUL is ignorable whenever an ignore string is given (strchr semantics), modelled as a named deviation"]


def replay(R, path):
    d = json.load(open(path))
    recs = d["case"]["records"]
    texts = sorted({bytes(r["text"]) for r in recs if r["op"] == "dec"})
    exe = R.cc("codec_driver", ["codec_driver.c"], "native")
    tp = R.path("codec", "replay.hex")
    open(tp, "w").write("\n".join(t.hex() for t in texts) + "\n")
    out = R.path("codec", "replay.ndjson")
    R.run([exe, "dec", tp, "200a", "4", out], ok_codes=(0, 70))
    total, bad = R.oracle("trace/OracleCodec.tla", [out])
    if bad:
        R.violation("codec record rejected by lib/Codec.tla on replay: %s" % json.dumps(bad[0])[:300], {"records": bad[:50]}, name="codec")
    R.add("states", 1); R.add("transitions", 1); R.add("traces_validated_against_impl", total)
