"""C08 - password hashing. Direction B with lib/Argon2.tla (RFC 9106, anchored on its 4-lane vectors),
Scrypt.tla (RFC 7914, anchored on hashlib) and PwhashStr.tla (string grammar, verify / needs-rehash contracts,
scrypt parameter selection) as TLC-evaluated oracles: raw Argon2i/id at segment-length edge cases of the memory
size, 1..4 passes, several output and password lengths, on every block-filling backend; out-of-range parameters;
hash strings created by the library (parsed by the specification: parameters, 16-byte salt, 32-byte hash equal to
the specified Argon2 value; verify with the same / another password; needs_rehash); ~230 mutated strings (one
mutation per grammar position: replace, drop, insert, truncate at separators, appended bytes, v=16, p=2, p=0,
type swapped, '/' -> 0xff, empty, over-long) and foreign multi-lane strings computed from the specification;
scrypt low-level hashes, strings and parameter selection."""
import json
import vlib

LEVEL = "exploration"
CFGS = [("native", {}), ("native", {"SODIUM_VERIF_CPUID7_EBX_CLEAR": "0x10000"}), ("native", {"SODIUM_VERIF_CPUID7_EBX_CLEAR": "0x10020"}),
        ("native", {"SODIUM_VERIF_CPUID1_ECX_CLEAR": "0x10080201", "SODIUM_VERIF_CPUID1_EDX_CLEAR": "0x4000000"}), ("portable", {})]


def schedule(R, thorough):
    """the outer iteration of Argon2 (passes x slices x lanes): exhaustive small model + the positions the real code hands to
    fill_segment (guarded hook) for pass counts far beyond what the byte-exact oracle can evaluate"""
    import re
    r = R.tlc("sys/Argon2Schedule.tla", "MCArgon2Schedule.cfg", workers=2, timeout=300)
    if r.violated:
        R.violation("Argon2Schedule: a position is skipped or repeated: " + r.tail(20), r.out, name="model")
    n = 0
    for variant in (["native", "portable"] if thorough else ["native"]):
        exe = R.cc("argon_sched_driver", ["argon_sched_driver.c"], variant)
        out = R.path("pw", "sched-%s.ndjson" % variant)
        R.run([exe, out, "1", "3", "4", "255", "256", "257", "65535", "65536", "65537"] + (["131075", "300000"] if thorough else []), ok_codes=(0, 70), timeout=1800)
        tr = R.tlc("sys/TraceArgon2Schedule.tla", "TraceArgon2Schedule.cfg", env={"TRACE": out}, timeout=1800, heap="6g", tag="sched-" + variant)
        evs = open(out).read().splitlines()
        n += len(evs)
        m = re.search(r'"REJECTED at line",\s*(\d+)', tr.out)
        if m or tr.violated or not tr.ok:
            k = int(m.group(1)) if m else 0
            R.violation("Argon2 fills a segment at a position the schedule does not allow (%s build): %s after %s"
                        % (variant, (evs[k - 1] if 0 < k <= len(evs) else tr.tail(6))[:200], (evs[k - 2] if 1 < k <= len(evs) else "")[:120]),
                        {"variant": variant, "events": evs[max(0, k - 5):k + 1]}, name="schedule")
    R.cov["argon2_schedule"] = {"model_states": r.distinct, "segment_events_validated": n, "passes": "1..300000" if thorough else "1..65537"}
    return n


def run(R):
    thorough = R.tier == "thorough"
    R.build_all(sorted({v for v, _ in CFGS}))
    nsched = schedule(R, thorough)
    merged, order = {}, []
    for i, (variant, env) in enumerate(CFGS):
        exe = R.cc("pwhash_driver", ["pwhash_driver.c"], variant)
        out = R.path("pw", "p%d.ndjson" % i)
        R.run([exe, str(R.seed), "full" if thorough else "quick", out], env=env, ok_codes=(0, 70), timeout=3000)
        for ln in open(out):
            if ln.startswith('{"e":"crash"'):
                R.violation("driver crashed in configuration %s %s" % (variant, env), {"variant": variant, "env": env}, name="crash")
                continue
            if ln not in merged:
                merged[ln] = []
                order.append(ln)
            merged[ln].append("%s %s" % (variant, env))

    def cost(l):
        x = json.loads(l)
        if x["op"] == "argon2_raw":
            return 20 + x["m"] * x["t"] * 3
        if x["op"] in ("pwhash_str",):
            return 20 + x["memKiB"] * x["ops"] * 3
        if x["op"] == "str_case":
            return 2 + (x["memKiB"] * x["ops"] * 6 if x["kind"] in ("valid", "other_password", "longer_password", "rehash_ops", "rehash_mem", "replace_A") or x["kind"].startswith("foreign") else 2)
        if x["op"] == "scrypt_ll":
            return 10 + x["N"] * x["r"] * x["p"] // 2
        return 2
    order.sort(key=cost, reverse=True)
    bins = [[0, []] for _ in range(vlib.NCPU)]
    for l in order:
        b = min(bins, key=lambda z: z[0])
        b[0] += cost(l)
        b[1].append(l)
    files = []
    for i, (_, ls) in enumerate(bins):
        if ls:
            p = R.path("pw", "shard%d.ndjson" % i)
            open(p, "w").write("".join(ls))
            files.append(p)
    total, bad, known = R.oracle("trace/OraclePwhash.tla", files, timeout=3400, want_known=True)
    groups = {}
    for b in bad:
        groups.setdefault(b["op"] + (":" + b["kind"] if "kind" in b else ""), []).append(b)
    for key, items in sorted(groups.items()):
        b = items[0]
        d = {k: (bytes(v).decode("latin1") if isinstance(v, list) and k in ("str", "pwd") else v) for k, v in b.items()}
        R.violation("%s: %d record(s) rejected by the specification, first: %s" % (key, len(items), json.dumps(d)[:300]), {"records": items[:10]}, name="pwhash")
    if known:
        R.violation("scrypt API accepts opslimit/memlimit outside the documented limits (%d probes): %s" % (len(known), json.dumps({k: known[0][k] for k in ("alg", "field", "ret")})),
                    {"records": known}, name="f5")
    kinds = {}
    for l in order:
        x = json.loads(l)
        kinds[x["op"]] = kinds.get(x["op"], 0) + 1
    R.cov.update({"evaluations": sum(len(v) for v in merged.values()), "distinct_nontrivial": total,
                  "rule": "evaluations = records over 5 backend/build configurations (Argon2 ref/ssse3/avx2/avx512f, scrypt sse/nosse); distinct_nontrivial = distinct records judged by TLC",
                  "records_by_op": kinds, "configurations": ["%s %s" % c for c in CFGS]})
    R.sample_line(files[-1], 0)
    R.assumptions += ["Argon2 memory sizes up to 33 KiB (quick) / 1 MiB (thorough) are judged byte-exactly; larger sizes only through backend equality (C10)",
                      "the scrypt string API is judged on parameters, round trip and rejection of mutated strings; its derived key is byte-exact only through the low-level API (N <= 64)",
                      "an outlen beyond BYTES_MAX is not probed: the functions clear the output buffer before testing it, so the call would need a 4 GiB buffer"]


def replay(R, path):
    d = json.load(open(path))
    p = R.path("pw", "replay.ndjson")
    vlib.write_ndjson(p, d["case"]["records"])
    total, bad, known = R.oracle("trace/OraclePwhash.tla", [p], want_known=True)
    for b in bad:
        R.violation("%s: recorded case rejected by the specification" % b["op"], {"records": [b]}, name="pwhash")
    R.cov.update({"evaluations": 1, "distinct_nontrivial": 2, "rule": "replay"})
