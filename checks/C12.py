"""C12 - no out-of-bounds access / undefined behaviour for in-contract calls; refusals beyond the size limits.
1. TLC enumerates the call space of spec/sys/Contract.tla (every wrapped public function x boundary lengths x
   content classes x buffer placements) - direction A.
2. harness/contract_driver.c executes every call on the real library with each byte-pointer argument of exactly
   the stated size between PROT_NONE pages / ASan red zones, inputs read-only, canaries around; on the plain
   build (all CPU masks, portable build) and on the ASan+UBSan build.
3. TLC (spec/trace/OracleContract.tla) judges every record against the enumerated call: sizes, outcome class,
   frame; plus the size-limit probes (Contract!Probes).
4. The adversarial-content drivers of C15 / C08 / C02 / C06 are re-run on the ASan+UBSan build; any sanitizer
   report or crash is a violation."""
import glob
import hashlib
import json
import os
import re
import subprocess
from concurrent.futures import ThreadPoolExecutor
import vlib

LEVEL = "exploration"
PARTS = ["extra", "hash", "stream", "box", "aead1", "aead2", "aead3", "curve", "group", "utils", "pwhash"]
NOAVX2 = {"SODIUM_VERIF_CPUID7_EBX_CLEAR": "0x10020"}
SSE2ONLY = {"SODIUM_VERIF_CPUID1_ECX_CLEAR": "0x12080201", "SODIUM_VERIF_CPUID7_EBX_CLEAR": "0x10020"}
CFG_QUICK = [("native", {}), ("asan", {}), ("native", NOAVX2), ("native", SSE2ONLY), ("portable", {})]
CFG_THOROUGH = CFG_QUICK + [("asan", NOAVX2), ("asan", SSE2ONLY), ("noasm", {}), ("no128", {})]
SAN_ENV = {"ASAN_OPTIONS": "detect_leaks=0:allocator_may_return_null=1:abort_on_error=0", "UBSAN_OPTIONS": "print_stacktrace=1"}
SUFFIXES = ["_multi_sp", "_detached_verifyonly", "_verifyonly", "_multi_keyed", "_multi_create", "_multi_verify", "_multi", "_nolen", "_short", "_keyed", "_c", "_ign", "_v1", "_v3", "_v5", "_v7",
            "_nacl", "_raw", "_nullctx", "_rxonly", "_small", "_alg_argon2i"]


def cfgname(variant, env):
    return variant + ("" if not env else "-" + hashlib.sha1(json.dumps(env, sort_keys=True).encode()).hexdigest()[:6])


def to_script(calls_path, script_path):
    n = 0
    with open(calls_path) as f, open(script_path, "w") as o:
        for i, l in enumerate(f):
            c = json.loads(l)
            o.write("%d %s %d %d %d %s %d %d %s\n" % (i, c["fn"], c["l1"], c["l2"], c["cm"], c["mode"], c["al"], len(c["bufs"]),
                                                     " ".join("%s:%d" % (b["role"], b["size"]) for b in c["bufs"])))
            n += 1
    return n


def generate(R, cfg):
    """direction A: TLC writes the call list of every part; returns {part: (calls file, script file, n)}"""
    out = {}
    envs = []
    for p in PARTS:
        cp = R.path("gen", "calls-%s.ndjson" % p)
        envs.append({"PART": p, "OUT": cp})
        out[p] = [cp, R.path("gen", "script-%s.txt" % p), 0]
    res = R.tlc_shards("sys/GenContract.tla", cfg, envs, timeout=3000, heap="6g")
    for p, r in zip(PARTS, res):
        if not r.ok:
            raise vlib.MachineryError("GenContract failed for part %s: %s" % (p, r.tail(20)))
        out[p][2] = to_script(out[p][0], out[p][1])
    return out


def run_script(R, exe, env, script, out, n, stderr_path):
    """run the driver over the whole script; after a fatal outcome (signal / sanitizer / misuse) restart behind it"""
    start, parts, restarts = 0, [], 0
    while start < n and restarts < 25:
        o = out + ".%d" % restarts
        e = dict(os.environ); e.update(SAN_ENV); e.update(env)
        try:
            r = subprocess.run([exe, str(R.seed), script, o, str(start)], capture_output=True, text=True, env=e, timeout=2400)
        except subprocess.TimeoutExpired:
            # a call that does not return: report it and go on behind it
            parts.append(o)
            last = start - 1
            for l in open(o, errors="replace"):
                if l.startswith('{"i"'):
                    try:
                        last = json.loads(l)["i"]
                    except ValueError:
                        pass
            hung = open(script).read().splitlines()[last + 1] if last + 1 < n else "?"
            R.violation("a call did not return within 2400 s (%s): %s" % (os.path.basename(out), hung[:200]), {"script_line": hung, "configs": [os.path.basename(out)]}, name="hang")
            start = last + 2
            restarts += 1
            continue
        parts.append(o)
        if r.returncode == 0:
            break
        with open(stderr_path, "a") as fh:
            fh.write(r.stderr[-6000:])
        last = None
        for l in open(o, errors="replace"):
            if l.startswith('{"i"'):
                try:
                    last = json.loads(l)
                except ValueError:
                    pass
        if last is None or r.returncode not in (70, 71, 72):
            raise vlib.MachineryError("contract driver failed rc=%d on %s (last complete record %s): %s"
                                      % (r.returncode, os.path.basename(script), (last or {}).get("i"), r.stderr[-2000:]))
        start = last["i"] + 1
        restarts += 1
    with open(out, "w") as fh:
        seen_state = False
        for o in parts:
            for l in open(o):
                if l.startswith('{"e":"statebytes"'):
                    if seen_state and parts.index(o) > 0:
                        continue
                fh.write(l)
            seen_state = True
            os.unlink(o)
    return restarts


def judge(R, jobs):
    """jobs: list of (label, trace file, calls file). Identical trace files are judged once."""
    uniq = {}
    for label, tf, cf in jobs:
        h = vlib.sha(open(tf, "rb").read() + cf.encode())
        uniq.setdefault(h, (tf, cf, []))[2].append(label)
    items = list(uniq.values())
    res = R.tlc_shards("trace/OracleContract.tla", "OracleContract.cfg", [{"TRACE": tf, "CALLS": cf} for tf, cf, _ in items],
                       timeout=3000, heap="4g")
    total, bad = 0, []
    for (tf, cf, labels), r in zip(items, res):
        m = re.search(r'"ORACLE",\s*(\d+),\s*"(\[.*?\])"', r.out, re.S)
        c = re.search(r'"COMPLETE",\s*(\d+),\s*(\d+),\s*(\d+),\s*(\d+)', r.out)
        if not m or not c or not r.ok:
            raise vlib.MachineryError("OracleContract produced no result for %s:\n%s" % (tf, r.tail(30)))
        total += int(m.group(1)) * len(labels)
        idx = json.loads(m.group(2))
        lines = open(tf).read().splitlines()
        for i in idx:
            bad.append((labels, json.loads(lines[i - 1])))
        seen, want, pseen, pwant = map(int, c.groups())
        if seen != want and os.path.basename(cf) != "none.ndjson":
            bad.append((labels, {"incomplete": True, "calls_with_an_outcome": seen, "calls_enumerated": want, "file": os.path.basename(tf)}))
        if os.path.basename(cf) == "none.ndjson" and pseen != pwant:
            bad.append((labels, {"incomplete": True, "probes_run": pseen, "probes_specified": pwant}))
    return total, bad


def api_coverage(table_fns):
    inc = os.path.join(vlib.REPO, "src/libsodium/include/sodium")
    txt = ""
    for f in sorted(glob.glob(os.path.join(inc, "*.h"))):
        txt += open(f).read()
    txt = re.sub(r"/\*.*?\*/", "", txt, flags=re.S)
    api = set()
    for m in re.finditer(r"SODIUM_EXPORT(?:_WEAK)?\s+([^;]*?);", txt, re.S):
        d = " ".join(m.group(1).split())
        mm = re.match(r"(.*?)\b(\w+)\s*\((.*?)\)\s*(__attribute__.*)?$", d)
        if mm and ("*" in mm.group(3) or "[" in mm.group(3)):
            api.add(mm.group(2))
    covered = set()
    for fn in table_fns:
        base = fn
        for s in SUFFIXES:
            if base.endswith(s):
                base = base[: -len(s)] + ("_detached" if s == "_detached_verifyonly" else "")
                break
        if base.endswith("_nacl"):
            base = base[:-5]
        for s in ("_open", "_afternm", "_open_afternm"):
            if fn.endswith("_nacl" + s):
                base = fn.replace("_nacl", "")
        if fn == "crypto_pwhash_str_alg_argon2i":
            covered.add("crypto_pwhash_str_alg")
        if fn.endswith("_multi_sp"):
            covered.add(base + "_init_salt_personal")
        if fn.endswith(("_multi", "_multi_keyed", "_multi_create", "_multi_verify", "_multi_sp")):
            for s in ("_init", "_update", "_final", "_final_create", "_final_verify", "_extract_init", "_extract_update", "_extract_final"):
                covered.add(base + s)
            if base.endswith("_extract"):
                for s in ("_init", "_update", "_final"):
                    covered.add(base + s)
        covered.add(base)
        if base == "crypto_pwhash_argon2id" or base == "crypto_pwhash_argon2i":
            covered.add("crypto_pwhash")
    cov = sorted(api & covered)
    return sorted(api), cov, sorted(api - covered)


def extra_drivers(R, thorough):
    """adversarial-content drivers of other properties, on the ASan+UBSan build: only crashes / reports matter here"""
    runs = []
    d = R.path("extra", "x")
    exe = R.cc("codec_driver", ["codec_driver.c"], "asan")
    runs.append(("codec_driver enc", [exe, "enc", "120" if thorough else "50", str(R.seed), d + "-codec-enc.ndjson"]))
    exe = R.cc("pad_driver", ["pad_driver.c"], "asan")
    runs.append(("pad_driver", [exe, str(R.seed), "60", d + "-pad.ndjson", "1", "2", "7", "8", "16", "33", "64"]))
    exe = R.cc("pwhash_driver", ["pwhash_driver.c"], "asan")
    runs.append(("pwhash_driver", [exe, str(R.seed), "full" if thorough else "quick", d + "-pwhash.ndjson"]))
    exe = R.cc("forge_driver", ["forge_driver.c"], "asan")
    runs.append(("forge_driver", [exe, str(R.seed), "quick", d + "-forge.ndjson"]))
    exe = R.cc("ed25519_driver", ["ed25519_driver.c"], "asan")
    runs.append(("ed25519_driver", [exe, str(R.seed), "40", d + "-ed.ndjson"]))
    exe = R.cc("group_driver", ["group_driver.c"], "asan")
    runs.append(("group_driver", [exe, str(R.seed), "20", d + "-group.ndjson"]))

    def one(x):
        name, cmd = x
        e = dict(os.environ); e.update(SAN_ENV)
        r = subprocess.run(cmd, capture_output=True, text=True, env=e, timeout=3000)
        return name, cmd, r
    with ThreadPoolExecutor(max_workers=6) as ex:
        results = list(ex.map(one, runs))
    n = 0
    for name, cmd, r in results:
        out = cmd[-1] if cmd[-1].endswith(".ndjson") else [c for c in cmd if c.endswith(".ndjson")][0]
        recs = open(out).read().splitlines() if os.path.exists(out) else []
        n += len(recs)
        report = re.search(r"(ERROR: AddressSanitizer[^\n]*|runtime error:[^\n]*)", r.stderr)
        crashed = any(l.startswith('{"e":"crash"') for l in recs[-3:])
        if report or crashed or r.returncode not in (0, 70):
            R.violation("%s on the ASan+UBSan build: %s" % (name, report.group(1) if report else "rc=%d crash=%s" % (r.returncode, crashed)),
                        {"driver": name, "args": cmd[1:-1], "stderr": r.stderr[-4000:], "last_records": recs[-3:]}, name="sanitizer")
        elif r.returncode == 70 and not crashed:
            raise vlib.MachineryError("%s exited 70 without a crash record: %s" % (name, r.stderr[-1000:]))
    return n, [x[0] for x in runs]


def run(R):
    thorough = R.tier == "thorough"
    cfgs = CFG_THOROUGH if thorough else CFG_QUICK
    R.build_all(sorted({v for v, _ in cfgs}))
    gen = generate(R, "GenContractThorough.cfg" if thorough else "GenContract.cfg")
    ncalls = sum(v[2] for v in gen.values())
    exes = {v: R.cc("contract_driver", ["contract_driver.c"], v) for v in sorted({v for v, _ in cfgs})}
    none = R.path("gen", "none.ndjson"); open(none, "w").close()
    jobs, work = [], []
    for variant, env in cfgs:
        cn = cfgname(variant, env)
        for p in PARTS:
            out = R.path("run", "%s-%s.ndjson" % (cn, p))
            work.append((variant, env, cn, p, out))

    def runone(w):
        variant, env, cn, p, out = w
        return run_script(R, exes[variant], env, gen[p][1], out, gen[p][2], R.path("run", "%s-%s.stderr" % (cn, p)))
    with ThreadPoolExecutor(max_workers=vlib.NCPU) as ex:
        restarts = list(ex.map(runone, work))
    for (variant, env, cn, p, out), rs in zip(work, restarts):
        jobs.append(("%s/%s" % (cn, p), out, gen[p][0]))
    for variant, env in cfgs:                         # size-limit probes
        cn = cfgname(variant, env)
        out = R.path("run", "%s-probes.ndjson" % cn)
        e = dict(SAN_ENV); e.update(env)
        R.run([exes[variant], str(R.seed), "probes", out], env=e, timeout=600)
        out2 = out + ".sys"                                   # the /dev/urandom fallback needs a fresh process (filter before sodium_init)
        R.run([exes[variant], str(R.seed), "sysrandom_probe", out2], env=e, timeout=900, ok_codes=(0, 70, 71, 72))
        open(out, "a").write(open(out2).read())
        R.run([exes[variant], str(R.seed), "getrandom_probe", out2], env=e, timeout=900, ok_codes=(0, 70, 71, 72))   # the default getrandom(2) path, 256-byte chunks
        open(out, "a").write(open(out2).read())
        jobs.append(("%s/probes" % cn, out, none))
    total, bad = judge(R, jobs)
    for labels, b in bad[:8]:
        cn = labels[0].split("/")[0]
        errs = ""
        sp = R.path("run", "%s.stderr" % labels[0].replace("/", "-"))
        if os.path.exists(sp):
            errs = open(sp).read()[-3000:]
        what = ("contract violated in %s: %s" % (", ".join(labels[:4]), json.dumps(b)[:400]))
        if errs:
            m = re.search(r"(ERROR: AddressSanitizer[^\n]*|runtime error:[^\n]*)", errs)
            what += " | " + (m.group(1) if m else "")
        R.violation(what, {"record": b, "configs": labels, "sanitizer_output": errs}, name="contract")
    if len(bad) > 8:
        R.notes.append("%d further rejected records not listed" % (len(bad) - 8))
    nx, xnames = extra_drivers(R, thorough)
    fns = sorted({json.loads(l)["fn"] for p in PARTS for l in open(gen[p][0])})
    api, cov, notcov = api_coverage(fns)
    R.add("evaluations", total + nx)
    R.add("traces_validated_against_impl", total)
    R.cov["calls_enumerated_by_tlc"] = ncalls
    R.cov["distinct_nontrivial"] = ncalls
    R.cov["rule"] = ("TLC enumerates Contract!Calls: every wrapped function x its boundary length sets (all lengths 0..Dense and both sides of each "
                     "block boundary up to 4097, function-specific second lengths) x content classes x placements {end at guard page, start at guard "
                     "page, NULL for empty nullable arguments, heap at offsets Als}; every call is executed in every configuration; "
                     "distinct_nontrivial = distinct enumerated calls, evaluations = executed calls + limit probes + adversarial-driver records")
    R.cov["calls_executed"] = ncalls * len(cfgs)
    R.cov["wrapped_functions"] = len(fns)
    R.cov["configurations"] = [cfgname(v, e) for v, e in cfgs]
    R.cov["restarts_after_fatal_outcome"] = sum(restarts)
    R.cov["api_functions_with_pointer_arguments"] = len(api)
    R.cov["api_functions_covered"] = len(cov)
    R.cov["api_functions_not_covered"] = notcov
    R.cov["adversarial_content_drivers_on_asan"] = xnames
    R.cov["adversarial_content_records"] = nx
    R.sample_line(jobs[0][1], 20)
    R.sample_line(jobs[-1][1], 3)
    R.assumptions += [
        "UBSan checks 'alignment' and 'nonnull-attribute' are disabled: x86-only backends use unaligned 32-bit loads and NULL+0 is passed to "
        "functions declared nonnull; neither is memory-unsafe or arithmetic (a misaligned SIMD load still faults and is caught as a signal)",
        "signed overflow is defined in this build (-fno-strict-overflow, as in the shipped configuration)",
        "reads inside an argument but beyond what the algorithm needs, and uninitialised reads, are not seen",
        "limits that cannot be probed without a >2^36-byte buffer because the function touches the buffer first are excluded: "
        "crypto_aead_aes256gcm_* (memset of the output precedes the check), crypto_pwhash* outlen, detached secretbox/box forms (no documented limit check)",
        "the AVX-512 Argon2 backend and the ARM backends are not executable here"]


def replay(R, path):
    d = json.load(open(path))
    case = d["case"]
    if "driver" in case:
        raise vlib.MachineryError("replay of adversarial driver runs: re-run ./check C12")
    rec = case["record"]
    cfgs = {cfgname(v, e): (v, e) for v, e in CFG_THOROUGH}
    label = case["configs"][0]
    cn, part = label.split("/")
    variant, env = cfgs[cn]
    R.build(variant)
    exe = R.cc("contract_driver", ["contract_driver.c"], variant)
    if part == "probes" or "i" not in rec:
        out = R.path("run", "probes.ndjson")
        e = dict(SAN_ENV); e.update(env)
        R.run([exe, str(R.seed), "probes", out], env=e, timeout=600)
        none = R.path("gen", "none.ndjson"); open(none, "w").close()
        total, bad = judge(R, [(label, out, none)])
    else:
        gen = generate(R, "GenContract.cfg")
        calls = open(gen[part][0]).read().splitlines()
        keep = [i for i, l in enumerate(calls) if (lambda c: c["fn"] == rec["fn"] and c["l1"] == rec["l1"] and c["l2"] == rec["l2"] and c["cm"] == rec["cm"]
                                                   and c["mode"] == rec["mode"] and c["al"] == rec["al"])(json.loads(l))]
        cf = R.path("gen", "replay-calls.ndjson"); open(cf, "w").write("\n".join(calls[i] for i in keep) + "\n")
        sf = R.path("gen", "replay-script.txt"); n = to_script(cf, sf)
        out = R.path("run", "replay.ndjson")
        run_script(R, exe, env, sf, out, n, R.path("run", "replay.stderr"))
        total, bad = judge(R, [(label, out, cf)])
    for labels, b in bad:
        R.violation("contract violated (recorded case) in %s: %s" % (label, json.dumps(b)[:400]), {"record": b, "configs": [label]}, name="contract")
    R.add("evaluations", max(total, 1)); R.add("traces_validated_against_impl", total)
    R.cov.update({"distinct_nontrivial": 2, "rule": "replay of a recorded case"})
