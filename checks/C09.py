"""C09 - secretstream delivers exactly the pushed sequence.
1. TLC model-checks sys/SecretStream (MCSecretStream.cfg) exhaustively.
2. Direction A: TLC -simulate behaviours of GenSecretStream are turned into scripts, executed on the
   real API by harness/ss_driver.c; direction B: seeded random long histories, same driver.
   Every recorded trace is validated by sys/TraceSecretStream.tla (one TLC per shard).
3. Byte level: the logged key/nonce/chunk bytes are validated against lib/SecretStreamBytes.tla."""
import json
import os
import random
import re

import vlib

LEVEL = "model_checking"
LENS = [0, 1, 2, 15, 16, 17, 31, 32, 33, 47, 48, 49, 63, 64, 65, 100, 127, 128, 129, 255, 256, 257, 511, 512, 513, 1000]
CFGS = [("native", {}), ("native", {"SODIUM_VERIF_CPUID7_EBX_CLEAR": "0x10020"}),            # no AVX2/AVX512 -> ssse3 chacha
        ("native", {"SODIUM_VERIF_CPUID1_ECX_CLEAR": "0x18080201", "SODIUM_VERIF_CPUID1_EDX_CLEAR": "0x4000000"}),  # ref chacha, donna64
        ("no128", {}), ("portable", {})]


def gen_random_script(rng, nhist, nops, long_lens):
    out = []
    for _ in range(nhist):
        # initial counter: 1, just before the 2^32 wrap, or (one history in three) just before a carry into byte 1, 2 or 3 of the
        # counter and before multiples of 2^24 - no rekey may happen there
        if rng.randrange(3) == 0:
            out.append("I %d" % (2 ** 32 - rng.choice([2 ** 8, 2 ** 16, 2 ** 24, 2 ** 25, 3 * 2 ** 24, 2 ** 31, 2 ** 31 + 2 ** 24, 255 * 2 ** 24]) + rng.choice([1, 2, 3, 4])))
        else:
            out.append("I %d" % rng.choice([0, 0, 1, 2, 3, 5]))
        nch = 0          # chunks on wire
        main = []        # wire indices of main chunks
        nxt = 0          # next main chunk to deliver
        for _ in range(nops):
            r = rng.random()
            if r < 0.34 and nch < 4000:
                ml = rng.choice(LENS if long_lens else LENS[:16])
                al = rng.choice([0, 0, 1, 15, 16, 17, 33, 64])
                tag = rng.choice([0, 0, 0, 1, 2, 3, 3, rng.randrange(256)])
                out.append("P 0 %d %d %d" % (tag, ml, al))
                main.append(nch)
                nch += 1
            elif r < 0.68 and nxt < len(main):
                out.append("L %d 0 0" % main[nxt])
                nxt += 1
            elif r < 0.86 and nch > 0:
                # adversarial: replay / skip ahead / tamper / wrong ad / foreign
                i = rng.choice([rng.randrange(nch), main[min(nxt, len(main) - 1)] if main else 0,
                                main[min(nxt + 1, len(main) - 1)] if main else 0])
                kind = rng.choice([0, 0, 1, 2, 3, 4, 5, 6, 7])
                adsel = rng.choice([0, 0, 0, 1, 2, 3])
                if kind == 0 and adsel == 0 and nxt < len(main) and i == main[nxt]:
                    nxt += 1     # happens to be the genuine next chunk
                out.append("L %d %d %d" % (i, kind, adsel))
            elif r < 0.90:
                out.append("P %d %d %d %d" % (rng.choice([1, 2]), rng.choice([0, 1, 2, 3]), rng.choice(LENS[:12]), rng.choice([0, 5])))
                nch += 1
            elif r < 0.95 and nxt == len(main):
                out.append("K 0")
                out.append("K 3")
            else:
                out.append("K %d" % rng.choice([0, 3, 1]))
    return out


def behaviours_to_scripts(lines, rng, wrap, per_prefix=2):
    """TLC behaviours (JSON lists of abstract actions) -> concrete scripts"""
    seen = {}
    scripts = []
    for ln in lines:
        hist = json.loads(ln)
        key = json.dumps(hist[:-1])
        seen[key] = seen.get(key, 0) + 1
        if seen[key] > per_prefix:
            continue
        s = []
        mlen = {}
        for a in hist:
            if a["op"] == "I":
                c = a["c"]
                s.append("I %d" % (0 if c == 1 else wrap - c))
            elif a["op"] == "P":
                by = {"main": 0, "otherkey": 1, "otherhdr": 2}[a["by"]]
                s.append("P %d %d %d %d" % (by, a["tag"], mlen.setdefault(a["m"], rng.choice(LENS[:20])),
                                            mlen.setdefault(a["ad"], rng.choice([0, 1, 16, 17, 40]))))
            elif a["op"] == "K":
                s.append("K %d" % {"main": 0, "otherkey": 1, "otherhdr": 2, "pull": 3}[a["side"]])
            elif a["op"] == "L":
                kind = 0 if a["t"] == "none" else rng.randrange(1, 8)
                adsel = 0 if a["sameAd"] else rng.randrange(1, 4)
                s.append("L %d %d %d" % (a["i"] - 1, kind, adsel))
        scripts.append(s)
    return scripts


def model_check(R):
    thorough = R.tier == "thorough"
    cfg = "MCSecretStream4.cfg" if thorough else "MCSecretStream.cfg"
    r = R.tlc("sys/MCSecretStream.tla", cfg, workers=vlib.NCPU, timeout=6000 if thorough else 600, heap="24g", coverage=False)
    if r.violated:
        R.violation("the SecretStream design model violates an invariant (specification-level): " + r.tail(30), r.out, name="model")
    R.add("states", r.distinct)
    R.add("transitions", r.generated)
    R.cov["model"] = {"module": "MCSecretStream", "cfg": cfg, "distinct": r.distinct, "generated": r.generated, "depth": r.depth,
                      "invariants": ["TypeOK", "Prefix", "OnlyNext", "Sync", "Resync", "FailUnchanged(action property)"]}
    # vacuity: the deliberately broken variants of the design must violate the invariants
    for broken, inv in (("BrokenReplay", "OnlyNext"), ("BrokenFailUpdates", "FailUnchanged|Resync|Prefix|OnlyNext")):
        rb = R.tlc("sys/MCSecretStreamBroken.tla", "MCSecretStream%s.cfg" % broken, workers=vlib.NCPU, timeout=600, heap="8g")
        if not rb.violated:
            raise vlib.MachineryError("vacuity: broken design variant %s is not rejected by the invariants" % broken)
    R.cov["model"]["broken_variants_rejected"] = 2


def validate_traces(R, trace_files):
    """returns list of (file, ok, rejected_line)"""
    envs = [{"TRACE": f} for f in trace_files]
    res = R.tlc_shards("sys/TraceSecretStream.tla", "TraceSecretStream.cfg", envs, timeout=1500, heap="3g")
    out = []
    for f, r in zip(trace_files, res):
        if r.ok:
            out.append((f, True, None, r))
        else:
            m = re.search(r'"REJECTED at line",\s*(\d+)', r.out)
            out.append((f, False, int(m.group(1)) if m else -1, r))
    return out


def run_scripts(R, scripts, tag, with_bytes):
    """scripts: list of list-of-lines, spread over configurations; returns (trace_files, bytes_files, nhist)"""
    traces, bfiles = [], []
    R.build_all(sorted({v for v, _ in CFGS}))
    nshard = len(CFGS) * 3 if R.tier == "quick" else 16
    shards = [[] for _ in range(nshard)]
    for i, s in enumerate(scripts):
        shards[i % nshard].extend(s)
    for i, sh in enumerate(shards):
        if not sh:
            continue
        variant, env = CFGS[i % len(CFGS)]
        exe = R.cc("ss_driver", ["ss_driver.c"], variant)
        sp = R.path("ss", "%s-%d.script" % (tag, i))
        open(sp, "w").write("\n".join(sh) + "\n")
        tp = R.path("ss", "%s-%d.ndjson" % (tag, i))
        dseed = R.seed + i
        args = [exe, sp, tp, str(dseed)]
        if with_bytes:
            bp = R.path("ss", "%s-%d.bytes.ndjson" % (tag, i))
            args.append(bp)
            bfiles.append(bp)
        R.run(args, env=env, ok_codes=(0, 70))
        traces.append((tp, sp, variant, env, dseed))
    return traces, bfiles


def report_rejections(R, results, meta):
    nacc = 0
    for (f, ok, line, r) in results:
        tp, sp, variant, env, dseed = meta[f]
        lines = open(f).read().splitlines()
        nh = sum(1 for x in lines if x.startswith('{"e":"init"'))
        if ok:
            nacc += nh
            continue
        # count histories fully accepted before the rejected line
        nacc += max(0, sum(1 for x in lines[:max(line - 1, 0)] if x.startswith('{"e":"init"')) - 1)
        bad = lines[line - 1] if 0 < line <= len(lines) else "?"
        start = max(i for i in range(line) if lines[i].startswith('{"e":"init"')) if line > 0 else 0
        R.violation("secretstream trace rejected by TraceSecretStream at line %d (%s %s): %s" % (line, variant, env, bad[:300]),
                    {"variant": variant, "env": env, "seed": dseed, "script": open(sp).read().splitlines(), "rejected_line": line,
                     "history": lines[start:line]}, name="trace")
    return nacc


def run(R):
    rng = random.Random(R.seed)
    thorough = R.tier == "thorough"
    model_check(R)
    # direction A: behaviours generated by TLC
    wrap = 10
    g = R.tlc("sys/GenSecretStream.tla", "GenSecretStream.cfg", workers=4, simulate=(400 if thorough else 40), depth=25, timeout=900, heap="4g")
    beh = [json.loads(m.group(1)) for m in re.finditer(r'^<<"BEHAVIOUR", (".*")>>$', g.out, re.M)]
    scriptsA = behaviours_to_scripts(beh, rng, wrap)
    # direction B: seeded random long histories
    scriptsB = [gen_random_script(rng, 1, rng.choice([30, 60, 120, 200]), True) for _ in range(2000 if thorough else 150)]
    tA, _ = run_scripts(R, scriptsA, "A", False)
    tB, bfiles = run_scripts(R, scriptsB, "B", True)
    meta = {t[0]: t for t in tA + tB}
    results = validate_traces(R, [t[0] for t in tA + tB])
    nacc = report_rejections(R, results, meta)
    R.add("traces_validated_against_impl", nacc)
    if thorough:      # one chunk longer than 2^32 bytes (about 8.6 GiB of memory for ~20 s)
        exe = R.cc("ss_huge", ["ss_huge.c"], "native")
        hp = R.path("ss", "huge.ndjson")
        R.run([exe, str(R.seed), hp], ok_codes=(0, 70), timeout=3000)
        htotal, hbad = R.oracle("trace/OracleStream.tla", [hp], timeout=1200)
        for b in hbad:
            R.violation("a chunk of 2^32 + 4096 bytes is not the documented construction / does not round-trip: %s" % json.dumps({k: v for k, v in b.items() if k not in ("bytes", "k")})[:300],
                        {k: v for k, v in b.items() if k != "bytes"}, name="hugechunk")
        R.cov["huge_chunk_records"] = htotal
    R.cov["behaviours_from_tlc_replayed"] = len(scriptsA)
    R.cov["random_histories"] = len(scriptsB)
    R.cov["trace_events"] = sum(r.generated for (_, _, _, r) in results)
    R.cov["configurations"] = ["%s %s" % (v, e) for v, e in CFGS]
    if scriptsA:
        R.sample({"tlc_behaviour_as_script": scriptsA[0][:14]})
    if tB:
        R.sample({"recorded_trace_head": open(tB[0][0]).read().splitlines()[:4]})
    # byte level
    recs = []
    for bf in bfiles:
        recs += vlib.read_ndjson(bf)
    rng.shuffle(recs)
    want = 600 if thorough else 60
    # keep inits, rekeys, and chunks preferring short ones (TLC cost grows with length) plus a few long
    recs.sort(key=lambda r: len(r.get("m", [])) + len(r.get("ad", [])))
    pick = recs[:want - 6] + recs[-6:]
    files = []
    for i, sh in enumerate(vlib.shard(pick, vlib.NCPU)):
        p = R.path("ss", "bytes-shard-%d.ndjson" % i)
        vlib.write_ndjson(p, sh)
        files.append(p)
    nbytes, bad = R.oracle("trace/OracleSS.tla", files)
    for b in bad[:5]:
        R.violation("secretstream bytes differ from the documented construction (op %s)" % b["op"], b, name="bytes")
    R.cov["byte_level_records_validated"] = nbytes
    R.assumptions += ["symbolic (perfect) cryptography in the state-machine model; byte-level construction checked separately against lib/SecretStreamBytes.tla",
                      "digests (30-bit) identify messages/chunks in traces; a collision could hide a difference with probability 2^-30 per comparison",
                      "2^32 counter wrap reached by writing the public nonce field of the state struct"]


def replay(R, path):
    d = json.load(open(path))
    c = d["case"]
    if "script" in c:
        exe = R.cc("ss_driver", ["ss_driver.c"], c["variant"])
        sp = R.path("ss", "replay.script")
        open(sp, "w").write("\n".join(c["script"]) + "\n")
        tp = R.path("ss", "replay.ndjson")
        R.run([exe, sp, tp, str(c.get("seed", R.seed))], env=c["env"], ok_codes=(0, 70))
        res = validate_traces(R, [tp])
        report_rejections(R, res, {tp: (tp, sp, c["variant"], c["env"], c.get("seed", R.seed))})
    R.add("states", 1); R.add("transitions", 1); R.add("traces_validated_against_impl", 0)
