"""C01 - authenticated encryption. Direction B with lib/Aead.tla (constructions composed from ChaCha, Salsa,
Poly1305, Aes/Gcm, Aegis, X25519, Blake2b as the public specifications define them) as TLC-evaluated oracle. For
every construction and (message length, ad length) pair the driver runs every call form - combined, detached,
in place, NaCl zero-padded, precomputed key, verify-only - for encryption and decryption and logs every DISTINCT
(ciphertext, tag) pair; TLC requires exactly one, equal to the specified value, and that all decryptions returned
the message. ChaCha/Poly1305/Salsa backends via CPU masks, AES-NI vs soft AES for AEGIS, three builds."""
import json
import vlib

LEVEL = "exploration"
CFGS = [("native", {}), ("native", {"SODIUM_VERIF_CPUID7_EBX_CLEAR": "0x10020"}),
        ("native", {"SODIUM_VERIF_CPUID1_ECX_CLEAR": "0x12080201", "SODIUM_VERIF_CPUID1_EDX_CLEAR": "0x4000000"}),
        ("no128", {"SODIUM_VERIF_CPUID1_EDX_CLEAR": "0x4000000"}), ("portable", {})]


def run(R):
    thorough = R.tier == "thorough"
    R.build_all(sorted({v for v, _ in CFGS}))
    merged, order = {}, []
    for i, (variant, env) in enumerate(CFGS):
        exe = R.cc("aead_driver", ["aead_driver.c"], variant)
        out = R.path("aead", "a%d.ndjson" % i)
        R.run([exe, str(R.seed), "full" if thorough else "quick", out], env=env, ok_codes=(0, 70), timeout=3000)
        for ln in open(out):
            if ln.startswith('{"e":"crash"'):
                R.violation("driver crashed in configuration %s %s" % (variant, env), {"variant": variant, "env": env}, name="crash")
                continue
            if ln not in merged:
                merged[ln] = []
                order.append(ln)
            merged[ln].append("%s %s" % (variant, env))
    # balance shards by estimated TLC cost (bytes processed; box/seal records cost a scalar multiplication)
    def cost(l):
        return len(l) + (60000 if ('"op":"box"' in l or '"op":"seal"' in l) else 0) + (3 * len(l) if '"alg":"aes256gcm"' in l else 0)
    order.sort(key=cost, reverse=True)
    nsh = vlib.NCPU
    bins = [[0, []] for _ in range(nsh)]
    for l in order:
        b = min(bins, key=lambda x: x[0])
        b[0] += cost(l)
        b[1].append(l)
    files = []
    for i, (_, ls) in enumerate(bins):
        if ls:
            p = R.path("aead", "shard%d.ndjson" % i)
            open(p, "w").write("".join(ls))
            files.append(p)
    total, bad = R.oracle("trace/OracleAead.tla", files, timeout=3400)
    seen = set()
    for b in bad:
        b.setdefault("alg", "aegis128l" if b["op"].startswith("aegis") else "?")
        key = (b["op"], b["alg"])
        if key in seen:
            continue
        seen.add(key)
        cf = merged.get(json.dumps(b, separators=(",", ":")) + "\n", ["?"])
        desc = {k: (v if not isinstance(v, list) or len(v) <= 48 else v[:48] + ["..."]) for k, v in b.items() if k != "res"}
        R.violation("%s %s: call forms disagree or differ from the specification (message %d bytes, ad %d bytes, %d distinct results, decryptions ok=%s; configurations %s)"
                    % (b["op"], b["alg"], len(b.get("m", [])), len(b.get("ad", [])), len(b.get("res", [])), b.get("dec_ok", b.get("open_ok")), cf[:3]), b, name="aead")
    nforms = 0
    for l in order:
        x = json.loads(l)
        nforms += x.get("nforms", 3) * len(merged[l])
    R.cov.update({"evaluations": nforms, "distinct_nontrivial": total,
                  "rule": "evaluations = call-form executions over all configurations; distinct_nontrivial = distinct (construction, key, nonce, ad, message) records judged byte-exactly by TLC (identical records from different configurations are judged once; a deviating configuration yields a distinct record)",
                  "configurations": ["%s %s" % c for c in CFGS]})
    R.sample({k: (v if not isinstance(v, list) or len(v) < 40 else "%d bytes" % len(v)) for k, v in json.loads(order[len(order) // 2]).items() if k != "res"})
    R.assumptions += ["AES-256-GCM only where the hardware makes it available (native build, unmasked AES-NI/PCLMUL)",
                      "messages up to 2 KiB; larger messages are not executed here"]


def replay(R, path):
    d = json.load(open(path))
    p = R.path("aead", "replay.ndjson")
    vlib.write_ndjson(p, [d["case"]])
    total, bad = R.oracle("trace/OracleAead.tla", [p])
    for b in bad:
        R.violation("%s %s: recorded case differs from the specification" % (b["op"], b["alg"]), b, name="aead")
    R.cov.update({"evaluations": 1, "distinct_nontrivial": 2, "rule": "replay"})
