"""C14 - constant-time helpers compute exact results. Direction B: the real helpers (asm fast paths in the
native build, portable loops in noasm/portable) run on exhaustive 1-byte operands, a 16^4 class product and
60 000 random 2-byte operands, and for every length 0..N on equal / one-bit / one-byte differences at every
position, carry and borrow chains of every length, seam patterns, at all 16 alignments with buffers ending
at PROT_NONE pages; TLC judges every record against lib/CtHelpers.tla."""
import hashlib
import json
import vlib

LEVEL = "exploration"


def run(R):
    thorough = R.tier == "thorough"
    variants = ["native", "noasm", "portable"]
    R.build_all(variants)
    files = []
    for variant in variants:
        exe = R.cc("ct_driver", ["ct_driver.c"], variant)
        out = R.path("ct", "sweep-%s.ndjson" % variant)
        R.run([exe, str(R.seed), "sweep", "300" if thorough else "70", out], ok_codes=(0, 70))
        files += R.split_file(out, 6 if not thorough else 10, "sweep-" + variant)
        if variant != "portable" or thorough:
            out = R.path("ct", "small-%s.ndjson" % variant)
            R.run([exe, str(R.seed), "small", "0", out], ok_codes=(0, 70))
            files += R.split_file(out, 8, "small-" + variant)
    if thorough:          # operands of 2^32 + 300 bytes (sparse, read-only): about 90 s per build
        from concurrent.futures import ThreadPoolExecutor
        hj = []
        for variant in ("native", "portable"):
            out = R.path("ct", "huge-%s.ndjson" % variant)
            hj.append(([R.cc("ct_driver", ["ct_driver.c"], variant), str(R.seed), "huge", "0", out], out))
        with ThreadPoolExecutor(max_workers=2) as ex:
            list(ex.map(lambda j: R.run(j[0], ok_codes=(0, 70), timeout=3000), hj))
        files += [j[1] for j in hj]
    seen = set()
    n = 0
    for f in files:
        for line in open(f):
            n += 1
            r = line.strip()
            if '"a":[]' in r:
                continue          # empty operands are the trivial case
            seen.add(hashlib.blake2b(r.encode(), digest_size=8).digest())
    total, bad = R.oracle("trace/OracleCt.tla", files)
    for b in bad[:5]:
        R.violation("helper result differs from lib/CtHelpers.tla: %s" % json.dumps(b)[:300], {"records": [b]}, name="ct")
    R.cov.update({"evaluations": total, "distinct_nontrivial": len(seen),
                  "rule": "exhaustive 1-byte operands, 16^4 class product + 60000 seeded random 2-byte operands, then per length 0..%d: equal, all-00, all-ff, one flipped bit at every byte (every bit for short and 32/64-byte lengths), swapped-order pairs, carry/borrow chains of every length, seam patterns, 6 random pairs; memzero at every (offset,len) of a 40-byte region; 3 build variants; distinct = distinct record lines with non-empty operands" % (130 if thorough else 70),
                  "variants": variants})
    R.sample_line(files[0], 100)
    R.sample_line(files[-1], 7)
    R.assumptions += ["buffers are placed 0..15 bytes before a PROT_NONE page, so over-reads of more than that always fault, shorter ones only at alignment 0"]


def replay(R, path):
    d = json.load(open(path))
    p = R.path("ct", "replay.ndjson")
    vlib.write_ndjson(p, d["case"]["records"])
    total, bad = R.oracle("trace/OracleCt.tla", [p])
    for b in bad:
        R.violation("helper result differs from lib/CtHelpers.tla (recorded case): %s" % json.dumps(b)[:300], {"records": [b]}, name="ct")
    R.cov.update({"evaluations": max(total, 1), "distinct_nontrivial": 2, "rule": "replay of recorded records"})
