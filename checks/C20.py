"""C20 - memory exhaustion fails closed.
1. TLC model-checks sys/AllocFault (monitor + design model of the allocation protocols, every failure subset).
2. harness/alloc_fault.c interposes malloc/calloc/realloc/free/posix_memalign/mmap/munmap at link time and, for
   every API call (18 calls: argon2i/id raw, str, str_verify right+wrong password, needs_rehash; scrypt raw, str,
   verify, low-level; sodium_malloc/allocarray) and every position i of its request sequence, runs the call in a
   forked child with request i failing and with all requests >= i failing. sys/TraceAllocFault.tla validates every
   run against the monitor."""
import json
import re
import vlib

LEVEL = "fault_enumeration"
WRAP = "-Wl,--wrap=malloc,--wrap=calloc,--wrap=realloc,--wrap=free,--wrap=posix_memalign,--wrap=mmap,--wrap=munmap"


def run(R):
    thorough = R.tier == "thorough"
    r = R.tlc("sys/MCAllocFault.tla", "MCAllocFault.cfg", workers=4, timeout=600)
    if r.violated:
        R.violation("AllocFault design model violates the monitor: " + r.tail(30), r.out, name="model")
    rb = R.tlc("sys/MCAllocFault.tla", "MCAllocFaultBroken.cfg", workers=2, timeout=300)
    if not rb.violated:
        raise vlib.MachineryError("vacuity: leaking design variant is not rejected")
    R.cov["model"] = {"module": "MCAllocFault", "distinct": r.distinct, "generated": r.generated, "broken_variants_rejected": 1}
    runs = [("native", []), ("nommap", []), ("native", ["errno=22"]), ("native", ["errno=11"])]      # EINVAL, EAGAIN instead of ENOMEM
    if thorough:
        runs += [("nommap2", []), ("native", ["big"]), ("nommap", ["big"]), ("portable", [])]
    R.build_all(sorted({v for v, _ in runs}))
    traces = []
    for variant, extra in runs:
        exe = R.cc("alloc_fault", ["alloc_fault.c"], variant, extra=[WRAP])
        tp = R.path("af", "%s-%s.ndjson" % (variant, "-".join(extra) or "min"))
        env = {"VERIF_FAIL_ERRNO": extra[0].split("=")[1]} if extra and extra[0].startswith("errno=") else {}
        R.run([exe, tp] + [x for x in extra if not x.startswith("errno=")], env=env, timeout=1800)
        traces.append((tp, variant, extra))
    res = R.tlc_shards("sys/TraceAllocFault.tla", "TraceAllocFault.cfg", [{"TRACE": t[0]} for t in traces], timeout=1200)
    nruns = 0
    reached = set()
    noalloc = set()
    for (tp, variant, extra), rr in zip(traces, res):
        lines = [json.loads(x) for x in open(tp).read().splitlines()]
        cur = None
        for ev in lines:
            if ev["e"] == "begin":
                cur = ev
                nruns += 1
                cur["_failed"] = False
            elif ev["e"] == "alloc" and not ev["ok"] and cur is not None and not cur["_failed"]:
                cur["_failed"] = True
                reached.add((variant, "-".join(extra), cur["api"], cur["pos"], cur["mode"]))
            elif ev["e"] == "end" and cur is not None and cur["mode"] == "none" and ev["requests"] == 0:
                noalloc.add(cur["api"])
        # vacuity: every injected position must actually have been reached
        cur = None
        for ev in lines:
            if ev["e"] == "begin":
                cur = ev
            elif ev["e"] == "end" and cur["mode"] != "none":
                if (variant, "-".join(extra), cur["api"], cur["pos"], cur["mode"]) not in reached:
                    raise vlib.MachineryError("injection point not reached: %s" % cur)
        if not rr.ok:
            m = re.search(r'"REJECTED at line",\s*(\d+)', rr.out)
            inv = re.search(r"Invariant (\w+) is violated", rr.out)
            raw = open(tp).read().splitlines()
            if m:
                line = int(m.group(1))
            else:
                line = rr.generated if rr.generated else 1    # invariant violated in the state reached after this many lines
            line = max(1, min(line, len(raw)))
            start = max(i for i in range(line) if raw[i].startswith('{"e":"begin"'))
            R.violation("fault-injection run violates the AllocFault monitor (%s; %s %s): %s" % (inv.group(1) if inv else "event not allowed", variant, extra, raw[start][:200]),
                        {"variant": variant, "extra": extra, "events": raw[start:line + 1]}, name="fault")
    allocating = {a for (_, _, a, _, _) in reached}
    R.cov.update({"evaluations": nruns, "distinct_nontrivial": len(reached), "exhaustive": True,
                  "rule": "one run per (build variant, API call, position i of its allocation sequence, mode single|from) + one run without failure per call; distinct_nontrivial counts the runs in which the injected failure was actually reached; every position 1..n of every allocating call is hit (checked, else exit 2)",
                  "apis_with_injection": sorted(allocating), "apis_without_any_allocation": sorted(noalloc),
                  "variants": ["%s %s" % (v, e) for v, e in runs]})
    lines = open(traces[0][0]).read().splitlines()
    R.sample(lines[:7])
    R.assumptions += ["failures of mprotect/mlock/madvise are not injected", "requests made by libc itself on behalf of the library (none observed) would not be seen"]


def replay(R, path):
    d = json.load(open(path))
    tp = R.path("af", "replay.ndjson")
    open(tp, "w").write("\n".join(d["case"]["events"]) + "\n")
    rr = R.tlc("sys/TraceAllocFault.tla", "TraceAllocFault.cfg", env={"TRACE": tp})
    if not rr.ok:
        R.violation("recorded fault-injection run violates the AllocFault monitor", d["case"], name="fault")
    R.cov.update({"evaluations": 1, "distinct_nontrivial": 2, "rule": "replay of a recorded run", "samples": []})
