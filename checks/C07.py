"""C07 - Edwards25519 / Ristretto255 group and scalar arithmetic. Direction B with lib/Ed25519.tla, ScalarL.tla,
Ristretto255.tla (RFC 9496) and H2C.tla (RFC 9380) as TLC-evaluated oracles: validity of structured encodings (the
8 torsion points and 6 non-canonical aliases, prime-order points plus each torsion point, negated, bit-flipped,
random bytes, tiny y), add/sub, scalar multiplication clamped/unclamped/base incl. identity results and invalid or
mixed-order inputs, all scalar operations on structured and random reduced and unreduced byte strings, Ristretto
validity/add/sub/scalarmult/one-way map, membership of map outputs in the prime-order group, hash-to-group and
hash-to-scalar for both hashes, NU and RO, contexts NULL/empty/255/256/300/499/1000 bytes, NULL and long messages."""
import json
import vlib

LEVEL = "exploration"
CFGS = [("native", {}), ("no128", {}), ("portable", {})]


def run(R):
    thorough = R.tier == "thorough"
    R.build_all(sorted({v for v, _ in CFGS}))
    n = 160 if thorough else 8
    merged, order = {}, []
    for i, (variant, env) in enumerate(CFGS):
        exe = R.cc("group_driver", ["group_driver.c"], variant)
        out = R.path("grp", "g%d.ndjson" % i)
        R.run([exe, str(R.seed), str(n), out], env=env, ok_codes=(0, 70), timeout=1800)
        for ln in open(out):
            if ln.startswith('{"e":"crash"'):
                R.violation("driver crashed in configuration %s" % variant, {"variant": variant}, name="crash")
                continue
            if ln not in merged:
                merged[ln] = []
                order.append(ln)
            merged[ln].append(variant)
    heavy = [l for l in order if any(t in l for t in ('"op":"ed_mul"', '"op":"ed_valid"', '"op":"h2c"', '"op":"r_mul"', '"op":"ed_from_uniform"', '"f":"invert"'))]
    hset = set(heavy)
    light = [l for l in order if l not in hset]
    files = []
    hs, ls = vlib.shard(heavy, vlib.NCPU), vlib.shard(light, vlib.NCPU)
    for i in range(vlib.NCPU):
        p = R.path("grp", "shard%d.ndjson" % i)
        open(p, "w").write("".join((hs[i] if i < len(hs) else []) + (ls[i] if i < len(ls) else [])))
        if open(p).read():
            files.append(p)
    total, bad, known = R.oracle("trace/OracleGroup.tla", files, timeout=3400, want_known=True)
    f2 = [b for b in bad if b.get("_known2")]
    bad = [b for b in bad if not b.get("_known2")]
    if f2:
        R.violation("valid-point predicate accepts points of order 2L (P + (0,-1)): %d record(s) match the deviation model, e.g. %s" % (len(f2), json.dumps(f2[0])[:200]),
                    {"records": f2[:10]}, name="f2")
    groups = {}
    for b in bad:
        key = b["op"] + ((":" + b.get("kind", b.get("f", ""))) if ("kind" in b or "f" in b) else "")
        groups.setdefault(key, []).append(b)
    for key, items in sorted(groups.items()):
        R.violation("%s: %d record(s) rejected by the specification, first: %s" % (key, len(items), json.dumps(items[0])[:260]),
                    {"records": items[:20]}, name="group")
    if known:
        R.violation("h2c context > 255 bytes: output equals the aliasing model (b_0 used as DST), not RFC 9380 (%d records)" % len(known), {"records": known[:5]}, name="h2c")
    R.cov.update({"evaluations": sum(len(v) for v in merged.values()), "distinct_nontrivial": total,
                  "rule": "evaluations = records over 3 field-arithmetic builds; distinct_nontrivial = distinct records judged by TLC",
                  "records_by_op": {k: sum(1 for l in order if '"op":"%s"' % k in l) for k in ("ed_valid", "r_valid", "ed_add", "ed_sub", "ed_mul", "r_add", "r_sub", "r_mul", "sc", "sc_canonical", "sc_reduce", "r_from_hash", "ed_from_uniform", "h2c")},
                  "h2c_records_matching_known_deviation": len(known), "records_matching_F2_deviation": len(f2)})
    R.sample_line(files[0], 0)
    R.assumptions += ["crypto_core_ed25519_add/sub are specified as 'decodable (on-curve) inputs, exact sum'; their acceptance of non-canonical or small-order operands is not judged",
                      "scalar_invert of a multiple of L is not judged (no inverse exists); scalar add/sub are judged for reduced inputs only, as the property states",
                      "an all-zero scalar argument to scalarmult_ed25519* is always refused by the library; accepted as an error"]


def replay(R, path):
    d = json.load(open(path))
    p = R.path("grp", "replay.ndjson")
    vlib.write_ndjson(p, d["case"]["records"])
    total, bad, known = R.oracle("trace/OracleGroup.tla", [p], want_known=True)
    for b in bad:
        R.violation("%s: recorded case rejected by the specification" % b["op"], {"records": [b]}, name="group")
    if known:
        R.violation("h2c context > 255 bytes: output equals the aliasing model (b_0 used as DST), not RFC 9380", {"records": known[:5]}, name="h2c")
    R.cov.update({"evaluations": 1, "distinct_nontrivial": 2, "rule": "replay"})
