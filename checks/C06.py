"""C06 - Ed25519. Direction B with lib/Ed25519.tla (RFC 8032 on exact field/scalar arithmetic) as TLC-evaluated
oracle: key pairs and signatures (detached, combined, pre-hashed multi-part under several chunkings) byte-exact;
every honest signature must verify in every form; adversarial triples built from honest ones (S + kL, high bits of
S, the 8 torsion points and 6 non-canonical aliases as A and as R, R + T and A + T for every torsion point T with
and without recomputing h, negated R / A, bit flips of signature, key and message, truncation) may be accepted only
if VerifyStrict holds; Ed25519->X25519 conversions commute with key derivation and refuse small-order keys."""
import json
import vlib

LEVEL = "exploration"
CFGS = [("native", {}), ("no128", {}), ("portable", {})]


def run(R):
    thorough = R.tier == "thorough"
    R.build_all(sorted({v for v, _ in CFGS}))
    nh = 300 if thorough else 12
    merged, order = {}, []
    for i, (variant, env) in enumerate(CFGS):
        exe = R.cc("ed25519_driver", ["ed25519_driver.c"], variant)
        out = R.path("ed", "e%d.ndjson" % i)
        # the first configuration also searches for valid signatures whose challenge scalar has a run of >= 27 one-bits (8 x 2^22 candidates, thorough 8 x 2^24)
        R.run([exe, str(R.seed), str(nh), out] + ([("24" if thorough else "22")] if i == 0 else []), env=env, ok_codes=(0, 70), timeout=1800)
        for ln in open(out):
            if ln.startswith('{"e":"crash"'):
                R.violation("driver crashed in configuration %s" % variant, {"variant": variant}, name="crash")
                continue
            if ln not in merged:
                merged[ln] = []
                order.append(ln)
            merged[ln].append(variant)
    # expensive records (accepted verifications, signatures, key pairs) first so that shards are balanced
    heavy = [l for l in order if '"accepted":true' in l or '"op":"sign"' in l or '"op":"keypair"' in l or '"op":"convert"' in l]
    light = [l for l in order if l not in set(heavy)]
    files = []
    hs, ls = vlib.shard(heavy, vlib.NCPU), vlib.shard(light, vlib.NCPU)
    for i in range(vlib.NCPU):
        p = R.path("ed", "shard%d.ndjson" % i)
        open(p, "w").write("".join((hs[i] if i < len(hs) else []) + (ls[i] if i < len(ls) else [])))
        if open(p).read():
            files.append(p)
    total, bad = R.oracle("trace/OracleEd25519.tla", files, timeout=3400)
    for b in bad[:6]:
        what = "%s%s" % (b["op"], (" (" + b.get("kind", "") + ")") if "kind" in b else "")
        R.violation("Ed25519 %s record rejected by lib/Ed25519.tla (accepted=%s): %s" % (what, b.get("accepted"), json.dumps(b)[:240]), b, name="ed25519")
    kinds = {}
    for l in order:
        x = json.loads(l)
        if x["op"] == "verify":
            k = kinds.setdefault(x["kind"], [0, 0])
            k[0] += 1
            k[1] += 1 if x["accepted"] else 0
    R.cov.update({"evaluations": sum(len(v) for v in merged.values()), "distinct_nontrivial": total,
                  "rule": "evaluations = records over 3 field-arithmetic builds; distinct_nontrivial = distinct records judged by TLC (key pairs, signatures, verification triples, conversions); a verification record costs TLC a full VerifyStrict evaluation only when the library accepted the triple",
                  "verify_triples_by_kind_total_accepted": kinds, "honest_signatures": nh})
    R.sample_line(files[0], 0)
    R.assumptions += ["verification is judged as 'accepted only if VerifyStrict'; triples that satisfy the cofactored equation but are rejected (stricter behaviour) are not violations"]


def replay(R, path):
    d = json.load(open(path))
    p = R.path("ed", "replay.ndjson")
    vlib.write_ndjson(p, [d["case"]])
    total, bad = R.oracle("trace/OracleEd25519.tla", [p])
    for b in bad:
        R.violation("Ed25519 recorded case rejected by the specification", b, name="ed25519")
    R.cov.update({"evaluations": 1, "distinct_nontrivial": 2, "rule": "replay"})
