"""C10 - results do not depend on CPU features, backend or build.
1. TLC checks lib/Dispatch exhaustively (sys/DispatchMC): every architecturally closed CPUID set x every set of
   OS-enabled state components x 4 builds: reported features never exceed what processor+OS provide, no picked
   implementation needs an absent feature, AES-GCM availability only with the hardware.
2. For 20 CPU masks (hook h1: CPUID/XCR0 bits cleared before detection) on the native build and the noasm, no128
   and portable builds: sys/TraceInit.tla validates that the features the library reports are exactly
   Dispatch!Detect of the masked inputs and that every pick event (hook h2) is Dispatch!Pick.
3. The shared deterministic corpus (94 function families x boundary lengths, ~6.8k calls) is executed in every
   configuration; spec/trace/OracleCorpus.tla checks every (function, case) against the reference configuration."""
import json
import re
import vlib

LEVEL = "model_checking"


def masks():
    chain = [("full", 0, 0, 0), ("-avx512f", 0, 0, 0x10000), ("-avx2", 0, 0, 0x10020), ("-avx", 0x10000000, 0, 0),
             ("-sse41", 0x10080000, 0, 0), ("-ssse3", 0x10080200, 0, 0), ("-sse3", 0x10080201, 0, 0), ("-sse2", 0x10080201, 0x4000000, 0)]
    out = []
    for name, ecx, edx, ebx7 in chain:
        for aes in (True, False):
            e = ecx | (0 if aes else 0x2000002)
            env = {}
            if e:
                env["SODIUM_VERIF_CPUID1_ECX_CLEAR"] = hex(e)
            if edx:
                env["SODIUM_VERIF_CPUID1_EDX_CLEAR"] = hex(edx)
            if ebx7:
                env["SODIUM_VERIF_CPUID7_EBX_CLEAR"] = hex(ebx7)
            out.append((name + ("" if aes else "-aes"), env))
    out.append(("-rdrand", {"SODIUM_VERIF_CPUID1_ECX_CLEAR": hex(0x40000000)}))
    out.append(("os-no-avx-state", {"SODIUM_VERIF_XCR0_CLEAR": "0x4"}))
    out.append(("os-no-zmm-state", {"SODIUM_VERIF_XCR0_CLEAR": "0xe0"}))
    out.append(("no-osxsave", {"SODIUM_VERIF_CPUID1_ECX_CLEAR": hex(0x8000000)}))
    return out


def run(R):
    thorough = R.tier == "thorough"
    r = R.tlc("sys/DispatchMC.tla", "DispatchMC.cfg", workers=8, timeout=900, heap="8g")
    if r.violated:
        R.violation("Dispatch model violates an invariant: " + r.tail(30), r.out, name="model")
    rb = R.tlc("sys/DispatchMC.tla", "DispatchMCBroken.cfg", workers=2, timeout=300)
    if not rb.violated:
        raise vlib.MachineryError("vacuity: AVX detection without the XCR0 test is not rejected")
    R.add("states", r.distinct); R.add("transitions", r.generated)
    R.cov["model"] = {"module": "DispatchMC", "distinct": r.distinct, "generated": r.generated, "broken_variants_rejected": 1}
    builds = ["native", "noasm", "no128", "portable"]
    R.build_all(builds)
    cfgs = [("native", name, env) for name, env in masks()] + [(b, "full", {}) for b in builds[1:]]
    traces, corp, jobs = [], {}, []
    for i, (variant, name, env) in enumerate(cfgs):
        exe = R.cc("init_race", ["init_race.c"], variant)
        tp = R.path("c10", "init-%d.ndjson" % i)
        jobs.append(([exe, str(R.seed), "2", tp], env, (0,)))
        traces.append((tp, variant, name, env))
        cexe = R.cc("corpus_driver", ["corpus_driver.c"], variant, extra=["-Wno-deprecated-declarations"])
        cp = R.path("c10", "corpus-%d.ndjson" % i)
        jobs.append(([cexe, str(R.seed), cp] + ([] if thorough else ["quick"]), env, (0, 70)))
        corp[i] = cp
    # Argon2 over 4 GiB + 16 MiB in the four fill-segment backends (AVX-512F, AVX2, SSSE3, reference): 4.1 GiB each, alongside the rest
    bigm = []
    for i, (variant, name, env) in enumerate(cfgs):
        if variant == "native" and name in ("full", "-avx512f", "-avx2", "-ssse3"):
            bp = R.path("c10", "bigmem-%d.ndjson" % i)
            jobs.append(([R.cc("corpus_driver", ["corpus_driver.c"], variant, extra=["-Wno-deprecated-declarations"]), str(R.seed), bp, "bigmem2" if thorough else "bigmem"], env, (0, 70)))
            bigm.append((i, variant, name, bp))
    from concurrent.futures import ThreadPoolExecutor
    with ThreadPoolExecutor(max_workers=vlib.NCPU) as ex:
        list(ex.map(lambda j: R.run(j[0], env=j[1], ok_codes=j[2], timeout=3000), jobs))
    # detection + picks
    res = R.tlc_shards("sys/TraceInit.tla", "TraceInit.cfg", [{"TRACE": t[0]} for t in traces], timeout=900)
    picked = set()
    nacc = 0
    for (tp, variant, name, env), rr in zip(traces, res):
        lines = open(tp).read().splitlines()
        last = {}
        for x in lines:
            if x.startswith('{"e":"pick"'):
                ev = json.loads(x)
                last[ev["prim"]] = ev["impl"]
        picked |= {(p, i) for p, i in last.items()}
        if rr.ok:
            nacc += 1
            continue
        m = re.search(r'"REJECTED at line",\s*(\d+)', rr.out)
        line = int(m.group(1)) if m else 1
        R.violation("detection / dispatch trace rejected by TraceInit in configuration %s %s at line %d: %s" % (variant, name, line, lines[min(line, len(lines)) - 1][:300]),
                    {"variant": variant, "env": env, "events": lines[:line + 1]}, name="dispatch")
    R.cov["implementations_exercised"] = sorted("%s/%s" % x for x in picked)
    expected_impls = 4 + 4 + 2 + 2 + 3 + 4 + 2 + 2
    if len(picked) < expected_impls - 1 and not R.violations:      # salsa20 ref needs a non-amd64 build with sse2 masked: portable gives it
        R.notes.append("only %d of %d implementations were selected by some configuration" % (len(picked), expected_impls))
    # corpus equality
    ref = {}
    for x in vlib.read_ndjson(corp[0]):
        ref[(x["fn"], x["case"])] = x
    files = []
    ncalls = 0
    for i, (variant, name, env) in enumerate(cfgs):
        if i == 0:
            continue
        lines = open(corp[i]).read().splitlines()
        recs = []
        crashed = None
        for ln in lines:
            x = json.loads(ln)
            if x.get("e") == "crash":
                crashed = x
                continue
            k = (x["fn"], x["case"])
            if k not in ref:
                raise vlib.MachineryError("corpus case %s missing in the reference configuration" % (k,))
            rf = ref[k]
            recs.append({"fn": x["fn"], "case": x["case"], "cfg": "%s/%s" % (variant, name), "dig": x["dig"], "ret": x["ret"], "olen": x["olen"],
                         "ref_dig": rf["dig"], "ref_ret": rf["ret"], "ref_olen": rf["olen"]})
        if crashed:
            R.violation("corpus run crashed in configuration %s %s after %d calls: %s" % (variant, name, len(recs), crashed), {"variant": variant, "env": env, "last": lines[-3:]}, name="crash")
        missing = {k for k in ref if not k[0].startswith("aead_aes256gcm")} - {(x["fn"], x["case"]) for x in recs}
        if missing and not crashed:
            R.violation("configuration %s %s produced no result for %d corpus cases, e.g. %s" % (variant, name, len(missing), sorted(missing)[:3]), {"variant": variant, "env": env}, name="missing")
        p = R.path("c10", "rel-%d.ndjson" % i)
        vlib.write_ndjson(p, recs)
        files.append(p)
        ncalls += len(recs)
    bref = {(x["fn"], x["case"]): x for x in vlib.read_ndjson(bigm[0][3])}
    # a run that could not get its 4 GiB returns -1 (ENOMEM): that is the machine, not the backend - compare only when every run succeeded
    brets = [x["ret"] for (_, _, _, bp) in bigm for x in vlib.read_ndjson(bp)]
    big_ok = len(bref) >= 1 and all(r == 0 for r in brets)
    if not big_ok:
        R.notes.append("4 GiB Argon2 runs could not all allocate here (return codes %s): not compared" % brets)
    R.cov["argon2_4gib_runs_compared"] = len(brets) if big_ok else 0
    for (i, variant, name, bp) in (bigm[1:] if big_ok else []):
        recs = []
        for x in vlib.read_ndjson(bp):
            rf = bref.get((x["fn"], x["case"]))
            if rf is None:
                raise vlib.MachineryError("bigmem case %s missing in the reference configuration" % x["fn"])
            recs.append({"fn": x["fn"], "case": x["case"], "cfg": "%s/%s" % (variant, name), "dig": x["dig"], "ret": x["ret"], "olen": x["olen"],
                         "ref_dig": rf["dig"], "ref_ret": rf["ret"], "ref_olen": rf["olen"]})
        if len(recs) != len(bref):
            R.violation("configuration %s %s produced %d of %d results for the 4 GiB Argon2 cases" % (variant, name, len(recs), len(bref)), {"variant": variant, "name": name}, name="missing")
        p = R.path("c10", "rel-bigmem-%d.ndjson" % i)
        vlib.write_ndjson(p, recs)
        files.append(p)
        ncalls += len(recs)
    total, bad = R.oracle("trace/OracleCorpus.tla", files)
    seen = set()
    for b in bad:
        key = (b["fn"], b["cfg"])
        if key in seen:
            continue
        seen.add(key)
        if len(seen) <= 12:
            R.violation("%s differs in configuration %s from the reference configuration (case %s)" % (b["fn"], b["cfg"], b["case"]), b, name="corpus")
    R.add("traces_validated_against_impl", nacc)
    R.cov["configurations"] = ["%s/%s" % (v, n) for v, n, _ in cfgs]
    R.cov["corpus_calls_compared"] = total
    R.cov["corpus_functions"] = len({k[0] for k in ref})
    R.sample_line(files[0], 0)
    R.sample_line(traces[3][0], 1)
    R.assumptions += ["the mask can only remove features; instructions the host CPU lacks are never reached (host: AVX-512F, AES-NI, PCLMUL)",
                      "the reference configuration's own outputs are validated byte-exactly by the owning properties' oracles (C01-C09, C14-C16), not here",
                      "ARM/NEON, big-endian and 32-bit builds are out of reach in this sandbox"]


def replay(R, path):
    R.add("states", 1); R.add("transitions", 1); R.add("traces_validated_against_impl", 0)
    run(R)
