"""C05 - X25519 and key agreement. Direction B with lib/X25519.tla (the RFC 7748 ladder on exact field arithmetic)
as TLC-evaluated oracle: structured inputs (low-order and non-canonical points with either top bit, u around p and
2^255, all-ones limb patterns in both radices, every clamp-bit pattern, all-zero/all-one scalars) and seeded random
pairs; base multiplication; box precomputation for both ciphers; kx session keys incl. cross-equality; seeded key
pairs. The same inputs run on sandy2x, ref10/fe_51 and ref10/fe_25_5; records whose results agree are judged once."""
import json
import vlib

LEVEL = "exploration"
CFGS = [("native", {}), ("native", {"SODIUM_VERIF_CPUID1_ECX_CLEAR": "0x10000000"}), ("no128", {"SODIUM_VERIF_CPUID1_ECX_CLEAR": "0x10000000"}), ("portable", {})]


def run(R):
    thorough = R.tier == "thorough"
    # the final canonicalisation of the radix-2^51 backend on scaled limbs, every loosely reduced limb tuple
    rm = R.tlc("sys/FePack.tla", "MCFePack.cfg", workers=6, timeout=900, heap="6g")
    if rm.violated:
        R.violation("FePack.tla: the packed value is not the canonical residue: " + rm.tail(30), rm.out, name="model")
    if not R.tlc("sys/FePack.tla", "MCFePackBroken.cfg", workers=4, timeout=600, heap="6g").violated:
        raise vlib.MachineryError("vacuity: a '>= p' test that skips a limb is not rejected by Canonical")
    R.cov["pack_model"] = {"module": "FePack", "limb_bits": 3, "distinct": rm.distinct, "broken_variants_rejected": 1}
    R.build_all(sorted({v for v, _ in CFGS}))
    nrand = 2500 if thorough else 40
    merged = {}
    order = []
    for i, (variant, env) in enumerate(CFGS):
        exe = R.cc("x25519_driver", ["x25519_driver.c"], variant)
        out = R.path("x", "x%d.ndjson" % i)
        R.run([exe, str(R.seed), str(nrand), out], env=env, ok_codes=(0, 70), timeout=1800)
        for ln in open(out):
            if ln.startswith('{"e":"crash"'):
                R.violation("driver crashed in configuration %s %s" % (variant, env), {"variant": variant, "env": env}, name="crash")
                continue
            if ln not in merged:
                merged[ln] = []
                order.append(ln)
            merged[ln].append("%s %s" % (variant, env))
    recs = order
    files = []
    for i, sh in enumerate(vlib.shard(recs, vlib.NCPU)):
        p = R.path("x", "shard%d.ndjson" % i)
        open(p, "w").write("".join(sh))
        files.append(p)
    total, bad = R.oracle("trace/OracleX25519.tla", files, timeout=3000)
    for b in bad[:6]:
        cf = merged.get(json.dumps(b, separators=(",", ":")) + "\n", ["?"])
        R.violation("%s result differs from RFC 7748 / the documented derivation (configurations: %s): %s" % (b["op"], cf, json.dumps(b)[:260]), b, name="x25519")
    nexec = sum(len(v) for v in merged.values())
    R.cov.update({"evaluations": nexec, "distinct_nontrivial": total,
                  "rule": "evaluations = records produced over 4 backend configurations; distinct_nontrivial = distinct (operation, input, output) records judged by TLC (identical records from different backends are judged once; a backend that deviates produces a distinct record, which is then rejected)",
                  "configurations": ["%s %s" % c for c in CFGS], "random_pairs": nrand})
    R.sample_line(files[0], 0)
    R.assumptions += ["2.7 s of TLC per scalar multiplication bounds the number of inputs"]


def replay(R, path):
    d = json.load(open(path))
    p = R.path("x", "replay.ndjson")
    vlib.write_ndjson(p, [d["case"]])
    total, bad = R.oracle("trace/OracleX25519.tla", [p])
    for b in bad:
        R.violation("%s: recorded result differs from the specification" % b["op"], b, name="x25519")
    R.cov.update({"evaluations": 1, "distinct_nontrivial": 2, "rule": "replay"})
