"""C17 - guarded allocations.
1. TLC model-checks sys/GuardedAlloc with a scaled page (32 bytes, canary 16): every size 0..3 pages + 1,
   every sequence of <= 4 protection changes / probes, layout invariants for all sizes.  sys/LayoutAll and
   sys/AllocArrayAll state the same placement and overflow arithmetic on the real 64-bit word and the real page
   sizes and are decided for EVERY size / (count, size) by Apalache (SMT); the 64-bit counterexamples of their
   broken variants are replayed into the library (this is how finding F6 was found).
2. Direction B: scripts (sizes around every page boundary, all protection sequences up to a bound, read and
   write probes at the canary, both ends and past the end, canary tampering, free from every state,
   oversized and overflowing requests) are executed on the real library by harness/alloc_driver.c; probes
   are real memory accesses with a SIGSEGV handler, the layout is read from /proc/self/maps, free runs in a
   forked child. Every event is validated by sys/TraceGuardedAlloc.tla with the real page size."""
import itertools
import json
import random
import re
import vlib

LEVEL = "model_checking"
PAGE = 4096


def scenarios(rng, thorough, extra_big=(), extra_arr=()):
    sizes = set(range(0, 49)) | {PAGE * k + d for k in (1, 2, 3) for d in range(-18, 2)}
    if thorough:
        sizes |= set(range(0, 3 * PAGE + 2, 1))
    sizes = sorted(s for s in sizes if s >= 0)
    prots = ["N", "O", "W"]
    seqs = [()] + [p for n in (1, 2) for p in itertools.product(prots, repeat=n)]
    if thorough:
        seqs += list(itertools.product(prots, repeat=3)) + rng.sample(list(itertools.product(prots, repeat=4)), 30)
    out = []
    for s in sizes:
        offs = sorted({-17, -16, -1, 0, s - 1, s, s + PAGE - 1})
        pick = seqs if (s < 40 or s % PAGE in (0, 1, PAGE - 16, PAGE - 17, PAGE - 1)) and not (thorough and s > 100 and s % PAGE not in (0, 1, PAGE - 16, PAGE - 17)) else rng.sample(seqs, 2)
        for seq in pick:
            sc = ["M %d" % s]
            for o in offs:
                sc.append("R %d" % o)
            for p in seq:
                sc.append(p)
                for o in rng.sample(offs, 3) + [s]:
                    sc.append("%s %d" % (rng.choice("RT") if o >= 0 else "R", o))
            r = rng.random()
            if r < 0.3:            # tamper with one canary byte (succeeds only if the block is writable)
                sc.append("T %d" % rng.randrange(-16, 0))
            elif r < 0.4 and s > 0:
                sc.append("T %d" % rng.randrange(0, s))
            sc.append("F" + rng.choice(["", "", "1", "2", "3"]))      # signal state of the freeing thread: default, SIGSEGV blocked / ignored / handled
            out.append(sc)
    big = ["B %x" % v for v in (2**64 - 1, 2**64 - 4 * PAGE, 2**64 - 4 * PAGE - 1, 2**64 - 4 * PAGE + 1, 2**63, 2**64 - 5 * PAGE, 2**48)]
    # finding F6: the sizes just below the refusal margin, where 3 pages + PageRound(size + 16) is 2^64 or just below it
    # (SIZE_MAX - 4 pages - k: the length wraps to 0 for k = 1..14), and the same region one page lower
    big += ["B %x" % (2**64 - 1 - 4 * PAGE - k) for k in range(0, 19)] + ["B %x" % (2**64 - 1 - 5 * PAGE - k) for k in (-1, 0, 1, 14, 15, 16)]
    big += ["B %x" % (2**64 - 1 - m * PAGE - 15) for m in (3, 6, 16, 17)] + ["B %x" % v for v in extra_big]
    arr = ["A %x %x" % (c, s) for c, s in ((2**32, 2**32), (2**32 + 1, 2**32), (2**63, 2), (2**63 + 1, 2), (3, (2**64 - 1) // 3 + 1), (3, (2**64 - 1) // 3),
                                         (2**64 - 1, 1), (2**64 - 1, 2), (1, 2**64 - 1), (0, 2**64 - 1), (2**64 - 1, 0), (7, 11), (0, 0), (4096, 3), (2**16, 2**48), (2**16 + 1, 2**48),
                                         # products that wrap to a few GiB, not smaller than either factor: a test on the wrapped product alone accepts them
                                         (2**32 + 1, 2**32 + 1), (0x100010000, 0xFFFF0002), (2**32 + 2, 2**32 + 3),
                                         (2**32 + rng.randrange(1, 2**16), 2**32 + rng.randrange(1, 2**16)), (2**33 + 1, 2**31 + 1), (2**40 + 3, 2**24 + 1)) + tuple(extra_arr)]
    out.append(big + arr)
    return out, sizes


def run(R):
    rng = random.Random(R.seed)
    thorough = R.tier == "thorough"
    r = R.tlc("sys/GuardedAlloc.tla", "MCGuardedAlloc.cfg", workers=vlib.NCPU, timeout=1200, heap="8g")
    if r.violated:
        R.violation("GuardedAlloc design model violates an invariant: " + r.tail(30), r.out, name="model")
    rb = R.tlc("sys/GuardedAlloc.tla", "MCGuardedAllocBroken.cfg", workers=2, timeout=300)
    if not rb.violated:
        raise vlib.MachineryError("vacuity: wrong page rounding is not rejected by AllLayoutsOK")
    ra = R.tlc("sys/AllocArray.tla", "MCAllocArray.cfg", workers=4, timeout=600)
    if ra.violated:
        R.violation("AllocArray.tla: the overflow test of sodium_allocarray lets a wrapping product through or refuses a small one: " + ra.tail(30), ra.out, name="model")
    if not R.tlc("sys/AllocArray.tla", "MCAllocArrayBroken.cfg", workers=2, timeout=300).violated:
        raise vlib.MachineryError("vacuity: the wrapped-product overflow test is not rejected by NoWrap")
    # unbounded companions (Apalache, SMT): the same arithmetic for EVERY 64-bit size / (count, size) and the real page
    # sizes; each broken variant must be refuted, and the 64-bit witnesses of the refutations become inputs of the driver
    extra_big, extra_arr = [], []
    unb = {}
    for mod, good, broken in (("sys/LayoutAll.tla", "ConstInit", ("ConstInitRoundUp", "ConstInitRoundDn", "ConstInitLimit4")),
                              ("sys/AllocArrayAll.tla", "ConstInit", ("ConstInitWrapped", "ConstInitNoGuard"))):
        ok, out, cex = R.apalache(mod, "AllOK", cinit=good, length=1)
        if not ok:
            R.violation("%s: the placement / overflow arithmetic of the guarded allocator breaks a layout fact for some 64-bit value "
                        "(the specification states what utils.c computes; see the counterexample): %s" % (mod, cex[-1500:]), {"apalache": out[-4000:], "counterexample": cex}, name="unbounded")
        nref = 0
        for b in broken:
            okb, outb, cexb = R.apalache(mod, "AllOK", cinit=b, length=0)
            if okb:
                raise vlib.MachineryError("vacuity: %s with %s is not refuted by Apalache" % (mod, b))
            nref += 1
            vals = {k: int(v) for k, v in re.findall(r"\b(size|count) = (\d+)", cexb.split("State0 ==")[-1].split("(*")[0])}
            if "count" in vals and "size" in vals:
                extra_arr.append((vals["count"], vals["size"]))
            elif "size" in vals and vals["size"] >= 2**63:
                extra_big.append(vals["size"])
        unb[mod] = {"invariant": "AllOK", "holds_for": good, "broken_variants_refuted": nref}
    R.add("states", r.distinct + ra.distinct); R.add("transitions", r.generated + ra.generated)
    R.cov["unbounded_smt"] = dict(unb, witnesses_replayed={"bigmalloc": [hex(v) for v in extra_big], "allocarray": [[hex(c), hex(z)] for c, z in extra_arr]})
    R.cov["model"] = {"module": "GuardedAlloc", "cfg": "MCGuardedAlloc.cfg", "distinct": r.distinct, "generated": r.generated, "broken_variants_rejected": 2,
                      "allocarray_model": {"module": "AllocArray", "word_bits": 9, "distinct": ra.distinct}}
    scs, sizes = scenarios(rng, thorough, extra_big, extra_arr)
    exe = R.cc("alloc_driver", ["alloc_driver.c"], "native")
    nsh = 16
    shards = vlib.shard(scs, nsh)
    traces = []
    denied = 0
    for i, sh in enumerate(shards):
        sp = R.path("alloc", "s%d.script" % i)
        open(sp, "w").write("\n".join("\n".join(sc) for sc in sh) + "\n")
        tp = R.path("alloc", "t%d.ndjson" % i)
        R.run([exe, sp, tp], ok_codes=(0, 70), timeout=1800)
        traces.append((tp, sp))
        if i % 2 == 0 or thorough:            # the same script in a process that may not lock memory (mlock answers ENOMEM)
            tq = R.path("alloc", "t%d-nolock.ndjson" % i)
            R.run([exe, sp, tq], env={"VERIF_MLOCK_FAIL": "1"}, ok_codes=(0, 70), timeout=1800)
            first = open(tq).readline()
            denied += '"mlock_denied":true' in first
            traces.append((tq, sp))
    res = R.tlc_shards("sys/TraceGuardedAlloc.tla", "TraceGuardedAlloc.cfg", [{"TRACE": t} for t, _ in traces], timeout=1800)
    nacc = 0
    nev = 0
    for (tp, sp), rr in zip(traces, res):
        lines = open(tp).read().splitlines()
        nev += len(lines)
        if rr.ok:
            nacc += sum(1 for x in lines if x.startswith('{"e":"malloc"'))
            continue
        m = re.search(r'"REJECTED at line",\s*(\d+)', rr.out)
        if not m:
            raise vlib.MachineryError("trace validation failed without a rejected line:\n" + rr.tail(25))
        line = int(m.group(1))
        start = max([i for i in range(min(line, len(lines))) if lines[i].startswith('{"e":"malloc"')] or [0])
        R.violation("guarded-allocation trace rejected by TraceGuardedAlloc at line %d: %s" % (line, lines[line - 1][:300] if line <= len(lines) else "eof"),
                    {"events": lines[start:line], "script": open(sp).read().splitlines()}, name="trace")
    R.add("traces_validated_against_impl", nacc)
    R.cov["trace_events"] = nev
    R.cov["runs_with_mlock_denied"] = denied
    if not denied:
        R.notes.append("the seccomp filter that makes mlock fail could not be installed here: the no-lock runs equal the ordinary ones")
    R.cov["sizes"] = "%d sizes: 0..48, 4096k-18..4096k+1 (k=1..3)%s" % (len(sizes), ", every size 0..12289" if thorough else "")
    R.sample({"scenario": scs[60][:12]})
    R.sample({"events": open(traces[0][0]).read().splitlines()[:3]})
    R.assumptions += ["page size 4096 (checked in every malloc event)", "free is observed in a forked child; 'killed' = terminated by a signal",
                      "the mlock/madvise calls of sodium_malloc are not observed"]


def replay(R, path):
    d = json.load(open(path))
    exe = R.cc("alloc_driver", ["alloc_driver.c"], "native")
    sp = R.path("alloc", "replay.script"); tp = R.path("alloc", "replay.ndjson")
    open(sp, "w").write("\n".join(d["case"]["script"]) + "\n")
    R.run([exe, sp, tp], ok_codes=(0, 70))
    rr = R.tlc("sys/TraceGuardedAlloc.tla", "TraceGuardedAlloc.cfg", env={"TRACE": tp})
    if not rr.ok:
        R.violation("guarded-allocation trace rejected on replay: " + rr.tail(5)[:400], {"script": d["case"]["script"]}, name="trace")
    R.add("states", 1); R.add("transitions", 1); R.add("traces_validated_against_impl", 1)
