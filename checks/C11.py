"""C11 - secret data never influences branches or memory addresses.
1. TLC model-checks the taint discipline (sys/ConstTime.tla): an execution on which the monitor is silent is
   observationally independent of the secrets (two-run model, every program up to MaxSteps instructions, and unboundedly through the inductive invariant IndInv checked from every state satisfying it); a monitor
   that ignores addresses must fail.
2. The monitor on the real binary is Valgrind memcheck with the secret operands marked undefined
   (harness/taint_driver.c, one function per operation of sys/ConstTimeOps.tla, at every listed length); its report
   stream is validated line by line by TLC (sys/TraceConstTime.tla): only conditional jumps on a declassified status
   in the functions the table allows, every operation ran, the deliberately leaky self-checks were reported."""
import json
import os
import re
import subprocess
import sys
from concurrent.futures import ThreadPoolExecutor
import vlib
sys.path.insert(0, os.path.join(vlib.VERIF, "tools"))
import vglog2ndjson

LEVEL = "exploration"
NO512 = {"SODIUM_VERIF_CPUID7_EBX_CLEAR": "0x10000"}
NOAVX2 = {"SODIUM_VERIF_CPUID7_EBX_CLEAR": "0x10020"}
NOAVX = {"SODIUM_VERIF_CPUID1_ECX_CLEAR": "0x10000000", "SODIUM_VERIF_CPUID7_EBX_CLEAR": "0x10020"}
SSE2ONLY = {"SODIUM_VERIF_CPUID1_ECX_CLEAR": "0x12080201", "SODIUM_VERIF_CPUID7_EBX_CLEAR": "0x10020"}
CFGS = [("native", NO512, "avx2"), ("native", NOAVX2, "avx"), ("native", NOAVX, "sse41-aesni"), ("native", SSE2ONLY, "sse2"),
        ("noasm", NO512, "noasm"), ("no128", NO512, "no128"), ("portable", {}, "portable")]
LENS_QUICK = [0, 1, 15, 16, 17, 31, 32, 33, 63, 64, 65, 127, 128, 129, 255, 256, 257, 1000, 65537, 1048579]     # the last two: bulk paths for large inputs
LENS_THOROUGH = sorted(set(list(range(0, 400)) + [511, 512, 513, 767, 768, 769, 1000, 1023, 1024, 1025, 2047, 2048, 2049, 4095, 4096, 4097, 65535, 65536, 65537, 1048575, 1048576, 1048579]))


def vg(R, exe, env, out_log, seed, filt, lens, timeout=3000):
    e = dict(os.environ); e.update(env)
    cmd = ["valgrind", "--tool=memcheck", "--track-origins=no", "--error-limit=no", "--num-callers=12", "--undef-value-errors=yes",
           "--partial-loads-ok=yes", "--log-file=" + out_log, exe, str(seed), filt] + [str(x) for x in lens]
    try:
        r = subprocess.run(cmd, capture_output=True, text=True, env=e, timeout=timeout)
    except subprocess.TimeoutExpired:
        R.violation("an operation did not return under the monitor within %d s (%s)" % (timeout, os.path.basename(out_log)),
                    {"cfg": os.path.basename(out_log), "log_tail": open(out_log, errors="replace").read()[-1500:] if os.path.exists(out_log) else ""}, name="hang")
        raise vlib.Hang()
    return r


def run(R):
    thorough = R.tier == "thorough"
    r = R.tlc("sys/ConstTime.tla", "MCConstTime.cfg", workers=8, timeout=1200)
    if r.violated:
        R.violation("the taint discipline does not imply observational independence: " + r.tail(30), r.out, name="model")
    ri = R.tlc("sys/ConstTime.tla", "MCConstTimeInd.cfg", workers=8, timeout=1200)      # unbounded: IndInv is inductive
    if ri.violated:
        R.violation("ConstTime!IndInv is not inductive: " + ri.tail(30), ri.out, name="model")
    for cfg in ("MCConstTimeBroken.cfg", "MCConstTimeVac1.cfg", "MCConstTimeVac2.cfg", "MCConstTimeIndBroken.cfg"):
        rb = R.tlc("sys/ConstTime.tla", cfg, workers=4, timeout=600)
        if not rb.violated:
            raise vlib.MachineryError("vacuity: %s is not rejected" % cfg)
    R.add("states", r.distinct); R.add("transitions", r.generated)
    R.cov["model"] = {"module": "ConstTime", "distinct": r.distinct, "generated": r.generated, "broken_variants_rejected": 4, "inductive_invariant_states": ri.distinct}
    lens = LENS_THOROUGH if thorough else LENS_QUICK
    R.build_all(sorted({v for v, _, _ in CFGS}))
    exes = {v: R.cc("taint_driver", ["taint_driver.c"], v) for v in sorted({v for v, _, _ in CFGS})}

    def one(c):
        variant, env, name = c
        log = R.path("vg", name + ".log")
        mylens = lens if (thorough or name in ("avx2", "sse2")) else [x for x in lens if x < 100000]      # quick: 1 MiB inputs in two configurations
        pr = vg(R, exes[variant], env, log, R.seed, "all", mylens)
        nd = R.path("vg", name + ".ndjson")
        evs = vglog2ndjson.convert(log, nd)
        return c, pr, log, nd, evs, mylens
    with ThreadPoolExecutor(max_workers=len(CFGS)) as ex:
        runs = list(ex.map(one, CFGS))
    for (variant, env, name), pr, log, nd, evs, mylens in runs:
        if evs and evs[0].get("e") == "begin" and evs[0].get("lens") != list(mylens):
            raise vlib.MachineryError("taint driver did not run the requested lengths in configuration %s" % name)
        if pr.returncode != 0 or not evs or evs[-1].get("e") != "done":
            tail = open(log, errors="replace").read()[-1500:]
            if "unrecognised instruction" in tail or "Illegal instruction" in tail:
                raise vlib.MachineryError("valgrind cannot execute configuration %s: %s" % (name, tail[-600:]))
            # the driver died: an invalid access under memcheck or a crash in the library
            R.violation("taint driver did not finish under configuration %s (rc=%d): %s" % (name, pr.returncode, tail[-400:].replace("\n", " | ")),
                        {"cfg": name, "log_tail": tail}, name="crash")
    res = R.tlc_shards("sys/TraceConstTime.tla", "TraceConstTime.cfg", [{"TRACE": r[3]} for r in runs], timeout=1800, heap="3g")
    nops = nrep = 0
    allowed = {}
    for ((variant, env, name), pr, log, nd, evs, _ml), tr in zip(runs, res):
        nops += sum(1 for e in evs if e["e"] == "op")
        reps = [e for e in evs if e["e"] == "report"]
        nrep += len(reps)
        for e in reps:
            allowed[e["fn"]] = allowed.get(e["fn"], 0) + 1
        m = re.search(r'"REJECTED at line",\s*(\d+)', tr.out)
        if m or not tr.ok:
            k = int(m.group(1)) if m else 0
            line = evs[k - 1] if 0 < k <= len(evs) else {"eof": True}
            opn = next((e for e in reversed(evs[:k]) if e["e"] == "op"), {})
            what = "a branch or an address depends on secret data" if line.get("e") == "report" else "the report stream is not a behaviour of TraceConstTime"
            R.violation("%s: configuration %s, operation %s length %s: %s" % (what, name, opn.get("op"), opn.get("len"), json.dumps(line)[:400]),
                        {"cfg": name, "op": opn, "line": line, "context": evs[max(0, k - 4):k + 2]}, name="taint")
    R.add("traces_validated_against_impl", len(runs))
    R.cov.update({"evaluations": nops, "distinct_nontrivial": nops // len(CFGS),
                  "rule": "every operation of ConstTimeOps!Ops (secret operands tainted) at every listed length, under every CPU-feature "
                          "configuration Valgrind can execute; evaluations = monitored operation executions, distinct_nontrivial = (operation, length) pairs",
                  "lengths": lens if not thorough else "0..399 and %s" % lens[400:], "configurations": [n for _, _, n in CFGS],
                  "monitor_reports_seen": nrep, "reports_by_function": allowed})
    R.sample({"cfg": runs[0][0][2], "events": runs[0][4][1:4]})
    R.sample({"cfg": runs[0][0][2], "first_status_report": next((e for e in runs[0][4] if e["e"] == "report" and not e["fn"].startswith("op_selfcheck")), None)})
    R.assumptions += [
        "memcheck's definedness propagation is the taint analysis: it is bit-precise for most operations but approximates some (e.g. it treats "
        "the result of a comparison of partially defined values as wholly undefined); it sees this sandbox's gcc -O2 binary only",
        "Valgrind 3.19 does not execute AVX-512: the AVX-512F Argon2 backend is outside (Argon2 is not in the property's list)",
        "cache-line / microarchitectural effects below the address level are not modelled (the property speaks of branches and addresses)",
        "only the executed path is decided (lengths and public inputs listed); secret values are covered symbolically along it"]


def replay(R, path):
    d = json.load(open(path))
    case = d["case"]
    cfg = next((c for c in CFGS if c[2] == case.get("cfg")), CFGS[0])
    variant, env, name = cfg
    R.build(variant)
    exe = R.cc("taint_driver", ["taint_driver.c"], variant)
    log = R.path("vg", "replay.log")
    vg(R, exe, env, log, R.seed, "all", LENS_QUICK)
    nd = R.path("vg", "replay.ndjson")
    evs = vglog2ndjson.convert(log, nd)
    tr = R.tlc("sys/TraceConstTime.tla", "TraceConstTime.cfg", env={"TRACE": nd}, timeout=900)
    m = re.search(r'"REJECTED at line",\s*(\d+)', tr.out)
    if m or not tr.ok:
        k = int(m.group(1)) if m else 0
        R.violation("report stream rejected (replay) in configuration %s: %s" % (name, json.dumps(evs[k - 1] if 0 < k <= len(evs) else {})[:300]),
                    {"cfg": name, "line": evs[k - 1] if 0 < k <= len(evs) else {}}, name="taint")
    R.add("states", 1); R.add("transitions", 1); R.add("traces_validated_against_impl", 1)
    R.cov.update({"evaluations": max(1, sum(1 for e in evs if e["e"] == "op")), "distinct_nontrivial": 2, "rule": "replay"})
