"""C02 - forged or altered inputs are rejected and release no plaintext.
1. TLC model-checks sys/Forgery (symbolic tampering of every field / truncation / extension for 10 API families).
2. harness/forge_driver.c seals valid objects for 27 API forms (6 AEADs combined/detached/verify-only, secretbox
   easy/detached/NaCl, XChaCha secretbox, box easy/afternm/XChaCha, sealed box, secretstream pull, sign_open,
   verify_detached, 3 HMAC verifiers, onetimeauth) at boundary lengths and presents every single-bit flip of every
   field (input incl. tag, ad, nonce, key, public and secret keys), every truncation and several extensions, with a
   pre-filled output buffer ending at a guard page, twice with different keys and plaintexts;
   sys/TraceForgery.tla validates the aggregated records."""
import json
import re
import vlib

LEVEL = "exploration"
CFGS = [("native", {}), ("native", {"SODIUM_VERIF_CPUID1_ECX_CLEAR": "0x12080201", "SODIUM_VERIF_CPUID1_EDX_CLEAR": "0x4000000"}), ("portable", {})]


def run(R):
    thorough = R.tier == "thorough"
    r = R.tlc("sys/MCForgery.tla", "MCForgery.cfg", workers=4, timeout=600)
    if r.violated:
        R.violation("Forgery model violates the property: " + r.tail(20), r.out, name="model")
    rb = R.tlc("sys/MCForgery.tla", "MCForgeryBroken.cfg", workers=2, timeout=300)
    if not rb.violated:
        raise vlib.MachineryError("vacuity: plaintext left in the buffer on failure is not rejected by the model")
    R.cov["model"] = {"module": "MCForgery", "distinct": r.distinct, "generated": r.generated, "broken_variants_rejected": 1}
    R.build_all(sorted({v for v, _ in CFGS}))
    traces, jobs = [], []
    for i, (variant, env) in enumerate(CFGS):
        exe = R.cc("forge_driver", ["forge_driver.c"], variant)
        tp = R.path("forge", "f%d.ndjson" % i)
        jobs.append(([exe, str(R.seed + i), "full" if thorough else "quick", tp], env))
        traces.append((tp, variant, env))
    # associated data of 4 GiB + 64 bytes (sparse mapping): lengths whose upper 32 bits matter
    for variant in (("native", "portable") if thorough else ("native",)):
        tp = R.path("forge", "huge-%s.ndjson" % variant)
        jobs.append(([R.cc("forge_driver", ["forge_driver.c"], variant), str(R.seed), "huge", tp], {}))
        traces.append((tp, variant, {"mode": "huge"}))
    from concurrent.futures import ThreadPoolExecutor
    with ThreadPoolExecutor(max_workers=8) as ex:
        list(ex.map(lambda j: R.run(j[0], env={k: v for k, v in j[1].items() if k != "mode"}, ok_codes=(0, 70), timeout=3000), jobs))
    res = R.tlc_shards("sys/TraceForgery.tla", "TraceForgery.cfg", [{"TRACE": t[0]} for t in traces], timeout=1800)
    trials = 0
    distinct = set()
    for (tp, variant, env), rr in zip(traces, res):
        lines = open(tp).read().splitlines()
        for ln in lines:
            if ln.startswith('{"e":"crash"'):
                R.violation("library crashed on a tampered input (%s %s): %s" % (variant, env, ln), {"variant": variant, "env": env, "tail": lines[-3:]}, name="crash")
            elif ln.startswith('{"e":"forge"'):
                x = json.loads(ln)
                trials += x["trials"]
                distinct.add((x["api"], x["mlen"], x["adlen"], x["field"]))
        if not rr.ok:
            m = re.search(r'"REJECTED at line",\s*(\d+)', rr.out)
            if not m:
                if any(l.startswith('{"e":"crash"') for l in lines):
                    continue
                raise vlib.MachineryError("TraceForgery failed without a verdict:\n" + rr.tail(20))
            line = int(m.group(1))
            bad = lines[line - 1] if line <= len(lines) else "eof"
            R.violation("tampering record rejected by TraceForgery (%s %s): %s" % (variant, env, bad[:330]), {"variant": variant, "env": env, "record": bad}, name="forge")
    R.cov.update({"evaluations": trials, "distinct_nontrivial": len(distinct),
                  "rule": "evaluations = tampered inputs presented to the library (every bit of every field, every truncation, extensions), aggregated per (API form, message length, ad length, field); distinct_nontrivial = distinct such aggregates; flips of bits that the primitive ignores by definition (X25519 clamp bits / top bit, Poly1305 clamped r bits) are excluded",
                  "configurations": ["%s %s" % (v, e) for v, e in CFGS]})
    R.sample_line(traces[0][0], 1)
    R.sample_line(traces[0][0], 5)
    R.assumptions += ["'no plaintext released' is decided by: output untouched, or filled with one constant byte that is identical across two runs with different keys and plaintexts"]


def replay(R, path):
    run(R)
