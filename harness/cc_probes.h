/* C12 limit probes: arguments just beyond a documented size limit, on buffers far smaller than the stated length.
 * A function that refuses before touching its buffers reports "misuse" (handler) or "reterr"; one that starts
 * processing runs into the inaccessible page after the buffer ("signal") or a red zone ("sanitizer").
 * Names and expected classes: Contract!Probes. Each probe runs in its own forked child. */
typedef int (*probefn)(unsigned char *b, unsigned char *k);   /* b: 64 accessible bytes ending at a PROT_NONE page; k: 64 key/nonce bytes */
#define PR(name) static int pr_##name(unsigned char *b, unsigned char *k)
#define SZMAX ((unsigned long long) SIZE_MAX)
PR(aead_chacha20poly1305_encrypt_max1) { return crypto_aead_chacha20poly1305_encrypt(b, NULL, b, SZMAX - 15, NULL, 0, NULL, k, k); }
PR(aead_chacha20poly1305_ietf_encrypt_max1) { return crypto_aead_chacha20poly1305_ietf_encrypt(b, NULL, b, crypto_aead_chacha20poly1305_ietf_MESSAGEBYTES_MAX + 1ULL, NULL, 0, NULL, k, k); }
PR(aead_xchacha20poly1305_ietf_encrypt_max1) { return crypto_aead_xchacha20poly1305_ietf_encrypt(b, NULL, b, SZMAX - 15, NULL, 0, NULL, k, k); }
PR(aead_aegis128l_encrypt_max1) { return crypto_aead_aegis128l_encrypt(b, NULL, b, 1ULL << 61, NULL, 0, NULL, k, k); }
PR(aead_aegis256_encrypt_max1) { return crypto_aead_aegis256_encrypt(b, NULL, b, 1ULL << 61, NULL, 0, NULL, k, k); }
PR(aead_aegis128l_encrypt_adlen_max1) { return crypto_aead_aegis128l_encrypt(b, NULL, b, 1, b, 1ULL << 61, NULL, k, k); }
PR(secretbox_easy_max1) { return crypto_secretbox_easy(b, b + 16, SZMAX - 15, k, k); }
PR(secretbox_xchacha20poly1305_easy_max1) { return crypto_secretbox_xchacha20poly1305_easy(b, b + 16, SZMAX - 15, k, k); }
PR(box_easy_max1) { return crypto_box_easy(b, b + 16, SZMAX - 15, k, k, k + 32); }
PR(box_easy_afternm_max1) { return crypto_box_easy_afternm(b, b + 16, SZMAX - 15, k, k); }
PR(box_xchacha_easy_max1) { return crypto_box_curve25519xchacha20poly1305_easy(b, b + 16, SZMAX - 15, k, k, k + 32); }
PR(secretstream_push_max1) { crypto_secretstream_xchacha20poly1305_state st; unsigned char h[24]; crypto_secretstream_xchacha20poly1305_init_push(&st, h, k);
    return crypto_secretstream_xchacha20poly1305_push(&st, b, NULL, b, crypto_secretstream_xchacha20poly1305_MESSAGEBYTES_MAX + 1ULL, NULL, 0, 0); }
PR(secretstream_pull_max1) { crypto_secretstream_xchacha20poly1305_state st; unsigned char h[24]; memset(h, 1, 24); crypto_secretstream_xchacha20poly1305_init_pull(&st, h, k);
    return crypto_secretstream_xchacha20poly1305_pull(&st, b, NULL, NULL, b, crypto_secretstream_xchacha20poly1305_MESSAGEBYTES_MAX + 18ULL, NULL, 0); }
PR(stream_chacha20_ietf_max1) { return crypto_stream_chacha20_ietf(b, crypto_stream_chacha20_ietf_MESSAGEBYTES_MAX + 1ULL, k, k); }
PR(stream_chacha20_ietf_xor_max1) { return crypto_stream_chacha20_ietf_xor(b, b, crypto_stream_chacha20_ietf_MESSAGEBYTES_MAX + 1ULL, k, k); }
PR(stream_chacha20_ietf_xor_ic_ctr_overflow) { return crypto_stream_chacha20_ietf_xor_ic(b, b, 129, k, 0xffffffffU, k); }
PR(bin2hex_small) { return sodium_bin2hex((char *) b, 64, k, 32) != NULL ? 0 : -1; }
PR(bin2hex_huge) { return sodium_bin2hex((char *) b, 64, k, SIZE_MAX / 2) != NULL ? 0 : -1; }
PR(bin2base64_small) { return sodium_bin2base64((char *) b, 44, k, 32, sodium_base64_VARIANT_ORIGINAL) != NULL ? 0 : -1; }
PR(bin2base64_bad_variant) { return sodium_bin2base64((char *) b, 64, k, 3, 2) != NULL ? 0 : -1; }
PR(base642bin_bad_variant) { size_t n; return sodium_base642bin(b, 64, "QUJD", 4, NULL, &n, NULL, 0); }
PR(base64_encoded_len_bad_variant) { return (int) sodium_base64_encoded_len(3, 9); }
PR(pad_overflow) { size_t n; return sodium_pad(&n, b, SIZE_MAX - 1, 16, SIZE_MAX); }
PR(pad_zero_blocksize) { size_t n; return sodium_pad(&n, b, 10, 0, 64); }
PR(unpad_zero_blocksize) { size_t n; return sodium_unpad(&n, b, 64, 0); }
PR(unpad_short) { size_t n; return sodium_unpad(&n, b, 7, 8); }
PR(randombytes_buf_deterministic_max1) { randombytes_buf_deterministic(b, (size_t) 0x4000000001ULL, k); return 0; }
PR(generichash_outlen_0) { return crypto_generichash(b, 0, k, 8, NULL, 0); }
PR(generichash_outlen_65) { return crypto_generichash(b, 65, k, 8, NULL, 0); }
PR(generichash_keylen_65) { return crypto_generichash(b, 32, k, 8, k, 65); }
PR(generichash_init_outlen_65) { crypto_generichash_state st; return crypto_generichash_init(&st, NULL, 0, 65); }
PR(generichash_final_outlen_65) { crypto_generichash_state st; crypto_generichash_init(&st, NULL, 0, 32); return crypto_generichash_final(&st, b, 65); }
PR(kdf_subkey_15) { return crypto_kdf_derive_from_key(b, 15, 1, "context_", k); }
PR(kdf_subkey_65) { return crypto_kdf_derive_from_key(b, 65, 1, "context_", k); }
PR(hkdf_sha256_expand_max1) { return crypto_kdf_hkdf_sha256_expand(b, 8161, NULL, 0, k); }
PR(hkdf_sha512_expand_max1) { return crypto_kdf_hkdf_sha512_expand(b, 16321, NULL, 0, k); }
PR(pwhash_outlen_15) { return crypto_pwhash(b, 15, "pw", 2, k, crypto_pwhash_OPSLIMIT_MIN, crypto_pwhash_MEMLIMIT_MIN, crypto_pwhash_ALG_DEFAULT); }
PR(pwhash_passwdlen_max1) { return crypto_pwhash(b, 16, (const char *) k, 4294967296ULL, k, crypto_pwhash_OPSLIMIT_MIN, crypto_pwhash_MEMLIMIT_MIN, crypto_pwhash_ALG_DEFAULT); }
PR(pwhash_opslimit_0) { return crypto_pwhash(b, 16, "pw", 2, k, 0, crypto_pwhash_MEMLIMIT_MIN, crypto_pwhash_ALG_DEFAULT); }
PR(pwhash_opslimit_max1) { return crypto_pwhash(b, 16, "pw", 2, k, 4294967296ULL, crypto_pwhash_MEMLIMIT_MIN, crypto_pwhash_ALG_DEFAULT); }
PR(pwhash_memlimit_min1) { return crypto_pwhash(b, 16, "pw", 2, k, crypto_pwhash_OPSLIMIT_MIN, crypto_pwhash_MEMLIMIT_MIN - 1, crypto_pwhash_ALG_DEFAULT); }
PR(pwhash_memlimit_max1) { return crypto_pwhash(b, 16, "pw", 2, k, crypto_pwhash_OPSLIMIT_MIN, (size_t) crypto_pwhash_MEMLIMIT_MAX + 1, crypto_pwhash_ALG_DEFAULT); }
PR(pwhash_bad_alg) { return crypto_pwhash(b, 16, "pw", 2, k, crypto_pwhash_OPSLIMIT_MIN, crypto_pwhash_MEMLIMIT_MIN, 99); }
PR(pwhash_argon2i_opslimit_2) { return crypto_pwhash(b, 16, "pw", 2, k, 2, crypto_pwhash_MEMLIMIT_MIN, crypto_pwhash_ALG_ARGON2I13); }
PR(pwhash_str_opslimit_0) { char s[128]; return crypto_pwhash_str(s, "pw", 2, 0, crypto_pwhash_MEMLIMIT_MIN); }
PR(pwhash_str_passwdlen_max1) { char s[128]; return crypto_pwhash_str(s, (const char *) k, 4294967296ULL, crypto_pwhash_OPSLIMIT_MIN, crypto_pwhash_MEMLIMIT_MIN); }
PR(pwhash_str_verify_passwdlen_max1) { char s[128]; crypto_pwhash_str(s, "pw", 2, crypto_pwhash_OPSLIMIT_MIN, crypto_pwhash_MEMLIMIT_MIN); return crypto_pwhash_str_verify(s, (const char *) k, 4294967296ULL); }
PR(from_string_bad_alg) { return crypto_core_ed25519_from_string(b, "ctx", k, 4, 7); }
PR(ristretto_from_string_bad_alg) { return crypto_core_ristretto255_from_string(b, "ctx", k, 4, 0); }
PR(sign_open_short) { unsigned long long n; return crypto_sign_open(b, &n, k, 63, k); }
PR(kx_client_both_null) { return crypto_kx_client_session_keys(NULL, NULL, k, k, k + 32); }
/* the /dev/urandom fallback of the default random source (taken when getrandom(2) is unavailable), with reads cut short by
 * signals: a seccomp filter answers ENOSYS to getrandom, an interval timer interrupts the long read; 48 MiB + 123 bytes are
 * requested into a buffer that ends at a PROT_NONE page. "unavail" when the filter cannot be installed here. */
#include <linux/filter.h>
#include <linux/seccomp.h>
#include <stddef.h>
#include <sys/prctl.h>
#include <sys/syscall.h>
#include <sys/time.h>
static void pr_sigalrm(int s) { (void) s; }
static const struct { const char *name; probefn f; } probes[] = {
#define P(n) { #n, pr_##n }
    P(aead_chacha20poly1305_encrypt_max1), P(aead_chacha20poly1305_ietf_encrypt_max1), P(aead_xchacha20poly1305_ietf_encrypt_max1),
    P(aead_aegis128l_encrypt_max1), P(aead_aegis256_encrypt_max1), P(aead_aegis128l_encrypt_adlen_max1), P(secretbox_easy_max1),
    P(secretbox_xchacha20poly1305_easy_max1), P(box_easy_max1), P(box_easy_afternm_max1), P(box_xchacha_easy_max1), P(secretstream_push_max1),
    P(secretstream_pull_max1), P(stream_chacha20_ietf_max1), P(stream_chacha20_ietf_xor_max1), P(stream_chacha20_ietf_xor_ic_ctr_overflow),
    P(bin2hex_small), P(bin2hex_huge), P(bin2base64_small), P(bin2base64_bad_variant), P(base642bin_bad_variant), P(base64_encoded_len_bad_variant),
    P(pad_overflow), P(pad_zero_blocksize), P(unpad_zero_blocksize), P(unpad_short), P(randombytes_buf_deterministic_max1),
    P(generichash_outlen_0), P(generichash_outlen_65), P(generichash_keylen_65), P(generichash_init_outlen_65), P(generichash_final_outlen_65),
    P(kdf_subkey_15), P(kdf_subkey_65), P(hkdf_sha256_expand_max1), P(hkdf_sha512_expand_max1),
    P(pwhash_outlen_15), P(pwhash_passwdlen_max1), P(pwhash_opslimit_0), P(pwhash_opslimit_max1), P(pwhash_memlimit_min1), P(pwhash_memlimit_max1),
    P(pwhash_bad_alg), P(pwhash_argon2i_opslimit_2), P(pwhash_str_opslimit_0), P(pwhash_str_passwdlen_max1), P(pwhash_str_verify_passwdlen_max1),
    P(from_string_bad_alg), P(ristretto_from_string_bad_alg), P(sign_open_short), P(kx_client_both_null)
#undef P
};
static const char *probe_name;
static void probe_emit(const char *out) { fprintf(v_out, "{\"e\":\"probe\",\"name\":\"%s\",\"out\":\"%s\"}\n", probe_name, out); fflush(v_out); }
static void probe_signal(int s) { (void) s; probe_emit("signal"); _exit(70); }
static void probe_misuse(void) { probe_emit("misuse"); _exit(72); }
#ifdef V_ASAN
static void probe_san(void) { probe_emit("sanitizer"); _exit(71); }
#endif
static int run_probes(void) {
    for (size_t i = 0; i < sizeof probes / sizeof probes[0]; i++) {
        fflush(v_out);
        pid_t pid = fork();
        if (pid == 0) {
            probe_name = probes[i].name;
            signal(SIGSEGV, probe_signal); signal(SIGBUS, probe_signal); signal(SIGABRT, probe_signal); signal(SIGILL, probe_signal); signal(SIGFPE, probe_signal);
#ifdef V_ASAN
            __sanitizer_set_death_callback(probe_san);
#endif
            sodium_set_misuse_handler(probe_misuse);
            vguard g = v_galloc(64, 1); unsigned char k[64];
            vrng_bytes(&rng, g.p, 64); vrng_bytes(&rng, k, 64);
            alarm(20);
            int r = probes[i].f(g.p, k);
            probe_emit(r == 0 ? "ret0" : "reterr");
            _exit(0);
        }
        int st; waitpid(pid, &st, 0);
        if (WIFSIGNALED(st)) { probe_name = probes[i].name; probe_emit("killed"); }
    }
    return 0;
}
static int sysrandom_probe(int fallback) {      /* fresh process, BEFORE sodium_init(): the state of the default source is initialised only once */
    struct sock_filter flt[] = {
        BPF_STMT(BPF_LD | BPF_W | BPF_ABS, (unsigned) offsetof(struct seccomp_data, nr)),
        BPF_JUMP(BPF_JMP | BPF_JEQ | BPF_K, __NR_getrandom, 0, 1),
        BPF_STMT(BPF_RET | BPF_K, SECCOMP_RET_ERRNO | (ENOSYS & SECCOMP_RET_DATA)),
        BPF_STMT(BPF_RET | BPF_K, SECCOMP_RET_ALLOW) };
    struct sock_fprog prog = { (unsigned short) (sizeof flt / sizeof flt[0]), flt };
    probe_name = fallback ? "sysrandom_fallback_short_reads" : "sysrandom_getrandom_chunks";
    if (fallback && (prctl(PR_SET_NO_NEW_PRIVS, 1, 0, 0, 0) != 0 || prctl(PR_SET_SECCOMP, SECCOMP_MODE_FILTER, &prog) != 0)) { probe_emit("unavail"); return 0; }
    signal(SIGSEGV, probe_signal); signal(SIGBUS, probe_signal); signal(SIGABRT, probe_signal);
#ifdef V_ASAN
    __sanitizer_set_death_callback(probe_san);
#endif
    if (sodium_init() < 0) { probe_emit("reterr"); return 0; }
    sodium_set_misuse_handler(probe_misuse);
    if (strcmp(randombytes_implementation_name(), "sysrandom")) { probe_emit("unavail"); return 0; }
    /* the writes are made by the kernel (read(2)), which stops at an inaccessible page without a fault: a canary region of 1 MiB
     * behind the buffer is what shows a write beyond it */
    size_t n = fallback ? ((size_t) 48 << 20) + 123 : ((size_t) 1 << 20) + 77, can = (size_t) 1 << 20; vguard g = v_galloc(n + can, 1); memset(g.p + n, 0xC3, can);
    struct sigaction sa; memset(&sa, 0, sizeof sa); sa.sa_handler = pr_sigalrm; sigaction(SIGALRM, &sa, NULL);      /* no SA_RESTART */
    struct itimerval it = { { 0, 700 }, { 0, 700 } }; setitimer(ITIMER_REAL, &it, NULL);
    randombytes_buf(g.p, n);
    struct itimerval off = { { 0, 0 }, { 0, 0 } }; setitimer(ITIMER_REAL, &off, NULL);
    unsigned char acc = 0; for (size_t i = n - 4096; i < n; i++) acc |= g.p[i];
    for (size_t i = 0; i < can; i++) if (g.p[n + i] != 0xC3) { probe_emit("signal"); return 0; }        /* written beyond the buffer */
    probe_emit(acc == 0 ? "reterr" : "ret0");                                                                 /* the tail was filled */
    return 0;
}
