/* Codec driver (C15): runs sodium_hex2bin / sodium_base642bin on given texts under every option
 * combination, and the encoders + round trip on seeded binary strings; logs NDJSON records for
 * spec/trace/OracleCodec.tla. The harness only projects; expected results come from lib/Codec.tla.
 *   codec_driver dec <texts.hex> <ignore-hex> <maxcap> <out.ndjson>
 *   codec_driver enc <maxlen> <seed> <out.ndjson>                                            */
#include "common.h"

static size_t unhex(const char *s, unsigned char *out) {
    size_t n = 0; unsigned v;
    while (s[0] && s[1] && sscanf(s, "%2x", &v) == 1) { out[n++] = (unsigned char) v; s += 2; }
    return n;
}

static void dec_one(int codec, const unsigned char *text, size_t tlen, const char *ign, size_t cap, int want_end) {
    vguard gt = v_galloc(tlen + 1, 1);      /* text ends at a guard page: reading past it faults */
    vguard gb = v_galloc(cap + 1, 1);       /* output ends at a guard page: writing past capacity faults */
    unsigned char *t = gt.p + 1, *bin = gb.p + 1;
    memcpy(t, text, tlen); memset(bin, 0xEE, cap);
    size_t n = 12345; const char *end = NULL; int ret;
    errno = 0;
    if (codec == 0) ret = sodium_hex2bin(bin, cap, (const char *) t, tlen, ign, &n, want_end ? &end : NULL);
    else ret = sodium_base642bin(bin, cap, (const char *) t, tlen, ign, &n, want_end ? &end : NULL, codec);
    fprintf(v_out, "{\"op\":\"dec\",\"codec\":%d,", codec);
    v_emit_bytes("text", text, tlen);
    fprintf(v_out, ",\"noign\":%s,", ign ? "false" : "true");
    v_emit_bytes("ign", (const unsigned char *) (ign ? ign : ""), ign ? strlen(ign) : 0);
    fprintf(v_out, ",\"cap\":%zu,\"wantEnd\":%s,\"ret\":%d,\"n\":%zu,", cap, want_end ? "true" : "false", ret, n);
    v_emit_bytes("bin", bin, (ret == 0 && n <= cap) ? n : 0);
    /* the form that does not ask for the decoded length (bin_len = NULL): same verdict, same bytes, same end pointer */
    int nullsame; { unsigned char *b2 = malloc(cap + 1), *b1 = malloc(cap + 1); memcpy(b1, bin, cap); memset(bin, 0xEE, cap); const char *end2 = NULL; int r2;
      if (codec == 0) r2 = sodium_hex2bin(bin, cap, (const char *) t, tlen, ign, NULL, want_end ? &end2 : NULL);
      else r2 = sodium_base642bin(bin, cap, (const char *) t, tlen, ign, NULL, want_end ? &end2 : NULL, codec);
      memcpy(b2, bin, cap); nullsame = r2 == ret && end2 == end && (ret != 0 || n > cap || memcmp(b1, b2, n) == 0); free(b1); free(b2); }
    fprintf(v_out, ",\"nullsame\":%s", nullsame ? "true" : "false");
    fprintf(v_out, ",\"end\":%ld}\n", want_end ? (long) (end - (const char *) t) : -1L);
    v_gfree(&gt); v_gfree(&gb);
}

int main(int argc, char **argv) {
    if (argc < 5) return 3;
    if (sodium_init() < 0) return 3;
    if (!strcmp(argv[1], "dec")) {
        FILE *f = fopen(argv[2], "r"); if (!f) return 3;
        unsigned char ignb[64]; size_t il = unhex(argv[3], ignb); ignb[il] = 0;
        size_t maxcap = (size_t) atoi(argv[4]);
        v_open(argv[5]); v_install_crash_handlers();
        char line[1024]; unsigned char text[512];
        static const int codecs[5] = { 0, 1, 3, 5, 7 };
        while (fgets(line, sizeof line, f)) {
            size_t tl = unhex(line, text);
            for (int ci = 0; ci < 5; ci++) for (int ig = 0; ig < 2; ig++) for (int we = 0; we < 2; we++)
                for (size_t cap = 0; cap <= maxcap; cap++)
                    dec_one(codecs[ci], text, tl, ig ? (const char *) ignb : NULL, cap, we);
        }
        fclose(f);
    } else if (!strcmp(argv[1], "enc")) {
        size_t maxlen = (size_t) atoi(argv[2]); vrng r; vrng_seed(&r, strtoull(argv[3], NULL, 10), 15);
        v_open(argv[4]); v_install_crash_handlers();
        static const int codecs[5] = { 0, 1, 3, 5, 7 };
        for (size_t len = 0; len <= maxlen; len++) for (int ci = 0; ci < 5; ci++) {
            int codec = codecs[ci];
            unsigned char *bin = malloc(len + 1); vrng_bytes(&r, bin, len);
            if (len && vrng_below(&r, 4) == 0) memset(bin, vrng_below(&r, 2) ? 0xff : 0x00, len);
            size_t elen = codec == 0 ? len * 2 + 1 : sodium_base64_encoded_len(len, codec);
            size_t macro = codec == 0 ? elen : sodium_base64_ENCODED_LEN(len, codec);
            /* the documented macro takes expressions: sums, differences, shifts, conditionals must give the same length as a plain variable */
            if (codec != 0) { size_t ha = len / 3, hb = len - ha, dbl = len * 2, one = 1; int vv = codec;
                if (sodium_base64_ENCODED_LEN(ha + hb, vv) != macro || sodium_base64_ENCODED_LEN(dbl - len, codec) != macro || sodium_base64_ENCODED_LEN(len << 0 | 0, codec) != macro
                    || sodium_base64_ENCODED_LEN(one ? len : one, codec) != macro || sodium_base64_ENCODED_LEN(ha + hb, one ? vv : 0) != macro
                    || ((len & 1) == 0 && sodium_base64_ENCODED_LEN(len >> 1 << 1, codec) != macro)) macro = (size_t) -1; }
            vguard g = v_galloc(elen, 1); memset(g.p, 0x7e, elen);
            char *ret = codec == 0 ? sodium_bin2hex((char *) g.p, elen, bin, len) : sodium_bin2base64((char *) g.p, elen, bin, len, codec);
            size_t tl = strnlen((char *) g.p, elen);
            /* decode what was produced, with exactly len bytes of capacity and no end pointer */
            vguard gb = v_galloc(len + 1, 1); size_t n = 999; int dret;
            if (codec == 0) dret = sodium_hex2bin(gb.p + 1, len, (char *) g.p, tl, NULL, &n, NULL);
            else dret = sodium_base642bin(gb.p + 1, len, (char *) g.p, tl, NULL, &n, NULL, codec);
            fprintf(v_out, "{\"op\":\"enc\",\"codec\":%d,", codec); v_emit_bytes("bin", bin, len); fputc(',', v_out);
            v_emit_bytes("text", g.p, tl);
            fprintf(v_out, ",\"retself\":%s,\"nul\":%s,\"elen\":%zu,\"macro\":%zu,\"dret\":%d,\"dn\":%zu,\"rt\":%s}\n",
                    ret == (char *) g.p ? "true" : "false", (tl < elen && g.p[tl] == 0) ? "true" : "false", elen, macro,
                    dret, n, (dret == 0 && n == len && memcmp(gb.p + 1, bin, len) == 0) ? "true" : "false");
            v_gfree(&g); v_gfree(&gb); free(bin);
        }
    } else return 3;
    v_close();
    return 0;
}
