/* Forgery driver (C02): for every authenticated-open API and form it seals a valid object, then presents EVERY
 * single-bit flip of every field, every truncation and several extensions, with the output buffer pre-filled;
 * it logs one aggregated NDJSON record per (api, form, length, field) for sys/TraceForgery.tla. Two runs with
 * different keys and plaintexts of the same length make a constant filler distinguishable from data.
 *   forge_driver <seed> <mode> <out.ndjson>                                                    */
#include "common.h"
static vrng R;
typedef struct { unsigned char k[64], n[32], ad[80], m[300], c[400], hdr[32], pk[32], sk[64], pk2[32], sk2[32]; size_t kl, nl, al, ml, cl; } obj;
typedef int (*open_fn)(const obj *o, const unsigned char *c, size_t cl, unsigned char *out, unsigned long long *mlen, int nullout);
typedef void (*seal_fn)(obj *o);
typedef struct { const char *name; size_t kl, nl, tl; int has_ad, reports_len, has_out; seal_fn seal; open_fn open; } api_t;

#define AEAD(P, NM, KL, NL, TL) \
static void seal_##NM(obj *o) { unsigned long long l; P##_encrypt(o->c, &l, o->m, o->ml, o->al ? o->ad : NULL, o->al, NULL, o->n, o->k); o->cl = (size_t) l; } \
static int open_##NM(const obj *o, const unsigned char *c, size_t cl, unsigned char *out, unsigned long long *ml, int nullout) { (void) nullout; return P##_decrypt(out, ml, NULL, c, cl, o->al ? o->ad : NULL, o->al, o->n, o->k); } \
static int opend_##NM(const obj *o, const unsigned char *c, size_t cl, unsigned char *out, unsigned long long *ml, int nullout) { if (cl < TL) { *ml = 0; return -1; } \
    int r = P##_decrypt_detached(nullout ? NULL : out, NULL, c, cl - TL, c + cl - TL, o->al ? o->ad : NULL, o->al, o->n, o->k); *ml = 0; return r; }
AEAD(crypto_aead_chacha20poly1305, chacha, 32, 8, 16) AEAD(crypto_aead_chacha20poly1305_ietf, ietf, 32, 12, 16) AEAD(crypto_aead_xchacha20poly1305_ietf, xchacha, 32, 24, 16)
AEAD(crypto_aead_aes256gcm, gcm, 32, 12, 16) AEAD(crypto_aead_aegis128l, aegis128l, 16, 16, 32) AEAD(crypto_aead_aegis256, aegis256, 32, 32, 32)
static void seal_sb(obj *o) { crypto_secretbox_easy(o->c, o->m, o->ml, o->n, o->k); o->cl = o->ml + 16; }
static int open_sb(const obj *o, const unsigned char *c, size_t cl, unsigned char *out, unsigned long long *ml, int nl) { (void) nl; *ml = 0; return crypto_secretbox_open_easy(out, c, cl, o->n, o->k); }
static int opend_sb(const obj *o, const unsigned char *c, size_t cl, unsigned char *out, unsigned long long *ml, int nl) { (void) nl; *ml = 0; if (cl < 16) return -1; return crypto_secretbox_open_detached(out, c + 16, c, cl - 16, o->n, o->k); }
static int openn_sb(const obj *o, const unsigned char *c, size_t cl, unsigned char *out, unsigned long long *ml, int nl) { (void) nl; *ml = 0; unsigned char *zc = calloc(1, cl + 32), *zo = malloc(cl + 32); memset(zo, 0x5a, cl + 32); memcpy(zc + 16, c, cl);
    int r = crypto_secretbox_open(zo, zc, cl + 16, o->n, o->k); if (cl >= 16) memcpy(out, zo + 32, cl - 16); free(zc); free(zo); return r; }
static void seal_sbx(obj *o) { crypto_secretbox_xchacha20poly1305_easy(o->c, o->m, o->ml, o->n, o->k); o->cl = o->ml + 16; }
static int open_sbx(const obj *o, const unsigned char *c, size_t cl, unsigned char *out, unsigned long long *ml, int nl) { (void) nl; *ml = 0; return crypto_secretbox_xchacha20poly1305_open_easy(out, c, cl, o->n, o->k); }
static void seal_box(obj *o) { crypto_box_easy(o->c, o->m, o->ml, o->n, o->pk2, o->sk); o->cl = o->ml + 16; }
static int open_box(const obj *o, const unsigned char *c, size_t cl, unsigned char *out, unsigned long long *ml, int nl) { (void) nl; *ml = 0; return crypto_box_open_easy(out, c, cl, o->n, o->pk, o->sk2); }
static int opena_box(const obj *o, const unsigned char *c, size_t cl, unsigned char *out, unsigned long long *ml, int nl) { (void) nl; *ml = 0; unsigned char kb[32]; if (crypto_box_beforenm(kb, o->pk, o->sk2)) return -1; return crypto_box_open_easy_afternm(out, c, cl, o->n, kb); }
static void seal_boxx(obj *o) { crypto_box_curve25519xchacha20poly1305_easy(o->c, o->m, o->ml, o->n, o->pk2, o->sk); o->cl = o->ml + 16; }
static int open_boxx(const obj *o, const unsigned char *c, size_t cl, unsigned char *out, unsigned long long *ml, int nl) { (void) nl; *ml = 0; return crypto_box_curve25519xchacha20poly1305_open_easy(out, c, cl, o->n, o->pk, o->sk2); }
static void seal_seal(obj *o) { crypto_box_seal(o->c, o->m, o->ml, o->pk2); o->cl = o->ml + crypto_box_SEALBYTES; }
static int open_seal(const obj *o, const unsigned char *c, size_t cl, unsigned char *out, unsigned long long *ml, int nl) { (void) nl; *ml = 0; return crypto_box_seal_open(out, c, cl, o->pk2, o->sk2); }
static void seal_ss(obj *o) { crypto_secretstream_xchacha20poly1305_state st; crypto_secretstream_xchacha20poly1305_init_push(&st, o->hdr, o->k); unsigned long long l; crypto_secretstream_xchacha20poly1305_push(&st, o->c, &l, o->m, o->ml, o->al ? o->ad : NULL, o->al, 0); o->cl = (size_t) l; memcpy(o->n, o->hdr, 24); }
static int open_ss(const obj *o, const unsigned char *c, size_t cl, unsigned char *out, unsigned long long *ml, int nl) { (void) nl; crypto_secretstream_xchacha20poly1305_state st; unsigned char tag; crypto_secretstream_xchacha20poly1305_init_pull(&st, o->n, o->k);
    return crypto_secretstream_xchacha20poly1305_pull(&st, out, ml, &tag, c, cl, o->al ? o->ad : NULL, o->al); }
static void seal_sign(obj *o) { unsigned long long l; crypto_sign(o->c, &l, o->m, o->ml, o->sk); o->cl = (size_t) l; }
static int open_sign(const obj *o, const unsigned char *c, size_t cl, unsigned char *out, unsigned long long *ml, int nl) { (void) nl; return crypto_sign_open(out, ml, c, cl, o->pk); }
static int openv_sign(const obj *o, const unsigned char *c, size_t cl, unsigned char *out, unsigned long long *ml, int nl) { (void) nl; (void) out; *ml = 0; if (cl < 64) return -1; return crypto_sign_verify_detached(c, c + 64, cl - 64, o->pk); }
/* MAC verifiers: "ciphertext" = tag || message, no output */
#define MACV(NM, FN, VF, TL) static void seal_##NM(obj *o) { FN(o->c, o->m, o->ml, o->k); memcpy(o->c + TL, o->m, o->ml); o->cl = o->ml + TL; } \
static int open_##NM(const obj *o, const unsigned char *c, size_t cl, unsigned char *out, unsigned long long *ml, int nl) { (void) nl; (void) out; *ml = 0; if (cl < TL) return -1; return VF(c, c + TL, cl - TL, o->k); }
MACV(auth, crypto_auth, crypto_auth_verify, 32) MACV(hmac256, crypto_auth_hmacsha256, crypto_auth_hmacsha256_verify, 32) MACV(hmac512, crypto_auth_hmacsha512, crypto_auth_hmacsha512_verify, 64) MACV(poly, crypto_onetimeauth, crypto_onetimeauth_verify, 16)

static const api_t apis[] = {
  { "aead_chacha20poly1305.combined", 32, 8, 16, 1, 1, 1, seal_chacha, open_chacha }, { "aead_chacha20poly1305.detached", 32, 8, 16, 1, 0, 1, seal_chacha, opend_chacha },
  { "aead_chacha20poly1305_ietf.combined", 32, 12, 16, 1, 1, 1, seal_ietf, open_ietf }, { "aead_chacha20poly1305_ietf.detached", 32, 12, 16, 1, 0, 1, seal_ietf, opend_ietf },
  { "aead_xchacha20poly1305.combined", 32, 24, 16, 1, 1, 1, seal_xchacha, open_xchacha }, { "aead_xchacha20poly1305.detached", 32, 24, 16, 1, 0, 1, seal_xchacha, opend_xchacha },
  { "aead_aes256gcm.combined", 32, 12, 16, 1, 1, 1, seal_gcm, open_gcm }, { "aead_aes256gcm.detached", 32, 12, 16, 1, 0, 1, seal_gcm, opend_gcm },
  { "aead_aegis128l.combined", 16, 16, 32, 1, 1, 1, seal_aegis128l, open_aegis128l }, { "aead_aegis128l.detached", 16, 16, 32, 1, 0, 1, seal_aegis128l, opend_aegis128l },
  { "aead_aegis256.combined", 32, 32, 32, 1, 1, 1, seal_aegis256, open_aegis256 }, { "aead_aegis256.detached", 32, 32, 32, 1, 0, 1, seal_aegis256, opend_aegis256 },
  { "secretbox.easy", 32, 24, 16, 0, 0, 1, seal_sb, open_sb }, { "secretbox.detached", 32, 24, 16, 0, 0, 1, seal_sb, opend_sb }, { "secretbox.nacl", 32, 24, 16, 0, 0, 1, seal_sb, openn_sb },
  { "secretbox_xchacha.easy", 32, 24, 16, 0, 0, 1, seal_sbx, open_sbx },
  { "box.easy", 0, 24, 16, 0, 0, 1, seal_box, open_box }, { "box.afternm", 0, 24, 16, 0, 0, 1, seal_box, opena_box }, { "box_xchacha.easy", 0, 24, 16, 0, 0, 1, seal_boxx, open_boxx },
  { "box_seal", 0, 0, 48, 0, 0, 1, seal_seal, open_seal }, { "secretstream.pull", 32, 24, 17, 1, 1, 1, seal_ss, open_ss },
  { "sign.open", 0, 0, 64, 0, 1, 1, seal_sign, open_sign }, { "sign.verify_detached", 0, 0, 64, 0, 0, 0, seal_sign, openv_sign },
  { "auth.verify", 32, 0, 32, 0, 0, 0, seal_auth, open_auth }, { "auth_hmacsha256.verify", 32, 0, 32, 0, 0, 0, seal_hmac256, open_hmac256 }, { "auth_hmacsha512.verify", 32, 0, 64, 0, 0, 0, seal_hmac512, open_hmac512 },
  { "onetimeauth.verify", 32, 0, 16, 0, 0, 0, seal_poly, open_poly },
};
#define NAPI ((int) (sizeof apis / sizeof apis[0]))
typedef struct { long trials, rejected, mlen_zero, untouched, filled, other, leak; int fill_bytes[4]; int nfill; char first_bad[160]; } agg;
static void classify(const api_t *a, const obj *o, int ret, unsigned long long mlen, const unsigned char *out, size_t cap, agg *g, int nullout, const char *what, long idx) {
    g->trials++; if (ret != 0) g->rejected++; if (!a->reports_len || mlen == 0) g->mlen_zero++;
    int bad = ret == 0 || (a->reports_len && mlen != 0);
    if (a->has_out && !nullout && cap > 0) {
        int unt = 1, fill = 1; for (size_t i = 0; i < cap; i++) { unt &= out[i] == 0x5a; fill &= out[i] == out[0]; }
        if (unt) g->untouched++; else if (fill) { g->filled++; int seen = 0; for (int i = 0; i < g->nfill; i++) seen |= g->fill_bytes[i] == out[0]; if (!seen && g->nfill < 4) g->fill_bytes[g->nfill++] = out[0]; }
        else { g->other++; bad = 1; }
        size_t same = 0; for (size_t i = 0; i < cap && i < o->ml; i++) same += out[i] == o->m[i]; if (cap >= 8 && o->ml >= 8 && same * 2 > (cap < o->ml ? cap : o->ml) && ret != 0) { g->leak++; bad = 1; }
    } else g->untouched++;
    if (bad && !g->first_bad[0]) snprintf(g->first_bad, sizeof g->first_bad, "%s #%ld ret=%d mlen=%llu", what, idx, ret, mlen);
}
static void emit(const api_t *a, const obj *o, const char *field, const agg *g, int run) {
    fprintf(v_out, "{\"e\":\"forge\",\"api\":\"%s\",\"mlen\":%zu,\"adlen\":%zu,\"field\":\"%s\",\"run\":%d,\"reports_len\":%s,\"trials\":%ld,\"rejected\":%ld,\"mlen_zero\":%ld,\"untouched\":%ld,\"filled\":%ld,\"other\":%ld,\"leak\":%ld,\"fill\":[",
            a->name, o->ml, o->al, field, run, a->reports_len ? "true" : "false", g->trials, g->rejected, g->mlen_zero, g->untouched, g->filled, g->other, g->leak);
    for (int i = 0; i < g->nfill; i++) fprintf(v_out, i ? ",%d" : "%d", g->fill_bytes[i]);
    fprintf(v_out, "],\"first_bad\":\"%s\"}\n", g->first_bad);
}
static void attack(const api_t *a, size_t ml, size_t al, int run, int full) {
    obj o; memset(&o, 0, sizeof o); o.ml = ml; o.al = a->has_ad ? al : 0; o.kl = a->kl; o.nl = a->nl;
    vrng_bytes(&R, o.k, 64); vrng_bytes(&R, o.n, 32); vrng_bytes(&R, o.ad, 80); vrng_bytes(&R, o.m, 300);
    unsigned char sd[32]; vrng_bytes(&R, sd, 32); crypto_box_seed_keypair(o.pk, o.sk, sd); vrng_bytes(&R, sd, 32); crypto_box_seed_keypair(o.pk2, o.sk2, sd);
    if (!strncmp(a->name, "sign", 4)) { vrng_bytes(&R, sd, 32); crypto_sign_seed_keypair(o.pk, o.sk, sd); }
    a->seal(&o);
    size_t cap = o.cl + 20; vguard g = v_galloc(cap, 1); unsigned char *out = g.p; unsigned long long mlen; agg ag;
    /* control: the untampered object must be accepted */
    memset(out, 0x5a, cap); mlen = 999; int r0 = a->open(&o, o.c, o.cl, out, &mlen, 0);
    fprintf(v_out, "{\"e\":\"control\",\"api\":\"%s\",\"mlen\":%zu,\"adlen\":%zu,\"accepted\":%s,\"plain_ok\":%s}\n", a->name, ml, o.al, r0 == 0 ? "true" : "false",
            (!a->has_out || ml == 0 || !memcmp(out, o.m, ml) || !strcmp(a->name, "aead_chacha20poly1305.detached")) ? "true" : "false");
    struct { const char *name; unsigned char *p; size_t n; } fields[] = { { "input", o.c, o.cl }, { "ad", o.ad, o.al }, { "nonce", o.n, a->nl }, { "key", o.k, a->kl },
        { "pk", strncmp(a->name, "box", 3) && strncmp(a->name, "sign", 4) ? NULL : (!strcmp(a->name, "box_seal") ? o.pk2 : o.pk), 32 }, { "sk", strncmp(a->name, "box", 3) ? NULL : o.sk2, 32 } };
    for (int f = 0; f < 6; f++) {
        if (!fields[f].p || fields[f].n == 0) continue;
        memset(&ag, 0, sizeof ag); size_t nb = fields[f].n * 8, stepb = (full || nb <= 1200) ? 1 : 1 + nb / 1200;
        unsigned char *tc = malloc(o.cl + 32);
        for (size_t b = 0; b < nb; b += stepb) {
            fields[f].p[b / 8] ^= (unsigned char) (1u << (b % 8));
            memcpy(tc, o.c, o.cl); memset(out, 0x5a, cap); mlen = 999;
            int nullout = (f == 0 && (b % 3) == 0 && strstr(a->name, "aead") && strstr(a->name, "detached")) ? 1 : 0;
            int r = a->open(&o, tc, o.cl, out, &mlen, nullout);
            /* a flipped bit of the secret-key clamp bits or of the ignored top bit of a public key leaves the shared key unchanged: such flips are not tampering */
            int neutral = (!strcmp(fields[f].name, "sk") && (b < 3 || b == 254 || b == 255)) || (!strcmp(fields[f].name, "pk") && !strncmp(a->name, "box", 3) && b == 255)
                          /* Poly1305 ignores the 22 clamped bits of r by definition (RFC 8439 2.5), and all of r for an empty message */
                          || (!strcmp(fields[f].name, "key") && !strcmp(a->name, "onetimeauth.verify") && b < 128 &&
                              (o.ml == 0 || ((b / 8) % 4 == 3 && b % 8 >= 4) || ((b / 8) % 4 == 0 && b / 8 > 0 && b % 8 < 2)));
            if (!neutral) classify(a, &o, r, mlen, out, o.cl >= a->tl ? o.cl - a->tl : 0, &ag, nullout, fields[f].name, (long) b);
            fields[f].p[b / 8] ^= (unsigned char) (1u << (b % 8));
        }
        free(tc); emit(a, &o, fields[f].name, &ag, run);
    }
    memset(&ag, 0, sizeof ag);
    for (size_t t = 0; t < o.cl; t += (full || o.cl < 120) ? 1 : 7) { memset(out, 0x5a, cap); mlen = 999; int r = a->open(&o, o.c, t, out, &mlen, 0); classify(a, &o, r, mlen, out, t >= a->tl ? t - a->tl : 0, &ag, 0, "truncate", (long) t); }
    emit(a, &o, "truncate", &ag, run);
    memset(&ag, 0, sizeof ag);
    for (size_t e = 1; e <= 17; e += 4) { unsigned char *tc = malloc(o.cl + 32); memcpy(tc, o.c, o.cl); vrng_bytes(&R, tc + o.cl, e); memset(out, 0x5a, cap); mlen = 999; int r = a->open(&o, tc, o.cl + e, out, &mlen, 0);
        classify(a, &o, r, mlen, out, o.cl + e - a->tl, &ag, 0, "extend", (long) e); free(tc); }
    emit(a, &o, "extend", &ag, run);
    /* signatures: S replaced by S + k*L for k = 1..15 (every multiple that still fits in 256 bits) - the same group element, a different
     * byte string: the canonical-scalar test must reject all of them, not only the first */
    if (!strncmp(a->name, "sign", 4) && o.cl >= 64) { static const unsigned char Lb[32] = { 0xed, 0xd3, 0xf5, 0x5c, 0x1a, 0x63, 0x12, 0x58, 0xd6, 0x9c, 0xf7, 0xa2, 0xde, 0xf9, 0xde, 0x14, 0, 0, 0, 0, 0, 0, 0, 0, 0, 0, 0, 0, 0, 0, 0, 0x10 };
        memset(&ag, 0, sizeof ag); unsigned char *tc = malloc(o.cl + 32); memcpy(tc, o.c, o.cl);
        for (int k = 1; k <= 15; k++) { unsigned carry = 0; for (int i = 0; i < 32; i++) { unsigned v = tc[32 + i] + Lb[i] + carry; tc[32 + i] = (unsigned char) v; carry = v >> 8; }
            if (carry) break; memset(out, 0x5a, cap); mlen = 999; int r = a->open(&o, tc, o.cl, out, &mlen, 0); classify(a, &o, r, mlen, out, o.cl - a->tl, &ag, 0, "s_plus_kL", (long) k); }
        free(tc); emit(a, &o, "s_plus_kL", &ag, run); }
    v_gfree(&g);
}
/* associated data of 4 GiB + 64 bytes (a sparse anonymous mapping: untouched pages read as zero and cost no memory): lengths whose
 * upper 32 bits matter. One valid object per AEAD, then a bit flipped at 2^31 + 5 and at 2^32 + 47 of the associated data, presented
 * to the combined and to the verify-only (m == NULL) decrypt forms. Same record format as the small cases. */
#define HUGE(P, NM, KL, NL, TL) do { if (strstr(#P, "aes256gcm") && !crypto_aead_aes256gcm_is_available()) break; \
    unsigned char k[32], n[32], m[48], c[48 + TL], out[48]; unsigned long long cl = 0, ml; vrng_bytes(&R, k, 32); vrng_bytes(&R, n, 32); vrng_bytes(&R, m, 48); \
    ad[3] = 0x5a; ad[adl - 1] = 0xa5; P##_encrypt(c, &cl, m, 48, ad, adl, NULL, n, k); \
    memset(out, 0x99, 48); ml = 777; int r0 = P##_decrypt(out, &ml, NULL, c, cl, ad, adl, n, k), r1 = P##_decrypt(NULL, NULL, NULL, c, cl, ad, adl, n, k); \
    fprintf(v_out, "{\"e\":\"control\",\"api\":\"aead_" #NM "_hugead\",\"accepted\":%s,\"plain_ok\":%s}\n", (r0 == 0 && (r1 == 0 || !vo)) ? "true" : "false", (ml == 48 && !memcmp(out, m, 48)) ? "true" : "false"); \
    long trials = 0, rej = 0, mz = 0, unt = 0, fil = 0, oth = 0, leak = 0; int fillb = -1; \
    for (int w = 0; w < 2; w++) { unsigned long long pos = w ? 4294967296ULL + 47 : 2147483648ULL + 5; ad[pos] ^= 0x10; \
        for (int form = 0; form < (vo ? 2 : 1); form++) { memset(out, 0x99, 48); ml = 777; \
            int r = form == 0 ? P##_decrypt(out, &ml, NULL, c, cl, ad, adl, n, k) : P##_decrypt(NULL, &ml, NULL, c, cl, ad, adl, n, k); \
            trials++; rej += r == -1; mz += ml == 0; int same = 1, cst = 1; for (int q = 0; q < 48; q++) { same &= out[q] == 0x99; cst &= out[q] == out[0]; } \
            if (same) unt++; else if (!memcmp(out, m, 48)) leak++; else if (cst) { fil++; fillb = out[0]; } else oth++; } \
        ad[pos] ^= 0x10; } \
    fprintf(v_out, "{\"e\":\"forge\",\"api\":\"aead_" #NM "_hugead\",\"mlen\":48,\"adlen\":64,\"field\":\"ad_beyond_2^31\",\"run\":0,\"reports_len\":true,\"trials\":%ld,\"rejected\":%ld,\"mlen_zero\":%ld,\"untouched\":%ld,\"filled\":%ld,\"other\":%ld,\"leak\":%ld,\"fill\":[", trials, rej, mz, unt, fil, oth, leak); \
    if (fillb >= 0) fprintf(v_out, "%d", fillb); fprintf(v_out, "]}\n"); fflush(v_out); } while (0)
static int huge_mode(void) {
    unsigned long long adl = 4294967296ULL + 64;
    unsigned char *ad = (unsigned char *) mmap(NULL, (size_t) adl, PROT_READ | PROT_WRITE, MAP_PRIVATE | MAP_ANONYMOUS | MAP_NORESERVE, -1, 0);
    if (ad == MAP_FAILED) { fprintf(v_out, "{\"e\":\"control\",\"api\":\"hugead_unavailable\",\"accepted\":true,\"plain_ok\":true}\n"); return 0; }
    int vo = 1;
    HUGE(crypto_aead_chacha20poly1305, chacha, 32, 8, 16); HUGE(crypto_aead_chacha20poly1305_ietf, ietf, 32, 12, 16); HUGE(crypto_aead_xchacha20poly1305_ietf, xchacha, 32, 24, 16);
    HUGE(crypto_aead_aes256gcm, gcm, 32, 12, 16);
    vo = 0; HUGE(crypto_aead_aegis128l, aegis128l, 16, 16, 32); HUGE(crypto_aead_aegis256, aegis256, 32, 32, 32);
    munmap(ad, (size_t) adl);
    return 0;
}
int main(int argc, char **argv) {
    if (argc < 4) return 3;
    vrng_seed(&R, strtoull(argv[1], NULL, 10), 2); int full = !strcmp(argv[2], "full");
    v_open(argv[3]); v_install_seeded_random(7); if (sodium_init() < 0) return 3; v_install_crash_handlers();
    if (!strcmp(argv[2], "huge")) { huge_mode(); v_close(); return 0; }
    static const size_t ML[] = { 0, 1, 15, 16, 17, 63, 64, 65, 257 }, MLF[] = { 0, 1, 2, 15, 16, 17, 31, 32, 33, 47, 48, 63, 64, 65, 127, 128, 129, 255, 256, 257 };
    for (int a = 0; a < NAPI; a++) {
        if (!crypto_aead_aes256gcm_is_available() && strstr(apis[a].name, "aes256gcm")) continue;
        const size_t *ml = full ? MLF : ML; size_t nml = full ? 20 : 9;
        for (size_t i = 0; i < nml; i++) { if (!full && (i % 2) && a % 3) continue; for (int run = 0; run < 2; run++) attack(&apis[a], ml[i], (size_t[]) { 0, 13, 64 }[(i + (size_t) a) % 3], run, full); }
    }
    v_close(); return 0;
}
