/* Guarded allocation driver (C17): executes scripts of sodium_malloc / allocarray / mprotect_* / probes /
 * sodium_free on the real library and logs one NDJSON event per step for sys/TraceGuardedAlloc.tla.
 *   alloc_driver <script> <out.ndjson>
 * Script lines:  M <size> | B <hex64 size> | A <hex64 count> <hex64 size> | N | O | W | R <off> | T <off> | F */
#include "common.h"
#include <setjmp.h>
#include <stddef.h>
#include <linux/filter.h>
#include <linux/seccomp.h>
#include <sys/prctl.h>
#include <sys/syscall.h>
/* VERIF_MLOCK_FAIL=1: the process may not lock memory (as without CAP_IPC_LOCK beyond RLIMIT_MEMLOCK, or under a sandbox policy):
 * mlock / mlock2 answer ENOMEM. Locking is best effort in sodium_malloc; the guard pages and the canary do not depend on it. */
static int deny_mlock(void) {
    struct sock_filter flt[] = {
        BPF_STMT(BPF_LD | BPF_W | BPF_ABS, (unsigned) offsetof(struct seccomp_data, nr)),
        BPF_JUMP(BPF_JMP | BPF_JEQ | BPF_K, __NR_mlock, 1, 0),
        BPF_JUMP(BPF_JMP | BPF_JEQ | BPF_K, __NR_mlock2, 0, 1),
        BPF_STMT(BPF_RET | BPF_K, SECCOMP_RET_ERRNO | (ENOMEM & SECCOMP_RET_DATA)),
        BPF_STMT(BPF_RET | BPF_K, SECCOMP_RET_ALLOW) };
    struct sock_fprog prog = { (unsigned short) (sizeof flt / sizeof flt[0]), flt };
    return prctl(PR_SET_NO_NEW_PRIVS, 1, 0, 0, 0) == 0 && prctl(PR_SET_SECCOMP, SECCOMP_MODE_FILTER, &prog) == 0;
}

static sigjmp_buf jb; static volatile sig_atomic_t probing;
static void on_fault(int sig) { if (probing) siglongjmp(jb, 1); v_crash_handler(sig); }

/* permissions and bounds of the mapping that contains addr, from /proc/self/maps */
static int map_of(uintptr_t addr, uintptr_t *lo, uintptr_t *hi, char perm[5]) {
    FILE *f = fopen("/proc/self/maps", "r"); char line[512]; int found = 0;
    while (f && fgets(line, sizeof line, f)) {
        unsigned long a, b; char p[8];
        if (sscanf(line, "%lx-%lx %7s", &a, &b, p) == 3 && addr >= a && addr < b) { *lo = a; *hi = b; memcpy(perm, p, 4); perm[4] = 0; found = 1; break; }
    }
    if (f) fclose(f);
    if (!found) { *lo = *hi = 0; strcpy(perm, "none"); }
    return found;
}
static const char *probe(volatile unsigned char *p, int write) {
    const char *res = "ok";
    probing = 1;
    if (sigsetjmp(jb, 1) == 0) { if (write) *p = (unsigned char) (*p ^ 0x5a); /* always changes the byte */ else { unsigned char v = *p; (void) v; } } else res = "fault";
    probing = 0;
    return res;
}
static void le64(unsigned long long v, unsigned char o[8]) { for (int i = 0; i < 8; i++) o[i] = (unsigned char) (v >> (8 * i)); }

static void returning_handler(int s) { (void) s; }
int main(int argc, char **argv) {
    if (argc < 3) return 3;
    FILE *sc = fopen(argv[1], "r"); if (!sc) return 3;
    v_open(argv[2]);
    if (sodium_init() < 0) return 3;
    if (getenv("VERIF_MLOCK_FAIL")) { int ok = deny_mlock(); char probe_[64]; int lr = ok ? mlock(probe_, 1) : 0;
        fprintf(v_out, "{\"e\":\"env\",\"mlock_denied\":%s}\n", (ok && lr != 0) ? "true" : "false"); }
    struct sigaction sa; memset(&sa, 0, sizeof sa); sa.sa_handler = on_fault; sa.sa_flags = SA_NODEFER;
    sigaction(SIGSEGV, &sa, NULL); sigaction(SIGBUS, &sa, NULL); signal(SIGABRT, v_crash_handler);
    long ps = sysconf(_SC_PAGESIZE);
    unsigned char *user = NULL; size_t size = 0; uintptr_t dlo = 0, dhi = 0;
    char line[256];
    while (fgets(line, sizeof line, sc)) {
        unsigned long long a, b; long off; char perm[5], perm2[5]; uintptr_t lo, hi;
        if (line[0] == 'M' && sscanf(line + 1, "%llu", &a) == 1) {
            errno = 0; size = (size_t) a; user = sodium_malloc(size); int e = errno;
            if (!user) { fprintf(v_out, "{\"e\":\"malloc\",\"size\":%zu,\"null\":true,\"enomem\":%s}\n", size, e == ENOMEM ? "true" : "false"); continue; }
            int fill = 1; for (size_t i = 0; i < size; i++) fill &= user[i] == 0xdb;
            map_of((uintptr_t) (size ? user : user - 1), &dlo, &dhi, perm);
            char gl[5], hd[5], gh[5]; uintptr_t glo, ghi, hlo, hhi, g2lo, g2hi;
            map_of(dlo - 1, &glo, &ghi, gl); map_of(dlo - (uintptr_t) ps - 1, &hlo, &hhi, hd); map_of(dhi, &g2lo, &g2hi, gh);
            fprintf(v_out, "{\"e\":\"malloc\",\"size\":%zu,\"null\":false,\"page\":%ld,\"end_off\":%lu,\"data_off\":%lu,\"data_size\":%lu,\"fill_ok\":%s,"
                    "\"data\":\"%s\",\"guard_lo\":\"%s\",\"guard_lo_size\":%lu,\"hdr\":\"%s\",\"guard_hi\":\"%s\",\"guard_hi_min\":%lu}\n",
                    size, ps, (unsigned long) (((uintptr_t) user + size) - dlo), (unsigned long) ((uintptr_t) user - dlo), (unsigned long) (dhi - dlo),
                    fill ? "true" : "false", perm, gl, (unsigned long) (ghi - glo), hd, gh, (unsigned long) (g2hi - dhi));
        } else if (line[0] == 'B' && sscanf(line + 1, "%llx", &a) == 1) {
            errno = 0; void *p = sodium_malloc((size_t) a); int e = errno; unsigned char sz[8]; le64(a, sz);
            fprintf(v_out, "{\"e\":\"bigmalloc\","); v_emit_bytes("size", sz, 8);
            fprintf(v_out, ",\"page\":%ld,\"null\":%s,\"enomem\":%s}\n", ps, p ? "false" : "true", e == ENOMEM ? "true" : "false");
            if (p) sodium_free(p);
        } else if (line[0] == 'A' && sscanf(line + 1, "%llx %llx", &a, &b) == 2) {
            errno = 0; unsigned char *p = sodium_allocarray((size_t) a, (size_t) b); int e = errno; unsigned char c8[8], s8[8]; le64(a, c8); le64(b, s8);
            int fill = 1; if (p) for (size_t i = 0; i < (size_t) (a * b); i++) fill &= p[i] == 0xdb;
            uintptr_t l2 = 0, h2 = 0; if (p) map_of((uintptr_t) (a * b ? p : p - 1), &l2, &h2, perm);
            fprintf(v_out, "{\"e\":\"allocarray\","); v_emit_bytes("count", c8, 8); fputc(',', v_out); v_emit_bytes("size", s8, 8);
            fprintf(v_out, ",\"null\":%s,\"enomem\":%s,\"fill_ok\":%s,\"end_off\":%lu,\"data_size\":%lu}\n", p ? "false" : "true", e == ENOMEM ? "true" : "false",
                    fill ? "true" : "false", p ? (unsigned long) ((uintptr_t) p + (size_t) (a * b) - l2) : 0UL, (unsigned long) (h2 - l2));
            if (p) sodium_free(p);
        } else if ((line[0] == 'N' || line[0] == 'O' || line[0] == 'W') && user) {
            int ret = line[0] == 'N' ? sodium_mprotect_noaccess(user) : line[0] == 'O' ? sodium_mprotect_readonly(user) : sodium_mprotect_readwrite(user);
            map_of((uintptr_t) (size ? user : user - 1), &lo, &hi, perm); map_of((uintptr_t) user + size, &lo, &hi, perm2);
            fprintf(v_out, "{\"e\":\"protect\",\"p\":\"%s\",\"ret\":%d,\"perm_user\":\"%s\",\"perm_end\":\"%s\"}\n",
                    line[0] == 'N' ? "NA" : line[0] == 'O' ? "RO" : "RW", ret, perm, perm2);
        } else if ((line[0] == 'R' || line[0] == 'T') && sscanf(line + 1, "%ld", &off) == 1 && user) {
            const char *res = probe(user + off, line[0] == 'T');
            fprintf(v_out, "{\"e\":\"probe\",\"kind\":\"%s\",\"off\":%ld,\"res\":\"%s\"}\n", line[0] == 'T' ? "write" : "read", off, res);
        } else if (line[0] == 'F' && user) {
            fflush(v_out);
            pid_t pid = fork();
            /* the signal state of the thread that frees: default / SIGSEGV blocked / SIGSEGV ignored / a SIGSEGV handler that returns.
             * An altered canary must terminate the process in every one of them. */
            if (pid == 0) { signal(SIGSEGV, SIG_DFL); signal(SIGABRT, SIG_DFL); signal(SIGBUS, SIG_DFL);
                if (line[1] == '1') { sigset_t ss; sigemptyset(&ss); sigaddset(&ss, SIGSEGV); sigprocmask(SIG_BLOCK, &ss, NULL); }
                else if (line[1] == '2') signal(SIGSEGV, SIG_IGN);
                else if (line[1] == '3') signal(SIGSEGV, returning_handler);
                sodium_free(user); _exit(0); }
            int st = 0; waitpid(pid, &st, 0);
            int killed = WIFSIGNALED(st);
            int unmapped = 0;
            if (!killed) { sodium_free(user); unmapped = !map_of(dlo, &lo, &hi, perm) && !map_of((uintptr_t) (size ? user : user - 1), &lo, &hi, perm); }
            fprintf(v_out, "{\"e\":\"free\",\"res\":\"%s\",\"signal\":%d,\"exit\":%d,\"unmapped\":%s}\n", killed ? "killed" : "ok",
                    killed ? WTERMSIG(st) : 0, killed ? -1 : WEXITSTATUS(st), unmapped ? "true" : "false");
            user = NULL;
        }
    }
    v_close();
    return 0;
}
