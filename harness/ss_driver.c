/* Secretstream driver (C09): executes a script of operations against the real
 * crypto_secretstream_xchacha20poly1305 API and logs one NDJSON event per call, to be validated by
 * spec/sys/TraceSecretStream.tla. The script comes either from TLC (behaviours of SecretStream) or
 * from the seeded generator in checks/C09.py.
 *
 *   ss_driver <script> <trace.ndjson> <seed> [<bytes.ndjson>]
 *
 * Script lines:
 *   I k            new history; initial counter 1 (k = 0) or 2^32 - k
 *   P by tag mlen adlen      push on stream by (0 main, 1 other key, 2 other header)
 *   K side         explicit rekey (0,1,2 pushers; 3 puller)
 *   L i kind adsel pull chunk number i (0-based, production order) presented in manner kind
 *                  (0 intact, 1 flip tag byte bit, 2 flip ciphertext bit, 3 flip MAC bit, 4 truncate,
 *                   5 extend, 6 shorter than ABYTES, 7 unrelated bytes of the same length) with ad
 *                  adsel (0 as pushed, 1 one bit flipped / one byte added, 2 dropped / added, 3 shortened)
 * The harness only projects: which chunk (if any) the presented bytes are is decided by the
 * specification from the logged digests. */
#include "common.h"

#define ST crypto_secretstream_xchacha20poly1305_state
#define ABYTES crypto_secretstream_xchacha20poly1305_ABYTES
#define MAXCH 4096

typedef struct { unsigned char *c; size_t clen; unsigned char *ad; size_t adlen; unsigned char *m; size_t mlen; } chunk;

static ST st[4]; /* 0 main pusher, 1 other key, 2 other header, 3 puller */
static chunk ch[MAXCH];
static int nch;
static FILE *bytes_out;
static const char *side_name[4] = { "main", "otherkey", "otherhdr", "pull" };

static void put_ctr(const ST *s) { unsigned lo = s->nonce[0] | (s->nonce[1] << 8), hi = s->nonce[2] | (s->nonce[3] << 8);
    fprintf(v_out, "\"ctr\":[%u,%u]", lo, hi); }
static int in_sync(void) { return memcmp(&st[0], &st[3], sizeof(ST)) == 0; }
static void fbytes(FILE *f, const char *key, const unsigned char *p, size_t n) {
    fprintf(f, "\"%s\":[", key); for (size_t i = 0; i < n; i++) fprintf(f, i ? ",%u" : "%u", p[i]); fputc(']', f); }

static void free_chunks(void) { for (int i = 0; i < nch; i++) { free(ch[i].c); free(ch[i].ad); free(ch[i].m); } nch = 0; }

int main(int argc, char **argv) {
    if (argc < 4) { fprintf(stderr, "usage\n"); return 3; }
    FILE *sc = fopen(argv[1], "r"); if (!sc) { perror("script"); return 3; }
    v_open(argv[2]);
    uint64_t seed = strtoull(argv[3], NULL, 10);
    if (argc > 4) { bytes_out = fopen(argv[4], "w"); if (!bytes_out) { perror("bytes"); return 3; } }
    v_install_seeded_random(seed);
    if (sodium_init() < 0) return 3;
    v_install_crash_handlers();
    vrng rng; vrng_seed(&rng, seed, 1);
    char line[256]; int hist = 0;
    while (fgets(line, sizeof line, sc)) {
        unsigned a, b, c, d;
        if (line[0] == 'I' && sscanf(line + 1, "%u", &a) == 1) {
            unsigned char key[32], key2[32], hdr[24], hdr2[24];
            free_chunks(); hist++;
            vrng_bytes(&rng, key, 32); vrng_bytes(&rng, key2, 32);
            crypto_secretstream_xchacha20poly1305_init_push(&st[0], hdr, key);
            crypto_secretstream_xchacha20poly1305_init_pull(&st[3], hdr, key);
            crypto_secretstream_xchacha20poly1305_init_pull(&st[1], hdr, key2);   /* same header, other key */
            crypto_secretstream_xchacha20poly1305_init_push(&st[2], hdr2, key);   /* same key, other header */
            int sync0 = in_sync();
            if (bytes_out) {
                fprintf(bytes_out, "{\"op\":\"ss_init\","); fbytes(bytes_out, "key", key, 32); fputc(',', bytes_out);
                fbytes(bytes_out, "hdr", hdr, 24); fputc(',', bytes_out); fbytes(bytes_out, "k", st[0].k, 32); fputc(',', bytes_out);
                fbytes(bytes_out, "nonce", st[0].nonce, 12); fprintf(bytes_out, "}\n");
            }
            if (a > 0) { /* a long-running stream: counter 2^32 - a, set through the public state struct */
                uint32_t cv = (uint32_t) (0u - a);
                for (int s = 0; s < 4; s++) { st[s].nonce[0] = cv & 0xff; st[s].nonce[1] = (cv >> 8) & 0xff; st[s].nonce[2] = (cv >> 16) & 0xff; st[s].nonce[3] = (cv >> 24) & 0xff; }
            }
            fprintf(v_out, "{\"e\":\"init\",\"h\":%d,", hist); put_ctr(&st[0]);
            fprintf(v_out, ",\"sync\":%s,\"pad0\":%s}\n", (sync0 && in_sync()) ? "true" : "false",
                    sodium_is_zero(st[0]._pad, sizeof st[0]._pad) ? "true" : "false");
        } else if (line[0] == 'P' && sscanf(line + 1, "%u %u %u %u", &a, &b, &c, &d) == 4 && a < 3 && nch < MAXCH) {
            chunk *x = &ch[nch];
            x->mlen = c; x->adlen = d; x->m = malloc(c + 1); x->ad = malloc(d + 1); x->clen = c + ABYTES; x->c = malloc(x->clen + 8);
            vrng_bytes(&rng, x->m, c); vrng_bytes(&rng, x->ad, d);
            memset(x->c, 0xa5, x->clen + 8);
            ST before = st[a]; unsigned long long outlen = 12345;
            int nolen = nch % 3 == 2;            /* every third push does not ask for the ciphertext length (clen_p = NULL) */
            int ret = crypto_secretstream_xchacha20poly1305_push(&st[a], x->c, nolen ? NULL : &outlen, x->m, c, d ? x->ad : NULL, d, (unsigned char) b);
            if (nolen) outlen = (ret == 0) ? x->clen : 12345;
            int tail_ok = 1; for (int i = 0; i < 8; i++) tail_ok &= x->c[x->clen + i] == 0xa5;
            if (bytes_out) {
                fprintf(bytes_out, "{\"op\":\"ss_chunk\","); fbytes(bytes_out, "k", before.k, 32); fputc(',', bytes_out);
                fbytes(bytes_out, "nonce", before.nonce, 12); fprintf(bytes_out, ",\"tag\":%u,", b);
                fbytes(bytes_out, "m", x->m, c); fputc(',', bytes_out); fbytes(bytes_out, "ad", x->ad, d); fputc(',', bytes_out);
                fbytes(bytes_out, "c", x->c, x->clen); fputc(',', bytes_out);
                fbytes(bytes_out, "k2", st[a].k, 32); fputc(',', bytes_out); fbytes(bytes_out, "nonce2", st[a].nonce, 12);
                fprintf(bytes_out, "}\n");
            }
            fprintf(v_out, "{\"e\":\"push\",\"by\":\"%s\",\"tag\":%u,\"mlen\":%u,\"md\":%u,\"adlen\":%u,\"add\":%u,\"ret\":%d,\"clen\":%llu,\"cd\":%u,\"tail_ok\":%s,",
                    side_name[a], b, c, v_digest(x->m, c), d, v_digest(x->ad, d), ret, outlen, v_digest(x->c, x->clen), tail_ok ? "true" : "false");
            put_ctr(&st[a]);
            fprintf(v_out, ",\"rekeyed\":%s,\"sync\":%s}\n", memcmp(before.k, st[a].k, 32) ? "true" : "false", in_sync() ? "true" : "false");
            nch++;
        } else if (line[0] == 'K' && sscanf(line + 1, "%u", &a) == 1 && a < 4) {
            ST before = st[a];
            crypto_secretstream_xchacha20poly1305_rekey(&st[a]);
            if (bytes_out) {
                fprintf(bytes_out, "{\"op\":\"ss_rekey\","); fbytes(bytes_out, "k", before.k, 32); fputc(',', bytes_out);
                fbytes(bytes_out, "nonce", before.nonce, 12); fputc(',', bytes_out);
                fbytes(bytes_out, "k2", st[a].k, 32); fputc(',', bytes_out); fbytes(bytes_out, "nonce2", st[a].nonce, 12); fprintf(bytes_out, "}\n");
            }
            fprintf(v_out, "{\"e\":\"rekey\",\"side\":\"%s\",", side_name[a]); put_ctr(&st[a]);
            fprintf(v_out, ",\"rekeyed\":%s,\"sync\":%s}\n", memcmp(before.k, st[a].k, 32) ? "true" : "false", in_sync() ? "true" : "false");
        } else if (line[0] == 'L' && sscanf(line + 1, "%u %u %u", &a, &b, &c) == 3 && (int) a < nch) {
            chunk *x = &ch[a];
            size_t inlen = x->clen, adlen = x->adlen;
            unsigned char *in = malloc(x->clen + 2), *ad = malloc(x->adlen + 2);
            memcpy(in, x->c, x->clen); memcpy(ad, x->ad, x->adlen);
            switch (b) {
            case 1: in[0] ^= (unsigned char) (1u << vrng_below(&rng, 8)); break;
            case 2: if (x->mlen) in[1 + vrng_below(&rng, (uint32_t) x->mlen)] ^= (unsigned char) (1u << vrng_below(&rng, 8));
                    else in[1 + vrng_below(&rng, 16)] ^= 1; break;
            case 3: in[1 + x->mlen + vrng_below(&rng, 16)] ^= (unsigned char) (1u << vrng_below(&rng, 8)); break;
            case 4: { size_t cut = 1 + vrng_below(&rng, x->mlen ? (uint32_t) (x->mlen < 20 ? x->mlen : 20) : 1); if (cut > x->mlen) cut = x->mlen; if (cut == 0) { in[x->clen - 1] ^= 0x80; } inlen -= cut; break; }
            case 5: in[inlen] = (unsigned char) vrng_below(&rng, 256); inlen += 1; break;
            case 6: inlen = vrng_below(&rng, ABYTES); break;
            case 7: vrng_bytes(&rng, in, inlen); break;
            default: break;
            }
            switch (c) {
            case 1: if (adlen) ad[vrng_below(&rng, (uint32_t) adlen)] ^= (unsigned char) (1u << vrng_below(&rng, 8)); else { ad[0] = 0; adlen = 1; } break;
            case 2: if (adlen) adlen = 0; else { ad[0] = 0x41; adlen = 1; } break;
            case 3: if (adlen) adlen -= 1; else { ad[0] = 0; adlen = 1; } break;
            default: break;
            }
            size_t cap = inlen >= ABYTES ? inlen - ABYTES : 0;
            vguard g = v_galloc(cap + 1, 1);  /* output buffer ends at a guard page (+1 so that cap=0 is a valid pointer) */
            unsigned char *m = g.p + 1; memset(m, 0x5a, cap);
            ST before = st[3]; unsigned long long mlen = 777; unsigned char tag = 0x77;
            int ret = crypto_secretstream_xchacha20poly1305_pull(&st[3], m, &mlen, &tag, in, inlen, adlen ? ad : NULL, adlen);
            int untouched = 1; for (size_t i = 0; i < cap; i++) untouched &= m[i] == 0x5a;
            fprintf(v_out, "{\"e\":\"pull\",\"i\":%u,\"kind\":%u,\"clen\":%zu,\"cd\":%u,\"adlen\":%zu,\"add\":%u,\"ret\":%d,\"mlen\":%llu,\"md\":%u,\"tag\":%u,\"st_unchanged\":%s,\"out_untouched\":%s,",
                    a, b, inlen, v_digest(in, inlen), adlen, v_digest(ad, adlen), ret, mlen,
                    ret == 0 ? v_digest(m, (size_t) mlen) : 0, tag,
                    memcmp(&before, &st[3], sizeof(ST)) == 0 ? "true" : "false", untouched ? "true" : "false");
            put_ctr(&st[3]);
            fprintf(v_out, ",\"rekeyed\":%s,\"sync\":%s}\n", memcmp(before.k, st[3].k, 32) ? "true" : "false", in_sync() ? "true" : "false");
            v_gfree(&g); free(in); free(ad);
        } else if (line[0] != '#' && line[0] != '\n') {
            fprintf(stderr, "bad script line: %s", line); return 3;
        }
    }
    free_chunks();
    v_close(); if (bytes_out) fclose(bytes_out);
    return 0;
}
