/* table of call wrappers for contract_driver.c; names and buffer order follow spec/sys/Contract.tla */
#include "cc_hash.h"
#include "cc_cipher.h"
#include "cc_curve.h"
#include "cc_utils.h"
#include "cc_extra.h"
static const fnent fns[] = { FNS_HASH, FNS_CIPHER, FNS_CURVE, FNS_UTILS, FNS_EXTRA };

/* the opaque-state sizes the specification states must be the sizes the library reports */
static void check_statebytes(void) {
    struct { const char *n; size_t lib; } t[] = {
        { "generichash", crypto_generichash_statebytes() }, { "sha256", crypto_hash_sha256_statebytes() },
        { "sha512", crypto_hash_sha512_statebytes() }, { "hmacsha256", crypto_auth_hmacsha256_statebytes() },
        { "hmacsha512", crypto_auth_hmacsha512_statebytes() }, { "hmacsha512256", crypto_auth_hmacsha512256_statebytes() },
        { "onetimeauth", crypto_onetimeauth_statebytes() }, { "sign", crypto_sign_statebytes() },
        { "secretstream", crypto_secretstream_xchacha20poly1305_statebytes() }, { "aes256gcm", crypto_aead_aes256gcm_statebytes() },
        { "hkdf256", crypto_kdf_hkdf_sha256_statebytes() }, { "hkdf512", crypto_kdf_hkdf_sha512_statebytes() } };
    for (size_t i = 0; i < sizeof t / sizeof t[0]; i++)
        v_emit("{\"e\":\"statebytes\",\"name\":\"%s\",\"lib\":%zu}", t[i].n, t[i].lib);
}
