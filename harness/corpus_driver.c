/* Shared deterministic corpus (C10, also run under ASan/UBSan for C12): every deterministic public function
 * family at boundary lengths with seeded inputs; prints one NDJSON line per (function, case) with a digest of
 * all outputs and the return code. Outputs must be byte-identical in every configuration.
 *   corpus_driver <seed> <out.ndjson> [quick]                                                  */
#include "common.h"
#include "poly_keys.h"
#include "x25519_nearp.h"

static vrng R; static int quick;
static const size_t LENS_ALL[] = { 0, 1, 2, 3, 7, 8, 15, 16, 17, 31, 32, 33, 47, 48, 63, 64, 65, 95, 96, 97, 127, 128, 129, 191, 192, 193, 255, 256, 257,
                                   319, 320, 383, 384, 385, 511, 512, 513, 575, 576, 577, 767, 768, 1023, 1024, 1025, 1279, 1280, 2047, 2048, 2049, 2303, 2304 };
#define NL_ALL (sizeof LENS_ALL / sizeof LENS_ALL[0])
static size_t nlens(void) { return quick ? 29 : NL_ALL; }
static unsigned char *IN, *IN2, *OUT, *OUT2;
static crypto_generichash_state *gh;

static void emit(const char *fn, size_t c1, size_t c2, int ret, const unsigned char *o, size_t olen) {
    fprintf(v_out, "{\"fn\":\"%s\",\"case\":\"%zu.%zu\",\"ret\":%d,\"dig\":%u,\"olen\":%zu}\n", fn, c1, c2, ret, v_digest(o, olen), olen);
}
static void fresh(const char *fn, size_t a, size_t b) { uint64_t h = 1469598103934665603ULL; for (const char *p = fn; *p; p++) h = (h ^ (unsigned char) *p) * 1099511628211ULL;
    vrng_seed(&R, h ^ (a * 7919) ^ (b * 104729), 10); vrng_bytes(&R, IN, 4096); vrng_bytes(&R, IN2, 512); memset(OUT, 0xc3, 8192); memset(OUT2, 0xc3, 8192); }

int main(int argc, char **argv) {
    if (argc < 3) return 3;
    quick = argc > 3;
    v_open(argv[2]); v_install_seeded_random(strtoull(argv[1], NULL, 10));
    if (sodium_init() < 0) return 3;
    v_install_crash_handlers();
    IN = malloc(4096); IN2 = malloc(512); OUT = malloc(8192); OUT2 = malloc(8192); gh = malloc(crypto_generichash_statebytes() + 64);
    unsigned long long l; int r;
    if (argc > 3 && !strncmp(argv[3], "bigmem", 6)) {
        /* Argon2 over more than 2^22 one-KiB blocks (memlimit 4 GiB + 16 MiB, one pass): block offsets beyond 32 bits in every fill-segment backend */
        static const char pw[] = "corpus password"; unsigned char salt[16]; memset(salt, 0x42, 16); size_t mem = ((size_t) 4 << 30) + ((size_t) 16 << 20);
        r = crypto_pwhash(OUT, 32, pw, sizeof pw - 1, salt, 1, mem, crypto_pwhash_ALG_ARGON2ID13); emit("pwhash_argon2id_4g", 0, 0, r, OUT, 32);
        if (!strcmp(argv[3], "bigmem2")) { r = crypto_pwhash(OUT, 32, pw, sizeof pw - 1, salt, 3, mem, crypto_pwhash_ALG_ARGON2I13); emit("pwhash_argon2i_4g", 0, 0, r, OUT, 32); }
        v_close(); return 0;
    }
    /* block counters of the vector backends: every batch offset across 2^32, the sign bit of the low word, high words */
    { static const size_t WL[] = { 192, 256, 320, 511, 512, 576, 768, 1024, 1088 };
      static const unsigned long long IC[] = { 0xffffffffULL, 0xfffffffeULL, 0xfffffffdULL, 0xfffffffcULL, 0xfffffffbULL, 0xfffffffaULL, 0xfffffff9ULL, 0xfffffff8ULL, 0xfffffff7ULL,
                                               0x7ffffffbULL, 0x7fffffffULL, 0x80000000ULL, 0xfeffffffULL, 0x1fffffffeULL, 0xffffffff7ffffffeULL };
      unsigned char *k = IN2, *np = IN2 + 64;
      for (size_t a = 0; a < sizeof WL / sizeof WL[0]; a++) for (size_t c = 0; c < sizeof IC / sizeof IC[0]; c++) { size_t n = WL[a]; unsigned long long ic = IC[c];
        fresh("stream_chacha20_xor_ic_ctr", n, c); r = crypto_stream_chacha20_xor_ic(OUT, IN, n, np, ic, k); emit("stream_chacha20_xor_ic_ctr", n, c, r, OUT, n);
        fresh("stream_salsa20_xor_ic_ctr", n, c); r = crypto_stream_salsa20_xor_ic(OUT, IN, n, np, ic, k); emit("stream_salsa20_xor_ic_ctr", n, c, r, OUT, n);
        fresh("stream_xchacha20_xor_ic_ctr", n, c); r = crypto_stream_xchacha20_xor_ic(OUT, IN, n, np, ic, k); emit("stream_xchacha20_xor_ic_ctr", n, c, r, OUT, n);
        fresh("stream_xsalsa20_xor_ic_ctr", n, c); r = crypto_stream_xsalsa20_xor_ic(OUT, IN, n, np, ic, k); emit("stream_xsalsa20_xor_ic_ctr", n, c, r, OUT, n);
        if (ic <= 0xffffffffULL && (n + 63) / 64 <= 0x100000000ULL - ic) { fresh("stream_chacha20_ietf_xor_ic_ctr", n, c); r = crypto_stream_chacha20_ietf_xor_ic(OUT, IN, n, np, (uint32_t) ic, k); emit("stream_chacha20_ietf_xor_ic_ctr", n, c, r, OUT, n); } } }
    for (size_t i = 0; i < nlens(); i++) {
        size_t n = LENS_ALL[i]; unsigned char *k = IN2, *np = IN2 + 64;
        fresh("hash_sha256", n, 0); r = crypto_hash_sha256(OUT, IN, n); emit("hash_sha256", n, 0, r, OUT, 32);
        fresh("hash_sha512", n, 0); r = crypto_hash_sha512(OUT, IN, n); emit("hash_sha512", n, 0, r, OUT, 64);
        for (size_t v = 0; v < 4; v++) { size_t ol = (size_t[]) { 16, 32, 64, 1 + n % 64 }[v], kl = (size_t[]) { 0, 32, 64, n % 65 }[v];
            fresh("generichash", n, v); r = crypto_generichash(OUT, ol, IN, n, kl ? k : NULL, kl); emit("generichash", n, v, r, OUT, ol);
            fresh("generichash_sp", n, v); r = crypto_generichash_blake2b_salt_personal(OUT, ol, IN, n, kl ? k : NULL, kl, v & 1 ? np : NULL, v & 2 ? np + 16 : NULL); emit("generichash_sp", n, v, r, OUT, ol);
            fresh("generichash_mp", n, v); crypto_generichash_init(gh, kl ? k : NULL, kl, ol); crypto_generichash_update(gh, IN, n / 3); crypto_generichash_update(gh, IN + n / 3, n - n / 3); r = crypto_generichash_final(gh, OUT, ol); emit("generichash_mp", n, v, r, OUT, ol); }
        fresh("auth", n, 0); r = crypto_auth(OUT, IN, n, k); emit("auth", n, 0, r, OUT, 32); emit("auth_verify", n, 0, crypto_auth_verify(OUT, IN, n, k), OUT, 0);
        fresh("auth_hmacsha256", n, 0); r = crypto_auth_hmacsha256(OUT, IN, n, k); emit("auth_hmacsha256", n, 0, r, OUT, 32);
        fresh("auth_hmacsha512", n, 0); r = crypto_auth_hmacsha512(OUT, IN, n, k); emit("auth_hmacsha512", n, 0, r, OUT, 64);
        fresh("onetimeauth", n, 0); r = crypto_onetimeauth(OUT, IN, n, k); emit("onetimeauth", n, 0, r, OUT, 16); emit("onetimeauth_verify", n, 0, crypto_onetimeauth_verify(OUT, IN, n, k), OUT, 0);
        fresh("shorthash", n, 0); r = crypto_shorthash(OUT, IN, n, k); emit("shorthash", n, 0, r, OUT, 8);
        fresh("shorthash_x", n, 0); r = crypto_shorthash_siphashx24(OUT, IN, n, k); emit("shorthash_x", n, 0, r, OUT, 16);
        fresh("stream_chacha20", n, 0); r = crypto_stream_chacha20(OUT, n, np, k); emit("stream_chacha20", n, 0, r, OUT, n);
        fresh("stream_chacha20_xor_ic", n, 0); r = crypto_stream_chacha20_xor_ic(OUT, IN, n, np, 0xfffffffeULL + n, k); emit("stream_chacha20_xor_ic", n, 0, r, OUT, n);
        fresh("stream_chacha20_ietf_xor_ic", n, 0); r = crypto_stream_chacha20_ietf_xor_ic(OUT, IN, n, np, 7, k); emit("stream_chacha20_ietf_xor_ic", n, 0, r, OUT, n);
        fresh("stream_xchacha20_xor", n, 0); r = crypto_stream_xchacha20_xor(OUT, IN, n, np, k); emit("stream_xchacha20_xor", n, 0, r, OUT, n);
        fresh("stream_salsa20_xor_ic", n, 0); r = crypto_stream_salsa20_xor_ic(OUT, IN, n, np, 0xffffffffULL - 3, k); emit("stream_salsa20_xor_ic", n, 0, r, OUT, n);
        fresh("stream_salsa2012", n, 0); r = crypto_stream_salsa2012_xor(OUT, IN, n, np, k); emit("stream_salsa2012", n, 0, r, OUT, n);
        fresh("stream_salsa208", n, 0); r = crypto_stream_salsa208_xor(OUT, IN, n, np, k); emit("stream_salsa208", n, 0, r, OUT, n);
        fresh("stream_xsalsa20_xor_ic", n, 0); r = crypto_stream_xsalsa20_xor_ic(OUT, IN, n, np, 5, k); emit("stream_xsalsa20_xor_ic", n, 0, r, OUT, n);
        fresh("secretbox_easy", n, 0); r = crypto_secretbox_easy(OUT, IN, n, np, k); emit("secretbox_easy", n, 0, r, OUT, n + 16);
        r = crypto_secretbox_open_easy(OUT2, OUT, n + 16, np, k); emit("secretbox_open_easy", n, 0, r, OUT2, n);
        fresh("secretbox_xchacha", n, 0); r = crypto_secretbox_xchacha20poly1305_easy(OUT, IN, n, np, k); emit("secretbox_xchacha", n, 0, r, OUT, n + 16);
        for (size_t a = 0; a < 3; a++) { size_t al = (size_t[]) { 0, 13, 64 + n % 7 }[a];
            fresh("aead_chacha20poly1305", n, a); r = crypto_aead_chacha20poly1305_encrypt(OUT, &l, IN, n, IN + 2048, al, NULL, np, k); emit("aead_chacha20poly1305", n, a, r, OUT, (size_t) l);
            r = crypto_aead_chacha20poly1305_decrypt(OUT2, &l, NULL, OUT, n + 16, IN + 2048, al, np, k); emit("aead_chacha20poly1305_dec", n, a, r, OUT2, (size_t) l);
            fresh("aead_chacha20poly1305_ietf", n, a); r = crypto_aead_chacha20poly1305_ietf_encrypt(OUT, &l, IN, n, IN + 2048, al, NULL, np, k); emit("aead_chacha20poly1305_ietf", n, a, r, OUT, (size_t) l);
            fresh("aead_xchacha20poly1305", n, a); r = crypto_aead_xchacha20poly1305_ietf_encrypt(OUT, &l, IN, n, IN + 2048, al, NULL, np, k); emit("aead_xchacha20poly1305", n, a, r, OUT, (size_t) l);
            r = crypto_aead_xchacha20poly1305_ietf_decrypt(OUT2, &l, NULL, OUT, n + 16, IN + 2048, al, np, k); emit("aead_xchacha20poly1305_dec", n, a, r, OUT2, (size_t) l);
            fresh("aead_aegis128l", n, a); r = crypto_aead_aegis128l_encrypt(OUT, &l, IN, n, IN + 2048, al, NULL, np, k); emit("aead_aegis128l", n, a, r, OUT, (size_t) l);
            r = crypto_aead_aegis128l_decrypt(OUT2, &l, NULL, OUT, n + 32, IN + 2048, al, np, k); emit("aead_aegis128l_dec", n, a, r, OUT2, (size_t) l);
            fresh("aead_aegis256", n, a); r = crypto_aead_aegis256_encrypt(OUT, &l, IN, n, IN + 2048, al, NULL, np, k); emit("aead_aegis256", n, a, r, OUT, (size_t) l);
            r = crypto_aead_aegis256_decrypt(OUT2, &l, NULL, OUT, n + 32, IN + 2048, al, np, k); emit("aead_aegis256_dec", n, a, r, OUT2, (size_t) l);
        }
        fresh("sign", n, 0); { unsigned char pk[32], sk[64]; crypto_sign_seed_keypair(pk, sk, k); r = crypto_sign(OUT, &l, IN, n, sk); emit("sign", n, 0, r, OUT, (size_t) l);
            r = crypto_sign_open(OUT2, &l, OUT, n + 64, pk); emit("sign_open", n, 0, r, OUT2, (size_t) l); }
        fresh("box_easy", n, 0); { unsigned char pk[32], sk[32], pk2[32], sk2[32]; crypto_box_seed_keypair(pk, sk, k); crypto_box_seed_keypair(pk2, sk2, k + 32);
            r = crypto_box_easy(OUT, IN, n, np, pk2, sk); emit("box_easy", n, 0, r, OUT, n + 16); r = crypto_box_open_easy(OUT2, OUT, n + 16, np, pk, sk2); emit("box_open_easy", n, 0, r, OUT2, n);
            r = crypto_box_curve25519xchacha20poly1305_easy(OUT, IN, n, np, pk2, sk); emit("box_xchacha_easy", n, 0, r, OUT, n + 16); }
        fresh("kdf_hkdf_sha256", n, 0); { unsigned char prk[64]; crypto_kdf_hkdf_sha256_extract(prk, k, n % 40, IN, n); r = crypto_kdf_hkdf_sha256_expand(OUT, 1 + n % 200, (const char *) IN, n % 50, prk); emit("kdf_hkdf_sha256", n, 0, r, OUT, 1 + n % 200);
            crypto_kdf_hkdf_sha512_extract(prk, k, n % 40, IN, n); r = crypto_kdf_hkdf_sha512_expand(OUT, 1 + n % 300, (const char *) IN, n % 50, prk); emit("kdf_hkdf_sha512", n, 0, r, OUT, 1 + n % 300); }
        fresh("pad", n, 0); { size_t pl = 0, ul = 0, bs = 1 + n % 37; memcpy(OUT, IN, n); r = sodium_pad(&pl, OUT, n, bs, n + bs); emit("pad", n, bs, r, OUT, pl); r = sodium_unpad(&ul, OUT, pl, bs); emit("unpad", n, ul, r, OUT, 0); }
        fresh("bin2base64", n, 0); { size_t bl = 0; if (n <= 1024) { sodium_bin2base64((char *) OUT, 8192, IN, n, 1 + 2 * (int) (n % 4)); emit("bin2base64", n, 0, 0, OUT, strlen((char *) OUT));
            r = sodium_base642bin(OUT2, 4096, (char *) OUT, strlen((char *) OUT), NULL, &bl, NULL, 1 + 2 * (int) (n % 4)); emit("base642bin", n, 0, r, OUT2, bl);
            sodium_bin2hex((char *) OUT, 8192, IN, n); r = sodium_hex2bin(OUT2, 4096, (char *) OUT, 2 * n, NULL, &bl, NULL); emit("hex2bin", n, 0, r, OUT2, bl); } }
    }
    /* X25519 results just below p, all limbs ones but one (tools/gen_nearp.py): every backend's final canonicalisation */
    { unsigned char kk[32], uu[32]; static const char *kfix = "58083dd261ad91eff952322ec824c682ffffffffffffffffffffffffffffff5f";
      for (int i = 0; i < 32; i++) { unsigned v; sscanf(kfix + 2 * i, "%2x", &v); kk[i] = (unsigned char) v; }
      for (size_t c = 0; NEARP[c]; c++) { for (int i = 0; i < 32; i++) { unsigned v; sscanf(NEARP[c] + 2 * i, "%2x", &v); uu[i] = (unsigned char) v; }
        int r = crypto_scalarmult(OUT, kk, uu); emit("scalarmult_nearp", c, 0, r, OUT, 32); } }
    /* Poly1305 keys whose powers r^2 / r^4 have a limb at a boundary (tools/polykeys.c) */
    { unsigned char kk[32]; static const size_t L[3] = { 17, 96, 200 };
      for (size_t c = 0; POLYKEYS[c]; c++) { for (int b = 0; b < 16; b++) { unsigned v; sscanf(POLYKEYS[c] + 2 * b, "%2x", &v); kk[b] = (unsigned char) v; } memset(kk + 16, (int) c, 16); fresh("onetimeauth_polykey", c, 0);
        for (int j = 0; j < 3; j++) { int r = crypto_onetimeauth(OUT, IN, L[j], kk); emit("onetimeauth_polykey", c, j, r, OUT, 16); } } }
    /* fixed-size primitives, many seeded cases */
    for (size_t c = 0; c < (quick ? 12 : 60); c++) {
        unsigned char *k = IN2, *np = IN2 + 64; int r;
        fresh("core_hchacha20", c, 0); r = crypto_core_hchacha20(OUT, np, k, c & 1 ? IN : NULL); emit("core_hchacha20", c, 0, r, OUT, 32);
        fresh("core_hsalsa20", c, 0); r = crypto_core_hsalsa20(OUT, np, k, c & 1 ? IN : NULL); emit("core_hsalsa20", c, 0, r, OUT, 32);
        fresh("core_salsa20", c, 0); r = crypto_core_salsa20(OUT, np, k, NULL); emit("core_salsa20", c, 0, r, OUT, 64);
        fresh("scalarmult", c, 0); r = crypto_scalarmult(OUT, k, np); emit("scalarmult", c, 0, r, OUT, 32); r = crypto_scalarmult_base(OUT, k); emit("scalarmult_base", c, 0, r, OUT, 32);
        fresh("kx", c, 0); { unsigned char pk[32], sk[32], pk2[32], sk2[32]; crypto_kx_seed_keypair(pk, sk, k); crypto_kx_seed_keypair(pk2, sk2, k + 32);
            r = crypto_kx_client_session_keys(OUT, OUT + 32, pk, sk, pk2); emit("kx_client", c, 0, r, OUT, 64); r = crypto_kx_server_session_keys(OUT, OUT + 32, pk2, sk2, pk); emit("kx_server", c, 0, r, OUT, 64); }
        fresh("kdf", c, 0); r = crypto_kdf_derive_from_key(OUT, 16 + c % 49, c * 77, "ctxctxct", k); emit("kdf", c, 0, r, OUT, 16 + c % 49);
        fresh("ed25519", c, 0); { unsigned char p[32], q[32]; crypto_core_ed25519_from_uniform(p, k); crypto_core_ed25519_from_uniform(q, k + 32); emit("ed25519_from_uniform", c, 0, 0, p, 32);
            r = crypto_core_ed25519_add(OUT, p, q); emit("ed25519_add", c, 0, r, OUT, 32); r = crypto_core_ed25519_sub(OUT, p, q); emit("ed25519_sub", c, 0, r, OUT, 32);
            r = crypto_scalarmult_ed25519(OUT, np, p); emit("scalarmult_ed25519", c, 0, r, OUT, 32); r = crypto_scalarmult_ed25519_noclamp(OUT, np, p); emit("scalarmult_ed25519_noclamp", c, 0, r, OUT, 32);
            r = crypto_scalarmult_ed25519_base(OUT, np); emit("scalarmult_ed25519_base", c, 0, r, OUT, 32); emit("ed25519_is_valid_point", c, 0, crypto_core_ed25519_is_valid_point(p), p, 0);
            r = crypto_core_ed25519_from_string(OUT, "ctx", IN, c * 3, (int) (c & 1) + 1); emit("ed25519_from_string", c, 0, r, OUT, 32);
            r = crypto_core_ed25519_from_string_ro(OUT, "ctx", IN, c * 3, (int) (c & 1) + 1); emit("ed25519_from_string_ro", c, 0, r, OUT, 32); }
        fresh("ristretto255", c, 0); { unsigned char p[32], q[32]; crypto_core_ristretto255_from_hash(p, IN); crypto_core_ristretto255_from_hash(q, IN + 64); emit("ristretto255_from_hash", c, 0, 0, p, 32);
            r = crypto_core_ristretto255_add(OUT, p, q); emit("ristretto255_add", c, 0, r, OUT, 32); r = crypto_core_ristretto255_sub(OUT, p, q); emit("ristretto255_sub", c, 0, r, OUT, 32);
            r = crypto_scalarmult_ristretto255(OUT, np, p); emit("scalarmult_ristretto255", c, 0, r, OUT, 32); r = crypto_scalarmult_ristretto255_base(OUT, np); emit("scalarmult_ristretto255_base", c, 0, r, OUT, 32);
            emit("ristretto255_is_valid_point", c, 0, crypto_core_ristretto255_is_valid_point(p), p, 0); emit("ristretto255_is_valid_point_rand", c, 0, crypto_core_ristretto255_is_valid_point(IN), p, 0); }
        fresh("scalar", c, 0); { unsigned char a[32], b[32]; crypto_core_ed25519_scalar_reduce(a, IN); crypto_core_ed25519_scalar_reduce(b, IN + 64); emit("scalar_reduce", c, 0, 0, a, 32);
            crypto_core_ed25519_scalar_add(OUT, a, b); crypto_core_ed25519_scalar_sub(OUT + 32, a, b); crypto_core_ed25519_scalar_mul(OUT + 64, a, b); crypto_core_ed25519_scalar_negate(OUT + 96, a);
            crypto_core_ed25519_scalar_complement(OUT + 128, a); r = crypto_core_ed25519_scalar_invert(OUT + 160, a); emit("scalar_ops", c, 0, r, OUT, 192);
            crypto_core_ristretto255_scalar_mul(OUT, IN, IN + 32); crypto_core_ristretto255_scalar_reduce(OUT + 32, IN); emit("ristretto_scalar_ops", c, 0, 0, OUT, 64); }
        fresh("sign_detached", c, 0); { unsigned char pk[32], sk[64], xpk[32], xsk[32]; crypto_sign_seed_keypair(pk, sk, k); emit("sign_seed_keypair", c, 0, 0, sk, 64);
            crypto_sign_state st; crypto_sign_init(&st); crypto_sign_update(&st, IN, c * 11); r = crypto_sign_final_create(&st, OUT, NULL, sk); emit("sign_ph", c, 0, r, OUT, 64);
            crypto_sign_init(&st); crypto_sign_update(&st, IN, c * 11); emit("sign_ph_verify", c, 0, crypto_sign_final_verify(&st, OUT, pk), OUT, 0);
            r = crypto_sign_ed25519_pk_to_curve25519(xpk, pk); emit("pk_to_curve25519", c, 0, r, xpk, 32); r = crypto_sign_ed25519_sk_to_curve25519(xsk, sk); emit("sk_to_curve25519", c, 0, r, xsk, 32); }
        fresh("secretstream", c, 0); { crypto_secretstream_xchacha20poly1305_state st, st2; unsigned char hdr[24]; unsigned char tag;
            crypto_secretstream_xchacha20poly1305_init_push(&st, hdr, k); crypto_secretstream_xchacha20poly1305_init_pull(&st2, hdr, k);
            for (int q = 0; q < 4; q++) { r = crypto_secretstream_xchacha20poly1305_push(&st, OUT, &l, IN + q * 300, c * 17 + (size_t) q, q & 1 ? IN2 : NULL, q & 1 ? 9 : 0, (unsigned char) q); emit("secretstream_push", c, (size_t) q, r, OUT, (size_t) l);
                r = crypto_secretstream_xchacha20poly1305_pull(&st2, OUT2, &l, &tag, OUT, c * 17 + (size_t) q + 17, q & 1 ? IN2 : NULL, q & 1 ? 9 : 0); emit("secretstream_pull", c, (size_t) q, r + tag, OUT2, (size_t) l); } }
        fresh("verify", c, 0); { memcpy(OUT, IN, 64); if (c & 1) OUT[c % 64] ^= 1; emit("verify_16", c, 0, crypto_verify_16(IN, OUT), OUT, 0); emit("verify_32", c, 0, crypto_verify_32(IN, OUT), OUT, 0); emit("verify_64", c, 0, crypto_verify_64(IN, OUT), OUT, 0);
            emit("compare", c, 0, sodium_compare(IN, OUT, 64), OUT, 0); memcpy(OUT, IN, 64); sodium_add(OUT, IN + 64, 12 * (1 + c % 5)); sodium_sub(OUT, IN + 128, 64); sodium_increment(OUT, 8 + c % 17); emit("arith", c, 0, 0, OUT, 64); }
        if (crypto_aead_aes256gcm_is_available()) for (size_t a = 0; a < 2; a++) { size_t n = LENS_ALL[(c * 2 + a) % NL_ALL];
            fresh("aead_aes256gcm", n, a); r = crypto_aead_aes256gcm_encrypt(OUT, &l, IN, n, IN + 2048, a * 21, NULL, np, k); emit("aead_aes256gcm", n, a, r, OUT, (size_t) l);
            r = crypto_aead_aes256gcm_decrypt(OUT2, &l, NULL, OUT, n + 16, IN + 2048, a * 21, np, k); emit("aead_aes256gcm_dec", n, a, r, OUT2, (size_t) l); }
    }
    /* password hashing at small costs */
    for (size_t c = 0; c < (quick ? 3 : 10); c++) {
        unsigned char *k = IN2; int r; size_t mem = (size_t[]) { 8192, 9 * 1024, 16 * 1024, 31 * 1024, 32 * 1024, 33 * 1024, 64 * 1024, 100 * 1024, 1024 * 1024, 12 * 1024 }[c];
        fresh("pwhash_argon2id", c, 0); r = crypto_pwhash(OUT, 16 + c * 5, (const char *) IN, c * 3, k, 1 + c % 3, mem, crypto_pwhash_ALG_ARGON2ID13); emit("pwhash_argon2id", c, 0, r, OUT, 16 + c * 5);
        fresh("pwhash_argon2i", c, 0); r = crypto_pwhash(OUT, 16 + c * 5, (const char *) IN, c * 3, k, 3 + c % 2, mem, crypto_pwhash_ALG_ARGON2I13); emit("pwhash_argon2i", c, 0, r, OUT, 16 + c * 5);
        fresh("scrypt_ll", c, 0); r = crypto_pwhash_scryptsalsa208sha256_ll(IN, c * 5, k, 8 + c, (uint64_t) 1 << (1 + c % 6), 1 + (uint32_t) c % 3, 1 + (uint32_t) c % 2, OUT, 16 + c * 7); emit("scrypt_ll", c, 0, r, OUT, 16 + c * 7);
        fresh("pwhash_str", c, 0); { char s[crypto_pwhash_STRBYTES]; v_install_seeded_random(99 + c); r = crypto_pwhash_str(s, (const char *) IN, 8, 1 + c % 2, mem); emit("pwhash_str", c, 0, r, (unsigned char *) s, strlen(s));
            emit("pwhash_str_verify", c, 0, crypto_pwhash_str_verify(s, (const char *) IN, 8), OUT, 0); emit("pwhash_str_verify_wrong", c, 0, crypto_pwhash_str_verify(s, (const char *) IN, 7), OUT, 0);
            emit("pwhash_str_needs_rehash", c, 0, crypto_pwhash_str_needs_rehash(s, 1 + c % 2, mem) + 10 * crypto_pwhash_str_needs_rehash(s, 2 + c % 2, mem), OUT, 0); }
    }
    { unsigned char sd[32]; memset(sd, 0x42, 32); for (size_t i = 0; i < nlens(); i++) { randombytes_buf_deterministic(OUT, LENS_ALL[i], sd); emit("buf_deterministic", LENS_ALL[i], 0, 0, OUT, LENS_ALL[i]); } }
    /* mass relational runs for the field-arithmetic backends (sandy2x vs ref10 ladders, 51-bit vs 25.5-bit limbs): conditions that
     * depend on every bit of both operands (an unreduced limb, a dropped carry) occur for about one pair in 10^5..10^6; the outputs of
     * every block of 2048 random pairs are folded into one digest per block, which must be identical in every configuration */
    { vrng MR; vrng_seed(&MR, 0x51a5e + (uint64_t) atoll(argv[1]), 9); unsigned char kk[32], uu[32], qq[32], acc[32];
      size_t nblk = quick ? 256 : 1024;
      for (size_t blk = 0; blk < nblk; blk++) { memset(acc, 0, 32); int rets = 0;
          for (int j = 0; j < 2048; j++) { vrng_bytes(&MR, kk, 32); vrng_bytes(&MR, uu, 32); rets += crypto_scalarmult(qq, kk, uu) != 0;
              for (int b = 0; b < 32; b++) acc[b] = (unsigned char) ((acc[b] << 1 | acc[b] >> 7) ^ qq[(b + j) & 31]); }
          emit("x25519_mass", blk, 0, rets, acc, 32); }
      for (size_t blk = 0; blk < nblk / 8; blk++) { memset(acc, 0, 32); int rets = 0;
          for (int j = 0; j < 2048; j++) { vrng_bytes(&MR, kk, 32); rets += crypto_scalarmult_ed25519_base_noclamp(qq, kk) != 0;
              for (int b = 0; b < 32; b++) acc[b] = (unsigned char) ((acc[b] << 1 | acc[b] >> 7) ^ qq[(b + j) & 31]); }
          emit("ed25519_base_mass", blk, 0, rets, acc, 32); } }
    v_close();
    return 0;
}
