/* C12 call wrappers, part 2: stream ciphers, secretbox, box, AEADs, secretstream */
#define STREAM(P) \
static int c_##P(A) { return P(b[0], l1, b[1], b[2]); } \
static int c_##P##_xor(A) { return P##_xor(b[0], b[1], l1, b[2], b[3]); }
#define STREAMIC(P) static int c_##P##_xor_ic(A) { return P##_xor_ic(b[0], b[1], l1, b[2], l2, b[3]); }
STREAM(crypto_stream_chacha20) STREAMIC(crypto_stream_chacha20)
STREAM(crypto_stream_chacha20_ietf) STREAMIC(crypto_stream_chacha20_ietf)
STREAM(crypto_stream_xchacha20) STREAMIC(crypto_stream_xchacha20)
STREAM(crypto_stream_salsa20) STREAMIC(crypto_stream_salsa20)
STREAM(crypto_stream_xsalsa20) STREAMIC(crypto_stream_xsalsa20)
STREAM(crypto_stream_salsa2012)
STREAM(crypto_stream_salsa208)
STREAM(crypto_stream)

/* secretbox-like: easy(c[l1+16], m[l1], n, k) */
#define SBOX(P) \
static int c_##P##_easy(A) { return P##_easy(b[0], b[1], l1, b[2], b[3]); } \
static void p_##P##_open_easy(A) { if (cm == 1) { unsigned char *m = tmp_rand(l1), *t = (unsigned char *) malloc(l1 + 16); \
    P##_easy(t, m, l1, b[2], b[3]); vcpy(b[1], t, l1 + 16); free(t); free(m); } } \
static int c_##P##_open_easy(A) { return P##_open_easy(b[0], b[1], l1 + 16, b[2], b[3]); } \
static int c_##P##_open_easy_short(A) { return P##_open_easy(b[0], b[1], l1, b[2], b[3]); } \
static int c_##P##_detached(A) { return P##_detached(b[0], b[1], b[2], l1, b[3], b[4]); } \
static void p_##P##_open_detached(A) { if (cm == 1) { unsigned char *m = tmp_rand(l1), *t = (unsigned char *) malloc(l1 + 1), mac[16]; \
    P##_detached(t, mac, m, l1, b[3], b[4]); vcpy(b[1], t, l1); vcpy(b[2], mac, 16); free(t); free(m); } } \
static int c_##P##_open_detached(A) { return P##_open_detached(b[0], b[1], b[2], l1, b[3], b[4]); }
SBOX(crypto_secretbox)
SBOX(crypto_secretbox_xchacha20poly1305)
/* NaCl form: c[l1], m[l1] (first 32 bytes of m zero) */
static void p_crypto_secretbox_nacl(A) { vset(b[1], 0, vmin(32, l1)); }
static int c_crypto_secretbox_nacl(A) { return crypto_secretbox(b[0], b[1], l1, b[2], b[3]); }
static void p_crypto_secretbox_open_nacl(A) {
    if (cm == 1 && l1 >= 32) { unsigned char *m = tmp_rand(l1), *t = (unsigned char *) malloc(l1); vset(m, 0, 32);
        crypto_secretbox(t, m, l1, b[2], b[3]); vcpy(b[1], t, l1); free(t); free(m); }
    else vset(b[1], 0, vmin(16, l1));
}
static int c_crypto_secretbox_open_nacl(A) { return crypto_secretbox_open(b[0], b[1], l1, b[2], b[3]); }

/* box: pk/sk valid when cm == 1 */
static void mk_pk(unsigned char *pk) { unsigned char sk[32]; crypto_box_keypair(pk, sk); }
static int c_crypto_box_keypair(A) { return crypto_box_keypair(b[0], b[1]); }
static int c_crypto_box_seed_keypair(A) { return crypto_box_seed_keypair(b[0], b[1], b[2]); }
static void p_crypto_box_beforenm(A) { if (cm == 1) mk_pk(b[1]); }
static int c_crypto_box_beforenm(A) { return crypto_box_beforenm(b[0], b[1], b[2]); }
#define BOX(P) \
static void p_##P##_easy(A) { if (cm == 1) mk_pk(b[3]); } \
static int c_##P##_easy(A) { return P##_easy(b[0], b[1], l1, b[2], b[3], b[4]); } \
static void p_##P##_open_easy(A) { if (cm == 1) { unsigned char *m = tmp_rand(l1), *t = (unsigned char *) malloc(l1 + 16), spk[32], ssk[32], rpk[32]; \
    P##_keypair(spk, ssk); crypto_scalarmult_base(rpk, b[4]); P##_easy(t, m, l1, b[2], rpk, ssk); vcpy(b[1], t, l1 + 16); vcpy(b[3], spk, 32); free(t); free(m); } } \
static int c_##P##_open_easy(A) { return P##_open_easy(b[0], b[1], l1 + 16, b[2], b[3], b[4]); } \
static int c_##P##_easy_afternm(A) { return P##_easy_afternm(b[0], b[1], l1, b[2], b[3]); } \
static void p_##P##_open_easy_afternm(A) { if (cm == 1) { unsigned char *m = tmp_rand(l1), *t = (unsigned char *) malloc(l1 + 16); \
    P##_easy_afternm(t, m, l1, b[2], b[3]); vcpy(b[1], t, l1 + 16); free(t); free(m); } } \
static int c_##P##_open_easy_afternm(A) { return P##_open_easy_afternm(b[0], b[1], l1 + 16, b[2], b[3]); } \
static void p_##P##_detached(A) { if (cm == 1) mk_pk(b[4]); } \
static int c_##P##_detached(A) { return P##_detached(b[0], b[1], b[2], l1, b[3], b[4], b[5]); } \
static void p_##P##_open_detached(A) { if (cm == 1) { unsigned char *m = tmp_rand(l1), *t = (unsigned char *) malloc(l1 + 1), mac[16], spk[32], ssk[32], rpk[32]; \
    P##_keypair(spk, ssk); crypto_scalarmult_base(rpk, b[5]); P##_detached(t, mac, m, l1, b[3], rpk, ssk); vcpy(b[1], t, l1); vcpy(b[2], mac, 16); vcpy(b[4], spk, 32); free(t); free(m); } } \
static int c_##P##_open_detached(A) { return P##_open_detached(b[0], b[1], b[2], l1, b[3], b[4], b[5]); } \
static void p_##P##_seal(A) { if (cm == 1) mk_pk(b[2]); } \
static int c_##P##_seal(A) { return P##_seal(b[0], b[1], l1, b[2]); } \
static void p_##P##_seal_open(A) { if (cm == 1) { unsigned char *m = tmp_rand(l1), *t = (unsigned char *) malloc(l1 + 48), rpk[32]; \
    crypto_scalarmult_base(rpk, b[3]); P##_seal(t, m, l1, rpk); vcpy(b[1], t, l1 + 48); vcpy(b[2], rpk, 32); free(t); free(m); } } \
static int c_##P##_seal_open(A) { return P##_seal_open(b[0], b[1], l1 + 48, b[2], b[3]); } \
static int c_##P##_seal_open_short(A) { return P##_seal_open(b[0], b[1], l1, b[2], b[3]); }
BOX(crypto_box)
BOX(crypto_box_curve25519xchacha20poly1305)

/* AEADs */
#ifndef CM_AVAIL_DEFINED
static int cm_avail = 1;
#endif
#define AEAD(P, AB, AVAIL) \
static void p_##P##_encrypt(A) { cm_avail = (AVAIL); } \
static int c_##P##_encrypt(A) { return P##_encrypt(b[0], (ULL *) (void *) b[1], b[2], l1, b[3], l2, NULL, b[4], b[5]); } \
static int c_##P##_encrypt_nolen(A) { return P##_encrypt(b[0], NULL, b[1], l1, b[2], l2, NULL, b[3], b[4]); } \
static void p_##P##_decrypt(A) { cm_avail = (AVAIL); if (cm_avail && cm == 1) { unsigned char *m = tmp_rand(l1), *t = (unsigned char *) malloc(l1 + AB); \
    P##_encrypt(t, NULL, m, l1, b[3], l2, NULL, b[4], b[5]); vcpy(b[2], t, l1 + AB); free(t); free(m); } } \
static int c_##P##_decrypt(A) { return P##_decrypt(b[0], (ULL *) (void *) b[1], NULL, b[2], l1 + AB, b[3], l2, b[4], b[5]); } \
static void p_##P##_decrypt_short(A) { cm_avail = (AVAIL); } \
static int c_##P##_decrypt_short(A) { return P##_decrypt(b[0], (ULL *) (void *) b[1], NULL, b[2], l1, b[3], l2, b[4], b[5]); } \
static int c_##P##_encrypt_detached(A) { return P##_encrypt_detached(b[0], b[1], (ULL *) (void *) b[2], b[3], l1, b[4], l2, NULL, b[5], b[6]); } \
static void p_##P##_decrypt_detached(A) { cm_avail = (AVAIL); if (cm_avail && cm == 1) { unsigned char *m = tmp_rand(l1), *t = (unsigned char *) malloc(l1 + 1), mac[AB]; \
    P##_encrypt_detached(t, mac, NULL, m, l1, b[3], l2, NULL, b[4], b[5]); vcpy(b[1], t, l1); vcpy(b[2], mac, AB); free(t); free(m); } } \
static int c_##P##_decrypt_detached(A) { return P##_decrypt_detached(b[0], NULL, b[1], l1, b[2], b[3], l2, b[4], b[5]); }
#define AEADVO(P, AB, AVAIL) \
static void p_##P##_decrypt_verifyonly(A) { cm_avail = (AVAIL); if (cm_avail && cm == 1) { unsigned char *m = tmp_rand(l1), *t = (unsigned char *) malloc(l1 + AB); \
    P##_encrypt(t, NULL, m, l1, b[2], l2, NULL, b[3], b[4]); vcpy(b[1], t, l1 + AB); free(t); free(m); } } \
static int c_##P##_decrypt_verifyonly(A) { return P##_decrypt(NULL, (ULL *) (void *) b[0], NULL, b[1], l1 + AB, b[2], l2, b[3], b[4]); } \
static void p_##P##_decrypt_detached_verifyonly(A) { cm_avail = (AVAIL); if (cm_avail && cm == 1) { unsigned char *m = tmp_rand(l1), *t = (unsigned char *) malloc(l1 + 1), mac[AB]; \
    P##_encrypt_detached(t, mac, NULL, m, l1, b[2], l2, NULL, b[3], b[4]); vcpy(b[0], t, l1); vcpy(b[1], mac, AB); free(t); free(m); } } \
static int c_##P##_decrypt_detached_verifyonly(A) { return P##_decrypt_detached(NULL, NULL, b[0], l1, b[1], b[2], l2, b[3], b[4]); }
AEAD(crypto_aead_chacha20poly1305, 16, 1)
AEADVO(crypto_aead_chacha20poly1305, 16, 1) AEADVO(crypto_aead_chacha20poly1305_ietf, 16, 1) AEADVO(crypto_aead_xchacha20poly1305_ietf, 16, 1)
AEADVO(crypto_aead_aes256gcm, 16, crypto_aead_aes256gcm_is_available())
AEAD(crypto_aead_chacha20poly1305_ietf, 16, 1)
AEAD(crypto_aead_xchacha20poly1305_ietf, 16, 1)
AEAD(crypto_aead_aes256gcm, 16, crypto_aead_aes256gcm_is_available())
AEAD(crypto_aead_aegis128l, 32, 1)
AEAD(crypto_aead_aegis256, 32, 1)
static void p_crypto_aead_aes256gcm_beforenm(A) { cm_avail = crypto_aead_aes256gcm_is_available(); }
static int c_crypto_aead_aes256gcm_beforenm(A) { return crypto_aead_aes256gcm_beforenm((crypto_aead_aes256gcm_state *) (void *) b[0], b[1]); }
static void p_crypto_aead_aes256gcm_encrypt_afternm(A) { cm_avail = crypto_aead_aes256gcm_is_available();
    if (cm_avail) { unsigned char k[32]; vrng_bytes(&rng, k, 32); crypto_aead_aes256gcm_beforenm((crypto_aead_aes256gcm_state *) (void *) b[5], k); } }
static int c_crypto_aead_aes256gcm_encrypt_afternm(A) { return crypto_aead_aes256gcm_encrypt_afternm(b[0], (ULL *) (void *) b[1], b[2], l1, b[3], l2, NULL, b[4], (const crypto_aead_aes256gcm_state *) (void *) b[5]); }
static void p_crypto_aead_aes256gcm_decrypt_afternm(A) { cm_avail = crypto_aead_aes256gcm_is_available();
    if (cm_avail) { unsigned char k[32]; vrng_bytes(&rng, k, 32); crypto_aead_aes256gcm_beforenm((crypto_aead_aes256gcm_state *) (void *) b[5], k);
        if (cm == 1) { unsigned char *m = tmp_rand(l1), *t = (unsigned char *) malloc(l1 + 16); crypto_aead_aes256gcm_encrypt(t, NULL, m, l1, b[3], l2, NULL, b[4], k); vcpy(b[2], t, l1 + 16); free(t); free(m); } } }
static int c_crypto_aead_aes256gcm_decrypt_afternm(A) { return crypto_aead_aes256gcm_decrypt_afternm(b[0], (ULL *) (void *) b[1], NULL, b[2], l1 + 16, b[3], l2, b[4], (const crypto_aead_aes256gcm_state *) (void *) b[5]); }

/* secretstream */
#define SS(x) crypto_secretstream_xchacha20poly1305_##x
static int c_crypto_secretstream_xchacha20poly1305_init_push(A) { return SS(init_push)((SS(state) *) (void *) b[0], b[1], b[2]); }
static int c_crypto_secretstream_xchacha20poly1305_init_pull(A) { return SS(init_pull)((SS(state) *) (void *) b[0], b[1], b[2]); }
static void p_crypto_secretstream_xchacha20poly1305_push(A) { unsigned char h[24], k[32]; vrng_bytes(&rng, k, 32); SS(init_push)((SS(state) *) (void *) b[0], h, k); }
static int c_crypto_secretstream_xchacha20poly1305_push(A) { return SS(push)((SS(state) *) (void *) b[0], b[1], (ULL *) (void *) b[2], b[3], l1, b[4], l2, (unsigned char) (cm == 1 ? 3 : 0)); }
static void p_crypto_secretstream_xchacha20poly1305_pull(A) {
    unsigned char h[24], k[32]; SS(state) s; vrng_bytes(&rng, k, 32); SS(init_push)(&s, h, k);
    if (cm == 1) { unsigned char *m = tmp_rand(l1), *t = (unsigned char *) malloc(l1 + 17); SS(push)(&s, t, NULL, m, l1, b[5], l2, 2); vcpy(b[4], t, l1 + 17); free(t); free(m); }
    SS(init_pull)((SS(state) *) (void *) b[0], h, k);
}
static int c_crypto_secretstream_xchacha20poly1305_pull(A) { return SS(pull)((SS(state) *) (void *) b[0], b[1], (ULL *) (void *) b[2], b[3], b[4], l1 + 17, b[5], l2); }
static int c_crypto_secretstream_xchacha20poly1305_pull_short(A) { return SS(pull)((SS(state) *) (void *) b[0], b[1], (ULL *) (void *) b[2], b[3], b[4], l1, NULL, 0); }
static void p_crypto_secretstream_xchacha20poly1305_rekey(A) { p_crypto_secretstream_xchacha20poly1305_push(b, sz, l1, l2, cm); }
static int c_crypto_secretstream_xchacha20poly1305_rekey(A) { SS(rekey)((SS(state) *) (void *) b[0]); return 0; }

#define FN_STREAM(P) E(P, 3), E(P##_xor, 4)
#define FN_SBOX(P) E(P##_easy, 4), EP(P##_open_easy, 4), E(P##_open_easy_short, 4), E(P##_detached, 5), EP(P##_open_detached, 5)
#define FN_BOX(P) EP(P##_easy, 5), EP(P##_open_easy, 5), E(P##_easy_afternm, 4), EP(P##_open_easy_afternm, 4), EP(P##_detached, 6), EP(P##_open_detached, 6), \
    EP(P##_seal, 3), EP(P##_seal_open, 4), E(P##_seal_open_short, 4)
#define FN_AEAD(P) EP(P##_encrypt, 6), { #P "_encrypt_nolen", 5, p_##P##_encrypt, c_##P##_encrypt_nolen }, EP(P##_decrypt, 6), EP(P##_decrypt_short, 6), \
    { #P "_encrypt_detached", 7, p_##P##_encrypt, c_##P##_encrypt_detached }, EP(P##_decrypt_detached, 6)
#define FN_AEADVO(P) EP(P##_decrypt_verifyonly, 5), EP(P##_decrypt_detached_verifyonly, 5)
#define FNS_CIPHER \
    FN_AEADVO(crypto_aead_chacha20poly1305), FN_AEADVO(crypto_aead_chacha20poly1305_ietf), FN_AEADVO(crypto_aead_xchacha20poly1305_ietf), FN_AEADVO(crypto_aead_aes256gcm), \
    FN_STREAM(crypto_stream_chacha20), E(crypto_stream_chacha20_xor_ic, 4), FN_STREAM(crypto_stream_chacha20_ietf), E(crypto_stream_chacha20_ietf_xor_ic, 4), \
    FN_STREAM(crypto_stream_xchacha20), E(crypto_stream_xchacha20_xor_ic, 4), FN_STREAM(crypto_stream_salsa20), E(crypto_stream_salsa20_xor_ic, 4), \
    FN_STREAM(crypto_stream_xsalsa20), E(crypto_stream_xsalsa20_xor_ic, 4), FN_STREAM(crypto_stream_salsa2012), FN_STREAM(crypto_stream_salsa208), FN_STREAM(crypto_stream), \
    FN_SBOX(crypto_secretbox), FN_SBOX(crypto_secretbox_xchacha20poly1305), EP(crypto_secretbox_nacl, 4), EP(crypto_secretbox_open_nacl, 4), \
    E(crypto_box_keypair, 2), E(crypto_box_seed_keypair, 3), EP(crypto_box_beforenm, 3), FN_BOX(crypto_box), FN_BOX(crypto_box_curve25519xchacha20poly1305), \
    FN_AEAD(crypto_aead_chacha20poly1305), FN_AEAD(crypto_aead_chacha20poly1305_ietf), FN_AEAD(crypto_aead_xchacha20poly1305_ietf), \
    FN_AEAD(crypto_aead_aes256gcm), FN_AEAD(crypto_aead_aegis128l), FN_AEAD(crypto_aead_aegis256), \
    EP(crypto_aead_aes256gcm_beforenm, 2), EP(crypto_aead_aes256gcm_encrypt_afternm, 6), EP(crypto_aead_aes256gcm_decrypt_afternm, 6), \
    E(crypto_secretstream_xchacha20poly1305_init_push, 3), E(crypto_secretstream_xchacha20poly1305_init_pull, 3), \
    EP(crypto_secretstream_xchacha20poly1305_push, 5), EP(crypto_secretstream_xchacha20poly1305_pull, 6), \
    { "crypto_secretstream_xchacha20poly1305_pull_short", 5, p_crypto_secretstream_xchacha20poly1305_pull, c_crypto_secretstream_xchacha20poly1305_pull_short }, \
    EP(crypto_secretstream_xchacha20poly1305_rekey, 1)
