/* Password hashing driver (C08): raw Argon2i/Argon2id hashes at small costs, out-of-range parameters, hash strings
 * (creation, verification with the same and another password, needs_rehash), mutated and foreign strings, scrypt
 * low-level hashes, scrypt strings and parameter selection; NDJSON for spec/trace/OraclePwhash.tla.
 *   pwhash_driver <seed> <mode> <out.ndjson>                                                   */
#include "common.h"
static vrng R;
static void e8(const char *k, unsigned long long v) { unsigned char b[8]; for (int i = 0; i < 8; i++) b[i] = (unsigned char) (v >> (8 * i)); v_emit_bytes(k, b, 8); }
static void raw(int type, size_t pl, unsigned long long t, size_t mKiB, size_t ol) {
    unsigned char pwd[128], salt[16], out[160]; vrng_bytes(&R, pwd, pl); vrng_bytes(&R, salt, 16); memset(out, 0xcc, sizeof out);
    int r = crypto_pwhash(out, ol, (const char *) pwd, pl, salt, t, mKiB * 1024, type == 2 ? crypto_pwhash_ALG_ARGON2ID13 : crypto_pwhash_ALG_ARGON2I13);
    unsigned char o2[160]; int r2 = type == 2 ? crypto_pwhash_argon2id(o2, ol, (const char *) pwd, pl, salt, t, mKiB * 1024 + 1023, crypto_pwhash_argon2id_ALG_ARGON2ID13) : crypto_pwhash_argon2i(o2, ol, (const char *) pwd, pl, salt, t, mKiB * 1024 + 5, crypto_pwhash_argon2i_ALG_ARGON2I13);
    fprintf(v_out, "{\"op\":\"argon2_raw\",\"type\":%d,", type); v_emit_bytes("pwd", pwd, pl); fputc(',', v_out); v_emit_bytes("salt", salt, 16);
    fprintf(v_out, ",\"t\":%llu,\"m\":%zu,\"ret\":%d,\"same\":%s,", t, mKiB, r, (r == r2 && !memcmp(out, o2, ol)) ? "true" : "false"); v_emit_bytes("out", out, ol); fputs("}\n", v_out);
}
static void limit(const char *alg, const char *field, unsigned long long outlen, unsigned long long pl, unsigned long long ops, unsigned long long mem) {
    static unsigned char out[64], salt[32]; int r; errno = 0;
    if (!strcmp(alg, "argon2id")) r = crypto_pwhash_argon2id(out, outlen, "x", pl, salt, ops, (size_t) mem, crypto_pwhash_argon2id_ALG_ARGON2ID13);
    else if (!strcmp(alg, "argon2i")) r = crypto_pwhash_argon2i(out, outlen, "x", pl, salt, ops, (size_t) mem, crypto_pwhash_argon2i_ALG_ARGON2I13);
    else if (!strcmp(alg, "generic")) r = crypto_pwhash(out, outlen, "x", pl, salt, ops, (size_t) mem, crypto_pwhash_ALG_DEFAULT);
    else r = crypto_pwhash_scryptsalsa208sha256(out, outlen, "x", pl, salt, ops, (size_t) mem);
    fprintf(v_out, "{\"op\":\"limit\",\"alg\":\"%s\",\"field\":\"%s\",", alg, field); e8("outlen", outlen); fputc(',', v_out); e8("pwdlen", pl); fputc(',', v_out); e8("ops", ops); fputc(',', v_out); e8("mem", mem); fprintf(v_out, ",\"ret\":%d}\n", r);
}
static void str_case(const char *kind, const char *s, const char *pw, size_t pl, unsigned long long ops, size_t memKiB) {
    int type = !strncmp(s, "$argon2id$", 10) ? 2 : !strncmp(s, "$argon2i$", 9) ? 1 : 0;
    int vg = crypto_pwhash_str_verify(s, pw, pl), vi = crypto_pwhash_argon2i_str_verify(s, pw, pl), vd = crypto_pwhash_argon2id_str_verify(s, pw, pl);
    int ng = crypto_pwhash_str_needs_rehash(s, ops, memKiB * 1024), ni = crypto_pwhash_argon2i_str_needs_rehash(s, ops, memKiB * 1024), nd = crypto_pwhash_argon2id_str_needs_rehash(s, ops, memKiB * 1024);
    fprintf(v_out, "{\"op\":\"str_case\",\"kind\":\"%s\",\"dispatch\":%d,", kind, type); v_emit_bytes("str", (const unsigned char *) s, strlen(s)); fputc(',', v_out); v_emit_bytes("pwd", (const unsigned char *) pw, pl);
    fprintf(v_out, ",\"ops\":%llu,\"memKiB\":%zu,\"v_generic\":%d,\"v_i\":%d,\"v_id\":%d,\"nr_generic\":%d,\"nr_i\":%d,\"nr_id\":%d}\n", ops, memKiB, vg, vi, vd, ng, ni, nd);
}
int main(int argc, char **argv) {
    if (argc < 4) return 3;
    vrng_seed(&R, strtoull(argv[1], NULL, 10), 8); int full = !strcmp(argv[2], "full");
    v_open(argv[3]); v_install_seeded_random(strtoull(argv[1], NULL, 10) + 5); if (sodium_init() < 0) return 3; v_install_crash_handlers();
    /* ---- raw hashes: segment-length edge cases of the memory size, 1..4 passes, several output and password lengths */
    static const size_t MQ[] = { 8, 9, 11, 12, 15, 16, 17, 31, 32, 33 }, MF[] = { 8, 9, 10, 11, 12, 13, 15, 16, 17, 23, 24, 31, 32, 33, 47, 48, 63, 64, 65, 100, 127, 128, 256, 1024 };
    static const size_t OL[] = { 32, 16, 33, 64, 65, 128, 17, 48 }, PL[] = { 8, 0, 1, 100, 31, 64 };
    size_t nm = full ? sizeof MF / sizeof MF[0] : sizeof MQ / sizeof MQ[0];
    for (size_t i = 0; i < nm; i++) { size_t m = full ? MF[i] : MQ[i];
        raw(2, PL[i % 6], 1 + i % (full ? 4 : 2), m, OL[i % 8]); raw(1, PL[(i + 2) % 6], 3 + i % 2, m, OL[(i + 3) % 8]);
        if (full && m <= 64) { raw(2, 8, 4, m, 32); raw(2, 8, 2, m, 64); } }
    /* ---- out-of-range parameters must be refused */
    { unsigned long long big = 4294967296ULL;
      const char *algs[] = { "argon2id", "argon2i", "generic" };
      for (int a = 0; a < 3; a++) { unsigned long long omin = a == 1 ? 3 : 1;
        limit(algs[a], "ok", 16, 1, omin, 8192); limit(algs[a], "outlen", 15, 1, omin, 8192); limit(algs[a], "outlen", 0, 1, omin, 8192);
        limit(algs[a], "ops", 16, 1, omin - 1, 8192); limit(algs[a], "ops", 16, 1, big, 8192); limit(algs[a], "mem", 16, 1, omin, 8191); limit(algs[a], "mem", 16, 1, omin, 4398046510081ULL);
        limit(algs[a], "pwdlen", 16, big, omin, 8192); }
      limit("scrypt", "ok", 16, 1, 32768, 16777216); limit("scrypt", "outlen", 15, 1, 32768, 16777216); limit("scrypt", "ops", 16, 1, 32767, 16777216); limit("scrypt", "mem", 16, 1, 32768, 16777215);
      /* (opslimit above OPSLIMIT_MAX is not probed for scrypt: the library accepts it and then runs for minutes - see known finding F5) */
      limit("scrypt", "mem", 16, 1, 32768, 68719476737ULL); }
    /* ---- hash strings */
    for (int i = 0; i < (full ? 8 : 3); i++) {
        char s[crypto_pwhash_STRBYTES], pw[40], s2[crypto_pwhash_STRBYTES + 8]; size_t pl = 4 + (size_t) i * 3; vrng_bytes(&R, (unsigned char *) pw, pl); for (size_t j = 0; j < pl; j++) pw[j] = (char) ('a' + ((unsigned char) pw[j] % 26));
        int type = i % 2 ? 1 : 2; unsigned long long ops = type == 1 ? 3 + (unsigned) i / 2 : 1 + (unsigned) i / 2; size_t mk = (size_t[]) { 8, 9, 16, 12, 33, 8, 20, 64 }[i];
        int r = type == 2 ? crypto_pwhash_str(s, pw, pl, ops, mk * 1024) : crypto_pwhash_argon2i_str(s, pw, pl, ops, mk * 1024);
        fprintf(v_out, "{\"op\":\"pwhash_str\",\"type\":%d,\"ret\":%d,\"ops\":%llu,\"memKiB\":%zu,", type, r, ops, mk); v_emit_bytes("pwd", (const unsigned char *) pw, pl); fputc(',', v_out); v_emit_bytes("str", (const unsigned char *) s, strlen(s));
        fprintf(v_out, ",\"tail_zero\":%s}\n", sodium_is_zero((unsigned char *) s + strlen(s), crypto_pwhash_STRBYTES - strlen(s)) ? "true" : "false");
        str_case("valid", s, pw, pl, ops, mk); pw[0] ^= 1; str_case("other_password", s, pw, pl, ops, mk); pw[0] ^= 1; str_case("longer_password", s, pw, pl + 1, ops, mk); str_case("rehash_ops", s, pw, pl, ops + 1, mk); str_case("rehash_mem", s, pw, pl, ops, mk * 2);
        /* mutations: one per grammar position */
        size_t L = strlen(s);
        if (i < 2 || full) {
            for (size_t pos = 0; pos < L; pos += (pos < 40 ? 1 : 3)) {
                memcpy(s2, s, L + 1); s2[pos] = (char) (s2[pos] == 'A' ? 'B' : 'A'); str_case("replace_A", s2, pw, pl, ops, mk);
                if (pos % 4 == 0) { memcpy(s2, s, pos); memcpy(s2 + pos, s + pos + 1, L - pos); str_case("drop_char", s2, pw, pl, ops, mk);                                 /* drop */
                    memcpy(s2, s, pos); s2[pos] = '0'; memcpy(s2 + pos + 1, s + pos, L - pos + 1); str_case("insert_0", s2, pw, pl, ops, mk); }               /* insert (also makes decimals non-minimal) */
                if (s[pos] == '$' || s[pos] == ',') { memcpy(s2, s, pos); s2[pos] = 0; str_case("truncate", s2, pw, pl, ops, mk); }
            }
            memcpy(s2, s, L + 1); s2[L] = 'A'; s2[L + 1] = 0; str_case("append_A", s2, pw, pl, ops, mk); s2[L] = '='; str_case("append_eq", s2, pw, pl, ops, mk); s2[L] = (char) 0xff; str_case("append_ff", s2, pw, pl, ops, mk);
            s2[L] = ' '; str_case("append_space", s2, pw, pl, ops, mk); s2[L] = '$'; str_case("append_dollar", s2, pw, pl, ops, mk);
            { char *v = strstr(s, "v=19"); memcpy(s2, s, L + 1); s2[v - s + 3] = '6'; str_case("v16", s2, pw, pl, ops, mk); }
            { char *v = strstr(s, "p=1"); memcpy(s2, s, L + 1); s2[v - s + 2] = '2'; str_case("p2_same_hash", s2, pw, pl, ops, mk); s2[v - s + 2] = '0'; str_case("p0", s2, pw, pl, ops, mk); }
            { char *v = strchr(s + 1, '$'); size_t k = (size_t) (v - s); memcpy(s2, s, L + 1); if (type == 2) { memmove(s2 + k - 1, s2 + k, L - k + 1); str_case("id_to_i", s2, pw, pl, ops, mk); } else { memmove(s2 + k + 1, s2 + k, L - k + 1); s2[k] = 'd'; str_case("i_to_id", s2, pw, pl, ops, mk); } }
            /* decimal fields rewritten to values outside 32 bits: d + 2^32, d + 3*2^32 (wrap to d in a uint32_t), 2^64 + d, 20 nines */
            { static const char *fld[] = { "v=", "m=", "t=", "p=" };
              for (int fi = 0; fi < 4; fi++) { char *v = strstr(s, fld[fi]); if (!v) continue; size_t a = (size_t) (v - s) + 2, e = a; while (s[e] >= '0' && s[e] <= '9') e++;
                  unsigned long long dv = strtoull(s + a, NULL, 10); char num[4][32];
                  snprintf(num[0], 32, "%llu", dv + 4294967296ULL); snprintf(num[1], 32, "%llu", dv + 3ULL * 4294967296ULL); snprintf(num[2], 32, "1844674407370955%04llu", 1616ULL + dv); snprintf(num[3], 32, "99999999999999999999");
                  for (int w = 0; w < 4; w++) { if (a + strlen(num[w]) + (L - e) + 1 > sizeof s2) continue; memcpy(s2, s, a); strcpy(s2 + a, num[w]); strcat(s2, s + e); str_case("decimal_out_of_range", s2, pw, pl, ops, mk); }
                  /* every lexical variant of the decimal: leading zero(s), sign, blanks, empty, hex, trailing letter, zero, +-1 */
                  { char var[12][40]; int nv = 0;
                    snprintf(var[nv++], 40, "0%llu", dv); snprintf(var[nv++], 40, "00%llu", dv); snprintf(var[nv++], 40, "+%llu", dv); snprintf(var[nv++], 40, "-%llu", dv);
                    snprintf(var[nv++], 40, " %llu", dv); snprintf(var[nv++], 40, "%llu ", dv); var[nv++][0] = 0; snprintf(var[nv++], 40, "0x%llx", dv); snprintf(var[nv++], 40, "%llua", dv);
                    snprintf(var[nv++], 40, "0"); snprintf(var[nv++], 40, "%llu", dv + 1); snprintf(var[nv++], 40, "%llu", dv ? dv - 1 : 0);
                    for (int w = 0; w < nv; w++) { if (a + strlen(var[w]) + (L - e) + 1 > sizeof s2) continue; memcpy(s2, s, a); strcpy(s2 + a, var[w]); strcat(s2, s + e); str_case("decimal_variant", s2, pw, pl, ops, mk); } } } }
            { char *sl = strchr(s, '/'); if (sl) { memcpy(s2, s, L + 1); s2[sl - s] = (char) 0xff; str_case("slash_to_ff", s2, pw, pl, ops, mk); } }
        }
    }
    str_case("empty", "", "password", 8, 1, 8); str_case("dollar", "$", "password", 8, 1, 8); str_case("other_prefix", "$7$C6..../....SodiumChloride$kBGj9fHznVYFQMEn/qDCfrDevf9YDtcDdKvEqHJLV8D", "password", 8, 1, 8);
    { char longs[200]; memset(longs, 'A', 199); longs[199] = 0; memcpy(longs, "$argon2id$v=19$m=8,t=1,p=1$", 27); str_case("too_long", longs, "password", 8, 1, 8); longs[127] = 0; str_case("len127", longs, "password", 8, 1, 8); longs[126] = 0; str_case("len126", longs, "password", 8, 1, 8); }
    /* foreign strings computed from the specification for several lanes (see DESIGN): must verify */
    str_case("foreign_p2", "$argon2id$v=19$m=16,t=1,p=2$MDEyMzQ1Njc4OWFiY2RlZg$lWJkGzrKQkL7Hj9MnA4oOG4F1SwwUdMA1agUMtPMvNU", "password", 8, 1, 16);
    str_case("foreign_p3", "$argon2i$v=19$m=24,t=3,p=3$MDEyMzQ1Njc4OWFiY2RlZg$l0yl3g8SUdGqLnwJbnWKxmITDSvetlWqG09TSgVCNdY", "password", 8, 3, 24);
    str_case("foreign_p4", "$argon2id$v=19$m=40,t=2,p=4$MDEyMzQ1Njc4OWFiY2RlZg$b7yP4dkX5vUgUmjCoG6OBRWsMRg", "password", 8, 2, 40);
    /* strings whose hash is right for their parameters but whose salt (4 bytes) or hash (12 bytes) is shorter than the format allows: malformed */
    str_case("foreign_short_salt", "$argon2id$v=19$m=8,t=1,p=1$YWJjZA$E1wxSL/oMDAQgWmUA7t+1LTCYfZmu6BTSTUzEXBJscY", "password", 8, 1, 8);
    str_case("foreign_short_hash", "$argon2id$v=19$m=8,t=1,p=1$MDEyMzQ1Njc4OWFiY2RlZg$l+0x6AKz9jFUGavn", "password", 8, 1, 8);
    /* tags of 96, 257 and 300 bytes (178 .. 450 characters, longer than anything crypto_pwhash_str produces): as other implementations
     * write them; verification has no length limit */
    { static const size_t TL[3] = { 96, 257, 300 }; unsigned char raw[300], salt[16]; char s64[40], h64[420], ls[520], kind[64]; memcpy(salt, "0123456789abcdef", 16);
      for (int i = 0; i < 3; i++) if (crypto_pwhash(raw, TL[i], "password", 8, salt, 1, 8192, crypto_pwhash_ALG_ARGON2ID13) == 0) {
          sodium_bin2base64(s64, sizeof s64, salt, 16, sodium_base64_VARIANT_ORIGINAL_NO_PADDING); sodium_bin2base64(h64, sizeof h64, raw, TL[i], sodium_base64_VARIANT_ORIGINAL_NO_PADDING);
          snprintf(ls, sizeof ls, "$argon2id$v=19$m=8,t=1,p=1$%s$%s", s64, h64);
          snprintf(kind, sizeof kind, "foreign_long_tag_%zu", TL[i]); str_case(kind, ls, "password", 8, 1, 8);
          if (i == 0) { str_case("foreign_long_tag_wrong_pw", ls, "passwore", 8, 1, 8); ls[strlen(ls) - 3] ^= 1; str_case("foreign_long_tag_altered", ls, "password", 8, 1, 8); } } }
    str_case("foreign_p2_wrong_pw", "$argon2id$v=19$m=16,t=1,p=2$MDEyMzQ1Njc4OWFiY2RlZg$lWJkGzrKQkL7Hj9MnA4oOG4F1SwwUdMA1agUMtPMvNU", "passwore", 8, 1, 16);
    str_case("foreign_m_too_small_for_p", "$argon2id$v=19$m=15,t=1,p=2$MDEyMzQ1Njc4OWFiY2RlZg$lWJkGzrKQkL7Hj9MnA4oOG4F1SwwUdMA1agUMtPMvNU", "password", 8, 1, 15);
    /* ---- scrypt */
    for (int i = 0; i < (full ? 14 : 7); i++) { unsigned char pwd[80], salt[40], out[128]; size_t pl = (size_t) i * 5, sl = 8 + (size_t) i; vrng_bytes(&R, pwd, pl); vrng_bytes(&R, salt, sl);
        uint64_t N = (uint64_t) 1 << (1 + i % (full ? 7 : 5)); uint32_t r = (uint32_t[]) { 1, 2, 8, 1, 3 }[i % 5], p = 1 + (uint32_t) i % 2; size_t ol = 16 + (size_t) i * 7;
        int ret = crypto_pwhash_scryptsalsa208sha256_ll(pwd, pl, salt, sl, N, r, p, out, ol);
        fprintf(v_out, "{\"op\":\"scrypt_ll\",\"N\":%llu,\"r\":%u,\"p\":%u,\"ret\":%d,", (unsigned long long) N, r, p, ret); v_emit_bytes("pwd", pwd, pl); fputc(',', v_out); v_emit_bytes("salt", salt, sl); fputc(',', v_out); v_emit_bytes("out", out, ol); fputs("}\n", v_out); }
    { unsigned char out[16]; int r1 = crypto_pwhash_scryptsalsa208sha256_ll((const unsigned char *) "p", 1, (const unsigned char *) "s", 1, 3, 1, 1, out, 16), r2 = crypto_pwhash_scryptsalsa208sha256_ll((const unsigned char *) "p", 1, (const unsigned char *) "s", 1, 1, 1, 1, out, 16), r3 = crypto_pwhash_scryptsalsa208sha256_ll((const unsigned char *) "p", 1, (const unsigned char *) "s", 1, 16, 0, 1, out, 16);
      fprintf(v_out, "{\"op\":\"scrypt_ll_invalid\",\"rets\":[%d,%d,%d]}\n", r1, r2, r3); }
    { static const unsigned long long OPS[] = { 32768, 32768, 65536, 100000, 262144, 32768 }; static const size_t MEM[] = { 16777216, 33554432, 16777216, 20000000, 16777216, 1073741824 };
      for (int i = 0; i < (full ? 6 : 2); i++) { char s[crypto_pwhash_scryptsalsa208sha256_STRBYTES], s2[128];
        int r = crypto_pwhash_scryptsalsa208sha256_str(s, "password", 8, OPS[i], MEM[i]); int vs = crypto_pwhash_scryptsalsa208sha256_str_verify(s, "password", 8), vo = crypto_pwhash_scryptsalsa208sha256_str_verify(s, "passwore", 8);
        int allfail = 1; size_t L = strlen(s); for (size_t pos = 0; pos < L; pos += 9) { memcpy(s2, s, L + 1); s2[pos] = (char) (s2[pos] == 'A' ? 'B' : 'A'); allfail &= crypto_pwhash_scryptsalsa208sha256_str_verify(s2, "password", 8) == -1; }
        memcpy(s2, s, L + 1); s2[L - 1] = 0; allfail &= crypto_pwhash_scryptsalsa208sha256_str_verify(s2, "password", 8) == -1;
        fprintf(v_out, "{\"op\":\"scrypt_str\",\"ret\":%d,\"ops\":%llu,\"mem\":%zu,\"v_same\":%d,\"v_other\":%d,\"mutated_all_fail\":%s,", r, OPS[i], MEM[i], vs, vo, allfail ? "true" : "false"); v_emit_bytes("str", (const unsigned char *) s, L); fputs("}\n", v_out);
        { static const unsigned long long BO[] = { 524288, 524287, 524289, 32768, 1048576, 2097152, 4194304 }; static const size_t BM[] = { 16777216, 16777216, 16777216, 1048576, 33554432, 67108864, 134217728 };
          for (int j = 0; j < 7; j++) { fprintf(v_out, "{\"op\":\"scrypt_nr\",\"ops\":%llu,\"mem\":%zu,\"ret\":%d,", BO[j], BM[j], crypto_pwhash_scryptsalsa208sha256_str_needs_rehash(s, BO[j], BM[j])); v_emit_bytes("str", (const unsigned char *) s, L); fputs("}\n", v_out); } }
        for (int j = 0; j < 6; j++) { unsigned long long o2 = OPS[(i + j) % 6]; size_t m2 = MEM[(i + j) % 6]; memcpy(s2, s, L + 1); if (j == 3) s2[3] = '!'; if (j == 4) s2[L - 1] = 0; if (j == 5) s2[7] = '!';
            fprintf(v_out, "{\"op\":\"scrypt_nr\",\"ops\":%llu,\"mem\":%zu,\"ret\":%d,", o2, m2, crypto_pwhash_scryptsalsa208sha256_str_needs_rehash(s2, o2, m2)); v_emit_bytes("str", (const unsigned char *) s2, strlen(s2)); fputs("}\n", v_out); } } }
    /* ---- $7$ parameter block with digits from every class of the alphabet ./0-9A-Za-z:
     * (a) crafted strings judged by needs_rehash only (no hashing, so any cost is free): p = every first-digit value,
     *     two-digit values, r and N_log2 digits; with the limits that select exactly these parameters and limits one off;
     * (b) cheap foreign strings (N = 2..8, r = 1..2) with p digits from each class, hashed with the low-level API and
     *     encoded here, presented to str_verify with the right and a wrong password. */
    { static const char it[] = "./0123456789ABCDEFGHIJKLMNOPQRSTUVWXYZabcdefghijklmnopqrstuvwxyz";
      char s[128]; unsigned char salt43[43];
      #define ENC5(dst, v) do { uint32_t vv = (v); for (int q_ = 0; q_ < 5; q_++) { (dst)[q_] = it[vv & 63]; vv >>= 6; } } while (0)
      for (unsigned pp = 1; pp <= (full ? 140u : 70u); pp += (pp < 66 ? 1 : 13)) {
          vrng_bytes(&R, salt43, 43); memcpy(s, "$7$", 3); s[3] = it[14]; ENC5(s + 4, 8); ENC5(s + 9, pp);
          for (int j = 0; j < 43; j++) s[14 + j] = it[salt43[j] & 63]; s[57] = '$'; for (int j = 0; j < 43; j++) s[58 + j] = it[(salt43[j] >> 2) & 63]; s[101] = 0;
          unsigned long long ops = (unsigned long long) pp * 8ULL * 16384ULL * 4ULL; if (ops >= 2147483648ULL) continue;
          unsigned long long oo[3] = { ops, ops - 8ULL * 16384ULL * 4ULL, ops + 8ULL * 16384ULL * 4ULL };
          for (int j = 0; j < (pp % 7 == 0 || pp < 3 ? 3 : 1); j++) { if (oo[j] == 0 || oo[j] >= 2147483648ULL) continue;
              fprintf(v_out, "{\"op\":\"scrypt_nr\",\"ops\":%llu,\"mem\":%d,\"ret\":%d,", oo[j], 16777216, crypto_pwhash_scryptsalsa208sha256_str_needs_rehash(s, oo[j], 16777216)); v_emit_bytes("str", (const unsigned char *) s, 101); fputs("}\n", v_out); } }
      for (unsigned d = 0; d < 64; d += (full ? 1 : 3)) {       /* r digit and N_log2 digit */
          memcpy(s, "$7$", 3); s[3] = it[d]; ENC5(s + 4, 8); ENC5(s + 9, 1); memset(s + 14, 'x', 87); s[57] = '$'; s[101] = 0;
          unsigned long long mem = d >= 1 && d <= 19 ? 1024ULL << (d + 1) : 16777216ULL, ops = mem / 32 > 32768 ? mem / 32 : 32768;
          fprintf(v_out, "{\"op\":\"scrypt_nr\",\"ops\":%llu,\"mem\":%llu,\"ret\":%d,", ops, mem, crypto_pwhash_scryptsalsa208sha256_str_needs_rehash(s, ops, (size_t) mem)); v_emit_bytes("str", (const unsigned char *) s, 101); fputs("}\n", v_out);
          s[3] = it[14]; ENC5(s + 4, d);
          fprintf(v_out, "{\"op\":\"scrypt_nr\",\"ops\":%d,\"mem\":%d,\"ret\":%d,", 524288, 16777216, crypto_pwhash_scryptsalsa208sha256_str_needs_rehash(s, 524288, 16777216)); v_emit_bytes("str", (const unsigned char *) s, 101); fputs("}\n", v_out); }
      static const unsigned FP[] = { 40, 12, 2, 63, 38, 1, 104 }; static const unsigned FN[] = { 1, 2, 1, 1, 3, 2, 1 }, FR[] = { 1, 1, 2, 1, 1, 2, 1 };
      for (int i = 0; i < (full ? 7 : 2); i++) { unsigned char h[32]; const char *pw = "correct horse";
          vrng_bytes(&R, salt43, 43); memcpy(s, "$7$", 3); s[3] = it[FN[i]]; ENC5(s + 4, FR[i]); ENC5(s + 9, FP[i]);
          for (int j = 0; j < 43; j++) s[14 + j] = it[salt43[j] & 63]; s[57] = '$';
          crypto_pwhash_scryptsalsa208sha256_ll((const uint8_t *) pw, 13, (const uint8_t *) s + 14, 43, 1ULL << FN[i], FR[i], FP[i], h, 32);
          { int o = 58; for (int j = 0; j < 32;) { uint32_t v = 0, bits = 0; do { v |= (uint32_t) h[j++] << bits; bits += 8; } while (bits < 24 && j < 32); for (uint32_t b2 = 0; b2 < bits; b2 += 6) { s[o++] = it[v & 63]; v >>= 6; } } s[o] = 0; }
          for (int w = 0; w < 3; w++) { char s2[128]; memcpy(s2, s, 102); const char *pw2 = w == 1 ? "correct horsf" : pw; if (w == 2) s2[60] = (char) (s2[60] == 'A' ? 'B' : 'A');
              int v = crypto_pwhash_scryptsalsa208sha256_str_verify(s2, pw2, 13);
              fprintf(v_out, "{\"op\":\"scrypt_foreign\",\"v\":%d,", v); v_emit_bytes("pwd", (const unsigned char *) pw2, 13); fputc(',', v_out); v_emit_bytes("str", (const unsigned char *) s2, strlen(s2)); fputs("}\n", v_out); } } }
    v_close(); return 0;
}
