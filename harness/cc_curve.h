/* C12 call wrappers, part 3: signatures, scalar multiplication, group arithmetic, key exchange */
static int c_crypto_sign_keypair(A) { return crypto_sign_keypair(b[0], b[1]); }
static int c_crypto_sign_seed_keypair(A) { return crypto_sign_seed_keypair(b[0], b[1], b[2]); }
static void mk_sk(unsigned char *sk, unsigned char *pk) { unsigned char p[32]; crypto_sign_keypair(pk ? pk : p, sk); }
static void p_crypto_sign(A) { if (cm == 1) mk_sk(b[3], NULL); }
static int c_crypto_sign(A) { return crypto_sign(b[0], (ULL *) (void *) b[1], b[2], l1, b[3]); }
static void p_crypto_sign_open(A) { if (cm == 1) { unsigned char sk[64], *m = tmp_rand(l1), *t = (unsigned char *) malloc(l1 + 64);
    mk_sk(sk, b[3]); crypto_sign(t, NULL, m, l1, sk); vcpy(b[2], t, l1 + 64); free(t); free(m); } }
static int c_crypto_sign_open(A) { return crypto_sign_open(b[0], (ULL *) (void *) b[1], b[2], l1 + 64, b[3]); }
static void p_crypto_sign_open_verifyonly(A) { if (cm == 1) { unsigned char sk[64], *m = tmp_rand(l1), *t = (unsigned char *) malloc(l1 + 64);
    mk_sk(sk, b[2]); crypto_sign(t, NULL, m, l1, sk); vcpy(b[1], t, l1 + 64); free(t); free(m); } }
static int c_crypto_sign_open_verifyonly(A) { return crypto_sign_open(NULL, (ULL *) (void *) b[0], b[1], l1 + 64, b[2]); }
static int c_crypto_sign_open_short(A) { return crypto_sign_open(b[0], (ULL *) (void *) b[1], b[2], l1, b[3]); }
static void p_crypto_sign_detached(A) { if (cm == 1) mk_sk(b[3], NULL); }
static int c_crypto_sign_detached(A) { return crypto_sign_detached(b[0], (ULL *) (void *) b[1], b[2], l1, b[3]); }
static void p_crypto_sign_verify_detached(A) { if (cm == 1) { unsigned char sk[64], sig[64]; mk_sk(sk, b[2]); crypto_sign_detached(sig, NULL, b[1], l1, sk); vcpy(b[0], sig, 64); } }
static int c_crypto_sign_verify_detached(A) { return crypto_sign_verify_detached(b[0], b[1], l1, b[2]); }
static int c_crypto_sign_multi_create(A) {
    crypto_sign_state *s = (crypto_sign_state *) (void *) b[0]; size_t k = vmin(l2, l1);
    crypto_sign_init(s); crypto_sign_update(s, b[3], k); crypto_sign_update(s, b[3] ? b[3] + k : NULL, l1 - k);
    return crypto_sign_final_create(s, b[1], (ULL *) (void *) b[2], b[4]);
}
static void p_crypto_sign_multi_verify(A) { if (cm == 1) { unsigned char sk[64], sig[64]; crypto_sign_state s; mk_sk(sk, b[3]);
    crypto_sign_init(&s); crypto_sign_update(&s, b[2], l1); crypto_sign_final_create(&s, sig, NULL, sk); vcpy(b[1], sig, 64); } }
static int c_crypto_sign_multi_verify(A) {
    crypto_sign_state *s = (crypto_sign_state *) (void *) b[0];
    crypto_sign_init(s); crypto_sign_update(s, b[2], l1);
    return crypto_sign_final_verify(s, b[1], b[3]);
}
static void p_crypto_sign_ed25519_pk_to_curve25519(A) { if (cm == 1) { unsigned char sk[64]; mk_sk(sk, b[1]); } }
static int c_crypto_sign_ed25519_pk_to_curve25519(A) { return crypto_sign_ed25519_pk_to_curve25519(b[0], b[1]); }
static int c_crypto_sign_ed25519_sk_to_curve25519(A) { return crypto_sign_ed25519_sk_to_curve25519(b[0], b[1]); }
static int c_crypto_sign_ed25519_sk_to_seed(A) { return crypto_sign_ed25519_sk_to_seed(b[0], b[1]); }
static int c_crypto_sign_ed25519_sk_to_pk(A) { return crypto_sign_ed25519_sk_to_pk(b[0], b[1]); }

static void p_crypto_scalarmult(A) { if (cm == 1) mk_pk(b[2]); }
static int c_crypto_scalarmult(A) { return crypto_scalarmult(b[0], b[1], b[2]); }
static int c_crypto_scalarmult_base(A) { return crypto_scalarmult_base(b[0], b[1]); }
static void mk_edpt(unsigned char *p) { unsigned char r[32]; vrng_bytes(&rng, r, 32); crypto_core_ed25519_from_uniform(p, r); }
static void mk_ripoint(unsigned char *p) { unsigned char r[64]; vrng_bytes(&rng, r, 64); crypto_core_ristretto255_from_hash(p, r); }
#define SM(P, MK) \
static void p_##P(A) { if (cm == 1) MK(b[2]); } \
static int c_##P(A) { return P(b[0], b[1], b[2]); }
SM(crypto_scalarmult_ed25519, mk_edpt)
SM(crypto_scalarmult_ed25519_noclamp, mk_edpt)
SM(crypto_scalarmult_ristretto255, mk_ripoint)
static int c_crypto_scalarmult_ed25519_base(A) { return crypto_scalarmult_ed25519_base(b[0], b[1]); }
static int c_crypto_scalarmult_ed25519_base_noclamp(A) { return crypto_scalarmult_ed25519_base_noclamp(b[0], b[1]); }
static int c_crypto_scalarmult_ristretto255_base(A) { return crypto_scalarmult_ristretto255_base(b[0], b[1]); }

#define GRP(G, MK, HB) \
static void p_crypto_core_##G##_is_valid_point(A) { if (cm == 1) MK(b[0]); } \
static int c_crypto_core_##G##_is_valid_point(A) { return crypto_core_##G##_is_valid_point(b[0]) == 1 ? 0 : -1; } \
static void p_crypto_core_##G##_add(A) { if (cm == 1) { MK(b[1]); MK(b[2]); } } \
static int c_crypto_core_##G##_add(A) { return crypto_core_##G##_add(b[0], b[1], b[2]); } \
static void p_crypto_core_##G##_sub(A) { if (cm == 1) { MK(b[1]); MK(b[2]); } } \
static int c_crypto_core_##G##_sub(A) { return crypto_core_##G##_sub(b[0], b[1], b[2]); } \
static int c_crypto_core_##G##_random(A) { crypto_core_##G##_random(b[0]); return 0; } \
static int c_crypto_core_##G##_from_string(A) { return crypto_core_##G##_from_string(b[0], (const char *) b[1], b[2], l1, (int) (1 + cm)); } \
static int c_crypto_core_##G##_from_string_ro(A) { return crypto_core_##G##_from_string_ro(b[0], (const char *) b[1], b[2], l1, (int) (1 + cm)); } \
static int c_crypto_core_##G##_from_string_nullctx(A) { return crypto_core_##G##_from_string(b[0], NULL, b[1], l1, (int) (1 + cm)); } \
static int c_crypto_core_##G##_scalar_random(A) { crypto_core_##G##_scalar_random(b[0]); return 0; } \
static int c_crypto_core_##G##_scalar_invert(A) { return crypto_core_##G##_scalar_invert(b[0], b[1]); } \
static int c_crypto_core_##G##_scalar_negate(A) { crypto_core_##G##_scalar_negate(b[0], b[1]); return 0; } \
static int c_crypto_core_##G##_scalar_complement(A) { crypto_core_##G##_scalar_complement(b[0], b[1]); return 0; } \
static int c_crypto_core_##G##_scalar_add(A) { crypto_core_##G##_scalar_add(b[0], b[1], b[2]); return 0; } \
static int c_crypto_core_##G##_scalar_sub(A) { crypto_core_##G##_scalar_sub(b[0], b[1], b[2]); return 0; } \
static int c_crypto_core_##G##_scalar_mul(A) { crypto_core_##G##_scalar_mul(b[0], b[1], b[2]); return 0; } \
static int c_crypto_core_##G##_scalar_reduce(A) { crypto_core_##G##_scalar_reduce(b[0], b[1]); return 0; }
GRP(ed25519, mk_edpt, 32)
GRP(ristretto255, mk_ripoint, 64)
static int c_crypto_core_ed25519_from_uniform(A) { return crypto_core_ed25519_from_uniform(b[0], b[1]); }
static int c_crypto_core_ristretto255_from_hash(A) { return crypto_core_ristretto255_from_hash(b[0], b[1]); }
static int c_crypto_core_ed25519_scalar_is_canonical(A) { return crypto_core_ed25519_scalar_is_canonical(b[0]) ? 0 : 0; }
static int c_crypto_core_ristretto255_scalar_is_canonical(A) { return crypto_core_ristretto255_scalar_is_canonical(b[0]) ? 0 : 0; }

static int c_crypto_kx_keypair(A) { return crypto_kx_keypair(b[0], b[1]); }
static int c_crypto_kx_seed_keypair(A) { return crypto_kx_seed_keypair(b[0], b[1], b[2]); }
static void p_crypto_kx_client_session_keys(A) { if (cm == 1) mk_pk(b[4]); }
static int c_crypto_kx_client_session_keys(A) { return crypto_kx_client_session_keys(b[0], b[1], b[2], b[3], b[4]); }
static void p_crypto_kx_server_session_keys(A) { if (cm == 1) mk_pk(b[4]); }
static int c_crypto_kx_server_session_keys(A) { return crypto_kx_server_session_keys(b[0], b[1], b[2], b[3], b[4]); }
static int c_crypto_kx_client_session_keys_rxonly(A) { return crypto_kx_client_session_keys(b[0], NULL, b[1], b[2], b[3]); }

#define FN_GRP(G) EP(crypto_core_##G##_is_valid_point, 1), EP(crypto_core_##G##_add, 3), EP(crypto_core_##G##_sub, 3), E(crypto_core_##G##_random, 1), \
    E(crypto_core_##G##_from_string, 3), E(crypto_core_##G##_from_string_ro, 3), E(crypto_core_##G##_from_string_nullctx, 2), \
    E(crypto_core_##G##_scalar_random, 1), E(crypto_core_##G##_scalar_invert, 2), E(crypto_core_##G##_scalar_negate, 2), E(crypto_core_##G##_scalar_complement, 2), \
    E(crypto_core_##G##_scalar_add, 3), E(crypto_core_##G##_scalar_sub, 3), E(crypto_core_##G##_scalar_mul, 3), E(crypto_core_##G##_scalar_reduce, 2), \
    E(crypto_core_##G##_scalar_is_canonical, 1)
#define FNS_CURVE \
    E(crypto_sign_keypair, 2), E(crypto_sign_seed_keypair, 3), EP(crypto_sign, 4), EP(crypto_sign_open, 4), E(crypto_sign_open_short, 4), EP(crypto_sign_open_verifyonly, 3), \
    EP(crypto_sign_detached, 4), EP(crypto_sign_verify_detached, 3), E(crypto_sign_multi_create, 5), EP(crypto_sign_multi_verify, 4), \
    EP(crypto_sign_ed25519_pk_to_curve25519, 2), E(crypto_sign_ed25519_sk_to_curve25519, 2), E(crypto_sign_ed25519_sk_to_seed, 2), E(crypto_sign_ed25519_sk_to_pk, 2), \
    EP(crypto_scalarmult, 3), E(crypto_scalarmult_base, 2), EP(crypto_scalarmult_ed25519, 3), EP(crypto_scalarmult_ed25519_noclamp, 3), EP(crypto_scalarmult_ristretto255, 3), \
    E(crypto_scalarmult_ed25519_base, 2), E(crypto_scalarmult_ed25519_base_noclamp, 2), E(crypto_scalarmult_ristretto255_base, 2), \
    FN_GRP(ed25519), FN_GRP(ristretto255), E(crypto_core_ed25519_from_uniform, 2), E(crypto_core_ristretto255_from_hash, 2), \
    E(crypto_kx_keypair, 2), E(crypto_kx_seed_keypair, 3), EP(crypto_kx_client_session_keys, 5), EP(crypto_kx_server_session_keys, 5), E(crypto_kx_client_session_keys_rxonly, 4)
