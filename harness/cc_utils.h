/* C12 call wrappers, part 4: helpers, codecs, padding, random, password hashing */
static int c_sodium_memcmp(A) { (void) sodium_memcmp(b[0], b[1], l1); return 0; }
static int c_sodium_compare(A) { (void) sodium_compare(b[0], b[1], l1); return 0; }
static void p_sodium_is_zero(A) { if (cm == 1 && b[0]) vset(b[0], 0, l1); }
static int c_sodium_is_zero(A) { return sodium_is_zero(b[0], l1) == (cm == 1 || l1 == 0) ? 0 : -1; }
static int c_sodium_increment(A) { sodium_increment(b[0], l1); return 0; }
static int c_sodium_add(A) { sodium_add(b[0], b[1], l1); return 0; }
static int c_sodium_sub(A) { sodium_sub(b[0], b[1], l1); return 0; }
static int c_sodium_memzero(A) { sodium_memzero(b[0], l1); return 0; }
static int c_sodium_mlock(A) { int r = sodium_mlock(b[0], l1); sodium_munlock(b[0], l1); return r; }
static void p_crypto_verify(A) { if (cm == 1) vcpy(b[1], b[0], sz[0]); }
static int c_crypto_verify_16(A) { return crypto_verify_16(b[0], b[1]); }
static int c_crypto_verify_32(A) { return crypto_verify_32(b[0], b[1]); }
static int c_crypto_verify_64(A) { return crypto_verify_64(b[0], b[1]); }
static int c_randombytes_buf(A) { randombytes_buf(b[0], l1); return 0; }
static int c_randombytes_buf_deterministic(A) { randombytes_buf_deterministic(b[0], l1, b[1]); return 0; }

/* ---- codecs */
static int c_sodium_bin2hex(A) { return sodium_bin2hex((char *) b[0], sz[0], b[1], l1) == (char *) b[0] ? 0 : -1; }
static const char HEXC[] = "0123456789abcdefABCDEF";
static void fill_hex(unsigned char *p, size_t n, int cm) {
    if (cm == 0) return;
    for (size_t i = 0; i < n; i++) p[i] = (unsigned char) HEXC[vrng_below(&rng, 22)];
    if (cm == 2) for (size_t i = 2; i < n; i += 3) p[i] = (unsigned char) ": "[vrng_below(&rng, 2)];
    if (cm == 3 && n) p[vrng_below(&rng, (uint32_t) n)] = (unsigned char) vrng_below(&rng, 256);
}
static void p_sodium_hex2bin(A) { fill_hex(b[1], l1, cm); }
static int c_sodium_hex2bin(A) { return sodium_hex2bin(b[0], l2, (const char *) b[1], l1, NULL, (size_t *) (void *) b[2], NULL); }
static int c_sodium_hex2bin_nolen(A) { return sodium_hex2bin(b[0], l2, (const char *) b[1], l1, NULL, NULL, NULL); }
static void p_sodium_hex2bin_ign(A) { fill_hex(b[1], l1, cm); vcpy(b[2], ": ", 3); }
static int c_sodium_hex2bin_ign(A) { return sodium_hex2bin(b[0], l2, (const char *) b[1], l1, (const char *) b[2], (size_t *) (void *) b[3], (const char **) (void *) b[4]); }
#define B64V(V) \
static int c_sodium_bin2base64_v##V(A) { return sodium_bin2base64((char *) b[0], sz[0], b[1], l1, V) == (char *) b[0] ? 0 : -1; } \
static void p_sodium_base642bin_v##V(A) { fill_b64(b[1], l1, cm, V); } \
static int c_sodium_base642bin_v##V(A) { return sodium_base642bin(b[0], l2, (const char *) b[1], l1, NULL, (size_t *) (void *) b[2], NULL, V); } \
static void p_sodium_base642bin_ign_v##V(A) { fill_b64(b[1], l1, cm, V); vcpy(b[2], " \n", 3); } \
static int c_sodium_base642bin_ign_v##V(A) { return sodium_base642bin(b[0], l2, (const char *) b[1], l1, (const char *) b[2], (size_t *) (void *) b[3], (const char **) (void *) b[4], V); }
static void fill_b64(unsigned char *p, size_t n, int cm, int variant) {
    if (cm == 0 || n == 0) return;
    size_t bl = n * 3 / 4 + 3; unsigned char *bin = tmp_rand(bl); char *enc = (char *) malloc(sodium_base64_ENCODED_LEN(bl, variant) + 8);
    size_t use = n * 3 / 4;
    sodium_bin2base64(enc, sodium_base64_ENCODED_LEN(bl, variant) + 8, bin, use, variant);
    size_t el = strlen(enc);
    if (el == n) vcpy(p, enc, n);
    else { sodium_bin2base64(enc, sodium_base64_ENCODED_LEN(bl, variant) + 8, bin, bl, variant); vcpy(p, enc, n); }
    if (cm == 2) for (size_t i = 4; i < n; i += 5) p[i] = (unsigned char) " \n"[vrng_below(&rng, 2)];
    if (cm == 3) p[vrng_below(&rng, (uint32_t) n)] = (unsigned char) vrng_below(&rng, 256);
    free(bin); free(enc);
}
B64V(1) B64V(3) B64V(5) B64V(7)

/* ---- padding */
static int c_sodium_pad(A) { return sodium_pad((size_t *) (void *) b[0], b[1], l1, l2, sz[1]); }
static int c_sodium_pad_small(A) { return sodium_pad((size_t *) (void *) b[0], b[1], l1, l2, sz[1]); }
static int c_sodium_pad_nolen(A) { return sodium_pad(NULL, b[0], l1, l2, sz[0]); }
static void p_sodium_unpad(A) {
    if (cm == 1 && l1 > 0 && l2 > 0 && l1 % l2 == 0) { size_t k = 1 + vrng_below(&rng, (uint32_t) vmin(l2, l1)); b[1][l1 - k] = 0x80; vset(b[1] + l1 - k + 1, 0, k - 1); }
}
static int c_sodium_unpad(A) { return sodium_unpad((size_t *) (void *) b[0], b[1], l1, l2); }

/* ---- password hashing (minimum cost parameters) */
static int c_crypto_pwhash_argon2id_raw(A) { return crypto_pwhash(b[0], l2, (const char *) b[1], l1, b[2], crypto_pwhash_OPSLIMIT_MIN, crypto_pwhash_MEMLIMIT_MIN, crypto_pwhash_ALG_ARGON2ID13); }
static int c_crypto_pwhash_argon2i_raw(A) { return crypto_pwhash(b[0], l2, (const char *) b[1], l1, b[2], crypto_pwhash_argon2i_OPSLIMIT_MIN, crypto_pwhash_MEMLIMIT_MIN, crypto_pwhash_ALG_ARGON2I13); }
static int c_crypto_pwhash_str(A) { return crypto_pwhash_str((char *) b[0], (const char *) b[1], l1, crypto_pwhash_OPSLIMIT_MIN, crypto_pwhash_MEMLIMIT_MIN); }
static int c_crypto_pwhash_str_alg_argon2i(A) { return crypto_pwhash_str_alg((char *) b[0], (const char *) b[1], l1, crypto_pwhash_argon2i_OPSLIMIT_MIN, crypto_pwhash_MEMLIMIT_MIN, crypto_pwhash_ALG_ARGON2I13); }
/* string contents: cm 1 = genuine string for the password (zero padded to the documented size), 0 = random printable,
 * 2 = genuine string cut / extended to l2 characters, 3 = like 2 with one character replaced */
/* (for scrypt strings the cost parameters at positions 3..13 are never mutated: a single changed character there asks for
 * up to 2^63 blocks, i.e. an in-contract but unbounded amount of work and memory - see DESIGN.md, observation O8) */
static __thread size_t fill_str_protect_lo, fill_str_protect_hi;
static void fill_str(unsigned char *s, size_t cap, const char *real, int cm) {
    size_t n = strlen(real), l = cap - 1;
    if (cm == 1) { vset(s, 0, cap); vcpy(s, real, vmin(n, l)); return; }
    if (cm == 0) return;
    vcpy(s, real, vmin(n, l));
    if (cm == 3 && l) { size_t i = vrng_below(&rng, (uint32_t) l); if (i >= fill_str_protect_lo && i < fill_str_protect_hi) i = (fill_str_protect_hi < l) ? fill_str_protect_hi : 0;
        s[i] = (unsigned char) (1 + vrng_below(&rng, 255)); }
    s[l] = 0;
}
static void real_argon(char *out, const unsigned char *pw, size_t pwlen, int which) {
    if (which == 0) crypto_pwhash_str(out, (const char *) pw, pwlen, crypto_pwhash_OPSLIMIT_MIN, crypto_pwhash_MEMLIMIT_MIN);
    else if (which == 1) crypto_pwhash_str_alg(out, (const char *) pw, pwlen, crypto_pwhash_argon2i_OPSLIMIT_MIN, crypto_pwhash_MEMLIMIT_MIN, crypto_pwhash_ALG_ARGON2I13);
    else crypto_pwhash_scryptsalsa208sha256_str(out, (const char *) pw, pwlen, crypto_pwhash_scryptsalsa208sha256_OPSLIMIT_MIN, crypto_pwhash_scryptsalsa208sha256_MEMLIMIT_MIN);
}
static void p_crypto_pwhash_str_verify(A) { char r[128]; real_argon(r, b[1], l1, (int) (l2 & 1)); fill_str(b[0], sz[0], r, cm); }
static int c_crypto_pwhash_str_verify(A) { return crypto_pwhash_str_verify((const char *) b[0], (const char *) b[1], l1); }
static void p_crypto_pwhash_str_needs_rehash(A) { char r[128]; unsigned char pw[4] = { 'a', 'b', 'c', 0 }; real_argon(r, pw, 3, (int) (l2 & 1)); fill_str(b[0], sz[0], r, cm); }
static int c_crypto_pwhash_str_needs_rehash(A) { return crypto_pwhash_str_needs_rehash((const char *) b[0], crypto_pwhash_OPSLIMIT_MIN, crypto_pwhash_MEMLIMIT_MIN) == 0 ? 0 : -1; }
static int c_crypto_pwhash_scryptsalsa208sha256(A) { return crypto_pwhash_scryptsalsa208sha256(b[0], l2, (const char *) b[1], l1, b[2], crypto_pwhash_scryptsalsa208sha256_OPSLIMIT_MIN, crypto_pwhash_scryptsalsa208sha256_MEMLIMIT_MIN); }
static int c_crypto_pwhash_scryptsalsa208sha256_str(A) { return crypto_pwhash_scryptsalsa208sha256_str((char *) b[0], (const char *) b[1], l1, crypto_pwhash_scryptsalsa208sha256_OPSLIMIT_MIN, crypto_pwhash_scryptsalsa208sha256_MEMLIMIT_MIN); }
static void p_crypto_pwhash_scryptsalsa208sha256_str_verify(A) { char r[128]; real_argon(r, b[1], l1, 2); fill_str_protect_lo = 3; fill_str_protect_hi = 14; fill_str(b[0], sz[0], r, cm); fill_str_protect_lo = fill_str_protect_hi = 0; }
static int c_crypto_pwhash_scryptsalsa208sha256_str_verify(A) { return crypto_pwhash_scryptsalsa208sha256_str_verify((const char *) b[0], (const char *) b[1], l1); }
static void p_crypto_pwhash_scryptsalsa208sha256_str_needs_rehash(A) { char r[128]; unsigned char pw[4] = { 'a', 'b', 'c', 0 }; real_argon(r, pw, 3, 2); fill_str(b[0], sz[0], r, cm); }
static int c_crypto_pwhash_scryptsalsa208sha256_str_needs_rehash(A) { return crypto_pwhash_scryptsalsa208sha256_str_needs_rehash((const char *) b[0], crypto_pwhash_scryptsalsa208sha256_OPSLIMIT_MIN, crypto_pwhash_scryptsalsa208sha256_MEMLIMIT_MIN) == 0 ? 0 : -1; }
static int c_crypto_pwhash_scryptsalsa208sha256_ll(A) { return crypto_pwhash_scryptsalsa208sha256_ll(b[0], l1, b[1], l2, 16, 1, 1, b[2], sz[2]); }

#define FN_B64(V) E(sodium_bin2base64_v##V, 2), EP(sodium_base642bin_v##V, 3), EP(sodium_base642bin_ign_v##V, 5)
#define FNS_UTILS \
    E(sodium_memcmp, 2), E(sodium_compare, 2), EP(sodium_is_zero, 1), E(sodium_increment, 1), E(sodium_add, 2), E(sodium_sub, 2), E(sodium_memzero, 1), E(sodium_mlock, 1), \
    { "crypto_verify_16", 2, p_crypto_verify, c_crypto_verify_16 }, { "crypto_verify_32", 2, p_crypto_verify, c_crypto_verify_32 }, { "crypto_verify_64", 2, p_crypto_verify, c_crypto_verify_64 }, \
    E(randombytes_buf, 1), E(randombytes_buf_deterministic, 2), \
    E(sodium_bin2hex, 2), EP(sodium_hex2bin, 3), { "sodium_hex2bin_nolen", 2, p_sodium_hex2bin, c_sodium_hex2bin_nolen }, EP(sodium_hex2bin_ign, 5), \
    FN_B64(1), FN_B64(3), FN_B64(5), FN_B64(7), \
    E(sodium_pad, 2), E(sodium_pad_small, 2), E(sodium_pad_nolen, 1), EP(sodium_unpad, 2), \
    E(crypto_pwhash_argon2id_raw, 3), E(crypto_pwhash_argon2i_raw, 3), E(crypto_pwhash_str, 2), E(crypto_pwhash_str_alg_argon2i, 2), \
    EP(crypto_pwhash_str_verify, 2), EP(crypto_pwhash_str_needs_rehash, 1), \
    E(crypto_pwhash_scryptsalsa208sha256, 3), E(crypto_pwhash_scryptsalsa208sha256_str, 2), EP(crypto_pwhash_scryptsalsa208sha256_str_verify, 2), \
    EP(crypto_pwhash_scryptsalsa208sha256_str_needs_rehash, 1), E(crypto_pwhash_scryptsalsa208sha256_ll, 3)
