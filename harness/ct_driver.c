/* Constant-time helper driver (C14): logs one NDJSON record per call for spec/trace/OracleCt.tla.
 *   ct_driver <seed> <mode> <maxlen> <out.ndjson>     mode: small (exhaustive 1- and 2-byte operands) | sweep */
#include "common.h"

static vrng R;
static unsigned char *AL(vguard *g, size_t n, unsigned align, int at_end) {
    /* n bytes whose end is (align mod 16) bytes before a PROT_NONE page: every start alignment is visited and
     * with align = 0 a read or write one byte past the end faults */
    (void) at_end;
    *g = v_galloc(n + 16, 1);
    return g->p + 16 - (align % 16);
}
static void rec2(const char *op, const unsigned char *a, const unsigned char *b, size_t n, int ret) {
    fprintf(v_out, "{\"op\":\"%s\",", op); v_emit_bytes("a", a, n); fputc(',', v_out); v_emit_bytes("b", b, n);
    fprintf(v_out, ",\"ret\":%d}\n", ret);
}
static void cmp_all(const unsigned char *a0, const unsigned char *b0, size_t n, unsigned al) {
    vguard ga, gb; unsigned char *a = AL(&ga, n, al, 1), *b = AL(&gb, n, (al * 7 + 3) % 16, 1);
    memcpy(a, a0, n); memcpy(b, b0, n);
    rec2("memcmp", a0, b0, n, sodium_memcmp(a, b, n));
    rec2("compare", a0, b0, n, sodium_compare(a, b, n));
    if (n == 16) rec2("verify", a0, b0, n, crypto_verify_16(a, b));
    if (n == 32) rec2("verify", a0, b0, n, crypto_verify_32(a, b));
    if (n == 64) rec2("verify", a0, b0, n, crypto_verify_64(a, b));
    fprintf(v_out, "{\"op\":\"is_zero\","); v_emit_bytes("a", a0, n); fprintf(v_out, ",\"ret\":%d}\n", sodium_is_zero(a, n));
    v_gfree(&ga); v_gfree(&gb);
}
static void arith_all(const unsigned char *a0, const unsigned char *b0, size_t n, unsigned al) {
    vguard ga, gb; unsigned char *a = AL(&ga, n, al, 1), *b = AL(&gb, n, (al * 5 + 1) % 16, 1);
    memcpy(a, a0, n); memcpy(b, b0, n); sodium_add(a, b, n);
    fprintf(v_out, "{\"op\":\"add\","); v_emit_bytes("a", a0, n); fputc(',', v_out); v_emit_bytes("b", b0, n); fputc(',', v_out);
    v_emit_bytes("out", a, n); fprintf(v_out, ",\"bsame\":%s}\n", memcmp(b, b0, n) ? "false" : "true");
    memcpy(a, a0, n); sodium_sub(a, b, n);
    fprintf(v_out, "{\"op\":\"sub\","); v_emit_bytes("a", a0, n); fputc(',', v_out); v_emit_bytes("b", b0, n); fputc(',', v_out);
    v_emit_bytes("out", a, n); fprintf(v_out, ",\"bsame\":%s}\n", memcmp(b, b0, n) ? "false" : "true");
    memcpy(a, a0, n); sodium_increment(a, n);
    fprintf(v_out, "{\"op\":\"increment\","); v_emit_bytes("a", a0, n); fputc(',', v_out); v_emit_bytes("out", a, n); fprintf(v_out, "}\n");
    v_gfree(&ga); v_gfree(&gb);
}

int main(int argc, char **argv) {
    if (argc < 5) return 3;
    if (sodium_init() < 0) return 3;
    vrng_seed(&R, strtoull(argv[1], NULL, 10), 14);
    size_t maxlen = (size_t) atoi(argv[3]);
    v_open(argv[4]); v_install_crash_handlers();
    unsigned char a[256], b[256];
    if (!strcmp(argv[2], "huge")) {
        /* operands of 2^32 + 300 bytes (sparse mappings, read-only access): lengths and indices whose upper 32 bits matter. The
         * operands are described, not listed: all-zero except the byte positions given in the record. */
        size_t n = ((size_t) 1 << 32) + 300;
        unsigned char *x = (unsigned char *) mmap(NULL, n, PROT_READ | PROT_WRITE, MAP_PRIVATE | MAP_ANONYMOUS | MAP_NORESERVE, -1, 0);
        unsigned char *y = (unsigned char *) mmap(NULL, n, PROT_READ | PROT_WRITE, MAP_PRIVATE | MAP_ANONYMOUS | MAP_NORESERVE, -1, 0);
        if (x == MAP_FAILED || y == MAP_FAILED) { v_close(); return 0; }
        static const unsigned long long POS[] = { 0, 0xffffffffULL, 0x100000000ULL, 0x100000000ULL + 299 };
        v_emit("{\"op\":\"huge\",\"fn\":\"is_zero\",\"xpos\":-1,\"ypos\":-1,\"ret\":%d}", sodium_is_zero(x, n));
        v_emit("{\"op\":\"huge\",\"fn\":\"memcmp\",\"xpos\":-1,\"ypos\":-1,\"ret\":%d}", sodium_memcmp(x, y, n));
        v_emit("{\"op\":\"huge\",\"fn\":\"compare\",\"xpos\":-1,\"ypos\":-1,\"ret\":%d}", sodium_compare(x, y, n));
        for (int p = 0; p < 4; p++) { unsigned long long q = POS[p]; int qk = (int) (q >> 30) * 1000 + (int) (q & 1023);      /* position as (GiB quarter, low bits): fits an int */
            x[q] = 1; v_emit("{\"op\":\"huge\",\"fn\":\"is_zero\",\"xpos\":%d,\"ypos\":-1,\"ret\":%d}", qk, sodium_is_zero(x, n));
            v_emit("{\"op\":\"huge\",\"fn\":\"memcmp\",\"xpos\":%d,\"ypos\":-1,\"ret\":%d}", qk, sodium_memcmp(x, y, n));
            v_emit("{\"op\":\"huge\",\"fn\":\"compare\",\"xpos\":%d,\"ypos\":-1,\"ret\":%d}", qk, sodium_compare(x, y, n));
            v_emit("{\"op\":\"huge\",\"fn\":\"compare\",\"xpos\":-1,\"ypos\":%d,\"ret\":%d}", qk, sodium_compare(y, x, n));
            x[q] = 0; }
        /* a low difference one way, a high difference the other way: the most significant differing byte decides */
        x[5] = 9; y[0x100000000ULL + 7] = 1;
        v_emit("{\"op\":\"huge\",\"fn\":\"compare\",\"xpos\":5,\"ypos\":%d,\"ret\":%d}", 4 * 1000 + 7, sodium_compare(x, y, n));
        munmap(x, n); munmap(y, n); v_close(); return 0;
    }
    if (!strcmp(argv[2], "small")) {
        for (unsigned x = 0; x < 256; x++) for (unsigned y = 0; y < 256; y++) { a[0] = (unsigned char) x; b[0] = (unsigned char) y; cmp_all(a, b, 1, x % 16); arith_all(a, b, 1, y % 16); }
        /* all 2-byte pairs for compare/add/sub: 2^32 is too many; every pair of (hi,lo) classes: exhaustive over a x b where
         * each byte ranges over 16 representative values, plus 60000 seeded random pairs */
        static const unsigned char v16[16] = { 0, 1, 2, 0x7f, 0x80, 0x81, 0xfe, 0xff, 0x10, 0x0f, 0x55, 0xaa, 0xf0, 0x3c, 0xc3, 0x40 };
        for (int i = 0; i < 16; i++) for (int j = 0; j < 16; j++) for (int k = 0; k < 16; k++) for (int l = 0; l < 16; l++) {
            a[0] = v16[i]; a[1] = v16[j]; b[0] = v16[k]; b[1] = v16[l]; cmp_all(a, b, 2, (unsigned) (i + k) % 16); arith_all(a, b, 2, (unsigned) (j + l) % 16); }
        for (int t = 0; t < 60000; t++) { vrng_bytes(&R, a, 2); vrng_bytes(&R, b, 2); if (t % 2) cmp_all(a, b, 2, t % 16); else arith_all(a, b, 2, t % 16); }
    } else {
        for (size_t n = 0; n <= maxlen; n++) {
            unsigned al = (unsigned) (n * 5 % 16);
            vrng_bytes(&R, a, n); memcpy(b, a, n);
            cmp_all(a, b, n, al);                                             /* equal */
            memset(b, 0, n); cmp_all(b, b, n, al); memset(b, 0xff, n); cmp_all(b, b, n, al); cmp_all(a, b, n, al);
            for (size_t i = 0; i < n; i++) {                                  /* one differing byte / bit at every position */
                memcpy(b, a, n); b[i] ^= (unsigned char) (1u << vrng_below(&R, 8)); cmp_all(a, b, n, (unsigned) (al + i) % 16);
                if (n <= 24 || n == 32 || n == 64) for (int bit = 0; bit < 8; bit++) { memcpy(b, a, n); b[i] ^= (unsigned char) (1u << bit); cmp_all(a, b, n, (unsigned) bit); cmp_all(b, a, n, (unsigned) bit + 8); }
                memset(b, 0, n); b[i] = 1; cmp_all(b, b, n, al);              /* is_zero with a single non-zero byte */
                memcpy(b, a, n); b[i] = (unsigned char) (a[i] + 1); if (i + 1 < n) b[i + 1] = (unsigned char) (a[i + 1] - 1); cmp_all(a, b, n, al);  /* low byte larger, high byte smaller */
            }
            /* carry / borrow chains of every length k: 0xff^k || x */
            for (size_t k = 0; k <= n; k++) {
                vrng_bytes(&R, a, n); memset(a, 0xff, k); if (k < n && a[k] == 0xff) a[k] = 0x7e;
                memset(b, 0, n); if (n) b[0] = 1; arith_all(a, b, n, (unsigned) k % 16);
                memset(b, 0, n); memset(a, 0, k); if (k < n && a[k] == 0) a[k] = 3; if (n) b[0] = 1; arith_all(a, b, n, (unsigned) (k + 3) % 16);  /* borrow chain */
                vrng_bytes(&R, a, n); vrng_bytes(&R, b, n); if (k < n) { a[k] = 0xff; b[k] = 0x01; } arith_all(a, b, n, (unsigned) (k + 7) % 16);
                /* generate/propagate patterns around 4- and 8-byte seams */
                memset(a, 0xff, n); memset(b, 0, n); if (k < n) b[k] = 1; arith_all(a, b, n, 0);
                memset(a, 0, n); memset(b, 0, n); if (k < n) b[k] = 1; arith_all(a, b, n, 1);
            }
            for (int t = 0; t < 6; t++) { vrng_bytes(&R, a, n); vrng_bytes(&R, b, n); arith_all(a, b, n, (unsigned) t * 3); cmp_all(a, b, n, (unsigned) t); }
            /* differences that cancel under XOR / ADD accumulation: the same delta at two (or four) positions a word, half block or
             * block apart (k = 1, 2, 4, 8, 16, 32, 48) - an accumulator must OR the differences, never combine them otherwise */
            if (n >= 2) { static const size_t KS[] = { 1, 2, 4, 8, 16, 32, 48 };
                for (int ki = 0; ki < 7; ki++) { size_t k = KS[ki]; if (k >= n) continue;
                    for (int t = 0; t < 3; t++) { size_t p = vrng_below(&R, (uint32_t) (n - k)); unsigned char dlt = (unsigned char) (1 + vrng_below(&R, 255));
                        vrng_bytes(&R, a, n); memcpy(b, a, n); b[p] ^= dlt; b[p + k] ^= dlt; cmp_all(a, b, n, (unsigned) (p % 16));
                        memset(b, 0, n); b[p] = dlt; b[p + k] = dlt; cmp_all(b, b, n, (unsigned) k % 16);                   /* is_zero with two equal non-zero bytes */
                        memset(b, 0, n); b[p] = dlt; b[p + k] = (unsigned char) (0 - dlt); cmp_all(b, b, n, 3);             /* ... and two bytes summing to zero */
                        if (p + 3 * k < n) { memcpy(b, a, n); b[p] ^= dlt; b[p + k] ^= dlt; b[p + 2 * k] ^= dlt; b[p + 3 * k] ^= dlt; cmp_all(a, b, n, 5); } } } }
        }
        /* memzero on every (offset, len) of a 40-byte region */
        for (size_t off = 0; off <= 40; off++) for (size_t len = 0; off + len <= 40; len += (len < 18 ? 1 : 5)) {
            unsigned char reg[40], orig[40]; vrng_bytes(&R, reg, 40); for (int i = 0; i < 40; i++) if (!reg[i]) reg[i] = 9; memcpy(orig, reg, 40);
            sodium_memzero(reg + off, len);
            fprintf(v_out, "{\"op\":\"memzero\",\"off\":%zu,\"len\":%zu,", off, len); v_emit_bytes("a", orig, 40); fputc(',', v_out); v_emit_bytes("out", reg, 40); fprintf(v_out, "}\n");
        }
    }
    v_close();
    return 0;
}
