/* C12 call wrappers, part 1: hashes, MACs, KDFs. Buffer order = order of Bufs(fn, l1, l2) in spec/sys/Contract.tla */
static size_t vmin(size_t a, size_t b) { return a < b ? a : b; }

static int c_crypto_hash_sha256(A) { return crypto_hash_sha256(b[0], b[1], l1); }
static int c_crypto_hash_sha512(A) { return crypto_hash_sha512(b[0], b[1], l1); }
static int c_crypto_hash(A) { return crypto_hash(b[0], b[1], l1); }
static int c_crypto_generichash(A) { return crypto_generichash(b[0], l2, b[1], l1, NULL, 0); }
static int c_crypto_generichash_keyed(A) { return crypto_generichash(b[0], 32, b[1], l1, b[2], l2); }
static int c_crypto_generichash_blake2b_salt_personal(A) { return crypto_generichash_blake2b_salt_personal(b[0], 32, b[1], l1, b[2], 32, b[3], b[4]); }
static int c_crypto_generichash_multi(A) {
    crypto_generichash_state *s = (crypto_generichash_state *) (void *) b[0]; size_t k = vmin(l2, l1);
    if (crypto_generichash_init(s, NULL, 0, 32) != 0) return -1;
    if (crypto_generichash_update(s, b[2], k) != 0) return -1;
    if (crypto_generichash_update(s, b[2] ? b[2] + k : NULL, l1 - k) != 0) return -1;
    return crypto_generichash_final(s, b[1], 32);
}
static int c_crypto_generichash_multi_keyed(A) {
    crypto_generichash_state *s = (crypto_generichash_state *) (void *) b[0];
    if (crypto_generichash_init(s, b[3], l2, 64) != 0) return -1;
    if (crypto_generichash_update(s, b[2], l1) != 0) return -1;
    return crypto_generichash_final(s, b[1], 64);
}
static int c_crypto_hash_sha256_multi(A) {
    crypto_hash_sha256_state *s = (crypto_hash_sha256_state *) (void *) b[0]; size_t k = vmin(l2, l1);
    crypto_hash_sha256_init(s); crypto_hash_sha256_update(s, b[2], k); crypto_hash_sha256_update(s, b[2] ? b[2] + k : NULL, l1 - k);
    return crypto_hash_sha256_final(s, b[1]);
}
static int c_crypto_hash_sha512_multi(A) {
    crypto_hash_sha512_state *s = (crypto_hash_sha512_state *) (void *) b[0]; size_t k = vmin(l2, l1);
    crypto_hash_sha512_init(s); crypto_hash_sha512_update(s, b[2], k); crypto_hash_sha512_update(s, b[2] ? b[2] + k : NULL, l1 - k);
    return crypto_hash_sha512_final(s, b[1]);
}
#define AUTH(P, OUTB) \
static int c_##P(A) { return P(b[0], b[1], l1, b[2]); } \
static void p_##P##_verify(A) { if (cm == 1) { unsigned char t[64]; P(t, b[1], l1, b[2]); vcpy(b[0], t, OUTB); } } \
static int c_##P##_verify(A) { return P##_verify(b[0], b[1], l1, b[2]); }
AUTH(crypto_auth_hmacsha256, 32)
AUTH(crypto_auth_hmacsha512, 64)
AUTH(crypto_auth_hmacsha512256, 32)
AUTH(crypto_auth, 32)
AUTH(crypto_onetimeauth, 16)
#define AUTHMULTI(P) \
static int c_##P##_multi(A) { P##_state *s = (P##_state *) (void *) b[0]; \
    P##_init(s, b[3], l2); P##_update(s, b[2], l1 / 2); P##_update(s, b[2] ? b[2] + l1 / 2 : NULL, l1 - l1 / 2); return P##_final(s, b[1]); }
AUTHMULTI(crypto_auth_hmacsha256)
AUTHMULTI(crypto_auth_hmacsha512)
AUTHMULTI(crypto_auth_hmacsha512256)
static int c_crypto_onetimeauth_multi(A) {
    crypto_onetimeauth_state *s = (crypto_onetimeauth_state *) (void *) b[0]; size_t k = vmin(l2, l1);
    crypto_onetimeauth_init(s, b[3]); crypto_onetimeauth_update(s, b[2], k); crypto_onetimeauth_update(s, b[2] ? b[2] + k : NULL, l1 - k);
    return crypto_onetimeauth_final(s, b[1]);
}
static int c_crypto_shorthash(A) { return crypto_shorthash(b[0], b[1], l1, b[2]); }
static int c_crypto_shorthash_siphashx24(A) { return crypto_shorthash_siphashx24(b[0], b[1], l1, b[2]); }
static int c_crypto_kdf_derive_from_key(A) { return crypto_kdf_derive_from_key(b[0], l2, (uint64_t) l1 * 0x100000001ULL, (const char *) b[1], b[2]); }
static int c_crypto_kdf_hkdf_sha256_extract(A) { return crypto_kdf_hkdf_sha256_extract(b[0], b[1], l2, b[2], l1); }
static int c_crypto_kdf_hkdf_sha512_extract(A) { return crypto_kdf_hkdf_sha512_extract(b[0], b[1], l2, b[2], l1); }
static int c_crypto_kdf_hkdf_sha256_expand(A) { return crypto_kdf_hkdf_sha256_expand(b[0], l1, (const char *) b[1], l2, b[2]); }
static int c_crypto_kdf_hkdf_sha512_expand(A) { return crypto_kdf_hkdf_sha512_expand(b[0], l1, (const char *) b[1], l2, b[2]); }
static int c_crypto_kdf_hkdf_sha256_extract_multi(A) {
    crypto_kdf_hkdf_sha256_state *s = (crypto_kdf_hkdf_sha256_state *) (void *) b[0];
    crypto_kdf_hkdf_sha256_extract_init(s, b[2], l2); crypto_kdf_hkdf_sha256_extract_update(s, b[3], l1);
    return crypto_kdf_hkdf_sha256_extract_final(s, b[1]);
}
static int c_crypto_kdf_hkdf_sha512_extract_multi(A) {
    crypto_kdf_hkdf_sha512_state *s = (crypto_kdf_hkdf_sha512_state *) (void *) b[0];
    crypto_kdf_hkdf_sha512_extract_init(s, b[2], l2); crypto_kdf_hkdf_sha512_extract_update(s, b[3], l1);
    return crypto_kdf_hkdf_sha512_extract_final(s, b[1]);
}
static int c_crypto_core_hchacha20(A) { return crypto_core_hchacha20(b[0], b[1], b[2], NULL); }
static int c_crypto_core_hchacha20_c(A) { return crypto_core_hchacha20(b[0], b[1], b[2], b[3]); }
static int c_crypto_core_hsalsa20(A) { return crypto_core_hsalsa20(b[0], b[1], b[2], NULL); }
static int c_crypto_core_hsalsa20_c(A) { return crypto_core_hsalsa20(b[0], b[1], b[2], b[3]); }
static int c_crypto_core_salsa20(A) { return crypto_core_salsa20(b[0], b[1], b[2], NULL); }
static int c_crypto_core_salsa2012(A) { return crypto_core_salsa2012(b[0], b[1], b[2], b[3]); }
static int c_crypto_core_salsa208(A) { return crypto_core_salsa208(b[0], b[1], b[2], b[3]); }

#define E(n, nb) { #n, nb, NULL, c_##n }
#define EP(n, nb) { #n, nb, p_##n, c_##n }
#define FNS_HASH \
    E(crypto_hash_sha256, 2), E(crypto_hash_sha512, 2), E(crypto_hash, 2), E(crypto_generichash, 2), E(crypto_generichash_keyed, 3), \
    E(crypto_generichash_blake2b_salt_personal, 5), E(crypto_generichash_multi, 3), E(crypto_generichash_multi_keyed, 4), \
    E(crypto_hash_sha256_multi, 3), E(crypto_hash_sha512_multi, 3), \
    E(crypto_auth_hmacsha256, 3), EP(crypto_auth_hmacsha256_verify, 3), E(crypto_auth_hmacsha512, 3), EP(crypto_auth_hmacsha512_verify, 3), \
    E(crypto_auth_hmacsha512256, 3), EP(crypto_auth_hmacsha512256_verify, 3), E(crypto_auth, 3), EP(crypto_auth_verify, 3), \
    E(crypto_onetimeauth, 3), EP(crypto_onetimeauth_verify, 3), \
    E(crypto_auth_hmacsha256_multi, 4), E(crypto_auth_hmacsha512_multi, 4), E(crypto_auth_hmacsha512256_multi, 4), E(crypto_onetimeauth_multi, 4), \
    E(crypto_shorthash, 3), E(crypto_shorthash_siphashx24, 3), E(crypto_kdf_derive_from_key, 3), \
    E(crypto_kdf_hkdf_sha256_extract, 3), E(crypto_kdf_hkdf_sha512_extract, 3), E(crypto_kdf_hkdf_sha256_expand, 3), E(crypto_kdf_hkdf_sha512_expand, 3), \
    E(crypto_kdf_hkdf_sha256_extract_multi, 4), E(crypto_kdf_hkdf_sha512_extract_multi, 4), \
    E(crypto_core_hchacha20, 3), E(crypto_core_hchacha20_c, 4), E(crypto_core_hsalsa20, 3), E(crypto_core_hsalsa20_c, 4), \
    E(crypto_core_salsa20, 3), E(crypto_core_salsa2012, 4), E(crypto_core_salsa208, 4)
