/* Edwards25519 / Ristretto255 driver (C07): point validation, add/sub, scalar multiplication (clamped, unclamped,
 * base), scalar arithmetic, one-way maps, hash-to-group with contexts of every kind; NDJSON for
 * spec/trace/OracleGroup.tla. Structured inputs are manufactured with the library's own arithmetic (they are
 * inputs; the specification judges the outputs).
 *   group_driver <seed> <n> <out.ndjson>                                                       */
#include "common.h"
static vrng R;
static const unsigned char Lb[32] = { 0xed, 0xd3, 0xf5, 0x5c, 0x1a, 0x63, 0x12, 0x58, 0xd6, 0x9c, 0xf7, 0xa2, 0xde, 0xf9, 0xde, 0x14, 0, 0, 0, 0, 0, 0, 0, 0, 0, 0, 0, 0, 0, 0, 0, 0x10 };
static const char *torsion_hex[] = {
    "0100000000000000000000000000000000000000000000000000000000000000", "ecffffffffffffffffffffffffffffffffffffffffffffffffffffffffffff7f",
    "0000000000000000000000000000000000000000000000000000000000000000", "0000000000000000000000000000000000000000000000000000000000000080",
    "26e8958fc2b227b045c3f489f2ef98f0d5dfac05d3c63339b13802886d53fc05", "26e8958fc2b227b045c3f489f2ef98f0d5dfac05d3c63339b13802886d53fc85",
    "c7176a703d4dd84fba3c0b760d10670f2a2053fa2c39ccc64ec7fd7792ac037a", "c7176a703d4dd84fba3c0b760d10670f2a2053fa2c39ccc64ec7fd7792ac03fa",
    "eeffffffffffffffffffffffffffffffffffffffffffffffffffffffffffff7f", "edffffffffffffffffffffffffffffffffffffffffffffffffffffffffffff7f",
    "edffffffffffffffffffffffffffffffffffffffffffffffffffffffffffffff", "ecffffffffffffffffffffffffffffffffffffffffffffffffffffffffffffff",
    "0100000000000000000000000000000000000000000000000000000000000080", "eeffffffffffffffffffffffffffffffffffffffffffffffffffffffffffffff" };
#define NTOR 14
static void hexto(const char *h, unsigned char *o) { for (int i = 0; i < 32; i++) { unsigned v; sscanf(h + 2 * i, "%2x", &v); o[i] = (unsigned char) v; } }
static void e32(const char *k, const unsigned char *p) { v_emit_bytes(k, p, 32); }
static void ed_valid(const char *kind, const unsigned char *p) { fprintf(v_out, "{\"op\":\"ed_valid\",\"kind\":\"%s\",", kind); e32("p", p); fprintf(v_out, ",\"ret\":%d}\n", crypto_core_ed25519_is_valid_point(p)); }
static void r_valid(const unsigned char *p) { fprintf(v_out, "{\"op\":\"r_valid\","); e32("p", p); fprintf(v_out, ",\"ret\":%d}\n", crypto_core_ristretto255_is_valid_point(p)); }
static void ed_addsub(const unsigned char *p, const unsigned char *q) { unsigned char o[32]; memset(o, 0xcc, 32); int r = crypto_core_ed25519_add(o, p, q);
    fprintf(v_out, "{\"op\":\"ed_add\","); e32("p", p); fputc(',', v_out); e32("q", q); fputc(',', v_out); e32("out", o); fprintf(v_out, ",\"ret\":%d}\n", r);
    memset(o, 0xcc, 32); r = crypto_core_ed25519_sub(o, p, q); fprintf(v_out, "{\"op\":\"ed_sub\","); e32("p", p); fputc(',', v_out); e32("q", q); fputc(',', v_out); e32("out", o); fprintf(v_out, ",\"ret\":%d}\n", r); }
static void ed_mul(int clamp, const unsigned char *n, const unsigned char *p) { unsigned char o[32]; memset(o, 0xcc, 32); int r = clamp ? crypto_scalarmult_ed25519(o, n, p) : crypto_scalarmult_ed25519_noclamp(o, n, p);
    fprintf(v_out, "{\"op\":\"ed_mul\",\"clamp\":%s,\"base\":false,", clamp ? "true" : "false"); e32("n", n); fputc(',', v_out); e32("p", p); fputc(',', v_out); e32("out", o); fprintf(v_out, ",\"ret\":%d}\n", r); }
static void ed_mulbase(int clamp, const unsigned char *n) { unsigned char o[32]; memset(o, 0xcc, 32); int r = clamp ? crypto_scalarmult_ed25519_base(o, n) : crypto_scalarmult_ed25519_base_noclamp(o, n);
    fprintf(v_out, "{\"op\":\"ed_mul\",\"clamp\":%s,\"base\":true,", clamp ? "true" : "false"); e32("n", n); fputc(',', v_out); e32("p", n); fputc(',', v_out); e32("out", o); fprintf(v_out, ",\"ret\":%d}\n", r); }
static void r_mul(int base, const unsigned char *n, const unsigned char *p) { unsigned char o[32]; memset(o, 0xcc, 32); int r = base ? crypto_scalarmult_ristretto255_base(o, n) : crypto_scalarmult_ristretto255(o, n, p);
    fprintf(v_out, "{\"op\":\"r_mul\",\"base\":%s,", base ? "true" : "false"); e32("n", n); fputc(',', v_out); e32("p", p); fputc(',', v_out); e32("out", o); fprintf(v_out, ",\"ret\":%d}\n", r); }
static void r_addsub(const unsigned char *p, const unsigned char *q) { unsigned char o[32]; memset(o, 0xcc, 32); int r = crypto_core_ristretto255_add(o, p, q);
    fprintf(v_out, "{\"op\":\"r_add\","); e32("p", p); fputc(',', v_out); e32("q", q); fputc(',', v_out); e32("out", o); fprintf(v_out, ",\"ret\":%d}\n", r);
    memset(o, 0xcc, 32); r = crypto_core_ristretto255_sub(o, p, q); fprintf(v_out, "{\"op\":\"r_sub\","); e32("p", p); fputc(',', v_out); e32("q", q); fputc(',', v_out); e32("out", o); fprintf(v_out, ",\"ret\":%d}\n", r); }
static void sc_ops(const unsigned char *a, const unsigned char *b, const unsigned char *w64, int reduced) {
    unsigned char o[32]; int r;
#define SC2(NAME, FN) memset(o, 0xcc, 32); FN(o, a, b); fprintf(v_out, "{\"op\":\"sc\",\"f\":\"%s\",\"reduced\":%s,", NAME, reduced ? "true" : "false"); e32("a", a); fputc(',', v_out); e32("b", b); fputc(',', v_out); e32("out", o); fprintf(v_out, ",\"ret\":0}\n");
#define SC1(NAME, FN) memset(o, 0xcc, 32); FN(o, a); fprintf(v_out, "{\"op\":\"sc\",\"f\":\"%s\",\"reduced\":%s,", NAME, reduced ? "true" : "false"); e32("a", a); fputc(',', v_out); e32("b", a); fputc(',', v_out); e32("out", o); fprintf(v_out, ",\"ret\":0}\n");
    SC2("add", crypto_core_ed25519_scalar_add) SC2("sub", crypto_core_ed25519_scalar_sub) SC2("mul", crypto_core_ed25519_scalar_mul)
    SC1("negate", crypto_core_ed25519_scalar_negate) SC1("complement", crypto_core_ed25519_scalar_complement)
    SC2("r_add", crypto_core_ristretto255_scalar_add) SC2("r_mul", crypto_core_ristretto255_scalar_mul) SC1("r_negate", crypto_core_ristretto255_scalar_negate)
    memset(o, 0xcc, 32); r = crypto_core_ed25519_scalar_invert(o, a); fprintf(v_out, "{\"op\":\"sc\",\"f\":\"invert\",\"reduced\":%s,", reduced ? "true" : "false"); e32("a", a); fputc(',', v_out); e32("b", a); fputc(',', v_out); e32("out", o); fprintf(v_out, ",\"ret\":%d}\n", r);
    fprintf(v_out, "{\"op\":\"sc_canonical\","); e32("a", a); fprintf(v_out, ",\"ret\":%d,\"ret_r\":%d}\n", crypto_core_ed25519_scalar_is_canonical(a), crypto_core_ristretto255_scalar_is_canonical(a));
    memset(o, 0xcc, 32); crypto_core_ed25519_scalar_reduce(o, w64); fprintf(v_out, "{\"op\":\"sc_reduce\","); v_emit_bytes("w", w64, 64); fputc(',', v_out); e32("out", o); fprintf(v_out, "}\n");
}
static void h2c(int grp, int ro, int hash, const char *ctx, size_t ctxlen, int ctxnull, const unsigned char *msg, size_t mlen, int msgnull) {
    unsigned char o[32]; memset(o, 0xcc, 32); char *c = NULL; if (!ctxnull) { c = malloc(ctxlen + 1); memcpy(c, ctx, ctxlen); c[ctxlen] = 0; }
    int r = grp == 0 ? (ro ? crypto_core_ed25519_from_string_ro(o, c, msgnull ? NULL : msg, mlen, hash) : crypto_core_ed25519_from_string(o, c, msgnull ? NULL : msg, mlen, hash))
          : grp == 1 ? (ro ? crypto_core_ristretto255_from_string_ro(o, c, msgnull ? NULL : msg, mlen, hash) : crypto_core_ristretto255_from_string(o, c, msgnull ? NULL : msg, mlen, hash))
          : crypto_core_ristretto255_scalar_from_string(o, c, msgnull ? NULL : msg, mlen, hash);
    fprintf(v_out, "{\"op\":\"h2c\",\"grp\":%d,\"ro\":%s,\"hash\":%d,", grp, ro ? "true" : "false", hash == 1 ? 256 : 512); v_emit_bytes("ctx", (const unsigned char *) (ctxnull ? "" : ctx), ctxnull ? 0 : ctxlen); fputc(',', v_out);
    v_emit_bytes("msg", msg, mlen); fputc(',', v_out); e32("out", o); fprintf(v_out, ",\"ret\":%d}\n", r); free(c);
}
int main(int argc, char **argv) {
    if (argc < 4) return 3;
    vrng_seed(&R, strtoull(argv[1], NULL, 10), 7); int n = atoi(argv[2]);
    v_open(argv[3]); if (sodium_init() < 0) return 3; v_install_crash_handlers();
    unsigned char p[32], q[32], s[32], t[32], T[32], w[64], a[32], b[32];
    /* ---- validity of Edwards encodings */
    for (int i = 0; i < NTOR; i++) { hexto(torsion_hex[i], T); ed_valid("torsion", T); }
    for (int i = 0; i < n; i++) {
        vrng_bytes(&R, w, 64); crypto_core_ed25519_from_uniform(p, w); ed_valid("prime_order", p);
        for (int j = 1; j < 8; j += (i % 3 == 0 ? 1 : 3)) { hexto(torsion_hex[j], T); if (crypto_core_ed25519_add(q, p, T) == 0) ed_valid("prime_plus_torsion", q); }
        memcpy(q, p, 32); q[31] ^= 0x80; ed_valid("negated", q);
        memcpy(q, p, 32); q[vrng_below(&R, 32)] ^= (unsigned char) (1 << vrng_below(&R, 8)); ed_valid("bitflip", q);
        vrng_bytes(&R, q, 32); ed_valid("random_bytes", q); r_valid(q); q[0] &= 0xfe; q[31] &= 0x7f; r_valid(q);
    }
    { memset(q, 0, 32); q[0] = 9; ed_valid("y9", q); q[0] = 0x23; ed_valid("y35", q); q[0] = 3; ed_valid("y3", q);
      memset(q, 0xff, 32); q[0] = 0xee; q[31] = 0x7f; ed_valid("y_p_plus_1", q); q[0] = 0xf0; ed_valid("y_p_plus_3", q); }
    /* ---- Ristretto encodings: valid ones, negative s, non-canonical, etc. */
    for (int i = 0; i < n; i++) { vrng_bytes(&R, w, 64); crypto_core_ristretto255_from_hash(p, w); r_valid(p);
        fprintf(v_out, "{\"op\":\"r_from_hash\","); v_emit_bytes("h", w, 64); fputc(',', v_out); e32("out", p); fprintf(v_out, "}\n");
        memcpy(q, p, 32); q[0] ^= 1; r_valid(q); memcpy(q, p, 32); q[31] |= 0x80; r_valid(q); memcpy(q, p, 32); q[5] ^= 0x10; r_valid(q); }
    memset(q, 0, 32); r_valid(q); memset(q, 0xff, 32); q[31] = 0x7f; r_valid(q); q[0] = 0xec; r_valid(q); q[0] = 0xed; r_valid(q);
    /* ---- group operations */
    for (int i = 0; i < n; i++) {
        vrng_bytes(&R, w, 64); crypto_core_ed25519_from_uniform(p, w); crypto_core_ed25519_from_uniform(q, w + 32); vrng_bytes(&R, s, 32);
        if (i % 2 == 0) ed_addsub(p, q);
        if (i % 5 == 0) { ed_addsub(p, p); hexto(torsion_hex[i % 8], T); ed_addsub(p, T); vrng_bytes(&R, t, 32); ed_addsub(t, q); }
        if (i % 3 == 0) { ed_mul(1, s, p); ed_mul(0, s, p); ed_mulbase(1, s); ed_mulbase(0, s); }
        if (i % 4 == 0) { vrng_bytes(&R, w, 64); crypto_core_ristretto255_from_hash(a, w); crypto_core_ristretto255_from_hash(b, w + 0); vrng_bytes(&R, w, 64); crypto_core_ristretto255_from_hash(b, w);
            r_addsub(a, b); r_mul(0, s, a); r_mul(1, s, a); }
    }
    /* identity results and invalid inputs */
    vrng_bytes(&R, w, 64); crypto_core_ed25519_from_uniform(p, w);
    ed_mul(0, Lb, p); memset(s, 0, 32); ed_mul(0, s, p); ed_mul(1, s, p); ed_mulbase(0, Lb); ed_mulbase(0, s); ed_mulbase(1, s);
    memcpy(s, Lb, 32); s[0] += 1; ed_mul(0, s, p); ed_mulbase(0, s); memcpy(s, Lb, 32); s[31] |= 0x80; ed_mul(0, s, p);
    for (int j = 0; j < NTOR; j += 2) { hexto(torsion_hex[j], T); vrng_bytes(&R, s, 32); ed_mul(1, s, T); ed_mul(0, s, T); }
    hexto(torsion_hex[1], T); if (crypto_core_ed25519_add(q, p, T) == 0) { vrng_bytes(&R, s, 32); ed_mul(1, s, q); ed_mul(0, s, q); }     /* mixed-order input */
    { unsigned char rp[32]; vrng_bytes(&R, w, 64); crypto_core_ristretto255_from_hash(rp, w); r_mul(0, Lb, rp); memset(s, 0, 32); r_mul(0, s, rp); r_mul(1, s, rp); r_mul(1, Lb, rp);
      vrng_bytes(&R, t, 32); vrng_bytes(&R, s, 32); r_mul(0, s, t); r_addsub(t, rp); r_addsub(rp, rp); }
    /* every special Edwards encoding (torsion points and their non-canonical aliases) and structured invalid Ristretto
     * encodings presented to EVERY consumer, in either operand position */
    { unsigned char g[32], rp[32], bad[32]; vrng_bytes(&R, w, 64); crypto_core_ed25519_from_uniform(g, w); crypto_core_ristretto255_from_hash(rp, w);
      for (int j = 0; j < NTOR; j++) { hexto(torsion_hex[j], T); ed_addsub(T, g); ed_addsub(g, T); ed_addsub(T, T); vrng_bytes(&R, s, 32); ed_mul(1, s, T); ed_mul(0, s, T);
          r_valid(T); r_addsub(T, rp); r_addsub(rp, T); r_mul(0, s, T); }
      for (int j = 0; j < 10; j++) { memcpy(bad, rp, 32);
          switch (j) { case 0: bad[0] |= 1; break;                                  /* negative s */
                       case 1: bad[31] |= 0x80; break;                              /* bit 255 */
                       case 2: memset(bad, 0xff, 32); bad[31] = 0x7f; bad[0] = 0xec; break;     /* s = p - 1 */
                       case 3: memset(bad, 0xff, 32); bad[31] = 0x7f; bad[0] = 0xed; break;     /* s = p     */
                       case 4: memset(bad, 0xff, 32); bad[31] = 0x7f; bad[0] = 0xee; break;     /* s = p + 1 */
                       case 5: memset(bad, 0, 32); bad[0] = 2; break;                           /* small values */
                       case 6: memset(bad, 0, 32); bad[0] = 4; break;
                       case 7: memset(bad, 0, 32); break;                                       /* identity (valid) */
                       case 8: bad[7] ^= 0x20; break;                                           /* random neighbour: mostly non-square */
                       default: bad[20] ^= 0x02; break; }
          r_valid(bad); r_addsub(bad, rp); r_addsub(rp, bad); vrng_bytes(&R, s, 32); s[31] &= 0x0f; r_mul(0, s, bad); } }
    /* results whose encoding differs from the identity's (01 00 .. 00) in a single byte: y = 1 + kk * 2^(8j). The "is the result
     * the identity" test must look at every byte. For each byte position the first such point of the prime-order group is used as
     * the expected result of an unclamped multiplication by 1 and of a clamped multiplication (P1 = clamp(n)^-1 * P). */
    { int found = 0;
      for (int j = 1; j <= 31; j += (n >= 40 ? 1 : (j < 28 ? 9 : 1))) { int done1 = 0;
        for (int kk = 1; kk < (j == 31 ? 128 : 256) && !done1; kk++) for (int sg = 0; sg < 2 && !done1; sg++) {
            unsigned char P[32] = { 1 }, one[32] = { 1 }, nn[32], cl[64] = { 0 }, inv[32], P1[32]; P[j] = (unsigned char) kk; P[31] |= (unsigned char) (sg << 7);
            if (crypto_core_ed25519_is_valid_point(P) != 1) continue;
            done1 = 1; found++;
            ed_valid("near_identity", P); ed_mul(0, one, P);
            vrng_bytes(&R, nn, 32); memcpy(cl, nn, 32); cl[0] &= 248; cl[31] &= 127; cl[31] |= 64;
            crypto_core_ed25519_scalar_reduce(inv, cl); if (crypto_core_ed25519_scalar_invert(inv, inv) == 0 && crypto_scalarmult_ed25519_noclamp(P1, inv, P) == 0) ed_mul(1, nn, P1); } }
      (void) found; }
    /* field elements just below p whose limbs (radix 2^51 and 2^25.5) are all ones except one: as y of an Edwards encoding (either sign)
     * and as s of a Ristretto encoding, given to the validity tests and, when they decode, reproduced as a RESULT (multiplication by 1,
     * addition of the identity) - decoding and the final canonicalisation must look at every limb.  Which of them are points is for the oracle. */
    { static const int LB51[6] = { 0, 51, 102, 153, 204, 255 }, LB26[11] = { 0, 26, 51, 77, 102, 128, 153, 179, 204, 230, 255 };
      unsigned char one[32] = { 1 }, idn[32] = { 1 }, rid[32] = { 0 }, y[32]; int per = n >= 40 ? 4 : 1;
      for (int radix = 0; radix < 2; radix++) { const int *lb = radix ? LB26 : LB51; int nl = radix ? 10 : 5;
        for (int j = 1; j < nl; j++) for (int c = 0; c < per; c++) {
            memset(y, 0xff, 32); y[31] = 0x7f;
            for (int bit = lb[j]; bit < lb[j + 1]; bit++) if (vrng_below(&R, 2)) y[bit >> 3] &= (unsigned char) ~(1u << (bit & 7));
            y[0] = (unsigned char) (0xed + vrng_below(&R, 19));
            for (int sg = 0; sg < 2; sg++) { y[31] = (unsigned char) ((y[31] & 0x7f) | (sg << 7)); ed_valid("near_p", y);
                if (crypto_core_ed25519_is_valid_point(y) == 1 || c == 0) { ed_mul(0, one, y); ed_addsub(y, idn); } }
            y[31] &= 0x7f; y[0] &= 0xfe; r_valid(y); r_addsub(y, rid); } } }
    /* ---- scalar arithmetic: structured + random, reduced and arbitrary byte strings */
    { static const char *sc_hex[] = { "0000000000000000000000000000000000000000000000000000000000000000", "0100000000000000000000000000000000000000000000000000000000000000",
        "ecd3f55c1a631258d69cf7a2def9de1400000000000000000000000000000010", "edd3f55c1a631258d69cf7a2def9de1400000000000000000000000000000010",
        "eed3f55c1a631258d69cf7a2def9de1400000000000000000000000000000010", "ffffffffffffffffffffffffffffffffffffffffffffffffffffffffffffff0f",
        "0000000000000000000000000000000000000000000000000000000000000010", "0100000000000000000000000000000000000000000000000000000000000010",
        "ffffffffffffffffffffffffffffffffffffffffffffffffffffffffffffff7f", "0000000000000000000000000000000000000000000000000000000000000080",
        "ffffffffffffffffffffffffffffffffffffffffffffffffffffffffffffffff", "f6e9fa2e8d3109ac6bce7b516ffc6f0a00000000000000000000000000000008" };
      int ns = (int) (sizeof sc_hex / sizeof sc_hex[0]);
      for (int i = 0; i < ns; i++) for (int j = 0; j < ns; j += 1 + i % 3) { hexto(sc_hex[i], a); hexto(sc_hex[j], b); vrng_bytes(&R, w, 64); if (i == j) memset(w, 0xff, 64);
          int red = i <= 2 || i == 5 || i == 6 || i == 7 || i == 11; int redb = j <= 2 || j == 5 || j == 6 || j == 7 || j == 11; sc_ops(a, b, w, red && redb); }
      for (int i = 0; i < n * 2; i++) { vrng_bytes(&R, w, 64); vrng_bytes(&R, a, 32); vrng_bytes(&R, b, 32); int red = i % 2;
          if (red) { unsigned char x[64] = { 0 }; memcpy(x, a, 32); crypto_core_ed25519_scalar_reduce(a, x); memcpy(x, b, 32); crypto_core_ed25519_scalar_reduce(b, x); }
          if (i % 7 == 0) memset(w + 32, 0, 32); sc_ops(a, b, w, red); } }
    /* ---- one-way maps: membership in the prime-order group */
    for (int i = 0; i < (n + 3) / 4; i++) { vrng_bytes(&R, w, 32); if (i == 0) memset(w, 0, 32); if (i == 1) memset(w, 0xff, 32); crypto_core_ed25519_from_uniform(p, w);
        fprintf(v_out, "{\"op\":\"ed_from_uniform\","); v_emit_bytes("r", w, 32); fputc(',', v_out); e32("out", p); fprintf(v_out, "}\n"); }
    /* ---- hash to group / scalar: every kind of context and message */
    { static char longctx[1100]; memset(longctx, 'X', sizeof longctx); unsigned char msg[300]; vrng_bytes(&R, msg, 300);
      static const size_t cl[] = { 0, 1, 52, 255, 256, 300, 499, 1000 };
      for (int g = 0; g < 3; g++) for (int ro = 0; ro < (g == 2 ? 1 : 2); ro++) for (int hh = 1; hh <= 2; hh++) for (size_t ci = 0; ci < 8; ci++) {
          if (n < 20 && (ci == 1 || ci == 5) ) continue; if (n < 20 && g == 1 && ro == 1) continue;
          h2c(g, ro, hh, longctx, cl[ci], 0, (const unsigned char *) "msg", 3, 0);
          if (ci == 2) { h2c(g, ro, hh, "QUUX-V01-CS02-with-edwards25519_XMD:SHA-512_ELL2_NU_", 52, 0, (const unsigned char *) "abc", 3, 0); h2c(g, ro, hh, NULL, 0, 1, (const unsigned char *) "msg", 3, 0);
              h2c(g, ro, hh, "ctx", 3, 0, msg, 0, 1); h2c(g, ro, hh, "ctx", 3, 0, msg, 200, 0); } } }
    v_close(); return 0;
}
