/* C08: positions handed to Argon2's fill_segment, reported by the guarded hook in argon2_fill_memory_blocks, for runs whose
 * pass counts are far beyond what the byte-exact oracle can evaluate, and for multi-lane foreign strings.
 * usage: argon_sched_driver <out.ndjson> <t> [<t> ...] */
#include "common.h"
#include "private/verif.h"
static void hook(const char *kind, const char *a, const char *b) {
    if (strcmp(kind, "argon2_segment")) return;
    unsigned s = 0; unsigned long ln = 0; sscanf(b, "%u:%lu", &s, &ln);
    fprintf(v_out, "{\"e\":\"seg\",\"pass\":%s,\"slice\":%u,\"lane\":%lu}\n", a, s, ln);
}
int main(int argc, char **argv) {
    if (argc < 3) return 2;
    v_open(argv[1]); v_install_crash_handlers();
    if (sodium_init() < 0) return 3;
    _sodium_verif_hook = hook;
    unsigned char out[32], salt[16] = { 1, 2, 3, 4, 5, 6, 7, 8, 9, 10, 11, 12, 13, 14, 15, 16 };
    for (int i = 2; i < argc; i++) { unsigned long long t = strtoull(argv[i], NULL, 10);
        for (int alg = 1; alg <= 2; alg++) { if (alg == 1 && t < 3) continue;
            v_emit("{\"e\":\"begin\",\"t\":%llu,\"p\":1,\"alg\":%d}", t, alg);
            int r = crypto_pwhash(out, 32, "password", 8, salt, t, 8192, alg == 1 ? crypto_pwhash_ALG_ARGON2I13 : crypto_pwhash_ALG_ARGON2ID13);
            v_emit("{\"e\":\"end\",\"ret\":%d}", r); } }
    /* foreign strings with several lanes (computed from the specification, see pwhash_driver.c) */
    static const struct { const char *s; int t, p; } F[] = {
        { "$argon2id$v=19$m=16,t=1,p=2$MDEyMzQ1Njc4OWFiY2RlZg$lWJkGzrKQkL7Hj9MnA4oOG4F1SwwUdMA1agUMtPMvNU", 1, 2 },
        { "$argon2i$v=19$m=24,t=3,p=3$MDEyMzQ1Njc4OWFiY2RlZg$l0yl3g8SUdGqLnwJbnWKxmITDSvetlWqG09TSgVCNdY", 3, 3 },
        { "$argon2id$v=19$m=40,t=2,p=4$MDEyMzQ1Njc4OWFiY2RlZg$b7yP4dkX5vUgUmjCoG6OBRWsMRg", 2, 4 } };
    for (int i = 0; i < 3; i++) { v_emit("{\"e\":\"begin\",\"t\":%d,\"p\":%d,\"alg\":0}", F[i].t, F[i].p); int r = crypto_pwhash_str_verify(F[i].s, "password", 8); v_emit("{\"e\":\"end\",\"ret\":%d}", r); }
    v_close(); return 0;
}
