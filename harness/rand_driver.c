/* Random-source driver (C18): installs a scripted randombytes implementation (uniform = NULL) through the public
 * API, runs randombytes_uniform on scripted draws, every generating API, and the deterministic generator, and
 * logs NDJSON events for sys/TraceRandomSource.tla.
 *   rand_driver <seed> <nuniform> <out.ndjson>                                                 */
#include "common.h"

static unsigned char script[1 << 16]; static size_t script_len, script_pos;
static size_t reqs[256]; static int nreq;
static uint32_t draws[64]; static int ndraw, draw_pos; static int log_draws;
static vrng R;

static const char *s_name(void) { return "verif-scripted"; }
static long rej_run; static uint32_t rej_val;     /* a long run of one (rejected) value before the script continues */
static uint32_t s_random(void) {
    uint32_t r;
    if (rej_run > 0) { rej_run--; r = rej_val; } else { r = draw_pos < ndraw ? draws[draw_pos] : 0xffffffffu; draw_pos++; }
    if (log_draws) { unsigned char b[4] = { (unsigned char) r, (unsigned char) (r >> 8), (unsigned char) (r >> 16), (unsigned char) (r >> 24) };
        fprintf(v_out, "{\"e\":\"u_draw\","); v_emit_bytes("r", b, 4); fprintf(v_out, "}\n"); }
    return r;
}
static long nreq_total;
static void s_buf(void *buf, size_t n) {
    if (nreq < 256) reqs[nreq++] = n;
    /* a generator that keeps asking after thousands of requests in one call never accepts a candidate the script made acceptable:
     * recorded as an event no action of RandomSource allows (instead of hanging the harness) */
    if (++nreq_total > 20000) { if (v_out) { fprintf(v_out, "{\"e\":\"runaway\",\"requests\":%ld}\n", nreq_total); fflush(v_out); } _exit(70); }
    for (size_t i = 0; i < n; i++) ((unsigned char *) buf)[i] = script_pos < script_len ? script[script_pos++] : 0xA7;
}
static randombytes_implementation s_impl = { s_name, s_random, NULL, NULL, s_buf, NULL };
static void b4(uint32_t v, unsigned char o[4]) { o[0] = (unsigned char) v; o[1] = (unsigned char) (v >> 8); o[2] = (unsigned char) (v >> 16); o[3] = (unsigned char) (v >> 24); }

static void uniform_case(uint32_t n, const uint32_t *ds, int nd) {
    unsigned char b[4];
    memcpy(draws, ds, sizeof(uint32_t) * (size_t) nd); ndraw = nd; draw_pos = 0; log_draws = 1;
    b4(n, b); fprintf(v_out, "{\"e\":\"u_begin\","); v_emit_bytes("n", b, 4); fprintf(v_out, "}\n");
    uint32_t res = randombytes_uniform(n);
    log_draws = 0;
    b4(res, b); fprintf(v_out, "{\"e\":\"u_end\","); v_emit_bytes("res", b, 4); fprintf(v_out, "}\n");
}

/* one generating API: fills out/outlen from the current script; returns 0 */
typedef void (*gen_fn)(unsigned char *out, size_t *outlen);
#define KG(NAME, FN, N) static void g_##NAME(unsigned char *o, size_t *l) { FN(o); *l = N; }
KG(secretbox_keygen, crypto_secretbox_keygen, 32) KG(auth_keygen, crypto_auth_keygen, 32) KG(auth_hmacsha256_keygen, crypto_auth_hmacsha256_keygen, 32)
KG(auth_hmacsha512_keygen, crypto_auth_hmacsha512_keygen, 32) KG(auth_hmacsha512256_keygen, crypto_auth_hmacsha512256_keygen, 32)
KG(aead_chacha20poly1305_keygen, crypto_aead_chacha20poly1305_keygen, 32) KG(aead_chacha20poly1305_ietf_keygen, crypto_aead_chacha20poly1305_ietf_keygen, 32)
KG(aead_xchacha20poly1305_ietf_keygen, crypto_aead_xchacha20poly1305_ietf_keygen, 32) KG(aead_aes256gcm_keygen, crypto_aead_aes256gcm_keygen, 32)
KG(aead_aegis128l_keygen, crypto_aead_aegis128l_keygen, 16) KG(aead_aegis256_keygen, crypto_aead_aegis256_keygen, 32) KG(stream_keygen, crypto_stream_keygen, 32)
KG(stream_chacha20_keygen, crypto_stream_chacha20_keygen, 32) KG(stream_chacha20_ietf_keygen, crypto_stream_chacha20_ietf_keygen, 32)
KG(stream_xchacha20_keygen, crypto_stream_xchacha20_keygen, 32) KG(stream_salsa20_keygen, crypto_stream_salsa20_keygen, 32)
KG(stream_salsa2012_keygen, crypto_stream_salsa2012_keygen, 32) KG(stream_salsa208_keygen, crypto_stream_salsa208_keygen, 32)
KG(stream_xsalsa20_keygen, crypto_stream_xsalsa20_keygen, 32) KG(kdf_keygen, crypto_kdf_keygen, 32) KG(kdf_hkdf_sha256_keygen, crypto_kdf_hkdf_sha256_keygen, 32)
KG(kdf_hkdf_sha512_keygen, crypto_kdf_hkdf_sha512_keygen, 64) KG(generichash_keygen, crypto_generichash_keygen, 32) KG(shorthash_keygen, crypto_shorthash_keygen, 16)
KG(onetimeauth_keygen, crypto_onetimeauth_keygen, 32) KG(secretstream_keygen, crypto_secretstream_xchacha20poly1305_keygen, 32)
KG(generichash_blake2b_keygen, crypto_generichash_blake2b_keygen, 32)
static void g_randombytes_buf_32(unsigned char *o, size_t *l) { randombytes_buf(o, 32); *l = 32; }
static void g_randombytes_buf_1(unsigned char *o, size_t *l) { randombytes_buf(o, 1); *l = 1; }
static void g_randombytes_buf_100(unsigned char *o, size_t *l) { randombytes_buf(o, 100); *l = 100; }
static void g_randombytes_buf_0(unsigned char *o, size_t *l) { randombytes_buf(o, 0); *l = 0; }
static void g_box_keypair(unsigned char *o, size_t *l) { unsigned char pk[32]; crypto_box_keypair(pk, o); memcpy(o + 32, pk, 32); *l = 64; }
static void g_box_xchacha_keypair(unsigned char *o, size_t *l) { unsigned char pk[32]; crypto_box_curve25519xchacha20poly1305_keypair(pk, o); memcpy(o + 32, pk, 32); *l = 64; }
static void g_kx_keypair(unsigned char *o, size_t *l) { unsigned char pk[32]; crypto_kx_keypair(pk, o); memcpy(o + 32, pk, 32); *l = 64; }
static void g_sign_keypair(unsigned char *o, size_t *l) { unsigned char pk[32]; crypto_sign_keypair(pk, o); memcpy(o + 64, pk, 32); *l = 96; }
static void g_ed25519_scalar_random(unsigned char *o, size_t *l) { crypto_core_ed25519_scalar_random(o); *l = 32; }
static void g_ristretto255_scalar_random(unsigned char *o, size_t *l) { crypto_core_ristretto255_scalar_random(o); *l = 32; }
static void g_ed25519_random(unsigned char *o, size_t *l) { crypto_core_ed25519_random(o); *l = 32; }
static void g_ristretto255_random(unsigned char *o, size_t *l) { crypto_core_ristretto255_random(o); *l = 32; }
static void g_secretstream_init_push(unsigned char *o, size_t *l) { crypto_secretstream_xchacha20poly1305_state st; unsigned char k[32]; memset(k, 7, 32);
    crypto_secretstream_xchacha20poly1305_init_push(&st, o, k); *l = 24; }
static void g_box_seal(unsigned char *o, size_t *l) { unsigned char pk[32], sk[32], seed[32]; memset(seed, 9, 32); crypto_box_seed_keypair(pk, sk, seed);
    crypto_box_seal(o, (const unsigned char *) "hello", 5, pk); *l = 5 + crypto_box_SEALBYTES; }
static void g_pwhash_str(unsigned char *o, size_t *l) { char s[crypto_pwhash_STRBYTES]; memset(s, 0, sizeof s); crypto_pwhash_str(s, "pw", 2, crypto_pwhash_OPSLIMIT_MIN, crypto_pwhash_MEMLIMIT_MIN); *l = strlen(s); memcpy(o, s, *l); }
static void g_pwhash_argon2i_str(unsigned char *o, size_t *l) { char s[crypto_pwhash_STRBYTES]; memset(s, 0, sizeof s); crypto_pwhash_argon2i_str(s, "pw", 2, 3, crypto_pwhash_MEMLIMIT_MIN); *l = strlen(s); memcpy(o, s, *l); }
static void g_pwhash_scrypt_str(unsigned char *o, size_t *l) { char s[crypto_pwhash_scryptsalsa208sha256_STRBYTES]; memset(s, 0, sizeof s);
    crypto_pwhash_scryptsalsa208sha256_str(s, "pw", 2, crypto_pwhash_scryptsalsa208sha256_OPSLIMIT_MIN, crypto_pwhash_scryptsalsa208sha256_MEMLIMIT_MIN); *l = strlen(s); memcpy(o, s, *l); }
static void g_pwhash_raw(unsigned char *o, size_t *l) { unsigned char salt[16]; memset(salt, 3, 16); crypto_pwhash(o, 32, "pw", 2, salt, crypto_pwhash_OPSLIMIT_MIN, crypto_pwhash_MEMLIMIT_MIN, crypto_pwhash_ALG_DEFAULT); *l = 32; }

#define G(NAME) { #NAME, g_##NAME }
static const struct { const char *name; gen_fn fn; } gens[] = {
    G(secretbox_keygen), G(auth_keygen), G(auth_hmacsha256_keygen), G(auth_hmacsha512_keygen), G(auth_hmacsha512256_keygen), G(aead_chacha20poly1305_keygen),
    G(aead_chacha20poly1305_ietf_keygen), G(aead_xchacha20poly1305_ietf_keygen), G(aead_aes256gcm_keygen), G(aead_aegis128l_keygen), G(aead_aegis256_keygen),
    G(stream_keygen), G(stream_chacha20_keygen), G(stream_chacha20_ietf_keygen), G(stream_xchacha20_keygen), G(stream_salsa20_keygen), G(stream_salsa2012_keygen),
    G(stream_salsa208_keygen), G(stream_xsalsa20_keygen), G(kdf_keygen), G(kdf_hkdf_sha256_keygen), G(kdf_hkdf_sha512_keygen), G(generichash_keygen), G(shorthash_keygen),
    G(onetimeauth_keygen), G(secretstream_keygen), G(generichash_blake2b_keygen), G(randombytes_buf_32), G(randombytes_buf_1), G(randombytes_buf_100), G(randombytes_buf_0),
    G(box_keypair), G(box_xchacha_keypair), G(kx_keypair), G(sign_keypair), G(ed25519_scalar_random), G(ristretto255_scalar_random), G(ed25519_random),
    G(ristretto255_random), G(secretstream_init_push), G(box_seal), G(pwhash_str), G(pwhash_argon2i_str), G(pwhash_scrypt_str), G(pwhash_raw),
};
#define NGEN ((int) (sizeof gens / sizeof gens[0]))

static void make_script(int gi, int variant) {
    /* variant-dependent script; for the scalar generators the first chunks are made to be rejected on purpose */
    script_len = 512; vrng_bytes(&R, script, script_len);
    if (strstr(gens[gi].name, "scalar_random")) {
        int rejects = variant % 4; static const unsigned char Lb[32] = { 0xed, 0xd3, 0xf5, 0x5c, 0x1a, 0x63, 0x12, 0x58, 0xd6, 0x9c, 0xf7, 0xa2, 0xde, 0xf9, 0xde, 0x14, 0, 0, 0, 0, 0, 0, 0, 0, 0, 0, 0, 0, 0, 0, 0, 0x10 };
        for (int i = 0; i < rejects; i++) {
            unsigned char *c = script + 32 * i;
            switch ((variant + i) % 4) {
            case 0: memset(c, 0, 32); c[31] = 0xe0; break;                       /* zero after masking */
            case 1: memcpy(c, Lb, 32); break;                                    /* exactly L */
            case 2: memset(c, 0xff, 32); break;                                  /* 2^253-1 >= L */
            default: memcpy(c, Lb, 32); c[0] += 1; c[31] |= 0xa0; break;          /* L+1 with high bits set */
            }
        }
        unsigned char *c = script + 32 * rejects;
        if (variant % 3 == 0) { memcpy(c, Lb, 32); c[0] -= 1; c[31] |= 0xe0; }   /* L-1 with high bits set: accepted */
        else if (variant % 3 == 1) { memset(c, 0, 32); c[0] = 1; }               /* 1 */
        else c[31] &= 0x0f;
    }
}
static void run_gen(int gi, unsigned char *out, size_t *outlen) { script_pos = 0; nreq = 0; nreq_total = 0; memset(out, 0, 256); gens[gi].fn(out, outlen); }

int main(int argc, char **argv) {
    if (argc < 4) return 3;
    uint64_t seed = strtoull(argv[1], NULL, 10); int nuni = atoi(argv[2]);
    vrng_seed(&R, seed, 18);
    v_open(argv[3]);
    randombytes_set_implementation(&s_impl);
    if (sodium_init() < 0) return 3;
    v_install_crash_handlers();
    /* ---- sampler: structured bounds x draws placed around the rejection threshold */
    static const uint32_t fixed[] = { 0, 1, 2, 3, 4, 5, 6, 7, 10, 255, 256, 257, 65535, 65536, 65537, 0x7fffffff, 0x80000000u, 0x80000001u, 0xfffffffeu, 0xffffffffu, 0xaaaaaaabu, 3000000000u, 1u << 20, (1u << 20) + 1, (1u << 31) - 5, 1000000007u };
    int nfixed = (int) (sizeof fixed / sizeof fixed[0]);
    for (int t = 0; t < nuni; t++) {
        uint32_t n = t < nfixed ? fixed[t] : (t % 3 == 0 ? (uint32_t) vrng_u64(&R) : t % 3 == 1 ? (1u << vrng_below(&R, 32)) + vrng_below(&R, 3) - 1 : vrng_below(&R, 1000) + 2);
        uint32_t min = n >= 2 ? (uint32_t) ((0x100000000ULL) % n) : 0;     /* only used to PLACE the draws; the specification recomputes it */
        for (int pat = 0; pat < 6; pat++) {
            uint32_t ds[8]; int nd = 0;
            switch (pat) {
            case 0: ds[nd++] = min; break;
            case 1: if (min) ds[nd++] = min - 1; ds[nd++] = min + 1; break;
            case 2: ds[nd++] = 0; if (min) { ds[nd++] = min - 1; ds[nd++] = min / 2; } ds[nd++] = 0xffffffffu; break;
            case 3: ds[nd++] = (uint32_t) vrng_u64(&R); ds[nd++] = (uint32_t) vrng_u64(&R) | 0x80000000u; ds[nd++] = 0xffffffffu; break;
            case 4: if (min) { ds[nd++] = min - 1; ds[nd++] = min - 1; ds[nd++] = min - 1; } ds[nd++] = min; break;
            default: ds[nd++] = n ? n - 1 : 0; ds[nd++] = n; ds[nd++] = 0xfffffff0u; break;
            }
            ds[nd++] = 0xffffffffu;       /* always terminates */
            uniform_case(n, ds, nd);
        }
    }
    /* ---- long runs of rejected draws: the sampler has no retry limit - the result is the first accepted draw however late it comes */
    { static const uint32_t NS[3] = { 3, 0x80000001u, 10 }; static const long RUNS[5] = { 1023, 1024, 1025, 2500, 20000 };
      for (int a = 0; a < 3; a++) for (int b = 0; b < (nuni >= 200 ? 5 : 4); b++) {
          uint32_t n = NS[a], min = (uint32_t) (0x100000000ULL % n), ds[2] = { min + 7, 0xffffffffu }; if (!min) continue;
          rej_val = min - 1; rej_run = RUNS[b]; uniform_case(n, ds, 2); rej_run = 0; } }
    /* ---- every generating API, three scripts each; run twice with the same script, once with another */
    for (int gi = 0; gi < NGEN; gi++) for (int variant = 0; variant < 3; variant++) {
        unsigned char out[256], out2[256], out3[256], served[512]; size_t l1, l2, l3;
        make_script(gi, variant + (int) (seed % 5));
        run_gen(gi, out, &l1); size_t used = script_pos; int nr = nreq; size_t rq[256]; memcpy(rq, reqs, sizeof rq); memcpy(served, script, used);
        /* life cycle of the installed source: closing or stirring the generator between two uses does not replace the source the
         * caller installed - the replay must still be served by it */
        if (variant == 1) randombytes_close(); else if (variant == 2) randombytes_stir();
        if (variant) fprintf(v_out, "{\"e\":\"life\",\"op\":\"%s\",\"active\":\"%s\"}\n", variant == 1 ? "close" : "stir", randombytes_implementation_name());
        run_gen(gi, out2, &l2);
        int same = l1 == l2 && memcmp(out, out2, l1) == 0 && nreq == nr && !strcmp(randombytes_implementation_name(), "verif-scripted");
        for (size_t i = 0; i < used; i++) script[i] ^= 0x5c;
        if (strstr(gens[gi].name, "scalar_random")) { for (size_t i = 0; i < used; i++) script[i] ^= 0x5c; script[32 * (size_t) (nr - 1) + 3] ^= 0x10; }
        run_gen(gi, out3, &l3);
        int sens = used == 0 || l1 != l3 || memcmp(out, out3, l1) != 0;
        fprintf(v_out, "{\"e\":\"gen\",\"api\":\"%s\",\"reqs\":[", gens[gi].name);
        for (int i = 0; i < nr; i++) fprintf(v_out, i ? ",%zu" : "%zu", rq[i]);
        fprintf(v_out, "],"); v_emit_bytes("served", served, used); fputc(',', v_out); v_emit_bytes("out", out, l1);
        fprintf(v_out, ",\"repeat_equal\":%s,\"sensitive\":%s}\n", same ? "true" : "false", sens ? "true" : "false");
    }
    /* ---- deterministic generator: all lengths in one record per seed */
    for (int s = 0; s < 2; s++) {
        unsigned char sd[32]; vrng_bytes(&R, sd, 32); if (s == 1) memset(sd, 0, 32);
        fprintf(v_out, "{\"e\":\"det\","); v_emit_bytes("seed", sd, 32); fprintf(v_out, ",\"lens\":[");
        static unsigned char buf[2048]; int first = 1; size_t lens[64]; int nl = 0;
        for (size_t L = 0; L <= 1100 && nl < 64; L = L < 70 ? L + (s ? 7 : 1) : L + 61 + (size_t) s) lens[nl++] = L;
        for (int i = 0; i < nl; i++) { fprintf(v_out, first ? "%zu" : ",%zu", lens[i]); first = 0; }
        fprintf(v_out, "],\"cat\":["); first = 1;
        for (int i = 0; i < nl; i++) { memset(buf, 0xee, sizeof buf); randombytes_buf_deterministic(buf, lens[i], sd);
            for (size_t j = 0; j < lens[i]; j++) { fprintf(v_out, first ? "%u" : ",%u", buf[j]); first = 0; } }
        fprintf(v_out, "]}\n");
    }
    v_close();
    return 0;
}
