/* C11: secret-independence of branches and addresses, observed by data-flow tainting (Valgrind memcheck:
 * secret bytes are marked "undefined"; memcheck propagates definedness bit-precisely through the compiled code and
 * reports every conditional jump and every memory address that depends on them, so one execution decides the
 * property for all secret values along its path).
 * Each operation of spec/sys/ConstTime.tla!Ops is one noinline function op_<name>(len): it prepares public inputs,
 * taints the secret operands, calls the library, and declassifies exactly what the specification calls public
 * (outputs, status). Markers are written into Valgrind's log with VALGRIND_PRINTF, so reports are attributed to
 * the operation that ran. Run as:  valgrind --tool=memcheck ... taint_driver <seed> [op-filter]
 * Outside Valgrind the client requests are no-ops and the program only checks that every operation runs. */
#include "common.h"
#include <valgrind/memcheck.h>

#define SECRET(p, n) VALGRIND_MAKE_MEM_UNDEFINED((p), (n))
#define PUBLIC(p, n) VALGRIND_MAKE_MEM_DEFINED((p), (n))
#define NOINLINE __attribute__((noinline))
typedef unsigned long long ULL;

static vrng rng;
static int taint_random;          /* when set, bytes served by randombytes are secret */
static void t_rb_buf(void *buf, size_t n) { vrng_bytes(&rng, (unsigned char *) buf, n); if (taint_random) SECRET(buf, n); }
static uint32_t t_rb_random(void) { return (uint32_t) vrng_u64(&rng); }
static const char *t_rb_name(void) { return "verif-taint"; }
static randombytes_implementation t_rb_impl = { t_rb_name, t_rb_random, NULL, NULL, t_rb_buf, NULL };

#define MAXL (1048576 + 4200)
static unsigned char M[MAXL + 64 + 32768], C[MAXL + 128], C2[MAXL + 128], K[64], N[32], AD[64], PK[32], SK[64], Q[64], T[64], SIG[64], S1[64], S2[64];
static unsigned char *fresh(unsigned char *p, size_t n) { vrng_bytes(&rng, p, n); PUBLIC(p, n); return p; }
static volatile int sink;
static void pub_int(int *r) { PUBLIC(r, sizeof *r); sink += *r; }

#define OP(name) static NOINLINE void op_##name(size_t len)
/* ---- comparison helpers: both operands secret */
OP(sodium_memcmp) { fresh(M, len); memcpy(C, M, len); if (len) C[len - 1] ^= (unsigned char) (len & 1); SECRET(M, len); SECRET(C, len); int r = sodium_memcmp(M, C, len); pub_int(&r); }
OP(sodium_compare) { fresh(M, len); fresh(C, len); SECRET(M, len); SECRET(C, len); int r = sodium_compare(M, C, len); pub_int(&r); }
OP(sodium_is_zero) { fresh(M, len); SECRET(M, len); int r = sodium_is_zero(M, len); pub_int(&r); }
OP(crypto_verify_16) { fresh(M, 16); fresh(C, 16); SECRET(M, 16); SECRET(C, 16); int r = crypto_verify_16(M, C); pub_int(&r); }
OP(crypto_verify_32) { fresh(M, 32); memcpy(C, M, 32); SECRET(M, 32); SECRET(C, 32); int r = crypto_verify_32(M, C); pub_int(&r); }
OP(crypto_verify_64) { fresh(M, 64); fresh(C, 64); SECRET(M, 64); SECRET(C, 64); int r = crypto_verify_64(M, C); pub_int(&r); }
OP(sodium_increment) { fresh(M, len); SECRET(M, len); sodium_increment(M, len); PUBLIC(M, len); }
OP(sodium_add) { fresh(M, len); fresh(C, len); SECRET(M, len); SECRET(C, len); sodium_add(M, C, len); PUBLIC(M, len); }
OP(sodium_sub) { fresh(M, len); fresh(C, len); SECRET(M, len); SECRET(C, len); sodium_sub(M, C, len); PUBLIC(M, len); }
/* ---- X25519 */
OP(crypto_scalarmult) { fresh(SK, 32); crypto_scalarmult_base(PK, fresh(T, 32)); PUBLIC(PK, 32); SECRET(SK, 32); int r = crypto_scalarmult(Q, SK, PK); pub_int(&r); PUBLIC(Q, 32); }
OP(crypto_scalarmult_base) { fresh(SK, 32); SECRET(SK, 32); int r = crypto_scalarmult_base(Q, SK); pub_int(&r); PUBLIC(Q, 32); }
OP(crypto_box_keypair) { taint_random = 1; crypto_box_keypair(PK, SK); taint_random = 0; PUBLIC(PK, 32); PUBLIC(SK, 32); }
OP(crypto_box_seed_keypair) { fresh(T, 32); SECRET(T, 32); crypto_box_seed_keypair(PK, SK, T); PUBLIC(PK, 32); PUBLIC(SK, 32); }
OP(crypto_box_beforenm) { fresh(SK, 32); crypto_scalarmult_base(PK, fresh(T, 32)); PUBLIC(PK, 32); SECRET(SK, 32); int r = crypto_box_beforenm(Q, PK, SK); pub_int(&r); PUBLIC(Q, 32); }
OP(crypto_kx_client_session_keys) { unsigned char cpk[32], csk[32], spk[32], ssk[32]; crypto_kx_keypair(cpk, csk); crypto_kx_keypair(spk, ssk); PUBLIC(cpk, 32); PUBLIC(spk, 32); PUBLIC(csk, 32);
    SECRET(csk, 32); int r = crypto_kx_client_session_keys(S1, S2, cpk, csk, spk); pub_int(&r); PUBLIC(S1, 32); PUBLIC(S2, 32); PUBLIC(csk, 32); }
/* ---- Ed25519 key generation and signing */
OP(crypto_sign_seed_keypair) { fresh(T, 32); SECRET(T, 32); crypto_sign_seed_keypair(PK, SK, T); PUBLIC(PK, 32); PUBLIC(SK, 64); }
OP(crypto_sign_keypair) { taint_random = 1; crypto_sign_keypair(PK, SK); taint_random = 0; PUBLIC(PK, 32); PUBLIC(SK, 64); }
OP(crypto_sign_detached) { crypto_sign_seed_keypair(PK, SK, fresh(T, 32)); PUBLIC(SK, 64); fresh(M, len); SECRET(SK, 64); SECRET(M, len);
    ULL sl; int r = crypto_sign_detached(SIG, &sl, M, len, SK); pub_int(&r); PUBLIC(SIG, 64); PUBLIC(&sl, sizeof sl); PUBLIC(SK, 64); }
OP(crypto_sign) { crypto_sign_seed_keypair(PK, SK, fresh(T, 32)); PUBLIC(SK, 64); fresh(M, len); SECRET(SK, 64);
    ULL sl; int r = crypto_sign(C, &sl, M, len, SK); pub_int(&r); PUBLIC(C, len + 64); PUBLIC(&sl, sizeof sl); PUBLIC(SK, 64); }
OP(crypto_sign_multipart) { crypto_sign_seed_keypair(PK, SK, fresh(T, 32)); PUBLIC(SK, 64); fresh(M, len); SECRET(SK, 64); SECRET(M, len);
    crypto_sign_state st; crypto_sign_init(&st); crypto_sign_update(&st, M, len / 2); crypto_sign_update(&st, M + len / 2, len - len / 2);
    int r = crypto_sign_final_create(&st, SIG, NULL, SK); pub_int(&r); PUBLIC(SIG, 64); PUBLIC(SK, 64); PUBLIC(&st, sizeof st); }
OP(crypto_sign_ed25519_sk_to_curve25519) { crypto_sign_seed_keypair(PK, SK, fresh(T, 32)); PUBLIC(SK, 64); SECRET(SK, 64); int r = crypto_sign_ed25519_sk_to_curve25519(Q, SK); pub_int(&r); PUBLIC(Q, 32); PUBLIC(SK, 64); }
/* ---- Edwards / Ristretto scalar multiplication and scalar arithmetic */
static void edpoint(unsigned char *p) { crypto_core_ed25519_from_uniform(p, fresh(T, 32)); PUBLIC(p, 32); }
static void ripoint(unsigned char *p) { crypto_core_ristretto255_from_hash(p, fresh(T, 64)); PUBLIC(p, 32); }
OP(crypto_scalarmult_ed25519) { edpoint(PK); fresh(SK, 32); SECRET(SK, 32); int r = crypto_scalarmult_ed25519(Q, SK, PK); pub_int(&r); PUBLIC(Q, 32); }
OP(crypto_scalarmult_ed25519_noclamp) { edpoint(PK); fresh(SK, 32); SK[31] &= 0x0f; SECRET(SK, 32); int r = crypto_scalarmult_ed25519_noclamp(Q, SK, PK); pub_int(&r); PUBLIC(Q, 32); }
OP(crypto_scalarmult_ed25519_base) { fresh(SK, 32); SECRET(SK, 32); int r = crypto_scalarmult_ed25519_base(Q, SK); pub_int(&r); PUBLIC(Q, 32); }
OP(crypto_scalarmult_ed25519_base_noclamp) { fresh(SK, 32); SK[31] &= 0x0f; SECRET(SK, 32); int r = crypto_scalarmult_ed25519_base_noclamp(Q, SK); pub_int(&r); PUBLIC(Q, 32); }
OP(crypto_scalarmult_ristretto255) { ripoint(PK); fresh(SK, 32); SK[31] &= 0x0f; SECRET(SK, 32); int r = crypto_scalarmult_ristretto255(Q, SK, PK); pub_int(&r); PUBLIC(Q, 32); }
OP(crypto_scalarmult_ristretto255_base) { fresh(SK, 32); SK[31] &= 0x0f; SECRET(SK, 32); int r = crypto_scalarmult_ristretto255_base(Q, SK); pub_int(&r); PUBLIC(Q, 32); }
#define SCALAR1(fn) OP(fn) { fresh(S1, 32); S1[31] &= 0x0f; SECRET(S1, 32); fn(Q, S1); PUBLIC(Q, 32); }
#define SCALAR2(fn) OP(fn) { fresh(S1, 32); fresh(S2, 32); S1[31] &= 0x0f; SECRET(S1, 32); SECRET(S2, 32); fn(Q, S1, S2); PUBLIC(Q, 32); }
OP(crypto_core_ed25519_scalar_invert) { fresh(S1, 32); S1[31] &= 0x0f; SECRET(S1, 32); int r = crypto_core_ed25519_scalar_invert(Q, S1); pub_int(&r); PUBLIC(Q, 32); }
OP(crypto_core_ristretto255_scalar_invert) { fresh(S1, 32); S1[31] &= 0x0f; SECRET(S1, 32); int r = crypto_core_ristretto255_scalar_invert(Q, S1); pub_int(&r); PUBLIC(Q, 32); }
SCALAR1(crypto_core_ed25519_scalar_negate) SCALAR1(crypto_core_ed25519_scalar_complement)
SCALAR2(crypto_core_ed25519_scalar_add) SCALAR2(crypto_core_ed25519_scalar_sub) SCALAR2(crypto_core_ed25519_scalar_mul)
SCALAR1(crypto_core_ristretto255_scalar_negate) SCALAR1(crypto_core_ristretto255_scalar_complement)
SCALAR2(crypto_core_ristretto255_scalar_add) SCALAR2(crypto_core_ristretto255_scalar_sub) SCALAR2(crypto_core_ristretto255_scalar_mul)
OP(crypto_core_ed25519_scalar_reduce) { fresh(S1, 64); SECRET(S1, 64); crypto_core_ed25519_scalar_reduce(Q, S1); PUBLIC(Q, 32); }
OP(crypto_core_ristretto255_scalar_reduce) { fresh(S1, 64); SECRET(S1, 64); crypto_core_ristretto255_scalar_reduce(Q, S1); PUBLIC(Q, 32); }
/* ---- secret-key primitives: key and message secret; nonce, lengths, associated data public */
#define STREAMX(fn, nb) OP(fn##_xor) { fresh(K, 32); fresh(N, nb); fresh(M, len); SECRET(K, 32); SECRET(M, len); fn##_xor(C, M, len, N, K); PUBLIC(C, len); } \
    OP(fn) { fresh(K, 32); fresh(N, nb); SECRET(K, 32); fn(C, len, N, K); PUBLIC(C, len); }
STREAMX(crypto_stream_chacha20, 8) STREAMX(crypto_stream_chacha20_ietf, 12) STREAMX(crypto_stream_xchacha20, 24)
STREAMX(crypto_stream_salsa20, 8) STREAMX(crypto_stream_xsalsa20, 24) STREAMX(crypto_stream_salsa2012, 8) STREAMX(crypto_stream_salsa208, 8)
OP(crypto_onetimeauth) { fresh(K, 32); fresh(M, len); SECRET(K, 32); SECRET(M, len); crypto_onetimeauth(T, M, len, K); PUBLIC(T, 16); }
OP(crypto_onetimeauth_multipart) { fresh(K, 32); fresh(M, len); SECRET(K, 32); SECRET(M, len); crypto_onetimeauth_state st; crypto_onetimeauth_init(&st, K);
    crypto_onetimeauth_update(&st, M, len / 3); crypto_onetimeauth_update(&st, M + len / 3, len - len / 3); crypto_onetimeauth_final(&st, T); PUBLIC(T, 16); PUBLIC(&st, sizeof st); }
OP(crypto_onetimeauth_verify) { fresh(K, 32); fresh(M, len); crypto_onetimeauth(T, M, len, K); PUBLIC(T, 16); SECRET(K, 32); int r = crypto_onetimeauth_verify(T, M, len, K); pub_int(&r); }
#define AUTHX(fn, ob) OP(fn) { fresh(K, 32); fresh(M, len); SECRET(K, 32); SECRET(M, len); fn(T, M, len, K); PUBLIC(T, ob); } \
    OP(fn##_verify) { fresh(K, 32); fresh(M, len); fn(T, M, len, K); PUBLIC(T, ob); SECRET(K, 32); int r = fn##_verify(T, M, len, K); pub_int(&r); }
AUTHX(crypto_auth_hmacsha256, 32) AUTHX(crypto_auth_hmacsha512, 64) AUTHX(crypto_auth_hmacsha512256, 32)
OP(crypto_hash_sha256) { fresh(M, len); SECRET(M, len); crypto_hash_sha256(T, M, len); PUBLIC(T, 32); }
OP(crypto_hash_sha512) { fresh(M, len); SECRET(M, len); crypto_hash_sha512(T, M, len); PUBLIC(T, 64); }
OP(crypto_generichash_keyed) { fresh(K, 32); fresh(M, len); SECRET(K, 32); SECRET(M, len); crypto_generichash(T, 32, M, len, K, 32); PUBLIC(T, 32); }
OP(crypto_generichash_multipart) { fresh(K, 64); fresh(M, len); SECRET(K, 64); SECRET(M, len); crypto_generichash_state st; crypto_generichash_init(&st, K, 64, 64);
    crypto_generichash_update(&st, M, len / 2); crypto_generichash_update(&st, M + len / 2, len - len / 2); crypto_generichash_final(&st, T, 64); PUBLIC(T, 64); PUBLIC(&st, sizeof st); }
OP(crypto_shorthash) { fresh(K, 16); fresh(M, len); SECRET(K, 16); SECRET(M, len); crypto_shorthash(T, M, len, K); PUBLIC(T, 8); }
OP(crypto_shorthash_siphashx24) { fresh(K, 16); fresh(M, len); SECRET(K, 16); SECRET(M, len); crypto_shorthash_siphashx24(T, M, len, K); PUBLIC(T, 16); }
OP(crypto_kdf_derive_from_key) { fresh(K, 32); SECRET(K, 32); crypto_kdf_derive_from_key(T, 16 + len % 49, 7, "context_", K); PUBLIC(T, 64); }
OP(crypto_kdf_hkdf_sha256) { fresh(K, 32); fresh(M, len); SECRET(M, len); crypto_kdf_hkdf_sha256_extract(T, K, 32, M, len); crypto_kdf_hkdf_sha256_expand(C, 100, "ctx", 3, T); PUBLIC(T, 32); PUBLIC(C, 100); }
OP(crypto_kdf_hkdf_sha512) { fresh(K, 32); fresh(M, len); SECRET(M, len); crypto_kdf_hkdf_sha512_extract(T, K, 32, M, len); crypto_kdf_hkdf_sha512_expand(C, 100, "ctx", 3, T); PUBLIC(T, 64); PUBLIC(C, 100); }
#define SBOXX(P) OP(P##_easy) { fresh(K, 32); fresh(N, 24); fresh(M, len); SECRET(K, 32); SECRET(M, len); P##_easy(C, M, len, N, K); PUBLIC(C, len + 16); } \
    OP(P##_open_easy) { fresh(K, 32); fresh(N, 24); fresh(M, len); P##_easy(C, M, len, N, K); PUBLIC(C, len + 16); SECRET(K, 32); int r = P##_open_easy(C2, C, len + 16, N, K); pub_int(&r); PUBLIC(C2, len); }
SBOXX(crypto_secretbox) SBOXX(crypto_secretbox_xchacha20poly1305)
OP(crypto_box_easy) { crypto_scalarmult_base(PK, fresh(T, 32)); PUBLIC(PK, 32); fresh(SK, 32); fresh(N, 24); fresh(M, len); SECRET(SK, 32); SECRET(M, len);
    int r = crypto_box_easy(C, M, len, N, PK, SK); pub_int(&r); PUBLIC(C, len + 16); }
#define AEADX(P, nb, kb, ab) OP(P##_encrypt) { fresh(K, kb); fresh(N, nb); fresh(AD, 17); fresh(M, len); SECRET(K, kb); SECRET(M, len); \
        P##_encrypt(C, NULL, M, len, AD, 17, NULL, N, K); PUBLIC(C, len + ab); } \
    OP(P##_encrypt_detached) { fresh(K, kb); fresh(N, nb); fresh(M, len); SECRET(K, kb); SECRET(M, len); \
        P##_encrypt_detached(C, T, NULL, M, len, NULL, 0, NULL, N, K); PUBLIC(C, len); PUBLIC(T, ab); } \
    OP(P##_decrypt) { fresh(K, kb); fresh(N, nb); fresh(AD, 17); fresh(M, len); P##_encrypt(C, NULL, M, len, AD, 17, NULL, N, K); PUBLIC(C, len + ab); SECRET(K, kb); \
        int r = P##_decrypt(C2, NULL, NULL, C, len + ab, AD, 17, N, K); pub_int(&r); PUBLIC(C2, len); }
AEADX(crypto_aead_chacha20poly1305, 8, 32, 16) AEADX(crypto_aead_chacha20poly1305_ietf, 12, 32, 16) AEADX(crypto_aead_xchacha20poly1305_ietf, 24, 32, 16)
AEADX(crypto_aead_aes256gcm, 12, 32, 16) AEADX(crypto_aead_aegis128l, 16, 16, 32) AEADX(crypto_aead_aegis256, 32, 32, 32)
OP(crypto_secretstream_push) { crypto_secretstream_xchacha20poly1305_state st; unsigned char h[24]; fresh(K, 32); fresh(M, len); SECRET(K, 32); SECRET(M, len);
    crypto_secretstream_xchacha20poly1305_init_push(&st, h, K); crypto_secretstream_xchacha20poly1305_push(&st, C, NULL, M, len, NULL, 0, 0);
    crypto_secretstream_xchacha20poly1305_push(&st, C2, NULL, M, len, NULL, 0, crypto_secretstream_xchacha20poly1305_TAG_REKEY); PUBLIC(C, len + 17); PUBLIC(C2, len + 17); PUBLIC(h, 24); PUBLIC(&st, sizeof st); }
/* ---- encoders and padding: the binary data (and the padding length) are secret */
OP(sodium_bin2hex) { fresh(M, len); SECRET(M, len); sodium_bin2hex((char *) C, 2 * len + 1, M, len); PUBLIC(C, 2 * len + 1); }
#define B64X(v) OP(sodium_bin2base64_v##v) { fresh(M, len); SECRET(M, len); size_t n = sodium_base64_ENCODED_LEN(len, v); sodium_bin2base64((char *) C, n, M, len, v); PUBLIC(C, n); }
B64X(1) B64X(3) B64X(5) B64X(7)
OP(sodium_pad) { size_t bs = 16, n = 0; fresh(M, len + 64); SECRET(M, len); int r = sodium_pad(&n, M, len, bs, len + 64); pub_int(&r); PUBLIC(M, len + 64); PUBLIC(&n, sizeof n); }
OP(sodium_unpad) { size_t bs = 16, n = 0, pl = 0; fresh(M, len + 64); sodium_pad(&pl, M, len, bs, len + 64); PUBLIC(M, len + 64); SECRET(M, pl);
    int r = sodium_unpad(&n, M, pl, bs); pub_int(&r); PUBLIC(&n, sizeof n); PUBLIC(M, len + 64); }
#define UNPAD_BS(NAME, BS) OP(NAME) { size_t bs = BS, n = 0, pl = 0; fresh(M, len + BS + 64); sodium_pad(&pl, M, len, bs, len + BS + 64); PUBLIC(M, len + BS + 64); SECRET(M, pl); \
    int r = sodium_unpad(&n, M, pl, bs); pub_int(&r); PUBLIC(&n, sizeof n); PUBLIC(M, len + BS + 64); }
UNPAD_BS(sodium_unpad_bs16384, 16384) UNPAD_BS(sodium_unpad_bs5000, 5000)
OP(sodium_pad_bs16384) { size_t pl = 0; fresh(M, len + 16384 + 64); SECRET(M, len); int r = sodium_pad(&pl, M, len, 16384, len + 16384 + 64); pub_int(&r); PUBLIC(M, len + 16384 + 64); }
OP(sodium_unpad_invalid_bs8192) { size_t n = 0; fresh(M, len + 8192 + 64); SECRET(M, len + 8192 + 64); int r = sodium_unpad(&n, M, ((len + 8192 + 64) / 8192) * 8192, 8192); pub_int(&r); PUBLIC(&n, sizeof n); PUBLIC(M, len + 8192 + 64); }
OP(sodium_unpad_invalid) { size_t n = 0; fresh(M, len + 64); SECRET(M, len + 64); int r = sodium_unpad(&n, M, ((len + 64) / 16) * 16, 16); pub_int(&r); PUBLIC(&n, sizeof n); PUBLIC(M, len + 64); }

/* ---- self-checks: deliberately leaky, the monitor must report them */
static NOINLINE void side_effect(void) { sink += 3; }
static volatile unsigned char leak_table[256];
OP(selfcheck_branch) { (void) len; fresh(M, 16); SECRET(M, 16); if (M[3] & 1) side_effect(); PUBLIC(M, 16); }
OP(selfcheck_index) { (void) len; fresh(M, 16); SECRET(M, 16); int r = leak_table[M[5]]; pub_int(&r); PUBLIC(M, 16); }

typedef struct { const char *name; void (*f)(size_t); int has_len; } opent;
#define L1(n) { #n, op_##n, 1 }
#define L0(n) { #n, op_##n, 0 }
#define ST(n) L1(n##_xor), L1(n)
#define AE(n) L1(n##_encrypt), L1(n##_encrypt_detached), L1(n##_decrypt)
static const opent ops[] = {
    L0(selfcheck_branch), L0(selfcheck_index),
    L1(sodium_memcmp), L1(sodium_compare), L1(sodium_is_zero), L0(crypto_verify_16), L0(crypto_verify_32), L0(crypto_verify_64), L1(sodium_increment), L1(sodium_add), L1(sodium_sub),
    L0(crypto_scalarmult), L0(crypto_scalarmult_base), L0(crypto_box_keypair), L0(crypto_box_seed_keypair), L0(crypto_box_beforenm), L0(crypto_kx_client_session_keys),
    L0(crypto_sign_seed_keypair), L0(crypto_sign_keypair), L1(crypto_sign_detached), L1(crypto_sign), L1(crypto_sign_multipart), L0(crypto_sign_ed25519_sk_to_curve25519),
    L0(crypto_scalarmult_ed25519), L0(crypto_scalarmult_ed25519_noclamp), L0(crypto_scalarmult_ed25519_base), L0(crypto_scalarmult_ed25519_base_noclamp),
    L0(crypto_scalarmult_ristretto255), L0(crypto_scalarmult_ristretto255_base),
    L0(crypto_core_ed25519_scalar_invert), L0(crypto_core_ed25519_scalar_negate), L0(crypto_core_ed25519_scalar_complement), L0(crypto_core_ed25519_scalar_add),
    L0(crypto_core_ed25519_scalar_sub), L0(crypto_core_ed25519_scalar_mul), L0(crypto_core_ed25519_scalar_reduce),
    L0(crypto_core_ristretto255_scalar_invert), L0(crypto_core_ristretto255_scalar_negate), L0(crypto_core_ristretto255_scalar_complement), L0(crypto_core_ristretto255_scalar_add),
    L0(crypto_core_ristretto255_scalar_sub), L0(crypto_core_ristretto255_scalar_mul), L0(crypto_core_ristretto255_scalar_reduce),
    ST(crypto_stream_chacha20), ST(crypto_stream_chacha20_ietf), ST(crypto_stream_xchacha20), ST(crypto_stream_salsa20), ST(crypto_stream_xsalsa20), ST(crypto_stream_salsa2012), ST(crypto_stream_salsa208),
    L1(crypto_onetimeauth), L1(crypto_onetimeauth_multipart), L1(crypto_onetimeauth_verify),
    L1(crypto_auth_hmacsha256), L1(crypto_auth_hmacsha256_verify), L1(crypto_auth_hmacsha512), L1(crypto_auth_hmacsha512_verify), L1(crypto_auth_hmacsha512256), L1(crypto_auth_hmacsha512256_verify),
    L1(crypto_hash_sha256), L1(crypto_hash_sha512), L1(crypto_generichash_keyed), L1(crypto_generichash_multipart), L1(crypto_shorthash), L1(crypto_shorthash_siphashx24),
    L1(crypto_kdf_derive_from_key), L1(crypto_kdf_hkdf_sha256), L1(crypto_kdf_hkdf_sha512),
    L1(crypto_secretbox_easy), L1(crypto_secretbox_open_easy), L1(crypto_secretbox_xchacha20poly1305_easy), L1(crypto_secretbox_xchacha20poly1305_open_easy), L1(crypto_box_easy),
    AE(crypto_aead_chacha20poly1305), AE(crypto_aead_chacha20poly1305_ietf), AE(crypto_aead_xchacha20poly1305_ietf), AE(crypto_aead_aes256gcm), AE(crypto_aead_aegis128l), AE(crypto_aead_aegis256),
    L1(crypto_secretstream_push),
    L1(sodium_bin2hex), L1(sodium_bin2base64_v1), L1(sodium_bin2base64_v3), L1(sodium_bin2base64_v5), L1(sodium_bin2base64_v7), L1(sodium_pad), L1(sodium_unpad), L1(sodium_unpad_invalid), L1(sodium_unpad_bs16384), L1(sodium_unpad_bs5000), L1(sodium_pad_bs16384), L1(sodium_unpad_invalid_bs8192),
};

int main(int argc, char **argv) {
    uint64_t seed = argc > 1 ? strtoull(argv[1], NULL, 10) : 1;
    const char *filter = argc > 2 ? argv[2] : NULL;
    size_t lens[600]; int nl = 0;
    for (int i = 3; i < argc && nl < 600; i++) lens[nl++] = (size_t) atol(argv[i]);
    if (nl == 0) { size_t d[] = { 0, 1, 15, 16, 17, 31, 32, 33, 63, 64, 65, 127, 128, 129, 255, 256, 257, 1000 }; nl = (int) (sizeof d / sizeof d[0]); memcpy(lens, d, sizeof d); }
    vrng_seed(&rng, seed, 11);
    randombytes_set_implementation(&t_rb_impl);
    if (sodium_init() < 0) return 3;
    int aes = crypto_aead_aes256gcm_is_available();
    VALGRIND_PRINTF("CT-BEGIN valgrind=%d aes=%d\n", (int) RUNNING_ON_VALGRIND, aes);
    for (int j0 = 0; j0 < nl; j0 += 30) { char lb[400]; int o = 0; for (int j = j0; j < nl && j < j0 + 30; j++) o += snprintf(lb + o, sizeof lb - (size_t) o, j > j0 ? ",%zu" : "%zu", lens[j]);
        VALGRIND_PRINTF("CT-LENS %s\n", lb); }
    for (size_t i = 0; i < sizeof ops / sizeof ops[0]; i++) {
        if (filter && strcmp(filter, "all") && !strstr(ops[i].name, filter)) continue;
        if (!aes && strstr(ops[i].name, "aes256gcm")) { VALGRIND_PRINTF("CT-SKIP %s unavailable\n", ops[i].name); continue; }
        for (int j = 0; j < (ops[i].has_len ? nl : 1); j++) {
            size_t len = ops[i].has_len ? lens[j] : 0;
            if (len > MAXL) continue;
            VALGRIND_PRINTF("CT-OP %s %zu\n", ops[i].name, len);
            ops[i].f(len);
            VALGRIND_PRINTF("CT-END %s %zu\n", ops[i].name, len);
        }
    }
    VALGRIND_PRINTF("CT-DONE %d\n", sink & 1);
    printf("ops=%zu\n", sizeof ops / sizeof ops[0]);
    return 0;
}
