/* C19, second half: the calls TLC enumerates from spec/sys/Contract.tla, executed concurrently by several threads
 * on the ThreadSanitizer build (no shared buffers between threads: any report is a race inside the library).
 * Thread t starts at line t*stride of the script and walks the whole script, so that at any moment different
 * threads are inside different (and, over the run, the same) API functions.
 * usage: contract_mt <seed> <script> <threads> <out.ndjson> */
#include "common.h"
#include <pthread.h>
typedef unsigned long long ULL;
enum { R_IN, R_OUT, R_IO, R_STR, R_ST, R_LEN };
#define MAXB 10
static __thread vrng rng;
#define A unsigned char **b, const size_t *sz, size_t l1, size_t l2, int cm
typedef struct { const char *name; int nbuf; void (*prep)(A); int (*call)(A); } fnent;
static void vcpy(void *d, const void *s, size_t n) { if (n) memcpy(d, s, n); }
static void vset(void *d, int c, size_t n) { if (n) memset(d, c, n); }
static unsigned char *tmp_rand(size_t n) { unsigned char *t = (unsigned char *) malloc(n + 1); vrng_bytes(&rng, t, n); return t; }
#define cm_avail cm_avail_tls
static __thread int cm_avail_tls = 1;
#define CM_AVAIL_DEFINED 1
#include "contract_calls.h"

typedef struct { const fnent *f; size_t l1, l2; int cm, nbuf; int role[MAXB]; size_t n[MAXB]; } call_t;
static call_t *calls; static size_t ncalls; static int nthreads; static uint64_t gseed;
static long done_calls[64], failed[64];

static int role_of(const char *s0) {
    char s[8]; size_t n = strlen(s0); strcpy(s, s0);
    if (n > 2 && s[n - 1] == 'z') s[n - 1] = 0;
    if (!strcmp(s, "in")) return R_IN; if (!strcmp(s, "out")) return R_OUT; if (!strcmp(s, "io")) return R_IO;
    if (!strcmp(s, "str")) return R_STR; if (!strcmp(s, "st")) return R_ST; if (!strcmp(s, "len")) return R_LEN;
    fprintf(stderr, "bad role %s\n", s0); exit(3);
}
static void *worker(void *arg) {
    int t = (int) (intptr_t) arg;
    vrng_seed(&rng, gseed, 100 + (uint64_t) t);
    size_t start = (ncalls / (size_t) nthreads) * (size_t) t;
    for (size_t k = 0; k < ncalls; k++) {
        const call_t *c = &calls[(start + k) % ncalls];
        unsigned char *bp[MAXB]; void *base[MAXB];
        for (int i = 0; i < c->nbuf; i++) {
            if (posix_memalign(&base[i], 64, c->n[i] + 1) != 0) exit(3);
            bp[i] = (unsigned char *) base[i];
            if (c->role[i] == R_OUT || c->role[i] == R_LEN) memset(bp[i], 0xA5, c->n[i]); else vrng_bytes(&rng, bp[i], c->n[i]);
            if (c->role[i] == R_STR && c->n[i]) { for (size_t j = 0; j + 1 < c->n[i]; j++) bp[i][j] = (unsigned char) (33 + bp[i][j] % 94); bp[i][c->n[i] - 1] = 0; }
        }
        cm_avail = 1;
        if (c->f->prep) c->f->prep(bp, c->n, c->l1, c->l2, c->cm);
        if (cm_avail) { int r = c->f->call(bp, c->n, c->l1, c->l2, c->cm); if (r != 0) failed[t]++; }
        done_calls[t]++;
        for (int i = 0; i < c->nbuf; i++) free(base[i]);
    }
    return NULL;
}
int main(int argc, char **argv) {
    if (argc < 5) return 2;
    gseed = strtoull(argv[1], NULL, 10); nthreads = atoi(argv[3]); if (nthreads > 64) nthreads = 64;
    FILE *sf = fopen(argv[2], "r"); if (!sf) return 3;
    v_open(argv[4]);
    if (sodium_init() < 0) return 3;
    size_t cap = 1024; calls = (call_t *) malloc(cap * sizeof *calls);
    char line[2048];
    while (fgets(line, sizeof line, sf)) {
        long idx; char fn[96], mode; size_t l1, l2, al; int cm, nbuf, off = 0, k;
        if (sscanf(line, "%ld %95s %zu %zu %d %c %zu %d%n", &idx, fn, &l1, &l2, &cm, &mode, &al, &nbuf, &off) < 8) continue;
        const fnent *f = NULL;
        for (size_t i = 0; i < sizeof fns / sizeof fns[0]; i++) if (!strcmp(fns[i].name, fn)) f = &fns[i];
        if (!f || f->nbuf != nbuf) { fprintf(stderr, "no driver for %s\n", fn); return 3; }
        if (ncalls == cap) { cap *= 2; calls = (call_t *) realloc(calls, cap * sizeof *calls); }
        call_t *c = &calls[ncalls++]; c->f = f; c->l1 = l1; c->l2 = l2; c->cm = cm; c->nbuf = nbuf;
        const char *q = line + off;
        for (int i = 0; i < nbuf; i++) { char rs[8]; size_t n; if (sscanf(q, " %7[a-z]:%zu%n", rs, &n, &k) < 2) return 3; q += k; c->role[i] = role_of(rs); c->n[i] = n; }
    }
    pthread_t th[64];
    for (int t = 0; t < nthreads; t++) pthread_create(&th[t], NULL, worker, (void *) (intptr_t) t);
    long tot = 0, fl = 0;
    for (int t = 0; t < nthreads; t++) { pthread_join(th[t], NULL); tot += done_calls[t]; fl += failed[t]; }
    v_emit("{\"e\":\"mt\",\"threads\":%d,\"calls_in_script\":%zu,\"calls_executed\":%ld,\"nonzero_returns\":%ld}", nthreads, ncalls, tot, fl);
    v_close();
    return 0;
}
