/* Hash / MAC / KDF driver (C04): for every function and input it runs the one-shot call and the init/update/final
 * form under many chunkings (incl. empty chunks) and logs ONE record per (function, input) carrying every DISTINCT
 * output observed (one, if all forms agree), for spec/trace/OracleHash.tla. Also verify functions, out-of-range
 * lengths, crafted Poly1305 inputs.
 *   hash_driver <seed> <maxlen> <step> <out.ndjson>                                            */
#include "common.h"
#include "poly_keys.h"

static vrng R;
#define MAXD 8
typedef struct { unsigned char o[MAXD][64]; int n; size_t len; int forms; } outs_t;
static void add_out(outs_t *s, const unsigned char *o, size_t len) { s->len = len; s->forms++; for (int i = 0; i < s->n; i++) if (!memcmp(s->o[i], o, len)) return; if (s->n < MAXD) memcpy(s->o[s->n++], o, len); }
static void emit_outs(const outs_t *s) { fprintf(v_out, "\"forms\":%d,\"outs\":[", s->forms); for (int i = 0; i < s->n; i++) { fputs(i ? ",[" : "[", v_out); for (size_t j = 0; j < s->len; j++) fprintf(v_out, j ? ",%u" : "%u", s->o[i][j]); fputc(']', v_out); } fputs("]", v_out); }
/* chunkings: ch(msg, len, k-th chunking) calls f(ptr, n) repeatedly */
typedef void (*upd_fn)(void *st, const unsigned char *p, size_t n);
static void chunked(void *st, upd_fn f, const unsigned char *m, size_t len, int k) {
    size_t pos = 0;
    if (k == 0) { f(st, m, len); return; }
    if (k == 1) { for (; pos < len; pos++) f(st, m + pos, 1); return; }
    if (k == 2) { f(st, m, 0); size_t a = len / 2; f(st, m, a); f(st, m + a, 0); f(st, m + a, len - a); f(st, m + len, 0); return; }
    if (k >= 3 && k < 3 + 9) { static const size_t cut[] = { 1, 15, 16, 17, 63, 64, 65, 127, 128 }; size_t a = cut[k - 3]; if (a > len) a = len; f(st, m, a); f(st, m + a, len - a); return; }
    while (pos < len) { size_t n = 1 + vrng_below(&R, (uint32_t) (k % 2 ? 200 : 37)); if (vrng_below(&R, 5) == 0) n = 0; if (n > len - pos) n = len - pos; f(st, m + pos, n); pos += n; }
}
#define NCHUNK 16
static void u_sha256(void *s, const unsigned char *p, size_t n) { crypto_hash_sha256_update(s, p, n); }
static void u_sha512(void *s, const unsigned char *p, size_t n) { crypto_hash_sha512_update(s, p, n); }
static void u_h256(void *s, const unsigned char *p, size_t n) { crypto_auth_hmacsha256_update(s, p, n); }
static void u_h512(void *s, const unsigned char *p, size_t n) { crypto_auth_hmacsha512_update(s, p, n); }
static void u_h512256(void *s, const unsigned char *p, size_t n) { crypto_auth_hmacsha512256_update(s, p, n); }
static void u_gh(void *s, const unsigned char *p, size_t n) { crypto_generichash_update(s, p, n); }
static void u_poly(void *s, const unsigned char *p, size_t n) { crypto_onetimeauth_update(s, p, n); }

static void rec_begin(const char *op, const unsigned char *m, size_t len, const unsigned char *k, size_t kl, size_t outlen) {
    fprintf(v_out, "{\"op\":\"%s\",\"outlen\":%zu,", op, outlen); v_emit_bytes("m", m, len); fputc(',', v_out); v_emit_bytes("k", k, kl); fputc(',', v_out);
}
static void do_input(const unsigned char *m, size_t len, int idx) {
    unsigned char o[64], k[128]; outs_t s; vrng_bytes(&R, k, 128);
    /* sha256 */ memset(&s, 0, sizeof s); crypto_hash_sha256(o, m, len); add_out(&s, o, 32);
    for (int c = 0; c < NCHUNK; c++) { crypto_hash_sha256_state st; crypto_hash_sha256_init(&st); chunked(&st, u_sha256, m, len, c); crypto_hash_sha256_final(&st, o); add_out(&s, o, 32); }
    rec_begin("sha256", m, len, k, 0, 32); emit_outs(&s); fputs("}\n", v_out);
    /* sha512 */ memset(&s, 0, sizeof s); crypto_hash_sha512(o, m, len); add_out(&s, o, 64); crypto_hash(o, m, len); add_out(&s, o, 64);
    for (int c = 0; c < NCHUNK; c++) { crypto_hash_sha512_state st; crypto_hash_sha512_init(&st); chunked(&st, u_sha512, m, len, c); crypto_hash_sha512_final(&st, o); add_out(&s, o, 64); }
    rec_begin("sha512", m, len, k, 0, 64); emit_outs(&s); fputs("}\n", v_out);
    /* hmac: the one-shot forms take 32-byte keys; the multi-part forms any key length */
    size_t kl = (size_t[]) { 32, 0, 1, 64, 65, 128, 100, 31 }[idx % 8];
    memset(&s, 0, sizeof s); if (kl == 32) { crypto_auth_hmacsha256(o, m, len, k); add_out(&s, o, 32); }
    for (int c = 0; c < NCHUNK; c += 2) { crypto_auth_hmacsha256_state st; crypto_auth_hmacsha256_init(&st, k, kl); chunked(&st, u_h256, m, len, c); crypto_auth_hmacsha256_final(&st, o); add_out(&s, o, 32); }
    rec_begin("hmacsha256", m, len, k, kl, 32); emit_outs(&s); fprintf(v_out, ",\"verify\":%d}\n", kl == 32 ? crypto_auth_hmacsha256_verify(s.o[0], m, len, k) : 0);
    memset(&s, 0, sizeof s); if (kl == 32) { crypto_auth_hmacsha512(o, m, len, k); add_out(&s, o, 64); }
    for (int c = 1; c < NCHUNK; c += 2) { crypto_auth_hmacsha512_state st; crypto_auth_hmacsha512_init(&st, k, kl); chunked(&st, u_h512, m, len, c); crypto_auth_hmacsha512_final(&st, o); add_out(&s, o, 64); }
    rec_begin("hmacsha512", m, len, k, kl, 64); emit_outs(&s); fprintf(v_out, ",\"verify\":%d}\n", kl == 32 ? crypto_auth_hmacsha512_verify(s.o[0], m, len, k) : 0);
    memset(&s, 0, sizeof s); if (kl == 32) { crypto_auth_hmacsha512256(o, m, len, k); add_out(&s, o, 32); crypto_auth(o, m, len, k); add_out(&s, o, 32); }
    for (int c = 0; c < NCHUNK; c += 3) { crypto_auth_hmacsha512256_state st; crypto_auth_hmacsha512256_init(&st, k, kl); chunked(&st, u_h512256, m, len, c); crypto_auth_hmacsha512256_final(&st, o); add_out(&s, o, 32); }
    rec_begin("hmacsha512256", m, len, k, kl, 32); emit_outs(&s); fprintf(v_out, ",\"verify\":%d}\n", kl == 32 ? crypto_auth_verify(s.o[0], m, len, k) : 0);
    /* blake2b: every output and key length over the runs */
    size_t ol = 1 + (size_t) (idx * 7) % 64, gkl = (size_t) (idx * 5) % 65; if (idx % 3 == 0) gkl = 0; if (idx % 11 == 0) ol = 64;
    memset(&s, 0, sizeof s); crypto_generichash(o, ol, m, len, gkl ? k : NULL, gkl); add_out(&s, o, ol); crypto_generichash_blake2b(o, ol, m, len, gkl ? k : NULL, gkl); add_out(&s, o, ol);
    for (int c = 0; c < NCHUNK; c++) { crypto_generichash_state *st = sodium_malloc(crypto_generichash_statebytes()); crypto_generichash_init(st, gkl ? k : NULL, gkl, ol); chunked(st, u_gh, m, len, c); crypto_generichash_final(st, o, ol); add_out(&s, o, ol); sodium_free(st); }
    rec_begin("blake2b", m, len, k, gkl, ol); emit_outs(&s); fputs("}\n", v_out);
    if (idx % 2 == 0) { memset(&s, 0, sizeof s); int ws = idx % 4 == 0, wp = idx % 3 != 1;
        crypto_generichash_blake2b_salt_personal(o, ol, m, len, gkl ? k : NULL, gkl, ws ? k + 64 : NULL, wp ? k + 80 : NULL); add_out(&s, o, ol);
        crypto_generichash_blake2b_state st; crypto_generichash_blake2b_init_salt_personal(&st, gkl ? k : NULL, gkl, ol, ws ? k + 64 : NULL, wp ? k + 80 : NULL);
        chunked(&st, (upd_fn) crypto_generichash_blake2b_update, m, len, 5 + idx % 9); crypto_generichash_blake2b_final(&st, o, ol); add_out(&s, o, ol);
        rec_begin("blake2b_sp", m, len, k, gkl, ol); emit_outs(&s); fputc(',', v_out); v_emit_bytes("salt", ws ? k + 64 : (const unsigned char *) "\0\0\0\0\0\0\0\0\0\0\0\0\0\0\0\0", 16); fputc(',', v_out);
        v_emit_bytes("pers", wp ? k + 80 : (const unsigned char *) "\0\0\0\0\0\0\0\0\0\0\0\0\0\0\0\0", 16); fputs("}\n", v_out); }
    /* siphash */ memset(&s, 0, sizeof s); crypto_shorthash(o, m, len, k); add_out(&s, o, 8); crypto_shorthash_siphash24(o, m, len, k); add_out(&s, o, 8);
    rec_begin("siphash24", m, len, k, 16, 8); emit_outs(&s); fputs("}\n", v_out);
    memset(&s, 0, sizeof s); crypto_shorthash_siphashx24(o, m, len, k); add_out(&s, o, 16); rec_begin("siphashx24", m, len, k, 16, 16); emit_outs(&s); fputs("}\n", v_out);
    /* poly1305 */ memset(&s, 0, sizeof s); crypto_onetimeauth(o, m, len, k); add_out(&s, o, 16);
    for (int c = 0; c < NCHUNK; c++) { crypto_onetimeauth_state st; crypto_onetimeauth_init(&st, k); chunked(&st, u_poly, m, len, c); crypto_onetimeauth_final(&st, o); add_out(&s, o, 16); }
    rec_begin("poly1305", m, len, k, 32, 16); emit_outs(&s); fprintf(v_out, ",\"verify\":%d}\n", crypto_onetimeauth_verify(s.o[0], m, len, k));
}
static void poly_case(const unsigned char *m, size_t len, const unsigned char *k) {
    unsigned char o[16]; outs_t s; memset(&s, 0, sizeof s); crypto_onetimeauth(o, m, len, k); add_out(&s, o, 16);
    for (int c = 0; c < 6; c++) { crypto_onetimeauth_state st; crypto_onetimeauth_init(&st, k); chunked(&st, u_poly, m, len, c); crypto_onetimeauth_final(&st, o); add_out(&s, o, 16); }
    rec_begin("poly1305", m, len, k, 32, 16); emit_outs(&s); fprintf(v_out, ",\"verify\":%d}\n", crypto_onetimeauth_verify(s.o[0], m, len, k));
}

int main(int argc, char **argv) {
    if (argc < 5) return 3;
    vrng_seed(&R, strtoull(argv[1], NULL, 10), 4); size_t maxlen = (size_t) atoi(argv[2]), step = (size_t) atoi(argv[3]);
    v_open(argv[4]);
    if (sodium_init() < 0) return 3;
    v_install_crash_handlers();
    unsigned char *m = malloc(maxlen + 300); int idx = 0;
    for (size_t len = 0; len <= maxlen; len += (len < 70 || step == 1) ? 1 : ((len % 64 >= 62 || len % 64 <= 1) ? 1 : step)) {
        vrng_bytes(&R, m, len); if (idx % 13 == 5) memset(m, 0xff, len); if (idx % 13 == 9) memset(m, 0, len);
        do_input(m, len, idx++);
    }
    /* crafted Poly1305 cases: all-0xff blocks with the largest clamped r and s = ff..ff; r = 1 with two blocks whose sum puts
     * the accumulator at 2^130 - 5 + k before the final reduction; r = 0 */
    { unsigned char k[32]; memset(k, 0xff, 32); for (size_t n = 1; n <= 5; n++) { memset(m, 0xff, 16 * n + 7); poly_case(m, 16 * n, k); poly_case(m, 16 * n + 7, k); }
      for (int d = -3; d <= 3; d++) { memset(k, 0, 32); k[0] = 1; memset(k + 16, (d & 1) ? 0xff : 0, 16); memset(m, 0xff, 32); /* m2 = 2^128 - 4 + d */
          unsigned v = (unsigned) (0xfc + d); m[16] = (unsigned char) v; if (v > 0xff) { /* d > 3 never */ } poly_case(m, 32, k); poly_case(m, 33, k); }
      memset(k, 0, 32); k[16] = 5; memset(m, 0xab, 64); poly_case(m, 64, k);
      for (int t = 0; t < 8; t++) { vrng_bytes(&R, k, 32); memset(k, 0xff, 16); memset(m, 0xff, 160); poly_case(m, 16 * (size_t) (1 + t), k); } }
    /* keys whose precomputed powers r^2 / r^4 (what the vectorised backends store) have a limb at a boundary - harness/poly_keys.h,
     * chosen by tools/polykeys.c; 17 bytes is the shortest message that uses r^2, 96 the shortest one-shot message that uses r^4 */
    { unsigned char k[32]; static const size_t L[12] = { 17, 96, 200, 0, 16, 32, 64, 95, 97, 128, 160, 257 }; int nl = step <= 3 ? 12 : 3;
      for (int i = 0; POLYKEYS[i]; i++) { for (int b = 0; b < 16; b++) { unsigned v; sscanf(POLYKEYS[i] + 2 * b, "%2x", &v); k[b] = (unsigned char) v; }
        vrng_bytes(&R, k + 16, 16); for (int j = 0; j < nl; j++) { vrng_bytes(&R, m, L[j]); poly_case(m, L[j], k); } } }
    /* verify functions: every single-bit flip of a 32-byte tag must be rejected */
    { unsigned char k[32], t[64], msg[50]; vrng_bytes(&R, k, 32); vrng_bytes(&R, msg, 50); int rej = 0, n = 0;
      crypto_auth(t, msg, 50, k); for (int b = 0; b < 256; b++) { t[b / 8] ^= (unsigned char) (1 << (b % 8)); rej += crypto_auth_verify(t, msg, 50, k) == -1; n++; t[b / 8] ^= (unsigned char) (1 << (b % 8)); }
      crypto_auth_hmacsha256(t, msg, 50, k); for (int b = 0; b < 256; b++) { t[b / 8] ^= (unsigned char) (1 << (b % 8)); rej += crypto_auth_hmacsha256_verify(t, msg, 50, k) == -1; n++; t[b / 8] ^= (unsigned char) (1 << (b % 8)); }
      crypto_auth_hmacsha512(t, msg, 50, k); for (int b = 0; b < 512; b++) { t[b / 8] ^= (unsigned char) (1 << (b % 8)); rej += crypto_auth_hmacsha512_verify(t, msg, 50, k) == -1; n++; t[b / 8] ^= (unsigned char) (1 << (b % 8)); }
      crypto_onetimeauth(t, msg, 50, k); for (int b = 0; b < 128; b++) { t[b / 8] ^= (unsigned char) (1 << (b % 8)); rej += crypto_onetimeauth_verify(t, msg, 50, k) == -1; n++; t[b / 8] ^= (unsigned char) (1 << (b % 8)); }
      fprintf(v_out, "{\"op\":\"verify_flips\",\"trials\":%d,\"rejected\":%d}\n", n, rej); }
    /* out-of-range lengths */
    for (size_t ol = 0; ol <= 66; ol++) for (size_t kl = 0; kl <= 66; kl += (ol == 0 || ol >= 64 || ol == 16) ? 1 : 33) { unsigned char o[80], k[80]; memset(k, 1, 80);
        int r = crypto_generichash(o, ol, (const unsigned char *) "x", 1, kl ? k : NULL, kl); crypto_generichash_state st; int r2 = crypto_generichash_init(&st, kl ? k : NULL, kl, ol);
        fprintf(v_out, "{\"op\":\"gh_range\",\"outlen\":%zu,\"keylen\":%zu,\"ret\":%d,\"ret_init\":%d}\n", ol, kl, r, r2); }
    for (size_t l = 0; l <= 80; l++) { unsigned char o[80], k[32]; memset(k, 2, 32); int r = crypto_kdf_derive_from_key(o, l, 7, "abcdefgh", k); fprintf(v_out, "{\"op\":\"kdf_range\",\"len\":%zu,\"ret\":%d}\n", l, r); }
    /* KDF and HKDF */
    for (int t = 0; t < 40; t++) { unsigned char k[64], o[64], ctx[8], id8[8]; vrng_bytes(&R, k, 64); vrng_bytes(&R, ctx, 8); uint64_t id = t < 4 ? (uint64_t[]) { 0, 1, 0xffffffffULL, 0xffffffffffffffffULL }[t] : vrng_u64(&R);
        for (int i = 0; i < 8; i++) id8[i] = (unsigned char) (id >> (8 * i)); size_t l = 16 + (size_t) t % 49; char c8[9]; memcpy(c8, ctx, 8); c8[8] = 0;
        int r = crypto_kdf_derive_from_key(o, l, id, c8, k); fprintf(v_out, "{\"op\":\"kdf\",\"ret\":%d,", r); v_emit_bytes("k", k, 32); fputc(',', v_out); v_emit_bytes("ctx", ctx, 8); fputc(',', v_out); v_emit_bytes("id", id8, 8); fputc(',', v_out); v_emit_bytes("out", o, l); fputs("}\n", v_out); }
    for (int t = 0; t < 30; t++) { unsigned char salt[80], ikm[100], info[60], prk[64], o[400]; vrng_bytes(&R, salt, 80); vrng_bytes(&R, ikm, 100); vrng_bytes(&R, info, 60);
        size_t sl = (size_t) (t * 7) % 81, il = (size_t) (t * 13) % 101, nl = (size_t) (t * 5) % 61, ol = (size_t[]) { 0, 1, 31, 32, 33, 64, 65, 100, 255, 256, 300, 42 }[t % 12];
        int r1 = crypto_kdf_hkdf_sha256_extract(prk, sl ? salt : NULL, sl, ikm, il); int r2 = crypto_kdf_hkdf_sha256_expand(o, ol, (const char *) info, nl, prk);
        fprintf(v_out, "{\"op\":\"hkdf256\",\"ret\":%d,", r1 | r2); v_emit_bytes("salt", salt, sl); fputc(',', v_out); v_emit_bytes("ikm", ikm, il); fputc(',', v_out); v_emit_bytes("info", info, nl); fputc(',', v_out); v_emit_bytes("prk", prk, 32); fputc(',', v_out); v_emit_bytes("out", o, ol); fputs("}\n", v_out);
        r1 = crypto_kdf_hkdf_sha512_extract(prk, sl ? salt : NULL, sl, ikm, il); r2 = crypto_kdf_hkdf_sha512_expand(o, ol, (const char *) info, nl, prk);
        fprintf(v_out, "{\"op\":\"hkdf512\",\"ret\":%d,", r1 | r2); v_emit_bytes("salt", salt, sl); fputc(',', v_out); v_emit_bytes("ikm", ikm, il); fputc(',', v_out); v_emit_bytes("info", info, nl); fputc(',', v_out); v_emit_bytes("prk", prk, 64); fputc(',', v_out); v_emit_bytes("out", o, ol); fputs("}\n", v_out); }
    { unsigned char prk[64] = { 1 }, o[16400]; errno = 0; int r1 = crypto_kdf_hkdf_sha256_expand(o, 255 * 32, "", 0, prk), r2 = crypto_kdf_hkdf_sha256_expand(o, 255 * 32 + 1, "", 0, prk);
      int r3 = crypto_kdf_hkdf_sha512_expand(o, 255 * 64, "", 0, prk), r4 = crypto_kdf_hkdf_sha512_expand(o, 255 * 64 + 1, "", 0, prk);
      fprintf(v_out, "{\"op\":\"hkdf_limit\",\"r\":[%d,%d,%d,%d]}\n", r1, r2, r3, r4); }
    v_close();
    return 0;
}
