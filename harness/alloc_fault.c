/* Allocation-failure driver (C20). Linked with
 *   -Wl,--wrap=malloc,--wrap=calloc,--wrap=realloc,--wrap=free,--wrap=posix_memalign,--wrap=mmap,--wrap=munmap
 * so that every request the library makes while a call is in progress is counted, optionally failed,
 * and logged. For every API call x parameter set it first counts the n requests, then re-runs the call in a
 * forked child with request i failing (mode single) and with all requests >= i failing (mode from), for
 * every i. Events are NDJSON for sys/TraceAllocFault.tla.
 *   alloc_fault <out.ndjson> [big]                                                            */
#include "common.h"

void *__real_malloc(size_t); void *__real_calloc(size_t, size_t); void *__real_realloc(void *, size_t);
void __real_free(void *); int __real_posix_memalign(void **, size_t, size_t);
void *__real_mmap(void *, size_t, int, int, int, off_t); int __real_munmap(void *, size_t);

#define MAXEV 4096
typedef struct { char type; char kind; int id; int ok; } ev_t;       /* type 'a' alloc, 'r' release */
static ev_t evs[MAXEV]; static int nev;
static struct { void *p; char kind; int live; } objs[MAXEV]; static int nobj;
static volatile int in_call; static int req_no, fail_at, fail_from;

static int should_fail(void) { req_no++; return fail_at && (fail_from ? req_no >= fail_at : req_no == fail_at); }
static void log_alloc(char kind, void *p, int ok) {
    if (nev >= MAXEV) return;
    int id = nobj; if (ok && nobj < MAXEV) { objs[nobj].p = p; objs[nobj].kind = kind; objs[nobj].live = 1; nobj++; } else id = MAXEV + req_no;
    evs[nev].type = 'a'; evs[nev].kind = kind; evs[nev].id = id; evs[nev].ok = ok; nev++;
}
static void log_release(char kind, void *p) {
    int id = -1;
    for (int i = nobj - 1; i >= 0; i--) if (objs[i].p == p && objs[i].live) { id = i; objs[i].live = 0; if (objs[i].kind != kind) id = -2 - i; break; }
    if (nev < MAXEV) { evs[nev].type = 'r'; evs[nev].kind = kind; evs[nev].id = id; evs[nev].ok = 1; nev++; }
}
static int fail_errno = ENOMEM;      /* errno reported with an injected failure: VERIF_FAIL_ERRNO (a failing request may report EINVAL, EAGAIN, EPERM ... as well) */
void *__wrap_malloc(size_t n) { if (!in_call) return __real_malloc(n); if (should_fail()) { log_alloc('m', NULL, 0); errno = fail_errno; return NULL; } void *p = __real_malloc(n); log_alloc('m', p, p != NULL); return p; }
void *__wrap_calloc(size_t a, size_t b) { if (!in_call) return __real_calloc(a, b); if (should_fail()) { log_alloc('m', NULL, 0); errno = fail_errno; return NULL; } void *p = __real_calloc(a, b); log_alloc('m', p, p != NULL); return p; }
void *__wrap_realloc(void *q, size_t n) { if (!in_call) return __real_realloc(q, n); if (should_fail()) { log_alloc('m', NULL, 0); errno = fail_errno; return NULL; } void *p = __real_realloc(q, n); if (q) log_release('m', q); log_alloc('m', p, p != NULL); return p; }
void __wrap_free(void *p) { if (in_call && p) log_release('m', p); __real_free(p); }
int __wrap_posix_memalign(void **out, size_t al, size_t n) { if (!in_call) return __real_posix_memalign(out, al, n); if (should_fail()) { log_alloc('m', NULL, 0); return ENOMEM; } int r = __real_posix_memalign(out, al, n); log_alloc('m', r == 0 ? *out : NULL, r == 0); return r; }
void *__wrap_mmap(void *a, size_t n, int pr, int fl, int fd, off_t off) { if (!in_call) return __real_mmap(a, n, pr, fl, fd, off); if (should_fail()) { log_alloc('p', NULL, 0); errno = fail_errno; return MAP_FAILED; } void *p = __real_mmap(a, n, pr, fl, fd, off); log_alloc('p', p, p != MAP_FAILED); return p; }
int __wrap_munmap(void *p, size_t n) { if (in_call) log_release('p', p); return __real_munmap(p, n); }

/* ------------------------------------------------------------------ the API calls under test */
#define OPS crypto_pwhash_OPSLIMIT_MIN
#define MEM crypto_pwhash_MEMLIMIT_MIN
static const char *PW = "correct horse battery staple", *PW2 = "correct horse battery stapler";
static char ref_str_id[crypto_pwhash_STRBYTES], ref_str_i[crypto_pwhash_STRBYTES], ref_str_s[crypto_pwhash_scryptsalsa208sha256_STRBYTES];
static unsigned char ref_raw_id[32], ref_raw_i[32], ref_raw_s[32], SALT[32];
static void *kept;
static char long_str[400];

typedef struct { const char *name; const char *model; int expect_ok; } api_t;
static const api_t apis[] = {
    { "pwhash_argon2id_raw", "pwhash", 1 }, { "pwhash_argon2i_raw", "pwhash", 1 }, { "pwhash_str", "pwhash", 1 }, { "pwhash_argon2i_str", "pwhash", 1 },
    { "pwhash_str_verify_ok", "pwhash", 1 }, { "pwhash_str_verify_wrong", "pwhash", 0 }, { "pwhash_argon2i_str_verify_ok", "pwhash", 1 },
    { "pwhash_argon2i_str_verify_wrong", "pwhash", 0 }, { "pwhash_str_needs_rehash", "pwhash", 1 }, { "pwhash_argon2i_str_needs_rehash", "pwhash", 1 },
    { "scrypt_raw", "pwhash", 1 }, { "scrypt_str", "pwhash", 1 }, { "scrypt_str_verify_ok", "pwhash", 1 }, { "scrypt_str_verify_wrong", "pwhash", 0 },
    { "scrypt_ll", "pwhash", 1 }, { "sodium_malloc", "sodium_malloc", 1 }, { "sodium_allocarray", "sodium_malloc", 1 }, { "sodium_malloc_0", "sodium_malloc", 1 },
    /* a hash string as other Argon2 implementations produce them: 96-byte tag, 178 characters (crypto_pwhash_str never makes one) */
    { "pwhash_str_verify_long_ok", "pwhash", 1 }, { "pwhash_str_verify_long_wrong", "pwhash", 0 },
};
#define NAPI ((int) (sizeof apis / sizeof apis[0]))

/* returns: bit0 = call reported success, bit1 = a result was produced (hash equals the right hash, string equals the
 * right string / verifies, verify reported a match, pointer returned) */
static int do_call(int a, int big) {
    unsigned char out[32]; char str[crypto_pwhash_scryptsalsa208sha256_STRBYTES + crypto_pwhash_STRBYTES]; int r, res = 0;
    size_t mem = big ? MEM * 8 : MEM; unsigned long long ops = big ? OPS + 1 : OPS;
    memset(out, 0, sizeof out); memset(str, 0, sizeof str);
    v_install_seeded_random(4242);          /* same salt bytes in every run */
    in_call = 1;
    switch (a) {
    case 0: r = crypto_pwhash(out, 32, PW, strlen(PW), SALT, ops, mem, crypto_pwhash_ALG_ARGON2ID13); in_call = 0; res = (r == 0) | ((memcmp(out, ref_raw_id, 32) == 0) << 1); break;
    case 1: r = crypto_pwhash(out, 32, PW, strlen(PW), SALT, 3, mem, crypto_pwhash_ALG_ARGON2I13); in_call = 0; res = (r == 0) | ((memcmp(out, ref_raw_i, 32) == 0) << 1); break;
    case 2: r = crypto_pwhash_str(str, PW, strlen(PW), ops, mem); in_call = 0; res = (r == 0) | ((ref_str_id[0] && strcmp(str, ref_str_id) == 0) << 1); break;
    case 3: r = crypto_pwhash_argon2i_str(str, PW, strlen(PW), 3, mem); in_call = 0; res = (r == 0) | ((ref_str_i[0] && strcmp(str, ref_str_i) == 0) << 1); break;
    case 4: r = crypto_pwhash_str_verify(ref_str_id, PW, strlen(PW)); in_call = 0; res = (r == 0) | ((r == 0) << 1); break;
    case 5: r = crypto_pwhash_str_verify(ref_str_id, PW2, strlen(PW2)); in_call = 0; res = (r == 0) | ((r == 0) << 1); break;
    case 6: r = crypto_pwhash_argon2i_str_verify(ref_str_i, PW, strlen(PW)); in_call = 0; res = (r == 0) | ((r == 0) << 1); break;
    case 7: r = crypto_pwhash_argon2i_str_verify(ref_str_i, PW2, strlen(PW2)); in_call = 0; res = (r == 0) | ((r == 0) << 1); break;
    case 8: r = crypto_pwhash_str_needs_rehash(ref_str_id, ops, mem); in_call = 0; res = (r == 0 || r == 1) | ((r == 0) << 1); break;
    case 9: r = crypto_pwhash_argon2i_str_needs_rehash(ref_str_i, 3, mem); in_call = 0; res = (r == 0 || r == 1) | ((r == 0) << 1); break;
    case 10: r = crypto_pwhash_scryptsalsa208sha256(out, 32, PW, strlen(PW), SALT, crypto_pwhash_scryptsalsa208sha256_OPSLIMIT_MIN, crypto_pwhash_scryptsalsa208sha256_MEMLIMIT_MIN); in_call = 0;
             res = (r == 0) | ((memcmp(out, ref_raw_s, 32) == 0) << 1); break;
    case 11: r = crypto_pwhash_scryptsalsa208sha256_str(str, PW, strlen(PW), crypto_pwhash_scryptsalsa208sha256_OPSLIMIT_MIN, crypto_pwhash_scryptsalsa208sha256_MEMLIMIT_MIN); in_call = 0;
             res = (r == 0) | ((ref_str_s[0] && strcmp(str, ref_str_s) == 0) << 1); break;
    case 12: r = crypto_pwhash_scryptsalsa208sha256_str_verify(ref_str_s, PW, strlen(PW)); in_call = 0; res = (r == 0) | ((r == 0) << 1); break;
    case 13: r = crypto_pwhash_scryptsalsa208sha256_str_verify(ref_str_s, PW2, strlen(PW2)); in_call = 0; res = (r == 0) | ((r == 0) << 1); break;
    case 14: r = crypto_pwhash_scryptsalsa208sha256_ll((const uint8_t *) PW, strlen(PW), SALT, 16, 16, 1, 1, out, 32); in_call = 0; res = (r == 0) | ((r == 0) << 1); break;
    case 15: kept = sodium_malloc(100); in_call = 0; res = (kept != NULL) | ((kept != NULL) << 1); break;
    case 16: kept = sodium_allocarray(10, 10); in_call = 0; res = (kept != NULL) | ((kept != NULL) << 1); break;
    case 18: r = crypto_pwhash_str_verify(long_str, PW, strlen(PW)); in_call = 0; res = (r == 0) | ((r == 0) << 1); break;
    case 19: r = crypto_pwhash_str_verify(long_str, PW2, strlen(PW2)); in_call = 0; res = (r == 0) | ((r == 0) << 1); break;
    case 17: kept = sodium_malloc(0); in_call = 0; res = (kept != NULL) | ((kept != NULL) << 1); break;
    default: in_call = 0; break;
    }
    return res;
}

static void dump_events(FILE *f, int a, int res, int big) {
    for (int i = 0; i < nev; i++) {
        if (evs[i].type == 'a') fprintf(f, "{\"e\":\"alloc\",\"kind\":\"%s\",\"id\":%d,\"ok\":%s}\n", evs[i].kind == 'm' ? "malloc" : "mmap", evs[i].id, evs[i].ok ? "true" : "false");
        else fprintf(f, "{\"e\":\"release\",\"kind\":\"%s\",\"id\":%d}\n", evs[i].kind == 'm' ? "malloc" : "mmap", evs[i].id);
    }
    fprintf(f, "{\"e\":\"end\",\"api\":\"%s\",\"ret_ok\":%s,\"produced\":%s,\"requests\":%d,\"big\":%d}\n", apis[a].name, (res & 1) ? "true" : "false", (res & 2) ? "true" : "false", req_no, big);
}

static int run_child(int a, int at, int from, int big, FILE *out) {
    /* returns the number of requests made (from the child's report) or -1 on crash */
    int pfd[2]; if (pipe(pfd)) exit(3);
    fprintf(out, "{\"e\":\"begin\",\"api\":\"%s\",\"model\":\"%s\",\"mode\":\"%s\",\"pos\":%d,\"expect_ok\":%s}\n", apis[a].name, apis[a].model,
            at == 0 ? "none" : from ? "from" : "single", at, apis[a].expect_ok ? "true" : "false");
    fflush(out);
    pid_t pid = fork();
    if (pid == 0) {
        close(pfd[0]); FILE *w = fdopen(pfd[1], "w");
        signal(SIGSEGV, SIG_DFL); signal(SIGABRT, SIG_DFL); signal(SIGBUS, SIG_DFL);
        nev = 0; nobj = 0; req_no = 0; fail_at = at; fail_from = from;
        int res = do_call(a, big);
        dump_events(w, a, res, big); fflush(w); _exit(0);
    }
    close(pfd[1]);
    char buf[4096]; ssize_t k; int n = -1; char last[4096] = ""; size_t ll = 0;
    FILE *r = fdopen(pfd[0], "r");
    while (fgets(buf, sizeof buf, r)) { fputs(buf, out); strncpy(last, buf, sizeof last - 1); }
    (void) k; (void) ll;
    fclose(r);
    int st = 0; waitpid(pid, &st, 0);
    if (WIFSIGNALED(st) || (WIFEXITED(st) && WEXITSTATUS(st) != 0)) { fprintf(out, "{\"e\":\"crash\",\"signal\":%d,\"exit\":%d}\n", WIFSIGNALED(st) ? WTERMSIG(st) : 0, WIFEXITED(st) ? WEXITSTATUS(st) : -1); return -1; }
    char *q = strstr(last, "\"requests\":"); if (q) n = atoi(q + 11);
    return n;
}

int main(int argc, char **argv) {
    if (argc < 2) return 3;
    int big = argc > 2 && !strcmp(argv[2], "big");
    if (getenv("VERIF_FAIL_ERRNO")) fail_errno = atoi(getenv("VERIF_FAIL_ERRNO"));
    FILE *out = fopen(argv[1], "w"); if (!out) return 3;
    if (sodium_init() < 0) return 3;
    memset(SALT, 0x5a, sizeof SALT);
    size_t mem = big ? MEM * 8 : MEM; unsigned long long ops = big ? OPS + 1 : OPS;
    v_install_seeded_random(4242);
    if (crypto_pwhash(ref_raw_id, 32, PW, strlen(PW), SALT, ops, mem, crypto_pwhash_ALG_ARGON2ID13)) return 3;
    if (crypto_pwhash(ref_raw_i, 32, PW, strlen(PW), SALT, 3, mem, crypto_pwhash_ALG_ARGON2I13)) return 3;
    v_install_seeded_random(4242); if (crypto_pwhash_str(ref_str_id, PW, strlen(PW), ops, mem)) return 3;
    v_install_seeded_random(4242); if (crypto_pwhash_argon2i_str(ref_str_i, PW, strlen(PW), 3, mem)) return 3;
    if (crypto_pwhash_scryptsalsa208sha256(ref_raw_s, 32, PW, strlen(PW), SALT, crypto_pwhash_scryptsalsa208sha256_OPSLIMIT_MIN, crypto_pwhash_scryptsalsa208sha256_MEMLIMIT_MIN)) return 3;
    v_install_seeded_random(4242); if (crypto_pwhash_scryptsalsa208sha256_str(ref_str_s, PW, strlen(PW), crypto_pwhash_scryptsalsa208sha256_OPSLIMIT_MIN, crypto_pwhash_scryptsalsa208sha256_MEMLIMIT_MIN)) return 3;
    { unsigned char raw[96]; char s64[64], h64[200];
      if (crypto_pwhash(raw, sizeof raw, PW, strlen(PW), SALT, ops, mem, crypto_pwhash_ALG_ARGON2ID13)) return 3;
      sodium_bin2base64(s64, sizeof s64, SALT, 16, sodium_base64_VARIANT_ORIGINAL_NO_PADDING); sodium_bin2base64(h64, sizeof h64, raw, sizeof raw, sodium_base64_VARIANT_ORIGINAL_NO_PADDING);
      snprintf(long_str, sizeof long_str, "$argon2id$v=19$m=%u,t=%u,p=1$%s$%s", (unsigned) (mem / 1024), (unsigned) ops, s64, h64);
      if (crypto_pwhash_str_verify(long_str, PW, strlen(PW)) != 0) return 3; }
    for (int a = 0; a < NAPI; a++) {
        int n = run_child(a, 0, 0, big, out);
        for (int i = 1; i <= n; i++) { run_child(a, i, 0, big, out); run_child(a, i, 1, big, out); }
    }
    fclose(out);
    return 0;
}
