/* C09, chunks longer than 2^32 bytes (legal: MESSAGEBYTES_MAX is about 256 GiB): one chunk of 2^32 + 4096 zero bytes from a sparse
 * mapping is pushed; 128 ciphertext bytes at six offsets are recorded with the ChaCha20-IETF block counter the documented
 * construction uses there (2 + offset / 64 under the state's key and nonce before the push); the chunk is then pulled into a second buffer and
 * a further small chunk is pushed and pulled. Needs about 8.6 GiB of memory for some seconds.
 * usage: ss_huge <seed> <out.ndjson> */
#include "common.h"
int main(int argc, char **argv) {
    if (argc < 3) return 2;
    vrng r; vrng_seed(&r, strtoull(argv[1], NULL, 10), 41);
    v_open(argv[2]); v_install_crash_handlers(); if (sodium_init() < 0) return 3;
    size_t mlen = ((size_t) 1 << 32) + 4096, clen = mlen + crypto_secretstream_xchacha20poly1305_ABYTES;
    unsigned char *m = (unsigned char *) mmap(NULL, clen, PROT_READ | PROT_WRITE, MAP_PRIVATE | MAP_ANONYMOUS | MAP_NORESERVE, -1, 0);
    unsigned char *c = (unsigned char *) mmap(NULL, clen, PROT_READ | PROT_WRITE, MAP_PRIVATE | MAP_ANONYMOUS | MAP_NORESERVE, -1, 0);
    if (m == MAP_FAILED || c == MAP_FAILED) { v_close(); return 0; }
    unsigned char k[32], hdr[24], key0[32], nonce0[12]; vrng_bytes(&r, k, 32);
    crypto_secretstream_xchacha20poly1305_state sp, sl;
    crypto_secretstream_xchacha20poly1305_init_push(&sp, hdr, k); crypto_secretstream_xchacha20poly1305_init_pull(&sl, hdr, k);
    memcpy(key0, sp.k, 32); memcpy(nonce0, sp.nonce, 12);
    unsigned long long cl = 0; int rp = crypto_secretstream_xchacha20poly1305_push(&sp, c, &cl, m, mlen, NULL, 0, 0);
    static const unsigned long long OFF[] = { 0, (1ULL << 31) - 64, 1ULL << 31, (1ULL << 32) - 64, 1ULL << 32, (1ULL << 32) + 4096 - 128 };
    for (int o = 0; o < 6; o++) { unsigned long long bi = 2 + OFF[o] / 64; unsigned char ic8[8]; for (int i = 0; i < 8; i++) ic8[i] = (unsigned char) (bi >> (8 * i));
        fprintf(v_out, "{\"op\":\"stream_at\",\"v\":\"chacha20_ietf\",\"form\":0,\"ret\":%d,\"maxlen\":128,", rp | (cl != clen)); v_emit_bytes("k", key0, 32); fputc(',', v_out); v_emit_bytes("n", nonce0, 12); fputc(',', v_out);
        v_emit_bytes("ic", ic8, 8); fputc(',', v_out); v_emit_bytes("bytes", c + 1 + OFF[o], 128); fputs("}\n", v_out); }
    unsigned long long ml = 0; unsigned char tag = 99; m[5] = 0x77; m[mlen - 1] = 0x77;        /* the output buffer (the former input mapping) must be overwritten with the zero message */
    int rl = crypto_secretstream_xchacha20poly1305_pull(&sl, m, &ml, &tag, c, clen, NULL, 0);
    int zeros = m[5] == 0 && m[mlen - 1] == 0; for (int o = 0; o < 6; o++) for (int i = 0; i < 128; i++) zeros &= m[OFF[o] + (unsigned) i] == 0;
    unsigned char sm[8] = "chunk 2", sc[8 + 17], so[8]; unsigned long long l2 = 0; unsigned char t2 = 0;
    crypto_secretstream_xchacha20poly1305_push(&sp, sc, NULL, sm, 8, NULL, 0, crypto_secretstream_xchacha20poly1305_TAG_FINAL);
    int r2 = crypto_secretstream_xchacha20poly1305_pull(&sl, so, &l2, &t2, sc, 8 + 17, NULL, 0);
    v_emit("{\"op\":\"ss_huge\",\"ret_push\":%d,\"ret_pull\":%d,\"mlen_ok\":%s,\"tag\":%d,\"zeros\":%s,\"sync\":%s}", rp, rl, ml == mlen ? "true" : "false", tag, zeros ? "true" : "false",
           (r2 == 0 && l2 == 8 && t2 == crypto_secretstream_xchacha20poly1305_TAG_FINAL && !memcmp(so, sm, 8) && !memcmp(&sp, &sl, sizeof sp)) ? "true" : "false");
    v_close(); return 0;
}
