/* C12 call wrappers, part 5: key generators, primitive-named entry points, NaCl-style box/secretbox, detached_afternm */
#define KG(fn) static int c_##fn(A) { fn(b[0]); return 0; }
KG(crypto_aead_aegis128l_keygen) KG(crypto_aead_aegis256_keygen) KG(crypto_aead_aes256gcm_keygen) KG(crypto_aead_chacha20poly1305_ietf_keygen)
KG(crypto_aead_chacha20poly1305_keygen) KG(crypto_aead_xchacha20poly1305_ietf_keygen) KG(crypto_auth_hmacsha256_keygen) KG(crypto_auth_hmacsha512256_keygen)
KG(crypto_auth_hmacsha512_keygen) KG(crypto_auth_keygen) KG(crypto_generichash_blake2b_keygen) KG(crypto_generichash_keygen) KG(crypto_kdf_hkdf_sha256_keygen)
KG(crypto_kdf_hkdf_sha512_keygen) KG(crypto_kdf_keygen) KG(crypto_onetimeauth_keygen) KG(crypto_onetimeauth_poly1305_keygen) KG(crypto_secretbox_keygen)
KG(crypto_secretbox_xsalsa20poly1305_keygen) KG(crypto_secretstream_xchacha20poly1305_keygen) KG(crypto_shorthash_keygen) KG(crypto_stream_chacha20_ietf_keygen)
KG(crypto_stream_chacha20_keygen) KG(crypto_stream_keygen) KG(crypto_stream_salsa2012_keygen) KG(crypto_stream_salsa208_keygen) KG(crypto_stream_salsa20_keygen)
KG(crypto_stream_xchacha20_keygen) KG(crypto_stream_xsalsa20_keygen)
static int c_randombytes(A) { randombytes(b[0], l1); return 0; }
/* primitive-named entry points */
static int c_crypto_sign_ed25519_keypair(A) { return crypto_sign_ed25519_keypair(b[0], b[1]); }
static int c_crypto_sign_ed25519_seed_keypair(A) { return crypto_sign_ed25519_seed_keypair(b[0], b[1], b[2]); }
static int c_crypto_sign_ed25519(A) { return crypto_sign_ed25519(b[0], (ULL *) (void *) b[1], b[2], l1, b[3]); }
static void p_crypto_sign_ed25519_open(A) { p_crypto_sign_open(b, sz, l1, l2, cm); }
static int c_crypto_sign_ed25519_open(A) { return crypto_sign_ed25519_open(b[0], (ULL *) (void *) b[1], b[2], l1 + 64, b[3]); }
static int c_crypto_sign_ed25519_detached(A) { return crypto_sign_ed25519_detached(b[0], (ULL *) (void *) b[1], b[2], l1, b[3]); }
static void p_crypto_sign_ed25519_verify_detached(A) { p_crypto_sign_verify_detached(b, sz, l1, l2, cm); }
static int c_crypto_sign_ed25519_verify_detached(A) { return crypto_sign_ed25519_verify_detached(b[0], b[1], l1, b[2]); }
static int c_crypto_sign_ed25519ph_multi_create(A) {
    crypto_sign_ed25519ph_state *s = (crypto_sign_ed25519ph_state *) (void *) b[0];
    crypto_sign_ed25519ph_init(s); crypto_sign_ed25519ph_update(s, b[3], l1);
    return crypto_sign_ed25519ph_final_create(s, b[1], (ULL *) (void *) b[2], b[4]);
}
static void p_crypto_sign_ed25519ph_multi_verify(A) { p_crypto_sign_multi_verify(b, sz, l1, l2, cm); }
static int c_crypto_sign_ed25519ph_multi_verify(A) {
    crypto_sign_ed25519ph_state *s = (crypto_sign_ed25519ph_state *) (void *) b[0];
    crypto_sign_ed25519ph_init(s); crypto_sign_ed25519ph_update(s, b[2], l1);
    return crypto_sign_ed25519ph_final_verify(s, b[1], b[3]);
}
static int c_crypto_generichash_blake2b(A) { return crypto_generichash_blake2b(b[0], l2, b[1], l1, NULL, 0); }
static int c_crypto_generichash_blake2b_multi(A) {
    crypto_generichash_blake2b_state *s = (crypto_generichash_blake2b_state *) (void *) b[0];
    if (crypto_generichash_blake2b_init(s, b[3], l2, 32) != 0) return -1;
    if (crypto_generichash_blake2b_update(s, b[2], l1) != 0) return -1;
    return crypto_generichash_blake2b_final(s, b[1], 32);
}
static int c_crypto_generichash_blake2b_multi_sp(A) {
    crypto_generichash_blake2b_state *s = (crypto_generichash_blake2b_state *) (void *) b[0];
    if (crypto_generichash_blake2b_init_salt_personal(s, NULL, 0, 64, b[3], b[4]) != 0) return -1;
    if (crypto_generichash_blake2b_update(s, b[2], l1) != 0) return -1;
    return crypto_generichash_blake2b_final(s, b[1], 64);
}
static int c_crypto_onetimeauth_poly1305(A) { return crypto_onetimeauth_poly1305(b[0], b[1], l1, b[2]); }
static void p_crypto_onetimeauth_poly1305_verify(A) { if (cm == 1) { unsigned char t[16]; crypto_onetimeauth_poly1305(t, b[1], l1, b[2]); vcpy(b[0], t, 16); } }
static int c_crypto_onetimeauth_poly1305_verify(A) { return crypto_onetimeauth_poly1305_verify(b[0], b[1], l1, b[2]); }
static int c_crypto_onetimeauth_poly1305_multi(A) {
    crypto_onetimeauth_poly1305_state *s = (crypto_onetimeauth_poly1305_state *) (void *) b[0];
    crypto_onetimeauth_poly1305_init(s, b[3]); crypto_onetimeauth_poly1305_update(s, b[2], l1); return crypto_onetimeauth_poly1305_final(s, b[1]);
}
static void p_crypto_scalarmult_curve25519(A) { if (cm == 1) mk_pk(b[2]); }
static int c_crypto_scalarmult_curve25519(A) { return crypto_scalarmult_curve25519(b[0], b[1], b[2]); }
static int c_crypto_scalarmult_curve25519_base(A) { return crypto_scalarmult_curve25519_base(b[0], b[1]); }
static int c_crypto_shorthash_siphash24(A) { return crypto_shorthash_siphash24(b[0], b[1], l1, b[2]); }
static int c_crypto_kdf_blake2b_derive_from_key(A) { return crypto_kdf_blake2b_derive_from_key(b[0], l2, (uint64_t) l1, (const char *) b[1], b[2]); }
static int c_crypto_pwhash_argon2id_str(A) { return crypto_pwhash_argon2id_str((char *) b[0], (const char *) b[1], l1, crypto_pwhash_argon2id_OPSLIMIT_MIN, crypto_pwhash_argon2id_MEMLIMIT_MIN); }
static int c_crypto_pwhash_argon2i_str(A) { return crypto_pwhash_argon2i_str((char *) b[0], (const char *) b[1], l1, crypto_pwhash_argon2i_OPSLIMIT_MIN, crypto_pwhash_argon2i_MEMLIMIT_MIN); }
static void p_crypto_pwhash_argon2id_str_verify(A) { char r[128]; real_argon(r, b[1], l1, 0); fill_str(b[0], sz[0], r, cm); }
static int c_crypto_pwhash_argon2id_str_verify(A) { return crypto_pwhash_argon2id_str_verify((const char *) b[0], (const char *) b[1], l1); }
static void p_crypto_pwhash_argon2i_str_verify(A) { char r[128]; real_argon(r, b[1], l1, 1); fill_str(b[0], sz[0], r, cm); }
static int c_crypto_pwhash_argon2i_str_verify(A) { return crypto_pwhash_argon2i_str_verify((const char *) b[0], (const char *) b[1], l1); }
static void p_crypto_pwhash_argon2id_str_needs_rehash(A) { char r[128]; unsigned char pw[4] = { 'a', 'b', 'c', 0 }; real_argon(r, pw, 3, 0); fill_str(b[0], sz[0], r, cm); }
static int c_crypto_pwhash_argon2id_str_needs_rehash(A) { return crypto_pwhash_argon2id_str_needs_rehash((const char *) b[0], crypto_pwhash_argon2id_OPSLIMIT_MIN, crypto_pwhash_argon2id_MEMLIMIT_MIN) == 0 ? 0 : -1; }
static void p_crypto_pwhash_argon2i_str_needs_rehash(A) { char r[128]; unsigned char pw[4] = { 'a', 'b', 'c', 0 }; real_argon(r, pw, 3, 1); fill_str(b[0], sz[0], r, cm); }
static int c_crypto_pwhash_argon2i_str_needs_rehash(A) { return crypto_pwhash_argon2i_str_needs_rehash((const char *) b[0], crypto_pwhash_argon2i_OPSLIMIT_MIN, crypto_pwhash_argon2i_MEMLIMIT_MIN) == 0 ? 0 : -1; }
/* NaCl-style (zero-padded) forms: c[l1], m[l1], first 32 bytes of m zero; open: first 16 bytes of c zero */
static void p_nacl_m(A) { vset(b[1], 0, vmin(32, l1)); if (cm == 1) mk_pk(b[3]); }
static void p_nacl_m_sym(A) { vset(b[1], 0, vmin(32, l1)); }
static int c_crypto_secretbox_xsalsa20poly1305(A) { return crypto_secretbox_xsalsa20poly1305(b[0], b[1], l1, b[2], b[3]); }
static void p_crypto_secretbox_xsalsa20poly1305_open(A) { p_crypto_secretbox_open_nacl(b, sz, l1, l2, cm); }
static int c_crypto_secretbox_xsalsa20poly1305_open(A) { return crypto_secretbox_xsalsa20poly1305_open(b[0], b[1], l1, b[2], b[3]); }
#define NACLBOX(P, NAME) \
static int c_##NAME(A) { return P(b[0], b[1], l1, b[2], b[3], b[4]); } \
static void p_##NAME##_open(A) { if (cm == 1 && l1 >= 32) { unsigned char *m = tmp_rand(l1), *t = (unsigned char *) malloc(l1), spk[32], ssk[32], rpk[32]; vset(m, 0, 32); \
    crypto_box_keypair(spk, ssk); crypto_scalarmult_base(rpk, b[4]); if (P(t, m, l1, b[2], rpk, ssk) == 0) { vcpy(b[1], t, l1); vcpy(b[3], spk, 32); } free(t); free(m); } else vset(b[1], 0, vmin(16, l1)); } \
static int c_##NAME##_open(A) { return P##_open(b[0], b[1], l1, b[2], b[3], b[4]); } \
static int c_##NAME##_afternm(A) { return P##_afternm(b[0], b[1], l1, b[2], b[3]); } \
static void p_##NAME##_open_afternm(A) { if (cm == 1 && l1 >= 32) { unsigned char *m = tmp_rand(l1), *t = (unsigned char *) malloc(l1); vset(m, 0, 32); \
    P##_afternm(t, m, l1, b[2], b[3]); vcpy(b[1], t, l1); free(t); free(m); } else vset(b[1], 0, vmin(16, l1)); } \
static int c_##NAME##_open_afternm(A) { return P##_open_afternm(b[0], b[1], l1, b[2], b[3]); }
NACLBOX(crypto_box, crypto_box_nacl)
NACLBOX(crypto_box_curve25519xsalsa20poly1305, crypto_box_curve25519xsalsa20poly1305_nacl)
#define BOXKEYS(P) \
static int c_##P##_keypair(A) { return P##_keypair(b[0], b[1]); } \
static int c_##P##_seed_keypair(A) { return P##_seed_keypair(b[0], b[1], b[2]); } \
static void p_##P##_beforenm(A) { if (cm == 1) mk_pk(b[1]); } \
static int c_##P##_beforenm(A) { return P##_beforenm(b[0], b[1], b[2]); }
BOXKEYS(crypto_box_curve25519xsalsa20poly1305) BOXKEYS(crypto_box_curve25519xchacha20poly1305)
#define DETNM(P) \
static int c_##P##_detached_afternm(A) { return P##_detached_afternm(b[0], b[1], b[2], l1, b[3], b[4]); } \
static void p_##P##_open_detached_afternm(A) { if (cm == 1) { unsigned char *m = tmp_rand(l1), *t = (unsigned char *) malloc(l1 + 1), mac[16]; \
    P##_detached_afternm(t, mac, m, l1, b[3], b[4]); vcpy(b[1], t, l1); vcpy(b[2], mac, 16); free(t); free(m); } } \
static int c_##P##_open_detached_afternm(A) { return P##_open_detached_afternm(b[0], b[1], b[2], l1, b[3], b[4]); }
DETNM(crypto_box) DETNM(crypto_box_curve25519xchacha20poly1305)
static void p_aesnm(A) { cm_avail = crypto_aead_aes256gcm_is_available(); }
static void p_crypto_aead_aes256gcm_encrypt_detached_afternm(A) { cm_avail = crypto_aead_aes256gcm_is_available();
    if (cm_avail) { unsigned char k[32]; vrng_bytes(&rng, k, 32); crypto_aead_aes256gcm_beforenm((crypto_aead_aes256gcm_state *) (void *) b[6], k); } }
static int c_crypto_aead_aes256gcm_encrypt_detached_afternm(A) { return crypto_aead_aes256gcm_encrypt_detached_afternm(b[0], b[1], (ULL *) (void *) b[2], b[3], l1, b[4], l2, NULL, b[5], (const crypto_aead_aes256gcm_state *) (void *) b[6]); }
static void p_crypto_aead_aes256gcm_decrypt_detached_afternm(A) { cm_avail = crypto_aead_aes256gcm_is_available();
    if (cm_avail) { unsigned char k[32]; vrng_bytes(&rng, k, 32); crypto_aead_aes256gcm_beforenm((crypto_aead_aes256gcm_state *) (void *) b[5], k);
        if (cm == 1) { unsigned char *m = tmp_rand(l1), *t = (unsigned char *) malloc(l1 + 1), mac[16]; crypto_aead_aes256gcm_encrypt_detached(t, mac, NULL, m, l1, b[3], l2, NULL, b[4], k); vcpy(b[1], t, l1); vcpy(b[2], mac, 16); free(t); free(m); } } }
static int c_crypto_aead_aes256gcm_decrypt_detached_afternm(A) { return crypto_aead_aes256gcm_decrypt_detached_afternm(b[0], NULL, b[1], l1, b[2], b[3], l2, b[4], (const crypto_aead_aes256gcm_state *) (void *) b[5]); }
static int c_sodium_munlock(A) { sodium_mlock(b[0], l1); return sodium_munlock(b[0], l1); }

#define FN_NACLBOX(N) { #N, 5, p_nacl_m, c_##N }, EP(N##_open, 5), { #N "_afternm", 4, p_nacl_m_sym, c_##N##_afternm }, EP(N##_open_afternm, 4)
#define FN_BOXKEYS(P) E(P##_keypair, 2), E(P##_seed_keypair, 3), EP(P##_beforenm, 3)
#define FN_DETNM(P) E(P##_detached_afternm, 5), EP(P##_open_detached_afternm, 5)
#define FNS_EXTRA \
    E(crypto_aead_aegis128l_keygen, 1), E(crypto_aead_aegis256_keygen, 1), E(crypto_aead_aes256gcm_keygen, 1), E(crypto_aead_chacha20poly1305_ietf_keygen, 1), \
    E(crypto_aead_chacha20poly1305_keygen, 1), E(crypto_aead_xchacha20poly1305_ietf_keygen, 1), E(crypto_auth_hmacsha256_keygen, 1), E(crypto_auth_hmacsha512256_keygen, 1), \
    E(crypto_auth_hmacsha512_keygen, 1), E(crypto_auth_keygen, 1), E(crypto_generichash_blake2b_keygen, 1), E(crypto_generichash_keygen, 1), E(crypto_kdf_hkdf_sha256_keygen, 1), \
    E(crypto_kdf_hkdf_sha512_keygen, 1), E(crypto_kdf_keygen, 1), E(crypto_onetimeauth_keygen, 1), E(crypto_onetimeauth_poly1305_keygen, 1), E(crypto_secretbox_keygen, 1), \
    E(crypto_secretbox_xsalsa20poly1305_keygen, 1), E(crypto_secretstream_xchacha20poly1305_keygen, 1), E(crypto_shorthash_keygen, 1), E(crypto_stream_chacha20_ietf_keygen, 1), \
    E(crypto_stream_chacha20_keygen, 1), E(crypto_stream_keygen, 1), E(crypto_stream_salsa2012_keygen, 1), E(crypto_stream_salsa208_keygen, 1), E(crypto_stream_salsa20_keygen, 1), \
    E(crypto_stream_xchacha20_keygen, 1), E(crypto_stream_xsalsa20_keygen, 1), E(randombytes, 1), \
    E(crypto_sign_ed25519_keypair, 2), E(crypto_sign_ed25519_seed_keypair, 3), E(crypto_sign_ed25519, 4), EP(crypto_sign_ed25519_open, 4), E(crypto_sign_ed25519_detached, 4), \
    EP(crypto_sign_ed25519_verify_detached, 3), E(crypto_sign_ed25519ph_multi_create, 5), EP(crypto_sign_ed25519ph_multi_verify, 4), \
    E(crypto_generichash_blake2b, 2), E(crypto_generichash_blake2b_multi, 4), E(crypto_generichash_blake2b_multi_sp, 5), \
    E(crypto_onetimeauth_poly1305, 3), EP(crypto_onetimeauth_poly1305_verify, 3), E(crypto_onetimeauth_poly1305_multi, 4), \
    EP(crypto_scalarmult_curve25519, 3), E(crypto_scalarmult_curve25519_base, 2), E(crypto_shorthash_siphash24, 3), E(crypto_kdf_blake2b_derive_from_key, 3), \
    E(crypto_pwhash_argon2id_str, 2), E(crypto_pwhash_argon2i_str, 2), EP(crypto_pwhash_argon2id_str_verify, 2), EP(crypto_pwhash_argon2i_str_verify, 2), \
    EP(crypto_pwhash_argon2id_str_needs_rehash, 1), EP(crypto_pwhash_argon2i_str_needs_rehash, 1), \
    { "crypto_secretbox_xsalsa20poly1305", 4, p_nacl_m_sym, c_crypto_secretbox_xsalsa20poly1305 }, EP(crypto_secretbox_xsalsa20poly1305_open, 4), \
    FN_NACLBOX(crypto_box_nacl), FN_NACLBOX(crypto_box_curve25519xsalsa20poly1305_nacl), \
    FN_BOXKEYS(crypto_box_curve25519xsalsa20poly1305), FN_BOXKEYS(crypto_box_curve25519xchacha20poly1305), \
    FN_DETNM(crypto_box), FN_DETNM(crypto_box_curve25519xchacha20poly1305), \
    EP(crypto_aead_aes256gcm_encrypt_detached_afternm, 7), EP(crypto_aead_aes256gcm_decrypt_detached_afternm, 6), E(sodium_munlock, 1)
