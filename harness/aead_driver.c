/* Authenticated-encryption driver (C01): for every construction and (message length, ad length) pair it runs
 * EVERY call form for encryption (combined, detached, NaCl zero-padded, precomputed key) and for decryption,
 * and logs one record per input with every DISTINCT (ciphertext, tag) pair observed; NDJSON for
 * spec/trace/OracleAead.tla.
 *   aead_driver <seed> <mode> <out.ndjson>     mode: quick | full                                */
#include "common.h"
static vrng R;
#define MAXD 6
typedef struct { unsigned char *c[MAXD], t[MAXD][32]; int n, forms; size_t clen, tlen; int dec_ok; } res_t;
static void res_init(res_t *r, size_t clen, size_t tlen) { memset(r, 0, sizeof *r); r->clen = clen; r->tlen = tlen; r->dec_ok = 1; }
static void res_add(res_t *r, const unsigned char *c, const unsigned char *t, int ret) {
    r->forms++; if (ret != 0) { r->dec_ok = 0; }
    for (int i = 0; i < r->n; i++) if (!memcmp(r->c[i], c, r->clen) && !memcmp(r->t[i], t, r->tlen)) return;
    if (r->n < MAXD) { r->c[r->n] = malloc(r->clen + 1); memcpy(r->c[r->n], c, r->clen); memcpy(r->t[r->n], t, r->tlen); r->n++; }
}
static void res_dec(res_t *r, int ret, const unsigned char *got, const unsigned char *m, size_t mlen, unsigned long long reported) {
    r->forms++; if (ret != 0 || reported != mlen || (mlen && memcmp(got, m, mlen))) r->dec_ok = 0; }
static void res_emit(res_t *r) {
    fprintf(v_out, "\"nforms\":%d,\"dec_ok\":%s,\"res\":[", r->forms, r->dec_ok ? "true" : "false");
    for (int i = 0; i < r->n; i++) { fputs(i ? ",{" : "{", v_out); v_emit_bytes("c", r->c[i], r->clen); fputc(',', v_out); v_emit_bytes("t", r->t[i], r->tlen); fputc('}', v_out); free(r->c[i]); }
    fputs("]}\n", v_out);
}
static void hdr(const char *op, const char *alg, const unsigned char *k, size_t kl, const unsigned char *n, size_t nl, const unsigned char *ad, size_t al, const unsigned char *m, size_t ml) {
    fprintf(v_out, "{\"op\":\"%s\",\"alg\":\"%s\",", op, alg); v_emit_bytes("k", k, kl); fputc(',', v_out); v_emit_bytes("n", n, nl); fputc(',', v_out); v_emit_bytes("ad", ad, al); fputc(',', v_out); v_emit_bytes("m", m, ml); fputc(',', v_out); }

#define AEAD_FORMS(P, NAME, KL, NL, TL) do { \
    res_t r; res_init(&r, ml, TL); unsigned long long l = 0, tl = 0; \
    memset(c, 0xaa, ml + 64); int ret = P##_encrypt(c, &l, m, ml, al ? ad : NULL, al, NULL, n, k); res_add(&r, c, c + ml, ret | (l != ml + TL)); \
    memset(c2, 0xaa, ml + 64); ret = P##_encrypt_detached(c2, tag, &tl, m, ml, al ? ad : NULL, al, NULL, n, k); res_add(&r, c2, tag, ret | (tl != TL)); \
    memcpy(c2, m, ml); ret = P##_encrypt(c2, &l, c2, ml, al ? ad : NULL, al, NULL, n, k); res_add(&r, c2, c2 + ml, ret);           /* in place */ \
    memset(c2, 0xaa, ml + 64); ret = P##_encrypt(c2, NULL, m, ml, al ? ad : NULL, al, NULL, n, k); res_add(&r, c2, c2 + ml, ret);   /* forms that do not ask for the lengths */ \
    memset(c2, 0xaa, ml + 64); memset(tag, 0, sizeof tag); ret = P##_encrypt_detached(c2, tag, NULL, m, ml, al ? ad : NULL, al, NULL, n, k); res_add(&r, c2, tag, ret); \
    memset(out, 0x77, ml + 1); ret = P##_decrypt(out, NULL, NULL, c, ml + TL, al ? ad : NULL, al, n, k); res_dec(&r, ret, out, m, ml, ml); \
    l = 999; ret = P##_decrypt(out, &l, NULL, c, ml + TL, al ? ad : NULL, al, n, k); res_dec(&r, ret, out, m, ml, l); \
    ret = P##_decrypt_detached(out, NULL, c, ml, c + ml, al ? ad : NULL, al, n, k); res_dec(&r, ret, out, m, ml, ml); \
    ret = P##_decrypt_detached(NULL, NULL, c, ml, c + ml, al ? ad : NULL, al, n, k); res_dec(&r, ret, m, m, ml, ml);                   /* verify only */ \
    hdr("aead", NAME, k, KL, n, NL, ad, al, m, ml); res_emit(&r); } while (0)

static void one(size_t ml, size_t al, int heavy) {
    unsigned char *m = malloc(ml + 64), *ad = malloc(al + 1), *c = malloc(ml + 128), *c2 = malloc(ml + 128), *out = malloc(ml + 128), k[32], n[32], tag[32];
    vrng_bytes(&R, m, ml); vrng_bytes(&R, ad, al); vrng_bytes(&R, k, 32); vrng_bytes(&R, n, 32);
    AEAD_FORMS(crypto_aead_chacha20poly1305, "chacha20poly1305", 32, 8, 16);
    AEAD_FORMS(crypto_aead_chacha20poly1305_ietf, "chacha20poly1305_ietf", 32, 12, 16);
    AEAD_FORMS(crypto_aead_xchacha20poly1305_ietf, "xchacha20poly1305_ietf", 32, 24, 16);
    AEAD_FORMS(crypto_aead_aegis128l, "aegis128l", 16, 16, 32);
    AEAD_FORMS(crypto_aead_aegis256, "aegis256", 32, 32, 32);
    if (crypto_aead_aes256gcm_is_available() && heavy) {
        AEAD_FORMS(crypto_aead_aes256gcm, "aes256gcm", 32, 12, 16);
        { res_t r; res_init(&r, ml, 16); unsigned long long l = 0, tl = 0; crypto_aead_aes256gcm_state *st = sodium_malloc(sizeof *st); crypto_aead_aes256gcm_beforenm(st, k);
          int ret = crypto_aead_aes256gcm_encrypt_afternm(c, &l, m, ml, al ? ad : NULL, al, NULL, n, st); res_add(&r, c, c + ml, ret);
          ret = crypto_aead_aes256gcm_encrypt_detached_afternm(c2, tag, &tl, m, ml, al ? ad : NULL, al, NULL, n, st); res_add(&r, c2, tag, ret);
          ret = crypto_aead_aes256gcm_encrypt(c2, &l, m, ml, al ? ad : NULL, al, NULL, n, k); res_add(&r, c2, c2 + ml, ret);
          l = 9; ret = crypto_aead_aes256gcm_decrypt_afternm(out, &l, NULL, c, ml + 16, al ? ad : NULL, al, n, st); res_dec(&r, ret, out, m, ml, l);
          ret = crypto_aead_aes256gcm_decrypt_detached_afternm(out, NULL, c, ml, c + ml, al ? ad : NULL, al, n, st); res_dec(&r, ret, out, m, ml, ml); sodium_free(st);
          hdr("aead", "aes256gcm", k, 32, n, 12, ad, al, m, ml); res_emit(&r); }
    }
    if (al == 0 || al == 1) {     /* constructions without associated data: run them once per message length */
        unsigned char *zp = calloc(1, ml + 64), *zc = malloc(ml + 64), *zo = malloc(ml + 64);
        { res_t r; res_init(&r, ml, 16); int ret = crypto_secretbox_easy(c, m, ml, n, k); res_add(&r, c + 16, c, ret);
          ret = crypto_secretbox_detached(c2, tag, m, ml, n, k); res_add(&r, c2, tag, ret);
          memcpy(zp + 32, m, ml); ret = crypto_secretbox(zc, zp, ml + 32, n, k); int z16 = sodium_is_zero(zc, 16); res_add(&r, zc + 32, zc + 16, ret | !z16);            /* NaCl form */
          ret = crypto_secretbox_xsalsa20poly1305(zc, zp, ml + 32, n, k); res_add(&r, zc + 32, zc + 16, ret);
          memcpy(c2 + 16, m, ml); ret = crypto_secretbox_easy(c2, c2 + 16, ml, n, k); res_add(&r, c2 + 16, c2, ret);                                                   /* overlapping */
          ret = crypto_secretbox_open_easy(out, c, ml + 16, n, k); res_dec(&r, ret, out, m, ml, ml);
          ret = crypto_secretbox_open_detached(out, c + 16, c, ml, n, k); res_dec(&r, ret, out, m, ml, ml);
          ret = crypto_secretbox_open(zo, zc, ml + 32, n, k); res_dec(&r, ret | !sodium_is_zero(zo, 32), zo + 32, m, ml, ml);
          hdr("aead", "secretbox", k, 32, n, 24, ad, 0, m, ml); res_emit(&r); }
        { res_t r; res_init(&r, ml, 16); int ret = crypto_secretbox_xchacha20poly1305_easy(c, m, ml, n, k); res_add(&r, c + 16, c, ret);
          ret = crypto_secretbox_xchacha20poly1305_detached(c2, tag, m, ml, n, k); res_add(&r, c2, tag, ret);
          ret = crypto_secretbox_xchacha20poly1305_open_easy(out, c, ml + 16, n, k); res_dec(&r, ret, out, m, ml, ml);
          ret = crypto_secretbox_xchacha20poly1305_open_detached(out, c + 16, c, ml, n, k); res_dec(&r, ret, out, m, ml, ml);
          hdr("aead", "secretbox_xchacha", k, 32, n, 24, ad, 0, m, ml); res_emit(&r); }
        free(zp); free(zc); free(zo);
    }
    free(m); free(ad); free(c); free(c2); free(out);
}
static unsigned char last_served[64]; static vrng brng;
static const char *b_name(void) { return "v"; } static uint32_t b_rand(void) { return (uint32_t) vrng_u64(&brng); }
static void b_buf(void *b, size_t n) { vrng_bytes(&brng, b, n); if (n <= 64) memcpy(last_served, b, n); }
static randombytes_implementation b_impl = { b_name, b_rand, NULL, NULL, b_buf, NULL };
static void boxes(size_t ml, int lowpk) {
    unsigned char *m = malloc(ml + 64), *c = malloc(ml + 128), *c2 = malloc(ml + 128), *out = malloc(ml + 128), *zp = calloc(1, ml + 64), *zc = malloc(ml + 64), pk[32], sk[32], pk2[32], sk2[32], n[24], kb[32], tag[16], seed[32];
    vrng_bytes(&R, m, ml); vrng_bytes(&R, n, 24); vrng_bytes(&R, seed, 32); crypto_box_seed_keypair(pk, sk, seed); vrng_bytes(&R, seed, 32); crypto_box_seed_keypair(pk2, sk2, seed);
    if (lowpk) { memset(pk2, 0, 32); pk2[0] = 1; }
    for (int x = 0; x < 2; x++) {
        res_t r; res_init(&r, ml, 16); int rets = 0, ret;
        if (x == 0) { ret = crypto_box_easy(c, m, ml, n, pk2, sk); rets |= ret; if (!ret) res_add(&r, c + 16, c, 0); ret = crypto_box_detached(c2, tag, m, ml, n, pk2, sk); rets |= ret; if (!ret) res_add(&r, c2, tag, 0);
            ret = crypto_box_beforenm(kb, pk2, sk); rets |= ret; if (!ret) { crypto_box_easy_afternm(c2, m, ml, n, kb); res_add(&r, c2 + 16, c2, 0); crypto_box_detached_afternm(c2, tag, m, ml, n, kb); res_add(&r, c2, tag, 0);
                memcpy(zp + 32, m, ml); crypto_box_afternm(zc, zp, ml + 32, n, kb); res_add(&r, zc + 32, zc + 16, 0); ret = crypto_box(zc, zp, ml + 32, n, pk2, sk); res_add(&r, zc + 32, zc + 16, ret);
                ret = crypto_box_open_easy(out, c, ml + 16, n, pk, sk2); if (!lowpk) res_dec(&r, ret, out, m, ml, ml); ret = crypto_box_open_easy_afternm(out, c, ml + 16, n, kb); res_dec(&r, ret, out, m, ml, ml);
                ret = crypto_box_open_detached(out, c + 16, c, ml, n, pk2, sk); res_dec(&r, ret, out, m, ml, ml); } }
        else { ret = crypto_box_curve25519xchacha20poly1305_easy(c, m, ml, n, pk2, sk); rets |= ret; if (!ret) res_add(&r, c + 16, c, 0); ret = crypto_box_curve25519xchacha20poly1305_detached(c2, tag, m, ml, n, pk2, sk); rets |= ret; if (!ret) res_add(&r, c2, tag, 0);
            ret = crypto_box_curve25519xchacha20poly1305_beforenm(kb, pk2, sk); rets |= ret; if (!ret) { crypto_box_curve25519xchacha20poly1305_easy_afternm(c2, m, ml, n, kb); res_add(&r, c2 + 16, c2, 0);
                ret = crypto_box_curve25519xchacha20poly1305_open_easy(out, c, ml + 16, n, pk, sk2); if (!lowpk) res_dec(&r, ret, out, m, ml, ml); ret = crypto_box_curve25519xchacha20poly1305_open_easy_afternm(out, c, ml + 16, n, kb); res_dec(&r, ret, out, m, ml, ml); } }
        fprintf(v_out, "{\"op\":\"box\",\"alg\":\"%s\",", x ? "box_xchacha" : "box"); v_emit_bytes("pk", pk2, 32); fputc(',', v_out); v_emit_bytes("sk", sk, 32); fputc(',', v_out); v_emit_bytes("kb", kb, 32); fputc(',', v_out);
        v_emit_bytes("n", n, 24); fputc(',', v_out); v_emit_bytes("m", m, ml); fprintf(v_out, ",\"ret_all\":%d,", rets ? -1 : 0); res_emit(&r);
    }
    if (!lowpk) for (int x = 0; x < 2; x++) {   /* sealed boxes: the ephemeral secret key is what the (scripted) random source served */
        vrng_seed(&brng, vrng_u64(&R), 3); randombytes_set_implementation(&b_impl);
        size_t sl = ml + (x ? crypto_box_curve25519xchacha20poly1305_SEALBYTES : crypto_box_SEALBYTES); unsigned char esk[32];
        int ret = x ? crypto_box_curve25519xchacha20poly1305_seal(c, m, ml, pk2) : crypto_box_seal(c, m, ml, pk2); memcpy(esk, last_served, 32);
        int ro = x ? crypto_box_curve25519xchacha20poly1305_seal_open(out, c, sl, pk2, sk2) : crypto_box_seal_open(out, c, sl, pk2, sk2);
        int shortrej = 1; for (size_t q = 0; q < 48; q += 5) shortrej &= (x ? crypto_box_curve25519xchacha20poly1305_seal_open(out, c, q, pk2, sk2) : crypto_box_seal_open(out, c, q, pk2, sk2)) == -1;
        fprintf(v_out, "{\"op\":\"seal\",\"alg\":\"%s\",", x ? "seal_xchacha" : "seal"); v_emit_bytes("pk", pk2, 32); fputc(',', v_out); v_emit_bytes("esk", esk, 32); fputc(',', v_out); v_emit_bytes("m", m, ml); fputc(',', v_out); v_emit_bytes("out", c, sl);
        fprintf(v_out, ",\"open_ok\":%s,\"short_rejected\":%s}\n", (ret == 0 && ro == 0 && (ml == 0 || !memcmp(out, m, ml))) ? "true" : "false", shortrej ? "true" : "false");
    }
    free(m); free(c); free(c2); free(out); free(zp); free(zc);
}
/* AEGIS-128L with associated data of 2^29 bytes and more (the bit counts in the final block then need more than 32 bits). TLC cannot
 * absorb that much, so the state after the associated data is produced here by a plain absorber (one aesenc per state word, written
 * from the specification's Update), which "aegis_absorb" records validate against Aegis.tla on short data; for the long data TLC
 * continues from that state: message, final block with the lengths, tag.  The data is a read-only sparse mapping (zero pages). */
#if defined(__x86_64__)
#include <immintrin.h>
__attribute__((target("aes,sse2"))) static void ag_update(__m128i S[8], __m128i m0, __m128i m1) {
    __m128i t7 = S[7];
    S[7] = _mm_aesenc_si128(S[6], S[7]); S[6] = _mm_aesenc_si128(S[5], S[6]); S[5] = _mm_aesenc_si128(S[4], S[5]); S[4] = _mm_aesenc_si128(S[3], _mm_xor_si128(S[4], m1));
    S[3] = _mm_aesenc_si128(S[2], S[3]); S[2] = _mm_aesenc_si128(S[1], S[2]); S[1] = _mm_aesenc_si128(S[0], S[1]); S[0] = _mm_aesenc_si128(t7, _mm_xor_si128(S[0], m0));
}
__attribute__((target("aes,sse2"))) static void ag_absorb(unsigned char out[8][16], const unsigned char k[16], const unsigned char n[16], const unsigned char *ad, size_t adlen) {
    static const unsigned char C0[16] = { 0, 1, 1, 2, 3, 5, 8, 13, 21, 34, 55, 89, 144, 233, 121, 98 }, C1[16] = { 219, 61, 24, 85, 109, 194, 47, 241, 32, 17, 49, 66, 115, 181, 40, 221 };
    __m128i K = _mm_loadu_si128((const __m128i *) k), N = _mm_loadu_si128((const __m128i *) n), c0 = _mm_loadu_si128((const __m128i *) C0), c1 = _mm_loadu_si128((const __m128i *) C1), S[8];
    S[0] = _mm_xor_si128(K, N); S[1] = c1; S[2] = c0; S[3] = c1; S[4] = _mm_xor_si128(K, N); S[5] = _mm_xor_si128(K, c0); S[6] = _mm_xor_si128(K, c1); S[7] = _mm_xor_si128(K, c0);
    for (int i = 0; i < 10; i++) ag_update(S, N, K);
    size_t i = 0; for (; i + 32 <= adlen; i += 32) ag_update(S, _mm_loadu_si128((const __m128i *) (ad + i)), _mm_loadu_si128((const __m128i *) (ad + i + 16)));
    if (i < adlen) { unsigned char pad[32] = { 0 }; memcpy(pad, ad + i, adlen - i); ag_update(S, _mm_loadu_si128((const __m128i *) pad), _mm_loadu_si128((const __m128i *) (pad + 16))); }
    for (int j = 0; j < 8; j++) _mm_storeu_si128((__m128i *) out[j], S[j]);
}
__attribute__((target("aes,sse2"))) static void ag256_update(__m128i S[6], __m128i m) {
    __m128i t5 = S[5];
    S[5] = _mm_aesenc_si128(S[4], S[5]); S[4] = _mm_aesenc_si128(S[3], S[4]); S[3] = _mm_aesenc_si128(S[2], S[3]); S[2] = _mm_aesenc_si128(S[1], S[2]);
    S[1] = _mm_aesenc_si128(S[0], S[1]); S[0] = _mm_aesenc_si128(t5, _mm_xor_si128(S[0], m));
}
__attribute__((target("aes,sse2"))) static void ag256_absorb(unsigned char out[8][16], const unsigned char k[32], const unsigned char n[32], const unsigned char *ad, size_t adlen) {
    static const unsigned char C0[16] = { 0, 1, 1, 2, 3, 5, 8, 13, 21, 34, 55, 89, 144, 233, 121, 98 }, C1[16] = { 219, 61, 24, 85, 109, 194, 47, 241, 32, 17, 49, 66, 115, 181, 40, 221 };
    __m128i k0 = _mm_loadu_si128((const __m128i *) k), k1 = _mm_loadu_si128((const __m128i *) (k + 16)), n0 = _mm_loadu_si128((const __m128i *) n), n1 = _mm_loadu_si128((const __m128i *) (n + 16));
    __m128i c0 = _mm_loadu_si128((const __m128i *) C0), c1 = _mm_loadu_si128((const __m128i *) C1), k0n0 = _mm_xor_si128(k0, n0), k1n1 = _mm_xor_si128(k1, n1), S[6];
    S[0] = k0n0; S[1] = k1n1; S[2] = c1; S[3] = c0; S[4] = _mm_xor_si128(k0, c0); S[5] = _mm_xor_si128(k1, c1);
    for (int i = 0; i < 4; i++) { ag256_update(S, k0); ag256_update(S, k1); ag256_update(S, k0n0); ag256_update(S, k1n1); }
    size_t i = 0; for (; i + 16 <= adlen; i += 16) ag256_update(S, _mm_loadu_si128((const __m128i *) (ad + i)));
    if (i < adlen) { unsigned char pad[16] = { 0 }; memcpy(pad, ad + i, adlen - i); ag256_update(S, _mm_loadu_si128((const __m128i *) pad)); }
    for (int j = 0; j < 6; j++) _mm_storeu_si128((__m128i *) out[j], S[j]);
}
static int NSTATE = 8;
static void emit_state(unsigned char S[8][16]) { fputs("\"S\":[", v_out); for (int j = 0; j < NSTATE; j++) { fputs(j ? ",[" : "[", v_out); for (int b = 0; b < 16; b++) fprintf(v_out, b ? ",%u" : "%u", S[j][b]); fputc(']', v_out); } fputc(']', v_out); }
static void aegis_huge(int full) {
    if (!sodium_runtime_has_aesni() || !sodium_runtime_has_avx()) return;
    unsigned char k[16], n[16], S[8][16], adb[100], m[100], c[100 + 32], out[100]; vrng_bytes(&R, k, 16); vrng_bytes(&R, n, 16);
    static const size_t SL[] = { 0, 1, 31, 32, 33, 64, 100 };
    for (size_t i = 0; i < sizeof SL / sizeof SL[0]; i++) { vrng_bytes(&R, adb, SL[i]); ag_absorb(S, k, n, adb, SL[i]);
        fprintf(v_out, "{\"op\":\"aegis_absorb\",\"alg\":\"aegis128l\","); v_emit_bytes("k", k, 16); fputc(',', v_out); v_emit_bytes("n", n, 16); fputc(',', v_out); v_emit_bytes("ad", adb, SL[i]); fputc(',', v_out); emit_state(S); fputs("}\n", v_out); }
    size_t cap = ((size_t) 4 << 30) + 4096; unsigned char *big = (unsigned char *) mmap(NULL, cap, PROT_READ, MAP_PRIVATE | MAP_ANONYMOUS | MAP_NORESERVE, -1, 0);
    if (big == MAP_FAILED) return;
    static const unsigned long long HL[] = { 1ULL << 29, (1ULL << 29) + 45, (1ULL << 32) + 32, (1ULL << 31) + 7, (1ULL << 30) + (1ULL << 29), (1ULL << 32) - 1 };
    for (int i = 0; i < (full ? 6 : 3); i++) { size_t adlen = (size_t) HL[i], ml = i % 2 ? 100 : 0; unsigned long long cl = 0, ol = 0; unsigned char l8[8];
        vrng_bytes(&R, m, 100); for (int b = 0; b < 8; b++) l8[b] = (unsigned char) (HL[i] >> (8 * b));
        int ret = crypto_aead_aegis128l_encrypt(c, &cl, m, ml, big, adlen, NULL, n, k);
        int dec = crypto_aead_aegis128l_decrypt(out, &ol, NULL, c, cl, big, adlen, n, k); int dec_ok = dec == 0 && ol == ml && !memcmp(out, m, ml) && cl == ml + 32;
        ag_absorb(S, k, n, big, adlen);
        fprintf(v_out, "{\"op\":\"aegis_huge\",\"alg\":\"aegis128l\",\"ret\":%d,\"dec_ok\":%s,", ret, dec_ok ? "true" : "false"); v_emit_bytes("adlen8", l8, 8); fputc(',', v_out); v_emit_bytes("m", m, ml); fputc(',', v_out);
        v_emit_bytes("out", c, ml + 32); fputc(',', v_out); emit_state(S); fputs("}\n", v_out); }
    /* the same for AEGIS-256 (six state words, 16-byte blocks) */
    { unsigned char k2[32], n2[32]; vrng_bytes(&R, k2, 32); vrng_bytes(&R, n2, 32); NSTATE = 6;
      for (size_t i = 0; i < sizeof SL / sizeof SL[0]; i++) { vrng_bytes(&R, adb, SL[i]); ag256_absorb(S, k2, n2, adb, SL[i]);
          fprintf(v_out, "{\"op\":\"aegis_absorb\",\"alg\":\"aegis256\","); v_emit_bytes("k", k2, 32); fputc(',', v_out); v_emit_bytes("n", n2, 32); fputc(',', v_out); v_emit_bytes("ad", adb, SL[i]); fputc(',', v_out); emit_state(S); fputs("}\n", v_out); }
      for (int i = 0; i < (full ? 6 : 3); i++) { size_t adlen = (size_t) HL[i], ml = i % 2 ? 100 : 0; unsigned long long cl = 0, ol = 0; unsigned char l8[8];
          vrng_bytes(&R, m, 100); for (int b = 0; b < 8; b++) l8[b] = (unsigned char) (HL[i] >> (8 * b));
          int ret = crypto_aead_aegis256_encrypt(c, &cl, m, ml, big, adlen, NULL, n2, k2);
          int dec = crypto_aead_aegis256_decrypt(out, &ol, NULL, c, cl, big, adlen, n2, k2); int dec_ok = dec == 0 && ol == ml && !memcmp(out, m, ml) && cl == ml + 32;
          ag256_absorb(S, k2, n2, big, adlen);
          fprintf(v_out, "{\"op\":\"aegis_huge\",\"alg\":\"aegis256\",\"ret\":%d,\"dec_ok\":%s,", ret, dec_ok ? "true" : "false"); v_emit_bytes("adlen8", l8, 8); fputc(',', v_out); v_emit_bytes("m", m, ml); fputc(',', v_out);
          v_emit_bytes("out", c, ml + 32); fputc(',', v_out); emit_state(S); fputs("}\n", v_out); }
      NSTATE = 8; }
    munmap(big, cap);
}
#else
static void aegis_huge(int full) { (void) full; }
#endif
int main(int argc, char **argv) {
    if (argc < 4) return 3;
    vrng_seed(&R, strtoull(argv[1], NULL, 10), 1); int full = !strcmp(argv[2], "full");
    v_open(argv[3]); if (sodium_init() < 0) return 3; v_install_crash_handlers();
    static const size_t ML[] = { 0, 1, 15, 16, 17, 31, 32, 33, 47, 48, 63, 64, 65, 95, 96, 97, 127, 128, 129, 191, 192, 193, 255, 256, 257, 319, 320, 321, 383, 384, 385, 511, 512, 513, 767, 768, 1023, 1024, 1025, 2047, 2048 };
    static const size_t AL[] = { 0, 1, 15, 16, 17, 64, 13, 31, 32, 33, 65, 127, 128, 129, 300 };
    if (!full) {
        for (size_t i = 0; i < sizeof ML / sizeof ML[0]; i++) for (size_t j = 0; j < 6; j++) { if (ML[i] > 520 && j > 1) continue; if ((i + j) % 2 && j > 1) continue; one(ML[i], AL[j], ML[i] <= 520 || j == 0); }
        for (size_t j = 6; j < sizeof AL / sizeof AL[0]; j++) { one(0, AL[j], 1); one(33, AL[j], 1); }
        static const size_t bl[] = { 0, 1, 16, 64, 200 }; for (size_t i = 0; i < 5; i++) boxes(bl[i], 0); boxes(5, 1);
    } else {
        for (size_t ml = 0; ml <= 2048; ml++) for (size_t j = 0; j < 6; j++) { if (j > 1 && ml % 7 != 3) continue; one(ml, AL[j], ml <= 600 || ml % 16 == 0 || j == 0); }
        for (size_t al = 0; al <= 300; al++) { one(0, al, 1); one(33, al, 1); one(200, al, al % 4 == 0); }
        for (size_t ml = 0; ml <= 300; ml += 7) boxes(ml, 0); boxes(5, 1); boxes(0, 1);
    }
    aegis_huge(full);
    v_close(); return 0;
}
