/* Multi-thread workload (C19, second half): after sodium_init(), N threads run a mixed workload over every API
 * family on their own buffers; each deterministic result is compared with the value the same thread-specific
 * input gave in a sequential run made before the threads were started. Built against the tsan variant: a
 * ThreadSanitizer report is an event the specification does not allow (the check counts them in stderr).
 *   mt_workload <seed> <threads> <iters> <rng: default|internal> <out.ndjson>                   */
#include "common.h"
#include <pthread.h>
#include <stddef.h>
#include <linux/filter.h>
#include <linux/seccomp.h>
#include <sys/prctl.h>
#include <sys/syscall.h>
/* "default-fallback": getrandom() answers ENOSYS (old kernel, sandbox policy), so the default generator serves every thread from its
 * shared /dev/urandom descriptor */
static int deny_getrandom(void) {
    struct sock_filter flt[] = {
        BPF_STMT(BPF_LD | BPF_W | BPF_ABS, (unsigned) offsetof(struct seccomp_data, nr)),
        BPF_JUMP(BPF_JMP | BPF_JEQ | BPF_K, __NR_getrandom, 0, 1),
        BPF_STMT(BPF_RET | BPF_K, SECCOMP_RET_ERRNO | (ENOSYS & SECCOMP_RET_DATA)),
        BPF_STMT(BPF_RET | BPF_K, SECCOMP_RET_ALLOW) };
    struct sock_fprog prog = { (unsigned short) (sizeof flt / sizeof flt[0]), flt };
    return prctl(PR_SET_NO_NEW_PRIVS, 1, 0, 0, 0) == 0 && prctl(PR_SET_SECCOMP, SECCOMP_MODE_FILTER, &prog) == 0;
}
#define NDRAW 3000
static uint64_t drawn[16][NDRAW][2]; static int fallback_mode;
static int cmp_u128(const void *a, const void *b) { return memcmp(a, b, 16); }

#define NOPS 16
#define MAXT 16
static unsigned char expect[MAXT][NOPS][64];
static int results[MAXT][NOPS];
static int iters; static uint64_t seed; static pthread_barrier_t bar;

static void ops(int t, unsigned char out[NOPS][64]) {
    vrng r; vrng_seed(&r, seed, (uint64_t) t + 100);
    unsigned char key[64], nonce[32], msg[300], c[400], pk[32], sk[64], pk2[32], sk2[32], sig[64]; unsigned long long l;
    vrng_bytes(&r, key, 64); vrng_bytes(&r, nonce, 32); vrng_bytes(&r, msg, 300);
    memset(out, 0, NOPS * 64);
    crypto_generichash(out[0], 64, msg, 300, key, 32);
    crypto_hash_sha512(out[1], msg, 300);
    crypto_auth(out[2], msg, 257, key);
    crypto_secretbox_easy(c, msg, 100, nonce, key); crypto_generichash(out[3], 32, c, 116, NULL, 0);
    crypto_aead_xchacha20poly1305_ietf_encrypt(c, &l, msg, 200, msg, 7, NULL, nonce, key); crypto_generichash(out[4], 32, c, l, NULL, 0);
    crypto_aead_aegis256_encrypt(c, &l, msg, 129, NULL, 0, NULL, nonce, key); crypto_generichash(out[5], 32, c, l, NULL, 0);
    if (crypto_aead_aes256gcm_is_available()) { crypto_aead_aes256gcm_encrypt(c, &l, msg, 77, NULL, 0, NULL, nonce, key); crypto_generichash(out[6], 32, c, l, NULL, 0); }
    crypto_box_seed_keypair(pk, sk, key); crypto_box_seed_keypair(pk2, sk2, key + 32);
    crypto_box_easy(c, msg, 64, nonce, pk2, sk); crypto_generichash(out[7], 32, c, 80, NULL, 0);
    crypto_sign_seed_keypair(pk, sk, key); crypto_sign_detached(sig, NULL, msg, 99, sk); memcpy(out[8], sig, 64);
    out[9][0] = (unsigned char) (crypto_sign_verify_detached(sig, msg, 99, pk) + 1);
    crypto_stream_chacha20(out[10], 64, nonce, key); crypto_stream_salsa20(c, 64, nonce, key); for (int i = 0; i < 64; i++) out[10][i] ^= c[i];
    crypto_pwhash(out[11], 32, (const char *) msg, 8, nonce, crypto_pwhash_OPSLIMIT_MIN, crypto_pwhash_MEMLIMIT_MIN, crypto_pwhash_ALG_ARGON2ID13);
    crypto_scalarmult_ristretto255_base(out[12], key + 32 - 0); crypto_core_ed25519_scalar_reduce(out[12] + 32, key);
    crypto_kdf_derive_from_key(out[13], 64, (uint64_t) t, "verifctx", key);
    /* variable-base multiplications on thread-specific points (per-call tables of multiples) and X25519 */
    { unsigned char pt[32], rp[32], h[64]; crypto_generichash(h, 64, key, 64, NULL, 0); crypto_core_ed25519_from_uniform(pt, h); crypto_core_ristretto255_from_hash(rp, h);
      if (crypto_scalarmult_ed25519_noclamp(out[14], nonce, pt) != 0) out[14][0] ^= 1; if (crypto_scalarmult_ed25519(out[14] + 32, key, pt) != 0) out[14][33] ^= 1;
      if (crypto_scalarmult_ristretto255(out[15], key + 16, rp) != 0) out[15][0] ^= 1; if (crypto_scalarmult(out[15] + 32, key, pk2) != 0) out[15][33] ^= 1; }
}
static void *worker(void *arg) {
    int t = (int) (intptr_t) arg; unsigned char out[NOPS][64];
    pthread_barrier_wait(&bar);
    for (int it = 0; it < iters; it++) {
        ops(t, out);
        for (int k = 0; k < NOPS; k++) results[t][k] += memcmp(out[k], expect[t][k], 64) == 0;
        /* non-deterministic families: only race freedom matters */
        unsigned char rb[48]; randombytes_buf(rb, sizeof rb); (void) randombytes_uniform(1000 + (uint32_t) t);
        unsigned char *p = sodium_malloc(100 + (size_t) t); if (p) { memset(p, t, 100); sodium_mprotect_readonly(p); sodium_mprotect_readwrite(p); sodium_free(p); }
        unsigned char s[32]; crypto_core_ed25519_scalar_random(s); unsigned char pk[32], sk[32]; crypto_box_keypair(pk, sk);
        char hex[65]; sodium_bin2hex(hex, sizeof hex, rb, 32);
    }
    /* many small requests at once: what each thread receives is kept and compared afterwards (a repeated or all-zero 16-byte block
     * has probability 2^-100 with a working generator) */
    if (fallback_mode) for (int i = 0; i < NDRAW; i++) { unsigned char rb[32]; randombytes_buf(rb, 32); memcpy(drawn[t][i], rb + (i & 1) * 16, 16); }
    return NULL;
}
int main(int argc, char **argv) {
    if (argc < 6) return 3;
    seed = strtoull(argv[1], NULL, 10); int n = atoi(argv[2]); iters = atoi(argv[3]);
    if (n > MAXT) n = MAXT;
    if (!strcmp(argv[4], "internal")) randombytes_set_implementation(&randombytes_internal_implementation);
    v_open(argv[5]);
    int denied = -1;
    if (!strcmp(argv[4], "default-fallback")) { fallback_mode = 1; denied = deny_getrandom(); }       /* BEFORE sodium_init: the source is chosen once */
    if (sodium_init() < 0) return 3;
    for (int t = 0; t < n; t++) ops(t, expect[t]);          /* sequential reference */
    /* "default-closed": the application closed the generator after initialisation (documented, rarely needed); the threads' next
     * uses re-open it concurrently */
    if (!strcmp(argv[4], "default-closed")) randombytes_close();
    pthread_t th[MAXT]; pthread_barrier_init(&bar, NULL, (unsigned) n);
    for (int t = 0; t < n; t++) pthread_create(&th[t], NULL, worker, (void *) (intptr_t) t);
    for (int t = 0; t < n; t++) pthread_join(th[t], NULL);
    for (int t = 0; t < n; t++) for (int k = 0; k < NOPS; k++)
        fprintf(v_out, "{\"e\":\"mt\",\"t\":%d,\"op\":%d,\"iters\":%d,\"equal\":%d,\"rng\":\"%s\"}\n", t, k, iters, results[t][k], argv[4]);
    if (fallback_mode) { static uint64_t all[16 * NDRAW][2]; size_t m = 0; long dup = 0, zero = 0;
        for (int t = 0; t < n; t++) for (int i = 0; i < NDRAW; i++) { all[m][0] = drawn[t][i][0]; all[m][1] = drawn[t][i][1]; m++; }
        qsort(all, m, 16, cmp_u128);
        for (size_t i = 0; i < m; i++) { zero += all[i][0] == 0 && all[i][1] == 0; if (i && !memcmp(all[i], all[i - 1], 16)) dup++; }
        fprintf(v_out, "{\"e\":\"mtrand\",\"getrandom_denied\":%s,\"blocks\":%zu,\"repeated\":%ld,\"all_zero\":%ld}\n", denied == 1 ? "true" : "false", m, dup, zero); }
    v_close();
    return 0;
}
