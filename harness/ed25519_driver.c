/* Ed25519 driver (C06): key pairs, signatures (detached, combined, multi-part/pre-hashed), verification of
 * honest and adversarial triples, Ed25519 -> X25519 conversions; NDJSON for spec/trace/OracleEd25519.tla.
 * Adversarial inputs are MANUFACTURED with the library's own group arithmetic; they are inputs, the
 * specification judges what the verifier does with them.
 *   ed25519_driver <seed> <nhonest> <out.ndjson>                                               */
#include "common.h"
static vrng R;
static const unsigned char Lb[32] = { 0xed, 0xd3, 0xf5, 0x5c, 0x1a, 0x63, 0x12, 0x58, 0xd6, 0x9c, 0xf7, 0xa2, 0xde, 0xf9, 0xde, 0x14, 0, 0, 0, 0, 0, 0, 0, 0, 0, 0, 0, 0, 0, 0, 0, 0x10 };
static const char *torsion_hex[] = {
    "0100000000000000000000000000000000000000000000000000000000000000", "ecffffffffffffffffffffffffffffffffffffffffffffffffffffffffffff7f",
    "0000000000000000000000000000000000000000000000000000000000000000", "0000000000000000000000000000000000000000000000000000000000000080",
    "26e8958fc2b227b045c3f489f2ef98f0d5dfac05d3c63339b13802886d53fc05", "26e8958fc2b227b045c3f489f2ef98f0d5dfac05d3c63339b13802886d53fc85",
    "c7176a703d4dd84fba3c0b760d10670f2a2053fa2c39ccc64ec7fd7792ac037a", "c7176a703d4dd84fba3c0b760d10670f2a2053fa2c39ccc64ec7fd7792ac03fa",
    /* non-canonical aliases: 1 + p, p (y = 0), p - 1 with sign, 2^255 - 1 ... */
    "eeffffffffffffffffffffffffffffffffffffffffffffffffffffffffffff7f", "edffffffffffffffffffffffffffffffffffffffffffffffffffffffffffff7f",
    "edffffffffffffffffffffffffffffffffffffffffffffffffffffffffffffff", "ecffffffffffffffffffffffffffffffffffffffffffffffffffffffffffffff",
    "0100000000000000000000000000000000000000000000000000000000000080", "eeffffffffffffffffffffffffffffffffffffffffffffffffffffffffffffff" };
#define NTOR 14
static void hexto(const char *h, unsigned char *o) { for (int i = 0; i < 32; i++) { unsigned v; sscanf(h + 2 * i, "%2x", &v); o[i] = (unsigned char) v; } }
static void rec_verify(const char *kind, const unsigned char *sig, const unsigned char *m, size_t mlen, const unsigned char *pk, int honest) {
    int r1 = crypto_sign_verify_detached(sig, m, mlen, pk);
    unsigned char *sm = malloc(mlen + 64), *out = malloc(mlen + 64); unsigned long long ol = 777; memcpy(sm, sig, 64); memcpy(sm + 64, m, mlen);
    int r2 = crypto_sign_open(out, &ol, sm, mlen + 64, pk);
    int open_ok = r2 == 0 ? (ol == mlen && memcmp(out, m, mlen) == 0) : (ol == 0);
    /* every other way of calling the opener must reach the same verdict: verify-only (m == NULL, with and without the length
     * output), in place (m == sm) */
    { unsigned long long ol3 = 777; int r3 = crypto_sign_open(NULL, &ol3, sm, mlen + 64, pk), r4 = crypto_sign_open(NULL, NULL, sm, mlen + 64, pk);
      unsigned char *ip = malloc(mlen + 64); memcpy(ip, sm, mlen + 64); unsigned long long ol5 = 777; int r5 = crypto_sign_open(ip, &ol5, ip, mlen + 64, pk);
      if ((r3 == 0) != (r1 == 0) || (r4 == 0) != (r1 == 0) || (r5 == 0) != (r1 == 0) || (r3 == 0 && ol3 != mlen) || (r5 == 0 && (ol5 != mlen || (mlen && memcmp(ip, m, mlen))))) r2 = r1 == 0 ? -1 : 0;
      free(ip); }
    fprintf(v_out, "{\"op\":\"verify\",\"ph\":false,\"kind\":\"%s\",\"honest\":%s,", kind, honest ? "true" : "false"); v_emit_bytes("sig", sig, 64); fputc(',', v_out); v_emit_bytes("m", m, mlen); fputc(',', v_out); v_emit_bytes("pk", pk, 32);
    fprintf(v_out, ",\"accepted\":%s,\"open_agrees\":%s,\"open_ok\":%s}\n", r1 == 0 ? "true" : "false", (r1 == 0) == (r2 == 0) ? "true" : "false", open_ok ? "true" : "false");
    free(sm); free(out);
}
static void rec_verify_ph(const char *kind, const unsigned char *sig, const unsigned char *m, size_t mlen, const unsigned char *pk, int honest) {
    crypto_sign_state st; crypto_sign_init(&st); crypto_sign_update(&st, m, mlen / 3); crypto_sign_update(&st, m + mlen / 3, mlen - mlen / 3);
    int r1 = crypto_sign_final_verify(&st, sig, pk);
    crypto_sign_init(&st); crypto_sign_update(&st, m, mlen); int r2 = crypto_sign_final_verify(&st, sig, pk);
    fprintf(v_out, "{\"op\":\"verify\",\"ph\":true,\"kind\":\"%s\",\"honest\":%s,", kind, honest ? "true" : "false"); v_emit_bytes("sig", sig, 64); fputc(',', v_out); v_emit_bytes("m", m, mlen); fputc(',', v_out); v_emit_bytes("pk", pk, 32);
    fprintf(v_out, ",\"accepted\":%s,\"open_agrees\":%s,\"open_ok\":true}\n", r1 == 0 ? "true" : "false", r1 == r2 ? "true" : "false");
}
/* sign "by hand" with nonce point R = r*B + T so that forged-but-consistent signatures can be made */
static void sign_shifted(unsigned char sig[64], const unsigned char *m, size_t mlen, const unsigned char seed[32], const unsigned char *T, const unsigned char *pk_used, int recompute_h) {
    unsigned char h[64], a[32], r[32], Rb[32], hr[64], k[32], ka[32], S[32], pk[32], sk[64]; crypto_hash_sha512_state st;
    crypto_sign_seed_keypair(pk, sk, seed); crypto_hash_sha512(h, seed, 32); memcpy(a, h, 32); a[0] &= 248; a[31] &= 127; a[31] |= 64;
    crypto_hash_sha512_init(&st); crypto_hash_sha512_update(&st, h + 32, 32); crypto_hash_sha512_update(&st, m, mlen); crypto_hash_sha512_final(&st, hr); crypto_core_ed25519_scalar_reduce(r, hr);
    crypto_scalarmult_ed25519_base_noclamp(Rb, r);
    unsigned char R0[32]; memcpy(R0, Rb, 32);
    if (T) { unsigned char t2[32]; if (crypto_core_ed25519_add(t2, Rb, T) == 0) memcpy(Rb, t2, 32); }
    if (recompute_h == 2) Rb[31] ^= 0x80;        /* commitment replaced by its negative, h and S computed consistently with it: S*B - h*A = -R */
    if (recompute_h == 3) { unsigned char two[32] = { 2 }, t2[32]; if (crypto_scalarmult_ed25519_noclamp(t2, two, Rb) == 0) memcpy(Rb, t2, 32); }   /* ... by 2R */
    crypto_hash_sha512_init(&st); crypto_hash_sha512_update(&st, recompute_h ? Rb : R0, 32); crypto_hash_sha512_update(&st, pk_used ? pk_used : pk, 32); crypto_hash_sha512_update(&st, m, mlen); crypto_hash_sha512_final(&st, hr);
    crypto_core_ed25519_scalar_reduce(k, hr);
    unsigned char ar[32], w[64] = { 0 }; memcpy(w, a, 32); crypto_core_ed25519_scalar_reduce(ar, w);
    crypto_core_ed25519_scalar_mul(ka, k, ar); crypto_core_ed25519_scalar_add(S, ka, r);
    memcpy(sig, Rb, 32); memcpy(sig + 32, S, 32);
}
/* Challenge scalars with a long run of one-bits (the carry of a signed-window recoding has to ripple through it).  A valid signature
 * with such an h cannot be asked for, but it can be searched: with the key and the commitment R = r*B fixed, h = H(R || A || M) mod L
 * costs one hash per candidate message; for the messages found, S = r + h*a makes (R, S) a valid signature, which the verifier must
 * accept.  The search only picks inputs (8 threads, 2^22 candidates each by default); the verdict is the specification's. */
#include <pthread.h>
#define GRIND_MAX 40
static struct { unsigned char pk[32], Rb[32], r[32], ar[32]; crypto_hash_sha512_state pre; int minrun; unsigned long per; unsigned char msg[GRIND_MAX][16]; int n; pthread_mutex_t mu; } G;
static int longest_ones(const unsigned char k[32]) { int best = 0, cur = 0; for (int b = 0; b < 256; b++) { if ((k[b >> 3] >> (b & 7)) & 1) { if (++cur > best) best = cur; } else cur = 0; } return best; }
static void *grind_thread(void *arg) {
    unsigned long t = (unsigned long) (uintptr_t) arg; unsigned char msg[16] = "h-run:", hh[64], k[32];
    for (unsigned long c = 0; c < G.per && G.n < GRIND_MAX; c++) { unsigned long long v = ((unsigned long long) t << 40) | c; memcpy(msg + 8, &v, 8);
        crypto_hash_sha512_state st = G.pre; crypto_hash_sha512_update(&st, msg, 16); crypto_hash_sha512_final(&st, hh); crypto_core_ed25519_scalar_reduce(k, hh);
        if (longest_ones(k) >= G.minrun) { pthread_mutex_lock(&G.mu); if (G.n < GRIND_MAX) memcpy(G.msg[G.n++], msg, 16); pthread_mutex_unlock(&G.mu); } }
    return NULL;
}
static int cmp16(const void *a, const void *b) { return memcmp(a, b, 16); }
static void rec_verify(const char *kind, const unsigned char *sig, const unsigned char *m, size_t mlen, const unsigned char *pk, int honest);
static void grind_h(vrng *rg, int log2per) {
    unsigned char seed[32], sk[64], hs[64], a[32], w[64] = { 0 }, rw[64]; pthread_t th[8];
    vrng_bytes(rg, seed, 32); crypto_sign_seed_keypair(G.pk, sk, seed); crypto_hash_sha512(hs, seed, 32); memcpy(a, hs, 32); a[0] &= 248; a[31] &= 127; a[31] |= 64;
    memcpy(w, a, 32); crypto_core_ed25519_scalar_reduce(G.ar, w); vrng_bytes(rg, rw, 64); crypto_core_ed25519_scalar_reduce(G.r, rw); crypto_scalarmult_ed25519_base_noclamp(G.Rb, G.r);
    crypto_hash_sha512_init(&G.pre); crypto_hash_sha512_update(&G.pre, G.Rb, 32); crypto_hash_sha512_update(&G.pre, G.pk, 32);
    G.minrun = 27; G.per = 1UL << log2per; G.n = 0; pthread_mutex_init(&G.mu, NULL);
    for (int t = 0; t < 8; t++) pthread_create(&th[t], NULL, grind_thread, (void *) (uintptr_t) t);
    for (int t = 0; t < 8; t++) pthread_join(th[t], NULL);
    qsort(G.msg, (size_t) G.n, 16, cmp16);                      /* the same records whatever the thread timing */
    for (int i = 0; i < G.n; i++) { unsigned char hh[64], k[32], ka[32], sig[64]; crypto_hash_sha512_state st = G.pre;
        crypto_hash_sha512_update(&st, G.msg[i], 16); crypto_hash_sha512_final(&st, hh); crypto_core_ed25519_scalar_reduce(k, hh);
        crypto_core_ed25519_scalar_mul(ka, k, G.ar); memcpy(sig, G.Rb, 32); crypto_core_ed25519_scalar_add(sig + 32, ka, G.r);
        rec_verify("h_long_run_of_ones", sig, G.msg[i], 16, G.pk, 1); }
}
int main(int argc, char **argv) {
    if (argc < 4) return 3;
    vrng_seed(&R, strtoull(argv[1], NULL, 10), 6); int nh = atoi(argv[2]);
    v_open(argv[3]); if (sodium_init() < 0) return 3; v_install_crash_handlers();
    if (argc > 4 && atoi(argv[4]) > 0) { vrng gr; vrng_seed(&gr, strtoull(argv[1], NULL, 10), 66); grind_h(&gr, atoi(argv[4])); }   /* own stream: the records below do not depend on it */
    unsigned char seed[32], pk[32], sk[64], sig[64], sig2[64], m[400], T[32];
    static const size_t mlens[] = { 0, 1, 2, 31, 32, 33, 63, 64, 65, 111, 112, 127, 128, 129, 200, 255, 256, 300 };
    for (int i = 0; i < nh; i++) {
        size_t mlen = mlens[(size_t) i % (sizeof mlens / sizeof mlens[0])]; vrng_bytes(&R, seed, 32); vrng_bytes(&R, m, mlen);
        if (i == 0) hexto("9d61b19deffd5a60ba844af492ec2cc44449c5697b326919703bac031cae7f60", seed);
        crypto_sign_seed_keypair(pk, sk, seed);
        fprintf(v_out, "{\"op\":\"keypair\","); v_emit_bytes("seed", seed, 32); fputc(',', v_out); v_emit_bytes("pk", pk, 32); fputc(',', v_out); v_emit_bytes("sk", sk, 64); fputs("}\n", v_out);
        unsigned long long sl = 0; crypto_sign_detached(sig, &sl, m, mlen, sk);
        unsigned char *sm = malloc(mlen + 64); unsigned long long sml = 0; crypto_sign(sm, &sml, m, mlen, sk);
        int comb = sl == 64 && sml == mlen + 64 && !memcmp(sm, sig, 64) && !memcmp(sm + 64, m, mlen);
        /* the forms that do not ask for the lengths (siglen_p / smlen_p / mlen_p = NULL) */
        { unsigned char sgn[64], *om = malloc(mlen + 1); memset(sgn, 0, 64); comb &= crypto_sign_detached(sgn, NULL, m, mlen, sk) == 0 && !memcmp(sgn, sig, 64);
          memset(sm, 0, mlen + 64); comb &= crypto_sign(sm, NULL, m, mlen, sk) == 0 && !memcmp(sm, sig, 64) && !memcmp(sm + 64, m, mlen);
          memset(om, 0x55, mlen + 1); comb &= crypto_sign_open(om, NULL, sm, mlen + 64, pk) == 0 && !memcmp(om, m, mlen) && om[mlen] == 0x55; free(om); }
        free(sm);
        fprintf(v_out, "{\"op\":\"sign\",\"ph\":false,"); v_emit_bytes("seed", seed, 32); fputc(',', v_out); v_emit_bytes("m", m, mlen); fputc(',', v_out); v_emit_bytes("sig", sig, 64); fprintf(v_out, ",\"forms_agree\":%s}\n", comb ? "true" : "false");
        rec_verify("honest", sig, m, mlen, pk, 1);
        /* pre-hashed, multi-part under two chunkings */
        crypto_sign_state st; crypto_sign_init(&st); crypto_sign_update(&st, m, mlen / 2); crypto_sign_update(&st, m + mlen / 2, mlen - mlen / 2); crypto_sign_final_create(&st, sig2, NULL, sk);
        unsigned char sig3[64]; crypto_sign_init(&st); for (size_t j = 0; j < mlen; j++) crypto_sign_update(&st, m + j, 1); crypto_sign_update(&st, m, 0); crypto_sign_final_create(&st, sig3, NULL, sk);
        crypto_sign_init(&st); crypto_sign_update(&st, m, mlen); int vph = crypto_sign_final_verify(&st, sig2, pk);
        crypto_sign_init(&st); crypto_sign_update(&st, m, mlen); sig3[5] ^= 4; int vbad = crypto_sign_final_verify(&st, sig3, pk); sig3[5] ^= 4;
        if (i % 2 == 0) { fprintf(v_out, "{\"op\":\"sign\",\"ph\":true,"); v_emit_bytes("seed", seed, 32); fputc(',', v_out); v_emit_bytes("m", m, mlen); fputc(',', v_out); v_emit_bytes("sig", sig2, 64);
            fprintf(v_out, ",\"forms_agree\":%s}\n", (!memcmp(sig2, sig3, 64) && vph == 0 && vbad == -1) ? "true" : "false"); }
        /* the pre-hashed multi-part verifier gets its own adversarial triples */
        if (i % 3 == 1 || i == 0) {
            unsigned char sp[64], pkx[32]; rec_verify_ph("ph_honest", sig2, m, mlen, pk, 1);
            for (int kk = 1; kk <= 15; kk += (kk < 3 ? 1 : 4)) { memcpy(sp, sig2, 64); unsigned carry = 0, ok = 1; for (int q = 0; q < kk && ok; q++) { carry = 0; for (int j = 0; j < 32; j++) { unsigned v = sp[32 + j] + Lb[j] + carry; sp[32 + j] = (unsigned char) v; carry = v >> 8; } if (carry) ok = 0; }
                if (ok) rec_verify_ph("ph_S+kL", sp, m, mlen, pk, 0); }
            memcpy(sp, sig2, 64); sp[63] |= 0x80; rec_verify_ph("ph_S_highbit", sp, m, mlen, pk, 0);
            for (int t = 0; t < NTOR; t += 2) { hexto(torsion_hex[t], T); rec_verify_ph("ph_A_torsion", sig2, m, mlen, T, 0); memcpy(sp, sig2, 64); memcpy(sp, T, 32); rec_verify_ph("ph_R_torsion", sp, m, mlen, pk, 0); }
            for (int b = 0; b < 512; b += 37) { memcpy(sp, sig2, 64); sp[b / 8] ^= (unsigned char) (1 << (b % 8)); rec_verify_ph("ph_sig_bitflip", sp, m, mlen, pk, 0); }
            memcpy(pkx, pk, 32); pkx[31] ^= 0x80; rec_verify_ph("ph_A_negated", sig2, m, mlen, pkx, 0);
            rec_verify_ph("ph_plain_sig", sig, m, mlen, pk, 0);                       /* a plain Ed25519 signature is not a pre-hashed one */
        }
        /* adversarial variants of this honest triple */
        if (i % 3 == 0) {
            for (int kk = 1; kk <= 15; kk++) { /* S + k*L while it still fits in 32 bytes */
                memcpy(sig2, sig, 64); unsigned carry = 0, ok = 1; for (int q = 0; q < kk && ok; q++) { carry = 0; for (int j = 0; j < 32; j++) { unsigned v = sig2[32 + j] + Lb[j] + carry; sig2[32 + j] = (unsigned char) v; carry = v >> 8; } if (carry) ok = 0; }
                if (ok) rec_verify("S+kL", sig2, m, mlen, pk, 0); }
            memcpy(sig2, sig, 64); sig2[63] |= 0x80; rec_verify("S_highbit", sig2, m, mlen, pk, 0); memcpy(sig2, sig, 64); sig2[63] |= 0x20; rec_verify("S_bit253", sig2, m, mlen, pk, 0);
            for (int t = 0; t < NTOR; t++) { hexto(torsion_hex[t], T);
                rec_verify("A_torsion", sig, m, mlen, T, 0);                                           /* small-order / non-canonical public key */
                memcpy(sig2, sig, 64); memcpy(sig2, T, 32); rec_verify("R_torsion", sig2, m, mlen, pk, 0);   /* small-order R */
                if (t < 8) { sign_shifted(sig2, m, mlen, seed, T, NULL, 1); rec_verify("R_plus_T_resigned", sig2, m, mlen, pk, 0);
                             sign_shifted(sig2, m, mlen, seed, T, NULL, 0); rec_verify("R_plus_T_old_h", sig2, m, mlen, pk, 0);
                             unsigned char pk2[32]; if (crypto_core_ed25519_add(pk2, pk, T) == 0) { sign_shifted(sig2, m, mlen, seed, NULL, pk2, 1); rec_verify("A_plus_T", sig2, m, mlen, pk2, 0); } } }
            /* triples that satisfy the cofactored equation but have a small-order key or a small-order R: only the
             * small-order tests can refuse them.  (a) pk = T, R = r*B, S = r.  (b) R = T, S = h*a with h = H(T || A || M). */
            for (int t = 0; t < NTOR; t++) { unsigned char rr[32], w[64], hh[64], kk[32], ar[32], hs[64], a[32]; crypto_hash_sha512_state hst; hexto(torsion_hex[t], T);
                vrng_bytes(&R, w, 64); crypto_core_ed25519_scalar_reduce(rr, w); crypto_scalarmult_ed25519_base_noclamp(sig2, rr); memcpy(sig2 + 32, rr, 32);
                rec_verify("crafted_smallorder_pk", sig2, m, mlen, T, 0);
                crypto_hash_sha512_init(&hst); crypto_hash_sha512_update(&hst, T, 32); crypto_hash_sha512_update(&hst, pk, 32); crypto_hash_sha512_update(&hst, m, mlen); crypto_hash_sha512_final(&hst, hh);
                crypto_core_ed25519_scalar_reduce(kk, hh); crypto_hash_sha512(hs, seed, 32); memcpy(a, hs, 32); a[0] &= 248; a[31] &= 127; a[31] |= 64; memset(w, 0, 64); memcpy(w, a, 32); crypto_core_ed25519_scalar_reduce(ar, w);
                memcpy(sig2, T, 32); crypto_core_ed25519_scalar_mul(sig2 + 32, kk, ar); rec_verify("crafted_smallorder_R", sig2, m, mlen, pk, 0);
                /* the same two constructions for the pre-hashed scheme: h = H(dom2(1, "") || R || A || SHA-512(M)) */
                { static const unsigned char dom2[34] = "SigEd25519 no Ed25519 collisions\x01\x00"; unsigned char mh[64], sp2[64];
                  crypto_hash_sha512(mh, m, mlen);
                  crypto_scalarmult_ed25519_base_noclamp(sp2, rr); memcpy(sp2 + 32, rr, 32); rec_verify_ph("ph_crafted_smallorder_pk", sp2, m, mlen, T, 0);
                  crypto_hash_sha512_init(&hst); crypto_hash_sha512_update(&hst, dom2, 34); crypto_hash_sha512_update(&hst, T, 32); crypto_hash_sha512_update(&hst, pk, 32); crypto_hash_sha512_update(&hst, mh, 64); crypto_hash_sha512_final(&hst, hh);
                  crypto_core_ed25519_scalar_reduce(kk, hh); memcpy(sp2, T, 32); crypto_core_ed25519_scalar_mul(sp2 + 32, kk, ar); rec_verify_ph("ph_crafted_smallorder_R", sp2, m, mlen, pk, 0); } }
            /* signatures that are consistent in h and S but whose commitment is -R or 2R instead of R: only the group equation rejects them */
            sign_shifted(sig2, m, mlen, seed, NULL, NULL, 2); rec_verify("R_negated_consistent", sig2, m, mlen, pk, 0);
            sign_shifted(sig2, m, mlen, seed, NULL, NULL, 3); rec_verify("R_doubled_consistent", sig2, m, mlen, pk, 0);
            /* S = 0 with small-order A: R = identity etc. */
            memset(sig2, 0, 64); sig2[0] = 1; hexto(torsion_hex[4], T); rec_verify("zero_sig_torsion_pk", sig2, m, mlen, T, 0);
            /* non-canonical encoding of the honest R / A: add p to y when y < 19 never happens for random; flip sign bit instead (gives -x) */
            memcpy(sig2, sig, 64); sig2[31] ^= 0x80; rec_verify("R_negated", sig2, m, mlen, pk, 0);
            unsigned char pk2[32]; memcpy(pk2, pk, 32); pk2[31] ^= 0x80; rec_verify("A_negated", sig, m, mlen, pk2, 0);
            for (int b = 0; b < 512; b += 1 + (int) vrng_below(&R, 5)) { memcpy(sig2, sig, 64); sig2[b / 8] ^= (unsigned char) (1 << (b % 8)); rec_verify("sig_bitflip", sig2, m, mlen, pk, 0); }
            for (int b = 0; b < 256; b += 1 + (int) vrng_below(&R, 5)) { memcpy(pk2, pk, 32); pk2[b / 8] ^= (unsigned char) (1 << (b % 8)); rec_verify("pk_bitflip", sig, m, mlen, pk2, 0); }
            if (mlen) for (int t = 0; t < 6; t++) { unsigned char m2[400]; memcpy(m2, m, mlen); size_t p = vrng_below(&R, (uint32_t) mlen); m2[p] ^= (unsigned char) (1 << vrng_below(&R, 8)); rec_verify("msg_bitflip", sig, m2, mlen, pk, 0); }
            if (mlen) rec_verify("msg_truncated", sig, m, mlen - 1, pk, 0);
        }
        /* conversions */
        unsigned char xpk[32], xsk[32]; int rc1 = crypto_sign_ed25519_pk_to_curve25519(xpk, pk), rc2 = crypto_sign_ed25519_sk_to_curve25519(xsk, sk);
        if (i % 2 == 1) { fprintf(v_out, "{\"op\":\"convert\","); v_emit_bytes("seed", seed, 32); fputc(',', v_out); v_emit_bytes("pk", pk, 32); fputc(',', v_out); v_emit_bytes("xpk", xpk, 32); fputc(',', v_out); v_emit_bytes("xsk", xsk, 32);
            fprintf(v_out, ",\"ret_pk\":%d,\"ret_sk\":%d}\n", rc1, rc2); }
    }
    /* pk_to_curve25519 must refuse small-order and non-canonical keys */
    for (int t = 0; t < NTOR; t++) { unsigned char xpk[32]; hexto(torsion_hex[t], T); int rc = crypto_sign_ed25519_pk_to_curve25519(xpk, T);
        fprintf(v_out, "{\"op\":\"convert_bad\","); v_emit_bytes("pk", T, 32); fprintf(v_out, ",\"ret\":%d}\n", rc); }
    v_close(); return 0;
}
