#define _GNU_SOURCE
/* Stream cipher driver (C03): for every variant and several (key, nonce, initial counter) windows it runs the
 * stream / xor / xor_ic forms at EVERY length 0..maxlen and logs, per group, the full output at boundary lengths
 * and two position-weighted checksums at every length (+ "bytes beyond len untouched"), to be judged by
 * spec/trace/OracleStream.tla, which evaluates the keystream once per group. Also: IETF counter-limit probes in
 * forked children, HChaCha20 / HSalsa20 / Salsa20 cores.
 *   stream_driver <seed> <maxlen> <out.ndjson>                                                 */
#include "common.h"

static vrng R; static size_t maxlen;
static int is_boundary(size_t L) { static const size_t b[] = { 0, 1, 63, 64, 65, 127, 128, 129, 191, 192, 255, 256, 257, 319, 320, 383, 384, 447, 448, 511, 512, 513, 575, 576, 577, 639, 640, 1023, 1024, 1025, 1151, 1152, 2047, 2048, 2303 };
    for (size_t i = 0; i < sizeof b / sizeof b[0]; i++) if (b[i] == L) return 1; return L == maxlen; }

/* variant ids: 0 chacha20 (64-bit ctr, 8-byte nonce), 1 chacha20-ietf (32-bit ctr, 12), 2 xchacha20 (24), 3 salsa20 (8),
 * 4 salsa2012, 5 salsa208, 6 xsalsa20 (24) */
static const char *vname[] = { "chacha20", "chacha20_ietf", "xchacha20", "salsa20", "salsa2012", "salsa208", "xsalsa20" };
static const size_t vnonce[] = { 8, 12, 24, 8, 8, 8, 24 };
static int call(int v, int form, unsigned char *out, const unsigned char *m, size_t len, const unsigned char *n, uint64_t ic, const unsigned char *k) {
    /* form 0: stream (ic must be 0), 1: xor (ic 0), 2: xor_ic */
    switch (v) {
    case 0: return form == 0 ? crypto_stream_chacha20(out, len, n, k) : form == 1 ? crypto_stream_chacha20_xor(out, m, len, n, k) : crypto_stream_chacha20_xor_ic(out, m, len, n, ic, k);
    case 1: return form == 0 ? crypto_stream_chacha20_ietf(out, len, n, k) : form == 1 ? crypto_stream_chacha20_ietf_xor(out, m, len, n, k) : crypto_stream_chacha20_ietf_xor_ic(out, m, len, n, (uint32_t) ic, k);
    case 2: return form == 0 ? crypto_stream_xchacha20(out, len, n, k) : form == 1 ? crypto_stream_xchacha20_xor(out, m, len, n, k) : crypto_stream_xchacha20_xor_ic(out, m, len, n, ic, k);
    case 3: return form == 0 ? crypto_stream_salsa20(out, len, n, k) : form == 1 ? crypto_stream_salsa20_xor(out, m, len, n, k) : crypto_stream_salsa20_xor_ic(out, m, len, n, ic, k);
    case 4: return form == 0 ? crypto_stream_salsa2012(out, len, n, k) : crypto_stream_salsa2012_xor(out, m, len, n, k);
    case 5: return form == 0 ? crypto_stream_salsa208(out, len, n, k) : crypto_stream_salsa208_xor(out, m, len, n, k);
    default: return form == 0 ? crypto_stream_xsalsa20(out, len, n, k) : form == 1 ? crypto_stream_xsalsa20_xor(out, m, len, n, k) : crypto_stream_xsalsa20_xor_ic(out, m, len, n, ic, k);
    }
}
static void group(int v, int form, uint64_t ic) {
    unsigned char k[32], n[24], ic8[8]; vrng_bytes(&R, k, 32); vrng_bytes(&R, n, 24);
    for (int i = 0; i < 8; i++) ic8[i] = (unsigned char) (ic >> (8 * i));
    unsigned char *m = malloc(maxlen + 1); for (size_t i = 0; i < maxlen; i++) m[i] = (unsigned char) (i * 7 + 3);
    fprintf(v_out, "{\"op\":\"stream\",\"v\":\"%s\",\"form\":%d,", vname[v], form); v_emit_bytes("k", k, 32); fputc(',', v_out); v_emit_bytes("n", n, vnonce[v]); fputc(',', v_out); v_emit_bytes("ic", ic8, 8);
    fprintf(v_out, ",\"maxlen\":%zu,\"sums\":[", maxlen);
    char *full = NULL; size_t fl = 0; FILE *ff = open_memstream(&full, &fl); int firstf = 1; int all_ret0 = 1, untouched = 1;
    for (size_t L = 0; L <= maxlen; L++) {
        vguard g = v_galloc(L + 1, 1);               /* output ends at a guard page */
        unsigned char *out = g.p + 1; g.p[0] = 0x99;
        int r = call(v, form, out, m, L, n, ic, k); all_ret0 &= r == 0; untouched &= g.p[0] == 0x99;
        unsigned d1 = 0, d2 = 0; for (size_t i = 0; i < L; i++) { d1 += out[i]; d2 += (unsigned) ((i % 251) + 1) * out[i]; }
        fprintf(v_out, L ? ",[%zu,%u,%u]" : "[%zu,%u,%u]", L, d1, d2);
        if (is_boundary(L)) { fprintf(ff, firstf ? "[" : ",["); firstf = 0; for (size_t i = 0; i < L; i++) fprintf(ff, i ? ",%u" : "%u", out[i]); fprintf(ff, "]"); }
        v_gfree(&g);
    }
    fclose(ff);
    fprintf(v_out, "],\"full\":[%s],\"ret0\":%s,\"untouched\":%s}\n", full, all_ret0 ? "true" : "false", untouched ? "true" : "false");
    free(full); free(m);
}
static void ietf_limit(uint32_t ic, unsigned long long len) {
    fflush(v_out);
    pid_t pid = fork();
    if (pid == 0) { signal(SIGABRT, SIG_DFL); unsigned char *b = malloc((size_t) len + 1), k[32] = { 1 }, n[12] = { 2 }; memset(b, 0, (size_t) len);
        int r = crypto_stream_chacha20_ietf_xor_ic(b, b, len, n, ic, k); _exit(r == 0 ? 0 : 9); }
    int st = 0; waitpid(pid, &st, 0);
    unsigned char i4[4] = { (unsigned char) ic, (unsigned char) (ic >> 8), (unsigned char) (ic >> 16), (unsigned char) (ic >> 24) };
    fprintf(v_out, "{\"op\":\"ietf_limit\","); v_emit_bytes("ic", i4, 4);
    fprintf(v_out, ",\"len\":%llu,\"outcome\":\"%s\"}\n", len, WIFSIGNALED(st) ? "misuse" : WEXITSTATUS(st) == 0 ? "ret0" : "error");
}
int main(int argc, char **argv) {
    if (argc < 4) return 3;
    vrng_seed(&R, strtoull(argv[1], NULL, 10), 3); maxlen = (size_t) atoi(argv[2]);
    v_open(argv[3]);
    if (sodium_init() < 0) return 3;
    v_install_crash_handlers();
    if (!strcmp(argv[2], "huge")) {
        /* 4 GiB + 256 bytes of keystream per cipher (lengths whose upper 32 bits matter, block indices beyond 2^26): 128 bytes are
         * recorded at six offsets together with the block index there; the oracle evaluates the keystream at that block index */
        size_t tot = ((size_t) 4 << 30) + 256;
        unsigned char *big = (unsigned char *) mmap(NULL, tot, PROT_READ | PROT_WRITE, MAP_PRIVATE | MAP_ANONYMOUS | MAP_NORESERVE, -1, 0);
        if (big == MAP_FAILED) { v_close(); return 0; }
        static const unsigned long long OFF[] = { 0, (1ULL << 31) - 64, 1ULL << 31, (1ULL << 32) - 64, 1ULL << 32, (1ULL << 32) + 128 };
        for (int v = 0; v < 7; v++) { unsigned char k[32], n[24], ic8[8]; vrng_bytes(&R, k, 32); vrng_bytes(&R, n, 24);
            int r = call(v, 0, big, NULL, tot, n, 0, k);
            for (int o = 0; o < 6; o++) { unsigned long long bi = OFF[o] / 64; for (int i = 0; i < 8; i++) ic8[i] = (unsigned char) (bi >> (8 * i));
                fprintf(v_out, "{\"op\":\"stream_at\",\"v\":\"%s\",\"form\":0,\"ret\":%d,\"maxlen\":128,", vname[v], r); v_emit_bytes("k", k, 32); fputc(',', v_out); v_emit_bytes("n", n, vnonce[v]); fputc(',', v_out);
                v_emit_bytes("ic", ic8, 8); fputc(',', v_out); v_emit_bytes("bytes", big + OFF[o], 128); fputs("}\n", v_out); }
            madvise(big, tot, MADV_DONTNEED); }
        /* the deterministic generator is ChaCha20-IETF under the nonce "LibsodiumDRG" with the seed as key: same judgement (C18) */
        { unsigned char seed[32], ic8[8]; vrng_bytes(&R, seed, 32); randombytes_buf_deterministic(big, tot, seed);
          for (int o = 0; o < 6; o++) { unsigned long long bi = OFF[o] / 64; for (int i = 0; i < 8; i++) ic8[i] = (unsigned char) (bi >> (8 * i));
              fprintf(v_out, "{\"op\":\"stream_at\",\"v\":\"chacha20_ietf\",\"form\":0,\"ret\":0,\"maxlen\":128,\"drg\":true,"); v_emit_bytes("k", seed, 32); fputc(',', v_out); v_emit_bytes("n", (const unsigned char *) "LibsodiumDRG", 12); fputc(',', v_out);
              v_emit_bytes("ic", ic8, 8); fputc(',', v_out); v_emit_bytes("bytes", big + OFF[o], 128); fputs("}\n", v_out); } }
        munmap(big, tot); v_close(); return 0;
    }
    if (!strcmp(argv[2], "wrap32") && argc >= 5) {
        /* Salsa20/12 and Salsa20/8 have no initial-counter argument: the carry of the 64-bit block counter into its upper word is only
         * reached by ONE call producing more than 2^38 bytes.  The output goes to a 256 GiB + 64 MiB virtual range made of 4097 mappings
         * of the same 64 MiB memory file, so what remains afterwards is the last window: blocks 2^32 .. 2^32 + 2^20 - 1. */
        int v = atoi(argv[4]); const size_t W = (size_t) 64 << 20; const size_t NW = 4097; size_t tot = W * NW;
        int fd = memfd_create("wrap32", 0); if (fd < 0 || ftruncate(fd, (off_t) W) != 0) { v_close(); return 0; }
        unsigned char *big = (unsigned char *) mmap(NULL, tot, PROT_NONE, MAP_PRIVATE | MAP_ANONYMOUS | MAP_NORESERVE, -1, 0);
        if (big == MAP_FAILED) { v_close(); return 0; }
        for (size_t i = 0; i < NW; i++) if (mmap(big + i * W, W, PROT_READ | PROT_WRITE, MAP_SHARED | MAP_FIXED, fd, 0) == MAP_FAILED) { v_close(); return 0; }
        unsigned char k[32], n[24], ic8[8]; vrng_bytes(&R, k, 32); vrng_bytes(&R, n, 24);
        int r = call(v, 0, big, NULL, tot, n, 0, k);
        static const unsigned long long OFFW[] = { 0, 128, 4096 - 64, ((unsigned long long) 64 << 20) - 128 };
        for (int o = 0; o < 4; o++) { unsigned long long bi = (1ULL << 32) + OFFW[o] / 64; for (int i = 0; i < 8; i++) ic8[i] = (unsigned char) (bi >> (8 * i));
            fprintf(v_out, "{\"op\":\"stream_at\",\"v\":\"%s\",\"form\":0,\"ret\":%d,\"maxlen\":128,\"wrap32\":true,", vname[v], r); v_emit_bytes("k", k, 32); fputc(',', v_out); v_emit_bytes("n", n, vnonce[v]); fputc(',', v_out);
            v_emit_bytes("ic", ic8, 8); fputc(',', v_out); v_emit_bytes("bytes", big + OFFW[o], 128); fputs("}\n", v_out); }
        munmap(big, tot); close(fd); v_close(); return 0;
    }
    uint64_t r32 = vrng_u64(&R) & 0x7fffffff;
    for (int v = 0; v < 7; v++) {
        group(v, 0, 0); group(v, 1, 0);
        if (v == 4 || v == 5) continue;
        uint64_t near32 = 0xffffffffULL - 2 - vrng_below(&R, 14);      /* the 32-bit carry happens inside the stream */
        if (v == 1) { group(v, 2, near32 - 40); group(v, 2, r32); }         /* IETF: stay below the limit */
        else { group(v, 2, near32); group(v, 2, 0xffffffffffffffffULL - 1 - vrng_below(&R, 14)); group(v, 2, vrng_u64(&R)); }
    }
    /* ONE long xor_ic call (9 MiB + 777 bytes of zeros) whose 64-bit block counter crosses a multiple of 2^32 somewhere in the
     * first 6 MiB: whatever the library does between the pieces it hands to a backend (slices, batches, a split counter), block j of
     * the output is the keystream block under counter ic + j.  128 bytes are recorded just before / at / after the crossing, at every
     * MiB multiple, at the power-of-two distances after the crossing, at the end and at random offsets, each judged by the oracle as
     * the keystream started at that block (stream_at).  IETF: 32-bit counter, no crossing allowed - random start, same sampling. */
    {
        const size_t LL = ((size_t) 9 << 20) + 777;
        unsigned char *zero = (unsigned char *) mmap(NULL, LL, PROT_READ, MAP_PRIVATE | MAP_ANONYMOUS | MAP_NORESERVE, -1, 0);
        unsigned char *lo = (unsigned char *) mmap(NULL, LL, PROT_READ | PROT_WRITE, MAP_PRIVATE | MAP_ANONYMOUS | MAP_NORESERVE, -1, 0);
        if (zero != MAP_FAILED && lo != MAP_FAILED) {
            static const int VS[] = { 0, 1, 2, 3, 6 };
            for (int vi = 0; vi < 5; vi++) { int v = VS[vi]; unsigned char k[32], n[24], ic8[8]; vrng_bytes(&R, k, 32); vrng_bytes(&R, n, 24);
                uint64_t b = 1 + vrng_below(&R, 98000);                         /* blocks before the crossing */
                uint64_t hi = (uint64_t) (1 + vrng_below(&R, 3)) << 32;          /* crossing of 2^32, 2^33 or 3 * 2^32 */
                uint64_t ic = v == 1 ? (vrng_u64(&R) & 0x7fffffff) : hi - b;
                int r = call(v, 2, lo, zero, LL, n, ic, k);
                size_t X = (size_t) b * 64, offs[64]; int no = 0;
                offs[no++] = 0; offs[no++] = X - 64; offs[no++] = X; offs[no++] = X + 64; offs[no++] = LL - 128; offs[no++] = (LL - 128) & ~(size_t) 63;
                for (size_t mi = 1; mi <= 9; mi++) { offs[no++] = mi << 20; if (mi & 1) offs[no++] = (mi << 20) - 64; }
                for (int j = 12; j <= 23; j += 1) if (X + ((size_t) 1 << j) + 128 <= LL) offs[no++] = X + ((size_t) 1 << j);
                for (int j = 0; j < 10; j++) offs[no++] = (size_t) vrng_below(&R, (LL - 128) / 64) * 64;
                for (int o = 0; o < no; o++) { size_t off = offs[o] & ~(size_t) 63; if (off + 128 > LL) off = (LL - 128) & ~(size_t) 63;
                    uint64_t bi = ic + off / 64; for (int i = 0; i < 8; i++) ic8[i] = (unsigned char) (bi >> (8 * i));
                    fprintf(v_out, "{\"op\":\"stream_at\",\"v\":\"%s\",\"form\":0,\"ret\":%d,\"maxlen\":128,\"long_ic\":%zu,", vname[v], r, off); v_emit_bytes("k", k, 32); fputc(',', v_out); v_emit_bytes("n", n, vnonce[v]); fputc(',', v_out);
                    v_emit_bytes("ic", ic8, 8); fputc(',', v_out); v_emit_bytes("bytes", lo + off, 128); fputs("}\n", v_out); }
                madvise(lo, LL, MADV_DONTNEED); }
        }
        if (zero != MAP_FAILED) munmap(zero, LL);
        if (lo != MAP_FAILED) munmap(lo, LL);
    }
    /* IETF limit: ic + ceil(len/64) > 2^32 must be refused through the misuse handler */
    static const struct { uint32_t ic; unsigned long long len; } lim[] = { { 0xffffffffu, 64 }, { 0xffffffffu, 65 }, { 0xffffffffu, 1 }, { 0xffffffffu, 0 }, { 0xfffffffeu, 128 }, { 0xfffffffeu, 129 },
        { 0xfffffff0u, 16 * 64 }, { 0xfffffff0u, 16 * 64 + 1 }, { 0xfffffff0u, 15 * 64 + 63 }, { 0xffffff00u, 256 * 64 }, { 0xffffff00u, 256 * 64 + 1 }, { 0xfffff000u, 4096 * 64 + 64 }, { 0, 4096 } };
    for (size_t i = 0; i < sizeof lim / sizeof lim[0]; i++) ietf_limit(lim[i].ic, lim[i].len);
    /* cores */
    for (int c = 0; c < 40; c++) {
        unsigned char k[32], in[16], cst[16], out[64]; vrng_bytes(&R, k, 32); vrng_bytes(&R, in, 16); vrng_bytes(&R, cst, 16); int wc = c & 1;
        crypto_core_hchacha20(out, in, k, wc ? cst : NULL); fprintf(v_out, "{\"op\":\"hchacha20\",\"wc\":%d,", wc); v_emit_bytes("k", k, 32); fputc(',', v_out); v_emit_bytes("in", in, 16); fputc(',', v_out); v_emit_bytes("c", cst, 16); fputc(',', v_out); v_emit_bytes("out", out, 32); fprintf(v_out, "}\n");
        crypto_core_hsalsa20(out, in, k, wc ? cst : NULL); fprintf(v_out, "{\"op\":\"hsalsa20\",\"wc\":%d,", wc); v_emit_bytes("k", k, 32); fputc(',', v_out); v_emit_bytes("in", in, 16); fputc(',', v_out); v_emit_bytes("c", cst, 16); fputc(',', v_out); v_emit_bytes("out", out, 32); fprintf(v_out, "}\n");
        int rounds = (int[]) { 20, 12, 8 }[c % 3];
        if (rounds == 20) crypto_core_salsa20(out, in, k, wc ? cst : NULL); else if (rounds == 12) crypto_core_salsa2012(out, in, k, wc ? cst : NULL); else crypto_core_salsa208(out, in, k, wc ? cst : NULL);
        fprintf(v_out, "{\"op\":\"salsacore\",\"rounds\":%d,\"wc\":%d,", rounds, wc); v_emit_bytes("k", k, 32); fputc(',', v_out); v_emit_bytes("in", in, 16); fputc(',', v_out); v_emit_bytes("c", cst, 16); fputc(',', v_out); v_emit_bytes("out", out, 64); fprintf(v_out, "}\n");
    }
    v_close();
    return 0;
}
