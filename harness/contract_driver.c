/* C12 direction A: execute the calls enumerated by TLC from spec/sys/Contract.tla on the real library.
 * Every byte-pointer argument is a buffer of exactly the size the specification states, placed
 *   E: with its end against a PROT_NONE page        S: with its start against a PROT_NONE page
 *   N: like E, but size-0 arguments are passed as NULL
 *   H: on the heap at offset `al` from an aligned block (exact red zone under ASan; canaries natively)
 * input buffers are made read-only for the call (E/S/N) or digested (H); the accessible bytes around every
 * buffer carry canaries. One record per call: outcome class + frame verdict. A signal, a sanitizer report or
 * a misuse abort ends the process after writing the record of the call that caused it.
 *
 * usage: contract_driver <seed> <script> <out.ndjson> [start_index]
 * script line: idx fn l1 l2 cm mode al nbuf role:size ... */
#include "common.h"
#include <setjmp.h>

#if defined(__has_feature)
# if __has_feature(address_sanitizer)
#  define V_ASAN 1
# endif
#endif
#ifdef __SANITIZE_ADDRESS__
# define V_ASAN 1
#endif
#ifdef V_ASAN
void __sanitizer_set_death_callback(void (*cb)(void));
#endif

typedef unsigned long long ULL;
enum { R_IN, R_OUT, R_IO, R_STR, R_ST, R_LEN };
#define MAXB 10
#define CAN 64

typedef struct {
    int role; int nullable; size_t n; unsigned char *p;
    vguard g; void *heap; int isnull;
    unsigned char *lo; size_t lon; unsigned char *hi; size_t hin;
    uint32_t dg;
} cbuf;

static vrng rng;
static char pending[512];
static int in_call;

static void emit_pending(const char *out, int sig) {
    if (v_out && in_call) { fprintf(v_out, "%s,\"out\":\"%s\",\"sig\":%d,\"frame\":true}\n", pending, out, sig); fflush(v_out); }
    else if (v_out) { fprintf(v_out, "{\"e\":\"crash\",\"signal\":%d,\"where\":\"harness\"}\n", sig); fflush(v_out); }
}
static void on_signal(int sig) { emit_pending("signal", sig); _exit(70); }
static void on_misuse(void) { emit_pending("misuse", 0); _exit(72); }
#ifdef V_ASAN
static void on_san_death(void) { emit_pending("sanitizer", 0); _exit(71); }
#endif

#define A unsigned char **b, const size_t *sz, size_t l1, size_t l2, int cm
typedef struct { const char *name; int nbuf; void (*prep)(A); int (*call)(A); } fnent;

static void vcpy(void *d, const void *s, size_t n) { if (n) memcpy(d, s, n); }
static void vset(void *d, int c, size_t n) { if (n) memset(d, c, n); }
static unsigned char *tmp_rand(size_t n) { unsigned char *t = (unsigned char *) malloc(n + 1); vrng_bytes(&rng, t, n); return t; }

#include "contract_calls.h"
#include "cc_probes.h"

static const fnent *find_fn(const char *name) {
    for (size_t i = 0; i < sizeof fns / sizeof fns[0]; i++) if (!strcmp(fns[i].name, name)) return &fns[i];
    return NULL;
}

static int role_of(const char *s0) {
    char s[8]; size_t n = strlen(s0); strcpy(s, s0);
    if (n > 2 && s[n - 1] == 'z') { s[n - 1] = 0; return role_of(s) | 0x10; }
    if (!strcmp(s, "in")) return R_IN; if (!strcmp(s, "out")) return R_OUT; if (!strcmp(s, "io")) return R_IO;
    if (!strcmp(s, "str")) return R_STR; if (!strcmp(s, "st")) return R_ST; if (!strcmp(s, "len")) return R_LEN;
    fprintf(stderr, "bad role %s\n", s); exit(3);
}
static int readonly_role(int r) { return r == R_IN || r == R_STR; }

static void balloc(cbuf *c, char mode, size_t al) {
    long ps = sysconf(_SC_PAGESIZE);
    c->heap = NULL; c->g.base = NULL; c->isnull = 0; c->lo = c->hi = NULL; c->lon = c->hin = 0;
    if (mode == 'N' && c->n == 0 && c->nullable) { c->p = NULL; c->isnull = 1; return; }
    if (mode == 'H') {
        int aligned = (c->role == R_ST || c->role == R_LEN);
        size_t off = aligned ? 0 : al;
#ifdef V_ASAN
        size_t tot = off + c->n;
#else
        size_t tot = off + c->n + CAN;
#endif
        void *base = NULL;
        if (posix_memalign(&base, 64, tot ? tot : 1) != 0) { perror("memalign"); exit(3); }
        c->heap = base; c->p = (unsigned char *) base + off;
        c->lo = (unsigned char *) base; c->lon = off;
#ifndef V_ASAN
        c->hi = c->p + c->n; c->hin = CAN;
#endif
        return;
    }
    c->g = v_galloc(c->n, mode != 'S');
    c->p = c->g.p;
    unsigned char *d0 = c->g.base + ps, *d1 = c->g.base + c->g.maplen - ps;
    if (mode != 'S') { size_t av = (size_t) (c->p - d0); c->lon = av < CAN ? av : CAN; c->lo = c->p - c->lon; }
    else { size_t av = (size_t) (d1 - (c->p + c->n)); c->hin = av < CAN ? av : CAN; c->hi = c->p + c->n; }
}
static void bfree(cbuf *c) { if (c->heap) free(c->heap); if (c->g.base) v_gfree(&c->g); }

int main(int argc, char **argv) {
    if (argc < 4) { fprintf(stderr, "usage\n"); return 2; }
    uint64_t seed = strtoull(argv[1], NULL, 10);
    FILE *sf = (strcmp(argv[2], "probes") && strcmp(argv[2], "sysrandom_probe") && strcmp(argv[2], "getrandom_probe")) ? fopen(argv[2], "r") : stdin; if (!sf) { perror("script"); return 3; }
    long start = argc > 4 ? atol(argv[4]) : 0;
    v_open(argv[3]);
    if (!strcmp(argv[2], "sysrandom_probe")) { sysrandom_probe(1); v_close(); return 0; }
    if (!strcmp(argv[2], "getrandom_probe")) { sysrandom_probe(0); v_close(); return 0; }
    signal(SIGSEGV, on_signal); signal(SIGBUS, on_signal); signal(SIGABRT, on_signal); signal(SIGILL, on_signal); signal(SIGFPE, on_signal);
#ifdef V_ASAN
    __sanitizer_set_death_callback(on_san_death);
#endif
    if (sodium_init() < 0) return 3;
    sodium_set_misuse_handler(on_misuse);
    vrng_seed(&rng, seed, 12);
    v_install_seeded_random(seed);
    if (!strcmp(argv[2], "probes")) { run_probes(); v_close(); return 0; }
    check_statebytes();

    char line[2048];
    while (fgets(line, sizeof line, sf)) {
        long idx; char fn[96], mode; size_t l1, l2, al; int cm, nbuf, off = 0, k;
        if (sscanf(line, "%ld %95s %zu %zu %d %c %zu %d%n", &idx, fn, &l1, &l2, &cm, &mode, &al, &nbuf, &off) < 8) continue;
        if (idx < start) continue;
        cbuf B[MAXB]; unsigned char *bp[MAXB]; size_t sz[MAXB]; char szs[256]; int so = 0;
        const char *q = line + off;
        for (int i = 0; i < nbuf; i++) {
            char rs[8]; size_t n;
            if (sscanf(q, " %7[a-z]:%zu%n", rs, &n, &k) < 2) { fprintf(stderr, "bad script line %ld\n", idx); return 3; }
            q += k; B[i].role = role_of(rs) & 0xf; B[i].nullable = (role_of(rs) & 0x10) != 0; B[i].n = n; sz[i] = n;
            so += snprintf(szs + so, sizeof szs - (size_t) so, i ? ",%zu" : "%zu", n);
        }
        const fnent *f = find_fn(fn);
        snprintf(pending, sizeof pending, "{\"i\":%ld,\"fn\":\"%s\",\"l1\":%zu,\"l2\":%zu,\"cm\":%d,\"mode\":\"%c\",\"al\":%zu,\"sz\":[%s]", idx, fn, l1, l2, cm, mode, al, szs);
        if (!f || f->nbuf != nbuf) { v_emit("%s,\"out\":\"nodriver\",\"sig\":0,\"frame\":true}", pending); continue; }
        for (int i = 0; i < nbuf; i++) {
            balloc(&B[i], mode, al); bp[i] = B[i].p;
            if (B[i].p) {
                if (B[i].role == R_OUT || B[i].role == R_LEN) memset(B[i].p, 0xA5, B[i].n);
                else vrng_bytes(&rng, B[i].p, B[i].n);
                if (B[i].role == R_STR && B[i].n) {       /* printable, NUL-terminated by default */
                    for (size_t j = 0; j + 1 < B[i].n; j++) B[i].p[j] = (unsigned char) (33 + B[i].p[j] % 94);
                    B[i].p[B[i].n - 1] = 0;
                }
            }
        }
        int avail = 1;
        if (f->prep) { cm_avail = 1; f->prep(bp, sz, l1, l2, cm); avail = cm_avail; }
        if (!avail) {
            v_emit("%s,\"out\":\"unavail\",\"sig\":0,\"frame\":true}", pending);
            for (int i = 0; i < nbuf; i++) bfree(&B[i]);
            continue;
        }
        for (int i = 0; i < nbuf; i++) {
            if (B[i].lon) memset(B[i].lo, 0xC3, B[i].lon);
            if (B[i].hin) memset(B[i].hi, 0xC3, B[i].hin);
            if (readonly_role(B[i].role) && B[i].p) {
                if (mode == 'H') B[i].dg = v_digest(B[i].p, B[i].n);
                else mprotect(B[i].g.base + sysconf(_SC_PAGESIZE), B[i].g.maplen - 2 * (size_t) sysconf(_SC_PAGESIZE), PROT_READ);
            }
        }
        in_call = 1;
        int ret = f->call(bp, sz, l1, l2, cm);
        in_call = 0;
        int frame = 1;
        for (int i = 0; i < nbuf; i++) {
            if (readonly_role(B[i].role) && B[i].p) {
                if (mode == 'H') { if (v_digest(B[i].p, B[i].n) != B[i].dg) frame = 0; }
                else mprotect(B[i].g.base + sysconf(_SC_PAGESIZE), B[i].g.maplen - 2 * (size_t) sysconf(_SC_PAGESIZE), PROT_READ | PROT_WRITE);
            }
            for (size_t j = 0; j < B[i].lon; j++) if (B[i].lo[j] != 0xC3) frame = 0;
            for (size_t j = 0; j < B[i].hin; j++) if (B[i].hi[j] != 0xC3) frame = 0;
        }
        v_emit("%s,\"out\":\"%s\",\"sig\":0,\"frame\":%s}", pending, ret == 0 ? "ret0" : (ret == -77 ? "unavail" : "reterr"), frame ? "true" : "false");
        for (int i = 0; i < nbuf; i++) bfree(&B[i]);
    }
    v_close();
    return 0;
}
