/* C04, buffering state machines: random and boundary-hugging splits of multi-part hashing; after init and after
 * every update the counters of the real state structure are recorded (SHA-2: byte count; BLAKE2b: buffered bytes
 * and the byte counter t), at final whether the digest equals the one-shot digest of the concatenation.
 * usage: mp_driver <seed> <alg: sha256|sha512|blake2b|blake2bk> <histories> <out.ndjson> */
#include "common.h"
static vrng rng;
static size_t pick_chunk(size_t B) {
    static const int near[] = { 0, 0, 1, 1, 2, 3 };
    switch (vrng_below(&rng, 8)) {
    case 0: return 0;
    case 1: return 1 + vrng_below(&rng, 3);
    case 2: return B - 1 - vrng_below(&rng, 2);
    case 3: return B + (size_t) near[vrng_below(&rng, 6)];
    case 4: return 2 * B - 1 + vrng_below(&rng, 3);
    case 5: return B * (1 + vrng_below(&rng, 4)) + vrng_below(&rng, 2);
    case 6: return vrng_below(&rng, (uint32_t) (3 * B));
    default: return vrng_below(&rng, 20);
    }
}
int main(int argc, char **argv) {
    if (argc < 5) return 2;
    uint64_t seed = strtoull(argv[1], NULL, 10); const char *alg = argv[2]; int nh = atoi(argv[3]);
    v_open(argv[4]); v_install_crash_handlers();
    if (sodium_init() < 0) return 3;
    vrng_seed(&rng, seed, 31);
    static unsigned char msg[1 << 16]; unsigned char key[64], d1[64], d2[64];
    int is256 = !strcmp(alg, "sha256"), is512 = !strcmp(alg, "sha512"), keyed = !strcmp(alg, "blake2bk");
    size_t B = is256 ? 64 : 128;
    if (argc > 5 && !strcmp(argv[5], "big")) {
        /* one long stream: <nh> MiB in 1 MiB updates plus odd-sized head and tail, crossing 2^32 bits; counters after every update */
        static unsigned char chunk[1 << 20]; size_t total = 0; vrng_bytes(&rng, chunk, sizeof chunk);
        crypto_hash_sha256_state s256, o256; crypto_hash_sha512_state s512, o512;
        crypto_generichash_state *gs = (crypto_generichash_state *) sodium_malloc(crypto_generichash_statebytes()), *go = (crypto_generichash_state *) sodium_malloc(crypto_generichash_statebytes());
        if (is256) { crypto_hash_sha256_init(&s256); crypto_hash_sha256_init(&o256); } else if (is512) { crypto_hash_sha512_init(&s512); crypto_hash_sha512_init(&o512); } else { crypto_generichash_init(gs, NULL, 0, 64); crypto_generichash_init(go, NULL, 0, 64); }
        v_emit("{\"e\":\"init\",\"alg\":\"%s\",\"key\":0,\"buflen\":0,\"ctr\":0}", alg);
        /* reference: ONE update call over a contiguous copy is not possible for 512 MiB on every machine; the reference stream uses a
         * different chunking (7 MiB + 13 bytes pieces) and, at the end, the one-shot API on a heap copy when it can be allocated */
        unsigned char *all = (unsigned char *) malloc(((size_t) nh << 20) + 200); size_t cap = all ? ((size_t) nh << 20) + 200 : 0;
        for (int u = 0; u <= nh + 1; u++) {
            size_t n = u == 0 ? 77 : u == nh + 1 ? 5 : sizeof chunk; chunk[u % sizeof chunk] ^= (unsigned char) u;
            unsigned long long ctr, buflen;
            if (is256) { crypto_hash_sha256_update(&s256, chunk, n); ctr = s256.count >> 3; buflen = ctr & 63; }
            else if (is512) { crypto_hash_sha512_update(&s512, chunk, n); ctr = s512.count[1] >> 3; buflen = ctr & 127; }
            else { crypto_generichash_update(gs, chunk, n); uint64_t a, b; memcpy(&a, (unsigned char *) gs + 64, 8); memcpy(&b, (unsigned char *) gs + 352, 8); ctr = a; buflen = b; }
            if (all && total + n <= cap) memcpy(all + total, chunk, n);
            total += n;
            v_emit("{\"e\":\"upd\",\"n\":%zu,\"buflen\":%llu,\"ctr\":%llu}", n, buflen, ctr);
        }
        int ret, same = 1;
        if (is256) { ret = crypto_hash_sha256_final(&s256, d1); if (all) { crypto_hash_sha256(d2, all, total); same = !memcmp(d1, d2, 32); } }
        else if (is512) { ret = crypto_hash_sha512_final(&s512, d1); if (all) { crypto_hash_sha512(d2, all, total); same = !memcmp(d1, d2, 64); } }
        else { ret = crypto_generichash_final(gs, d1, 64); if (all) { crypto_generichash(d2, 64, all, total, NULL, 0); same = !memcmp(d1, d2, 64); } }
        v_emit("{\"e\":\"final\",\"ret\":%d,\"same\":%s,\"total\":%zu,\"reference\":%s}", ret, same ? "true" : "false", total, all ? "true" : "false");
        free(all); sodium_free(gs); sodium_free(go); (void) o256; (void) o512;
        v_close(); return 0;
    }
    if (argc > 5 && !strcmp(argv[5], "huge")) {
        /* 4 GiB + 1 MiB of (sparse, mostly zero) data: lengths whose upper 32 bits matter, in 1 GiB updates; counters in KiB */
        size_t tot = ((size_t) 4 << 30) + ((size_t) 1 << 20), done_ = 0;
        unsigned char *big = (unsigned char *) mmap(NULL, tot, PROT_READ | PROT_WRITE, MAP_PRIVATE | MAP_ANONYMOUS | MAP_NORESERVE, -1, 0);
        if (big == MAP_FAILED) { v_close(); return 0; }
        big[5] = 1; big[((size_t) 1 << 31) + 9] = 2; big[((size_t) 1 << 32) + 77] = 3; big[tot - 1] = 4;
        crypto_hash_sha256_state s256; crypto_hash_sha512_state s512; crypto_generichash_state *gs = (crypto_generichash_state *) sodium_malloc(crypto_generichash_statebytes());
        if (is256) crypto_hash_sha256_init(&s256); else if (is512) crypto_hash_sha512_init(&s512); else crypto_generichash_init(gs, NULL, 0, 64);
        v_emit("{\"e\":\"init\",\"alg\":\"%s\",\"key\":0,\"buflen\":0,\"ctr\":0}", alg);
        while (done_ < tot) { size_t n = tot - done_ > ((size_t) 1 << 30) ? ((size_t) 1 << 30) : tot - done_; unsigned long long ctr;
            if (is256) { crypto_hash_sha256_update(&s256, big + done_, n); ctr = s256.count >> 3; }
            else if (is512) { crypto_hash_sha512_update(&s512, big + done_, n); ctr = s512.count[1] >> 3; }
            else { crypto_generichash_update(gs, big + done_, n); uint64_t a, b; memcpy(&a, (unsigned char *) gs + 64, 8); memcpy(&b, (unsigned char *) gs + 352, 8); ctr = a + b; }
            done_ += n;
            v_emit("{\"e\":\"upd\",\"n\":%zu,\"buflen\":%d,\"ctr\":%llu,\"unit\":1024,\"exact\":%s}", n >> 10, 0, ctr >> 10, (ctr & 1023) == 0 ? "true" : "false"); }
        int ret, same;
        if (is256) { ret = crypto_hash_sha256_final(&s256, d1); crypto_hash_sha256(d2, big, tot); same = !memcmp(d1, d2, 32); }
        else if (is512) { ret = crypto_hash_sha512_final(&s512, d1); crypto_hash_sha512(d2, big, tot); same = !memcmp(d1, d2, 64); }
        else { ret = crypto_generichash_final(gs, d1, 64); crypto_generichash(d2, 64, big, tot, NULL, 0); same = !memcmp(d1, d2, 64); }
        v_emit("{\"e\":\"final\",\"ret\":%d,\"same\":%s,\"total\":%zu,\"reference\":true}", ret, same ? "true" : "false", tot >> 10);
        sodium_free(gs); munmap(big, tot); v_close(); return 0;
    }
    for (int h = 0; h < nh; h++) {
        size_t total = 0; int nupd = 1 + (int) vrng_below(&rng, 9);
        vrng_bytes(&rng, key, 64);
        size_t klen = keyed ? 16 + vrng_below(&rng, 49) : 0, outlen = 16 + vrng_below(&rng, 49);
        crypto_hash_sha256_state s256; crypto_hash_sha512_state s512;
        crypto_generichash_state *gs = (crypto_generichash_state *) sodium_malloc(crypto_generichash_statebytes());
        if (is256) crypto_hash_sha256_init(&s256); else if (is512) crypto_hash_sha512_init(&s512); else crypto_generichash_init(gs, klen ? key : NULL, klen, outlen);
        uint64_t t0 = 0, bl = 0;
        if (!is256 && !is512) { memcpy(&t0, (unsigned char *) gs + 64, 8); memcpy(&bl, (unsigned char *) gs + 352, 8); }
        v_emit("{\"e\":\"init\",\"alg\":\"%s\",\"key\":%zu,\"buflen\":%llu,\"ctr\":%llu}", alg, klen, (unsigned long long) bl, (unsigned long long) t0);
        for (int u = 0; u < nupd; u++) {
            size_t n = pick_chunk(B); if (total + n > sizeof msg) n = 0;
            vrng_bytes(&rng, msg + total, n);
            unsigned long long ctr, buflen;
            if (is256) { crypto_hash_sha256_update(&s256, msg + total, n); ctr = s256.count >> 3; buflen = ctr & 63; }
            else if (is512) { crypto_hash_sha512_update(&s512, msg + total, n); ctr = s512.count[1] >> 3; buflen = ctr & 127; }
            else { crypto_generichash_update(gs, msg + total, n); uint64_t a, b; memcpy(&a, (unsigned char *) gs + 64, 8); memcpy(&b, (unsigned char *) gs + 352, 8); ctr = a; buflen = b; }
            total += n;
            v_emit("{\"e\":\"upd\",\"n\":%zu,\"buflen\":%llu,\"ctr\":%llu}", n, buflen, ctr);
        }
        int ret, same;
        if (is256) { ret = crypto_hash_sha256_final(&s256, d1); crypto_hash_sha256(d2, msg, total); same = !memcmp(d1, d2, 32); }
        else if (is512) { ret = crypto_hash_sha512_final(&s512, d1); crypto_hash_sha512(d2, msg, total); same = !memcmp(d1, d2, 64); }
        else { ret = crypto_generichash_final(gs, d1, outlen); crypto_generichash(d2, outlen, msg, total, klen ? key : NULL, klen); same = !memcmp(d1, d2, outlen); }
        v_emit("{\"e\":\"final\",\"ret\":%d,\"same\":%s,\"total\":%zu}", ret, same ? "true" : "false", total);
        sodium_free(gs);
    }
    v_close();
    return 0;
}
