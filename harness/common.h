/* Shared pieces of the conformance harnesses: seeded PRNG, NDJSON writer, digests, deterministic
 * randombytes implementation, misuse / crash handling, guarded arena, hook recorder. Header-only. */
#ifndef VERIF_COMMON_H
#define VERIF_COMMON_H

#include <errno.h>
#include <signal.h>
#include <stdarg.h>
#include <stdint.h>
#include <stdio.h>
#include <stdlib.h>
#include <string.h>
#include <sys/mman.h>
#include <sys/wait.h>
#include <unistd.h>

#include <sodium.h>

/* ------------------------------------------------------------------ PRNG (splitmix64 / xoshiro256**) */
typedef struct { uint64_t s[4]; } vrng;
static inline uint64_t v_splitmix(uint64_t *x) {
    uint64_t z = (*x += 0x9e3779b97f4a7c15ULL);
    z = (z ^ (z >> 30)) * 0xbf58476d1ce4e5b9ULL;
    z = (z ^ (z >> 27)) * 0x94d049bb133111ebULL;
    return z ^ (z >> 31);
}
static inline void vrng_seed(vrng *r, uint64_t seed, uint64_t stream) {
    uint64_t x = seed * 0x9e3779b97f4a7c15ULL + stream * 0xd1342543de82ef95ULL + 0x1234567;
    for (int i = 0; i < 4; i++) r->s[i] = v_splitmix(&x);
}
static inline uint64_t v_rotl(uint64_t x, int k) { return (x << k) | (x >> (64 - k)); }
static inline uint64_t vrng_u64(vrng *r) {
    uint64_t *s = r->s, result = v_rotl(s[1] * 5, 7) * 9, t = s[1] << 17;
    s[2] ^= s[0]; s[3] ^= s[1]; s[1] ^= s[2]; s[0] ^= s[3]; s[2] ^= t; s[3] = v_rotl(s[3], 45);
    return result;
}
static inline uint32_t vrng_below(vrng *r, uint32_t n) { return n == 0 ? 0 : (uint32_t) (vrng_u64(r) % n); }
static inline void vrng_bytes(vrng *r, unsigned char *p, size_t n) {
    while (n >= 8) { uint64_t v = vrng_u64(r); memcpy(p, &v, 8); p += 8; n -= 8; }
    if (n) { uint64_t v = vrng_u64(r); memcpy(p, &v, n); }
}

/* ------------------------------------------------------------------ digests (30-bit, JSON/TLC safe) */
static inline uint32_t v_digest(const unsigned char *p, size_t n) {
    uint64_t h = 0xcbf29ce484222325ULL;
    for (size_t i = 0; i < n; i++) { h ^= p[i]; h *= 0x100000001b3ULL; }
    h ^= h >> 32; h *= 0x9e3779b97f4a7c15ULL; h ^= h >> 29;
    return (uint32_t) (h & 0x3fffffff);
}

/* ------------------------------------------------------------------ NDJSON writer */
static FILE *v_out;
static inline void v_open(const char *path) {
    v_out = path ? fopen(path, "w") : stdout;
    if (!v_out) { perror("open trace"); exit(3); }
    setvbuf(v_out, NULL, _IOFBF, 1 << 20);
}
static inline void v_close(void) { if (v_out) { fflush(v_out); if (v_out != stdout) fclose(v_out); v_out = NULL; } }
/* J("{...}") style: caller formats JSON itself */
static inline void v_emit(const char *fmt, ...) {
    va_list ap; va_start(ap, fmt); vfprintf(v_out, fmt, ap); va_end(ap); fputc('\n', v_out);
}
/* bytes as JSON array into a caller buffer; returns buf */
static inline char *v_bytes(char *buf, size_t cap, const unsigned char *p, size_t n) {
    size_t o = 0; buf[o++] = '[';
    for (size_t i = 0; i < n && o + 6 < cap; i++) o += (size_t) snprintf(buf + o, cap - o, i ? ",%u" : "%u", p[i]);
    buf[o++] = ']'; buf[o] = 0; return buf;
}
static inline void v_emit_bytes(const char *key, const unsigned char *p, size_t n) {
    fprintf(v_out, "\"%s\":[", key);
    for (size_t i = 0; i < n; i++) fprintf(v_out, i ? ",%u" : "%u", p[i]);
    fputc(']', v_out);
}

/* ------------------------------------------------------------------ deterministic random source */
static vrng v_rb_rng;
static const char *v_rb_name(void) { return "verif-seeded"; }
static uint32_t v_rb_random(void) { return (uint32_t) vrng_u64(&v_rb_rng); }
static void v_rb_buf(void *buf, size_t n) { vrng_bytes(&v_rb_rng, (unsigned char *) buf, n); }
static randombytes_implementation v_rb_impl = { v_rb_name, v_rb_random, NULL, NULL, v_rb_buf, NULL };
static inline void v_install_seeded_random(uint64_t seed) {
    vrng_seed(&v_rb_rng, seed, 77);
    randombytes_set_implementation(&v_rb_impl);
}

/* ------------------------------------------------------------------ crash handling: flush the trace first */
static void v_crash_handler(int sig) {
    if (v_out) { fprintf(v_out, "{\"e\":\"crash\",\"signal\":%d}\n", sig); fflush(v_out); }
    _exit(70);
}
static inline void v_install_crash_handlers(void) {
    signal(SIGSEGV, v_crash_handler); signal(SIGBUS, v_crash_handler);
    signal(SIGABRT, v_crash_handler); signal(SIGILL, v_crash_handler); signal(SIGFPE, v_crash_handler);
}

/* ------------------------------------------------------------------ guarded buffers
 * v_galloc(n, at_end): n bytes whose end (at_end=1) or start (at_end=0) touches a PROT_NONE page. */
typedef struct { unsigned char *base; size_t maplen; unsigned char *p; size_t n; } vguard;
static inline vguard v_galloc(size_t n, int at_end) {
    long ps = sysconf(_SC_PAGESIZE);
    size_t data = ((n + (size_t) ps - 1) / (size_t) ps) * (size_t) ps; if (data == 0) data = (size_t) ps;
    vguard g; g.maplen = data + 2 * (size_t) ps;
    g.base = (unsigned char *) mmap(NULL, g.maplen, PROT_READ | PROT_WRITE, MAP_PRIVATE | MAP_ANONYMOUS, -1, 0);
    if (g.base == MAP_FAILED) { perror("mmap"); exit(3); }
    mprotect(g.base, (size_t) ps, PROT_NONE);
    mprotect(g.base + (size_t) ps + data, (size_t) ps, PROT_NONE);
    g.p = at_end ? g.base + (size_t) ps + data - n : g.base + (size_t) ps; g.n = n;
    return g;
}
static inline void v_gfree(vguard *g) { if (g->base) munmap(g->base, g->maplen); g->base = NULL; }

#endif
