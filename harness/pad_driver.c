/* Padding driver (C16): runs sodium_pad / sodium_unpad on swept and exhaustive inputs and logs NDJSON
 * records judged by spec/trace/OraclePad.tla.
 *   pad_driver <seed> <maxlen> <out.ndjson> <bs> [<bs> ...]                                   */
#include "common.h"

static void do_pad_form(vrng *r, size_t len, size_t bs, size_t cap, int nullp) {
    /* the buffer holds max(cap, len) bytes and ends at a guard page: with a declared capacity below the data length
     * the call must still fail without writing (a write past the buffer faults) */
    size_t room = cap > len ? cap : len;
    vguard g = v_galloc(room + 1, 1);
    unsigned char *buf = g.p + 1, *orig = malloc(room + 1);
    vrng_bytes(r, buf, room);
    if (len && vrng_below(r, 3) == 0) buf[len - 1] = vrng_below(r, 2) ? 0x80 : 0x00;   /* data ending like padding */
    memcpy(orig, buf, room);
    size_t plen = 4242;
    /* nullp: the form that does not ask for the padded length (padded_buflen_p = NULL); the region compared is then located with
     * len + (bs - len mod bs), clipped to the capacity - what it must contain is still lib/Pad.tla's business */
    int ret = sodium_pad(nullp ? NULL : &plen, buf, len, bs, cap);
    if (nullp) plen = (ret == 0 && bs > 0) ? len + (bs - len % bs) : 0;
    int data_ok = memcmp(buf, orig, len) == 0;
    size_t shown = (ret == 0 && plen <= cap) ? plen : 0;
    int rest_ok = 1;
    for (size_t i = (ret == 0 ? shown : 0); i < room; i++) rest_ok &= buf[i] == orig[i];
    fprintf(v_out, "{\"op\":\"pad\",\"nullp\":%s,\"len\":%zu,\"bs\":%zu,\"cap\":%zu,\"ret\":%d,\"plen\":%zu,", nullp ? "true" : "false", len, bs, cap, ret, plen);
    v_emit_bytes("data", orig, len); fputc(',', v_out); v_emit_bytes("buf", buf, shown);
    fprintf(v_out, ",\"data_ok\":%s,\"rest_ok\":%s}\n", data_ok ? "true" : "false", rest_ok ? "true" : "false");
    free(orig); v_gfree(&g);
}

static void do_pad(vrng *r, size_t len, size_t bs, size_t cap) { do_pad_form(r, len, bs, cap, 0); do_pad_form(r, len, bs, cap, 1); }

/* the final block is placed against a PROT_NONE page (before it: side 0, after it: side 1); the bytes in
 * front of the final block do not exist at all when side = 0, so reading them faults */
static void do_unpad(const unsigned char *block, size_t bs, size_t pre, int side) {
    long ps = sysconf(_SC_PAGESIZE);
    if (side == 0 && pre > 0 && bs == 0) return;
    vguard g = v_galloc(side ? bs + pre : bs + (size_t) ps, side);
    unsigned char *blk = side ? g.p + pre : g.p;
    if (side) memset(g.p, 0x33, pre);
    memcpy(blk, block, bs);
    size_t out = 4242;
    int ret = sodium_unpad(&out, blk - pre, bs + pre, bs);
    fprintf(v_out, "{\"op\":\"unpad\",\"bs\":%zu,\"pre\":%zu,\"side\":%d,", bs, pre, side);
    v_emit_bytes("block", block, bs);
    fprintf(v_out, ",\"ret\":%d,\"len\":%zu}\n", ret, ret == 0 ? out : 0);
    v_gfree(&g);
}

/* lengths of 2^32 + k bytes (sparse mapping; only the pages around the tail are touched): the padding arithmetic must not be done in
 * 32 bits. Recorded: the 64-bit values as bytes, whether the marker sits at buf[len], whether everything up to the padded length is
 * zero, whether the byte behind it is untouched. */
static void le8(unsigned long long v, unsigned char *o) { for (int i = 0; i < 8; i++) o[i] = (unsigned char) (v >> (8 * i)); }
static void pad_huge(void) {
    size_t total = ((size_t) 1 << 32) + ((size_t) 4 << 20);
    unsigned char *buf = (unsigned char *) mmap(NULL, total, PROT_READ | PROT_WRITE, MAP_PRIVATE | MAP_ANONYMOUS | MAP_NORESERVE, -1, 0);
    if (buf == MAP_FAILED) return;
    static const size_t BS[] = { 1, 2, 3, 7, 16, 24, 100, 4096, 65537, 1000003 }; static const size_t K[] = { 0, 1, 5, 15, 16, 255 };
    for (size_t bi = 0; bi < sizeof BS / sizeof BS[0]; bi++) for (size_t ki = 0; ki < sizeof K / sizeof K[0]; ki++) for (int capmode = 0; capmode < 3; capmode++) {
        size_t bs = BS[bi], len = ((size_t) 1 << 32) + K[ki], want = len + (bs - len % bs);     /* 'want' only chooses the capacity; the oracle recomputes it */
        size_t cap = capmode == 0 ? want : capmode == 1 ? want - 1 : want + 3; if (cap + 2 > total) continue;
        memset(buf + len - 16, 0x55, 16 + (want - len) + 8 < ((size_t) 3 << 20) ? 16 + (want - len) + 8 : 16);
        size_t plen = 0xdeadbeef; int ret = sodium_pad(&plen, buf, len, bs, cap);
        int marker = 1, zeros = 1, after = 1;
        if (ret == 0 && plen > len && plen <= total - 8) { marker = buf[len] == 0x80; for (size_t i = len + 1; i < plen; i++) zeros &= buf[i] == 0; after = buf[plen] == 0x55 || plen - len > ((size_t) 3 << 20); }
        unsigned char l8[8], c8[8], p8[8]; le8(len, l8); le8(cap, c8); le8(plen, p8);
        fprintf(v_out, "{\"op\":\"pad_huge\",\"bs\":%zu,\"ret\":%d,\"marker_ok\":%s,\"zeros_ok\":%s,\"after_ok\":%s,", bs, ret, marker ? "true" : "false", zeros ? "true" : "false", after ? "true" : "false");
        v_emit_bytes("len", l8, 8); fputc(',', v_out); v_emit_bytes("cap", c8, 8); fputc(',', v_out); v_emit_bytes("plen", p8, 8); fputs("}\n", v_out);
        if (ret == 0 && capmode == 0) { size_t ul = 0; int ru = sodium_unpad(&ul, buf, plen, bs); unsigned char u8[8]; le8(ul, u8);
            fprintf(v_out, "{\"op\":\"unpad_huge\",\"bs\":%zu,\"ret\":%d,", bs, ru); v_emit_bytes("len", l8, 8); fputc(',', v_out); v_emit_bytes("ulen", u8, 8); fputs("}\n", v_out); }
    }
    munmap(buf, total);
}
int main(int argc, char **argv) {
    if (argc < 5) return 3;
    if (sodium_init() < 0) return 3;
    vrng r; vrng_seed(&r, strtoull(argv[1], NULL, 10), 16);
    size_t maxlen = (size_t) atoi(argv[2]);
    v_open(argv[3]); v_install_crash_handlers();
    if (!strcmp(argv[4], "huge")) { pad_huge(); v_close(); return 0; }
    for (int a = 4; a < argc; a++) {
        size_t bs = (size_t) strtoull(argv[a], NULL, 10);
        for (size_t len = 0; len <= maxlen; len = len < 70 ? len + 1 : len + 1 + vrng_below(&r, 9)) {
            size_t pl = bs ? len + (bs - len % bs) : len;
            do_pad(&r, len, bs, len); if (pl > 0) do_pad(&r, len, bs, pl - 1); do_pad(&r, len, bs, pl); do_pad(&r, len, bs, pl + 1);
            do_pad(&r, len, bs, 0); if (len > 1) { do_pad(&r, len, bs, len - 1); do_pad(&r, len, bs, len / 2); }
        }
        if (bs == 0) { unsigned char z = 0x80; do_unpad(&z, 0, 1, 1); continue; }
        /* unpad: marker at every position of the final block, and corrupted variants */
        unsigned char *blk = malloc(bs);
        for (size_t pos = 0; pos < bs; pos = pos < 70 ? pos + 1 : pos + 1 + vrng_below(&r, bs / 16 + 1)) {
            for (int var = 0; var < 6; var++) {
                vrng_bytes(&r, blk, bs);
                memset(blk + pos, 0, bs - pos); blk[pos] = 0x80;
                if (var == 1) blk[pos] = 0x81;
                if (var == 2) blk[pos] = 0x00;                                  /* marker missing: earlier bytes are random */
                if (var == 3 && pos + 1 < bs) blk[pos + 1 + vrng_below(&r, (uint32_t) (bs - pos - 1))] = 1 + (unsigned char) vrng_below(&r, 255);
                if (var == 4) memset(blk, 0, pos);                              /* zeros before the marker as well */
                if (var == 5) { memset(blk, 0, bs); if (pos % 2) blk[pos] = 0x80; } /* all zero / lone marker */
                size_t pre = var % 2 ? 0 : 1 + vrng_below(&r, 40);
                do_unpad(blk, bs, pre, 0); do_unpad(blk, bs, pre, 1);
            }
        }
        /* buffer shorter than a block */
        if (bs > 1) { memset(blk, 0, bs); blk[0] = 0x80; do_unpad(blk, bs - 1, 0, 1); }
        free(blk);
    }
    /* exhaustive final blocks over {00, 80, 01} for block sizes <= 6 */
    for (size_t bs = 1; bs <= 6; bs++) {
        size_t n = 1; for (size_t i = 0; i < bs; i++) n *= 3;
        for (size_t x = 0; x < n; x++) {
            unsigned char blk[8]; size_t y = x; static const unsigned char sym[3] = { 0x00, 0x80, 0x01 };
            for (size_t i = 0; i < bs; i++) { blk[i] = sym[y % 3]; y /= 3; }
            do_unpad(blk, bs, 0, 0); do_unpad(blk, bs, 3, 1); do_unpad(blk, bs, bs, 0);
        }
    }
    v_close();
    return 0;
}
