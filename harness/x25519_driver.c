/* X25519 / key agreement driver (C05): structured and seeded (scalar, point) pairs, base multiplication, box
 * precomputation, kx session keys, seeded key pairs; NDJSON for spec/trace/OracleX25519.tla.
 *   x25519_driver <seed> <nrandom> <out.ndjson>                                                */
#include "common.h"
#include "x25519_nearp.h"
static vrng R;
static void hexto(const char *h, unsigned char *o) { for (int i = 0; i < 32; i++) { unsigned v; sscanf(h + 2 * i, "%2x", &v); o[i] = (unsigned char) v; } }
static void rec_sm(const unsigned char *k, const unsigned char *u) {
    unsigned char q[32]; memset(q, 0xcc, 32); int r = crypto_scalarmult(q, k, u), r2; unsigned char q2[32]; r2 = crypto_scalarmult_curve25519(q2, k, u);
    fprintf(v_out, "{\"op\":\"x25519\","); v_emit_bytes("k", k, 32); fputc(',', v_out); v_emit_bytes("u", u, 32); fputc(',', v_out); v_emit_bytes("q", q, 32);
    fprintf(v_out, ",\"ret\":%d,\"same\":%s}\n", r, (r == r2 && (r != 0 || !memcmp(q, q2, 32))) ? "true" : "false");
}
int main(int argc, char **argv) {
    if (argc < 4) return 3;
    vrng_seed(&R, strtoull(argv[1], NULL, 10), 5); int nrand = atoi(argv[2]);
    v_open(argv[3]); if (sodium_init() < 0) return 3; v_install_crash_handlers();
    unsigned char k[32], u[32], a[64], b[64];
    /* low-order and non-canonical encodings, each with the top bit clear and set */
    static const char *special[] = {
        "0000000000000000000000000000000000000000000000000000000000000000", "0100000000000000000000000000000000000000000000000000000000000000",
        "e0eb7a7c3b41b8ae1656e3faf19fc46ada098deb9c32b1fd866205165f49b800", "5f9c95bca3508c24b1d0b1559c83ef5b04445cc4581c8e86d8224eddd09f1157",
        "ecffffffffffffffffffffffffffffffffffffffffffffffffffffffffffff7f", "edffffffffffffffffffffffffffffffffffffffffffffffffffffffffffff7f",
        "eeffffffffffffffffffffffffffffffffffffffffffffffffffffffffffff7f", "cdeb7a7c3b41b8ae1656e3faf19fc46ada098deb9c32b1fd866205165f49b880",
        "4c9c95bca3508c24b1d0b1559c83ef5b04445cc4581c8e86d8224eddd09f11d7", "d9ffffffffffffffffffffffffffffffffffffffffffffffffffffffffffffff",
        "daffffffffffffffffffffffffffffffffffffffffffffffffffffffffffffff", "dbffffffffffffffffffffffffffffffffffffffffffffffffffffffffffffff",
        /* u around p and 2^255: p-2, p+2 .. p+18 (non-canonical), 2^255-1, 2, 3 (twist/curve), 9 */
        "ebffffffffffffffffffffffffffffffffffffffffffffffffffffffffffff7f", "efffffffffffffffffffffffffffffffffffffffffffffffffffffffffffff7f",
        "f6ffffffffffffffffffffffffffffffffffffffffffffffffffffffffffff7f", "ffffffffffffffffffffffffffffffffffffffffffffffffffffffffffffff7f",
        "0200000000000000000000000000000000000000000000000000000000000000", "0300000000000000000000000000000000000000000000000000000000000000",
        "0900000000000000000000000000000000000000000000000000000000000000", "0900000000000000000000000000000000000000000000000000000000000080",
        /* all-ones limbs in radix 2^51 and 2^25.5 */
        "ffffffffffff0700000000000000000000000000000000000000000000000000", "000000000000f8ffffffffffff3f000000000000000000000000000000000000",
        "ffffff0300000000000000000000000000000000000000000000000000000000", "000000fcffff1f00000000000000000000000000000000000000000000000000",
        "ffffffffffffffffffffffffffffffff00000000000000000000000000000000", "00000000000000000000000000000000ffffffffffffffffffffffffffffff7f" };
    int ns = (int) (sizeof special / sizeof special[0]);
    for (int i = 0; i < ns; i++) { hexto(special[i], u); vrng_bytes(&R, k, 32); rec_sm(k, u); if (i < 12) { u[31] ^= 0x80; rec_sm(k, u); } }
    /* neighbours of the 12 refused encodings: one bit away (bit 7 of a byte 0..30 - what a byte-wise "ignore the top bit" mask would
     * swallow - and a random other bit): none of them is low order, all must be multiplied like any other point.  With many random
     * pairs (thorough tier): bit 7 of EVERY byte 0..30 of every encoding. */
    for (int i = 0; i < 12; i++) {
        if (nrand > 1000) { for (int j = 0; j < 31; j++) { hexto(special[i], u); u[j] ^= 0x80; vrng_bytes(&R, k, 32); rec_sm(k, u); } }
        else { hexto(special[i], u); u[vrng_below(&R, 31)] ^= 0x80; vrng_bytes(&R, k, 32); rec_sm(k, u); }
        hexto(special[i], u); { int bit = (int) vrng_below(&R, 255); if ((bit & 7) == 7) bit--; u[bit >> 3] ^= (unsigned char) (1u << (bit & 7)); } vrng_bytes(&R, k, 32); rec_sm(k, u);
        hexto(special[i], u); u[vrng_below(&R, 31)] ^= 0x80; u[vrng_below(&R, 31)] ^= 0x80; u[31] ^= 0x80; vrng_bytes(&R, k, 32); rec_sm(k, u);
    }
    /* scalars with every pattern of the five clamp bits */
    hexto(special[18], u); vrng_bytes(&R, u, 32);
    for (int pat = 0; pat < 32; pat += 1 + (pat % 3)) { vrng_bytes(&R, k, 32); k[0] = (unsigned char) ((k[0] & 0xf8) | (pat & 7)); k[31] = (unsigned char) ((k[31] & 0x3f) | ((pat >> 3) << 6)); rec_sm(k, u); }
    memset(k, 0, 32); rec_sm(k, u); memset(k, 0xff, 32); rec_sm(k, u);
    /* crafted pairs whose shared point is the tiny value 9 (only the first output byte is non-zero): u = [1/k mod L] B.
     * The library is only used to manufacture the INPUT here; the specification judges the result as for any input. */
    for (int t = 0; t < 4; t++) { unsigned char kc[32], kr[32], ki[32], ep[32];
        vrng_bytes(&R, k, 32); memcpy(kc, k, 32); kc[0] &= 248; kc[31] &= 127; kc[31] |= 64;
        unsigned char wide[64] = { 0 }; memcpy(wide, kc, 32); crypto_core_ed25519_scalar_reduce(kr, wide);
        if (crypto_core_ed25519_scalar_invert(ki, kr) == 0 && crypto_scalarmult_ed25519_base_noclamp(ep, ki) == 0 && crypto_sign_ed25519_pk_to_curve25519(u, ep) == 0) rec_sm(k, u); }
    for (int i = 0; i < nrand; i++) { vrng_bytes(&R, k, 32); vrng_bytes(&R, u, 32); rec_sm(k, u); }
    for (int i = 0; i < 4 + nrand / 8; i++) { unsigned char q[32]; vrng_bytes(&R, k, 32); if (i == 0) memset(k, 0, 32); int r = crypto_scalarmult_base(q, k);
        fprintf(v_out, "{\"op\":\"x25519_base\","); v_emit_bytes("k", k, 32); fputc(',', v_out); v_emit_bytes("q", q, 32); fprintf(v_out, ",\"ret\":%d}\n", r); }
    /* box precomputation (both ciphers), incl. a low-order public key */
    for (int i = 0; i < 3 + nrand / 16; i++) { unsigned char pk[32], sk[32], o1[32], o2[32]; vrng_bytes(&R, sk, 32); vrng_bytes(&R, pk, 32); if (i == 1) hexto(special[2], pk);
        memset(o1, 0xcc, 32); memset(o2, 0xcc, 32); int r1 = crypto_box_beforenm(o1, pk, sk), r2 = crypto_box_curve25519xchacha20poly1305_beforenm(o2, pk, sk);
        fprintf(v_out, "{\"op\":\"beforenm\","); v_emit_bytes("pk", pk, 32); fputc(',', v_out); v_emit_bytes("sk", sk, 32); fputc(',', v_out); v_emit_bytes("salsa", o1, 32); fputc(',', v_out); v_emit_bytes("chacha", o2, 32);
        fprintf(v_out, ",\"ret_salsa\":%d,\"ret_chacha\":%d}\n", r1, r2); }
    /* key exchange */
    for (int i = 0; i < 2 + nrand / 16; i++) { unsigned char cpk[32], csk[32], spk[32], ssk[32], s1[32], s2[32];
        vrng_bytes(&R, s1, 32); vrng_bytes(&R, s2, 32); crypto_kx_seed_keypair(cpk, csk, s1); crypto_kx_seed_keypair(spk, ssk, s2);
        int rc = crypto_kx_client_session_keys(a, a + 32, cpk, csk, spk), rs = crypto_kx_server_session_keys(b, b + 32, spk, ssk, cpk);
        fprintf(v_out, "{\"op\":\"kx\","); v_emit_bytes("seed_c", s1, 32); fputc(',', v_out); v_emit_bytes("seed_s", s2, 32); fputc(',', v_out); v_emit_bytes("cpk", cpk, 32); fputc(',', v_out); v_emit_bytes("csk", csk, 32); fputc(',', v_out);
        v_emit_bytes("spk", spk, 32); fputc(',', v_out); v_emit_bytes("ssk", ssk, 32); fputc(',', v_out); v_emit_bytes("crx", a, 32); fputc(',', v_out); v_emit_bytes("ctx", a + 32, 32); fputc(',', v_out);
        v_emit_bytes("srx", b, 32); fputc(',', v_out); v_emit_bytes("stx", b + 32, 32); fprintf(v_out, ",\"ret_c\":%d,\"ret_s\":%d}\n", rc, rs); }
    for (int i = 0; i < 2 + nrand / 16; i++) { unsigned char pk[32], sk[32], sd[32]; vrng_bytes(&R, sd, 32); crypto_box_seed_keypair(pk, sk, sd);
        fprintf(v_out, "{\"op\":\"box_seed_keypair\","); v_emit_bytes("seed", sd, 32); fputc(',', v_out); v_emit_bytes("pk", pk, 32); fputc(',', v_out); v_emit_bytes("sk", sk, 32); fprintf(v_out, "}\n"); }
    /* results that differ from the all-zero encoding in a single byte: the zero test must look at every byte. With
     * k = 1 + 3 * l' (l' = prime order of the twist; k is invariant under clamping) X25519(k, u) = u for every u in the
     * twist's prime-order subgroup; for each byte position the first u = kk * 2^(8j) with that property is recorded. */
    { static const char *kfix = "58083dd261ad91eff952322ec824c682ffffffffffffffffffffffffffffff5f"; unsigned char kk_[32], uu[32], qq[32];
      hexto(kfix, kk_);
      for (int j = 0; j < 32; j += (nrand >= 200 ? 1 : (j < 28 ? 7 : 1))) { int hit = 0;
          for (int v = 1; v < (j == 31 ? 128 : 256) && !hit; v++) { memset(uu, 0, 32); uu[j] = (unsigned char) v;
              memset(qq, 0xcc, 32); (void) crypto_scalarmult(qq, kk_, uu);        /* the verdict is the oracle's, not the library's: only the output bytes steer the search */
              if (!memcmp(qq, uu, 32)) { hit = 1; rec_sm(kk_, uu); }
              else if (v == 255 || (j == 31 && v == 127)) { uu[j] = 9; rec_sm(kk_, uu); } } } }
    /* results just below p whose limbs (51-bit radix: 5 limbs; 25.5-bit radix: 10 limbs) are all ones except one: the final
     * "is it >= p" canonicalisation must look at every limb. Candidates u of that shape are multiplied by the twist-stabilising scalar
     * (result = u for the 1/8 of them that lie in the twist's prime-order subgroup); ALL candidates are recorded - which of them hit
     * is for the oracle to say, not for the library. */
    { static const char *kfix = "58083dd261ad91eff952322ec824c682ffffffffffffffffffffffffffffff5f"; unsigned char kk_[32], uu[32]; hexto(kfix, kk_);
      static const int LB51[6] = { 0, 51, 102, 153, 204, 255 }, LB26[11] = { 0, 26, 51, 77, 102, 128, 153, 179, 204, 230, 255 };
      int ncand = nrand >= 200 ? 10 : 1;
      for (int i = 0; NEARP[i]; i++) { hexto(NEARP[i], uu); rec_sm(kk_, uu); }          /* known hits, two per limb (tools/gen_nearp.py) */
      for (int radix = 0; radix < 2; radix++) { const int *lb = radix ? LB26 : LB51; int nl = radix ? 10 : 5;
        for (int j = 1; j < nl; j++) for (int c = 0; c < ncand; c++) {
            memset(uu, 0xff, 32); uu[31] = 0x7f;                                        /* 2^255 - 1 */
            for (int bit = lb[j]; bit < lb[j + 1]; bit++) if (vrng_below(&R, 2)) uu[bit >> 3] &= (unsigned char) ~(1u << (bit & 7));   /* limb j random */
            uu[0] = (unsigned char) (0xed + vrng_below(&R, 19));                         /* limb 0 in [2^w - 19, 2^w - 1]: the value is < p iff limb j is not all ones */
            rec_sm(kk_, uu); } } }
    /* every API built on X25519 reports failure exactly when the shared point is all-zero: the special encodings (low
     * order, non-canonical, either top bit) and random keys as the peer's public key of box (both ciphers; easy, detached,
     * open, precomputation), sealed boxes (both ciphers) and key exchange (either role). rets = return codes in that order. */
    { int nsp = 0; while (nsp < 64 && special[nsp] && strlen(special[nsp]) == 64) { nsp++; if (nsp >= (int) (sizeof special / sizeof special[0])) break; }
      for (int i = 0; i < nsp + 4; i++) { unsigned char pk[32], sk[32], mypk[32], n[24], m[8] = { 1, 2, 3, 4, 5, 6, 7, 8 }, c[8 + 48], mac[16], o[32], o2[32]; int rets[12];
        if (i < nsp) hexto(special[i], pk); else { vrng_bytes(&R, sk, 32); crypto_scalarmult_base(pk, sk); if (i == nsp + 1) pk[31] |= 0x80; }
        vrng_bytes(&R, sk, 32); crypto_scalarmult_base(mypk, sk); vrng_bytes(&R, n, 24);
        rets[0] = crypto_box_easy(c, m, 8, n, pk, sk); rets[1] = crypto_box_detached(c, mac, m, 8, n, pk, sk);
        rets[2] = crypto_box_curve25519xchacha20poly1305_easy(c, m, 8, n, pk, sk); rets[3] = crypto_box_curve25519xchacha20poly1305_detached(c, mac, m, 8, n, pk, sk);
        rets[4] = crypto_box_seal(c, m, 8, pk); rets[5] = crypto_box_curve25519xchacha20poly1305_seal(c, m, 8, pk);
        rets[6] = crypto_box_beforenm(o, pk, sk); rets[7] = crypto_box_curve25519xchacha20poly1305_beforenm(o, pk, sk);
        rets[8] = crypto_kx_client_session_keys(o, o2, mypk, sk, pk); rets[9] = crypto_kx_server_session_keys(o, o2, mypk, sk, pk);
        memset(c, 7, sizeof c); rets[10] = crypto_box_open_easy(m, c, 24, n, pk, sk) == -1 ? -1 : 0; rets[11] = crypto_scalarmult(o, sk, pk);
        fprintf(v_out, "{\"op\":\"consumers\","); v_emit_bytes("pk", pk, 32); fputc(',', v_out); v_emit_bytes("sk", sk, 32); fprintf(v_out, ",\"rets\":[");
        for (int j = 0; j < 12; j++) fprintf(v_out, j ? ",%d" : "%d", rets[j]); fprintf(v_out, "]}\n"); } }
    v_close(); return 0;
}
