/* Overlap driver (C13): every overlap-tolerant API is run with overlapping / aliased buffers inside one arena and
 * with disjoint buffers; one relational NDJSON record per (api, length, offset) for spec/trace/OracleOverlap.tla.
 *   overlap_driver <seed> <mode> <out.ndjson>                                                  */
#include "common.h"
static vrng R;
#define PADR 704
static unsigned char K[32], N[32], PK[32], SK[32], PK2[32], SK2[32], SPK[32], SSK[64];
static void rec(const char *api, size_t len, long off, int equal, int outside, int ret_same) {
    fprintf(v_out, "{\"op\":\"overlap\",\"api\":\"%s\",\"len\":%zu,\"off\":%ld,\"equal\":%s,\"outside_ok\":%s,\"ret_same\":%s}\n", api, len, off, equal ? "true" : "false", outside ? "true" : "false", ret_same ? "true" : "false"); }
/* generic runner: op(out, in, len) writes outlen(len) bytes; arena places `in` at base and `out` at base + off */
typedef int (*op_fn)(unsigned char *out, const unsigned char *in, size_t len);
static void run(const char *api, op_fn op, size_t inlen, size_t outlen, long off, const unsigned char *input) {
    size_t asz = inlen + outlen + 4 * PADR;
    unsigned char *arena = malloc(asz), *shadow = malloc(asz), *ref = malloc(outlen + 1), *inb = malloc(inlen + 1);
    memcpy(inb, input, inlen);
    int r0 = op(ref, inb, inlen);                                      /* disjoint reference */
    vrng_bytes(&R, arena, asz);
    unsigned char *in = arena + 2 * PADR, *out = in + off; memcpy(in, input, inlen); memcpy(shadow, arena, asz);
    int r1 = op(out, in, inlen);
    int equal = memcmp(out, ref, outlen) == 0, outside = 1;
    for (size_t i = 0; i < asz; i++) { unsigned char *p = arena + i; if ((p >= out && p < out + outlen)) continue; if (p >= in && p < in + inlen) continue; outside &= arena[i] == shadow[i]; }
    rec(api, inlen, off, equal, outside, r0 == r1);
    free(arena); free(shadow); free(ref); free(inb);
}
static int op_sb_easy(unsigned char *o, const unsigned char *i, size_t n) { return crypto_secretbox_easy(o, i, n, N, K); }
static int op_sb_open(unsigned char *o, const unsigned char *i, size_t n) { return crypto_secretbox_open_easy(o, i, n, N, K); }
static int op_sbx_easy(unsigned char *o, const unsigned char *i, size_t n) { return crypto_secretbox_xchacha20poly1305_easy(o, i, n, N, K); }
static int op_sbx_open(unsigned char *o, const unsigned char *i, size_t n) { return crypto_secretbox_xchacha20poly1305_open_easy(o, i, n, N, K); }
static int op_sb_det(unsigned char *o, const unsigned char *i, size_t n) { unsigned char mac[16]; int r = crypto_secretbox_detached(o, mac, i, n, N, K); return r + mac[0] * 0; }
static int op_box_easy(unsigned char *o, const unsigned char *i, size_t n) { return crypto_box_easy(o, i, n, N, PK2, SK); }
static int op_box_open(unsigned char *o, const unsigned char *i, size_t n) { return crypto_box_open_easy(o, i, n, N, PK, SK2); }
static int op_sign(unsigned char *o, const unsigned char *i, size_t n) { unsigned long long l; return crypto_sign(o, &l, i, n, SSK); }
static int op_sign_open(unsigned char *o, const unsigned char *i, size_t n) { unsigned long long l; return crypto_sign_open(o, &l, i, n, SPK); }
#define STREAM(NM, FN) static int op_##NM(unsigned char *o, const unsigned char *i, size_t n) { return FN(o, i, n, N, K); }
STREAM(chacha20, crypto_stream_chacha20_xor) STREAM(chacha20_ietf, crypto_stream_chacha20_ietf_xor) STREAM(xchacha20, crypto_stream_xchacha20_xor) STREAM(salsa20, crypto_stream_salsa20_xor) STREAM(xsalsa20, crypto_stream_xsalsa20_xor) STREAM(salsa2012, crypto_stream_salsa2012_xor)
#define AE(NM, P) static int ope_##NM(unsigned char *o, const unsigned char *i, size_t n) { unsigned long long l; return P##_encrypt(o, &l, i, n, K, 9, NULL, N, K); } \
 static int opd_##NM(unsigned char *o, const unsigned char *i, size_t n) { unsigned long long l; return P##_decrypt(o, &l, NULL, i, n, K, 9, N, K); }
AE(chacha, crypto_aead_chacha20poly1305) AE(ietf, crypto_aead_chacha20poly1305_ietf) AE(xchacha, crypto_aead_xchacha20poly1305_ietf) AE(gcm, crypto_aead_aes256gcm) AE(aegis128l, crypto_aead_aegis128l) AE(aegis256, crypto_aead_aegis256)

int main(int argc, char **argv) {
    if (argc < 4) return 3;
    vrng_seed(&R, strtoull(argv[1], NULL, 10), 13); int full = !strcmp(argv[2], "full");
    v_open(argv[3]); if (sodium_init() < 0) return 3; v_install_crash_handlers();
    vrng_bytes(&R, K, 32); vrng_bytes(&R, N, 32); unsigned char sd[32]; vrng_bytes(&R, sd, 32); crypto_box_seed_keypair(PK, SK, sd); vrng_bytes(&R, sd, 32); crypto_box_seed_keypair(PK2, SK2, sd);
    vrng_bytes(&R, sd, 32); crypto_sign_seed_keypair(SPK, SSK, sd);
    static const size_t LQ[] = { 0, 1, 2, 15, 16, 17, 31, 32, 33, 47, 48, 49, 63, 64, 65, 79, 80, 81, 127, 128, 129, 255, 256, 257, 511, 512, 513, 1199, 1200 };
    static const long OQ[] = { -80, -79, -65, -64, -63, -48, -33, -32, -31, -17, -16, -15, -2, -1, 0, 1, 2, 15, 16, 17, 31, 32, 33, 48, 63, 64, 65, 79, 80 };
    unsigned char *msg = malloc(1400), *tmp = malloc(1500); size_t nl = full ? 1201 : sizeof LQ / sizeof LQ[0];
    for (size_t li = 0; li < nl; li++) {
        size_t len = full ? li : LQ[li]; vrng_bytes(&R, msg, len);
        size_t no = full ? 161 : sizeof OQ / sizeof OQ[0];
        for (size_t oi = 0; oi < no; oi++) {
            long off = full ? (long) oi - 80 : OQ[oi]; if (full && len > 300 && (oi % 3) && (len % 5)) continue;
            run("secretbox_easy", op_sb_easy, len, len + 16, off, msg);
            crypto_secretbox_easy(tmp, msg, len, N, K); run("secretbox_open_easy", op_sb_open, len + 16, len, off, tmp);
            if ((oi + li) % 2 == 0) { run("secretbox_xchacha_easy", op_sbx_easy, len, len + 16, off, msg); crypto_secretbox_xchacha20poly1305_easy(tmp, msg, len, N, K); run("secretbox_xchacha_open_easy", op_sbx_open, len + 16, len, off, tmp);
                run("secretbox_detached", op_sb_det, len, len, off, msg); }
            if ((oi + li) % 3 == 0) { run("box_easy", op_box_easy, len, len + 16, off, msg); crypto_box_easy(tmp, msg, len, N, PK2, SK); run("box_open_easy", op_box_open, len + 16, len, off, tmp); }
            if ((oi + li) % 4 == 0 || len < 70) { run("sign", op_sign, len, len + 64, off, msg); unsigned long long sl; crypto_sign(tmp, &sl, msg, len, SSK); run("sign_open", op_sign_open, len + 64, len, off, tmp); }
        }
        /* exact aliasing: stream XOR and every AEAD form with identical input and output pointers */
        run("stream_chacha20_xor", op_chacha20, len, len, 0, msg); run("stream_chacha20_ietf_xor", op_chacha20_ietf, len, len, 0, msg); run("stream_xchacha20_xor", op_xchacha20, len, len, 0, msg);
        run("stream_salsa20_xor", op_salsa20, len, len, 0, msg); run("stream_xsalsa20_xor", op_xsalsa20, len, len, 0, msg); run("stream_salsa2012_xor", op_salsa2012, len, len, 0, msg);
#define AEBOTH(NM, P, TL) do { run("aead_" #NM "_encrypt", ope_##NM, len, len + TL, 0, msg); unsigned long long l; P##_encrypt(tmp, &l, msg, len, K, 9, NULL, N, K); run("aead_" #NM "_decrypt", opd_##NM, len + TL, len, 0, tmp); } while (0)
        AEBOTH(chacha, crypto_aead_chacha20poly1305, 16); AEBOTH(ietf, crypto_aead_chacha20poly1305_ietf, 16); AEBOTH(xchacha, crypto_aead_xchacha20poly1305_ietf, 16);
        AEBOTH(aegis128l, crypto_aead_aegis128l, 32); AEBOTH(aegis256, crypto_aead_aegis256, 32); if (crypto_aead_aes256gcm_is_available()) AEBOTH(gcm, crypto_aead_aes256gcm, 16);
    }
    /* distances of the order of the widest vector batch (512 bytes for the AVX2 Salsa20 / ChaCha20 cores) with messages long
     * enough to use it: the overlap handling must not assume a maximum stride */
    { static const long OL[] = { 81, 96, 127, 128, 129, 191, 192, 193, 255, 256, 257, 300, 319, 320, 321, 383, 384, 385, 447, 448, 449, 511, 512, 513, 575, 576, 640 };
      static const size_t LL[] = { 300, 544, 600, 1024, 1200 };
      for (size_t li = 0; li < 5; li++) { size_t len = LL[li]; vrng_bytes(&R, msg, len);
        for (size_t oi = 0; oi < sizeof OL / sizeof OL[0]; oi++) for (int sg = -1; sg <= 1; sg += 2) { long off = sg * OL[oi]; if (!full && (oi + li) % 2) continue;
            run("secretbox_easy", op_sb_easy, len, len + 16, off, msg); run("secretbox_detached", op_sb_det, len, len, off, msg);
            crypto_secretbox_easy(tmp, msg, len, N, K); run("secretbox_open_easy", op_sb_open, len + 16, len, off, tmp);
            run("secretbox_xchacha_easy", op_sbx_easy, len, len + 16, off, msg); crypto_secretbox_xchacha20poly1305_easy(tmp, msg, len, N, K); run("secretbox_xchacha_open_easy", op_sbx_open, len + 16, len, off, tmp);
            if (oi % 3 == 0) { run("box_easy", op_box_easy, len, len + 16, off, msg); crypto_box_easy(tmp, msg, len, N, PK2, SK); run("box_open_easy", op_box_open, len + 16, len, off, tmp);
                run("sign", op_sign, len, len + 64, off, msg); unsigned long long sl; crypto_sign(tmp, &sl, msg, len, SSK); run("sign_open", op_sign_open, len + 64, len, off, tmp); } } } }
    /* long messages (internal chunking, bulk paths): exact aliasing for every stream / AEAD form, a few distances for the box family */
    { static const size_t LB[] = { 16385, 65537, 1048593, 4096, 4097, 16384, 20000, 32768, 65536, 100000, 262163, 1048576 };
      static const long OB[] = { 0, -1, 1, -16, 16, -64, 64 };
      unsigned char *bmsg = malloc(1048700), *btmp = malloc(1048800); size_t nb = full ? 12 : 3;
      for (size_t li = 0; li < nb; li++) { size_t len = LB[li]; unsigned char *msg = bmsg, *tmp = btmp; vrng_bytes(&R, msg, len);
        run("stream_chacha20_xor", op_chacha20, len, len, 0, msg); run("stream_chacha20_ietf_xor", op_chacha20_ietf, len, len, 0, msg); run("stream_xchacha20_xor", op_xchacha20, len, len, 0, msg);
        run("stream_salsa20_xor", op_salsa20, len, len, 0, msg); run("stream_xsalsa20_xor", op_xsalsa20, len, len, 0, msg); run("stream_salsa2012_xor", op_salsa2012, len, len, 0, msg);
        AEBOTH(chacha, crypto_aead_chacha20poly1305, 16); AEBOTH(ietf, crypto_aead_chacha20poly1305_ietf, 16); AEBOTH(xchacha, crypto_aead_xchacha20poly1305_ietf, 16);
        AEBOTH(aegis128l, crypto_aead_aegis128l, 32); AEBOTH(aegis256, crypto_aead_aegis256, 32); if (crypto_aead_aes256gcm_is_available()) AEBOTH(gcm, crypto_aead_aes256gcm, 16);
        for (size_t oi = 0; oi < (full ? 7 : 3); oi++) { long off = OB[oi];
            run("secretbox_easy", op_sb_easy, len, len + 16, off, msg); run("secretbox_detached", op_sb_det, len, len, off, msg);
            crypto_secretbox_easy(tmp, msg, len, N, K); run("secretbox_open_easy", op_sb_open, len + 16, len, off, tmp);
            run("secretbox_xchacha_easy", op_sbx_easy, len, len + 16, off, msg); crypto_secretbox_xchacha20poly1305_easy(tmp, msg, len, N, K); run("secretbox_xchacha_open_easy", op_sbx_open, len + 16, len, off, tmp);
            if (oi == 0) { run("box_easy", op_box_easy, len, len + 16, off, msg); crypto_box_easy(tmp, msg, len, N, PK2, SK); run("box_open_easy", op_box_open, len + 16, len, off, tmp);
                run("sign", op_sign, len, len + 64, off, msg); unsigned long long sl; crypto_sign(tmp, &sl, msg, len, SSK); run("sign_open", op_sign_open, len + 64, len, off, tmp); } } }
      free(bmsg); free(btmp); }
    v_close(); return 0;
}
