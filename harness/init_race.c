/* Initialisation race driver (C19, C10): per trial a fresh process starts N threads that race through
 * sodium_init(); the verification hook (-DSODIUM_VERIF) reports every step taken under the init lock, each
 * stamped with a global sequence number; threads add their own call / return records. The merged,
 * linearised events are NDJSON for sys/TraceInit.tla.
 *   init_race <seed> <trials> <out.ndjson>                                                    */
#include "common.h"
#include <pthread.h>
#include <stdatomic.h>
#include <sched.h>

typedef void (*sodium_verif_hook_fn)(const char *, const char *, const char *);
extern sodium_verif_hook_fn _sodium_verif_hook;

#define MAXT 16
#define MAXE 64
typedef struct { int seq; char kind[8], a[16], b[16]; } hev;
static _Thread_local int tid;
static atomic_int gseq;
static hev tev[MAXT + 1][MAXE]; static int ntev[MAXT + 1];
static int tret[MAXT + 1], tseen[MAXT + 1], tuse[MAXT + 1];
static pthread_barrier_t bar; static int spins[MAXT + 1];
static unsigned char ref_hash[32];

static void hook(const char *kind, const char *a, const char *b) {
    int s = atomic_fetch_add(&gseq, 1) + 1;
    if (tid >= 1 && tid <= MAXT && ntev[tid] < MAXE) {
        hev *e = &tev[tid][ntev[tid]++]; e->seq = s;
        strncpy(e->kind, kind, 7); strncpy(e->a, a, 15); strncpy(e->b, b, 15);
    }
}
static void *worker(void *arg) {
    tid = (int) (intptr_t) arg;
    pthread_barrier_wait(&bar);
    for (volatile int i = 0; i < spins[tid]; i++) { if ((i & 1023) == 1023 && (spins[tid] & 1)) sched_yield(); }
    tret[tid] = sodium_init();
    tseen[tid] = atomic_load(&gseq);
    unsigned char h[32];                                   /* Use: relies on the picked implementations */
    crypto_generichash(h, 32, (const unsigned char *) "abc", 3, NULL, 0);
    tuse[tid] = memcmp(h, ref_hash, 32) == 0;
    return NULL;
}
static int has_flag(const char *flags, const char *f) {
    size_t n = strlen(f); const char *p = flags;
    while ((p = strstr(p, f)) != NULL) { if ((p == flags || p[-1] == ' ') && (p[n] == ' ' || p[n] == '\n' || p[n] == 0)) return 1; p += n; }
    return 0;
}
static void emit_config(FILE *w) {
    static char flags[8192]; flags[0] = 0;
    FILE *f = fopen("/proc/cpuinfo", "r"); char line[8192];
    while (f && fgets(line, sizeof line, f)) if (!strncmp(line, "flags", 5)) { strncpy(flags, line, sizeof flags - 1); break; }
    if (f) fclose(f);
    unsigned ecx = 0, edx = 0, ebx7 = 0, xc = 0; const char *s;
    if ((s = getenv("SODIUM_VERIF_CPUID1_ECX_CLEAR"))) ecx = (unsigned) strtoul(s, NULL, 0);
    if ((s = getenv("SODIUM_VERIF_CPUID1_EDX_CLEAR"))) edx = (unsigned) strtoul(s, NULL, 0);
    if ((s = getenv("SODIUM_VERIF_CPUID7_EBX_CLEAR"))) ebx7 = (unsigned) strtoul(s, NULL, 0);
    if ((s = getenv("SODIUM_VERIF_XCR0_CLEAR"))) xc = (unsigned) strtoul(s, NULL, 0);
    struct { const char *name, *flag; unsigned *mask; unsigned bit; } cb[] = {
        { "sse2", "sse2", &edx, 1u << 26 }, { "sse3", "pni", &ecx, 1u << 0 }, { "pclmul", "pclmulqdq", &ecx, 1u << 1 }, { "ssse3", "ssse3", &ecx, 1u << 9 },
        { "sse41", "sse4_1", &ecx, 1u << 19 }, { "aesni", "aes", &ecx, 1u << 25 }, { "xsave", "xsave", &ecx, 1u << 26 }, { "osxsave", "osxsave", &ecx, 1u << 27 },
        { "avx", "avx", &ecx, 1u << 28 }, { "rdrand", "rdrand", &ecx, 1u << 30 }, { "avx2", "avx2", &ebx7, 1u << 5 }, { "avx512f", "avx512f", &ebx7, 1u << 16 } };
    fprintf(w, "{\"e\":\"config\",\"cpu\":["); int first = 1;
    for (size_t i = 0; i < sizeof cb / sizeof cb[0]; i++) {
        int present = has_flag(flags, cb[i].flag) || (!strcmp(cb[i].name, "osxsave") && has_flag(flags, "xsave"));
        if (present && !(*cb[i].mask & cb[i].bit)) { fprintf(w, first ? "\"%s\"" : ",\"%s\"", cb[i].name); first = 0; }
    }
    fprintf(w, "],\"xcr0\":["); first = 1;
    struct { const char *name; unsigned bit; int present; } xb[] = { { "sse", 2, 1 }, { "avx", 4, has_flag(flags, "avx") }, { "opmask", 0x20, has_flag(flags, "avx512f") },
        { "zmm_hi256", 0x40, has_flag(flags, "avx512f") }, { "hi16_zmm", 0x80, has_flag(flags, "avx512f") } };
    for (size_t i = 0; i < 5; i++) if (xb[i].present && !(xc & xb[i].bit)) { fprintf(w, first ? "\"%s\"" : ",\"%s\"", xb[i].name); first = 0; }
    fprintf(w, "],\"build\":["); first = 1;
#define B(MACRO, NAME) fprintf(w, first ? "\"%s\"" : ",\"%s\"", NAME); first = 0;
#ifdef HAVE_EMMINTRIN_H
    B(HAVE_EMMINTRIN_H, "emmintrin")
#endif
#ifdef HAVE_PMMINTRIN_H
    B(x, "pmmintrin")
#endif
#ifdef HAVE_TMMINTRIN_H
    B(x, "tmmintrin")
#endif
#ifdef HAVE_SMMINTRIN_H
    B(x, "smmintrin")
#endif
#ifdef HAVE_AVXINTRIN_H
    B(x, "avxintrin")
#endif
#ifdef HAVE_AVX2INTRIN_H
    B(x, "avx2intrin")
#endif
#ifdef HAVE_AVX512FINTRIN_H
    B(x, "avx512fintrin")
#endif
#ifdef HAVE_WMMINTRIN_H
    B(x, "wmmintrin")
#endif
#ifdef HAVE_RDRAND
    B(x, "rdrand")
#endif
#ifdef HAVE_CPUID
    B(x, "cpuid")
#endif
#if defined(HAVE_AVX_ASM) || defined(HAVE__XGETBV)
    B(x, "xgetbv")
#endif
#ifdef HAVE_AMD64_ASM
    B(x, "amd64_asm")
#endif
#ifdef HAVE_AVX_ASM
    B(x, "avx_asm")
#endif
#ifdef HAVE_TI_MODE
    B(x, "ti_mode")
#endif
    fprintf(w, "],\"reported\":["); first = 1;
    struct { const char *n; int v; } rp[] = { { "sse2", sodium_runtime_has_sse2() }, { "sse3", sodium_runtime_has_sse3() }, { "ssse3", sodium_runtime_has_ssse3() },
        { "sse41", sodium_runtime_has_sse41() }, { "avx", sodium_runtime_has_avx() }, { "avx2", sodium_runtime_has_avx2() }, { "avx512f", sodium_runtime_has_avx512f() },
        { "pclmul", sodium_runtime_has_pclmul() }, { "aesni", sodium_runtime_has_aesni() }, { "rdrand", sodium_runtime_has_rdrand() } };
    for (size_t i = 0; i < sizeof rp / sizeof rp[0]; i++) if (rp[i].v) { fprintf(w, first ? "\"%s\"" : ",\"%s\"", rp[i].n); first = 0; }
    unsigned char k[32] = { 0 }, n12[12] = { 0 }, c[16]; unsigned long long cl = 0;
    int gcm_enc = crypto_aead_aes256gcm_is_available() ? crypto_aead_aes256gcm_encrypt(c, &cl, NULL, 0, NULL, 0, NULL, n12, k) : -2;
    int gcm_enc_unavail = -3; errno = 0;
    if (!crypto_aead_aes256gcm_is_available()) { gcm_enc_unavail = crypto_aead_aes256gcm_encrypt(c, &cl, NULL, 0, NULL, 0, NULL, n12, k); }
    fprintf(w, "],\"gcm_available\":%s,\"gcm_encrypt_ret\":%d,\"gcm_unavailable_ret\":%d,\"neon\":%d,\"armcrypto\":%d}\n",
            crypto_aead_aes256gcm_is_available() ? "true" : "false", gcm_enc, gcm_enc_unavail, sodium_runtime_has_neon(), sodium_runtime_has_armcrypto());
}

static void trial(int n, vrng *r, FILE *w) {
    pthread_t th[MAXT + 1];
    _sodium_verif_hook = hook; atomic_store(&gseq, 0);
    memset(ntev, 0, sizeof ntev);
    pthread_barrier_init(&bar, NULL, (unsigned) n);
    int mode = (int) vrng_below(r, 4);
    for (int t = 1; t <= n; t++) spins[t] = mode == 0 ? 0 : mode == 1 ? (int) vrng_below(r, 200) : mode == 2 ? (int) vrng_below(r, 20000) : (t == 1 ? 0 : (int) vrng_below(r, 3) * 30000);
    for (int t = 1; t <= n; t++) pthread_create(&th[t], NULL, worker, (void *) (intptr_t) t);
    for (int t = 1; t <= n; t++) pthread_join(th[t], NULL);
    /* linearise: lock-held events by sequence number; call(t) right before t's first event (or before its return
     * if it has none); return(t) after the event numbered tseen[t] (the number of events that had happened
     * when sodium_init returned to t) */
    int total = atomic_load(&gseq);
    fprintf(w, "{\"e\":\"reset\",\"n\":%d}\n", n);
    emit_config(w);          /* what this process detected (known once initialisation is over; printed first) */
    int called[MAXT + 1] = { 0 }, returned[MAXT + 1] = { 0 };
    for (int s = 0; s <= total; s++) {
        if (s > 0) {
            for (int t = 1; t <= n; t++) for (int i = 0; i < ntev[t]; i++) if (tev[t][i].seq == s) {
                if (!called[t]) { fprintf(w, "{\"e\":\"call\",\"t\":%d}\n", t); called[t] = 1; }
                if (!strcmp(tev[t][i].kind, "pick")) fprintf(w, "{\"e\":\"pick\",\"t\":%d,\"prim\":\"%s\",\"impl\":\"%s\"}\n", t, tev[t][i].a, tev[t][i].b);
                else fprintf(w, "{\"e\":\"%s\",\"t\":%d}\n", tev[t][i].a, t);
            }
        }
        for (int t = 1; t <= n; t++) if (!returned[t] && tseen[t] == s) {
            if (!called[t]) { fprintf(w, "{\"e\":\"call\",\"t\":%d}\n", t); called[t] = 1; }
            fprintf(w, "{\"e\":\"return\",\"t\":%d,\"ret\":%d,\"use_ok\":%s}\n", t, tret[t], tuse[t] ? "true" : "false"); returned[t] = 1;
        }
    }
}

int main(int argc, char **argv) {
    if (argc < 4) return 3;
    uint64_t seed = strtoull(argv[1], NULL, 10); int trials = atoi(argv[2]);
    FILE *out = fopen(argv[3], "w"); if (!out) return 3;
    static const unsigned char abc[32] = { 0xbd, 0xdd, 0x81, 0x3c, 0x63, 0x42, 0x39, 0x72, 0x31, 0x71, 0xef, 0x3f, 0xee, 0x98, 0x57, 0x9b, 0x94, 0x96, 0x4e, 0x3b, 0xb1, 0xcb, 0x3e, 0x42, 0x72, 0x62, 0xc8, 0xc0, 0x68, 0xd5, 0x23, 0x19 };
    memcpy(ref_hash, abc, 32);                           /* BLAKE2b-256("abc") */
    vrng r; vrng_seed(&r, seed, 19);
    static const int ns[] = { 2, 3, 4, 8, 16, 2, 4, 8 };
    for (int i = 0; i < trials; i++) {
        int n = ns[i % 8]; uint64_t s2 = vrng_u64(&r);
        int pfd[2]; if (pipe(pfd)) return 3;
        fflush(out);
        pid_t pid = fork();
        if (pid == 0) { close(pfd[0]); FILE *w = fdopen(pfd[1], "w"); vrng r2; vrng_seed(&r2, s2, 1); trial(n, &r2, w); fflush(w); _exit(0); }
        close(pfd[1]); FILE *rd = fdopen(pfd[0], "r"); char buf[8192];
        while (fgets(buf, sizeof buf, rd)) fputs(buf, out);
        fclose(rd); int st = 0; waitpid(pid, &st, 0);
        if (!WIFEXITED(st) || WEXITSTATUS(st) != 0) fprintf(out, "{\"e\":\"crash\",\"signal\":%d}\n", WIFSIGNALED(st) ? WTERMSIG(st) : -1);
    }
    fclose(out);
    return 0;
}
