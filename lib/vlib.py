"""Common machinery for the /verif check driver: scratch handling, library builds, harness
compilation, TLC invocation (model checking, simulation, trace validation, oracle evaluation),
known-findings handling and evidence writing.

Exit codes of a check: 0 = property held on everything explored, 1 = violation (a line
"VIOLATION property=<id> replay=<path>" is printed), 2 = the machinery itself failed (never a claim
about the code)."""
import hashlib
import json
import os
import re
import shutil
import subprocess
import sys
import time
from concurrent.futures import ThreadPoolExecutor

VERIF = os.path.dirname(os.path.dirname(os.path.abspath(__file__)))
REPO = os.environ.get("VERIF_REPO", "/repo")
SPEC = os.path.join(VERIF, "spec")
TLA_JARS = "/opt/veriftools/tla/tla2tools.jar:/opt/veriftools/tla/CommunityModules-deps.jar"
TLA_LIBRARY = ":".join(os.path.join(SPEC, d) for d in ("lib", "sys", "trace", "anchors"))
NCPU = os.cpu_count() or 4


class MachineryError(Exception):
    pass


class Hang(Exception):
    """raised after a non-terminating driver has been recorded as a violation; the check stops and reports"""
    pass


class TlcResult:
    def __init__(self, rc, out, wall):
        self.rc = rc
        self.out = out
        self.wall = wall
        self.generated = 0
        self.distinct = 0
        m = None
        for m in re.finditer(r"(\d+) states generated, (\d+) distinct states found", out):
            pass
        if m:
            self.generated = int(m.group(1))
            self.distinct = int(m.group(2))
        m = re.search(r"The depth of the complete state graph search is (\d+)", out)
        self.depth = int(m.group(1)) if m else 0
        self.coverage = {}
        # "<Action line 10, col 1 to line 12, col 20 of module M>: 12:34" lines printed by -coverage
        for m in re.finditer(r"^<(\w+) line \d+, col \d+ to line \d+, col \d+ of module (\w+)>: (\d+):(\d+)",
                             out, re.M):
            k = m.group(2) + "!" + m.group(1)
            self.coverage[k] = [int(m.group(3)), int(m.group(4))]

    @property
    def ok(self):
        return self.rc == 0

    @property
    def violated(self):
        # 12 safety, 13 liveness, 10 assumption, 11 deadlock
        return self.rc in (10, 11, 12, 13)

    def tail(self, n=40):
        return "\n".join(self.out.splitlines()[-n:])


class Run:
    def __init__(self, pid, tier, seed, level):
        self.pid = pid
        self.tier = tier
        self.seed = seed
        self.level = level
        self.t0 = time.time()
        base = os.environ.get("VERIF_SCRATCH", "/var/tmp")
        self.scratch = os.path.join(base, "verif-%s-%d" % (pid, os.getpid()))
        shutil.rmtree(self.scratch, ignore_errors=True)
        os.makedirs(self.scratch)
        self.builds = {}
        self.violations = []      # (what, replay_path)
        self.known = []           # messages
        self.cov = {}
        self.samples = []
        self.assumptions = []
        self.notes = []
        self.replay_dir = os.path.join(os.environ.get("VERIF_REPLAY_DIR", os.path.join(VERIF, "replays")), pid)
        os.makedirs(self.replay_dir, exist_ok=True)
        self.findings = load_findings()

    # ------------------------------------------------------------------ scratch / cleanup
    def cleanup(self):
        if os.environ.get("VERIF_KEEP") != "1":
            shutil.rmtree(self.scratch, ignore_errors=True)

    def path(self, *p):
        d = os.path.join(self.scratch, *p)
        os.makedirs(os.path.dirname(d), exist_ok=True)
        return d

    # ------------------------------------------------------------------ builds
    def build(self, variant):
        if variant in self.builds:
            return self.builds[variant]
        out = os.path.join(self.scratch, "lib-" + variant)
        r = subprocess.run([os.path.join(VERIF, "build", "build_variant.sh"), variant, out, REPO],
                           capture_output=True, text=True)
        if r.returncode != 0 or not os.path.exists(os.path.join(out, "libsodium.a")):
            raise MachineryError("library build failed for variant %s:\n%s\n%s" % (variant, r.stdout[-3000:], r.stderr[-3000:]))
        self.builds[variant] = out
        return out

    def build_all(self, variants):
        with ThreadPoolExecutor(max_workers=4) as ex:
            list(ex.map(self.build, variants))

    def cc(self, name, sources, variant="native", extra=(), libs=()):
        """compile a harness program against the given library variant"""
        libdir = self.build(variant)
        exe = os.path.join(self.scratch, "%s-%s" % (name, variant))
        cc = "gcc"
        flags = ["-O1", "-g", "-pthread", "-DSODIUM_STATIC=1", "-DSODIUM_VERIF=1",
                 "-I" + os.path.join(REPO, "src/libsodium/include"),
                 "-I" + os.path.join(REPO, "src/libsodium/include/sodium"),
                 "-I" + os.path.join(VERIF, "harness")]
        if variant == "asan":
            cc = "clang"
            flags += ["-fsanitize=address,undefined", "-fno-sanitize=alignment,nonnull-attribute,returns-nonnull-attribute", "-fno-sanitize-recover=undefined", "-fno-omit-frame-pointer"]
        elif variant == "tsan":
            cc = "clang"
            flags += ["-fsanitize=thread"]
        defs = open(os.path.join(libdir, "defs.txt")).read().split()
        keep = [d for d in defs if re.match(r"-D(HAVE_|NATIVE_)", d)]
        srcs = [s if os.path.isabs(s) else os.path.join(VERIF, "harness", s) for s in sources]
        cmd = [cc] + flags + keep + list(extra) + srcs + [os.path.join(libdir, "libsodium.a")] + list(libs) + ["-o", exe]
        r = subprocess.run(cmd, capture_output=True, text=True)
        if r.returncode != 0:
            raise MachineryError("harness build failed (%s, %s):\n%s" % (name, variant, r.stderr[-4000:]))
        return exe

    # ------------------------------------------------------------------ TLC
    def tlc(self, module, cfg=None, *, workers=1, timeout=600, env=None, simulate=None, depth=None,
            coverage=False, heap="4g", deque=False, extra=(), cwd=None, dump=None, tag=None):
        """Run TLC on spec module (path to .tla). Returns TlcResult. A timeout or a parse error raises
        MachineryError."""
        module = module if os.path.isabs(module) else os.path.join(SPEC, module)
        mdir = os.path.dirname(module)
        mname = os.path.splitext(os.path.basename(module))[0]
        cfg = cfg or (mname + ".cfg")
        cfg = cfg if os.path.isabs(cfg) else os.path.join(mdir, cfg)
        tag = tag or (mname + "-" + os.path.splitext(os.path.basename(cfg))[0])
        meta = self.path("tlc", tag + "-%d" % (time.time_ns() % 10**9))
        os.makedirs(meta, exist_ok=True)
        jopts = ["-XX:+UseParallelGC", "-Xmx" + heap, "-Xss16m", "-DTLA-Library=" + TLA_LIBRARY, "-Djava.io.tmpdir=" + meta]
        if deque:
            jopts.append("-Dtlc2.tool.queue.IStateQueue=StateDeque")
        cmd = ["java"] + jopts + ["-cp", TLA_JARS, "tlc2.TLC", "-metadir", meta, "-workers", str(workers),
                                  "-config", cfg, "-seed", str(self.seed), "-noGenerateSpecTE"]
        if simulate is not None:
            cmd += ["-simulate", "num=%d" % simulate]
            if depth:
                cmd += ["-depth", str(depth)]
        if coverage:
            cmd += ["-coverage", "1"]
        if dump:
            cmd += ["-dump", "dot,actionlabels", dump]
        cmd += list(extra) + [module]
        e = dict(os.environ)
        e.pop("JAVA_TOOL_OPTIONS", None)
        if env:
            e.update({k: str(v) for k, v in env.items()})
        t0 = time.time()
        try:
            r = subprocess.run(cmd, capture_output=True, text=True, timeout=timeout, env=e, cwd=cwd or meta)
        except subprocess.TimeoutExpired:
            raise MachineryError("TLC timed out after %ds on %s / %s" % (timeout, mname, cfg))
        finally:
            shutil.rmtree(meta, ignore_errors=True)
        res = TlcResult(r.returncode, r.stdout + r.stderr, time.time() - t0)
        if not res.ok and not res.violated:
            raise MachineryError("TLC failed (rc=%d) on %s / %s:\n%s" % (r.returncode, mname, cfg, res.tail(60)))
        return res

    def apalache(self, module, inv, *, cinit=None, length=0, timeout=300):
        """Symbolic check (Apalache, SMT) of invariant `inv` of a typed module for all values of its
        unbounded variables, up to `length` steps.  Returns (holds, output, counterexample text).  A
        timeout or any outcome other than NoError / a counterexample raises MachineryError."""
        module = module if os.path.isabs(module) else os.path.join(SPEC, module)
        mname = os.path.splitext(os.path.basename(module))[0]
        out = self.path("apalache", "%s-%s-%d" % (mname, inv, time.time_ns() % 10**9))
        os.makedirs(out, exist_ok=True)
        cmd = ["apalache-mc", "check", "--inv=" + inv, "--length=%d" % length, "--out-dir=" + out, "--run-dir=" + os.path.join(out, "run")]
        if cinit:
            cmd.append("--cinit=" + cinit)
        cmd.append(module)
        e = dict(os.environ)
        e.pop("JAVA_TOOL_OPTIONS", None)
        e["JVM_ARGS"] = "-Xmx4g -Djava.io.tmpdir=" + out
        try:
            r = subprocess.run(cmd, capture_output=True, text=True, timeout=timeout, env=e, cwd=out)
        except subprocess.TimeoutExpired:
            shutil.rmtree(out, ignore_errors=True)
            raise MachineryError("Apalache timed out after %ds on %s / %s" % (timeout, mname, inv))
        text = r.stdout + r.stderr
        cex = ""
        try:
            if "The outcome is: NoError" in text and r.returncode == 0:
                return True, text, cex
            if "The outcome is: Error" in text and r.returncode == 12:
                vf = os.path.join(out, "run", "violation1.tla")
                cex = open(vf).read() if os.path.exists(vf) else ""
                return False, text, cex
            raise MachineryError("Apalache failed (rc=%d) on %s / %s:\n%s" % (r.returncode, mname, inv, text[-3000:]))
        finally:
            shutil.rmtree(out, ignore_errors=True)

    def tlc_shards(self, module, cfg, shard_envs, *, timeout=900, heap="3g", par=None, deque=False):
        """run one TLC (-workers 1) per environment in parallel; returns list of TlcResult"""
        par = par or min(NCPU, len(shard_envs))
        with ThreadPoolExecutor(max_workers=par) as ex:
            futs = [ex.submit(self.tlc, module, cfg, workers=1, timeout=timeout, env=env, heap=heap,
                              deque=deque, tag="shard%d" % i)
                    for i, env in enumerate(shard_envs)]
            return [f.result() for f in futs]

    def oracle(self, module, files, *, timeout=1800, heap="3g", extra_env=None, want_known=False):
        """Direction B for pure functions: every NDJSON record of every file is judged by the TLC-evaluated
        oracle module (which prints <<"ORACLE", n, "[bad indices]">>). Returns (records judged, bad records)."""
        for f in files:                       # a crash of the driver is an event no specification allows
            lines = open(f).read().splitlines()
            crashes = [l for l in lines if l.startswith('{"e":"crash"')]
            if crashes:
                keep = [l for l in lines if not l.startswith('{"e":"crash"')]
                open(f, "w").write("\n".join(keep) + ("\n" if keep else ""))
                self.violation("the library crashed (%s) in the call following record %d of %s; last completed call: %s"
                               % (crashes[0], len(keep), os.path.basename(f), (keep[-1] if keep else "-")[:300]),
                               {"crash": crashes[0], "file": os.path.basename(f), "last_records": keep[-3:]}, name="crash")
        files = [f for f in files if os.path.getsize(f) > 0]
        envs = [dict(extra_env or {}, TRACE=f) for f in files]
        res = self.tlc_shards(module, "Empty.cfg", envs, timeout=timeout, heap=heap)
        total, bad, known = 0, [], []
        for f, r in zip(files, res):
            m = re.search(r'"ORACLE",\s*(\d+),\s*"(\[.*?\])"', r.out, re.S)
            if not m or not r.ok:
                raise MachineryError("oracle %s produced no result for %s:\n%s" % (module, f, r.tail(30)))
            total += int(m.group(1))
            idx = json.loads(m.group(2))
            k = re.search(r'"KNOWN",\s*"(\[.*?\])"', r.out, re.S)
            kidx = json.loads(k.group(1)) if k else []
            k2 = re.search(r'"KNOWN2",\s*"(\[.*?\])"', r.out, re.S)
            k2idx = set(json.loads(k2.group(1))) if k2 else set()
            if idx or kidx:
                lines = open(f).read().splitlines()
                bad += [dict(json.loads(lines[i - 1]), **({"_known2": True} if i in k2idx else {})) for i in idx]
                known += [json.loads(lines[i - 1]) for i in kidx]
        if want_known:
            return total, bad, known
        return total, bad

    def split_file(self, path, n, tag):
        """split an NDJSON file round-robin into n shard files"""
        lines = open(path).read().splitlines()
        out = []
        for i, sh in enumerate(shard(lines, n)):
            p = self.path("shards", "%s-%d.ndjson" % (tag, i))
            open(p, "w").write("\n".join(sh) + "\n")
            out.append(p)
        return out

    # ------------------------------------------------------------------ running harness programs
    def run(self, cmd, *, env=None, timeout=600, ok_codes=(0,), stdin=None, cwd=None):
        e = dict(os.environ)
        if env:
            e.update({k: str(v) for k, v in env.items()})
        timeout = max(5, int(timeout * float(os.environ.get("VERIF_TIMEOUT_SCALE", "1"))))
        r = None
        for attempt, tmo in enumerate((timeout, 2 * timeout)):
            try:
                r = subprocess.run(cmd, capture_output=True, text=True, timeout=tmo, env=e, input=stdin,
                                   cwd=cwd or self.scratch)
                break
            except subprocess.TimeoutExpired:
                continue
        if r is None:
            # the driver runs the library on in-contract inputs, for which every specification here says the call returns;
            # a driver that does not finish twice (the second time with twice the time) is reported as a violation, not
            # as a machinery failure: a change that breaks progress must not be able to hide behind a hang
            self.violation("a call into the library did not return: the driver '%s' did not finish within %d s and, re-run, within %d s"
                           % (" ".join(os.path.basename(str(c)) for c in cmd[:4]), timeout, 2 * timeout),
                           {"cmd": [str(c) for c in cmd], "env": {k: str(v) for k, v in (env or {}).items()}}, name="hang")
            raise Hang()
        if ok_codes is not None and r.returncode not in ok_codes:
            raise MachineryError("harness failed rc=%d: %s\n%s\n%s" % (r.returncode, " ".join(map(str, cmd)),
                                                                       r.stdout[-2000:], r.stderr[-4000:]))
        return r

    # ------------------------------------------------------------------ results
    def violation(self, what, payload, name=None):
        """record a violation; payload (str / dict / list) is written to a replay file.
        A violation that matches an entry of known_findings.json (status known) is reported as
        KNOWN-FINDING and does not fail the check."""
        for f in self.findings:
            if f.get("status") == "known" and f.get("property") == self.pid and re.search(f["match"], what):
                msg = "KNOWN-FINDING: property=%s %s" % (self.pid, f["what"])
                if msg not in self.known:
                    self.known.append(msg)
                return False
        n = len(self.violations)
        path = os.path.join(self.replay_dir, "%s-%s-%d.json" % (name or "violation", self.tier, n))
        with open(path, "w") as fh:
            if isinstance(payload, str):
                fh.write(payload)
            else:
                json.dump({"property": self.pid, "what": what, "case": payload}, fh, indent=1)
        self.violations.append((what, path))
        return True

    def sample(self, s):
        if len(self.samples) < 6:
            self.samples.append(s)

    def sample_line(self, path, idx=0, drop=()):
        """safe sampling of one NDJSON record (a driver that crashed early may have produced fewer lines)"""
        try:
            lines = open(path).read().splitlines()
            x = json.loads(lines[min(idx, len(lines) - 1)])
            self.sample({k: v for k, v in x.items() if k not in drop})
        except Exception:
            pass

    def add(self, key, n=1):
        self.cov[key] = self.cov.get(key, 0) + n

    def finish(self):
        wall = time.time() - self.t0
        cov = dict(self.cov)
        cov["samples"] = self.samples[:6] if self.samples else ["(none)"]
        if self.notes:
            cov["notes"] = self.notes
        ev = {"property_id": self.pid, "tier": self.tier, "seed": self.seed, "level": self.level,
              "coverage": cov, "assumptions": self.assumptions, "wall_s": round(wall, 2),
              "violations": len(self.violations)}
        if self.known:
            ev["coverage"]["known_findings_reported"] = self.known
        evdir = os.environ.get("VERIF_EVIDENCE_DIR", os.path.join(VERIF, "evidence"))
        os.makedirs(evdir, exist_ok=True)
        with open(os.path.join(evdir, self.pid + ".json"), "w") as fh:
            json.dump(ev, fh, indent=1, sort_keys=True)
            fh.write("\n")
        for k in self.known:
            print(k)
        for what, path in self.violations[:20]:
            print("VIOLATION property=%s replay=%s" % (self.pid, path))
            print("  " + what)
        self.cleanup()
        print("%s %s: %s in %.1fs" % (self.pid, self.tier, "VIOLATED" if self.violations else "held", wall))
        return 1 if self.violations else 0


def load_findings():
    p = os.path.join(VERIF, "known_findings.json")
    if not os.path.exists(p):
        return []
    return json.load(open(p)).get("findings", [])


# ---------------------------------------------------------------------- helpers
def sha(s):
    return hashlib.sha256(s if isinstance(s, bytes) else s.encode()).hexdigest()


def read_ndjson(path):
    out = []
    with open(path) as fh:
        for line in fh:
            line = line.strip()
            if line:
                out.append(json.loads(line))
    return out


def write_ndjson(path, recs):
    with open(path, "w") as fh:
        for r in recs:
            fh.write(json.dumps(r, separators=(",", ":")) + "\n")


def shard(recs, n):
    n = max(1, min(n, len(recs)))
    out = [[] for _ in range(n)]
    for i, r in enumerate(recs):
        out[i % n].append(r)
    return out
