#!/bin/bash
# run_all.sh [parallel]: run every mutant of selftest/mutants and every seeded change against the check of its property
# (quick tier) and write selftest/RESULTS.md. Never touches /repo (run_mutant.sh works on a scratch copy).
cd "$(dirname "$0")/.."
par=${1:-3}
out=selftest/results.tsv; : > $out
job() {
  f=$1; b=$(basename "$f" .diff); id=${b%%_*}
  case "$f" in seeded/*) id=$(basename "$(dirname "$f")"); id=${id%%-*}; b="seed:$(basename "$(dirname "$f")")"
      w=$(python3 -c "import json,sys; print(json.load(open(sys.argv[1])).get('detect_with',''))" "$(dirname "$f")/meta.json" 2>/dev/null); [ -n "$w" ] && id=$w
      tier=$(python3 -c "import json,sys; print(json.load(open(sys.argv[1])).get('detect_tier','quick'))" "$(dirname "$f")/meta.json" 2>/dev/null);; esac   # a seed whose defect belongs to another property's check
  t0=$(date +%s); r=$(./selftest/run_mutant.sh "$f" "$id" ${tier:-quick} 2>&1); rc=$?; t1=$(date +%s)
  v=$(echo "$r" | grep -c "^VIOLATION"); k=$(echo "$r" | grep -c "^KNOWN-FINDING")
  first=$(echo "$r" | grep -A1 -m1 "^VIOLATION" | tail -1 | cut -c1-160 | tr '\t|' '  ')
  [ "${tier:-quick}" != quick ] && b="$b ($tier tier)"
  printf '%s\t%s\t%s\t%s\t%s\t%s\n' "$b" "$id" "$rc" "$v" "$((t1-t0))" "$first" >> selftest/results.tsv
}
export -f job
( ls selftest/mutants/*.diff; ls seeded/C*/patch.diff ) | xargs -P "$par" -I{} bash -c 'job {}'
python3 - <<'P'
rows=[l.rstrip("\n").split("\t") for l in open("selftest/results.tsv")]
rows.sort()
with open("selftest/RESULTS.md","w") as f:
    f.write("# Binding demonstration: every stored mutant / seeded change against its property's quick check\n\n")
    f.write("`rc` 1 = VIOLATION reported (detected), 0 = not detected, 2 = machinery failure, 3 = patch did not apply.\n\n| change | property | rc | violations | seconds | first report |\n|---|---|---|---|---|---|\n")
    for r in rows: f.write("| %s |\n" % " | ".join(r))
    det=sum(1 for r in rows if r[2]=="1"); f.write("\n%d of %d detected.\n" % (det,len(rows)))
print(open("selftest/RESULTS.md").read()[-200:])
P
