#!/usr/bin/env python3
"""mk_mutant.py <name> <file relative to /repo> <<< JSON list of [old, new] replacements (each old must occur exactly once,
or use [old, new, count]). Writes selftest/mutants/<name>.diff (a -p1 patch against /repo)."""
import difflib, json, os, sys
name, rel = sys.argv[1], sys.argv[2]
src = open(os.path.join("/repo", rel)).read()
new = src
for rep in json.load(sys.stdin):
    old, nw = rep[0], rep[1]
    cnt = rep[2] if len(rep) > 2 else 1
    assert new.count(old) >= 1, ("not found", old)
    if len(rep) <= 2:
        assert new.count(old) == 1, ("ambiguous", old, new.count(old))
    new = new.replace(old, nw, cnt)
d = "".join(difflib.unified_diff(src.splitlines(True), new.splitlines(True), "a/" + rel, "b/" + rel))
out = os.path.join(os.path.dirname(os.path.abspath(__file__)), "mutants", name + ".diff")
open(out, "w").write(d)
print(out, len(d.splitlines()), "lines")
