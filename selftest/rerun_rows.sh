#!/bin/bash
# rerun_rows.sh <patch> ...: re-run single rows of selftest/results.tsv (after a check was strengthened or a run was disturbed) and rebuild RESULTS.md
cd "$(dirname "$0")/.."
src=$(sed -n '/^job() {/,/^}/p' selftest/run_all.sh); eval "$src"
for f in "$@"; do
  b=$(basename "$f" .diff); case "$f" in seeded/*) b="seed:$(basename "$(dirname "$f")")";; esac
  grep -v "^$b	" selftest/results.tsv | grep -v "^$b (" > selftest/results.tsv.tmp; mv selftest/results.tsv.tmp selftest/results.tsv
  job "$f"
done
sed -n '/^python3 - <<.P.$/,/^P$/p' selftest/run_all.sh | sed '1d;$d' | python3 -
