#!/bin/bash
# verify_seed.sh <ID> <worktree> [name]: confirm a sub-agent's seeded change ourselves in its scratch worktree
# (applies, builds, make check still passes, demo fails with / passes without), then copy it to /verif/seeded/<name>.
set -u
id=$1; wt=$2; name=${3:-$id}
cd "$wt" || exit 3
git checkout -q -- src 2>/dev/null
git apply --check _seed/patch.diff || { echo "patch does not apply"; exit 3; }
build_demo() { gcc -O1 -pthread -I src/libsodium/include -I src/libsodium/include/sodium _seed/demo.c src/libsodium/.libs/libsodium.a -o _seed/demo.bin 2>/dev/null || gcc -O1 -pthread -I src/libsodium/include _seed/demo.c src/libsodium/.libs/libsodium.a -lpthread -o _seed/demo.bin; }
make -j16 >/dev/null 2>&1; build_demo; timeout ${DEMO_TIMEOUT:-600} _seed/demo.bin >/dev/null 2>&1; base=$?
git apply _seed/patch.diff
make -j16 >/dev/null 2>&1 || { echo "does not compile with the change"; git checkout -q -- src; exit 3; }
make -j16 check > _seed/make_check.log 2>&1
pass=$(grep -E "^# PASS:" _seed/make_check.log | tail -1 | awk '{print $3}'); fail=$(grep -E "^# FAIL:" _seed/make_check.log | tail -1 | awk '{print $3}')
build_demo; timeout ${DEMO_TIMEOUT:-600} _seed/demo.bin > _seed/demo_with_change.out 2>&1; with=$?
git checkout -q -- src; make -j16 >/dev/null 2>&1
echo "seed $name: demo exit without change=$base, with change=$with; make check with change: pass=$pass fail=$fail"
d=/verif/seeded/$name; mkdir -p "$d"; cp _seed/patch.diff _seed/demo.c "$d/"; cp _seed/notes.txt "$d/agent_notes.txt" 2>/dev/null
echo "{\"verified\": {\"demo_exit_without_change\": $base, \"demo_exit_with_change\": $with, \"make_check_pass_with_change\": ${pass:-0}, \"make_check_fail_with_change\": ${fail:-0}}}" > "$d/verify.json"
