#!/bin/bash
# run_thorough.sh [ids...]: run the thorough tier of every check (or the given ones) on /repo's working tree, one after the
# other, and record exit code and wall time in selftest/THOROUGH.md (evidence goes to a scratch dir, not evidence/).
cd "$(dirname "$0")/.."
ids=${@:-C01 C02 C03 C04 C05 C06 C07 C08 C09 C10 C11 C12 C13 C14 C15 C16 C17 C18 C19 C20}
ev=$(mktemp -d /var/tmp/verif-thorough.XXXXXX)
out=selftest/thorough.tsv
for id in $ids; do
  t0=$(date +%s)
  VERIF_EVIDENCE_DIR=$ev VERIF_REPLAY_DIR=$ev/replays timeout 7200 ./check $id --tier thorough > $ev/$id.log 2>&1; rc=$?
  t1=$(date +%s)
  grep -v "^$id	" $out > $out.tmp 2>/dev/null; mv $out.tmp $out 2>/dev/null
  printf '%s\t%s\t%s\t%s\n' "$id" "$rc" "$((t1-t0))" "$(grep -E "^(VIOLATION|MACHINERY)" $ev/$id.log | head -2 | tr '\n\t' '  ' | cut -c1-300)" >> $out
done
sort $out -o $out
{ echo "# Thorough tier on the unchanged tree (exit code, seconds)"; echo; echo "| check | rc | seconds | note |"; echo "|---|---|---|---|"; awk -F'\t' '{print "| "$1" | "$2" | "$3" | "$4" |"}' $out; } > selftest/THOROUGH.md
rm -rf $ev
