#!/bin/bash
# run_seeds.sh <seed>...: run the quick tier of every check under other VERIF_SEED values (robustness of the sampling
# parts against the seed) and record exit codes in selftest/seeds.tsv. Evidence goes to a scratch directory.
cd "$(dirname "$0")/.."
ev=$(mktemp -d /var/tmp/verif-seeds.XXXXXX)
for s in "$@"; do
  for id in C01 C02 C03 C04 C05 C06 C07 C08 C09 C10 C11 C12 C13 C14 C15 C16 C17 C18 C19 C20; do
    t0=$(date +%s)
    VERIF_SEED=$s VERIF_EVIDENCE_DIR=$ev VERIF_REPLAY_DIR=$ev/replays timeout 3600 ./check $id --tier quick > $ev/$id.log 2>&1; rc=$?
    printf '%s\t%s\t%s\t%s\t%s\n' "$s" "$id" "$rc" "$(( $(date +%s) - t0 ))" "$(grep -E "^(VIOLATION|MACHINERY)" -A1 $ev/$id.log | head -3 | tr '\n\t' '  ' | cut -c1-400)" >> selftest/seeds.tsv
  done
done
rm -rf $ev
