#!/bin/bash
# run_mutant.sh <patch.diff> <ID> [tier]  - apply a patch to a scratch copy of /repo's sources, run the
# check against it (VERIF_REPO), print its verdict, remove the copy. Never touches /repo.
set -u
patch=$(readlink -f "$1"); id=$2; tier=${3:-quick}
d=$(mktemp -d /var/tmp/verif-mut.XXXXXX)
rsync -a --exclude '*.o' --exclude '*.lo' --exclude '.libs' --exclude '*.la' --exclude '.deps' /repo/src "$d/"
( cd "$d" && patch -p1 -s < "$patch" ) || { echo "PATCH-FAILED"; rm -rf "$d"; exit 3; }
VERIF_REPO="$d" VERIF_EVIDENCE_DIR="$d/evidence" VERIF_REPLAY_DIR="$d/replays" VERIF_SCRATCH=/var/tmp "$(dirname "$0")/../check" "$id" --tier "$tier" > "$d/out.txt" 2>&1
rc=$?
grep -E "^(VIOLATION|KNOWN-FINDING|MACHINERY|C[0-9]+ )" "$d/out.txt" | head -8
echo "rc=$rc"
rm -rf "$d"
exit $rc
