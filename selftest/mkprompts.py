import json,subprocess,glob,sys
props={json.loads(l)['id']:json.loads(l) for l in open('/verif/properties.jsonl')}
adv=(" Assume the property is being checked by a thorough machine: the library is compared against an independent implementation of the specification on random inputs, "
     "every length 0..300 and around every block boundary up to 4 KiB, structured boundary values (all-zero, all-ones, values around moduli and block sizes, non-canonical "
     "encodings, counters around 2^32), every call form (combined, detached, in-place, precomputed, multi-part with random splits, verify-only with NULL output), every CPU-feature "
     "subset and a portable build, with guard pages, canaries, sanitizers, a taint tracker and a thread sanitizer; it also tries sizes whose upper 32 bits matter "
     "(4 GiB+ inputs via sparse mappings), 1 MiB inputs, results that are special in all but one byte, differences that cancel under XOR, every character class "
     "of every parsed field, out-of-range decimals, overlapping ignore sets, overlap distances up to 640 bytes, generator life-cycle calls (close/stir), several "
     "signal states, several errno values of injected failures, millions of random operand pairs compared across backends, hooks that report internal loop "
     "positions, curve results just below the field prime with every limb pattern, MAC keys whose precomputed powers sit at limb boundaries, forged signatures "
     "built consistently around altered commitments or with S + k*L for every k, stream counters just before every byte carry, in-place calls on messages up to 1 MiB, "
     "every optional (NULL-able) output pointer form, single calls producing more than 2^38 bytes, password hashing over more than 4 GiB in every backend, "
     "hash strings produced by other implementations (long salts/tags), allocation-size products that wrap to mappable sizes, documented macros expanded with compound expressions, memory locking and getrandom denied by the "
     "sandbox (also under threads), thousands of consecutive rejected random draws, and block sizes of several pages for padding. Choose a trigger that such a checker is UNLIKELY to generate: a rare "
     "conjunction of conditions, a very large or unusual parameter value, a rarely used entry point, option or state, a long-running or cumulative condition.")
for k in sys.argv[1:]:
    prevs=[json.load(open(f))['needs_to_manifest'] for f in sorted(glob.glob(f'/verif/seeded/{k}-*/meta.json'))]
    open(f'/tmp/prop_{k}.txt','w').write(json.dumps({x:props[k][x] for x in ('id','title','statement','quantifier','why_tests_cant')},indent=1))
    h2="something specific and rare."+adv+" IMPORTANT: earlier changes already used these ideas, so pick something clearly different: "+" ; ".join("[%s]"%p for p in prevs)
    out=subprocess.run(['python3','/verif/selftest/agent_prompt.py',k,h2],capture_output=True,text=True).stdout
    open(f'/tmp/prompt_{k}.txt','w').write(out)
    subprocess.run(['git','-C','/repo','worktree','add','-q','--detach',f'/tmp/wt_{k}','HEAD'])
