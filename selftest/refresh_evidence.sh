#!/bin/bash
# refresh_evidence.sh: run the quick tier of every check on /repo's working tree (rewrites evidence/<id>.json), validate the evidence
# files and MANIFEST.json against their schemas, and print one line per check.
cd "$(dirname "$0")/.."
rc_all=0
for id in C01 C02 C03 C04 C05 C06 C07 C08 C09 C10 C11 C12 C13 C14 C15 C16 C17 C18 C19 C20; do
  t0=$(date +%s); out=$(./check $id --tier quick 2>&1); rc=$?; t1=$(date +%s)
  echo "$id rc=$rc $((t1-t0))s $(echo "$out" | grep -c '^VIOLATION') violations, $(echo "$out" | grep -c '^KNOWN-FINDING') known findings"
  [ $rc -ne 0 ] && { rc_all=1; echo "$out" | tail -5; }
done
python3-vt - <<'P'
import json, jsonschema, glob
s = json.load(open('/root/.vp/EVIDENCE.schema.json'))
for f in sorted(glob.glob('/verif/evidence/C*.json')):
    jsonschema.validate(json.load(open(f)), s)
jsonschema.validate(json.load(open('/verif/MANIFEST.json')), json.load(open('/root/.vp/MANIFEST.schema.json')))
print("schemas ok")
P
exit $rc_all
