import sys
pid, hint = sys.argv[1], sys.argv[2]
print(f"""You are helping test a verification framework for the C library libsodium. Your job: produce ONE realistic source change to libsodium that BREAKS the semantic property below, while the library still compiles and the library's own test suite (`make check`) still passes.

Work ONLY inside the git worktree /tmp/wt_{pid} (a checkout of libsodium; it is not built yet: run `./autogen.sh -s && ./configure --quiet && make -j16` there first, then `make -j16 check` to run the tests - 82 tests should pass). Do NOT read or touch /verif or /repo. Do not commit anything. (The sources contain a few `#ifdef SODIUM_VERIF` hook lines; ignore them and leave them as they are.)

The property (read it carefully) is in /tmp/prop_{pid}.txt.

Requirements for the change:
- It must be a plausible regression a developer could introduce (refactoring slip, optimisation, off-by-one, wrong condition or mask, wrong ordering), not sabotage that ordinary use exposes at once. It should need something SPECIFIC to manifest: {hint}
- The library must compile and `make check` in /tmp/wt_{pid} must still pass all 82 tests WITH your change.
- Write a small demonstration C program (demo.c, linking against the built static library src/libsodium/.libs/libsodium.a with -I src/libsodium/include; it must compile with: gcc -O1 -pthread -I src/libsodium/include -I src/libsodium/include/sodium _seed/demo.c src/libsodium/.libs/libsodium.a) that exits 0 on the unmodified code and exits non-zero (printing what went wrong) with your change. Verify both.

Deliverables, written to /tmp/wt_{pid}/_seed/ : patch.diff (output of `git diff` for the source change only, applicable with `git apply` at the repo root), demo.c, and notes.txt (which part of the property it breaks, what is needed to make it manifest, exact commands you ran and their results incl. the `make check` summary with the change applied). Leave the worktree with the change REVERTED (git checkout -- src) when you finish, keeping only the _seed directory. Report a short summary at the end.""")
