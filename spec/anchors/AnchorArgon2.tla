---- MODULE AnchorArgon2 ----
(* RFC 9106 section 5 test vectors (Argon2i and Argon2id, 4 lanes, 32 KiB, 3 passes, with secret and associated data) *)
EXTENDS Argon2
P == [i \in 1..32 |-> 1]
S == [i \in 1..16 |-> 2]
K == [i \in 1..8 |-> 3]
X == [i \in 1..12 |-> 4]
ASSUME Argon2Full(2, P, S, K, X, 3, 32, 4, 32) = <<13,100,13,245,141,120,118,108,8,192,55,163,74,139,83,201,208,30,240,69,45,117,182,94,181,37,32,233,107,1,230,89>>
ASSUME Argon2Full(1, P, S, K, X, 3, 32, 4, 32) = <<200,20,217,209,220,127,55,170,19,240,215,127,36,148,189,161,200,222,107,1,109,211,136,210,153,82,164,196,103,43,108,232>>
====
