---- MODULE AnchorScalarL ----
(* the fast (Barrett) reduction modulo L agrees with the bit-by-bit definition, and basic identities hold *)
EXTENDS ScalarL, TLC
X1 == [i \in 1..64 |-> (i * 37 + 11) % 256]
X2 == [i \in 1..64 |-> 255]
X3 == LBytes \o [i \in 1..32 |-> 0]
X4 == [i \in 1..32 |-> (i * 91 + 5) % 256]
ASSUME \A x \in {X1, X2, X3, X4, <<1>>, <<>>} : ScReduceNat(BNFromBytes(x)) = BNMod(BNFromBytes(x), LNat)
ASSUME ScReduceNat(BNMul(BNFromBytes(X4), BNFromBytes(X4))) = BNMod(BNMul(BNFromBytes(X4), BNFromBytes(X4)), LNat)
ASSUME ScMul(X4, ScInvert(X4)) = <<1>> \o [i \in 1..31 |-> 0]
ASSUME ScAdd(ScNegate(X4), ScReduce(X4)) = [i \in 1..32 |-> 0]
ASSUME ScReduce(LBytes) = [i \in 1..32 |-> 0] /\ ~ScIsCanonical(LBytes)
====
