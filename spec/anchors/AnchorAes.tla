---- MODULE AnchorAes ----
(* FIPS-197 appendix C.3 (AES-256) and the S-box corners *)
EXTENDS Aes
ASSUME Aes256EncryptBlock([i \in 1..32 |-> i - 1], <<0,17,34,51,68,85,102,119,136,153,170,187,204,221,238,255>>) = <<142,162,183,202,81,103,69,191,234,252,73,144,75,73,96,137>>
ASSUME Sb(0) = 99 /\ Sb(1) = 124 /\ Sb(83) = 237 /\ Sb(255) = 22
====
