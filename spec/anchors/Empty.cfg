
