CONSTANTS MaxSteps = 1
          CheckAddresses = FALSE
SPECIFICATION IndSpec
INVARIANTS IndInv
CHECK_DEADLOCK FALSE
