CONSTANTS Dense = 70
          Als = {1, 16}
INIT Init
NEXT Next
