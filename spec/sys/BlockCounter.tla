----------------------------- MODULE BlockCounter -----------------------------
(***************************************************************************)
(* C03 / C10 - the block counter of the ChaCha20 / Salsa20 stream          *)
(* functions as the backends keep it: two words (low, high) of a scaled    *)
(* width, advanced by the batch size of the backend (1 block for the       *)
(* reference code, 4 / 8 for the vector code which also falls back to      *)
(* smaller batches for the tail), with the carry into the high word.       *)
(*                                                                         *)
(* The declarative side is the specification's 64-bit counter: block j of  *)
(* a stream started at ic uses counter ic + j (mod 2^64).  TLC runs every  *)
(* initial counter and every stream length up to MaxBlocks for every batch *)
(* discipline and checks that the counters used are exactly ic, ic+1, ...  *)
(* Variants that must be rejected: "no_carry" (the high word is never      *)
(* touched - the 32-bit counter of seed C03-5), "carry_per_batch" (the     *)
(* carry is tested once per batch on the batch's first counter only).      *)
(* The IETF form has a one-word counter and refuses streams that would     *)
(* wrap it (IetfRefuses).                                                  *)
(***************************************************************************)
EXTENDS Naturals, Sequences

CONSTANTS WB,          \* bits per counter word (32; scaled)
          MaxBlocks, Batches, Variant
M == 2 ^ WB
VARIABLES lo, hi, left, used, ic, n
vars == <<lo, hi, left, used, ic, n>>

Init == /\ ic \in 0 .. M * M - 1 /\ n \in 0 .. MaxBlocks
        /\ lo = ic % M /\ hi = ic \div M /\ left = n /\ used = <<>>

\* counters of a batch of b blocks starting at (l, h): each lane adds its index with carry into the high word
Lane(l, h, k) == IF Variant = "carry_per_batch" THEN <<(l + k) % M, h>>      \* lanes share the high word of the batch start
                 ELSE <<(l + k) % M, IF Variant = "no_carry" THEN h ELSE (h + (l + k) \div M) % M>>
Step(b) == /\ left >= b /\ (\A b2 \in Batches : b2 > b => left < b2)         \* the widest batch that fits
           /\ used' = used \o [k \in 1..b |-> Lane(lo, hi, k - 1)]
           /\ lo' = (lo + b) % M
           /\ hi' = IF Variant = "no_carry" THEN hi ELSE (hi + (lo + b) \div M) % M
           /\ left' = left - b /\ UNCHANGED <<ic, n>>
Next == \E b \in Batches : Step(b)
Spec == Init /\ [][Next]_vars

Expected(j) == LET c == (ic + j) % (M * M) IN <<c % M, c \div M>>
CountersRight == \A j \in 1..Len(used) : used[j] = Expected(j - 1)
Progress == left = 0 => Len(used) = n
\* ChaCha20-IETF: a single counter word; the call is refused when ic + ceil(len / 64) exceeds 2^WB
IetfRefuses(ic1, blocks) == ic1 + blocks > M
=============================================================================
