---- MODULE MCRandomSource_TTrace_1791018339 ----
EXTENDS Sequences, TLCExt, Toolbox, Naturals, TLC, MCRandomSource

_expression ==
    LET MCRandomSource_TEExpression == INSTANCE MCRandomSource_TEExpression
    IN MCRandomSource_TEExpression!expression
----

_trace ==
    LET MCRandomSource_TETrace == INSTANCE MCRandomSource_TETrace
    IN MCRandomSource_TETrace!trace
----

_inv ==
    ~(
        TLCGet("level") = Len(_TETrace)
        /\
        result = (0)
        /\
        phase = ("drawing")
        /\
        bound = (2)
        /\
        drawn = (<<>>)
    )
----

_init ==
    /\ result = _TETrace[1].result
    /\ bound = _TETrace[1].bound
    /\ phase = _TETrace[1].phase
    /\ drawn = _TETrace[1].drawn
----

_next ==
    /\ \E i,j \in DOMAIN _TETrace:
        /\ \/ /\ j = i + 1
              /\ i = TLCGet("level")
        /\ result  = _TETrace[i].result
        /\ result' = _TETrace[j].result
        /\ bound  = _TETrace[i].bound
        /\ bound' = _TETrace[j].bound
        /\ phase  = _TETrace[i].phase
        /\ phase' = _TETrace[j].phase
        /\ drawn  = _TETrace[i].drawn
        /\ drawn' = _TETrace[j].drawn

\* Uncomment the ASSUME below to write the states of the error trace
\* to the given file in Json format. Note that you can pass any tuple
\* to `JsonSerialize`. For example, a sub-sequence of _TETrace.
    \* ASSUME
    \*     LET J == INSTANCE Json
    \*         IN J!JsonSerialize("MCRandomSource_TTrace_1791018339.json", _TETrace)

=============================================================================

 Note that you can extract this module `MCRandomSource_TEExpression`
  to a dedicated file to reuse `expression` (the module in the 
  dedicated `MCRandomSource_TEExpression.tla` file takes precedence 
  over the module `MCRandomSource_TEExpression` below).

---- MODULE MCRandomSource_TEExpression ----
EXTENDS Sequences, TLCExt, Toolbox, Naturals, TLC, MCRandomSource

expression == 
    [
        \* To hide variables of the `MCRandomSource` spec from the error trace,
        \* remove the variables below.  The trace will be written in the order
        \* of the fields of this record.
        result |-> result
        ,bound |-> bound
        ,phase |-> phase
        ,drawn |-> drawn
        
        \* Put additional constant-, state-, and action-level expressions here:
        \* ,_stateNumber |-> _TEPosition
        \* ,_resultUnchanged |-> result = result'
        
        \* Format the `result` variable as Json value.
        \* ,_resultJson |->
        \*     LET J == INSTANCE Json
        \*     IN J!ToJson(result)
        
        \* Lastly, you may build expressions over arbitrary sets of states by
        \* leveraging the _TETrace operator.  For example, this is how to
        \* count the number of times a spec variable changed up to the current
        \* state in the trace.
        \* ,_resultModCount |->
        \*     LET F[s \in DOMAIN _TETrace] ==
        \*         IF s = 1 THEN 0
        \*         ELSE IF _TETrace[s].result # _TETrace[s-1].result
        \*             THEN 1 + F[s-1] ELSE F[s-1]
        \*     IN F[_TEPosition - 1]
    ]

=============================================================================



Parsing and semantic processing can take forever if the trace below is long.
 In this case, it is advised to uncomment the module below to deserialize the
 trace from a generated binary file.

\*
\*---- MODULE MCRandomSource_TETrace ----
\*EXTENDS IOUtils, TLC, MCRandomSource
\*
\*trace == IODeserialize("MCRandomSource_TTrace_1791018339.bin", TRUE)
\*
\*=============================================================================
\*

---- MODULE MCRandomSource_TETrace ----
EXTENDS TLC, MCRandomSource

trace == 
    <<
    ([result |-> 0,phase |-> "idle",bound |-> 0,drawn |-> <<>>]),
    ([result |-> 0,phase |-> "done",bound |-> 0,drawn |-> <<>>]),
    ([result |-> 0,phase |-> "drawing",bound |-> 2,drawn |-> <<>>])
    >>
----


=============================================================================

---- CONFIG MCRandomSource_TTrace_1791018339 ----
CONSTANTS
    Mod = 16
    Bounds <- Words
    Draws <- Words
    MaxDraws = 2
    IsSmall <- MCIsSmall
    Threshold <- MCThreshold
    Less <- MCLess
    Rem <- MCRem
    Zero = 0
    Strict = FALSE

INVARIANT
    _inv

CHECK_DEADLOCK
    \* CHECK_DEADLOCK off because of PROPERTY or INVARIANT above.
    FALSE

INIT
    _init

NEXT
    _next

CONSTANT
    _TETrace <- _trace

ALIAS
    _expression
=============================================================================
\* Generated on Sat Oct 03 09:05:40 UTC 2026