--------------------------- MODULE PadMachine ---------------------------
(***************************************************************************)
(* sodium_pad / sodium_unpad as the constant-time loops of the C code       *)
(* (mask / barrier arithmetic written out), checked against lib/Pad.tla for *)
(* every buffer over Bytes up to MaxLen and every block size up to MaxBs.   *)
(***************************************************************************)
EXTENDS Pad, TLC
CONSTANTS Bytes, MaxLen, MaxBs, UnpadScan(_)      \* UnpadScan(bs): how many bytes the unpad loop looks at
VARIABLES buf, bs
vars == <<buf, bs>>

\* bit 8 of (x - 1) for 0 <= x < 256 in unsigned arithmetic: 1 iff x = 0
Z(x) == IF x = 0 THEN 1 ELSE 0
\* sodium_unpad's loop over i = 0 .. blocksize-1 from the tail
UnpadStep(s, i) ==
  LET c == s.b[Len(s.b) - i]
      isBarrier == Z(s.acc) * Z(s.padLen) * Z(IF c = 128 THEN 0 ELSE 1)
  IN [s EXCEPT !.acc = IF @ # 0 \/ c # 0 THEN 1 ELSE 0,      \* acc |= c (only zero-ness matters)
               !.padLen = IF isBarrier = 1 THEN i ELSE @,     \* pad_len |= i & -is_barrier (set once)
               !.valid = IF isBarrier = 1 THEN 1 ELSE @]
UnpadMachine(b, blk) ==
  IF Len(b) < blk \/ blk = 0 THEN [ok |-> FALSE]
  ELSE LET s == FoldLeft(UnpadStep, [b |-> b, acc |-> 0, padLen |-> 0, valid |-> 0], [k \in 1..UnpadScan(blk) |-> k - 1])
       IN IF s.valid = 1 THEN [ok |-> TRUE, len |-> Len(b) - 1 - s.padLen] ELSE [ok |-> FALSE]

\* sodium_pad: xpadlen = blocksize - 1 - (len mod blocksize); writes 0x80 at tail - xpadlen, zeros after
PadMachine(data, blk, cap) ==
  IF blk = 0 THEN [ok |-> FALSE]
  ELSE LET xpadlen == (blk - 1) - (Len(data) % blk)
           xpadded == Len(data) + xpadlen
       IN IF xpadded >= cap THEN [ok |-> FALSE]
          ELSE LET room == data \o [i \in 1..(xpadlen + 1) |-> 255]      \* whatever was in the buffer before
                   step(s, i) == LET pos == (xpadded + 1) - i               \* 1-based index of *(tail - i)
                                     bm == IF i = xpadlen THEN 255 ELSE 0
                                 IN [s EXCEPT !.b[pos] = IF bm = 255 THEN 128 ELSE IF s.mask = 255 THEN @ ELSE 0,
                                              !.mask = IF bm = 255 THEN 255 ELSE @]
                   r == FoldLeft(step, [b |-> room, mask |-> 0], [k \in 1..blk |-> k - 1])
               IN [ok |-> TRUE, plen |-> xpadded + 1, buf |-> r.b]

Init == buf = <<>> /\ bs \in 0..MaxBs
Next == Len(buf) < MaxLen /\ (\E c \in Bytes : buf' = Append(buf, c)) /\ UNCHANGED bs
Spec == Init /\ [][Next]_vars

UnpadAgrees == UnpadMachine(buf, bs) = Unpad(buf, bs)
PadAgrees == \A cap \in 0..(MaxLen + MaxBs + 1) : PadMachine(buf, bs, cap) = Pad(buf, bs, cap)
RoundTrip == bs > 0 => LET p == Pad(buf, bs, Len(buf) + bs) IN
                 /\ p.ok /\ p.plen % bs = 0 /\ p.plen > Len(buf) /\ p.plen <= Len(buf) + bs
                 /\ SubSeq(p.buf, 1, Len(buf)) = buf
                 /\ Unpad(p.buf, bs) = [ok |-> TRUE, len |-> Len(buf)]
=============================================================================
