------------------------------- MODULE TraceForgery -------------------------------
(* Trace validation for C02: aggregated tampering records from harness/forge_driver.c against the property of
   Forgery.tla. A record summarises all single-bit flips of one field (or all truncations / extensions) of one
   valid object: every trial must have been rejected, with length zero where a length is reported, and the output
   buffer either untouched or filled with one constant byte that is the same in both runs (different keys and
   plaintexts), never anything else and never (most of) the plaintext. *)
EXTENDS Integers, Sequences, FiniteSets, TLC, Json, IOUtils
Tr == ndJsonDeserialize(IOEnv.TRACE)
VARIABLES l, fills       \* fills: api -> set of filler bytes seen so far (must stay a single value per API)
Ev == Tr[l]
IsEvent(e) == l <= Len(Tr) /\ Tr[l].e = e /\ l' = l + 1
ToSet(s) == {s[i] : i \in 1..Len(s)}
FillOf(a) == IF a \in DOMAIN fills THEN fills[a] ELSE {}
TraceInit == l = 1 /\ fills = <<>>
TControl == IsEvent("control") /\ Ev.accepted /\ Ev.plain_ok /\ UNCHANGED fills
TForge == /\ IsEvent("forge")
          /\ Ev.trials >= 1
          /\ Ev.rejected = Ev.trials                      \* every tampered input refused
          /\ Ev.mlen_zero = Ev.trials                     \* reported length zero
          /\ Ev.other = 0 /\ Ev.leak = 0                  \* output untouched or a constant filler, never plaintext
          /\ Ev.untouched + Ev.filled = Ev.trials
          /\ LET base == SubSeq(Ev.api, 1, Len(Ev.api))  f == FillOf(base) \cup ToSet(Ev.fill)
             IN /\ Cardinality(f) <= 1                    \* the filler does not depend on key or data
                /\ fills' = [x \in (DOMAIN fills) \cup {base} |-> IF x = base THEN f ELSE fills[x]]
TraceNext == TControl \/ TForge
TraceSpec == TraceInit /\ [][TraceNext]_<<l, fills>>
TraceAccepted ==
  LET d == TLCGet("stats").diameter IN
  IF d - 1 = Len(Tr) THEN TRUE
  ELSE Print(<<"REJECTED at line", d, IF d <= Len(Tr) THEN Tr[d] ELSE "eof">>, FALSE)
=============================================================================
