------------------------------ MODULE PolyPowers ------------------------------
(***************************************************************************)
(* C04 / C10 - the key-power precomputation of the vectorised Poly1305      *)
(* backend (poly1305_sse2.c, poly1305_init_ext), transcribed statement by   *)
(* statement with scaled limb widths.                                       *)
(*                                                                         *)
(* The code keeps r in three limbs of W, W and WT bits (44, 44, 42), squares*)
(* it once or twice with a partial reduction modulo 2^N - 5 (N = 2W + WT),  *)
(* and repacks each power into five limbs of V bits (26) using shifts and   *)
(* ORs.  The OR is an addition only while the two operands have no bit in   *)
(* common, which is what the carry chain of the partial reduction has to    *)
(* guarantee.  With W = 9, WT = 7, V = 5 (N = 25, so 2^(3W) = 4 * 2^N as in *)
(* the real code and the V-bit limbs straddle the W-bit ones the same way)  *)
(* TLC squares EVERY clamped r and checks that the stored limbs are the     *)
(* power of r.  Bug = "drop_carry" is the slip "the last carry of a partial *)
(* reduction can stay in the limb" (true for the block loop, false here);   *)
(* it must be rejected, and the keys on which it fails are the scaled       *)
(* picture of harness/poly_keys.h: a limb of r^2 / r^4 exactly at a         *)
(* boundary and the next limb odd - about one key in 2^W.                   *)
(***************************************************************************)
EXTENDS Naturals, Sequences, Bitwise

CONSTANTS W, WT, V, Bug
N == 2 * W + WT
P == 2 ^ N - 5
K == 3 * W - N                          \* 2^(3W) = 2^K * 2^N, so the wrap-around factor is 5 * 2^K  (5 << 2 in the code)
MW == 2 ^ W - 1
MWT == 2 ^ WT - 1
MV == 2 ^ V - 1
ASSUME 5 * V = N /\ K >= 0 /\ V < W /\ W < 2 * V

VARIABLES r, rt, Rp, i          \* the key, its current power in W/W/WT limbs, the repacked powers <<R2, R4>>, number of squarings done
vars == <<r, rt, Rp, i>>

Clamped == 0 .. 2 ^ (N - 6) - 1        \* the top bits cleared by clamping leave this much headroom (r < 2^124 of 2^130)

Limbs(x) == <<x % 2 ^ W, (x \div 2 ^ W) % 2 ^ W, x \div 2 ^ (2 * W)>>
Shr(x, n) == x \div 2 ^ n
Shl(x, n) == x * 2 ^ n

Init == /\ r \in Clamped /\ rt = Limbs(r) /\ Rp = <<>> /\ i = 0

(* one iteration of the "r^2, r^4" loop *)
Square ==
  LET rt0 == rt[1] rt1 == rt[2] rt2 == rt[3]
      st2 == rt2 * (5 * 2 ^ K)
      d0 == rt0 * rt0 + (rt1 * 2) * st2
      d1 == rt2 * st2 + (rt0 * 2) * rt1
      d2 == rt1 * rt1 + (rt2 * 2) * rt0
      a0 == d0 % 2 ^ W               c0 == Shr(d0, W)
      d1c == d1 + c0
      a1 == d1c % 2 ^ W              c1 == Shr(d1c, W)
      d2c == d2 + c1
      a2 == d2c % 2 ^ WT             c2 == Shr(d2c, WT)
      b0 == a0 + c2 * 5
      c3 == Shr(b0, W)               n0 == b0 % 2 ^ W
      b1 == a1 + c3
      c4 == Shr(b1, W)
      n1 == IF Bug = "drop_carry" THEN b1 ELSE b1 % 2 ^ W
      n2 == IF Bug = "drop_carry" THEN a2 ELSE a2 + c4
      (* repacking into five V-bit limbs *)
      a == W - V   b == 2 * V - W   c == b + V   e == W - c   f == V - e
      R0 == n0 & MV
      R1 == (Shr(n0, V) | Shl(n1, a)) & MV
      R2 == Shr(n1, b) & MV
      R3 == (Shr(n1, c) | Shl(n2, e)) & MV
      R4 == Shr(n2, f)
  IN /\ i < 2
     /\ rt' = <<n0, n1, n2>>
     /\ Rp' = Append(Rp, <<R0, R1, R2, R3, R4>>)
     /\ i' = i + 1 /\ UNCHANGED r

Next == Square
Spec == Init /\ [][Next]_vars

Val(R) == R[1] + R[2] * 2 ^ V + R[3] * 2 ^ (2 * V) + R[4] * 2 ^ (3 * V) + R[5] * 2 ^ (4 * V)
\* a * b mod P without leaving TLC's 32-bit integers: Horner over the five V-bit digits of b
Dig(b, k) == (b \div 2 ^ (V * k)) % 2 ^ V
H(acc, a, d) == (acc * 2 ^ V + a * d) % P
MulMod(a, b) == H(H(H(H(H(0, a, Dig(b, 4)), a, Dig(b, 3)), a, Dig(b, 2)), a, Dig(b, 1)), a, Dig(b, 0))
Pow(x, k) == IF k = 1 THEN MulMod(x, x) ELSE MulMod(MulMod(x, x), MulMod(x, x))
\* the stored limbs are the power of r (modulo p), limb by limb within the width the vector code multiplies with
PowersRight == \A k \in 1..Len(Rp) : Val(Rp[k]) % P = Pow(r, k) /\ \A j \in 1..4 : Rp[k][j] <= MV
\* the W-bit form stays within what the next squaring and the repacking assume
LimbBounds == rt[1] <= MW /\ rt[2] <= MW /\ rt[3] <= MWT + 1
=============================================================================
