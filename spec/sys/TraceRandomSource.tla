--------------------------- MODULE TraceRandomSource ---------------------------
(* Trace validation for C18. A scripted randombytes implementation (installed through the public API, uniform =
   NULL) serves the bytes and logs every request; harness/rand_driver.c logs
     u_begin{n} u_draw{r}* u_end{res}      for randombytes_uniform (32-bit words as 4 little-endian bytes)
     gen{api, reqs, served, out, ...}       for every generating API
     det{seed, lens, cat}                   for randombytes_buf_deterministic
   and this module checks them against RandomSource (real word size, BigNat arithmetic), the generator table and
   the ChaCha20-IETF definition of the deterministic generator. *)
EXTENDS RandomSource, BigNat, ChaCha, Codec, Json, IOUtils
XC == INSTANCE X25519
Tr == ndJsonDeserialize(IOEnv.TRACE)
VARIABLE l
tvars == <<vars, l>>
Ev == Tr[l]
IsEvent(e) == l <= Len(Tr) /\ Tr[l].e = e /\ l' = l + 1

TrIsSmall(n) == BNCmp(n, <<2>>) < 0
TrThreshold(n) == BNMod(BNPow2(32), n)
TrLess(a, b) == BNCmp(a, b) < 0
TrRem(r, n) == BNMod(r, n)

TraceInit == Init /\ l = 1
TBegin == IsEvent("u_begin") /\ Begin(BNFromBytes(Ev.n))
TDraw  == IsEvent("u_draw") /\ Draw(BNFromBytes(Ev.r))
TEnd   == IsEvent("u_end") /\ phase = "done" /\ result = BNFromBytes(Ev.res) /\ UNCHANGED vars

\* ---------------------------------------------------------------- generators
LBytes == <<237, 211, 245, 92, 26, 99, 18, 88, 214, 156, 247, 162, 222, 249, 222, 20,
            0, 0, 0, 0, 0, 0, 0, 0, 0, 0, 0, 0, 0, 0, 0, 16>>                     \* group order L, little-endian
LNat == BNFromBytes(LBytes)
Chunk(served, i, n) == SubSeq(served, (n * (i - 1)) + 1, n * i)
\* scalar_random: 32 bytes per attempt, top three bits cleared, accepted iff canonical and non-zero
MaskScalar(c) == [c EXCEPT ![32] = @ % 32]
ScalarOK(c) == LET v == BNFromBytes(MaskScalar(c)) IN BNCmp(v, LNat) < 0 /\ ~BNIsZero(v)
ScalarRandom(served) ==
  LET k == Len(served) \div 32
      okAt == {i \in 1..k : ScalarOK(Chunk(served, i, 32))}
  IN [attempts |-> k, acceptedAtLast |-> okAt = {k}, out |-> MaskScalar(Chunk(served, k, 32))]

IdentityGens == {"secretbox_keygen", "auth_keygen", "auth_hmacsha256_keygen", "auth_hmacsha512_keygen", "auth_hmacsha512256_keygen",
                 "aead_chacha20poly1305_keygen", "aead_chacha20poly1305_ietf_keygen", "aead_xchacha20poly1305_ietf_keygen",
                 "aead_aes256gcm_keygen", "aead_aegis128l_keygen", "aead_aegis256_keygen", "stream_keygen", "stream_chacha20_keygen",
                 "stream_chacha20_ietf_keygen", "stream_xchacha20_keygen", "stream_salsa20_keygen", "stream_salsa2012_keygen",
                 "stream_salsa208_keygen", "stream_xsalsa20_keygen", "kdf_keygen", "kdf_hkdf_sha256_keygen", "kdf_hkdf_sha512_keygen",
                 "generichash_keygen", "shorthash_keygen", "onetimeauth_keygen", "secretstream_keygen", "generichash_blake2b_keygen",
                 "randombytes_buf_32", "randombytes_buf_1", "randombytes_buf_100"}
Size(api) == CASE api \in {"aead_aegis128l_keygen", "shorthash_keygen"} -> 16
               [] api = "kdf_hkdf_sha512_keygen" -> 64
               [] api = "randombytes_buf_1" -> 1 [] api = "randombytes_buf_100" -> 100
               [] OTHER -> 32
SplitOn(s, ch) == \* fields of a byte string separated by ch
  LET cut == <<0>> \o SelectSeq([i \in 1..Len(s) |-> IF s[i] = ch THEN i ELSE 0], LAMBDA x : x # 0) \o <<Len(s) + 1>>
  IN [k \in 1..(Len(cut) - 1) |-> SubSeq(s, cut[k] + 1, cut[k + 1] - 1)]

GenOK(r) ==
  /\ r.repeat_equal                       \* replaying the same bytes reproduces the same output
  /\ (r.sensitive \/ r.api = "pwhash_raw") \* other bytes give another output: the secret is derived from the source
  /\ CASE r.api \in IdentityGens -> r.reqs = <<Size(r.api)>> /\ r.out = r.served
       \* secret key = the served bytes, public key = X25519 of it on the base point (RFC 7748)
       [] r.api \in {"box_keypair", "box_xchacha_keypair", "kx_keypair"} ->
            r.reqs = <<32>> /\ SubSeq(r.out, 1, 32) = r.served /\ SubSeq(r.out, 33, 64) = XC!X25519Base(r.served)
       [] r.api = "sign_keypair" -> r.reqs = <<32>> /\ SubSeq(r.out, 1, 32) = r.served
       [] r.api \in {"ed25519_scalar_random", "ristretto255_scalar_random"} ->
            LET x == ScalarRandom(r.served) IN
            /\ r.reqs = [i \in 1..x.attempts |-> 32] /\ x.acceptedAtLast /\ r.out = x.out
       [] r.api = "ed25519_random" -> r.reqs = <<32>>
       [] r.api = "ristretto255_random" -> r.reqs = <<64>>
       [] r.api = "secretstream_init_push" -> r.reqs = <<24>> /\ SubSeq(r.out, 1, 24) = r.served
       [] r.api = "box_seal" -> r.reqs = <<32>>
       [] r.api \in {"pwhash_str", "pwhash_argon2i_str"} ->
            /\ Len(r.reqs) >= 1 /\ r.reqs[1] = 16       \* the salt; further requests may only pre-fill buffers
            /\ LET f == SplitOn(r.out, 36) IN Len(f) = 6 /\ f[5] = B64(SubSeq(r.served, 1, 16), 3)   \* $argon2id$v=19$m=,t=,p=$salt$hash
       [] r.api = "pwhash_scrypt_str" -> Len(r.reqs) >= 1 /\ r.reqs[1] = 32   \* salt first; escrypt_r then pre-fills the output buffer
       [] r.api = "pwhash_raw" -> r.out # r.served      \* only a pre-fill of the output buffer is requested; the hash does not depend on it
       [] r.api = "randombytes_buf_0" -> r.reqs = <<>>
TGen == IsEvent("gen") /\ GenOK(Ev) /\ UNCHANGED vars
\* life cycle (sys/RandomLifecycle.tla): closing or stirring the generator leaves the installed source installed
TLife == IsEvent("life") /\ Ev.op \in {"close", "stir"} /\ Ev.active = "verif-scripted" /\ UNCHANGED vars

\* ---------------------------------------------------------------- deterministic generator
DRGNonce == <<76, 105, 98, 115, 111, 100, 105, 117, 109, 68, 82, 71>>          \* "LibsodiumDRG"
TDet == /\ IsEvent("det") /\ UNCHANGED vars
        /\ LET mx == FoldLeft(LAMBDA a, b : IF b > a THEN b ELSE a, 0, Ev.lens)
               S == StreamIETF(Ev.seed, DRGNonce, <<0, 0>>, mx)
           IN Ev.cat = FoldLeft(LAMBDA acc, n : acc \o SubSeq(S, 1, n), <<>>, Ev.lens)

TraceNext == TBegin \/ TDraw \/ TEnd \/ TGen \/ TLife \/ TDet
TraceSpec == TraceInit /\ [][TraceNext]_tvars
TraceAccepted ==
  LET d == TLCGet("stats").diameter IN
  IF d - 1 = Len(Tr) THEN TRUE
  ELSE Print(<<"REJECTED at line", d, IF d <= Len(Tr) THEN Tr[d] ELSE "eof">>, FALSE)
\* in every state of the real execution
TrInRange == (phase = "done" /\ ~TrIsSmall(bound)) => BNCmp(result, bound) < 0
=============================================================================
