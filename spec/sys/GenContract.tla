----------------------------- MODULE GenContract -----------------------------
(* Direction A for C12: TLC enumerates the calls of one part of Contract!Table (IOEnv.PART) and writes them, in a
   fixed order, as NDJSON (IOEnv.OUT); each line becomes one line of the script harness/contract_driver.c executes. *)
EXTENDS Contract, Json, IOUtils, SequencesExt, TLC
MyCalls == CallsOf(Family(IOEnv.PART))
ASSUME /\ IOEnv.PART \in Parts
       /\ ndJsonSerialize(IOEnv.OUT, SetToSeq(MyCalls))
       /\ PrintT(<<"CALLS", Cardinality(MyCalls), "functions", Cardinality({c.fn : c \in MyCalls})>>)
VARIABLE x
Init == x = 0
Next == UNCHANGED x
=============================================================================
