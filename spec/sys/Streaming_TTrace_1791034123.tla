---- MODULE Streaming_TTrace_1791034123 ----
EXTENDS Streaming, Sequences, TLCExt, Toolbox, Naturals, TLC

_expression ==
    LET Streaming_TEExpression == INSTANCE Streaming_TEExpression
    IN Streaming_TEExpression!expression
----

_trace ==
    LET Streaming_TETrace == INSTANCE Streaming_TETrace
    IN Streaming_TETrace!trace
----

_inv ==
    ~(
        TLCGet("level") = Len(_TETrace)
        /\
        phase = ("done")
        /\
        buf = (<<0, 1, 2, 3>>)
        /\
        total = (4)
        /\
        t = (4)
        /\
        blocks = (<<[t |-> 4, data |-> <<0, 1, 2, 3>>, last |-> FALSE], [t |-> 4, data |-> <<"00", "00", "00", "00">>, last |-> TRUE]>>)
    )
----

_init ==
    /\ blocks = _TETrace[1].blocks
    /\ buf = _TETrace[1].buf
    /\ t = _TETrace[1].t
    /\ phase = _TETrace[1].phase
    /\ total = _TETrace[1].total
----

_next ==
    /\ \E i,j \in DOMAIN _TETrace:
        /\ \/ /\ j = i + 1
              /\ i = TLCGet("level")
        /\ blocks  = _TETrace[i].blocks
        /\ blocks' = _TETrace[j].blocks
        /\ buf  = _TETrace[i].buf
        /\ buf' = _TETrace[j].buf
        /\ t  = _TETrace[i].t
        /\ t' = _TETrace[j].t
        /\ phase  = _TETrace[i].phase
        /\ phase' = _TETrace[j].phase
        /\ total  = _TETrace[i].total
        /\ total' = _TETrace[j].total

\* Uncomment the ASSUME below to write the states of the error trace
\* to the given file in Json format. Note that you can pass any tuple
\* to `JsonSerialize`. For example, a sub-sequence of _TETrace.
    \* ASSUME
    \*     LET J == INSTANCE Json
    \*         IN J!JsonSerialize("Streaming_TTrace_1791034123.json", _TETrace)

=============================================================================

 Note that you can extract this module `Streaming_TEExpression`
  to a dedicated file to reuse `expression` (the module in the 
  dedicated `Streaming_TEExpression.tla` file takes precedence 
  over the module `Streaming_TEExpression` below).

---- MODULE Streaming_TEExpression ----
EXTENDS Streaming, Sequences, TLCExt, Toolbox, Naturals, TLC

expression == 
    [
        \* To hide variables of the `Streaming` spec from the error trace,
        \* remove the variables below.  The trace will be written in the order
        \* of the fields of this record.
        blocks |-> blocks
        ,buf |-> buf
        ,t |-> t
        ,phase |-> phase
        ,total |-> total
        
        \* Put additional constant-, state-, and action-level expressions here:
        \* ,_stateNumber |-> _TEPosition
        \* ,_blocksUnchanged |-> blocks = blocks'
        
        \* Format the `blocks` variable as Json value.
        \* ,_blocksJson |->
        \*     LET J == INSTANCE Json
        \*     IN J!ToJson(blocks)
        
        \* Lastly, you may build expressions over arbitrary sets of states by
        \* leveraging the _TETrace operator.  For example, this is how to
        \* count the number of times a spec variable changed up to the current
        \* state in the trace.
        \* ,_blocksModCount |->
        \*     LET F[s \in DOMAIN _TETrace] ==
        \*         IF s = 1 THEN 0
        \*         ELSE IF _TETrace[s].blocks # _TETrace[s-1].blocks
        \*             THEN 1 + F[s-1] ELSE F[s-1]
        \*     IN F[_TEPosition - 1]
    ]

=============================================================================



Parsing and semantic processing can take forever if the trace below is long.
 In this case, it is advised to uncomment the module below to deserialize the
 trace from a generated binary file.

\*
\*---- MODULE Streaming_TETrace ----
\*EXTENDS Streaming, IOUtils, TLC
\*
\*trace == IODeserialize("Streaming_TTrace_1791034123.bin", TRUE)
\*
\*=============================================================================
\*

---- MODULE Streaming_TETrace ----
EXTENDS Streaming, TLC

trace == 
    <<
    ([phase |-> "fresh",buf |-> <<>>,total |-> 0,t |-> 0,blocks |-> <<>>]),
    ([phase |-> "absorbing",buf |-> <<>>,total |-> 0,t |-> 0,blocks |-> <<>>]),
    ([phase |-> "absorbing",buf |-> <<0>>,total |-> 1,t |-> 0,blocks |-> <<>>]),
    ([phase |-> "absorbing",buf |-> <<0, 1, 2>>,total |-> 3,t |-> 0,blocks |-> <<>>]),
    ([phase |-> "absorbing",buf |-> <<0, 1, 2, 3>>,total |-> 4,t |-> 0,blocks |-> <<>>]),
    ([phase |-> "done",buf |-> <<0, 1, 2, 3>>,total |-> 4,t |-> 4,blocks |-> <<[t |-> 4, data |-> <<0, 1, 2, 3>>, last |-> FALSE], [t |-> 4, data |-> <<"00", "00", "00", "00">>, last |-> TRUE]>>])
    >>
----


=============================================================================

---- CONFIG Streaming_TTrace_1791034123 ----
CONSTANTS
    B = 4
    LB = 1
    Kind = "blake"
    Keyed = FALSE
    MaxTotal = 40
    MaxChunk = 26
    Bug = "blake_final_ge"

INVARIANT
    _inv

CHECK_DEADLOCK
    \* CHECK_DEADLOCK off because of PROPERTY or INVARIANT above.
    FALSE

INIT
    _init

NEXT
    _next

CONSTANT
    _TETrace <- _trace

ALIAS
    _expression
=============================================================================
\* Generated on Sat Oct 03 13:28:44 UTC 2026