CONSTANTS MaxSteps = 6
          CheckAddresses = FALSE
SPECIFICATION Spec
INVARIANTS Soundness
CHECK_DEADLOCK FALSE
