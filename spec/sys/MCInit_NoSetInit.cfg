SPECIFICATION FairSpec
CONSTANTS
  Threads = {1, 2, 3}
  Prims <- MCPrims
  Variant = "NoSetInit"
INVARIANTS Mutex InitOnce NoPartial Returns
PROPERTY Terminates
CHECK_DEADLOCK FALSE
