CONSTANTS Sources = {"sysrandom", "internal", "scripted"}
          Default = "sysrandom"
          MaxOps = 6
          CloseForgets = TRUE
SPECIFICATION Spec
INVARIANT InstalledServes
CHECK_DEADLOCK FALSE
