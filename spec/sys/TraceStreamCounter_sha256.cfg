CONSTANTS B = 64
          Kind = "md"
SPECIFICATION TraceSpec
POSTCONDITION TraceAccepted
CHECK_DEADLOCK FALSE
