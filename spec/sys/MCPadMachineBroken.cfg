SPECIFICATION Spec
CONSTANTS
  Bytes = {0, 128, 1, 129}
  MaxLen = 5
  MaxBs = 6
  UnpadScan <- ShortScan
INVARIANTS UnpadAgrees PadAgrees RoundTrip
CHECK_DEADLOCK FALSE
