--------------------------- MODULE TraceGuardedAlloc ---------------------------
(* Trace validation for GuardedAlloc (C17): events recorded by harness/alloc_driver.c from the real library
   (page size 4096) must be steps of GuardedAlloc, and every observation (layout read from /proc/self/maps,
   fill pattern, probe outcomes, termination on free) must be what the specification says. Sizes near
   SIZE_MAX travel as 8 little-endian bytes and are compared as BigNat. *)
EXTENDS GuardedAlloc, BigNat, Json, IOUtils
Tr == ndJsonDeserialize(IOEnv.TRACE)
VARIABLE l
tvars == <<vars, l>>
Ev == Tr[l]
IsEvent(e) == l <= Len(Tr) /\ Tr[l].e = e /\ l' = l + 1

SizeMax == BNSub(BNPow2(64), Small(1))
TraceInit == Init /\ l = 1

TMalloc ==
  /\ IsEvent("malloc") /\ ~Ev.null /\ Ev.page = PageSize
  /\ Malloc(Ev.size)
  /\ LET L == Layout(Ev.size) IN
       /\ Ev.end_off = L.dataSize               \* user + size is the end of the data pages = start of the guard page
       /\ Ev.data_off = L.user - L.data
       /\ Ev.data_size = L.dataSize
       /\ Ev.fill_ok
       /\ Ev.data = "rw-p" /\ Ev.guard_lo = "---p" /\ Ev.guard_lo_size = PageSize
       /\ Ev.hdr = "r--p" /\ Ev.guard_hi = "---p" /\ Ev.guard_hi_min >= PageSize

\* oversized request: every size whose mapping length 3 pages + PageRound(size + canary) does not fit a size_t
\* (sys/LayoutAll.tla, NoWrapTotal: size + 16 > 2^64 - 4 pages, i.e. size >= SIZE_MAX - 4 pages - 14) must fail with ENOMEM;
\* this is the arithmetic fact, not the library's margin (5 pages since the repair of F6, 4 before: the 14 sizes just
\* below SIZE_MAX - 4 pages then wrapped the length to 0 and failed with EINVAL).  Anything that large cannot succeed either.
TBigMalloc ==
  /\ IsEvent("bigmalloc") /\ UNCHANGED vars
  /\ LET s == BNFromBytes(Ev.size) IN
       (BNCmp(s, BNSub(SizeMax, Small((4 * Ev.page) + 14))) >= 0) => (Ev.null /\ Ev.enomem)
  /\ Ev.null

TAllocArray ==
  /\ IsEvent("allocarray") /\ UNCHANGED vars
  /\ LET c == BNFromBytes(Ev.count)  s == BNFromBytes(Ev.size)  prod == BNMul(c, s)
         overflow == BNCmp(prod, SizeMax) > 0
         small == BNCmp(prod, Small(1048576)) <= 0
     IN /\ overflow => (Ev.null /\ Ev.enomem)                           \* count * size overflows: clean failure
        /\ small => (/\ ~Ev.null /\ Ev.fill_ok
                     /\ LET n == IF prod = <<>> THEN 0 ELSE prod[1] + (IF Len(prod) > 1 THEN 8192 * prod[2] ELSE 0)
                        IN Ev.data_size = Layout(n).dataSize /\ Ev.end_off = Layout(n).dataSize)

TProtect ==
  /\ IsEvent("protect") /\ Protect(Ev.p) /\ Ev.ret = 0
  /\ Ev.perm_user = (CASE Ev.p = "RW" -> "rw-p" [] Ev.p = "RO" -> "r--p" [] Ev.p = "NA" -> "---p")
  /\ Ev.perm_end = "---p"

TProbe == /\ IsEvent("probe") /\ Probe(Ev.kind, Ev.off) /\ obs'.res = Ev.res
TFree == /\ IsEvent("free") /\ Free /\ obs'.res = Ev.res
         /\ (Ev.res = "ok" => Ev.unmapped /\ Ev.exit = 0)

\* the run's environment (memory locking denied or not): no effect on the abstract state - the layout does not depend on mlock
TEnv == IsEvent("env") /\ UNCHANGED vars
TraceNext == TMalloc \/ TBigMalloc \/ TAllocArray \/ TProtect \/ TProbe \/ TFree \/ TEnv
TraceSpec == TraceInit /\ [][TraceNext]_tvars
TraceAccepted ==
  LET d == TLCGet("stats").diameter IN
  IF d - 1 = Len(Tr) THEN TRUE
  ELSE Print(<<"REJECTED at line", d, IF d <= Len(Tr) THEN Tr[d] ELSE "eof">>, FALSE)
=============================================================================
