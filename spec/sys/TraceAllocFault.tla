--------------------------- MODULE TraceAllocFault ---------------------------
(* Trace validation for C20: every fault-injection run recorded by harness/alloc_fault.c must satisfy the monitor
   of AllocFault.tla: no illegal release, and at the end of the call - if any request failed - an error return and
   nothing produced, with nothing left allocated except what the API hands to the caller. A crash of the child
   process is an event no action accepts. *)
EXTENDS AllocFault, Json, IOUtils
Tr == ndJsonDeserialize(IOEnv.TRACE)
VARIABLES l, expect
tvars == <<vars, l, expect>>
Ev == Tr[l]
IsEvent(e) == l <= Len(Tr) /\ Tr[l].e = e /\ l' = l + 1
TrKeeps(a) == IF a = "sodium_malloc" THEN 1 ELSE 0
TrProg(a) == <<>>

TraceInit == Init /\ l = 1 /\ expect = "ok"
TBegin == /\ IsEvent("begin") /\ pc \in {"idle", "done"}
          /\ MBegin(Ev.model) /\ pc' = "run" /\ pos' = 0
          /\ expect' = IF Ev.expect_ok THEN "ok" ELSE "error"
TAlloc == /\ IsEvent("alloc") /\ pc = "run" /\ MAlloc(Ev.kind, Ev.id, Ev.ok)
          /\ pos' = pos + 1 /\ UNCHANGED <<api, pc, ret, out, expect>>
TRelease == /\ IsEvent("release") /\ pc = "run" /\ MRelease(Ev.kind, Ev.id)
            /\ UNCHANGED <<api, pc, pos, failed, ret, out, expect>>
TEnd == /\ IsEvent("end") /\ pc = "run"
        /\ MEnd(IF Ev.ret_ok THEN "ok" ELSE "error", IF Ev.produced THEN "produced" ELSE "nothing")
        /\ pc' = "done" /\ UNCHANGED <<api, pos, live, failed, bad, expect>>
TraceNext == TBegin \/ TAlloc \/ TRelease \/ TEnd
TraceSpec == TraceInit /\ [][TraceNext]_tvars

\* without an injected failure the call behaves normally (right password matches, wrong one does not)
TrCompletes == (pc = "done" /\ ~failed) => (ret = expect /\ (out = "produced") = (expect = "ok"))
\* a wrong password never matches, with or without failures
NeverFalseMatch == (pc = "done" /\ expect = "error") => (ret = "error" /\ out = "nothing")

TraceAccepted ==
  LET d == TLCGet("stats").diameter IN
  IF d - 1 = Len(Tr) THEN TRUE
  ELSE Print(<<"REJECTED at line", d, IF d <= Len(Tr) THEN Tr[d] ELSE "eof">>, FALSE)
=============================================================================
