CONSTANTS MaxSteps = 6
          CheckAddresses = TRUE
SPECIFICATION Spec
INVARIANTS NeverFlagged
CHECK_DEADLOCK FALSE
