---------------------------- MODULE TraceConstTime ----------------------------
(* C11, direction B: the report stream of the taint monitor (Valgrind memcheck with the secret operands marked
   undefined) recorded while harness/taint_driver.c runs the operations of ConstTime!Ops on the real library is
   validated line by line: operations are bracketed (op ... end), every operation of the table runs (at every
   length for those with a length), the monitor is alive (the two self-checks are reported), and every report
   inside an operation is a conditional jump on a declassified status in a function the table allows for it.
   A report of any other kind (address, syscall parameter, invalid access), in any other function, or outside
   an operation is a line no action of this specification can consume. *)
EXTENDS ConstTimeOps, TLC, Json, IOUtils
Tr == ndJsonDeserialize(IOEnv.TRACE)
VARIABLES l, cur, done, alive, aes, cnt
tvars == <<l, cur, done, alive, aes, cnt>>
Ev == Tr[l]
IsEvent(e) == l <= Len(Tr) /\ Tr[l].e = e /\ l' = l + 1

TraceInit == l = 1 /\ cur = "none" /\ done = {} /\ alive = {} /\ aes = FALSE /\ cnt = [o \in OpNames \cup DOMAIN SelfChecks |-> 0]
LensSeq == Tr[1].lens      \* the lengths the driver was asked to run, in order
TBegin == IsEvent("begin") /\ l = 1 /\ Ev.valgrind = 1 /\ aes' = (Ev.aes = 1) /\ UNCHANGED <<cur, done, alive, cnt>>
TOp == /\ IsEvent("op") /\ cur = "none" /\ l > 1
       /\ Ev.op \in OpNames \cup DOMAIN SelfChecks
       \* an operation with a length argument runs through the requested lengths in order, each exactly once
       /\ (Ev.op \in OpNames /\ OpOf(Ev.op).len) => (cnt[Ev.op] < Len(LensSeq) /\ Ev.len = LensSeq[cnt[Ev.op] + 1])
       /\ cur' = Ev.op /\ cnt' = [cnt EXCEPT ![Ev.op] = @ + 1] /\ UNCHANGED <<done, alive, aes>>
TReport == /\ IsEvent("report") /\ cur # "none"
           /\ IF cur \in DOMAIN SelfChecks
                THEN alive' = (IF Ev.kind = SelfChecks[cur] THEN alive \cup {cur} ELSE alive)
                ELSE ReportAllowed(cur, Ev.kind, Ev.fn, Ev.frames) /\ alive' = alive
           /\ UNCHANGED <<cur, done, aes, cnt>>
TEnd == /\ IsEvent("end") /\ cur = Ev.op
        /\ cur' = "none" /\ done' = done \cup {cur} /\ UNCHANGED <<alive, aes, cnt>>
TSkip == /\ IsEvent("skip") /\ cur = "none" /\ Ev.op \in NeedsAes /\ ~aes
         /\ done' = done \cup {Ev.op} /\ UNCHANGED <<cur, alive, aes, cnt>>
\* the run is complete: everything in the table ran and the monitor reported both self-checks
TDone == /\ IsEvent("done") /\ cur = "none"
         /\ OpNames \subseteq done
         /\ alive = DOMAIN SelfChecks
         /\ \A o \in Ops : (aes \/ o.op \notin NeedsAes) => cnt[o.op] = (IF o.len THEN Len(LensSeq) ELSE 1)
         /\ UNCHANGED <<cur, done, alive, aes, cnt>>
TraceNext == TBegin \/ TOp \/ TReport \/ TEnd \/ TSkip \/ TDone
TraceSpec == TraceInit /\ [][TraceNext]_tvars
TraceAccepted ==
  LET d == TLCGet("stats").diameter IN
  IF d - 1 = Len(Tr) THEN TRUE
  ELSE Print(<<"REJECTED at line", d, IF d <= Len(Tr) THEN Tr[d] ELSE "eof">>, FALSE)
=============================================================================
