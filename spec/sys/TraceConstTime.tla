---------------------------- MODULE TraceConstTime ----------------------------
(* C11, direction B: the report stream of the taint monitor (Valgrind memcheck with the secret operands marked
   undefined) recorded while harness/taint_driver.c runs the operations of ConstTime!Ops on the real library is
   validated line by line: operations are bracketed (op ... end), every operation of the table runs (at every
   length for those with a length), the monitor is alive (the two self-checks are reported), and every report
   inside an operation is a conditional jump on a declassified status in a function the table allows for it.
   A report of any other kind (address, syscall parameter, invalid access), in any other function, or outside
   an operation is a line no action of this specification can consume. *)
EXTENDS ConstTimeOps, TLC, Json, IOUtils
Tr == ndJsonDeserialize(IOEnv.TRACE)
VARIABLES l, cur, done, alive, aes, ran
tvars == <<l, cur, done, alive, aes, ran>>
Ev == Tr[l]
IsEvent(e) == l <= Len(Tr) /\ Tr[l].e = e /\ l' = l + 1

TraceInit == l = 1 /\ cur = "none" /\ done = {} /\ alive = {} /\ aes = FALSE /\ ran = {}
Lens == {Tr[1].lens[k] : k \in 1..Len(Tr[1].lens)}
TBegin == IsEvent("begin") /\ l = 1 /\ Ev.valgrind = 1 /\ aes' = (Ev.aes = 1) /\ UNCHANGED <<cur, done, alive, ran>>
TOp == /\ IsEvent("op") /\ cur = "none" /\ l > 1
       /\ Ev.op \in OpNames \cup DOMAIN SelfChecks
       /\ cur' = Ev.op /\ ran' = ran \cup {<<Ev.op, Ev.len>>} /\ UNCHANGED <<done, alive, aes>>
TReport == /\ IsEvent("report") /\ cur # "none"
           /\ IF cur \in DOMAIN SelfChecks
                THEN alive' = (IF Ev.kind = SelfChecks[cur] THEN alive \cup {cur} ELSE alive)
                ELSE ReportAllowed(cur, Ev.kind, Ev.fn, Ev.frames) /\ alive' = alive
           /\ UNCHANGED <<cur, done, aes, ran>>
TEnd == /\ IsEvent("end") /\ cur = Ev.op
        /\ cur' = "none" /\ done' = done \cup {cur} /\ UNCHANGED <<alive, aes, ran>>
TSkip == /\ IsEvent("skip") /\ cur = "none" /\ Ev.op \in NeedsAes /\ ~aes
         /\ done' = done \cup {Ev.op} /\ UNCHANGED <<cur, alive, aes, ran>>
\* the run is complete: everything in the table ran and the monitor reported both self-checks
TDone == /\ IsEvent("done") /\ cur = "none"
         /\ OpNames \subseteq done
         /\ alive = DOMAIN SelfChecks
         /\ \A o \in Ops : (o.len /\ (aes \/ o.op \notin NeedsAes)) => \A n \in Lens : <<o.op, n>> \in ran
         /\ UNCHANGED <<cur, done, alive, aes, ran>>
TraceNext == TBegin \/ TOp \/ TReport \/ TEnd \/ TSkip \/ TDone
TraceSpec == TraceInit /\ [][TraceNext]_tvars
TraceAccepted ==
  LET d == TLCGet("stats").diameter IN
  IF d - 1 = Len(Tr) THEN TRUE
  ELSE Print(<<"REJECTED at line", d, IF d <= Len(Tr) THEN Tr[d] ELSE "eof">>, FALSE)
=============================================================================
