------------------------- MODULE TraceArgon2Schedule -------------------------
(* Trace validation of the positions handed to fill_segment during real Argon2 runs (one run per "begin" .. "end"). T and P
   are taken from the begin event (the parameters the API was called with / the string carries). *)
EXTENDS Naturals, Sequences, TLC, Json, IOUtils
Tr == ndJsonDeserialize(IOEnv.TRACE)
VARIABLES l, t, p, pass, slice, lane, running
tvars == <<l, t, p, pass, slice, lane, running>>
Ev == Tr[l]
IsEvent(e) == l <= Len(Tr) /\ Tr[l].e = e /\ l' = l + 1
TraceInit == l = 1 /\ t = 0 /\ p = 1 /\ pass = 0 /\ slice = 0 /\ lane = 0 /\ running = FALSE
TBegin == IsEvent("begin") /\ ~running /\ t' = Ev.t /\ p' = Ev.p /\ pass' = 0 /\ slice' = 0 /\ lane' = 0 /\ running' = TRUE
\* Argon2Schedule!Segment with the reported position
TSeg == /\ IsEvent("seg") /\ running /\ pass < t
        /\ Ev.pass = pass /\ Ev.slice = slice /\ Ev.lane = lane
        /\ IF lane + 1 < p THEN lane' = lane + 1 /\ UNCHANGED <<slice, pass>>
           ELSE /\ lane' = 0
                /\ IF slice + 1 < 4 THEN slice' = slice + 1 /\ UNCHANGED pass
                   ELSE slice' = 0 /\ pass' = pass + 1
        /\ UNCHANGED <<t, p, running>>
\* the call returns only after every segment of every pass was filled
TEnd == IsEvent("end") /\ running /\ pass = t /\ slice = 0 /\ lane = 0 /\ Ev.ret = 0 /\ running' = FALSE /\ UNCHANGED <<t, p, pass, slice, lane>>
TraceNext == TBegin \/ TSeg \/ TEnd
TraceSpec == TraceInit /\ [][TraceNext]_tvars
TraceAccepted ==
  LET d == TLCGet("stats").diameter IN
  IF d - 1 = Len(Tr) THEN TRUE
  ELSE Print(<<"REJECTED at line", d, IF d <= Len(Tr) THEN Tr[d] ELSE "eof">>, FALSE)
=============================================================================
