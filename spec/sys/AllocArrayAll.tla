--------------------------- MODULE AllocArrayAll ---------------------------
(***************************************************************************)
(* C17 / C12 - the overflow rule of sodium_allocarray on the REAL word     *)
(* (64 bits) for every (count, size), decided symbolically by Apalache;    *)
(* sys/AllocArray.tla enumerates the same rule on a 9-bit word with TLC    *)
(* and sys/TraceGuardedAlloc.tla judges the recorded calls of the library. *)
(* Variant "wrapped" is the division-free shortcut that NoWrap must reject *)
(* (a wrapped product can exceed both factors); Apalache's counterexample  *)
(* for it is a concrete 64-bit (count, size) pair, which checks/C17.py     *)
(* feeds to the real sodium_allocarray as one more driver input.           *)
(***************************************************************************)
EXTENDS Integers

CONSTANTS
  \* @type: Str;
  Variant

VARIABLES
  \* @type: Int;
  count,
  \* @type: Int;
  size

SizeMax == 18446744073709551615
Word == 0 .. SizeMax

ConstInit == Variant \in {"code"}
ConstInitWrapped == Variant \in {"wrapped"}
ConstInitNoGuard == Variant \in {"noguard"}     \* broken: count = 0 not excluded from the division - modelled as "refuse when size >= SizeMax"
Init == count \in Word /\ size \in Word
Next == count' \in Word /\ size' \in Word

Wrapped(c, s) == (c * s) % (SizeMax + 1)
Refuses(c, s) ==
  CASE Variant = "wrapped" -> c > 0 /\ s > 0 /\ (Wrapped(c, s) < c \/ Wrapped(c, s) < s)
    [] Variant = "noguard" -> s >= SizeMax \div (IF c = 0 THEN 1 ELSE c)
    [] OTHER -> c > 0 /\ s >= SizeMax \div c

NoWrap == (count * size > SizeMax) => Refuses(count, size)
Exact == ~Refuses(count, size) => Wrapped(count, size) = count * size
NotOverStrict == Refuses(count, size) => count * size + count > SizeMax
AllOK == NoWrap /\ Exact /\ NotOverStrict
=============================================================================
