------------------------------- MODULE Contract -------------------------------
(***************************************************************************)
(* C12 - the memory contract of the public API.                            *)
(*                                                                         *)
(* For every (wrapped) public function: its byte-pointer arguments in      *)
(* prototype order, each with a role and the exact number of bytes the     *)
(* documentation lets the function touch, as a function of the length      *)
(* arguments l1, l2; the set of lengths at which it is exercised; and the  *)
(* class of result it must produce.  TLC enumerates Calls (the call space  *)
(* at its boundaries); harness/contract_driver.c executes every call on    *)
(* buffers of exactly these sizes between inaccessible pages / sanitizer   *)
(* red zones; spec/trace/OracleContract.tla judges every recorded outcome. *)
(*                                                                         *)
(* Roles: in  read-only input            inz  same, NULL allowed if size 0 *)
(*        out output                     outz same, NULL allowed if size 0 *)
(*        io  read and written           str  NUL-terminated input string  *)
(*        st  opaque state (aligned)     len  8-byte length/pointer result *)
(* A call is a sequence  Enter ; Access* ; Return  over a memory whose     *)
(* only mapped bytes are the argument buffers: an access outside them, or  *)
(* a write into an in/str buffer, is not a step of this specification      *)
(* (Step below); the driver reports such an access as outcome "signal" /   *)
(* "sanitizer" or frame = FALSE, which Allowed never contains.             *)
(***************************************************************************)
EXTENDS Naturals, Sequences, FiniteSets

CONSTANTS Dense,     \* every message length 0..Dense is enumerated
          Als        \* alignment offsets used in heap mode

B(r, n) == [role |-> r, size |-> n]
In(n) == B("in", n)      Inz(n) == B("inz", n)
Out(n) == B("out", n)    Outz(n) == B("outz", n)
Io(n) == B("io", n)      Str(n) == B("str", n)
St(n) == B("st", n)      LenP == B("len", 8)

StateBytes == [generichash |-> 384, sha256 |-> 104, sha512 |-> 208, hmacsha256 |-> 208, hmacsha512 |-> 416,
               hmacsha512256 |-> 416, onetimeauth |-> 256, sign |-> 208, secretstream |-> 52, aes256gcm |-> 512,
               hkdf256 |-> 208, hkdf512 |-> 416]

Around(S) == UNION {{n - 1, n, n + 1} : n \in S}
Lm  == (0..Dense) \cup Around({128, 192, 256, 320, 384, 448, 512, 576, 640, 768, 1024, 2048, 4096})
Ls  == {0, 1, 2, 15, 16, 17, 31, 32, 33, 47, 63, 64, 65, 111, 112, 113, 127, 128, 129, 255, 256, 257, 1000}
Lt  == {0, 1, 16, 33, 64, 127, 128, 129}                  \* for slow functions
Lad == {0, 1, 15, 16, 17, 40}
Z   == {0}

ResOf(code, c) == CASE code = "ok" -> "ok"
                    [] code = "open" -> (IF c = 1 THEN "ok" ELSE "fail")
                    [] code = "try" -> (IF c = 1 THEN "ok" ELSE "any")
                    [] code = "fail" -> "fail"
                    [] OTHER -> "any"

Mk(fn, L1, L2, CM, code, F(_, _)) ==
  {[fn |-> fn, l1 |-> a, l2 |-> b, cm |-> c, bufs |-> F(a, b), res |-> ResOf(code, c), opt |-> FALSE] : a \in L1, b \in L2, c \in CM}
MkOpt(fn, L1, L2, CM, code, F(_, _)) ==
  {[e EXCEPT !.opt = TRUE] : e \in Mk(fn, L1, L2, CM, code, F)}
Min(a, b) == IF a < b THEN a ELSE b

-----------------------------------------------------------------------------
(* hashes, MACs, KDFs *)
Hash ==
  Mk("crypto_hash_sha256", Lm, Z, Z, "ok", LAMBDA a, b : <<Out(32), Inz(a)>>) \cup
  Mk("crypto_hash_sha512", Lm, Z, Z, "ok", LAMBDA a, b : <<Out(64), Inz(a)>>) \cup
  Mk("crypto_hash", Ls, Z, Z, "ok", LAMBDA a, b : <<Out(64), Inz(a)>>) \cup
  Mk("crypto_generichash", Lm, {16, 17, 32, 63, 64}, Z, "ok", LAMBDA a, b : <<Out(b), Inz(a)>>) \cup
  Mk("crypto_generichash_keyed", Ls, {16, 32, 64}, Z, "ok", LAMBDA a, b : <<Out(32), Inz(a), In(b)>>) \cup
  Mk("crypto_generichash_blake2b_salt_personal", Ls, Z, Z, "ok", LAMBDA a, b : <<Out(32), Inz(a), In(32), In(16), In(16)>>) \cup
  Mk("crypto_generichash_multi", Lm, {0, 1, 64, 128, 129}, Z, "ok", LAMBDA a, b : <<St(StateBytes.generichash), Out(32), Inz(a)>>) \cup
  Mk("crypto_generichash_multi_keyed", Ls, {16, 64}, Z, "ok", LAMBDA a, b : <<St(StateBytes.generichash), Out(64), Inz(a), In(b)>>) \cup
  Mk("crypto_hash_sha256_multi", Lm, {0, 1, 55, 64}, Z, "ok", LAMBDA a, b : <<St(StateBytes.sha256), Out(32), Inz(a)>>) \cup
  Mk("crypto_hash_sha512_multi", Lm, {0, 1, 111, 128}, Z, "ok", LAMBDA a, b : <<St(StateBytes.sha512), Out(64), Inz(a)>>) \cup
  Mk("crypto_auth_hmacsha256", Lm, Z, Z, "ok", LAMBDA a, b : <<Out(32), Inz(a), In(32)>>) \cup
  Mk("crypto_auth_hmacsha256_verify", Ls, Z, {0, 1}, "open", LAMBDA a, b : <<In(32), Inz(a), In(32)>>) \cup
  Mk("crypto_auth_hmacsha512", Lm, Z, Z, "ok", LAMBDA a, b : <<Out(64), Inz(a), In(32)>>) \cup
  Mk("crypto_auth_hmacsha512_verify", Ls, Z, {0, 1}, "open", LAMBDA a, b : <<In(64), Inz(a), In(32)>>) \cup
  Mk("crypto_auth_hmacsha512256", Ls, Z, Z, "ok", LAMBDA a, b : <<Out(32), Inz(a), In(32)>>) \cup
  Mk("crypto_auth_hmacsha512256_verify", Ls, Z, {0, 1}, "open", LAMBDA a, b : <<In(32), Inz(a), In(32)>>) \cup
  Mk("crypto_auth", Ls, Z, Z, "ok", LAMBDA a, b : <<Out(32), Inz(a), In(32)>>) \cup
  Mk("crypto_auth_verify", Ls, Z, {0, 1}, "open", LAMBDA a, b : <<In(32), Inz(a), In(32)>>) \cup
  Mk("crypto_onetimeauth", Lm, Z, Z, "ok", LAMBDA a, b : <<Out(16), Inz(a), In(32)>>) \cup
  Mk("crypto_onetimeauth_verify", Ls, Z, {0, 1}, "open", LAMBDA a, b : <<In(16), Inz(a), In(32)>>) \cup
  Mk("crypto_auth_hmacsha256_multi", Ls, {0, 1, 32, 64, 65, 129}, Z, "ok", LAMBDA a, b : <<St(StateBytes.hmacsha256), Out(32), Inz(a), In(b)>>) \cup
  Mk("crypto_auth_hmacsha512_multi", Ls, {0, 1, 32, 128, 129, 200}, Z, "ok", LAMBDA a, b : <<St(StateBytes.hmacsha512), Out(64), Inz(a), In(b)>>) \cup
  Mk("crypto_auth_hmacsha512256_multi", Ls, {0, 32, 129}, Z, "ok", LAMBDA a, b : <<St(StateBytes.hmacsha512256), Out(32), Inz(a), In(b)>>) \cup
  Mk("crypto_onetimeauth_multi", Lm, {0, 1, 15, 16, 17, 64}, Z, "ok", LAMBDA a, b : <<St(StateBytes.onetimeauth), Out(16), Inz(a), In(32)>>) \cup
  Mk("crypto_shorthash", Lm, Z, Z, "ok", LAMBDA a, b : <<Out(8), Inz(a), In(16)>>) \cup
  Mk("crypto_shorthash_siphashx24", Lm, Z, Z, "ok", LAMBDA a, b : <<Out(16), Inz(a), In(16)>>) \cup
  Mk("crypto_kdf_derive_from_key", {0, 1, 77}, {16, 17, 32, 63, 64}, Z, "ok", LAMBDA a, b : <<Out(b), In(8), In(32)>>) \cup
  Mk("crypto_kdf_hkdf_sha256_extract", Ls, {0, 1, 32, 65}, Z, "ok", LAMBDA a, b : <<Out(32), Inz(b), In(a)>>) \cup
  Mk("crypto_kdf_hkdf_sha512_extract", Ls, {0, 1, 64, 129}, Z, "ok", LAMBDA a, b : <<Out(64), Inz(b), Inz(a)>>) \cup
  Mk("crypto_kdf_hkdf_sha256_expand", Ls \cup {8159, 8160}, {0, 1, 40}, Z, "ok", LAMBDA a, b : <<Out(a), Inz(b), In(32)>>) \cup
  Mk("crypto_kdf_hkdf_sha512_expand", Ls \cup {16319, 16320}, {0, 1, 40}, Z, "ok", LAMBDA a, b : <<Out(a), Inz(b), In(64)>>) \cup
  Mk("crypto_kdf_hkdf_sha256_extract_multi", Ls, {0, 32, 65}, Z, "ok", LAMBDA a, b : <<St(StateBytes.hkdf256), Out(32), Inz(b), In(a)>>) \cup
  Mk("crypto_kdf_hkdf_sha512_extract_multi", Ls, {0, 64, 129}, Z, "ok", LAMBDA a, b : <<St(StateBytes.hkdf512), Out(64), Inz(b), In(a)>>) \cup
  Mk("crypto_core_hchacha20", Z, Z, Z, "ok", LAMBDA a, b : <<Out(32), In(16), In(32)>>) \cup
  Mk("crypto_core_hchacha20_c", Z, Z, Z, "ok", LAMBDA a, b : <<Out(32), In(16), In(32), In(16)>>) \cup
  Mk("crypto_core_hsalsa20", Z, Z, Z, "ok", LAMBDA a, b : <<Out(32), In(16), In(32)>>) \cup
  Mk("crypto_core_hsalsa20_c", Z, Z, Z, "ok", LAMBDA a, b : <<Out(32), In(16), In(32), In(16)>>) \cup
  Mk("crypto_core_salsa20", Z, Z, Z, "ok", LAMBDA a, b : <<Out(64), In(16), In(32)>>) \cup
  Mk("crypto_core_salsa2012", Z, Z, Z, "ok", LAMBDA a, b : <<Out(64), In(16), In(32), In(16)>>) \cup
  Mk("crypto_core_salsa208", Z, Z, Z, "ok", LAMBDA a, b : <<Out(64), In(16), In(32), In(16)>>)

-----------------------------------------------------------------------------
(* stream ciphers: prefix, nonce bytes, has _xor_ic *)
Streams == {<<"crypto_stream_chacha20", 8, TRUE>>, <<"crypto_stream_chacha20_ietf", 12, TRUE>>, <<"crypto_stream_xchacha20", 24, TRUE>>,
            <<"crypto_stream_salsa20", 8, TRUE>>, <<"crypto_stream_xsalsa20", 24, TRUE>>, <<"crypto_stream_salsa2012", 8, FALSE>>,
            <<"crypto_stream_salsa208", 8, FALSE>>, <<"crypto_stream", 24, FALSE>>}
StreamOf(s) ==
  Mk(s[1], Lm, Z, Z, "ok", LAMBDA a, b : <<Out(a), In(s[2]), In(32)>>) \cup
  Mk(s[1] \o "_xor", Lm, Z, Z, "ok", LAMBDA a, b : <<Out(a), In(a), In(s[2]), In(32)>>) \cup
  (IF s[3] THEN Mk(s[1] \o "_xor_ic", Ls, {0, 1, 255}, Z, "ok", LAMBDA a, b : <<Out(a), In(a), In(s[2]), In(32)>>) ELSE {})

(* secretbox-like constructions: c = mac(16) || body *)
SBoxes == {"crypto_secretbox", "crypto_secretbox_xchacha20poly1305"}
SBoxOf(p) ==
  Mk(p \o "_easy", Lm, Z, Z, "ok", LAMBDA a, b : <<Out(a + 16), Inz(a), In(24), In(32)>>) \cup
  Mk(p \o "_open_easy", Lm, Z, {0, 1}, "open", LAMBDA a, b : <<Outz(a), In(a + 16), In(24), In(32)>>) \cup
  Mk(p \o "_open_easy_short", 0..15, Z, Z, "fail", LAMBDA a, b : <<Outz(0), In(a), In(24), In(32)>>) \cup
  Mk(p \o "_detached", Lm, Z, Z, "ok", LAMBDA a, b : <<Out(a), Out(16), Inz(a), In(24), In(32)>>) \cup
  Mk(p \o "_open_detached", Lm, Z, {0, 1}, "open", LAMBDA a, b : <<Outz(a), In(a), In(16), In(24), In(32)>>)
SBoxNaCl ==
  Mk("crypto_secretbox_nacl", Ls, Z, Z, "any", LAMBDA a, b : <<Out(a), Inz(a), In(24), In(32)>>) \cup
  Mk("crypto_secretbox_open_nacl", Ls, Z, {0, 1}, "any", LAMBDA a, b : <<Outz(a), In(a), In(24), In(32)>>)

Boxes == {"crypto_box", "crypto_box_curve25519xchacha20poly1305"}
BoxOf(p) ==
  Mk(p \o "_easy", Ls, Z, {0, 1}, "try", LAMBDA a, b : <<Out(a + 16), Inz(a), In(24), In(32), In(32)>>) \cup
  Mk(p \o "_open_easy", Ls, Z, {0, 1}, "open", LAMBDA a, b : <<Outz(a), In(a + 16), In(24), In(32), In(32)>>) \cup
  Mk(p \o "_easy_afternm", Ls, Z, Z, "ok", LAMBDA a, b : <<Out(a + 16), Inz(a), In(24), In(32)>>) \cup
  Mk(p \o "_open_easy_afternm", Ls, Z, {0, 1}, "open", LAMBDA a, b : <<Outz(a), In(a + 16), In(24), In(32)>>) \cup
  Mk(p \o "_detached", Ls, Z, {0, 1}, "try", LAMBDA a, b : <<Out(a), Out(16), Inz(a), In(24), In(32), In(32)>>) \cup
  Mk(p \o "_open_detached", Ls, Z, {0, 1}, "open", LAMBDA a, b : <<Outz(a), In(a), In(16), In(24), In(32), In(32)>>) \cup
  Mk(p \o "_seal", Ls, Z, {0, 1}, "try", LAMBDA a, b : <<Out(a + 48), Inz(a), In(32)>>) \cup
  Mk(p \o "_seal_open", Ls, Z, {0, 1}, "open", LAMBDA a, b : <<Outz(a), In(a + 48), In(32), In(32)>>) \cup
  Mk(p \o "_seal_open_short", {0, 1, 31, 32, 47}, Z, Z, "fail", LAMBDA a, b : <<Outz(0), In(a), In(32), In(32)>>)
BoxKeys ==
  Mk("crypto_box_keypair", Z, Z, Z, "ok", LAMBDA a, b : <<Out(32), Out(32)>>) \cup
  Mk("crypto_box_seed_keypair", Z, Z, Z, "ok", LAMBDA a, b : <<Out(32), Out(32), In(32)>>) \cup
  Mk("crypto_box_beforenm", Z, Z, {0, 1}, "try", LAMBDA a, b : <<Out(32), In(32), In(32)>>)

(* AEADs: prefix, tag bytes, nonce bytes, key bytes, may be unavailable on this CPU *)
\* ... , supports "m = NULL: verify the tag only"
Aeads == {<<"crypto_aead_chacha20poly1305", 16, 8, 32, FALSE, TRUE>>, <<"crypto_aead_chacha20poly1305_ietf", 16, 12, 32, FALSE, TRUE>>,
          <<"crypto_aead_xchacha20poly1305_ietf", 16, 24, 32, FALSE, TRUE>>, <<"crypto_aead_aes256gcm", 16, 12, 32, TRUE, TRUE>>,
          <<"crypto_aead_aegis128l", 32, 16, 16, FALSE, FALSE>>, <<"crypto_aead_aegis256", 32, 32, 32, FALSE, FALSE>>}
MkA(x, fn, L1, L2, CM, code, F(_, _)) == IF x[5] THEN MkOpt(fn, L1, L2, CM, code, F) ELSE Mk(fn, L1, L2, CM, code, F)
AeadOf(x) ==
  MkA(x, x[1] \o "_encrypt", Lm, Lad, Z, "ok", LAMBDA a, b : <<Out(a + x[2]), LenP, Inz(a), Inz(b), In(x[3]), In(x[4])>>) \cup
  MkA(x, x[1] \o "_encrypt_nolen", Ls, {0, 17}, Z, "ok", LAMBDA a, b : <<Out(a + x[2]), Inz(a), Inz(b), In(x[3]), In(x[4])>>) \cup
  MkA(x, x[1] \o "_decrypt", Lm, Lad, {0, 1}, "open", LAMBDA a, b : <<Outz(a), LenP, In(a + x[2]), Inz(b), In(x[3]), In(x[4])>>) \cup
  MkA(x, x[1] \o "_decrypt_short", 0..(x[2] - 1), {0, 17}, Z, "fail", LAMBDA a, b : <<Outz(0), LenP, In(a), Inz(b), In(x[3]), In(x[4])>>) \cup
  MkA(x, x[1] \o "_encrypt_detached", Lm, {0, 17}, Z, "ok", LAMBDA a, b : <<Out(a), Out(x[2]), LenP, Inz(a), Inz(b), In(x[3]), In(x[4])>>) \cup
  MkA(x, x[1] \o "_decrypt_detached", Lm, {0, 17}, {0, 1}, "open", LAMBDA a, b : <<Outz(a), In(a), In(x[2]), Inz(b), In(x[3]), In(x[4])>>) \cup
  (IF x[6] THEN
     MkA(x, x[1] \o "_decrypt_verifyonly", Lm, Lad, {0, 1}, "open", LAMBDA a, b : <<LenP, In(a + x[2]), Inz(b), In(x[3]), In(x[4])>>) \cup
     MkA(x, x[1] \o "_decrypt_detached_verifyonly", Lm, Lad, {0, 1}, "open", LAMBDA a, b : <<In(a), In(x[2]), Inz(b), In(x[3]), In(x[4])>>)
   ELSE {})
AesNm ==
  MkOpt("crypto_aead_aes256gcm_beforenm", Z, Z, Z, "ok", LAMBDA a, b : <<St(StateBytes.aes256gcm), In(32)>>) \cup
  MkOpt("crypto_aead_aes256gcm_encrypt_afternm", Ls, {0, 17}, Z, "ok", LAMBDA a, b : <<Out(a + 16), LenP, Inz(a), Inz(b), In(12), St(StateBytes.aes256gcm)>>) \cup
  MkOpt("crypto_aead_aes256gcm_decrypt_afternm", Ls, {0, 17}, {0, 1}, "open", LAMBDA a, b : <<Outz(a), LenP, In(a + 16), Inz(b), In(12), St(StateBytes.aes256gcm)>>)

SStream ==
  Mk("crypto_secretstream_xchacha20poly1305_init_push", Z, Z, Z, "ok", LAMBDA a, b : <<St(StateBytes.secretstream), Out(24), In(32)>>) \cup
  Mk("crypto_secretstream_xchacha20poly1305_init_pull", Z, Z, Z, "ok", LAMBDA a, b : <<St(StateBytes.secretstream), In(24), In(32)>>) \cup
  Mk("crypto_secretstream_xchacha20poly1305_push", Lm, {0, 17}, {0, 1}, "ok", LAMBDA a, b : <<St(StateBytes.secretstream), Out(a + 17), LenP, Inz(a), Inz(b)>>) \cup
  Mk("crypto_secretstream_xchacha20poly1305_pull", Lm, {0, 17}, {0, 1}, "open", LAMBDA a, b : <<St(StateBytes.secretstream), Outz(a), LenP, Out(1), In(a + 17), Inz(b)>>) \cup
  Mk("crypto_secretstream_xchacha20poly1305_pull_short", 0..16, Z, Z, "fail", LAMBDA a, b : <<St(StateBytes.secretstream), Outz(0), LenP, Out(1), In(a)>>) \cup
  Mk("crypto_secretstream_xchacha20poly1305_rekey", Z, Z, Z, "ok", LAMBDA a, b : <<St(StateBytes.secretstream)>>)


-----------------------------------------------------------------------------
(* signatures, scalar multiplication, groups, key exchange *)
Sign ==
  Mk("crypto_sign_keypair", Z, Z, Z, "ok", LAMBDA a, b : <<Out(32), Out(64)>>) \cup
  Mk("crypto_sign_seed_keypair", Z, Z, Z, "ok", LAMBDA a, b : <<Out(32), Out(64), In(32)>>) \cup
  Mk("crypto_sign", Ls, Z, {0, 1}, "ok", LAMBDA a, b : <<Out(a + 64), LenP, Inz(a), In(64)>>) \cup
  Mk("crypto_sign_open", Ls, Z, {0, 1}, "open", LAMBDA a, b : <<Outz(a), LenP, In(a + 64), In(32)>>) \cup
  Mk("crypto_sign_open_short", {0, 1, 63}, Z, Z, "fail", LAMBDA a, b : <<Outz(0), LenP, In(a), In(32)>>) \cup
  Mk("crypto_sign_open_verifyonly", Ls, Z, {0, 1}, "open", LAMBDA a, b : <<LenP, In(a + 64), In(32)>>) \cup
  Mk("crypto_sign_detached", Ls, Z, {0, 1}, "ok", LAMBDA a, b : <<Out(64), LenP, Inz(a), In(64)>>) \cup
  Mk("crypto_sign_verify_detached", Ls, Z, {0, 1}, "open", LAMBDA a, b : <<In(64), Inz(a), In(32)>>) \cup
  Mk("crypto_sign_multi_create", Ls, {0, 1, 128}, Z, "ok", LAMBDA a, b : <<St(StateBytes.sign), Out(64), LenP, Inz(a), In(64)>>) \cup
  Mk("crypto_sign_multi_verify", Ls, Z, {0, 1}, "open", LAMBDA a, b : <<St(StateBytes.sign), In(64), Inz(a), In(32)>>) \cup
  Mk("crypto_sign_ed25519_pk_to_curve25519", Z, Z, {0, 1}, "try", LAMBDA a, b : <<Out(32), In(32)>>) \cup
  Mk("crypto_sign_ed25519_sk_to_curve25519", Z, Z, Z, "ok", LAMBDA a, b : <<Out(32), In(64)>>) \cup
  Mk("crypto_sign_ed25519_sk_to_seed", Z, Z, Z, "ok", LAMBDA a, b : <<Out(32), In(64)>>) \cup
  Mk("crypto_sign_ed25519_sk_to_pk", Z, Z, Z, "ok", LAMBDA a, b : <<Out(32), In(64)>>)

Rep == 0..3   \* l1 only repeats the call with fresh contents
ScalarMult ==
  Mk("crypto_scalarmult", Rep, Z, {0, 1}, "try", LAMBDA a, b : <<Out(32), In(32), In(32)>>) \cup
  Mk("crypto_scalarmult_base", Rep, Z, Z, "ok", LAMBDA a, b : <<Out(32), In(32)>>) \cup
  Mk("crypto_scalarmult_ed25519", Rep, Z, {0, 1}, "try", LAMBDA a, b : <<Out(32), In(32), In(32)>>) \cup
  Mk("crypto_scalarmult_ed25519_noclamp", Rep, Z, {0, 1}, "any", LAMBDA a, b : <<Out(32), In(32), In(32)>>) \cup
  Mk("crypto_scalarmult_ristretto255", Rep, Z, {0, 1}, "any", LAMBDA a, b : <<Out(32), In(32), In(32)>>) \cup
  Mk("crypto_scalarmult_ed25519_base", Rep, Z, Z, "ok", LAMBDA a, b : <<Out(32), In(32)>>) \cup
  Mk("crypto_scalarmult_ed25519_base_noclamp", Rep, Z, Z, "any", LAMBDA a, b : <<Out(32), In(32)>>) \cup
  Mk("crypto_scalarmult_ristretto255_base", Rep, Z, Z, "any", LAMBDA a, b : <<Out(32), In(32)>>)

Groups == {<<"crypto_core_ed25519", 32>>, <<"crypto_core_ristretto255", 64>>}
GroupOf(g) ==
  Mk(g[1] \o "_is_valid_point", Rep, Z, {0, 1}, "try", LAMBDA a, b : <<In(32)>>) \cup
  Mk(g[1] \o "_add", Rep, Z, {0, 1}, "try", LAMBDA a, b : <<Out(32), In(32), In(32)>>) \cup
  Mk(g[1] \o "_sub", Rep, Z, {0, 1}, "try", LAMBDA a, b : <<Out(32), In(32), In(32)>>) \cup
  Mk(g[1] \o "_random", Rep, Z, Z, "ok", LAMBDA a, b : <<Out(32)>>) \cup
  Mk(g[1] \o "_from_string", Ls, {0, 1, 10, 255, 256, 300}, {0, 1}, "ok", LAMBDA a, b : <<Out(32), Str(b + 1), Inz(a)>>) \cup
  Mk(g[1] \o "_from_string_ro", Lt, {0, 10, 256}, {0, 1}, "ok", LAMBDA a, b : <<Out(32), Str(b + 1), Inz(a)>>) \cup
  Mk(g[1] \o "_from_string_nullctx", Lt, Z, {0, 1}, "ok", LAMBDA a, b : <<Out(32), Inz(a)>>) \cup
  Mk(g[1] \o "_scalar_random", Rep, Z, Z, "ok", LAMBDA a, b : <<Out(32)>>) \cup
  Mk(g[1] \o "_scalar_invert", Rep, Z, Z, "any", LAMBDA a, b : <<Out(32), In(32)>>) \cup
  Mk(g[1] \o "_scalar_negate", Rep, Z, Z, "ok", LAMBDA a, b : <<Out(32), In(32)>>) \cup
  Mk(g[1] \o "_scalar_complement", Rep, Z, Z, "ok", LAMBDA a, b : <<Out(32), In(32)>>) \cup
  Mk(g[1] \o "_scalar_add", Rep, Z, Z, "ok", LAMBDA a, b : <<Out(32), In(32), In(32)>>) \cup
  Mk(g[1] \o "_scalar_sub", Rep, Z, Z, "ok", LAMBDA a, b : <<Out(32), In(32), In(32)>>) \cup
  Mk(g[1] \o "_scalar_mul", Rep, Z, Z, "ok", LAMBDA a, b : <<Out(32), In(32), In(32)>>) \cup
  Mk(g[1] \o "_scalar_reduce", Rep, Z, Z, "ok", LAMBDA a, b : <<Out(32), In(64)>>) \cup
  Mk(g[1] \o "_scalar_is_canonical", Rep, Z, Z, "ok", LAMBDA a, b : <<In(32)>>)
GroupMaps ==
  Mk("crypto_core_ed25519_from_uniform", Rep, Z, Z, "ok", LAMBDA a, b : <<Out(32), In(32)>>) \cup
  Mk("crypto_core_ristretto255_from_hash", Rep, Z, Z, "ok", LAMBDA a, b : <<Out(32), In(64)>>)
Kx ==
  Mk("crypto_kx_keypair", Z, Z, Z, "ok", LAMBDA a, b : <<Out(32), Out(32)>>) \cup
  Mk("crypto_kx_seed_keypair", Z, Z, Z, "ok", LAMBDA a, b : <<Out(32), Out(32), In(32)>>) \cup
  Mk("crypto_kx_client_session_keys", Rep, Z, {0, 1}, "try", LAMBDA a, b : <<Out(32), Out(32), In(32), In(32), In(32)>>) \cup
  Mk("crypto_kx_server_session_keys", Rep, Z, {0, 1}, "try", LAMBDA a, b : <<Out(32), Out(32), In(32), In(32), In(32)>>) \cup
  Mk("crypto_kx_client_session_keys_rxonly", Rep, Z, Z, "any", LAMBDA a, b : <<Out(32), In(32), In(32), In(32)>>)


-----------------------------------------------------------------------------
(* helpers, codecs, padding, random, password hashing *)
B64Len(n, v) == IF v \in {1, 5} THEN ((n + 2) \div 3) * 4 + 1
                ELSE (n \div 3) * 4 + (IF n % 3 = 0 THEN 0 ELSE (n % 3) + 1) + 1
Lc == (0..Min(Dense, 40)) \cup {63, 64, 65, 66, 67, 255, 256, 257, 1000}
CapsFor(n) == {0, 1, n \div 2, (n * 3) \div 4, n}
B64Of(v) ==
  LET s == CASE v = 1 -> "_v1" [] v = 3 -> "_v3" [] v = 5 -> "_v5" [] OTHER -> "_v7" IN
  Mk("sodium_bin2base64" \o s, Lc, Z, Z, "ok", LAMBDA a, b : <<Out(B64Len(a, v)), Inz(a)>>) \cup
  Mk("sodium_base642bin" \o s, Lc, {0, 1, 30, 48, 800}, 0..3, "any", LAMBDA a, b : <<Outz(b), Inz(a), LenP>>) \cup
  Mk("sodium_base642bin_ign" \o s, Lc, {0, 30, 800}, {0, 1, 2, 3}, "any", LAMBDA a, b : <<Outz(b), Inz(a), Str(3), LenP, LenP>>)
PadCap(n, bs) == (n \div bs + 1) * bs
Utils ==
  Mk("sodium_memcmp", Lm, Z, Z, "ok", LAMBDA a, b : <<Inz(a), Inz(a)>>) \cup
  Mk("sodium_compare", Lm, Z, Z, "ok", LAMBDA a, b : <<Inz(a), Inz(a)>>) \cup
  Mk("sodium_is_zero", Lm, Z, {0, 1}, "ok", LAMBDA a, b : <<Inz(a)>>) \cup
  Mk("sodium_increment", Lm, Z, Z, "ok", LAMBDA a, b : <<B("ioz", a)>>) \cup
  Mk("sodium_add", Lm, Z, Z, "ok", LAMBDA a, b : <<B("ioz", a), Inz(a)>>) \cup
  Mk("sodium_sub", Lm, Z, Z, "ok", LAMBDA a, b : <<B("ioz", a), Inz(a)>>) \cup
  Mk("sodium_memzero", Lm, Z, Z, "ok", LAMBDA a, b : <<Outz(a)>>) \cup
  Mk("sodium_mlock", {1, 64, 4096, 5000}, Z, Z, "any", LAMBDA a, b : <<Io(a)>>) \cup
  Mk("crypto_verify_16", Rep, Z, {0, 1}, "open", LAMBDA a, b : <<In(16), In(16)>>) \cup
  Mk("crypto_verify_32", Rep, Z, {0, 1}, "open", LAMBDA a, b : <<In(32), In(32)>>) \cup
  Mk("crypto_verify_64", Rep, Z, {0, 1}, "open", LAMBDA a, b : <<In(64), In(64)>>) \cup
  Mk("randombytes_buf", Lm, Z, Z, "ok", LAMBDA a, b : <<Out(a)>>) \cup
  Mk("randombytes_buf_deterministic", Lm, Z, Z, "ok", LAMBDA a, b : <<Out(a), In(32)>>) \cup
  Mk("sodium_bin2hex", Lm, Z, Z, "ok", LAMBDA a, b : <<Out(2 * a + 1), Inz(a)>>) \cup
  Mk("sodium_hex2bin", Lc, {0, 1, 20, 500}, 0..3, "any", LAMBDA a, b : <<Outz(b), Inz(a), LenP>>) \cup
  Mk("sodium_hex2bin_nolen", Lc, {0, 20, 500}, {0, 1}, "any", LAMBDA a, b : <<Outz(b), Inz(a)>>) \cup
  Mk("sodium_hex2bin_ign", Lc, {0, 20, 500}, 0..3, "any", LAMBDA a, b : <<Outz(b), Inz(a), Str(3), LenP, LenP>>) \cup
  UNION {B64Of(v) : v \in {1, 3, 5, 7}} \cup
  Mk("sodium_pad", Lc, {1, 2, 7, 8, 16, 64, 100}, Z, "ok", LAMBDA a, b : <<LenP, Io(PadCap(a, b))>>) \cup
  Mk("sodium_pad_small", Lc, {1, 2, 7, 8, 16, 64, 100}, Z, "fail", LAMBDA a, b : <<LenP, Io(PadCap(a, b) - 1)>>) \cup
  Mk("sodium_pad_nolen", Lc, {1, 16}, Z, "ok", LAMBDA a, b : <<Io(PadCap(a, b))>>) \cup
  Mk("sodium_unpad", Lc, {1, 2, 7, 8, 16, 64}, {0, 1}, "any", LAMBDA a, b : <<LenP, In(a)>>)

StrLens == {0, 1, 8, 9, 10, 17, 26, 27, 28, 29, 30, 50, 51, 52, 73, 74, 96, 97, 98, 100, 101, 102, 126, 127}
Pwhash ==
  Mk("crypto_pwhash_argon2id_raw", Lt, {16, 17, 32, 64, 65, 128}, Z, "ok", LAMBDA a, b : <<Out(b), In(a), In(16)>>) \cup
  Mk("crypto_pwhash_argon2i_raw", Lt, {16, 64, 100}, Z, "ok", LAMBDA a, b : <<Out(b), In(a), In(16)>>) \cup
  Mk("crypto_pwhash_str", Lt, Z, Z, "ok", LAMBDA a, b : <<Out(128), In(a)>>) \cup
  Mk("crypto_pwhash_str_alg_argon2i", Lt, Z, Z, "ok", LAMBDA a, b : <<Out(128), In(a)>>) \cup
  Mk("crypto_pwhash_str_verify", {0, 7}, {126, 127}, {1}, "ok", LAMBDA a, b : <<Str(128), In(a)>>) \cup
  Mk("crypto_pwhash_str_verify", {0, 7}, StrLens, {0, 2, 3}, "any", LAMBDA a, b : <<Str(b + 1), In(a)>>) \cup
  Mk("crypto_pwhash_str_needs_rehash", Z, {126, 127}, {1}, "any", LAMBDA a, b : <<Str(128)>>) \cup
  Mk("crypto_pwhash_str_needs_rehash", Z, StrLens, {0, 2, 3}, "any", LAMBDA a, b : <<Str(b + 1)>>) \cup
  Mk("crypto_pwhash_scryptsalsa208sha256", {0, 7, 65}, {16, 33, 64}, Z, "ok", LAMBDA a, b : <<Out(b), In(a), In(32)>>) \cup
  Mk("crypto_pwhash_scryptsalsa208sha256_str", {0, 7, 65}, Z, Z, "ok", LAMBDA a, b : <<Out(102), In(a)>>) \cup
  Mk("crypto_pwhash_scryptsalsa208sha256_str_verify", {7}, {101}, {1}, "ok", LAMBDA a, b : <<Str(102), In(a)>>) \cup
  Mk("crypto_pwhash_scryptsalsa208sha256_str_verify", {7}, StrLens, {0, 2, 3}, "any", LAMBDA a, b : <<Str(b + 1), In(a)>>) \cup
  Mk("crypto_pwhash_scryptsalsa208sha256_str_needs_rehash", Z, StrLens, {0, 2, 3}, "any", LAMBDA a, b : <<Str(b + 1)>>) \cup
  Mk("crypto_pwhash_scryptsalsa208sha256_ll", Lt, {0, 1, 32, 65}, Z, "ok", LAMBDA a, b : <<In(a), In(b), Out(64)>>)

-----------------------------------------------------------------------------

-----------------------------------------------------------------------------
(* key generators, primitive-named entry points, NaCl-style (zero-padded) box / secretbox, detached_afternm *)
KeyGens == {<<"crypto_aead_aegis128l_keygen", 16>>, <<"crypto_aead_aegis256_keygen", 32>>, <<"crypto_aead_aes256gcm_keygen", 32>>,
            <<"crypto_aead_chacha20poly1305_ietf_keygen", 32>>, <<"crypto_aead_chacha20poly1305_keygen", 32>>, <<"crypto_aead_xchacha20poly1305_ietf_keygen", 32>>,
            <<"crypto_auth_hmacsha256_keygen", 32>>, <<"crypto_auth_hmacsha512256_keygen", 32>>, <<"crypto_auth_hmacsha512_keygen", 32>>, <<"crypto_auth_keygen", 32>>,
            <<"crypto_generichash_blake2b_keygen", 32>>, <<"crypto_generichash_keygen", 32>>, <<"crypto_kdf_hkdf_sha256_keygen", 32>>, <<"crypto_kdf_hkdf_sha512_keygen", 64>>,
            <<"crypto_kdf_keygen", 32>>, <<"crypto_onetimeauth_keygen", 32>>, <<"crypto_onetimeauth_poly1305_keygen", 32>>, <<"crypto_secretbox_keygen", 32>>,
            <<"crypto_secretbox_xsalsa20poly1305_keygen", 32>>, <<"crypto_secretstream_xchacha20poly1305_keygen", 32>>, <<"crypto_shorthash_keygen", 16>>,
            <<"crypto_stream_chacha20_ietf_keygen", 32>>, <<"crypto_stream_chacha20_keygen", 32>>, <<"crypto_stream_keygen", 32>>, <<"crypto_stream_salsa2012_keygen", 32>>,
            <<"crypto_stream_salsa208_keygen", 32>>, <<"crypto_stream_salsa20_keygen", 32>>, <<"crypto_stream_xchacha20_keygen", 32>>, <<"crypto_stream_xsalsa20_keygen", 32>>}
NaClBoxOf(n) ==
  Mk(n, Ls, Z, {0, 1}, "any", LAMBDA a, b : <<Out(a), Inz(a), In(24), In(32), In(32)>>) \cup
  Mk(n \o "_open", Ls, Z, {0, 1}, "any", LAMBDA a, b : <<Outz(a), In(a), In(24), In(32), In(32)>>) \cup
  Mk(n \o "_afternm", Ls, Z, Z, "any", LAMBDA a, b : <<Out(a), Inz(a), In(24), In(32)>>) \cup
  Mk(n \o "_open_afternm", Ls, Z, {0, 1}, "any", LAMBDA a, b : <<Outz(a), In(a), In(24), In(32)>>)
BoxKeysOf(p) ==
  Mk(p \o "_keypair", Z, Z, Z, "ok", LAMBDA a, b : <<Out(32), Out(32)>>) \cup
  Mk(p \o "_seed_keypair", Z, Z, Z, "ok", LAMBDA a, b : <<Out(32), Out(32), In(32)>>) \cup
  Mk(p \o "_beforenm", Z, Z, {0, 1}, "try", LAMBDA a, b : <<Out(32), In(32), In(32)>>)
DetNmOf(p) ==
  Mk(p \o "_detached_afternm", Ls, Z, Z, "ok", LAMBDA a, b : <<Out(a), Out(16), Inz(a), In(24), In(32)>>) \cup
  Mk(p \o "_open_detached_afternm", Ls, Z, {0, 1}, "open", LAMBDA a, b : <<Outz(a), In(a), In(16), In(24), In(32)>>)
Extra ==
  UNION {Mk(k[1], Rep, Z, Z, "ok", LAMBDA a, b : <<Out(k[2])>>) : k \in KeyGens} \cup
  Mk("randombytes", Ls, Z, Z, "ok", LAMBDA a, b : <<Out(a)>>) \cup
  Mk("crypto_sign_ed25519_keypair", Z, Z, Z, "ok", LAMBDA a, b : <<Out(32), Out(64)>>) \cup
  Mk("crypto_sign_ed25519_seed_keypair", Z, Z, Z, "ok", LAMBDA a, b : <<Out(32), Out(64), In(32)>>) \cup
  Mk("crypto_sign_ed25519", Ls, Z, Z, "ok", LAMBDA a, b : <<Out(a + 64), LenP, Inz(a), In(64)>>) \cup
  Mk("crypto_sign_ed25519_open", Ls, Z, {0, 1}, "open", LAMBDA a, b : <<Outz(a), LenP, In(a + 64), In(32)>>) \cup
  Mk("crypto_sign_ed25519_detached", Ls, Z, Z, "ok", LAMBDA a, b : <<Out(64), LenP, Inz(a), In(64)>>) \cup
  Mk("crypto_sign_ed25519_verify_detached", Ls, Z, {0, 1}, "open", LAMBDA a, b : <<In(64), Inz(a), In(32)>>) \cup
  Mk("crypto_sign_ed25519ph_multi_create", Ls, Z, Z, "ok", LAMBDA a, b : <<St(StateBytes.sign), Out(64), LenP, Inz(a), In(64)>>) \cup
  Mk("crypto_sign_ed25519ph_multi_verify", Ls, Z, {0, 1}, "open", LAMBDA a, b : <<St(StateBytes.sign), In(64), Inz(a), In(32)>>) \cup
  Mk("crypto_generichash_blake2b", Ls, {16, 33, 64}, Z, "ok", LAMBDA a, b : <<Out(b), Inz(a)>>) \cup
  Mk("crypto_generichash_blake2b_multi", Ls, {16, 64}, Z, "ok", LAMBDA a, b : <<St(StateBytes.generichash), Out(32), Inz(a), In(b)>>) \cup
  Mk("crypto_generichash_blake2b_multi_sp", Ls, Z, Z, "ok", LAMBDA a, b : <<St(StateBytes.generichash), Out(64), Inz(a), In(16), In(16)>>) \cup
  Mk("crypto_onetimeauth_poly1305", Ls, Z, Z, "ok", LAMBDA a, b : <<Out(16), Inz(a), In(32)>>) \cup
  Mk("crypto_onetimeauth_poly1305_verify", Ls, Z, {0, 1}, "open", LAMBDA a, b : <<In(16), Inz(a), In(32)>>) \cup
  Mk("crypto_onetimeauth_poly1305_multi", Ls, Z, Z, "ok", LAMBDA a, b : <<St(StateBytes.onetimeauth), Out(16), Inz(a), In(32)>>) \cup
  Mk("crypto_scalarmult_curve25519", Rep, Z, {0, 1}, "try", LAMBDA a, b : <<Out(32), In(32), In(32)>>) \cup
  Mk("crypto_scalarmult_curve25519_base", Rep, Z, Z, "ok", LAMBDA a, b : <<Out(32), In(32)>>) \cup
  Mk("crypto_shorthash_siphash24", Ls, Z, Z, "ok", LAMBDA a, b : <<Out(8), Inz(a), In(16)>>) \cup
  Mk("crypto_kdf_blake2b_derive_from_key", {0, 9}, {16, 64}, Z, "ok", LAMBDA a, b : <<Out(b), In(8), In(32)>>) \cup
  Mk("crypto_pwhash_argon2id_str", {0, 7}, Z, Z, "ok", LAMBDA a, b : <<Out(128), In(a)>>) \cup
  Mk("crypto_pwhash_argon2i_str", {0, 7}, Z, Z, "ok", LAMBDA a, b : <<Out(128), In(a)>>) \cup
  UNION {Mk(n \o "_str_verify", {7}, {127}, {1}, "ok", LAMBDA a, b : <<Str(128), In(a)>>) \cup
         Mk(n \o "_str_verify", {7}, StrLens, {0, 2, 3}, "any", LAMBDA a, b : <<Str(b + 1), In(a)>>) \cup
         Mk(n \o "_str_needs_rehash", Z, StrLens, {0, 2, 3}, "any", LAMBDA a, b : <<Str(b + 1)>>) : n \in {"crypto_pwhash_argon2id", "crypto_pwhash_argon2i"}} \cup
  Mk("crypto_secretbox_xsalsa20poly1305", Ls, Z, Z, "any", LAMBDA a, b : <<Out(a), Inz(a), In(24), In(32)>>) \cup
  Mk("crypto_secretbox_xsalsa20poly1305_open", Ls, Z, {0, 1}, "any", LAMBDA a, b : <<Outz(a), In(a), In(24), In(32)>>) \cup
  NaClBoxOf("crypto_box_nacl") \cup NaClBoxOf("crypto_box_curve25519xsalsa20poly1305_nacl") \cup
  BoxKeysOf("crypto_box_curve25519xsalsa20poly1305") \cup BoxKeysOf("crypto_box_curve25519xchacha20poly1305") \cup
  DetNmOf("crypto_box") \cup DetNmOf("crypto_box_curve25519xchacha20poly1305") \cup
  MkOpt("crypto_aead_aes256gcm_encrypt_detached_afternm", Ls, {0, 17}, Z, "ok", LAMBDA a, b : <<Out(a), Out(16), LenP, Inz(a), Inz(b), In(12), St(StateBytes.aes256gcm)>>) \cup
  MkOpt("crypto_aead_aes256gcm_decrypt_detached_afternm", Ls, {0, 17}, {0, 1}, "open", LAMBDA a, b : <<Outz(a), In(a), In(16), Inz(b), In(12), St(StateBytes.aes256gcm)>>) \cup
  Mk("sodium_munlock", {1, 64, 4096}, Z, Z, "any", LAMBDA a, b : <<Io(a)>>)

Parts == {"extra", "hash", "stream", "box", "aead1", "aead2", "aead3", "curve", "group", "utils", "pwhash"}
AeadsIn(S) == UNION {AeadOf(x) : x \in {y \in Aeads : y[1] \in S}}
Family(p) == CASE p = "hash" -> Hash
               [] p = "stream" -> UNION {StreamOf(s) : s \in Streams} \cup SStream
               [] p = "box" -> UNION {SBoxOf(q) : q \in SBoxes} \cup SBoxNaCl \cup UNION {BoxOf(q) : q \in Boxes} \cup BoxKeys
               [] p = "aead1" -> AeadsIn({"crypto_aead_chacha20poly1305", "crypto_aead_chacha20poly1305_ietf"})
               [] p = "aead2" -> AeadsIn({"crypto_aead_xchacha20poly1305_ietf", "crypto_aead_aes256gcm"}) \cup AesNm
               [] p = "aead3" -> AeadsIn({"crypto_aead_aegis128l", "crypto_aead_aegis256"})
               [] p = "curve" -> Sign \cup ScalarMult \cup Kx
               [] p = "group" -> UNION {GroupOf(g) : g \in Groups} \cup GroupMaps
               [] p = "utils" -> Utils
               [] p = "pwhash" -> Pwhash
               [] p = "extra" -> Extra
Table == UNION {Family(p) : p \in Parts}
FnNames == {e.fn : e \in Table}

Modes == {<<"E", 0>>, <<"S", 0>>, <<"N", 0>>} \cup {<<"H", k>> : k \in Als}
CallsOf(T) == {[fn |-> e.fn, l1 |-> e.l1, l2 |-> e.l2, cm |-> e.cm, bufs |-> e.bufs, res |-> e.res, opt |-> e.opt, mode |-> m[1], al |-> m[2]] :
                 e \in T, m \in Modes}
Calls == CallsOf(Table)

(* what a call may report *)
Allowed(c) == (CASE c.res = "ok" -> {"ret0"} [] c.res = "fail" -> {"reterr"} [] OTHER -> {"ret0", "reterr"})
              \cup (IF c.opt THEN {"unavail"} ELSE {})

(* the access-level reading of the same contract: a single access (kind, buffer index or 0 = none, offset) is a
   step of a call iff it stays inside an argument and respects its role *)
Writable(r) == r \in {"out", "outz", "io", "ioz", "st", "len"}
Step(c, kind, i, off) == /\ i \in 1..Len(c.bufs)
                         /\ off < c.bufs[i].size
                         /\ (kind = "w" => Writable(c.bufs[i].role))

-----------------------------------------------------------------------------
(* Size-limit probes: calls whose size argument lies just beyond a documented limit (or whose parameter is outside
   its documented set), made on buffers far smaller than the stated length. The documented reaction is a refusal
   before any processing: "misuse" = sodium_misuse(), "reterr" = error return. *)
Probes == {
  <<"aead_chacha20poly1305_encrypt_max1", "misuse">>,
  <<"aead_chacha20poly1305_ietf_encrypt_max1", "misuse">>,
  <<"aead_xchacha20poly1305_ietf_encrypt_max1", "misuse">>,
  <<"aead_aegis128l_encrypt_max1", "misuse">>,
  <<"aead_aegis256_encrypt_max1", "misuse">>,
  <<"aead_aegis128l_encrypt_adlen_max1", "misuse">>,
  <<"secretbox_easy_max1", "misuse">>,
  <<"secretbox_xchacha20poly1305_easy_max1", "misuse">>,
  <<"box_easy_max1", "misuse">>,
  <<"box_easy_afternm_max1", "misuse">>,
  <<"box_xchacha_easy_max1", "misuse">>,
  <<"secretstream_push_max1", "misuse">>,
  <<"secretstream_pull_max1", "misuse">>,
  <<"stream_chacha20_ietf_max1", "misuse">>,
  <<"stream_chacha20_ietf_xor_max1", "misuse">>,
  <<"stream_chacha20_ietf_xor_ic_ctr_overflow", "misuse">>,
  <<"bin2hex_small", "misuse">>,
  <<"bin2hex_huge", "misuse">>,
  <<"bin2base64_small", "misuse">>,
  <<"bin2base64_bad_variant", "misuse">>,
  <<"base642bin_bad_variant", "misuse">>,
  <<"base64_encoded_len_bad_variant", "misuse">>,
  <<"pad_overflow", "misuse">>,
  <<"pad_zero_blocksize", "reterr">>,
  <<"unpad_zero_blocksize", "reterr">>,
  <<"unpad_short", "reterr">>,
  <<"randombytes_buf_deterministic_max1", "misuse">>,
  <<"generichash_outlen_0", "reterr">>,
  <<"generichash_outlen_65", "reterr">>,
  <<"generichash_keylen_65", "reterr">>,
  <<"generichash_init_outlen_65", "reterr">>,
  <<"generichash_final_outlen_65", "misuse">>,
  <<"kdf_subkey_15", "reterr">>,
  <<"kdf_subkey_65", "reterr">>,
  <<"hkdf_sha256_expand_max1", "reterr">>,
  <<"hkdf_sha512_expand_max1", "reterr">>,
  <<"pwhash_outlen_15", "reterr">>,
  <<"pwhash_passwdlen_max1", "reterr">>,
  <<"pwhash_opslimit_0", "reterr">>,
  <<"pwhash_opslimit_max1", "reterr">>,
  <<"pwhash_memlimit_min1", "reterr">>,
  <<"pwhash_memlimit_max1", "reterr">>,
  <<"pwhash_bad_alg", "reterr">>,
  <<"pwhash_argon2i_opslimit_2", "reterr">>,
  <<"pwhash_str_opslimit_0", "reterr">>,
  <<"pwhash_str_passwdlen_max1", "reterr">>,
  <<"pwhash_str_verify_passwdlen_max1", "reterr">>,
  <<"from_string_bad_alg", "reterr">>,
  <<"ristretto_from_string_bad_alg", "reterr">>,
  <<"sign_open_short", "reterr">>,
  <<"kx_client_both_null", "misuse">>,
  \* not a limit but an environment: the /dev/urandom fallback of the default random source with reads cut short by signals must
  \* fill exactly the buffer it was given ("unavail": the seccomp filter that forces the fallback cannot be installed)
  <<"sysrandom_fallback_short_reads", "ret0">>, <<"sysrandom_fallback_short_reads", "unavail">>,
  \* and the default path: getrandom(2) in chunks of 256 bytes, 1 MiB + 77 bytes followed by a canary region (the kernel writes
  \* these bytes, so an inaccessible page behind the buffer would stop it silently)
  <<"sysrandom_getrandom_chunks", "ret0">>, <<"sysrandom_getrandom_chunks", "unavail">>}
ProbeNames == {p[1] : p \in Probes}
=============================================================================
