---------------------------- MODULE Argon2Schedule ----------------------------
(* C08: the outer iteration of Argon2 (RFC 9106 3.4): t passes, each of 4 slices, each slice filling one segment per
   lane; the position (pass, slice, lane) is an input of the addressing (and, for the data-independent variants, of the
   pseudo-random address blocks), so a position that is mis-counted - a narrowed pass counter, a skipped slice, lanes in
   the wrong slice - silently changes the hash for parameter ranges far beyond what the byte-exact oracle can evaluate
   (an Argon2 run with 65 537 passes is 524 288 block compressions). The hook in argon2_fill_memory_blocks (guarded,
   SODIUM_VERIF) reports the position handed to fill_segment; sys/TraceArgon2Schedule.tla requires the reported
   sequence to be exactly this machine's. *)
EXTENDS Naturals
CONSTANTS T, P        \* passes, lanes
VARIABLES pass, slice, lane, filled
vars == <<pass, slice, lane, filled>>
Init == pass = 0 /\ slice = 0 /\ lane = 0 /\ filled = 0
Done == pass = T
\* fill the segment (pass, slice, lane), then move on: lanes within a slice, slices within a pass, passes
Segment == /\ ~Done
           /\ filled' = filled + 1
           /\ IF lane + 1 < P THEN lane' = lane + 1 /\ UNCHANGED <<slice, pass>>
              ELSE /\ lane' = 0
                   /\ IF slice + 1 < 4 THEN slice' = slice + 1 /\ UNCHANGED pass
                      ELSE slice' = 0 /\ pass' = pass + 1
Next == Segment
Spec == Init /\ [][Next]_vars /\ WF_vars(Next)
TypeOK == pass \in 0..T /\ slice \in 0..3 /\ lane \in 0..(P - 1)
\* the position is the mixed-radix representation of the number of segments filled: nothing skipped, nothing repeated
Position == filled = (((pass * 4) + slice) * P) + lane
AllFilled == Done => filled = T * 4 * P /\ slice = 0 /\ lane = 0
Terminates == <>Done
=============================================================================
