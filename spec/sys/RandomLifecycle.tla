---------------------------- MODULE RandomLifecycle ----------------------------
(* C18 / C19: the life cycle of the pluggable random source. The application installs a source (or leaves the default), the
   generator is opened lazily or by stir, can be closed and stirred any number of times, and every request is served by the
   source that was installed last - closing or stirring never replaces it. `ptr` is the library's implementation pointer,
   `wanted` the ghost "what the application installed last". CloseForgets = TRUE is the defect of seed C18-4 (close clears the
   pointer) and must violate InstalledServes. harness/rand_driver.c closes / stirs the generator between the replays of every
   generating API and reports the active source's name (TraceRandomSource!TLife). *)
EXTENDS Naturals, Sequences
CONSTANTS Sources, Default, MaxOps, CloseForgets
ASSUME Default \in Sources
VARIABLES ptr, wanted, open, served, n
vars == <<ptr, wanted, open, served, n>>
Resolve(p) == IF p = "none" THEN Default ELSE p
Init == ptr = "none" /\ wanted = "none" /\ open = FALSE /\ served = <<>> /\ n = 0
Install(s) == ptr' = s /\ wanted' = s /\ open' = FALSE /\ UNCHANGED served
Stir == open' = TRUE /\ UNCHANGED <<ptr, wanted, served>>
Close == /\ open' = FALSE /\ UNCHANGED <<wanted, served>>
         /\ ptr' = IF CloseForgets THEN "none" ELSE ptr
Request == open' = TRUE /\ served' = Append(served, <<Resolve(ptr), Resolve(wanted)>>) /\ UNCHANGED <<ptr, wanted>>
Next == /\ n < MaxOps /\ n' = n + 1
        /\ (\E s \in Sources : Install(s)) \/ Stir \/ Close \/ Request
Spec == Init /\ [][Next]_vars
InstalledServes == \A i \in 1..Len(served) : served[i][1] = served[i][2]
=============================================================================
