CONSTANTS W = 9 Variant = "code"
SPECIFICATION Spec
INVARIANTS NoWrap Exact NotOverStrict
CHECK_DEADLOCK FALSE
