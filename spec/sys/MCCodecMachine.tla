--------------------------- MODULE MCCodecMachine ---------------------------
EXTENDS CodecMachine
MCIgnoreOpts == {NoIgnore, Ignoring({32, 10})}
=============================================================================
