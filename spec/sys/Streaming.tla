------------------------------- MODULE Streaming -------------------------------
(***************************************************************************)
(* C04 - the buffering state machines of the multi-part hash APIs.         *)
(*                                                                         *)
(* init / update* / final must hash exactly the concatenation of the       *)
(* chunks, however the message is split.  The content of a byte does not   *)
(* matter for that, only WHICH message byte ends up WHERE in which         *)
(* compressed block, so bytes are modelled by their position in the        *)
(* message (0, 1, 2, ...) and padding by markers.  Two disciplines are in  *)
(* the code, transcribed here branch by branch:                            *)
(*   "md"    SHA-256 / SHA-512 (hash_sha256_cp.c, hash_sha512_cp.c):       *)
(*           eager - a block is compressed as soon as it is full; final    *)
(*           appends 0x80, zeros and the bit length (one or two blocks).   *)
(*   "blake" BLAKE2b (blake2b-ref.c): lazy - a 2-block buffer, the last    *)
(*           block is held back so that final can flag it; the byte        *)
(*           counter t is advanced before each compression; a key is one   *)
(*           extra block in front.                                         *)
(* The declarative side is the standards' definition of the block          *)
(* sequence (FIPS 180-4 5.1, RFC 7693 3.3).  MCStreaming.cfg checks, with  *)
(* a scaled block size, every split of every message up to MaxTotal bytes. *)
(* sys/TraceStreaming.tla validates the counters observed in the real      *)
(* state structures after every update against the same machines with the  *)
(* real block sizes.                                                       *)
(***************************************************************************)
EXTENDS Naturals, Sequences, FiniteSets

CONSTANTS B,          \* block size in bytes (64 / 128; scaled in the model)
          LB,         \* size of the length field of the md padding (8 / 16; scaled)
          Kind,       \* "md" or "blake"
          Keyed,      \* blake only: a key block is absorbed by init
          MaxTotal, MaxChunk,
          Bug         \* "none"; "md_le" / "blake_final_ge": the classical off-by-one slips, which the invariants must reject

VARIABLES buf,        \* buffered items (message positions, "key")
          blocks,     \* compressed blocks so far: records [data, t, last]
          total,      \* message bytes absorbed
          t,          \* blake: byte counter
          phase       \* "fresh" | "absorbing" | "done"
vars == <<buf, blocks, total, t, phase>>

Range(a, n) == [i \in 1..n |-> a + i - 1]           \* message positions a .. a+n-1
Rep(x, n) == [i \in 1..n |-> x]
Take(s, n) == SubSeq(s, 1, n)
Drop(s, n) == SubSeq(s, n + 1, Len(s))
Blk(d, tt, l) == [data |-> d, t |-> tt, last |-> l]

Init == /\ buf = <<>> /\ blocks = <<>> /\ total = 0 /\ t = 0 /\ phase = "fresh"

\* init: blake with a key absorbs the zero-padded key as one block (through update)
DoInit == /\ phase = "fresh"
          /\ buf' = IF Kind = "blake" /\ Keyed THEN Rep("key", B) ELSE <<>>
          /\ phase' = "absorbing" /\ UNCHANGED <<blocks, total, t>>

-----------------------------------------------------------------------------
(* md update: crypto_hash_sha256_update *)
MdUpdate(n) ==
  LET r == Len(buf) new == Range(total, n) IN
  IF n = 0 THEN UNCHANGED <<buf, blocks>>
  ELSE IF (IF Bug = "md_le" THEN n <= B - r ELSE n < B - r) THEN buf' = buf \o new /\ UNCHANGED blocks
  ELSE LET first == buf \o Take(new, B - r)
           rest == Drop(new, B - r)
           nfull == Len(rest) \div B
           full == [k \in 1..nfull |-> Blk(SubSeq(rest, (k - 1) * B + 1, k * B), 0, FALSE)]
       IN /\ blocks' = blocks \o <<Blk(first, 0, FALSE)>> \o full
          /\ buf' = Drop(rest, nfull * B)
(* md final: SHA256_Pad *)
MdFinal ==
  LET r == Len(buf) lenf == Rep(<<"len", total>>, LB) IN
  IF r < B - LB
    THEN blocks' = blocks \o <<Blk(buf \o <<"80">> \o Rep("00", B - LB - r - 1) \o lenf, 0, TRUE)>>
    ELSE blocks' = blocks \o <<Blk(buf \o <<"80">> \o Rep("00", B - r - 1), 0, FALSE),
                              Blk(Rep("00", B - LB) \o lenf, 0, TRUE)>>

(* blake update: the while loop of blake2b_update, one iteration per recursion step *)
RECURSIVE BlakeLoop(_, _, _, _)
BlakeLoop(bf, bl, tt, new) ==
  IF new = <<>> THEN <<bf, bl, tt>>
  ELSE LET left == Len(bf) fill == 2 * B - left IN
       IF Len(new) > fill
         THEN LET full == bf \o Take(new, fill) IN
              BlakeLoop(Drop(full, B), bl \o <<Blk(Take(full, B), tt + B, FALSE)>>, tt + B, Drop(new, fill))
         ELSE <<bf \o new, bl, tt>>
BlakeUpdate(n) ==
  LET res == BlakeLoop(buf, blocks, t, Range(total, n)) IN
  buf' = res[1] /\ blocks' = res[2] /\ t' = res[3]
(* blake final *)
BlakeFinal ==
  LET spill == IF Bug = "blake_final_ge" THEN Len(buf) >= B ELSE Len(buf) > B
      bl1 == IF spill THEN blocks \o <<Blk(Take(buf, B), t + B, FALSE)>> ELSE blocks
      t1 == IF spill THEN t + B ELSE t
      b1 == IF spill THEN Drop(buf, B) ELSE buf
  IN /\ blocks' = bl1 \o <<Blk(b1 \o Rep("00", B - Len(b1)), t1 + Len(b1), TRUE)>>
     /\ t' = t1 + Len(b1)

Update(n) == /\ phase = "absorbing" /\ total + n <= MaxTotal
             /\ IF Kind = "md" THEN MdUpdate(n) /\ UNCHANGED t ELSE BlakeUpdate(n)
             /\ total' = total + n /\ UNCHANGED phase
Final == /\ phase = "absorbing"
         /\ IF Kind = "md" THEN MdFinal /\ UNCHANGED t ELSE BlakeFinal
         /\ phase' = "done" /\ UNCHANGED <<buf, total>>

Next == DoInit \/ (\E n \in 0..MaxChunk : Update(n)) \/ Final
Spec == Init /\ [][Next]_vars

-----------------------------------------------------------------------------
(* the standards' block sequences for a message of n bytes *)
Chop(s) == [k \in 1..(Len(s) \div B) |-> SubSeq(s, (k - 1) * B + 1, k * B)]
MdPadded(n) ==
  LET z == (B - ((n + 1 + LB) % B)) % B          \* fewest zeros making the length a multiple of B
  IN Range(0, n) \o <<"80">> \o Rep("00", z) \o Rep(<<"len", n>>, LB)
MdBlocks(n) == LET c == Chop(MdPadded(n)) IN [k \in 1..Len(c) |-> Blk(c[k], 0, k = Len(c))]
BlakeBlocks(n) ==
  LET msg == (IF Keyed THEN Rep("key", B) ELSE <<>>) \o Range(0, n)
      m == Len(msg)
      dd == IF m = 0 THEN 1 ELSE (m + B - 1) \div B
      padded == msg \o Rep("00", dd * B - m)
      c == Chop(padded)
  IN [k \in 1..dd |-> Blk(c[k], IF k = dd THEN m ELSE k * B, k = dd)]
StdBlocks(n) == IF Kind = "md" THEN MdBlocks(n) ELSE BlakeBlocks(n)

Flat(bl) == LET RECURSIVE F(_) F(k) == IF k = 0 THEN <<>> ELSE F(k - 1) \o bl[k].data IN F(Len(bl))
KeyLen == IF Kind = "blake" /\ Keyed THEN B ELSE 0

\* nothing lost, duplicated or reordered while absorbing
Concatenation == phase = "absorbing" => Flat(blocks) \o buf = Rep("key", KeyLen) \o Range(0, total)
\* the buffer never overflows; md is eager, blake keeps at least the last block back
BufferBound == IF Kind = "md" THEN Len(buf) < B ELSE Len(buf) <= 2 * B
Eager == (Kind = "md" /\ phase = "absorbing") => Len(blocks) = total \div B
Lazy == (Kind = "blake" /\ phase = "absorbing" /\ total + KeyLen > 0) => Len(buf) >= 1 /\ \A k \in 1..Len(blocks) : ~blocks[k].last
\* after final the compressed block sequence is the standard's, whatever the split was
SplitIndependent == phase = "done" => blocks = StdBlocks(total)
=============================================================================
