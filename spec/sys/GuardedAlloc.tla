--------------------------- MODULE GuardedAlloc ---------------------------
(***************************************************************************)
(* sodium_malloc / sodium_allocarray / sodium_mprotect_* / sodium_free      *)
(* (property C17) as a state machine over one allocation (allocations are   *)
(* independent).  Addresses are relative to the start of the mapping.       *)
(*                                                                         *)
(* Documented layout:  | header page (read-only) | guard (no access) |      *)
(*   data pages (user region right-aligned, canary just before it) |        *)
(*   guard (no access) |                                                    *)
(***************************************************************************)
EXTENDS Integers, Sequences, FiniteSets, TLC

CONSTANTS PageSize, CanarySize, MaxSize, MaxOps,
          RoundOff        \* 0 in the real design; a non-zero value gives a deliberately wrong page rounding

PageRound(n) == ((n + (PageSize - 1) + RoundOff) \div PageSize) * PageSize

Layout(size) ==
  LET u == PageRound(size + CanarySize)
  IN [hdr |-> 0, guardLo |-> PageSize, data |-> 2 * PageSize, dataSize |-> u,
      guardHi |-> (2 * PageSize) + u, total |-> (3 * PageSize) + u,
      user |-> ((2 * PageSize) + u) - size, canary |-> (((2 * PageSize) + u) - size) - CanarySize]

\* what sodium_free / sodium_mprotect recompute from the user pointer alone
UnprotFromUser(user) == ((user - CanarySize) \div PageSize) * PageSize

Prots == {"RW", "RO", "NA"}
\* outcome of touching address a (relative) of a block with layout L under protection p
Access(L, p, a, kind) ==
  IF a < 0 \/ a >= L.total THEN "unmapped"
  ELSE IF a < L.guardLo THEN (IF kind = "read" THEN "ok" ELSE "fault")            \* header: read-only
  ELSE IF a < L.data THEN "fault"                                                   \* guard page
  ELSE IF a < L.guardHi THEN (CASE p = "RW" -> "ok"
                                [] p = "RO" -> (IF kind = "read" THEN "ok" ELSE "fault")
                                [] p = "NA" -> "fault")
  ELSE "fault"                                                                      \* guard page

VARIABLES blk,      \* "none" or [size, prot, canaryOK, fresh]
          nops,
          obs       \* observation of the last call

vars == <<blk, nops, obs>>

None == [size |-> -1]
Live == blk.size >= 0

Init == blk = None /\ nops = 0 /\ obs = [op |-> "init"]

Malloc(size) ==
  /\ ~Live /\ size \in 0..MaxSize
  /\ blk' = [size |-> size, prot |-> "RW", canaryOK |-> TRUE, fresh |-> TRUE]
  /\ obs' = [op |-> "malloc", size |-> size, null |-> FALSE]
  /\ nops' = 0

Protect(p) ==
  /\ Live /\ nops < MaxOps /\ p \in Prots
  /\ blk' = [blk EXCEPT !.prot = p]
  /\ obs' = [op |-> "protect", ret |-> 0]
  /\ nops' = nops + 1

\* touch user + off; a write to a canary byte that succeeds destroys the canary, a write into the user
\* region makes it no longer "fresh" (all 0xdb)
Probe(kind, off) ==
  /\ Live /\ nops < MaxOps /\ kind \in {"read", "write"}
  /\ LET L == Layout(blk.size)
         r == Access(L, blk.prot, L.user + off, kind)
     IN /\ r # "unmapped"
        /\ obs' = [op |-> "probe", kind |-> kind, off |-> off, res |-> r]
        /\ blk' = IF kind = "write" /\ r = "ok"
                    THEN [blk EXCEPT !.canaryOK = @ /\ ~(off >= -CanarySize /\ off < 0),
                                     !.fresh = @ /\ ~(off >= 0 /\ off < blk.size)]
                    ELSE blk
  /\ nops' = nops + 1

Free ==
  /\ Live
  /\ obs' = [op |-> "free", res |-> IF blk.canaryOK THEN "ok" ELSE "killed"]
  /\ blk' = None /\ nops' = 0

Offsets(size) == {-CanarySize - 1, -CanarySize, -1, 0, size - 1, size, size + PageSize - 1}
Next ==
  \/ \E s \in 0..MaxSize : Malloc(s)
  \/ \E p \in Prots : Protect(p)
  \/ \E k \in {"read", "write"}, o \in Offsets(blk.size) : Probe(k, o)
  \/ Free
Spec == Init /\ [][Next]_vars

-----------------------------------------------------------------------------
\* layout facts that must hold for every size
LayoutOK(size) ==
  LET L == Layout(size) IN
  /\ L.user + size = L.guardHi                          \* last byte is immediately followed by the guard page
  /\ L.canary + CanarySize = L.user
  /\ L.canary >= L.data /\ L.canary < L.data + PageSize \* so that ...
  /\ UnprotFromUser(L.user) = L.data                    \* ... free/mprotect find the data pages again
  /\ L.dataSize % PageSize = 0 /\ L.dataSize >= size + CanarySize /\ L.dataSize < size + CanarySize + PageSize
AllLayoutsOK == nops >= 0 /\ \A s \in 0..MaxSize : LayoutOK(s)

\* access past the end faults at once whatever the protection; canary bytes are writable exactly in RW
PastEndFaults == Live => \A p \in Prots, k \in {"read", "write"} : Access(Layout(blk.size), p, Layout(blk.size).user + blk.size, k) = "fault"
ProtectionTotal == Live =>
  LET L == Layout(blk.size) IN
  \A o \in 0..(blk.size - 1) :
     /\ Access(L, "NA", L.user + o, "read") = "fault" /\ Access(L, "NA", L.user + o, "write") = "fault"
     /\ Access(L, "RO", L.user + o, "read") = "ok" /\ Access(L, "RO", L.user + o, "write") = "fault"
     /\ Access(L, "RW", L.user + o, "read") = "ok" /\ Access(L, "RW", L.user + o, "write") = "ok"
\* freeing terminates the process exactly when the canary was altered
FreeDetects == [][(Live /\ blk' = None) => (obs'.res = "killed") = ~blk.canaryOK]_vars
=============================================================================
