CONSTANTS W = 3 C = 3 Variant = "code"
SPECIFICATION Spec
INVARIANT Canonical
CHECK_DEADLOCK FALSE
