SPECIFICATION Spec
CONSTANTS
  Bytes = {0, 128, 1, 129}
  MaxLen = 10
  MaxBs = 8
  UnpadScan <- FullScan
INVARIANTS UnpadAgrees PadAgrees RoundTrip
CHECK_DEADLOCK FALSE
