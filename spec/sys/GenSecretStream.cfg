SPECIFICATION GSpec
CONSTANTS
  Pushers = {"main", "otherkey", "otherhdr"}
  RekeySides = {"main", "pull", "otherkey"}
  Msgs = {"m1", "m2", "m3"}
  Ads = {"a1", "a2"}
  Tags = {0, 1, 2, 3}
  Tampers = {"none", "tampered"}
  MaxPush = 8
  MaxForeign = 2
  MaxRekey = 2
  Wrap = 10
  Depth = 25
  CtrInc <- MCCtrInc
  CtrIsZero <- MCCtrIsZero
  CtrOne = 1
  InitCtrs <- MCInitCtrs
INVARIANTS Emit Prefix OnlyNext Sync Resync
CHECK_DEADLOCK FALSE
