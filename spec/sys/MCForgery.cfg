SPECIFICATION Spec
CONSTANTS
  Apis <- MCApis
  Fields <- MCFields
  FailureOut <- MCFailureOut
  ReportsLength <- MCReportsLength
  TagLen = 2
  MaxLen = 3
  LeakOnFailure = {}
INVARIANTS AcceptOnlyIntact RejectClosed ShortRejected
CHECK_DEADLOCK FALSE
