CONSTANTS W = 9 WT = 7 V = 5 Bug = "drop_carry"
SPECIFICATION Spec
INVARIANTS PowersRight
CHECK_DEADLOCK FALSE
