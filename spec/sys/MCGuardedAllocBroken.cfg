SPECIFICATION Spec
CONSTANTS
  PageSize = 32
  CanarySize = 16
  MaxSize = 97
  MaxOps = 1
  RoundOff = 1
INVARIANTS AllLayoutsOK PastEndFaults ProtectionTotal
PROPERTY FreeDetects
CHECK_DEADLOCK FALSE
