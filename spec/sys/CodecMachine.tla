--------------------------- MODULE CodecMachine ---------------------------
(***************************************************************************)
(* sodium_hex2bin and sodium_base642bin as character-at-a-time automata,    *)
(* shaped like the C loops (accumulator, accumulator length, output         *)
(* position, state flag, main loop / padding loop / trailing-skip loop),    *)
(* and a state machine that grows a text one character at a time.  In every *)
(* reachable state (= for every text over Alphabet up to MaxLen, every      *)
(* variant, ignore option, capacity and end-pointer option) the automaton   *)
(* must agree with the declarative decoder of lib/Codec.tla.                *)
(***************************************************************************)
EXTENDS Codec, TLC

CONSTANTS Alphabet, MaxLen, Codecs, IgnoreOpts, Caps, CheckTrailingBits

VARIABLES text, codec, ignore, cap, wantEnd
vars == <<text, codec, ignore, cap, wantEnd>>

\* ---------------------------------------------------------------- hex automaton
\* loop state: [pos, binpos, acc, st (0 = expecting first nibble), out, ret, stop]
HexStep(s, c) ==
  IF s.stop THEN s
  ELSE IF HexVal(c) < 0
       THEN IF Ign(c, s.ign) /\ s.st = 0 THEN [s EXCEPT !.pos = @ + 1] ELSE [s EXCEPT !.stop = TRUE]
       ELSE IF Len(s.out) >= s.cap THEN [s EXCEPT !.ret = -1, !.stop = TRUE]
       ELSE IF s.st = 0 THEN [s EXCEPT !.acc = 16 * HexVal(c), !.st = 1, !.pos = @ + 1]
       ELSE [s EXCEPT !.out = Append(@, s.acc + HexVal(c)), !.st = 0, !.pos = @ + 1]
MachineHex(t, ign, cp, we) ==
  LET s0 == [pos |-> 0, acc |-> 0, st |-> 0, out |-> <<>>, ret |-> 0, stop |-> FALSE, ign |-> ign, cap |-> cp]
      s == FoldLeft(HexStep, s0, t)
      pos1 == IF s.st # 0 THEN s.pos - 1 ELSE s.pos
      ret1 == IF s.st # 0 THEN -1 ELSE s.ret
      ret2 == IF ~we /\ pos1 # Len(t) THEN -1 ELSE ret1
  IN [ok |-> ret2 = 0, bin |-> IF ret1 = 0 /\ ret2 = 0 THEN s.out ELSE <<>>, end |-> pos1,
      n |-> IF ret1 # 0 THEN 0 ELSE Len(s.out)]

\* ---------------------------------------------------------------- Base64 automaton
\* main loop: [pos, acc (only the low accLen bits are kept), accLen, out, ret, stop]
B64Step(s, c) ==
  IF s.stop THEN s
  ELSE LET d == B64Val(c, s.v) IN
       IF d < 0
       THEN IF Ign(c, s.ign) THEN [s EXCEPT !.pos = @ + 1] ELSE [s EXCEPT !.stop = TRUE]
       ELSE LET acc1 == (64 * s.acc) + d
                al1 == s.accLen + 6
            IN IF al1 >= 8
               THEN IF Len(s.out) >= s.cap
                    THEN [s EXCEPT !.acc = acc1, !.accLen = al1 - 8, !.ret = -1, !.stop = TRUE]
                    ELSE [s EXCEPT !.acc = acc1 % (2 ^ (al1 - 8)), !.accLen = al1 - 8,
                                   !.out = Append(@, (acc1 \div (2 ^ (al1 - 8))) % 256), !.pos = @ + 1]
               ELSE [s EXCEPT !.acc = acc1, !.accLen = al1, !.pos = @ + 1]
\* _sodium_base642bin_skip_padding: [pos, left, ret]
PadStep(t, ign, p, i) ==
  IF p.left = 0 \/ p.ret # 0 THEN p
  ELSE IF p.pos >= Len(t) THEN [p EXCEPT !.ret = -1]
  ELSE LET c == t[p.pos + 1] IN
       IF c = 61 THEN [p EXCEPT !.left = @ - 1, !.pos = @ + 1]
       ELSE IF Ign(c, ign) THEN [p EXCEPT !.pos = @ + 1]
       ELSE [p EXCEPT !.ret = -1]
MachineB64(t, ign, v, cp, we) ==
  LET s0 == [pos |-> 0, acc |-> 0, accLen |-> 0, out |-> <<>>, ret |-> 0, stop |-> FALSE, ign |-> ign, cap |-> cp, v |-> v]
      s == FoldLeft(B64Step, s0, t)
      \* the ERANGE break leaves acc holding the unflushed bits (ret is already -1 there)
      badbits == s.accLen > 4 \/ (IF CheckTrailingBits THEN (s.acc % (2 ^ s.accLen)) # 0 ELSE FALSE)
      pd == IF ~badbits /\ s.ret = 0 /\ ~NoPad(v)
              THEN FoldLeft(LAMBDA p, i : PadStep(t, ign, p, i), [pos |-> s.pos, left |-> s.accLen \div 2, ret |-> 0], [i \in 1..(Len(t) + 1) |-> i])
              ELSE [pos |-> s.pos, left |-> 0, ret |-> 0]
      ret1 == IF badbits THEN -1 ELSE IF s.ret # 0 THEN -1 ELSE pd.ret
      \* trailing ignorable characters are skipped only after a successful parse with an ignore string
      pos2 == IF ret1 = 0 /\ ~ign.null
                THEN FoldLeft(LAMBDA p, i : IF p = i - 1 /\ i <= Len(t) /\ Ign(t[i], ign) THEN p + 1 ELSE p,
                              pd.pos, [i \in 1..Len(t) |-> i])
                ELSE pd.pos
      ret2 == IF ~we /\ pos2 # Len(t) THEN -1 ELSE ret1
  IN [ok |-> ret2 = 0, bin |-> IF ret1 = 0 /\ ret2 = 0 THEN s.out ELSE <<>>, end |-> pos2,
      n |-> IF ret1 # 0 THEN 0 ELSE Len(s.out)]

Machine == IF codec = 0 THEN MachineHex(text, ignore, cap, wantEnd) ELSE MachineB64(text, ignore, codec, cap, wantEnd)
Declarative == IF codec = 0 THEN HexDecode(text, ignore, cap, wantEnd) ELSE B64Decode(text, ignore, codec, cap, wantEnd)

Init == /\ text = <<>>
        /\ codec \in Codecs /\ ignore \in IgnoreOpts /\ cap \in Caps /\ wantEnd \in BOOLEAN
Next == /\ Len(text) < MaxLen
        /\ \E c \in Alphabet : text' = Append(text, c)
        /\ UNCHANGED <<codec, ignore, cap, wantEnd>>
Spec == Init /\ [][Next]_vars

\* the automaton accepts exactly the well-formed texts and returns the declarative result
Agree ==
  LET m == Machine  d == Declarative
  IN /\ m.ok = d.ok
     /\ m.ok => (m.bin = d.bin /\ (wantEnd => m.end = d.end))
     /\ ~m.ok => m.bin = <<>>
\* never more output than the capacity, whatever the text
WithinCapacity == Len(Machine.bin) <= cap
\* encoders invert: decoding the encoding of the decoded bytes gives the same bytes
RoundTrip == Machine.ok /\ codec # 0 =>
               B64Decode(B64(Machine.bin, codec), NoIgnore, codec, Len(Machine.bin), FALSE).bin = Machine.bin
=============================================================================
