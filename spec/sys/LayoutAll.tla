--------------------------- MODULE LayoutAll ---------------------------
(***************************************************************************)
(* C17 - unbounded companion of sys/GuardedAlloc.tla and sys/AllocArray.tla*)
(* for the placement arithmetic of _sodium_malloc: EVERY 64-bit size (not  *)
(* 0..MaxSize on a scaled page) and every page size in use (512 B..64 KiB),*)
(* decided symbolically by Apalache (SMT), no enumeration.                 *)
(*                                                                         *)
(* PageRound / User / Canary / UnprotFromUser are those of GuardedAlloc    *)
(* (Layout record fields written as operators); GuardedAlloc is what the   *)
(* traces of the real allocator are validated against                      *)
(* (TraceGuardedAlloc.tla, real page size), so a change of the code's      *)
(* rounding or canary offset is rejected there, and a change of the        *)
(* specification's arithmetic that breaks a layout fact for SOME size that *)
(* the bounded model and the driver never visit is rejected here.          *)
(*                                                                         *)
(*   sodium_malloc refuses size >= SIZE_MAX - Limit pages; the invariant   *)
(*   NoWrapTotal says that nothing accepted can make size + canary, the    *)
(*   page rounding or the mapping length exceed a size_t.  Limit = 5 is    *)
(*   the code since the repair of finding F6; Limit = 4 is the code as it  *)
(*   was pinned, which this module refuted on its first run (size =        *)
(*   SIZE_MAX - 4 pages - 1: the length is exactly 2^64 and wraps to 0) -  *)
(*   it is kept as the broken variant that must stay refuted.              *)
(***************************************************************************)
EXTENDS Integers

CONSTANTS
  \* @type: Int;
  PageSize,
  \* @type: Int;
  CanarySize,
  \* @type: Int;
  RoundOff,
  \* @type: Int;
  Limit

VARIABLES
  \* @type: Int;
  size

SizeMax == 18446744073709551615

PageRound(n) == ((n + (PageSize - 1) + RoundOff) \div PageSize) * PageSize

Data == 2 * PageSize
GuardHi(s) == (2 * PageSize) + PageRound(s + CanarySize)
Total(s) == (3 * PageSize) + PageRound(s + CanarySize)
User(s) == GuardHi(s) - s
Canary(s) == User(s) - CanarySize
UnprotFromUser(user) == ((user - CanarySize) \div PageSize) * PageSize

MallocRefuses(s) == s >= SizeMax - (Limit * PageSize)

Pages == {512, 4096, 16384, 65536}
ConstInit         == PageSize \in Pages /\ CanarySize = 16 /\ RoundOff = 0 /\ Limit = 5
ConstInitRoundUp  == PageSize \in Pages /\ CanarySize = 16 /\ RoundOff = 1 /\ Limit = 5     \* broken: rounds one page too many at exact multiples
ConstInitRoundDn  == PageSize \in Pages /\ CanarySize = 16 /\ RoundOff = -1 /\ Limit = 5    \* broken: one page short just above a multiple
ConstInitLimit4   == PageSize \in Pages /\ CanarySize = 16 /\ RoundOff = 0 /\ Limit = 4     \* broken (finding F6): the margin forgets the canary, the mapping length wraps to 0

Init == size \in 0 .. SizeMax
Next == size' \in 0 .. SizeMax

\* the layout facts of GuardedAlloc!LayoutOK, for every size
LayoutOK ==
  /\ User(size) + size = GuardHi(size)                              \* last byte immediately followed by the guard page
  /\ Canary(size) + CanarySize = User(size)
  /\ Canary(size) >= Data /\ Canary(size) < Data + PageSize         \* canary lies in the first data page, so ...
  /\ UnprotFromUser(User(size)) = Data                              \* ... free / mprotect recover the data pages from the user pointer
  /\ PageRound(size + CanarySize) % PageSize = 0
  /\ PageRound(size + CanarySize) >= size + CanarySize
  /\ PageRound(size + CanarySize) < size + CanarySize + PageSize

\* nothing that sodium_malloc accepts wraps a size_t anywhere in the computation
NoWrapTotal ==
  ~MallocRefuses(size) =>
     /\ size + CanarySize <= SizeMax
     /\ (size + CanarySize) + (PageSize - 1) <= SizeMax              \* the rounding's intermediate sum
     /\ Total(size) <= SizeMax

\* the refusal does not reach ordinary sizes: everything up to 2^63 is left to the allocator
NotOverStrict == size <= 9223372036854775808 => ~MallocRefuses(size)

AllOK == LayoutOK /\ NoWrapTotal /\ NotOverStrict
=============================================================================
