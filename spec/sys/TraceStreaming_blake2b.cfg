CONSTANTS B = 128
          LB = 16
          Kind = "blake"
          Keyed = FALSE
          MaxTotal = 100000000
          MaxChunk = 0
          Bug = "none"
SPECIFICATION TraceSpec
INVARIANTS Concatenation BufferBound Eager Lazy SplitIndependent
POSTCONDITION TraceAccepted
CHECK_DEADLOCK FALSE
