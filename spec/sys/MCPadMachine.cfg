SPECIFICATION Spec
CONSTANTS
  Bytes = {0, 128, 1, 129}
  MaxLen = 8
  MaxBs = 6
  UnpadScan <- FullScan
INVARIANTS UnpadAgrees PadAgrees RoundTrip
CHECK_DEADLOCK FALSE
