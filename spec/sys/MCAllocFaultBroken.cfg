SPECIFICATION Spec
CONSTANTS
  Apis <- MCApis
  Prog <- MCProg
  Keeps <- MCKeeps
  LeakOnFailureAt = 3
INVARIANTS FailClosed NoLeak NoBadFree Completes
CHECK_DEADLOCK FALSE
