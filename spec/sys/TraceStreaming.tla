---------------------------- MODULE TraceStreaming ----------------------------
(* C04, direction B for the buffering machines: the counters read from the real state structure after init and
   after every update (harness/mp_driver.c) must be the ones Streaming predicts for the same chunk sizes with the
   real block size; the multi-part digest must equal the one-shot digest; and Streaming's invariants (Concatenation,
   SplitIndependent, ...) hold in every state the real execution went through. One file per algorithm. *)
EXTENDS Streaming, TLC, Json, IOUtils
Tr == ndJsonDeserialize(IOEnv.TRACE)
VARIABLE l
tvars == <<vars, l>>
Ev == Tr[l]
IsEvent(e) == l <= Len(Tr) /\ Tr[l].e = e /\ l' = l + 1
ObsOk == /\ Ev.buflen = Len(buf')
         /\ Ev.ctr = (IF Kind = "md" THEN total' ELSE t')
TraceInit == Init /\ l = 1
\* init also starts the next history
TInit == /\ IsEvent("init")
         /\ (Ev.key > 0) = (Kind = "blake" /\ Keyed)
         /\ buf' = (IF Kind = "blake" /\ Keyed THEN Rep("key", B) ELSE <<>>)
         /\ blocks' = <<>> /\ total' = 0 /\ t' = 0 /\ phase' = "absorbing"
         /\ ObsOk
TUpd == IsEvent("upd") /\ Update(Ev.n) /\ ObsOk
TFinal == IsEvent("final") /\ Final /\ Ev.ret = 0 /\ Ev.same /\ Ev.total = total
TraceNext == TInit \/ TUpd \/ TFinal
TraceSpec == TraceInit /\ [][TraceNext]_tvars
TraceAccepted ==
  LET d == TLCGet("stats").diameter IN
  IF d - 1 = Len(Tr) THEN TRUE
  ELSE Print(<<"REJECTED at line", d, IF d <= Len(Tr) THEN Tr[d] ELSE "eof">>, FALSE)
=============================================================================
