SPECIFICATION Spec
CONSTANTS
  A = 56
  MaxLen = 9
  Z = 2
  BLK = 4
  MAC = 2
  SIG = 3
  Strides = {1, 2, 3, 4}
  TwoSided = FALSE
INVARIANTS EasyOK OpenOK SignOK SignOpenOK AliasOK
CHECK_DEADLOCK FALSE
