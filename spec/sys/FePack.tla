-------------------------------- MODULE FePack --------------------------------
(***************************************************************************)
(* C05 / C10 - the final canonicalisation of a field element in the        *)
(* radix-2^51 X25519 backend (sandy2x/fe51_pack.S: three carry passes,     *)
(* then "subtract p if the value is >= p", decided limb by limb),          *)
(* transcribed with scaled limbs: five limbs of W bits, p = 2^(5W) - C.    *)
(*                                                                         *)
(* TLC packs EVERY tuple of five limbs below 2^(W+1) (loosely reduced, as  *)
(* the ladder leaves them) and checks that the result is the value modulo  *)
(* p and canonical.  Variant "skip_limb" (one comparison looks at the      *)
(* wrong limb) is wrong exactly on values just below p whose other limbs   *)
(* are all ones - the scaled picture of harness/x25519_nearp.h - and must  *)
(* be rejected.                                                            *)
(***************************************************************************)
EXTENDS Naturals, Sequences

CONSTANTS W, C, Variant
Mask == 2 ^ W - 1
P == 2 ^ (5 * W) - C
VARIABLES r, out        \* input limbs, packed value (or -1 = not packed yet, as 2^(5W))
vars == <<r, out>>
None == 2 ^ (5 * W)

Init == r \in [1..5 -> 0 .. 2 ^ (W + 1) - 1] /\ out = None

Val(l) == l[1] + l[2] * 2 ^ W + l[3] * 2 ^ (2 * W) + l[4] * 2 ^ (3 * W) + l[5] * 2 ^ (4 * W)

\* one pass of the carry chain; the carry out of the top limb comes back into limb 0 multiplied by C
Pass(l) ==
  LET a1 == l[2] + (l[1] \div (2 ^ W))
      a2 == l[3] + (a1 \div (2 ^ W))
      a3 == l[4] + (a2 \div (2 ^ W))
      a4 == l[5] + (a3 \div (2 ^ W))
  IN <<(l[1] % (2 ^ W)) + C * (a4 \div (2 ^ W)), a1 % (2 ^ W), a2 % (2 ^ W), a3 % (2 ^ W), a4 % (2 ^ W)>>

\* the wrong subtraction borrows: limb arithmetic is modulo 2^64 and the packed bits keep the low W bits of limb 3
Sub(l) == <<l[1] - (Mask - (C - 1)), 0, (l[3] + 2 ^ W - Mask) % (2 ^ W), 0, 0>>
GE(l) == /\ l[1] >= Mask - (C - 1)
         /\ l[2] = Mask
         /\ l[IF Variant = "skip_limb" THEN 4 ELSE 3] = Mask
         /\ l[4] = Mask
         /\ l[5] = Mask
Pack ==
  LET l == Pass(Pass(Pass(r))) IN
  /\ out = None
  /\ out' = IF GE(l) THEN Val(Sub(l)) ELSE Val(l)
  /\ UNCHANGED r
Next == Pack
Spec == Init /\ [][Next]_vars

Canonical == out # None => (out < P /\ out = Val(r) % P)
=============================================================================
