CONSTANTS B = 128
          Kind = "md"
SPECIFICATION TraceSpec
POSTCONDITION TraceAccepted
CHECK_DEADLOCK FALSE
