--------------------------- MODULE MCRandomSource ---------------------------
(* exhaustive instance: W-bit words as naturals; all bounds, all draw sequences *)
EXTENDS RandomSource
CONSTANT Mod
MCIsSmall(n) == n < 2
MCThreshold(n) == Mod % n
MCLess(a, b) == a < b
MCRem(r, n) == r % n
Words == 0..(Mod - 1)

InRange == phase = "done" => (IF bound < 2 THEN result = 0 ELSE result < bound)
\* the result is the first draw at or above the threshold, modulo the bound; everything before it was below
FirstAccepted == (phase = "done" /\ bound >= 2) =>
   /\ Len(drawn) >= 1
   /\ drawn[Len(drawn)] >= Mod % bound /\ result = drawn[Len(drawn)] % bound
   /\ \A i \in 1..(Len(drawn) - 1) : drawn[i] < Mod % bound
NoDrawForSmall == (phase = "done" /\ bound < 2) => drawn = <<>>
\* exact uniformity: among the accepted words every residue has the same number of preimages
Accepted(n) == {r \in Words : ~(IF Strict THEN r < Mod % n ELSE r <= Mod % n)}
UniformFor(n) == LET A == Accepted(n) IN
   /\ Cardinality(A) % n = 0
   /\ \A v \in 0..(n - 1) : Cardinality({r \in A : r % n = v}) = Cardinality(A) \div n
UniformBounds == {n \in 2..(Mod - 1) : UniformFor(n)}          \* constant: evaluated once
Uniform == bound >= 2 => bound \in UniformBounds
=============================================================================
