SPECIFICATION TraceSpec
CONSTANTS
  Apis = {}
  Prog <- TrProg
  Keeps <- TrKeeps
  LeakOnFailureAt = 0
INVARIANTS FailClosed NoLeak NoBadFree TrCompletes NeverFalseMatch
POSTCONDITION TraceAccepted
CHECK_DEADLOCK FALSE
