SPECIFICATION TraceSpec
CONSTANTS
  Pushers <- TrPushers
  RekeySides <- Sides
  Msgs = {}
  Ads = {}
  Tags = {}
  InitCtrs = {}
  Tampers = {"none"}
  MaxPush = 1000000
  MaxForeign = 1000000
  MaxRekey = 1000000
  CtrInc <- TrCtrInc
  CtrIsZero <- TrCtrIsZero
  CtrOne <- TrCtrOne
INVARIANTS Prefix OnlyNext Sync Resync
POSTCONDITION TraceAccepted
CHECK_DEADLOCK FALSE
