SPECIFICATION TraceSpec
CONSTANTS
  Threads = {1, 2, 3, 4, 5, 6, 7, 8, 9, 10, 11, 12, 13, 14, 15, 16}
  Prims <- DPrims
  Variant = "ok"
INVARIANTS Mutex InitOnce NoPartial
CONSTRAINT Progress
POSTCONDITION TraceAccepted
CHECK_DEADLOCK FALSE
