--------------------------- MODULE AllocFault ---------------------------
(***************************************************************************)
(* Memory exhaustion must make password hashing and guarded allocation fail *)
(* closed (property C20).                                                   *)
(*                                                                         *)
(* Two layers.                                                              *)
(* (1) A MONITOR over the events of one API call:                           *)
(*       Begin(api), Alloc(kind, id, ok), Release(kind, id), End(ret, out)  *)
(*     It is sound for any implementation (it does not care how many        *)
(*     requests a call makes or in which order) and states the property:    *)
(*     no release of something not live (double free / foreign free), and   *)
(*     at End: if any request failed the call returned its error value and  *)
(*     produced nothing (no match, no key, no string, no pointer); nothing  *)
(*     is left allocated except what the API hands to the caller.           *)
(* (2) A DESIGN MODEL of the library's allocation protocol: each API is a   *)
(*     sequence of acquisitions followed by work and releases; every        *)
(*     request may fail; TLC explores every failure subset and checks the   *)
(*     monitor's invariants on the design.                                  *)
(***************************************************************************)
EXTENDS Integers, Sequences, FiniteSets, TLC

CONSTANTS Apis,            \* names of the modelled API calls
          Prog(_),         \* api -> sequence of resource kinds it acquires, in order ("malloc" / "mmap")
          Keeps(_),        \* api -> number of leading resources handed to the caller on success (sodium_malloc: 1)
          LeakOnFailureAt  \* 0 in the real design; k > 0: a wrong design that forgets to release resource k when a later one fails

VARIABLES api, pc, pos,     \* current call, phase ("idle", "run", "unwind", "done") and position in its program
          live,             \* set of <<kind, id>> currently allocated
          failed,           \* did any request of the current call fail
          ret, out,         \* what End reported: ret \in {"ok","error"}, out \in {"produced","nothing"}
          bad               \* monitor flag: an illegal release happened

vars == <<api, pc, pos, live, failed, ret, out, bad>>

\* ---------------------------------------------------------------- monitor (shared with the trace specification)
MBegin(a) == /\ api' = a /\ live' = {} /\ failed' = FALSE /\ ret' = "none" /\ out' = "none" /\ bad' = FALSE
MAlloc(kind, id, ok) ==
  /\ live' = IF ok THEN live \cup {<<kind, id>>} ELSE live
  /\ failed' = (failed \/ ~ok)
  /\ bad' = (bad \/ (ok /\ <<kind, id>> \in live))
MRelease(kind, id) ==
  /\ bad' = (bad \/ <<kind, id>> \notin live)        \* double free, foreign pointer, or wrong deallocator
  /\ live' = live \ {<<kind, id>>}
MEnd(r, o) == ret' = r /\ out' = o

\* the property at the end of a call
FailClosed == (pc = "done" /\ failed) => (ret = "error" /\ out = "nothing")
NoLeak     == pc = "done" => Cardinality(live) = (IF ret = "ok" THEN Keeps(api) ELSE 0)
NoBadFree  == ~bad
Completes  == (pc = "done" /\ ~failed) => (ret = "ok" /\ out = "produced")

\* ---------------------------------------------------------------- design model
Init == api = "none" /\ pc = "idle" /\ pos = 0 /\ live = {} /\ failed = FALSE /\ ret = "none" /\ out = "none" /\ bad = FALSE

Begin(a) == pc \in {"idle", "done"} /\ MBegin(a) /\ pc' = "run" /\ pos' = 1

\* acquire resource number pc; it may fail
Acquire(ok) ==
  /\ pc = "run" /\ pos \in 1..Len(Prog(api))
  /\ MAlloc(Prog(api)[pos], pos, ok)
  /\ pc' = IF ok THEN "run" ELSE "unwind"
  /\ pos' = pos + 1
  /\ UNCHANGED <<api, ret, out>>

\* error path: release everything acquired so far (except what a wrong design forgets), report the error
Unwind ==
  /\ pc = "unwind"
  /\ live' = {r \in live : r[2] = LeakOnFailureAt}
  /\ ret' = "error" /\ out' = "nothing" /\ pc' = "done"
  /\ UNCHANGED <<api, pos, failed, bad>>

\* success path: do the work, release the temporaries, keep what the API returns
Finish ==
  /\ pc = "run" /\ pos = Len(Prog(api)) + 1
  /\ live' = {r \in live : r[2] <= Keeps(api)}
  /\ ret' = "ok" /\ out' = "produced" /\ pc' = "done"
  /\ UNCHANGED <<api, pos, failed, bad>>

Next == (\E a \in Apis : Begin(a)) \/ (\E ok \in BOOLEAN : Acquire(ok)) \/ Unwind \/ Finish
Spec == Init /\ [][Next]_vars
=============================================================================
