------------------------------- MODULE Forgery -------------------------------
(***************************************************************************)
(* Authenticated opening under tampering (property C02), symbolically.     *)
(* A sealed object is a record of abstract field values; the adversary     *)
(* changes one field (bit flip), truncates or extends the input; Open      *)
(* accepts iff the presented object equals the sealed one.  What a call    *)
(* reports is [ret, mlen, out] with out in {Plain, Untouched, Fill(b)}.    *)
(* Lib(api) is the behaviour table read from the code (DESIGN appendix E); *)
(* the property is what must hold whatever the table says.                 *)
(***************************************************************************)
EXTENDS Integers, Sequences, FiniteSets, TLC

CONSTANTS Apis, Fields(_), FailureOut(_), ReportsLength(_), TagLen, MaxLen,
          LeakOnFailure      \* {} in the real design; an API in this set models "decrypt before verify without wiping"

VARIABLES phase, api, len, tamper, result
vars == <<phase, api, len, tamper, result>>

Tampers(a, n) == {<<"none">>} \cup {<<"flip", f>> : f \in Fields(a)} \cup {<<"truncate", k>> : k \in 0..(n + TagLen - 1)} \cup {<<"extend", k>> : k \in 1..2}

Init == phase = "seal" /\ api \in Apis /\ len \in 0..MaxLen /\ tamper = <<"none">> /\ result = [ret |-> 0, mlen |-> 0, out |-> "none"]
Tamper == /\ phase = "seal" /\ phase' = "open"
          /\ tamper' \in Tampers(api, len)
          /\ UNCHANGED <<api, len, result>>
Open == /\ phase = "open" /\ phase' = "done"
        /\ LET intact == tamper = <<"none">>
           IN result' = IF intact THEN [ret |-> 0, mlen |-> len, out |-> "Plain"]
                        ELSE [ret |-> -1, mlen |-> 0, out |-> IF api \in LeakOnFailure THEN "Plain" ELSE FailureOut(api)]
        /\ UNCHANGED <<api, len, tamper>>
Next == Tamper \/ Open
Spec == Init /\ [][Next]_vars

\* the property
AcceptOnlyIntact == (phase = "done" /\ result.ret = 0) => tamper = <<"none">>
RejectClosed == (phase = "done" /\ tamper # <<"none">>) =>
                   /\ result.ret # 0
                   /\ (ReportsLength(api) => result.mlen = 0)
                   /\ result.out # "Plain"
ShortRejected == (phase = "done" /\ tamper[1] = "truncate" /\ tamper[2] < TagLen) => result.ret # 0
=============================================================================
