---- MODULE MCInit_TTrace_1791018699 ----
EXTENDS Sequences, TLCExt, Toolbox, Naturals, TLC, MCInit

_expression ==
    LET MCInit_TEExpression == INSTANCE MCInit_TEExpression
    IN MCInit_TEExpression!expression
----

_trace ==
    LET MCInit_TETrace == INSTANCE MCInit_TETrace
    IN MCInit_TETrace!trace
----

_inv ==
    ~(
        TLCGet("level") = Len(_TETrace)
        /\
        ret = (<<-2, -2, -2>>)
        /\
        stirDone = (TRUE)
        /\
        cpuDone = (TRUE)
        /\
        pc = (<<"pick", "check", "call">>)
        /\
        npicks = (0)
        /\
        picked = (0)
        /\
        lock = (2)
        /\
        initialized = (FALSE)
        /\
        allocDone = (TRUE)
    )
----

_init ==
    /\ stirDone = _TETrace[1].stirDone
    /\ picked = _TETrace[1].picked
    /\ cpuDone = _TETrace[1].cpuDone
    /\ pc = _TETrace[1].pc
    /\ lock = _TETrace[1].lock
    /\ initialized = _TETrace[1].initialized
    /\ ret = _TETrace[1].ret
    /\ allocDone = _TETrace[1].allocDone
    /\ npicks = _TETrace[1].npicks
----

_next ==
    /\ \E i,j \in DOMAIN _TETrace:
        /\ \/ /\ j = i + 1
              /\ i = TLCGet("level")
        /\ stirDone  = _TETrace[i].stirDone
        /\ stirDone' = _TETrace[j].stirDone
        /\ picked  = _TETrace[i].picked
        /\ picked' = _TETrace[j].picked
        /\ cpuDone  = _TETrace[i].cpuDone
        /\ cpuDone' = _TETrace[j].cpuDone
        /\ pc  = _TETrace[i].pc
        /\ pc' = _TETrace[j].pc
        /\ lock  = _TETrace[i].lock
        /\ lock' = _TETrace[j].lock
        /\ initialized  = _TETrace[i].initialized
        /\ initialized' = _TETrace[j].initialized
        /\ ret  = _TETrace[i].ret
        /\ ret' = _TETrace[j].ret
        /\ allocDone  = _TETrace[i].allocDone
        /\ allocDone' = _TETrace[j].allocDone
        /\ npicks  = _TETrace[i].npicks
        /\ npicks' = _TETrace[j].npicks

\* Uncomment the ASSUME below to write the states of the error trace
\* to the given file in Json format. Note that you can pass any tuple
\* to `JsonSerialize`. For example, a sub-sequence of _TETrace.
    \* ASSUME
    \*     LET J == INSTANCE Json
    \*         IN J!JsonSerialize("MCInit_TTrace_1791018699.json", _TETrace)

=============================================================================

 Note that you can extract this module `MCInit_TEExpression`
  to a dedicated file to reuse `expression` (the module in the 
  dedicated `MCInit_TEExpression.tla` file takes precedence 
  over the module `MCInit_TEExpression` below).

---- MODULE MCInit_TEExpression ----
EXTENDS Sequences, TLCExt, Toolbox, Naturals, TLC, MCInit

expression == 
    [
        \* To hide variables of the `MCInit` spec from the error trace,
        \* remove the variables below.  The trace will be written in the order
        \* of the fields of this record.
        stirDone |-> stirDone
        ,picked |-> picked
        ,cpuDone |-> cpuDone
        ,pc |-> pc
        ,lock |-> lock
        ,initialized |-> initialized
        ,ret |-> ret
        ,allocDone |-> allocDone
        ,npicks |-> npicks
        
        \* Put additional constant-, state-, and action-level expressions here:
        \* ,_stateNumber |-> _TEPosition
        \* ,_stirDoneUnchanged |-> stirDone = stirDone'
        
        \* Format the `stirDone` variable as Json value.
        \* ,_stirDoneJson |->
        \*     LET J == INSTANCE Json
        \*     IN J!ToJson(stirDone)
        
        \* Lastly, you may build expressions over arbitrary sets of states by
        \* leveraging the _TETrace operator.  For example, this is how to
        \* count the number of times a spec variable changed up to the current
        \* state in the trace.
        \* ,_stirDoneModCount |->
        \*     LET F[s \in DOMAIN _TETrace] ==
        \*         IF s = 1 THEN 0
        \*         ELSE IF _TETrace[s].stirDone # _TETrace[s-1].stirDone
        \*             THEN 1 + F[s-1] ELSE F[s-1]
        \*     IN F[_TEPosition - 1]
    ]

=============================================================================



Parsing and semantic processing can take forever if the trace below is long.
 In this case, it is advised to uncomment the module below to deserialize the
 trace from a generated binary file.

\*
\*---- MODULE MCInit_TETrace ----
\*EXTENDS IOUtils, TLC, MCInit
\*
\*trace == IODeserialize("MCInit_TTrace_1791018699.bin", TRUE)
\*
\*=============================================================================
\*

---- MODULE MCInit_TETrace ----
EXTENDS TLC, MCInit

trace == 
    <<
    ([ret |-> <<-2, -2, -2>>,stirDone |-> FALSE,cpuDone |-> FALSE,pc |-> <<"call", "call", "call">>,npicks |-> 0,picked |-> 0,lock |-> 0,initialized |-> FALSE,allocDone |-> FALSE]),
    ([ret |-> <<-2, -2, -2>>,stirDone |-> FALSE,cpuDone |-> FALSE,pc |-> <<"check", "call", "call">>,npicks |-> 0,picked |-> 0,lock |-> 1,initialized |-> FALSE,allocDone |-> FALSE]),
    ([ret |-> <<-2, -2, -2>>,stirDone |-> FALSE,cpuDone |-> FALSE,pc |-> <<"cpu", "call", "call">>,npicks |-> 0,picked |-> 0,lock |-> 1,initialized |-> FALSE,allocDone |-> FALSE]),
    ([ret |-> <<-2, -2, -2>>,stirDone |-> FALSE,cpuDone |-> TRUE,pc |-> <<"stir", "call", "call">>,npicks |-> 0,picked |-> 0,lock |-> 1,initialized |-> FALSE,allocDone |-> FALSE]),
    ([ret |-> <<-2, -2, -2>>,stirDone |-> TRUE,cpuDone |-> TRUE,pc |-> <<"alloc", "call", "call">>,npicks |-> 0,picked |-> 0,lock |-> 1,initialized |-> FALSE,allocDone |-> FALSE]),
    ([ret |-> <<-2, -2, -2>>,stirDone |-> TRUE,cpuDone |-> TRUE,pc |-> <<"pick", "call", "call">>,npicks |-> 0,picked |-> 0,lock |-> 0,initialized |-> FALSE,allocDone |-> TRUE]),
    ([ret |-> <<-2, -2, -2>>,stirDone |-> TRUE,cpuDone |-> TRUE,pc |-> <<"pick", "check", "call">>,npicks |-> 0,picked |-> 0,lock |-> 2,initialized |-> FALSE,allocDone |-> TRUE])
    >>
----


=============================================================================

---- CONFIG MCInit_TTrace_1791018699 ----
CONSTANTS
    Threads = { 1 , 2 , 3 }
    Prims <- MCPrims
    Variant = "UnlockBeforePicks"

INVARIANT
    _inv

CHECK_DEADLOCK
    \* CHECK_DEADLOCK off because of PROPERTY or INVARIANT above.
    FALSE

INIT
    _init

NEXT
    _next

CONSTANT
    _TETrace <- _trace

ALIAS
    _expression
=============================================================================
\* Generated on Sat Oct 03 09:11:40 UTC 2026