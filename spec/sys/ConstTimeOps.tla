----------------------------- MODULE ConstTimeOps -----------------------------
(* C11, part 2: the operations the property lists (harness/taint_driver.c has one op_<name> per entry), whether
   they take a message length, and the functions in which a conditional jump on a declassified status may be
   reported.  Secret operands per operation are documented next to each op_<name>: keys, scalars, seeds, messages /
   plaintexts, both operands of comparisons, data to encode, padded buffers; public: lengths, nonces, associated
   data, public keys / points, ciphertexts, signatures, status. *)
EXTENDS Naturals, Sequences, FiniteSets
(* Part 2: the operations of the property.  status: functions in which a conditional jump on a declassified
   status may be reported (the function turns "MAC matched" / "result is the identity" into a return code). *)
StatusDecrypt(p) == {p \o "_decrypt_detached", p \o "_decrypt"}
IdentityErr == {"crypto_scalarmult_curve25519", "crypto_scalarmult", "crypto_box_curve25519xsalsa20poly1305_beforenm",
                "crypto_box_curve25519xchacha20poly1305_beforenm", "crypto_box_beforenm",
                "crypto_kx_client_session_keys", "crypto_kx_server_session_keys",
                "_crypto_scalarmult_ed25519", "_crypto_scalarmult_ed25519_base", "crypto_scalarmult_ed25519",
                "crypto_scalarmult_ed25519_noclamp", "crypto_scalarmult_ed25519_base", "crypto_scalarmult_ed25519_base_noclamp",
                "crypto_scalarmult_ristretto255", "crypto_scalarmult_ristretto255_base"}
O(n, hasLen, st) == [op |-> n, len |-> hasLen, status |-> st]
StreamP == {"crypto_stream_chacha20", "crypto_stream_chacha20_ietf", "crypto_stream_xchacha20", "crypto_stream_salsa20",
            "crypto_stream_xsalsa20", "crypto_stream_salsa2012", "crypto_stream_salsa208"}
AeadP == {"crypto_aead_chacha20poly1305", "crypto_aead_chacha20poly1305_ietf", "crypto_aead_xchacha20poly1305_ietf",
          "crypto_aead_aes256gcm", "crypto_aead_aegis128l", "crypto_aead_aegis256"}
AuthP == {"crypto_auth_hmacsha256", "crypto_auth_hmacsha512", "crypto_auth_hmacsha512256"}
Ops ==
  {O(n, TRUE, {}) : n \in {"sodium_memcmp", "sodium_compare", "sodium_is_zero", "sodium_increment", "sodium_add", "sodium_sub"}} \cup
  {O(n, FALSE, {}) : n \in {"crypto_verify_16", "crypto_verify_32", "crypto_verify_64"}} \cup
  {O(n, FALSE, IdentityErr) : n \in {"crypto_scalarmult", "crypto_scalarmult_base", "crypto_box_keypair", "crypto_box_seed_keypair",
                                      "crypto_box_beforenm", "crypto_kx_client_session_keys"}} \cup
  {O(n, FALSE, {}) : n \in {"crypto_sign_seed_keypair", "crypto_sign_keypair", "crypto_sign_ed25519_sk_to_curve25519"}} \cup
  {O(n, TRUE, {}) : n \in {"crypto_sign_detached", "crypto_sign", "crypto_sign_multipart"}} \cup
  {O(n, FALSE, IdentityErr) : n \in {"crypto_scalarmult_ed25519", "crypto_scalarmult_ed25519_noclamp", "crypto_scalarmult_ed25519_base",
                                      "crypto_scalarmult_ed25519_base_noclamp", "crypto_scalarmult_ristretto255", "crypto_scalarmult_ristretto255_base"}} \cup
  {O(g \o s, FALSE, {}) : g \in {"crypto_core_ed25519", "crypto_core_ristretto255"},
                          s \in {"_scalar_invert", "_scalar_negate", "_scalar_complement", "_scalar_add", "_scalar_sub", "_scalar_mul", "_scalar_reduce"}} \cup
  {O(p \o s, TRUE, {}) : p \in StreamP, s \in {"", "_xor"}} \cup
  {O(n, TRUE, {}) : n \in {"crypto_onetimeauth", "crypto_onetimeauth_multipart", "crypto_hash_sha256", "crypto_hash_sha512", "crypto_generichash_keyed",
                           "crypto_generichash_multipart", "crypto_shorthash", "crypto_shorthash_siphashx24", "crypto_kdf_derive_from_key",
                           "crypto_kdf_hkdf_sha256", "crypto_kdf_hkdf_sha512", "crypto_secretstream_push"}} \cup
  {O(p, TRUE, {}) : p \in AuthP} \cup
  {O(p \o "_verify", TRUE, {p \o "_verify"}) : p \in AuthP \cup {"crypto_onetimeauth"}} \cup
  {O(p \o "_easy", TRUE, {}) : p \in {"crypto_secretbox", "crypto_secretbox_xchacha20poly1305"}} \cup
  {O(p \o "_open_easy", TRUE, {p \o "_open_detached", p \o "_open_easy"}) : p \in {"crypto_secretbox", "crypto_secretbox_xchacha20poly1305"}} \cup
  {O("crypto_box_easy", TRUE, IdentityErr)} \cup
  {O(p \o s, TRUE, {}) : p \in AeadP, s \in {"_encrypt", "_encrypt_detached"}} \cup
  {O(p \o "_decrypt", TRUE, StatusDecrypt(p) \cup {"decrypt_detached", p \o "_decrypt_detached_afternm"}) : p \in AeadP} \cup
  {O(n, TRUE, {}) : n \in {"sodium_bin2hex", "sodium_bin2base64_v1", "sodium_bin2base64_v3", "sodium_bin2base64_v5", "sodium_bin2base64_v7",
                           "sodium_pad", "sodium_unpad", "sodium_unpad_invalid",
                           \* the same with block sizes of several pages and a non-power of two (the block size is public, the padding length is not)
                           "sodium_pad_bs16384", "sodium_unpad_bs16384", "sodium_unpad_bs5000", "sodium_unpad_invalid_bs8192"}}
OpNames == {o.op : o \in Ops}
OpOf(n) == CHOOSE o \in Ops : o.op = n
\* operations that need hardware AES (absent under some CPU masks / builds)
NeedsAes == {"crypto_aead_aes256gcm" \o s : s \in {"_encrypt", "_encrypt_detached", "_decrypt"}}
\* the driver's deliberately leaky self-checks: the monitor must report these (else it is not observing)
SelfChecks == [selfcheck_branch |-> "branch", selfcheck_index |-> "address"]

\* a report of kind k with innermost library frame fn (stack frames) during operation n is acceptable iff it is a
\* branch on a declassified status in one of the functions allowed for n
\* or it comes from the software AES fallback of AEGIS (table based; the property speaks of hardware AES only)
SoftAesFrames == {"_sodium_softaes_block_encrypt", "softaes_block_encrypt", "_sodium_softaes_invert_key_schedule256"}
AegisOps == {p \o s : p \in {"crypto_aead_aegis128l", "crypto_aead_aegis256"}, s \in {"_encrypt", "_encrypt_detached", "_decrypt"}}
ReportAllowed(n, k, fn, frames) ==
  \/ k = "branch" /\ fn \in OpOf(n).status
  \/ n \in AegisOps /\ \E i \in 1..Len(frames) : frames[i] \in SoftAesFrames
=============================================================================
