--------------------------- MODULE MCAllocFault ---------------------------
(* the allocation protocols as read from the code (Appendix B of DESIGN.md) *)
EXTENDS AllocFault
MCApis == {"argon2_hash", "argon2_verify", "argon2_needs_rehash", "scrypt", "sodium_malloc"}
MCProg(a) == CASE a = "argon2_hash"   -> <<"malloc", "malloc", "malloc", "mmap">>                 \* out, pseudo_rands, region, memory
               [] a = "argon2_verify" -> <<"malloc", "malloc", "malloc", "malloc", "malloc", "malloc", "malloc", "mmap">>
               [] a = "argon2_needs_rehash" -> <<"malloc">>
               [] a = "scrypt"        -> <<"mmap">>
               [] a = "sodium_malloc" -> <<"mmap">>
MCKeeps(a) == IF a = "sodium_malloc" THEN 1 ELSE 0
=============================================================================
