--------------------------- MODULE RandomSource ---------------------------
(***************************************************************************)
(* randombytes_uniform with a pluggable source (property C18), as a state   *)
(* machine: Begin(n) ; Draw(r)* ; End.  Word arithmetic is a parameter so   *)
(* that the exhaustive model uses a small word (2^W = Mod, all bounds, all  *)
(* draw sequences) and the trace specification uses real 32-bit values.     *)
(***************************************************************************)
EXTENDS Integers, Sequences, FiniteSets, TLC

CONSTANTS Bounds, Draws, MaxDraws,
          IsSmall(_),        \* bound < 2
          Threshold(_),      \* 2^W mod bound
          Less(_, _),        \* r < t
          Rem(_, _),         \* r mod bound
          Zero,
          Strict             \* TRUE in the real design; FALSE = deliberately wrong: rejects r <= min instead of r < min

VARIABLES phase,   \* "idle" | "drawing" | "done"
          bound, drawn, result
vars == <<phase, bound, drawn, result>>

Init == phase = "idle" /\ bound = Zero /\ drawn = <<>> /\ result = Zero

Begin(n) ==
  /\ phase \in {"idle", "done"}
  /\ bound' = n /\ drawn' = <<>>
  /\ IF IsSmall(n) THEN phase' = "done" /\ result' = Zero          \* 0 for n < 2, without drawing
                   ELSE phase' = "drawing" /\ result' = Zero

Rejected(r) == IF Strict THEN Less(r, Threshold(bound)) ELSE (Less(r, Threshold(bound)) \/ r = Threshold(bound))

Draw(r) ==
  /\ phase = "drawing" /\ Len(drawn) < MaxDraws
  /\ drawn' = Append(drawn, r)
  /\ IF Rejected(r) THEN phase' = "drawing" /\ result' = result
                    ELSE phase' = "done" /\ result' = Rem(r, bound)
  /\ UNCHANGED bound

Next == (\E n \in Bounds : Begin(n)) \/ (\E r \in Draws : Draw(r))
Spec == Init /\ [][Next]_vars
=============================================================================
