---- MODULE MCAllocFault_TTrace_1791017927 ----
EXTENDS Sequences, TLCExt, Toolbox, Naturals, TLC, MCAllocFault

_expression ==
    LET MCAllocFault_TEExpression == INSTANCE MCAllocFault_TEExpression
    IN MCAllocFault_TEExpression!expression
----

_trace ==
    LET MCAllocFault_TETrace == INSTANCE MCAllocFault_TETrace
    IN MCAllocFault_TETrace!trace
----

_inv ==
    ~(
        TLCGet("level") = Len(_TETrace)
        /\
        ret = ("none")
        /\
        pc = (1)
        /\
        bad = (FALSE)
        /\
        api = ("argon2_hash")
        /\
        failed = (FALSE)
        /\
        live = ({})
        /\
        out = ("none")
    )
----

_init ==
    /\ out = _TETrace[1].out
    /\ live = _TETrace[1].live
    /\ bad = _TETrace[1].bad
    /\ ret = _TETrace[1].ret
    /\ pc = _TETrace[1].pc
    /\ api = _TETrace[1].api
    /\ failed = _TETrace[1].failed
----

_next ==
    /\ \E i,j \in DOMAIN _TETrace:
        /\ \/ /\ j = i + 1
              /\ i = TLCGet("level")
        /\ out  = _TETrace[i].out
        /\ out' = _TETrace[j].out
        /\ live  = _TETrace[i].live
        /\ live' = _TETrace[j].live
        /\ bad  = _TETrace[i].bad
        /\ bad' = _TETrace[j].bad
        /\ ret  = _TETrace[i].ret
        /\ ret' = _TETrace[j].ret
        /\ pc  = _TETrace[i].pc
        /\ pc' = _TETrace[j].pc
        /\ api  = _TETrace[i].api
        /\ api' = _TETrace[j].api
        /\ failed  = _TETrace[i].failed
        /\ failed' = _TETrace[j].failed

\* Uncomment the ASSUME below to write the states of the error trace
\* to the given file in Json format. Note that you can pass any tuple
\* to `JsonSerialize`. For example, a sub-sequence of _TETrace.
    \* ASSUME
    \*     LET J == INSTANCE Json
    \*         IN J!JsonSerialize("MCAllocFault_TTrace_1791017927.json", _TETrace)

=============================================================================

 Note that you can extract this module `MCAllocFault_TEExpression`
  to a dedicated file to reuse `expression` (the module in the 
  dedicated `MCAllocFault_TEExpression.tla` file takes precedence 
  over the module `MCAllocFault_TEExpression` below).

---- MODULE MCAllocFault_TEExpression ----
EXTENDS Sequences, TLCExt, Toolbox, Naturals, TLC, MCAllocFault

expression == 
    [
        \* To hide variables of the `MCAllocFault` spec from the error trace,
        \* remove the variables below.  The trace will be written in the order
        \* of the fields of this record.
        out |-> out
        ,live |-> live
        ,bad |-> bad
        ,ret |-> ret
        ,pc |-> pc
        ,api |-> api
        ,failed |-> failed
        
        \* Put additional constant-, state-, and action-level expressions here:
        \* ,_stateNumber |-> _TEPosition
        \* ,_outUnchanged |-> out = out'
        
        \* Format the `out` variable as Json value.
        \* ,_outJson |->
        \*     LET J == INSTANCE Json
        \*     IN J!ToJson(out)
        
        \* Lastly, you may build expressions over arbitrary sets of states by
        \* leveraging the _TETrace operator.  For example, this is how to
        \* count the number of times a spec variable changed up to the current
        \* state in the trace.
        \* ,_outModCount |->
        \*     LET F[s \in DOMAIN _TETrace] ==
        \*         IF s = 1 THEN 0
        \*         ELSE IF _TETrace[s].out # _TETrace[s-1].out
        \*             THEN 1 + F[s-1] ELSE F[s-1]
        \*     IN F[_TEPosition - 1]
    ]

=============================================================================



Parsing and semantic processing can take forever if the trace below is long.
 In this case, it is advised to uncomment the module below to deserialize the
 trace from a generated binary file.

\*
\*---- MODULE MCAllocFault_TETrace ----
\*EXTENDS IOUtils, TLC, MCAllocFault
\*
\*trace == IODeserialize("MCAllocFault_TTrace_1791017927.bin", TRUE)
\*
\*=============================================================================
\*

---- MODULE MCAllocFault_TETrace ----
EXTENDS TLC, MCAllocFault

trace == 
    <<
    ([ret |-> "none",pc |-> "idle",bad |-> FALSE,api |-> "none",failed |-> FALSE,live |-> {},out |-> "none"]),
    ([ret |-> "none",pc |-> 1,bad |-> FALSE,api |-> "argon2_hash",failed |-> FALSE,live |-> {},out |-> "none"])
    >>
----


=============================================================================

---- CONFIG MCAllocFault_TTrace_1791017927 ----
CONSTANTS
    Apis <- MCApis
    Prog <- MCProg
    Keeps <- MCKeeps
    LeakOnFailureAt = 3

INVARIANT
    _inv

CHECK_DEADLOCK
    \* CHECK_DEADLOCK off because of PROPERTY or INVARIANT above.
    FALSE

INIT
    _init

NEXT
    _next

CONSTANT
    _TETrace <- _trace

ALIAS
    _expression
=============================================================================
\* Generated on Sat Oct 03 08:58:49 UTC 2026