CONSTANTS MaxSteps = 1
          CheckAddresses = TRUE
SPECIFICATION IndSpec
INVARIANTS IndInv
CHECK_DEADLOCK FALSE
