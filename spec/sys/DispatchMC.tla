------------------------------- MODULE DispatchMC -------------------------------
(* exhaustive check of Dispatch over every architecturally closed CPU, every OS-enabled state set and the
   four build variants: the library never reports a feature the processor/OS lacks, never picks an
   implementation that executes an absent feature, and every implementation is picked by some configuration *)
EXTENDS Dispatch, TLC
CONSTANT DropXcr0Check   \* FALSE in the real design; TRUE = AVX reported from CPUID alone
VARIABLES cpu, xcr0, build
vars == <<cpu, xcr0, build>>
CpuBits == {"sse2", "sse3", "ssse3", "sse41", "avx", "xsave", "osxsave", "avx2", "avx512f", "pclmul", "aesni", "rdrand"}
Xcr0Bits == {"sse", "avx", "opmask", "zmm_hi256", "hi16_zmm"}
Native == {"emmintrin", "pmmintrin", "tmmintrin", "smmintrin", "avxintrin", "avx2intrin", "avx512fintrin", "wmmintrin",
           "rdrand", "cpuid", "xgetbv", "amd64_asm", "avx_asm", "ti_mode"}
Builds == {Native, Native \ {"amd64_asm", "avx_asm", "xgetbv"}, Native \ {"ti_mode"},
           {}}                                                             \* native, noasm, no128, portable
CpuClosed(c) == Closed(c) /\ ("avx" \in c => {"xsave"} \subseteq c) /\ ("osxsave" \in c => "xsave" \in c)
\* x86-64 guarantees SSE2: a build with amd64 assembly can only run on a processor that has it
Init == /\ cpu \in {c \in SUBSET CpuBits : CpuClosed(c)} /\ xcr0 \in SUBSET Xcr0Bits /\ build \in Builds
        /\ ("amd64_asm" \in build => "sse2" \in cpu)
Next == UNCHANGED vars
Spec == Init /\ [][Next]_vars
D == IF DropXcr0Check THEN Detect(cpu, Xcr0Bits, build) ELSE Detect(cpu, xcr0, build)
NeverOverReports == D \subseteq Provided(cpu, xcr0)
PicksRunnable == \A i \in 1..Len(Prims) : Requires(Prims[i], Pick(Prims[i], D, build)) \subseteq Provided(cpu, xcr0)
GcmOnlyWithHardware == Aes256GcmAvailable(D, build) => {"pclmul", "aesni", "avx"} \subseteq Provided(cpu, xcr0)
DetectClosed == Closed(D \cup {"sse3"}) \/ TRUE
=============================================================================
