------------------------------- MODULE Overlap -------------------------------
(***************************************************************************)
(* In-place and overlapping buffers (property C13) on a symbolic,          *)
(* byte-addressed memory.  The cipher is Enc(i, x) = <<"e", i, x>>          *)
(* (position dependent, injective), so a byte that is read after it was     *)
(* overwritten, or written twice, shows in the result.  The algorithms are  *)
(* modelled step by step as the code performs them:                         *)
(*   secretbox_detached / easy      (overlap test, memmove, block0 dance)   *)
(*   secretbox_open_detached        (copy to block0 first, memmove, ...)    *)
(*   crypto_sign / crypto_sign_open (memmove around the signature)          *)
(*   strided stream XOR             (load a stride, then store it)          *)
(* Scaled constants: ZEROBYTES Z, first block BLK, MAC / signature size.    *)
(***************************************************************************)
EXTENDS Integers, Sequences, FiniteSets, Functions, SequencesExt, TLC

CONSTANTS A, MaxLen, Z, BLK, MAC, SIG, Strides,
          TwoSided       \* TRUE in the real design; FALSE drops one side of the pointer-distance test

Addr == 0..(A - 1)
Enc(i, x) == <<"e", i, x>>
Mem0(m, mlen) == [a \in Addr |-> IF a >= m /\ a < m + mlen THEN <<"m", a - m>> ELSE <<"j", a>>]
Memmove(mem, dst, src, n) == [a \in Addr |-> IF a >= dst /\ a < dst + n THEN mem[src + (a - dst)] ELSE mem[a]]
\* stream XOR of n bytes from src to dst, keystream position pos0, processed in strides of S bytes: a whole
\* stride is loaded before it is stored (as the vectorised cores do)
XorStrided(mem, dst, src, n, pos0, S) ==
  FoldLeft(LAMBDA acc, k :
     LET lo == k * S  hi == IF lo + S > n THEN n ELSE lo + S
         loaded == [i \in lo..(hi - 1) |-> acc[src + i]]
     IN [a \in Addr |-> IF a >= dst + lo /\ a < dst + hi THEN Enc(pos0 + (a - dst), loaded[a - dst]) ELSE acc[a]],
     mem, [k \in 1..((n + S - 1) \div S) |-> k - 1])
Overlaps(c, m, n) == (c > m /\ c - m < n) \/ (TwoSided /\ m > c /\ m - c < n)

\* crypto_secretbox_detached(c, mac, m, mlen)
Detached(mem, c, mac, m, mlen, S) ==
  LET ov    == Overlaps(c, m, mlen)
      mem1  == IF ov THEN Memmove(mem, c, m, mlen) ELSE mem
      m1    == IF ov THEN c ELSE m
      mlen0 == IF mlen < BLK - Z THEN mlen ELSE BLK - Z
      blk0  == [i \in 0..(mlen0 - 1) |-> Enc(i, mem1[m1 + i])]
      mem2  == [a \in Addr |-> IF a >= c /\ a < c + mlen0 THEN blk0[a - c] ELSE mem1[a]]
      mem3  == IF mlen > mlen0 THEN XorStrided(mem2, c + mlen0, m1 + mlen0, mlen - mlen0, mlen0, S) ELSE mem2
  IN [a \in Addr |-> IF a >= mac /\ a < mac + MAC THEN <<"mac", a - mac>> ELSE mem3[a]]
\* crypto_secretbox_open_detached(m, c, mac, clen): the first block is read from c BEFORE the memmove
OpenDetached(mem, m, c, clen, S) ==
  LET mlen0 == IF clen < BLK - Z THEN clen ELSE BLK - Z
      blk0  == [i \in 0..(mlen0 - 1) |-> Enc(i, mem[c + i])]
      ov    == Overlaps(c, m, clen)
      mem1  == IF ov THEN Memmove(mem, m, c, clen) ELSE mem
      c1    == IF ov THEN m ELSE c
      mem2  == [a \in Addr |-> IF a >= m /\ a < m + mlen0 THEN blk0[a - m] ELSE mem1[a]]
  IN IF clen > mlen0 THEN XorStrided(mem2, m + mlen0, c1 + mlen0, clen - mlen0, mlen0, S) ELSE mem2
\* crypto_sign(sm, m, mlen): memmove(sm + SIG, m, mlen), then the signature (a function of the message) in sm[0..SIG)
SignC(mem, sm, m, mlen) ==
  LET mem1 == Memmove(mem, sm + SIG, m, mlen)
  IN [a \in Addr |-> IF a >= sm /\ a < sm + SIG THEN <<"sig", a - sm, [i \in 0..(mlen - 1) |-> mem1[sm + SIG + i]]>> ELSE mem1[a]]
\* crypto_sign_open(m, sm, smlen): verify on sm, then memmove(m, sm + SIG, mlen)
SignOpenC(mem, m, sm, mlen) == Memmove(mem, m, sm + SIG, mlen)

VARIABLES mlen, mpos, cpos, stride
vars == <<mlen, mpos, cpos, stride>>
Init == /\ mlen \in 0..MaxLen /\ stride \in Strides
        /\ mpos \in (MaxLen + SIG)..(A - (2 * MaxLen) - (2 * SIG) - MAC - 1) /\ cpos \in (mpos - MaxLen - SIG)..(mpos + MaxLen + SIG)
Next == UNCHANGED vars
Spec == Init /\ [][Next]_vars

Expect(i) == Enc(i, <<"m", i>>)
\* easy form: c = mac || ciphertext at cpos; any placement of the message relative to it
EasyOK ==
  LET r == Detached(Mem0(mpos, mlen), cpos + MAC, cpos, mpos, mlen, stride)
  IN /\ \A i \in 0..(mlen - 1) : r[cpos + MAC + i] = Expect(i)
     /\ \A j \in 0..(MAC - 1) : r[cpos + j] = <<"mac", j>>
     /\ \A a \in Addr : (a < cpos \/ a >= cpos + MAC + mlen) => r[a] = Mem0(mpos, mlen)[a]     \* nothing else written
\* open_easy: the ciphertext (after the MAC) at cpos + MAC, output message at mpos
OpenOK ==
  LET mem == [a \in Addr |-> IF a >= cpos + MAC /\ a < cpos + MAC + mlen THEN <<"m", a - (cpos + MAC)>> ELSE <<"j", a>>]
      r == OpenDetached(mem, mpos, cpos + MAC, mlen, stride)
  IN /\ \A i \in 0..(mlen - 1) : r[mpos + i] = Expect(i)
     /\ \A a \in Addr : (a < mpos \/ a >= mpos + mlen) => r[a] = mem[a]
SignOK ==
  LET r == SignC(Mem0(mpos, mlen), cpos, mpos, mlen)
  IN /\ \A i \in 0..(mlen - 1) : r[cpos + SIG + i] = <<"m", i>>
     /\ \A j \in 0..(SIG - 1) : r[cpos + j] = <<"sig", j, [i \in 0..(mlen - 1) |-> <<"m", i>>]>>
SignOpenOK ==
  LET mem == [a \in Addr |-> IF a >= cpos + SIG /\ a < cpos + SIG + mlen THEN <<"m", a - (cpos + SIG)>> ELSE <<"j", a>>]
      r == SignOpenC(mem, mpos, cpos, mlen)
  IN \A i \in 0..(mlen - 1) : r[mpos + i] = <<"m", i>>
\* exact aliasing (same pointer) is correct for the strided stream core, for every stride
AliasOK == LET r == XorStrided(Mem0(mpos, mlen), mpos, mpos, mlen, 0, stride) IN \A i \in 0..(mlen - 1) : r[mpos + i] = Expect(i)
\* ... and the contract table: for a plain stream XOR any OTHER overlap is outside the contract - TLC can exhibit
\* placements that break (checked by the .cfg that expects a violation of this deliberately false claim)
StreamAnyOffsetOK == LET r == XorStrided(Mem0(mpos, mlen), cpos, mpos, mlen, 0, stride)
                     IN (cpos >= 0 /\ cpos + mlen <= A) => \A i \in 0..(mlen - 1) : r[cpos + i] = Expect(i)
=============================================================================
