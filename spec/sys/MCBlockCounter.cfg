CONSTANTS WB = 4 MaxBlocks = 20 Batches = {1, 2, 4, 8} Variant = "code"
SPECIFICATION Spec
INVARIANTS CountersRight Progress
CHECK_DEADLOCK FALSE
