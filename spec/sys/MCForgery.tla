------------------------------- MODULE MCForgery -------------------------------
EXTENDS Forgery
MCApis == {"aead_chacha", "aead_gcm", "aead_aegis", "secretbox", "box", "seal", "secretstream", "auth", "onetimeauth", "sign_open"}
MCFields(a) == CASE a \in {"aead_chacha", "aead_gcm", "aead_aegis"} -> {"c", "tag", "ad", "nonce", "key"}
                 [] a = "secretbox" -> {"c", "tag", "nonce", "key"} [] a = "box" -> {"c", "tag", "nonce", "pk", "sk"}
                 [] a = "seal" -> {"epk", "c", "tag", "pk", "sk"} [] a = "secretstream" -> {"c", "tag", "ad", "header", "key"}
                 [] a \in {"auth", "onetimeauth"} -> {"msg", "tag", "key"} [] a = "sign_open" -> {"msg", "sig", "pk"}
MCFailureOut(a) == CASE a = "aead_gcm" -> "Fill(0xd0)" [] a \in {"aead_chacha", "aead_aegis", "sign_open"} -> "Fill(0x00)" [] OTHER -> "Untouched"
MCReportsLength(a) == a \in {"aead_chacha", "aead_gcm", "aead_aegis", "secretstream", "sign_open"}
=============================================================================
