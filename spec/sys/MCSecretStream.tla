--------------------------- MODULE MCSecretStream ---------------------------
(* exhaustive instance of SecretStream: the counter lives modulo Wrap (the image of 2^32) *)
EXTENDS SecretStream, TLC
CONSTANT Wrap
MCCtrInc(c) == (c + 1) % Wrap
MCCtrIsZero(c) == c = 0
MCInitCtrs == {1, Wrap - 1, Wrap - 2}
Sym == Permutations(Msgs) \cup Permutations(Ads)
=============================================================================
