------------------------------- MODULE Init -------------------------------
(***************************************************************************)
(* sodium_init() raced by several threads (property C19, first half).       *)
(* One action per step the code takes while holding (or acquiring) the      *)
(* global lock:                                                             *)
(*   Lock -> Check -> ( Already ; Unlock ; return 1 )                       *)
(*                 |  ( Cpu ; Stir ; Alloc ; Pick_1 .. Pick_n ; SetInit ;   *)
(*                      Unlock ; return 0 )                                 *)
(* followed by Use (the thread relies on the library being initialised).    *)
(* Variant selects the real design ("ok") or a deliberately wrong one, used *)
(* to show that the invariants can fail:                                    *)
(*   "FlagFirstUnlockedCheck"  initialized is set before the work is done   *)
(*                       and tested before taking the lock                  *)
(*   "UnlockBeforePicks" the lock is released before the implementations    *)
(*                       are picked                                         *)
(*   "NoSetInit"         initialized is never set                           *)
(***************************************************************************)
EXTENDS Integers, Sequences, FiniteSets, TLC

CONSTANTS Threads, Prims, Variant

VARIABLES pc, lock, initialized, cpuDone, stirDone, allocDone, picked, npicks, ret
vars == <<pc, lock, initialized, cpuDone, stirDone, allocDone, picked, npicks, ret>>

NPrims == Len(Prims)
Set(t, v) == pc' = [pc EXCEPT ![t] = v]

Init == /\ pc = [t \in Threads |-> "call"] /\ lock = 0 /\ initialized = FALSE
        /\ cpuDone = FALSE /\ stirDone = FALSE /\ allocDone = FALSE
        /\ picked = 0 /\ npicks = 0 /\ ret = [t \in Threads |-> -2]

\* wrong design only: test the flag without the lock
EarlyCheck(t) == /\ Variant = "FlagFirstUnlockedCheck" /\ pc[t] = "call" /\ initialized
                 /\ Set(t, "use") /\ ret' = [ret EXCEPT ![t] = 1]
                 /\ UNCHANGED <<lock, initialized, cpuDone, stirDone, allocDone, picked, npicks>>
Lock(t) == /\ pc[t] = "call" /\ lock = 0 /\ lock' = t /\ Set(t, "check")
           /\ UNCHANGED <<initialized, cpuDone, stirDone, allocDone, picked, npicks, ret>>
Check(t) == /\ pc[t] = "check" /\ Set(t, IF initialized THEN "already" ELSE "cpu")
            /\ UNCHANGED <<lock, initialized, cpuDone, stirDone, allocDone, picked, npicks, ret>>
Already(t) == /\ pc[t] = "already" /\ Set(t, "unlock") /\ ret' = [ret EXCEPT ![t] = 1]
              /\ UNCHANGED <<lock, initialized, cpuDone, stirDone, allocDone, picked, npicks>>
Cpu(t) == /\ pc[t] = "cpu" /\ cpuDone' = TRUE /\ Set(t, "stir")
          /\ initialized' = (IF Variant = "FlagFirstUnlockedCheck" THEN TRUE ELSE initialized)
          /\ UNCHANGED <<lock, stirDone, allocDone, picked, npicks, ret>>
Stir(t) == /\ pc[t] = "stir" /\ stirDone' = TRUE /\ Set(t, "alloc")
           /\ UNCHANGED <<lock, initialized, cpuDone, allocDone, picked, npicks, ret>>
Alloc(t) == /\ pc[t] = "alloc" /\ allocDone' = TRUE
            /\ IF Variant = "UnlockBeforePicks" THEN lock' = 0 ELSE lock' = lock
            /\ Set(t, "pick")
            /\ UNCHANGED <<initialized, cpuDone, stirDone, picked, npicks, ret>>
\* implementations are picked in the fixed order of Prims; each writes one implementation pointer
Pick(t) == /\ pc[t] = "pick" /\ picked < NPrims
           /\ picked' = picked + 1 /\ npicks' = npicks + 1
           /\ Set(t, IF picked + 1 = NPrims THEN "setinit" ELSE "pick")
           /\ UNCHANGED <<lock, initialized, cpuDone, stirDone, allocDone, ret>>
\* a second initialiser (possible only in wrong designs) starts picking again from the first primitive
SetInit(t) == /\ pc[t] = "setinit"
              /\ initialized' = (Variant # "NoSetInit")
              /\ Set(t, "unlock") /\ ret' = [ret EXCEPT ![t] = 0]
              /\ UNCHANGED <<lock, cpuDone, stirDone, allocDone, picked, npicks>>
Unlock(t) == /\ pc[t] = "unlock" /\ lock' = (IF lock = t THEN 0 ELSE lock) /\ Set(t, "ret")
             /\ UNCHANGED <<initialized, cpuDone, stirDone, allocDone, picked, npicks, ret>>
Return(t) == /\ pc[t] = "ret" /\ Set(t, "use")
             /\ UNCHANGED <<lock, initialized, cpuDone, stirDone, allocDone, picked, npicks, ret>>
Use(t) == /\ pc[t] = "use" /\ Set(t, "done")
          /\ UNCHANGED <<lock, initialized, cpuDone, stirDone, allocDone, picked, npicks, ret>>
\* a second initialiser resets the pick counter (it overwrites the pointers again)
Restart(t) == /\ pc[t] = "pick" /\ picked = NPrims
              /\ picked' = 1 /\ npicks' = npicks + 1 /\ Set(t, IF NPrims = 1 THEN "setinit" ELSE "pick")
              /\ UNCHANGED <<lock, initialized, cpuDone, stirDone, allocDone, ret>>

Step(t) == EarlyCheck(t) \/ Lock(t) \/ Check(t) \/ Already(t) \/ Cpu(t) \/ Stir(t) \/ Alloc(t) \/ Pick(t)
           \/ Restart(t) \/ SetInit(t) \/ Unlock(t) \/ Return(t) \/ Use(t)
Next == \E t \in Threads : Step(t)
Spec == Init /\ [][Next]_vars
FairSpec == Spec /\ \A t \in Threads : WF_vars(Step(t))

-----------------------------------------------------------------------------
InCritical(t) == pc[t] \in {"check", "already", "cpu", "stir", "alloc", "pick", "setinit", "unlock"}
Mutex == Cardinality({t \in Threads : InCritical(t)}) <= 1
\* initialisation happens exactly once: no implementation pointer is written twice
InitOnce == npicks <= NPrims
\* a thread that has returned from sodium_init never observes a partially initialised library
NoPartial == \A t \in Threads : pc[t] \in {"use", "done"} =>
                (initialized /\ cpuDone /\ stirDone /\ allocDone /\ picked = NPrims)
\* every call returns success: 0 for exactly one thread, 1 for the others
Returns == (\A t \in Threads : pc[t] = "done") =>
              (/\ Cardinality({t \in Threads : ret[t] = 0}) = 1
               /\ \A t \in Threads : ret[t] \in {0, 1})
Terminates == <>(\A t \in Threads : pc[t] = "done")
=============================================================================
