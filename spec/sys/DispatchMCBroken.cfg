SPECIFICATION Spec
CONSTANTS DropXcr0Check = TRUE
INVARIANTS NeverOverReports PicksRunnable GcmOnlyWithHardware
CHECK_DEADLOCK FALSE
