------------------------------- MODULE TraceInit -------------------------------
(* Trace validation for Init (C19) and Dispatch (C10). Events recorded by harness/init_race.c:
     reset{n} config{cpu,xcr0,build,reported,...}
     call{t} enter{t} (already{t} | cpu{t} stir{t} alloc{t} pick{t,prim,impl}* done{t}) return{t,ret,use_ok}
   Events emitted by the hook were produced while the init lock was held and are ordered by a global sequence
   number; call/return are per-thread. Check, Unlock and Use are not logged: they are silent steps of the
   specification, so acceptance is "some behaviour of Init consumes every line" (tracked in a TLC register). *)
EXTENDS Init, Json, IOUtils
D == INSTANCE Dispatch
DPrims == D!Prims
Tr == ndJsonDeserialize(IOEnv.TRACE)
VARIABLES l, F, build, impls
tvars == <<vars, l, F, build, impls>>
Ev == Tr[l]
IsEvent(e) == l <= Len(Tr) /\ Tr[l].e = e /\ l' = l + 1
ToSet(s) == {s[i] : i \in 1..Len(s)}
Keep == UNCHANGED <<F, build, impls>>

TraceInit == Init /\ l = 1 /\ F = {} /\ build = {} /\ impls = [i \in 1..NPrims |-> "none"]

TReset == /\ IsEvent("reset")
          /\ pc' = [t \in Threads |-> "call"] /\ lock' = 0 /\ initialized' = FALSE
          /\ cpuDone' = FALSE /\ stirDone' = FALSE /\ allocDone' = FALSE
          /\ picked' = 0 /\ npicks' = 0 /\ ret' = [t \in Threads |-> -2]
          /\ impls' = [i \in 1..NPrims |-> "none"] /\ UNCHANGED <<F, build>>
\* what the library reports must be exactly what Dispatch!Detect derives from the (masked) processor, OS and build
TConfig == /\ IsEvent("config") /\ UNCHANGED vars /\ impls' = impls
           /\ F' = ToSet(Ev.reported) /\ build' = ToSet(Ev.build)
           /\ ToSet(Ev.reported) = D!Detect(ToSet(Ev.cpu), ToSet(Ev.xcr0), ToSet(Ev.build))
           /\ ToSet(Ev.reported) \subseteq D!Provided(ToSet(Ev.cpu), ToSet(Ev.xcr0))
           /\ Ev.gcm_available = D!Aes256GcmAvailable(ToSet(Ev.reported), ToSet(Ev.build))
           /\ (Ev.gcm_available => Ev.gcm_encrypt_ret = 0)
           \* in a build without the AES-NI/PCLMUL code every entry point fails cleanly (on a masked CPU the compiled
           \* code still exists: calling it without checking availability is outside the contract and not judged)
           /\ (~({"tmmintrin", "wmmintrin"} \subseteq ToSet(Ev.build)) => (~Ev.gcm_available /\ Ev.gcm_unavailable_ret = -1))
           /\ Ev.neon = 0 /\ Ev.armcrypto = 0
TCall   == IsEvent("call") /\ pc[Ev.t] = "call" /\ UNCHANGED vars /\ Keep
TEnter  == IsEvent("enter") /\ Lock(Ev.t) /\ Keep
TAlready == IsEvent("already") /\ Already(Ev.t) /\ Keep
TCpu    == IsEvent("cpu") /\ Cpu(Ev.t) /\ Keep
TStir   == IsEvent("stir") /\ Stir(Ev.t) /\ Keep
TAlloc  == IsEvent("alloc") /\ Alloc(Ev.t) /\ Keep
\* a primitive may report a default first and the final choice afterwards: the second report replaces the first
TPick   == /\ IsEvent("pick") /\ UNCHANGED <<F, build>>
           /\ \/ /\ picked < NPrims /\ Prims[picked + 1] = Ev.prim /\ Pick(Ev.t)
                 /\ impls' = [impls EXCEPT ![picked + 1] = Ev.impl]
              \/ /\ picked >= 1 /\ Prims[picked] = Ev.prim /\ pc[Ev.t] \in {"pick", "setinit"} /\ UNCHANGED vars
                 /\ impls' = [impls EXCEPT ![picked] = Ev.impl]
TDone   == /\ IsEvent("done") /\ SetInit(Ev.t) /\ Keep
           /\ \A i \in 1..NPrims : impls[i] = D!Pick(Prims[i], F, build)
TReturn == /\ IsEvent("return") /\ Return(Ev.t) /\ ret[Ev.t] = Ev.ret /\ Ev.use_ok /\ Keep
\* steps the hook does not report
Silent == /\ \E t \in Threads : Check(t) \/ Unlock(t)
          /\ l' = l /\ Keep
TraceNext == TReset \/ TConfig \/ TCall \/ TEnter \/ TAlready \/ TCpu \/ TStir \/ TAlloc \/ TPick \/ TDone \/ TReturn \/ Silent
TraceSpec == TraceInit /\ [][TraceNext]_tvars

\* how far any behaviour got (needs -workers 1): the trace is accepted iff some behaviour consumed every line
ASSUME TLCSet(1, 0)
Progress == TLCSet(1, IF TLCGet(1) < l THEN l ELSE TLCGet(1))
TraceAccepted ==
  IF TLCGet(1) = Len(Tr) + 1 THEN TRUE
  ELSE Print(<<"REJECTED at line", TLCGet(1), IF TLCGet(1) <= Len(Tr) THEN Tr[TLCGet(1)] ELSE "eof">>, FALSE)
=============================================================================
