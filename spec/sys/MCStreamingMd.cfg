CONSTANTS B = 4
          LB = 1
          Kind = "md"
          Keyed = FALSE
          MaxTotal = 40
          MaxChunk = 26
          Bug = "none"
SPECIFICATION Spec
INVARIANTS Concatenation BufferBound Eager Lazy SplitIndependent
CHECK_DEADLOCK FALSE
