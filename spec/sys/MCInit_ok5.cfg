SPECIFICATION FairSpec
CONSTANTS
  Threads = {1, 2, 3, 4, 5}
  Prims <- MCPrims
  Variant = "ok"
INVARIANTS Mutex InitOnce NoPartial Returns
PROPERTY Terminates
CHECK_DEADLOCK FALSE
