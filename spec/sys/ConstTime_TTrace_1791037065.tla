---- MODULE ConstTime_TTrace_1791037065 ----
EXTENDS ConstTime, Sequences, TLCExt, Toolbox, Naturals, TLC

_expression ==
    LET ConstTime_TEExpression == INSTANCE ConstTime_TEExpression
    IN ConstTime_TEExpression!expression
----

_trace ==
    LET ConstTime_TETrace == INSTANCE ConstTime_TETrace
    IN ConstTime_TETrace!trace
----

_inv ==
    ~(
        TLCGet("level") = Len(_TETrace)
        /\
        rb = ([r1 |-> 0, r2 |-> 0, r3 |-> 1])
        /\
        taint = ({"r1", "r3"})
        /\
        declEq = (TRUE)
        /\
        flagged = (FALSE)
        /\
        ma = ((0 :> 0 @@ 1 :> 0))
        /\
        mb = ((0 :> 0 @@ 1 :> 0))
        /\
        obsEq = (FALSE)
        /\
        steps = (1)
        /\
        ra = ([r1 |-> 0, r2 |-> 0, r3 |-> 0])
    )
----

_init ==
    /\ ra = _TETrace[1].ra
    /\ rb = _TETrace[1].rb
    /\ declEq = _TETrace[1].declEq
    /\ flagged = _TETrace[1].flagged
    /\ taint = _TETrace[1].taint
    /\ ma = _TETrace[1].ma
    /\ mb = _TETrace[1].mb
    /\ steps = _TETrace[1].steps
    /\ obsEq = _TETrace[1].obsEq
----

_next ==
    /\ \E i,j \in DOMAIN _TETrace:
        /\ \/ /\ j = i + 1
              /\ i = TLCGet("level")
        /\ ra  = _TETrace[i].ra
        /\ ra' = _TETrace[j].ra
        /\ rb  = _TETrace[i].rb
        /\ rb' = _TETrace[j].rb
        /\ declEq  = _TETrace[i].declEq
        /\ declEq' = _TETrace[j].declEq
        /\ flagged  = _TETrace[i].flagged
        /\ flagged' = _TETrace[j].flagged
        /\ taint  = _TETrace[i].taint
        /\ taint' = _TETrace[j].taint
        /\ ma  = _TETrace[i].ma
        /\ ma' = _TETrace[j].ma
        /\ mb  = _TETrace[i].mb
        /\ mb' = _TETrace[j].mb
        /\ steps  = _TETrace[i].steps
        /\ steps' = _TETrace[j].steps
        /\ obsEq  = _TETrace[i].obsEq
        /\ obsEq' = _TETrace[j].obsEq

\* Uncomment the ASSUME below to write the states of the error trace
\* to the given file in Json format. Note that you can pass any tuple
\* to `JsonSerialize`. For example, a sub-sequence of _TETrace.
    \* ASSUME
    \*     LET J == INSTANCE Json
    \*         IN J!JsonSerialize("ConstTime_TTrace_1791037065.json", _TETrace)

=============================================================================

 Note that you can extract this module `ConstTime_TEExpression`
  to a dedicated file to reuse `expression` (the module in the 
  dedicated `ConstTime_TEExpression.tla` file takes precedence 
  over the module `ConstTime_TEExpression` below).

---- MODULE ConstTime_TEExpression ----
EXTENDS ConstTime, Sequences, TLCExt, Toolbox, Naturals, TLC

expression == 
    [
        \* To hide variables of the `ConstTime` spec from the error trace,
        \* remove the variables below.  The trace will be written in the order
        \* of the fields of this record.
        ra |-> ra
        ,rb |-> rb
        ,declEq |-> declEq
        ,flagged |-> flagged
        ,taint |-> taint
        ,ma |-> ma
        ,mb |-> mb
        ,steps |-> steps
        ,obsEq |-> obsEq
        
        \* Put additional constant-, state-, and action-level expressions here:
        \* ,_stateNumber |-> _TEPosition
        \* ,_raUnchanged |-> ra = ra'
        
        \* Format the `ra` variable as Json value.
        \* ,_raJson |->
        \*     LET J == INSTANCE Json
        \*     IN J!ToJson(ra)
        
        \* Lastly, you may build expressions over arbitrary sets of states by
        \* leveraging the _TETrace operator.  For example, this is how to
        \* count the number of times a spec variable changed up to the current
        \* state in the trace.
        \* ,_raModCount |->
        \*     LET F[s \in DOMAIN _TETrace] ==
        \*         IF s = 1 THEN 0
        \*         ELSE IF _TETrace[s].ra # _TETrace[s-1].ra
        \*             THEN 1 + F[s-1] ELSE F[s-1]
        \*     IN F[_TEPosition - 1]
    ]

=============================================================================



Parsing and semantic processing can take forever if the trace below is long.
 In this case, it is advised to uncomment the module below to deserialize the
 trace from a generated binary file.

\*
\*---- MODULE ConstTime_TETrace ----
\*EXTENDS ConstTime, IOUtils, TLC
\*
\*trace == IODeserialize("ConstTime_TTrace_1791037065.bin", TRUE)
\*
\*=============================================================================
\*

---- MODULE ConstTime_TETrace ----
EXTENDS ConstTime, TLC

trace == 
    <<
    ([rb |-> [r1 |-> 0, r2 |-> 0, r3 |-> 1],taint |-> {"r3"},declEq |-> TRUE,flagged |-> FALSE,ma |-> (0 :> 0 @@ 1 :> 0),mb |-> (0 :> 0 @@ 1 :> 0),obsEq |-> TRUE,steps |-> 0,ra |-> [r1 |-> 0, r2 |-> 0, r3 |-> 0]]),
    ([rb |-> [r1 |-> 0, r2 |-> 0, r3 |-> 1],taint |-> {"r1", "r3"},declEq |-> TRUE,flagged |-> FALSE,ma |-> (0 :> 0 @@ 1 :> 0),mb |-> (0 :> 0 @@ 1 :> 0),obsEq |-> FALSE,steps |-> 1,ra |-> [r1 |-> 0, r2 |-> 0, r3 |-> 0]])
    >>
----


=============================================================================

---- CONFIG ConstTime_TTrace_1791037065 ----
CONSTANTS
    MaxSteps = 1
    CheckAddresses = FALSE

INVARIANT
    _inv

CHECK_DEADLOCK
    \* CHECK_DEADLOCK off because of PROPERTY or INVARIANT above.
    FALSE

INIT
    _init

NEXT
    _next

CONSTANT
    _TETrace <- _trace

ALIAS
    _expression
=============================================================================
\* Generated on Sat Oct 03 14:17:47 UTC 2026