CONSTANTS WB = 4 MaxBlocks = 20 Batches = {1, 2, 4, 8} Variant = "carry_per_batch"
SPECIFICATION Spec
INVARIANTS CountersRight Progress
CHECK_DEADLOCK FALSE
