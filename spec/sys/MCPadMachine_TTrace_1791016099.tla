---- MODULE MCPadMachine_TTrace_1791016099 ----
EXTENDS MCPadMachine, Sequences, TLCExt, Toolbox, Naturals, TLC

_expression ==
    LET MCPadMachine_TEExpression == INSTANCE MCPadMachine_TEExpression
    IN MCPadMachine_TEExpression!expression
----

_trace ==
    LET MCPadMachine_TETrace == INSTANCE MCPadMachine_TETrace
    IN MCPadMachine_TETrace!trace
----

_inv ==
    ~(
        TLCGet("level") = Len(_TETrace)
        /\
        bs = (2)
        /\
        buf = (<<128, 0>>)
    )
----

_init ==
    /\ bs = _TETrace[1].bs
    /\ buf = _TETrace[1].buf
----

_next ==
    /\ \E i,j \in DOMAIN _TETrace:
        /\ \/ /\ j = i + 1
              /\ i = TLCGet("level")
        /\ bs  = _TETrace[i].bs
        /\ bs' = _TETrace[j].bs
        /\ buf  = _TETrace[i].buf
        /\ buf' = _TETrace[j].buf

\* Uncomment the ASSUME below to write the states of the error trace
\* to the given file in Json format. Note that you can pass any tuple
\* to `JsonSerialize`. For example, a sub-sequence of _TETrace.
    \* ASSUME
    \*     LET J == INSTANCE Json
    \*         IN J!JsonSerialize("MCPadMachine_TTrace_1791016099.json", _TETrace)

=============================================================================

 Note that you can extract this module `MCPadMachine_TEExpression`
  to a dedicated file to reuse `expression` (the module in the 
  dedicated `MCPadMachine_TEExpression.tla` file takes precedence 
  over the module `MCPadMachine_TEExpression` below).

---- MODULE MCPadMachine_TEExpression ----
EXTENDS MCPadMachine, Sequences, TLCExt, Toolbox, Naturals, TLC

expression == 
    [
        \* To hide variables of the `MCPadMachine` spec from the error trace,
        \* remove the variables below.  The trace will be written in the order
        \* of the fields of this record.
        bs |-> bs
        ,buf |-> buf
        
        \* Put additional constant-, state-, and action-level expressions here:
        \* ,_stateNumber |-> _TEPosition
        \* ,_bsUnchanged |-> bs = bs'
        
        \* Format the `bs` variable as Json value.
        \* ,_bsJson |->
        \*     LET J == INSTANCE Json
        \*     IN J!ToJson(bs)
        
        \* Lastly, you may build expressions over arbitrary sets of states by
        \* leveraging the _TETrace operator.  For example, this is how to
        \* count the number of times a spec variable changed up to the current
        \* state in the trace.
        \* ,_bsModCount |->
        \*     LET F[s \in DOMAIN _TETrace] ==
        \*         IF s = 1 THEN 0
        \*         ELSE IF _TETrace[s].bs # _TETrace[s-1].bs
        \*             THEN 1 + F[s-1] ELSE F[s-1]
        \*     IN F[_TEPosition - 1]
    ]

=============================================================================



Parsing and semantic processing can take forever if the trace below is long.
 In this case, it is advised to uncomment the module below to deserialize the
 trace from a generated binary file.

\*
\*---- MODULE MCPadMachine_TETrace ----
\*EXTENDS MCPadMachine, IOUtils, TLC
\*
\*trace == IODeserialize("MCPadMachine_TTrace_1791016099.bin", TRUE)
\*
\*=============================================================================
\*

---- MODULE MCPadMachine_TETrace ----
EXTENDS MCPadMachine, TLC

trace == 
    <<
    ([bs |-> 2,buf |-> <<>>]),
    ([bs |-> 2,buf |-> <<128>>]),
    ([bs |-> 2,buf |-> <<128, 0>>])
    >>
----


=============================================================================

---- CONFIG MCPadMachine_TTrace_1791016099 ----
CONSTANTS
    Bytes = { 0 , 128 , 1 , 129 }
    MaxLen = 5
    MaxBs = 6
    UnpadScan <- ShortScan

INVARIANT
    _inv

CHECK_DEADLOCK
    \* CHECK_DEADLOCK off because of PROPERTY or INVARIANT above.
    FALSE

INIT
    _init

NEXT
    _next

CONSTANT
    _TETrace <- _trace

ALIAS
    _expression
=============================================================================
\* Generated on Sat Oct 03 08:28:20 UTC 2026