CONSTANTS B = 128
          Kind = "blake"
SPECIFICATION TraceSpec
POSTCONDITION TraceAccepted
CHECK_DEADLOCK FALSE
