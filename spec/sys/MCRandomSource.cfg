SPECIFICATION Spec
CONSTANTS
  Mod = 64
  Bounds <- Words
  Draws <- Words
  MaxDraws = 2
  IsSmall <- MCIsSmall
  Threshold <- MCThreshold
  Less <- MCLess
  Rem <- MCRem
  Zero = 0
  Strict = TRUE
INVARIANTS InRange FirstAccepted NoDrawForSmall Uniform
CHECK_DEADLOCK FALSE
