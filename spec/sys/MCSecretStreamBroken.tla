--------------------------- MODULE MCSecretStreamBroken ---------------------------
(* Deliberately wrong designs, substituted through the .cfg files, to show that the invariants of
   SecretStream are not vacuous: TLC must report a violation for each of them. *)
EXTENDS MCSecretStream
\* MAC key that ignores counter and inner nonce: replayed / reordered chunks verify
BrokenAccepts(i, a, t) == t = "none" /\ wire[i].st.key = st["pull"].key /\ wire[i].ad = a
\* state updated before the MAC is checked
BrokenPull(i, a, t) ==
  /\ i \in 1..Len(wire) /\ t \in Tampers
  /\ LET ch == wire[i]
         ok == Accepts(i, a, t)
     IN /\ st' = [st EXCEPT !["pull"] = After(st["pull"], ch.id, ch.tag)]
        /\ delivered' = IF ok THEN Append(delivered, <<ch.m, ch.tag>>) ELSE delivered
        /\ consumed' = IF ok THEN Append(consumed, ch.id) ELSE consumed
  /\ UNCHANGED <<wire, sent, rkpos>>
=============================================================================
