------------------------------- MODULE ConstTime -------------------------------
(***************************************************************************)
(* C11 - secret data never influences branches or memory addresses.        *)
(*                                                                         *)
(* Part 1 (the discipline).  A small two-run machine: the same program is  *)
(* executed in lock step on two states that agree on every public input    *)
(* and may differ in every secret.  What an attacker observes is the       *)
(* direction of every branch, every address used by a load, and every      *)
(* declassified value.  A taint monitor - the abstract counterpart of the  *)
(* data-flow tainting done on the compiled binary - marks a register       *)
(* tainted when it is computed from a tainted one, and raises `flagged`    *)
(* when a branch condition or an address is tainted.  TLC explores every   *)
(* program up to MaxSteps instructions and checks                          *)
(*     Soundness ==  ~flagged /\ declEq  =>  obsEq                         *)
(* i.e. an execution on which the monitor stays silent shows the attacker  *)
(* the same thing whatever the secrets are, provided the values the        *)
(* program declassifies (results declared public: status, ciphertext,      *)
(* signature, identity-result error) are themselves equal.  This is why    *)
(* one monitored execution decides the property for all secret values on   *)
(* its path.  MCConstTimeBroken.cfg drops the address check and must fail. *)
(*                                                                         *)
(* Part 2 (the table) is sys/ConstTimeOps.tla: the operations the property *)
(* lists, with the functions in which a branch on a declassified status is *)
(* permitted; sys/TraceConstTime.tla validates the monitor's reports       *)
(* recorded from the real library against it.                              *)
(***************************************************************************)
EXTENDS Naturals, Sequences, FiniteSets

CONSTANTS MaxSteps,        \* program length bound
          CheckAddresses   \* TRUE: the monitor also watches addresses (FALSE = broken monitor)

Regs == {"r1", "r2", "r3"}
Bit == {0, 1}
Cells == {0, 1}

VARIABLES ra, rb,      \* register files of run A and run B
          ma, mb,      \* memories (public table contents, equal in both runs)
          taint,       \* set of tainted registers (shared: taint is a property of the program point)
          obsEq,       \* the two observation streams are equal so far
          declEq,      \* every declassified value was equal in both runs
          flagged,     \* the monitor reported
          steps
vars == <<ra, rb, ma, mb, taint, obsEq, declEq, flagged, steps>>

Init == /\ ra = [r \in Regs |-> 0] /\ rb = [r \in Regs |-> 0]
        /\ \E m \in [Cells -> Bit] : ma = m /\ mb = m
        /\ taint = {} /\ obsEq = TRUE /\ declEq = TRUE /\ flagged = FALSE /\ steps = 0

Tick == steps' = steps + 1
Same == UNCHANGED <<ma, mb>>

\* d := secret (any value in each run)
LoadSecret(d) == /\ \E x \in Bit, y \in Bit : ra' = [ra EXCEPT ![d] = x] /\ rb' = [rb EXCEPT ![d] = y]
                 /\ taint' = taint \cup {d} /\ UNCHANGED <<obsEq, declEq, flagged>> /\ Same /\ Tick
\* d := public input (same value in both runs)
LoadPublic(d) == /\ \E x \in Bit : ra' = [ra EXCEPT ![d] = x] /\ rb' = [rb EXCEPT ![d] = x]
                 /\ taint' = taint \ {d} /\ UNCHANGED <<obsEq, declEq, flagged>> /\ Same /\ Tick
\* d := s1 op s2  (xor / and: enough to build masks and selections)
Alu(d, s1, s2, op) ==
  LET f(x, y) == IF op = "xor" THEN (x + y) % 2 ELSE x * y IN
  /\ ra' = [ra EXCEPT ![d] = f(ra[s1], ra[s2])] /\ rb' = [rb EXCEPT ![d] = f(rb[s1], rb[s2])]
  /\ taint' = IF s1 \in taint \/ s2 \in taint THEN taint \cup {d} ELSE taint \ {d}
  /\ UNCHANGED <<obsEq, declEq, flagged>> /\ Same /\ Tick
\* branch on s: the attacker sees the direction
Branch(s) == /\ obsEq' = (obsEq /\ ra[s] = rb[s])
             /\ flagged' = (flagged \/ s \in taint)
             /\ UNCHANGED <<ra, rb, taint, declEq>> /\ Same /\ Tick
\* d := mem[a]: the attacker sees the address
Load(d, a) == /\ ra' = [ra EXCEPT ![d] = ma[ra[a]]] /\ rb' = [rb EXCEPT ![d] = mb[rb[a]]]
              /\ obsEq' = (obsEq /\ ra[a] = rb[a])
              /\ flagged' = (flagged \/ (CheckAddresses /\ a \in taint))
              /\ taint' = IF a \in taint THEN taint \cup {d} ELSE taint \ {d}
              /\ UNCHANGED declEq /\ Same /\ Tick
\* declassify s: its value becomes public (an output, a status)
Declassify(s) == /\ declEq' = (declEq /\ ra[s] = rb[s])
                 /\ obsEq' = (obsEq /\ ra[s] = rb[s])
                 /\ taint' = taint \ {s}
                 /\ UNCHANGED <<ra, rb, flagged>> /\ Same /\ Tick

Next == /\ steps < MaxSteps
        /\ \/ \E d \in Regs : LoadSecret(d) \/ LoadPublic(d)
           \/ \E d \in Regs, s1 \in Regs, s2 \in Regs, op \in {"xor", "and"} : Alu(d, s1, s2, op)
           \/ \E s \in Regs : Branch(s) \/ Declassify(s)
           \/ \E d \in Regs, a \in Regs : Load(d, a)
Spec == Init /\ [][Next]_vars

\* untainted registers hold equal values in both runs as long as declassified values were equal
UntaintedEqual == declEq => \A r \in Regs \ taint : ra[r] = rb[r]
Soundness == (~flagged /\ declEq) => obsEq
\* vacuity: leaks exist and are flagged (must be violated)
NeverFlagged == ~flagged
NeverDiffer == obsEq


-----------------------------------------------------------------------------
(* Unbounded version: IndInv is an inductive invariant (MCConstTimeInd.cfg: TLC starts from EVERY state that satisfies
   it - 16 384 type-correct states filtered by IndInv - and checks that one step of Next preserves it), so Soundness
   holds for programs of any length, not only up to MaxSteps. *)
TypeOK == /\ ra \in [Regs -> Bit] /\ rb \in [Regs -> Bit]
          /\ ma \in [Cells -> Bit] /\ mb \in [Cells -> Bit]
          /\ taint \in SUBSET Regs
          /\ obsEq \in BOOLEAN /\ declEq \in BOOLEAN /\ flagged \in BOOLEAN
IndInv == /\ ma = mb /\ UntaintedEqual /\ Soundness
IndInit == TypeOK /\ steps = 0 /\ IndInv
IndSpec == IndInit /\ [][Next]_vars
=============================================================================
