CONSTANTS W = 9 Variant = "wrapped"
SPECIFICATION Spec
INVARIANTS NoWrap Exact NotOverStrict
CHECK_DEADLOCK FALSE
