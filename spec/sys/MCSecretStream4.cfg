SPECIFICATION Spec
CONSTANTS
  Pushers = {"main", "otherkey"}
  RekeySides = {"main", "pull"}
  Msgs = {m1, m2}
  Ads = {a1, a2}
  Tags = {0, 3}
  Tampers = {"none", "tampered"}
  MaxPush = 4
  MaxForeign = 1
  MaxRekey = 1
  Wrap = 6
  CtrInc <- MCCtrInc
  CtrIsZero <- MCCtrIsZero
  CtrOne = 1
  InitCtrs <- MCInitCtrs
SYMMETRY Sym
INVARIANTS TypeOK Prefix OnlyNext Sync Resync
PROPERTY FailUnchanged
CHECK_DEADLOCK FALSE
