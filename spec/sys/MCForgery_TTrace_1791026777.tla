---- MODULE MCForgery_TTrace_1791026777 ----
EXTENDS MCForgery, Sequences, TLCExt, Toolbox, Naturals, TLC

_expression ==
    LET MCForgery_TEExpression == INSTANCE MCForgery_TEExpression
    IN MCForgery_TEExpression!expression
----

_trace ==
    LET MCForgery_TETrace == INSTANCE MCForgery_TETrace
    IN MCForgery_TETrace!trace
----

_inv ==
    ~(
        TLCGet("level") = Len(_TETrace)
        /\
        result = ([ret |-> -1, mlen |-> 0, out |-> "Plain"])
        /\
        phase = ("done")
        /\
        tamper = (<<"flip", "key">>)
        /\
        len = (0)
        /\
        api = ("aead_aegis")
    )
----

_init ==
    /\ result = _TETrace[1].result
    /\ len = _TETrace[1].len
    /\ phase = _TETrace[1].phase
    /\ api = _TETrace[1].api
    /\ tamper = _TETrace[1].tamper
----

_next ==
    /\ \E i,j \in DOMAIN _TETrace:
        /\ \/ /\ j = i + 1
              /\ i = TLCGet("level")
        /\ result  = _TETrace[i].result
        /\ result' = _TETrace[j].result
        /\ len  = _TETrace[i].len
        /\ len' = _TETrace[j].len
        /\ phase  = _TETrace[i].phase
        /\ phase' = _TETrace[j].phase
        /\ api  = _TETrace[i].api
        /\ api' = _TETrace[j].api
        /\ tamper  = _TETrace[i].tamper
        /\ tamper' = _TETrace[j].tamper

\* Uncomment the ASSUME below to write the states of the error trace
\* to the given file in Json format. Note that you can pass any tuple
\* to `JsonSerialize`. For example, a sub-sequence of _TETrace.
    \* ASSUME
    \*     LET J == INSTANCE Json
    \*         IN J!JsonSerialize("MCForgery_TTrace_1791026777.json", _TETrace)

=============================================================================

 Note that you can extract this module `MCForgery_TEExpression`
  to a dedicated file to reuse `expression` (the module in the 
  dedicated `MCForgery_TEExpression.tla` file takes precedence 
  over the module `MCForgery_TEExpression` below).

---- MODULE MCForgery_TEExpression ----
EXTENDS MCForgery, Sequences, TLCExt, Toolbox, Naturals, TLC

expression == 
    [
        \* To hide variables of the `MCForgery` spec from the error trace,
        \* remove the variables below.  The trace will be written in the order
        \* of the fields of this record.
        result |-> result
        ,len |-> len
        ,phase |-> phase
        ,api |-> api
        ,tamper |-> tamper
        
        \* Put additional constant-, state-, and action-level expressions here:
        \* ,_stateNumber |-> _TEPosition
        \* ,_resultUnchanged |-> result = result'
        
        \* Format the `result` variable as Json value.
        \* ,_resultJson |->
        \*     LET J == INSTANCE Json
        \*     IN J!ToJson(result)
        
        \* Lastly, you may build expressions over arbitrary sets of states by
        \* leveraging the _TETrace operator.  For example, this is how to
        \* count the number of times a spec variable changed up to the current
        \* state in the trace.
        \* ,_resultModCount |->
        \*     LET F[s \in DOMAIN _TETrace] ==
        \*         IF s = 1 THEN 0
        \*         ELSE IF _TETrace[s].result # _TETrace[s-1].result
        \*             THEN 1 + F[s-1] ELSE F[s-1]
        \*     IN F[_TEPosition - 1]
    ]

=============================================================================



Parsing and semantic processing can take forever if the trace below is long.
 In this case, it is advised to uncomment the module below to deserialize the
 trace from a generated binary file.

\*
\*---- MODULE MCForgery_TETrace ----
\*EXTENDS MCForgery, IOUtils, TLC
\*
\*trace == IODeserialize("MCForgery_TTrace_1791026777.bin", TRUE)
\*
\*=============================================================================
\*

---- MODULE MCForgery_TETrace ----
EXTENDS MCForgery, TLC

trace == 
    <<
    ([result |-> [ret |-> 0, mlen |-> 0, out |-> "none"],phase |-> "seal",tamper |-> <<"none">>,len |-> 0,api |-> "aead_aegis"]),
    ([result |-> [ret |-> 0, mlen |-> 0, out |-> "none"],phase |-> "open",tamper |-> <<"flip", "key">>,len |-> 0,api |-> "aead_aegis"]),
    ([result |-> [ret |-> -1, mlen |-> 0, out |-> "Plain"],phase |-> "done",tamper |-> <<"flip", "key">>,len |-> 0,api |-> "aead_aegis"])
    >>
----


=============================================================================

---- CONFIG MCForgery_TTrace_1791026777 ----
CONSTANTS
    Apis <- MCApis
    Fields <- MCFields
    FailureOut <- MCFailureOut
    ReportsLength <- MCReportsLength
    TagLen = 2
    MaxLen = 3
    LeakOnFailure = { "aead_aegis" }

INVARIANT
    _inv

CHECK_DEADLOCK
    \* CHECK_DEADLOCK off because of PROPERTY or INVARIANT above.
    FALSE

INIT
    _init

NEXT
    _next

CONSTANT
    _TETrace <- _trace

ALIAS
    _expression
=============================================================================
\* Generated on Sat Oct 03 11:26:18 UTC 2026