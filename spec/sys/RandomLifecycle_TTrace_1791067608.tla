---- MODULE RandomLifecycle_TTrace_1791067608 ----
EXTENDS Sequences, TLCExt, Toolbox, RandomLifecycle, Naturals, TLC

_expression ==
    LET RandomLifecycle_TEExpression == INSTANCE RandomLifecycle_TEExpression
    IN RandomLifecycle_TEExpression!expression
----

_trace ==
    LET RandomLifecycle_TETrace == INSTANCE RandomLifecycle_TETrace
    IN RandomLifecycle_TETrace!trace
----

_inv ==
    ~(
        TLCGet("level") = Len(_TETrace)
        /\
        wanted = ("internal")
        /\
        served = (<<<<"sysrandom", "internal">>>>)
        /\
        n = (3)
        /\
        open = (TRUE)
        /\
        ptr = ("none")
    )
----

_init ==
    /\ wanted = _TETrace[1].wanted
    /\ n = _TETrace[1].n
    /\ open = _TETrace[1].open
    /\ served = _TETrace[1].served
    /\ ptr = _TETrace[1].ptr
----

_next ==
    /\ \E i,j \in DOMAIN _TETrace:
        /\ \/ /\ j = i + 1
              /\ i = TLCGet("level")
        /\ wanted  = _TETrace[i].wanted
        /\ wanted' = _TETrace[j].wanted
        /\ n  = _TETrace[i].n
        /\ n' = _TETrace[j].n
        /\ open  = _TETrace[i].open
        /\ open' = _TETrace[j].open
        /\ served  = _TETrace[i].served
        /\ served' = _TETrace[j].served
        /\ ptr  = _TETrace[i].ptr
        /\ ptr' = _TETrace[j].ptr

\* Uncomment the ASSUME below to write the states of the error trace
\* to the given file in Json format. Note that you can pass any tuple
\* to `JsonSerialize`. For example, a sub-sequence of _TETrace.
    \* ASSUME
    \*     LET J == INSTANCE Json
    \*         IN J!JsonSerialize("RandomLifecycle_TTrace_1791067608.json", _TETrace)

=============================================================================

 Note that you can extract this module `RandomLifecycle_TEExpression`
  to a dedicated file to reuse `expression` (the module in the 
  dedicated `RandomLifecycle_TEExpression.tla` file takes precedence 
  over the module `RandomLifecycle_TEExpression` below).

---- MODULE RandomLifecycle_TEExpression ----
EXTENDS Sequences, TLCExt, Toolbox, RandomLifecycle, Naturals, TLC

expression == 
    [
        \* To hide variables of the `RandomLifecycle` spec from the error trace,
        \* remove the variables below.  The trace will be written in the order
        \* of the fields of this record.
        wanted |-> wanted
        ,n |-> n
        ,open |-> open
        ,served |-> served
        ,ptr |-> ptr
        
        \* Put additional constant-, state-, and action-level expressions here:
        \* ,_stateNumber |-> _TEPosition
        \* ,_wantedUnchanged |-> wanted = wanted'
        
        \* Format the `wanted` variable as Json value.
        \* ,_wantedJson |->
        \*     LET J == INSTANCE Json
        \*     IN J!ToJson(wanted)
        
        \* Lastly, you may build expressions over arbitrary sets of states by
        \* leveraging the _TETrace operator.  For example, this is how to
        \* count the number of times a spec variable changed up to the current
        \* state in the trace.
        \* ,_wantedModCount |->
        \*     LET F[s \in DOMAIN _TETrace] ==
        \*         IF s = 1 THEN 0
        \*         ELSE IF _TETrace[s].wanted # _TETrace[s-1].wanted
        \*             THEN 1 + F[s-1] ELSE F[s-1]
        \*     IN F[_TEPosition - 1]
    ]

=============================================================================



Parsing and semantic processing can take forever if the trace below is long.
 In this case, it is advised to uncomment the module below to deserialize the
 trace from a generated binary file.

\*
\*---- MODULE RandomLifecycle_TETrace ----
\*EXTENDS IOUtils, RandomLifecycle, TLC
\*
\*trace == IODeserialize("RandomLifecycle_TTrace_1791067608.bin", TRUE)
\*
\*=============================================================================
\*

---- MODULE RandomLifecycle_TETrace ----
EXTENDS RandomLifecycle, TLC

trace == 
    <<
    ([wanted |-> "none",served |-> <<>>,n |-> 0,open |-> FALSE,ptr |-> "none"]),
    ([wanted |-> "internal",served |-> <<>>,n |-> 1,open |-> FALSE,ptr |-> "internal"]),
    ([wanted |-> "internal",served |-> <<>>,n |-> 2,open |-> FALSE,ptr |-> "none"]),
    ([wanted |-> "internal",served |-> <<<<"sysrandom", "internal">>>>,n |-> 3,open |-> TRUE,ptr |-> "none"])
    >>
----


=============================================================================

---- CONFIG RandomLifecycle_TTrace_1791067608 ----
CONSTANTS
    Sources = { "sysrandom" , "internal" , "scripted" }
    Default = "sysrandom"
    MaxOps = 6
    CloseForgets = TRUE

INVARIANT
    _inv

CHECK_DEADLOCK
    \* CHECK_DEADLOCK off because of PROPERTY or INVARIANT above.
    FALSE

INIT
    _init

NEXT
    _next

CONSTANT
    _TETrace <- _trace

ALIAS
    _expression
=============================================================================
\* Generated on Sat Oct 03 22:46:50 UTC 2026