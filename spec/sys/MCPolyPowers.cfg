CONSTANTS W = 9 WT = 7 V = 5 Bug = "none"
SPECIFICATION Spec
INVARIANTS PowersRight LimbBounds
CHECK_DEADLOCK FALSE
