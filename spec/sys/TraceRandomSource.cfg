SPECIFICATION TraceSpec
CONSTANTS
  Bounds = {}
  Draws = {}
  MaxDraws = 1000000
  IsSmall <- TrIsSmall
  Threshold <- TrThreshold
  Less <- TrLess
  Rem <- TrRem
  Zero <- BN0
  Strict = TRUE
INVARIANTS TrInRange
POSTCONDITION TraceAccepted
CHECK_DEADLOCK FALSE
