SPECIFICATION Spec
CONSTANTS DropXcr0Check = FALSE
INVARIANTS NeverOverReports PicksRunnable GcmOnlyWithHardware
CHECK_DEADLOCK FALSE
