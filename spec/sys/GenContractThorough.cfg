CONSTANTS Dense = 300
          Als = {0, 1, 2, 3, 4, 5, 6, 7, 8, 9, 10, 11, 12, 13, 14, 15, 17, 31, 32, 33, 63}
INIT Init
NEXT Next
