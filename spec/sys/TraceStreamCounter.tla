-------------------------- MODULE TraceStreamCounter --------------------------
(* C04: the length bookkeeping of the multi-part hash APIs on LONG streams (beyond 2^32 bits), where Streaming.tla's
   position-by-position model is out of reach. Only the counters are modelled: after every update the byte count kept
   in the real state structure must equal the number of bytes absorbed so far, the buffered amount must be that number
   modulo the block size (SHA-2) or what the lazy 2-block buffer of BLAKE2b holds, and the multi-part digest must equal
   the one-shot digest of the same data. Totals stay below 2^31 bytes (TLC integers). *)
EXTENDS Naturals, Sequences, TLC, Json, IOUtils
CONSTANTS B, Kind          \* block size; "md" | "blake"
Tr == ndJsonDeserialize(IOEnv.TRACE)
VARIABLES l, total, phase
tvars == <<l, total, phase>>
Ev == Tr[l]
IsEvent(e) == l <= Len(Tr) /\ Tr[l].e = e /\ l' = l + 1
TraceInit == l = 1 /\ total = 0 /\ phase = "idle"
TInit == IsEvent("init") /\ Ev.key = 0 /\ total' = 0 /\ phase' = "absorbing" /\ Ev.ctr = 0 /\ Ev.buflen = 0
TUpd == /\ IsEvent("upd") /\ phase = "absorbing" /\ total + Ev.n < 2147483647
        /\ total' = total + Ev.n /\ UNCHANGED phase
        /\ ("exact" \in DOMAIN Ev => Ev.exact)       \* counters reported in KiB are exact multiples
        /\ IF "unit" \in DOMAIN Ev THEN Ev.ctr = total'          \* huge streams: everything in KiB, buffered amount not compared
           ELSE IF Kind = "md" THEN Ev.ctr = total' /\ Ev.buflen = total' % B
                          ELSE Ev.ctr + Ev.buflen = total' /\ Ev.buflen <= 2 * B /\ (total' > 0 => Ev.buflen >= 1) /\ Ev.ctr % B = 0
TFinal == IsEvent("final") /\ phase = "absorbing" /\ Ev.ret = 0 /\ Ev.same /\ Ev.total = total /\ phase' = "idle" /\ UNCHANGED total
TraceNext == TInit \/ TUpd \/ TFinal
TraceSpec == TraceInit /\ [][TraceNext]_tvars
TraceAccepted ==
  LET d == TLCGet("stats").diameter IN
  IF d - 1 = Len(Tr) THEN TRUE
  ELSE Print(<<"REJECTED at line", d, IF d <= Len(Tr) THEN Tr[d] ELSE "eof">>, FALSE)
=============================================================================
