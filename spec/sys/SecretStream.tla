--------------------------- MODULE SecretStream ---------------------------
(***************************************************************************)
(* crypto_secretstream_xchacha20poly1305 as a state machine (property C09).*)
(*                                                                         *)
(* Cryptography is symbolic and perfect: a stream state is a record        *)
(*   [key, ctr, chain]                                                     *)
(* key   - a symbolic key; changes only by Rekey (which derives the new    *)
(*         key from the whole old state, exactly as the code encrypts      *)
(*         k || inonce under (k, ctr || inonce))                           *)
(* ctr   - the 32-bit chunk counter; its representation is a parameter     *)
(*         (CtrInc, CtrIsZero, CtrOne) so that the exhaustive model uses   *)
(*         a small modulus (the image of 2^32) and the trace specification *)
(*         uses the real 32-bit value as two 16-bit limbs                  *)
(* chain - stands for the inner nonce: the ids of all chunks whose MAC was *)
(*         XORed into it since the last rekey                              *)
(* A chunk records the state it was sealed under; the MAC key is           *)
(* ChaCha20(key, ctr || inonce) block 0, so an intact chunk verifies iff   *)
(* the verifier's state equals the sealing state and the ad is the same.   *)
(*                                                                         *)
(* Actions are the public calls: init_push/init_pull (Init), push, rekey   *)
(* on either side, and pull of an arbitrary presented chunk (any chunk     *)
(* ever produced by this or a foreign stream, intact or tampered, with any *)
(* ad).                                                                    *)
(***************************************************************************)
EXTENDS Integers, Sequences, SequencesExt, FiniteSets

CONSTANTS Pushers,        \* "main" is the stream the puller follows; the others are foreign streams
          Msgs, Ads, Tags, InitCtrs,
          MaxPush, MaxForeign, MaxRekey,
          RekeySides,     \* sides that may call rekey explicitly
          Tampers,        \* ways of presenting a chunk; "none" = intact
          CtrInc(_), CtrIsZero(_), CtrOne

VARIABLES st,         \* [Pushers \cup {"pull"} -> stream state]
          wire,       \* every chunk ever produced, in production order
          sent,       \* <<message, tag>> pushed on "main", in order
          delivered,  \* <<message, tag>> returned by successful pulls, in order
          consumed,   \* ids of the chunks accepted by the puller, in order (history variable)
          rkpos       \* per side: for each explicit rekey, how many chunks that side had processed before it

vars == <<st, wire, sent, delivered, consumed, rkpos>>

Sides == Pushers \cup {"pull"}

St(k, c, ch) == [key |-> k, ctr |-> c, chain |-> ch]

RekeyBit(tag) == (tag \div 2) % 2 = 1

\* crypto_secretstream_..._rekey: new key and inner nonce derived from (k, ctr, inonce); counter reset to 1
RekeySt(s) == St(<<"rk", s.key, s.ctr, s.chain>>, CtrOne, <<>>)

\* the state update shared by push (after sealing chunk cid) and a successful pull (after accepting it):
\* inonce ^= mac[0..7]; counter++; rekey if the tag has the REKEY bit or the counter wrapped to zero
After(s, cid, tag) ==
  LET c1 == CtrInc(s.ctr)
      s1 == St(s.key, c1, Append(s.chain, cid))
  IN IF RekeyBit(tag) \/ CtrIsZero(c1) THEN RekeySt(s1) ELSE s1

KeyOf(p)  == IF p = "otherkey" THEN "kF" ELSE "k0"
HdrOf(p)  == IF p = "otherhdr" THEN "hF" ELSE "h0"
\* init_push / init_pull: key = HChaCha20(k, header[0..15]); inonce = header[16..23]; counter = 1.
\* (InitCtrs other than CtrOne model a stream that has already run for a long time: the replayer
\* sets the public counter field directly, which is how 2^32 - k is reached without 2^32 pushes.)
InitSt(p, c) == St(<<KeyOf(p), HdrOf(p)>>, c, <<"iv", HdrOf(p)>>)

Init ==
  \E c \in InitCtrs :
    /\ st = [p \in Sides |-> InitSt(IF p = "pull" THEN "main" ELSE p, c)]
    /\ wire = <<>> /\ sent = <<>> /\ delivered = <<>>
    /\ rkpos = [p \in Sides |-> <<>>]
    /\ consumed = <<>>

NPushed(p) == Cardinality({i \in 1..Len(wire) : wire[i].by = p})

Push(p, tag, m, ad) ==
  /\ p \in Pushers
  /\ IF p = "main" THEN Len(sent) < MaxPush ELSE NPushed(p) < MaxForeign
  /\ LET cid == Len(wire) + 1
         nst == After(st[p], cid, tag)
     IN /\ wire' = Append(wire, [id |-> cid, by |-> p, st |-> st[p], tag |-> tag, m |-> m, ad |-> ad])
        /\ st' = [st EXCEPT ![p] = nst]
  /\ sent' = IF p = "main" THEN Append(sent, <<m, tag>>) ELSE sent
  /\ UNCHANGED <<delivered, consumed, rkpos>>

Rekey(side) ==
  /\ side \in RekeySides
  /\ Len(rkpos[side]) < MaxRekey
  /\ rkpos' = [rkpos EXCEPT ![side] = Append(@, IF side = "pull" THEN Len(delivered) ELSE NPushed(side))]
  /\ st' = [st EXCEPT ![side] = RekeySt(@)]
  /\ UNCHANGED <<wire, sent, delivered, consumed>>

\* would the puller accept chunk i presented with ad a in manner t ?
Accepts(i, a, t) == t = "none" /\ wire[i].st = st["pull"] /\ wire[i].ad = a

Pull(i, a, t) ==
  /\ i \in 1..Len(wire) /\ t \in Tampers
  /\ LET ch == wire[i]
         ok == Accepts(i, a, t)
         nst == IF ok THEN After(st["pull"], ch.id, ch.tag) ELSE st["pull"]
     IN /\ st' = [st EXCEPT !["pull"] = nst]
        /\ delivered' = IF ok THEN Append(delivered, <<ch.m, ch.tag>>) ELSE delivered
        /\ consumed' = IF ok THEN Append(consumed, ch.id) ELSE consumed
  /\ UNCHANGED <<wire, sent, rkpos>>

\* a presented input that is no chunk at all (shorter than ABYTES, or bytes that were never produced)
PullGarbage == UNCHANGED vars

Next ==
  \/ \E p \in Pushers, tag \in Tags, m \in Msgs, ad \in Ads : Push(p, tag, m, ad)
  \/ \E s \in RekeySides : Rekey(s)
  \/ \E i \in 1..Len(wire), a \in Ads, t \in Tampers : Pull(i, a, t)

Spec == Init /\ [][Next]_vars

-----------------------------------------------------------------------------
(* The property, as invariants and action properties *)

MainChunks == SelectSeq(wire, LAMBDA ch : ch.by = "main")

\* delivered is always a prefix of what was pushed on the main stream: same messages, same tags, same order
Prefix == IsPrefix(delivered, sent)

\* the chunks the puller accepted are exactly the first chunks of the main stream, each once, in order
\* (rules out replayed, skipped, reordered and foreign chunks even when their contents coincide)
OnlyNext == consumed = [k \in 1..Len(consumed) |-> MainChunks[k].id]

\* a call that neither delivers a message nor is an explicit rekey leaves the puller's state unchanged
\* (rejected pulls of tampered, replayed, foreign chunks; garbage input is the stuttering step)
FailUnchanged == [][(delivered' = delivered /\ rkpos' = rkpos) => st'["pull"] = st["pull"]]_vars

\* explicit rekeys are aligned for the next chunk to be pulled (number n+1, n = Len(delivered)) when the
\* puller has performed exactly the explicit rekeys the pusher had performed before sealing that chunk
AlignedForNext == rkpos["pull"] = SelectSeq(rkpos["main"], LAMBDA x : x <= Len(delivered))

\* when the puller is level with the pusher and both issued the same explicit rekeys, the states are equal
Sync == (Len(delivered) = Len(sent) /\ rkpos["pull"] = rkpos["main"]) => st["pull"] = st["main"]

\* whatever rejected pulls happened before, the genuine next chunk is still the one the puller accepts
Resync == (Len(delivered) < Len(sent) /\ AlignedForNext) =>
             MainChunks[Len(delivered) + 1].st = st["pull"]

TypeOK ==
  /\ DOMAIN st = Sides
  /\ Len(delivered) <= Len(sent)
  /\ Len(sent) <= MaxPush
=============================================================================
