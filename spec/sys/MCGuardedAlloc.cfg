SPECIFICATION Spec
CONSTANTS
  PageSize = 32
  CanarySize = 16
  MaxSize = 97
  MaxOps = 4
  RoundOff = 0
INVARIANTS AllLayoutsOK PastEndFaults ProtectionTotal
PROPERTY FreeDetects
CHECK_DEADLOCK FALSE
