--------------------------- MODULE TraceSecretStream ---------------------------
(***************************************************************************)
(* Trace validation for SecretStream (C09): every line of an NDJSON trace   *)
(* recorded by harness/ss_driver.c from the real library must be a step of  *)
(* SecretStream, and everything the call returned (return code, message,    *)
(* tag, counter, "key changed", "state unchanged", "output untouched",      *)
(* byte-equality of the two states) must be what the specification says.    *)
(* The 32-bit counter is the real value as two 16-bit limbs.                *)
(* Which chunk a presented byte string is, is decided here from digests:    *)
(* bytes that equal a chunk on the wire are that chunk, intact; any other   *)
(* bytes are no chunk (tampered / truncated / extended / garbage).          *)
(***************************************************************************)
EXTENDS SecretStream, TLC, Json, IOUtils

Tr == ndJsonDeserialize(IOEnv.TRACE)

VARIABLES l,      \* next trace line
          dig     \* digests <<digest, length>> of the chunks on the wire (parallel to wire)

tvars == <<vars, l, dig>>

TrCtrInc(c) == IF c[1] = 65535 THEN <<0, (c[2] + 1) % 65536>> ELSE <<c[1] + 1, c[2]>>
TrCtrIsZero(c) == c = <<0, 0>>
TrCtrOne == <<1, 0>>
TrPushers == {"main", "otherkey", "otherhdr"}

Ev == Tr[l]
IsEvent(e) == l <= Len(Tr) /\ Tr[l].e = e /\ l' = l + 1

Blank == /\ st = [p \in Sides |-> St("none", <<0, 0>>, <<>>)]
         /\ wire = <<>> /\ sent = <<>> /\ delivered = <<>> /\ consumed = <<>>
         /\ rkpos = [p \in Sides |-> <<>>]

TraceInit == Blank /\ l = 1 /\ dig = <<>>

\* init_push + init_pull (also starts the next recorded history: Reset)
TInit ==
  /\ IsEvent("init")
  /\ st' = [p \in Sides |-> InitSt(IF p = "pull" THEN "main" ELSE p, Ev.ctr)]
  /\ wire' = <<>> /\ sent' = <<>> /\ delivered' = <<>> /\ consumed' = <<>> /\ dig' = <<>>
  /\ rkpos' = [p \in Sides |-> <<>>]
  /\ Ev.sync = TRUE            \* init_pull from the header reproduces the pusher's state byte for byte
  /\ Ev.pad0 = TRUE

TPush ==
  /\ IsEvent("push")
  /\ Push(Ev.by, Ev.tag, <<Ev.mlen, Ev.md>>, <<Ev.adlen, Ev.add>>)
  /\ dig' = Append(dig, <<Ev.cd, Ev.clen>>)
  /\ Ev.ret = 0
  /\ Ev.clen = Ev.mlen + 17
  /\ Ev.tail_ok
  /\ st'[Ev.by].ctr = Ev.ctr
  /\ (st'[Ev.by].key # st[Ev.by].key) = Ev.rekeyed
  /\ (st'["pull"] = st'["main"]) = Ev.sync

TRekey ==
  /\ IsEvent("rekey")
  /\ Rekey(Ev.side)
  /\ dig' = dig
  /\ st'[Ev.side].ctr = Ev.ctr
  /\ Ev.rekeyed
  /\ (st'["pull"] = st'["main"]) = Ev.sync

Matches == {i \in 1..Len(dig) : dig[i] = <<Ev.cd, Ev.clen>>}

PullObs(ok) ==
  /\ Ev.ret = (IF ok THEN 0 ELSE -1)
  /\ IF ok
       THEN /\ Last(delivered') = << <<Ev.mlen, Ev.md>>, Ev.tag >>
            /\ ~Ev.st_unchanged
       ELSE /\ Ev.mlen = 0 /\ Ev.tag = 255
            /\ Ev.st_unchanged /\ Ev.out_untouched
  /\ st'["pull"].ctr = Ev.ctr
  /\ (st'["pull"].key # st["pull"].key) = Ev.rekeyed
  /\ (st'["pull"] = st'["main"]) = Ev.sync

TPull ==
  /\ IsEvent("pull")
  /\ dig' = dig
  /\ IF Matches = {}
       THEN PullGarbage /\ PullObs(FALSE)
       ELSE \E i \in Matches :
              /\ Pull(i, <<Ev.adlen, Ev.add>>, "none")
              /\ PullObs(delivered' # delivered)

TraceNext == TInit \/ TPush \/ TRekey \/ TPull

TraceSpec == TraceInit /\ [][TraceNext]_tvars

\* the trace is accepted iff TLC could consume every line
TraceAccepted ==
  LET d == TLCGet("stats").diameter IN
  IF d - 1 = Len(Tr) THEN TRUE
  ELSE Print(<<"REJECTED at line", d, IF d <= Len(Tr) THEN Tr[d] ELSE "eof">>, FALSE)

\* the property's invariants, evaluated in every state the real execution went through
TrPrefix == IsPrefix(delivered, sent)
=============================================================================
