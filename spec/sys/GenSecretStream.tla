--------------------------- MODULE GenSecretStream ---------------------------
(* Behaviour generator for direction A of C09: SecretStream's actions with a history variable; in
   -simulate mode every behaviour of depth Depth is printed as one JSON line (a script for ss_driver). *)
EXTENDS MCSecretStream, Json
CONSTANT Depth
VARIABLE hist
gvars == <<vars, hist>>

GInit == Init /\ hist = <<[op |-> "I", c |-> st["main"].ctr]>>
GPush(p, tag, m, ad) == Push(p, tag, m, ad) /\ hist' = Append(hist, [op |-> "P", by |-> p, tag |-> tag, m |-> m, ad |-> ad])
GRekey(s) == Rekey(s) /\ hist' = Append(hist, [op |-> "K", side |-> s])
GPull(i, a, t) == Pull(i, a, t) /\ hist' = Append(hist, [op |-> "L", i |-> i, sameAd |-> (a = wire[i].ad), t |-> t])
GNext ==
  \/ \E p \in Pushers, tag \in Tags, m \in Msgs, ad \in Ads : GPush(p, tag, m, ad)
  \/ \E s \in RekeySides : GRekey(s)
  \/ \E i \in 1..Len(wire), a \in Ads, t \in Tampers : GPull(i, a, t)
GSpec == GInit /\ [][GNext]_gvars
Emit == (Len(hist) = Depth) => PrintT(<<"BEHAVIOUR", ToJson(hist)>>)
=============================================================================
