SPECIFICATION TraceSpec
CONSTANTS
  PageSize = 4096
  CanarySize = 16
  MaxSize = 20000
  MaxOps = 1000000
  RoundOff = 0
INVARIANTS PastEndFaults
PROPERTY FreeDetects
POSTCONDITION TraceAccepted
CHECK_DEADLOCK FALSE
