SPECIFICATION Spec
CONSTANTS
  Alphabet = {65, 66, 81, 47, 95, 61, 32, 33, 0, 255, 102, 48}
  MaxLen = 4
  Codecs = {0, 1, 3, 5, 7}
  IgnoreOpts <- MCIgnoreOpts
  Caps = {0, 1, 2, 3}
  CheckTrailingBits = TRUE
INVARIANTS Agree WithinCapacity RoundTrip
CHECK_DEADLOCK FALSE
