--------------------------- MODULE MCPadMachine ---------------------------
EXTENDS PadMachine
FullScan(blk) == blk
ShortScan(blk) == IF blk > 1 THEN blk - 1 ELSE blk      \* broken variant: misses a marker in the first byte of the block
=============================================================================
