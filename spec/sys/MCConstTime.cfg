CONSTANTS MaxSteps = 6
          CheckAddresses = TRUE
SPECIFICATION Spec
INVARIANTS Soundness UntaintedEqual
CHECK_DEADLOCK FALSE
