------------------------------ MODULE AllocArray ------------------------------
(***************************************************************************)
(* C17 / C12 - the size computation of sodium_allocarray and sodium_malloc *)
(* on a scaled word (W bits instead of 64), for EVERY (count, size).       *)
(*                                                                         *)
(*   sodium_allocarray: refused when count > 0 and size >= SIZE_MAX/count, *)
(*                      otherwise sodium_malloc(count * size)              *)
(*   sodium_malloc:     refused when size >= SIZE_MAX - 4 pages,           *)
(*                      otherwise the region of GuardedAlloc.tla           *)
(* Properties: a request whose true product does not fit a word is refused *)
(* before any multiplication result is used (NoWrap); what reaches the     *)
(* allocator is the true product (Exact); nothing small is ever refused    *)
(* (NotOverStrict - the margin is one `count`).  Variant "wrapped" is the  *)
(* division-free shortcut (refuse if the wrapped product is smaller than a *)
(* factor), which NoWrap must reject: a wrapped product can be larger than *)
(* both factors.  sys/TraceGuardedAlloc.tla states the same rule on the    *)
(* 64-bit values recorded from the real library (TAllocArray).             *)
(***************************************************************************)
EXTENDS Naturals

CONSTANTS W, Variant
SizeMax == 2 ^ W - 1
Word == 0 .. SizeMax
VARIABLES count, size, outcome      \* outcome: [k |-> "pending" | "refused" | "malloc", n |-> bytes asked of sodium_malloc]
vars == <<count, size, outcome>>

Out(k, n) == [k |-> k, n |-> n]
Init == count \in Word /\ size \in Word /\ outcome = Out("pending", 0)

Wrapped(c, s) == (c * s) % (SizeMax + 1)
Refuses(c, s) ==
  IF Variant = "wrapped" THEN c > 0 /\ s > 0 /\ (Wrapped(c, s) < c \/ Wrapped(c, s) < s)
  ELSE c > 0 /\ s >= SizeMax \div c

Call == /\ outcome.k = "pending"
        /\ outcome' = IF Refuses(count, size) THEN Out("refused", 0) ELSE Out("malloc", Wrapped(count, size))
        /\ UNCHANGED <<count, size>>
Next == Call
Spec == Init /\ [][Next]_vars

NoWrap == (outcome.k # "pending" /\ count * size > SizeMax) => outcome.k = "refused"
Exact == outcome.k = "malloc" => outcome.n = count * size
NotOverStrict == outcome.k = "refused" => count * size + count > SizeMax
=============================================================================
