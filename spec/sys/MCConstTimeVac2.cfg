CONSTANTS MaxSteps = 6
          CheckAddresses = TRUE
SPECIFICATION Spec
INVARIANTS NeverDiffer
CHECK_DEADLOCK FALSE
