--------------------------- MODULE PadLenAll ---------------------------
(***************************************************************************)
(* C16 - the length arithmetic of sodium_pad on the real 64-bit word, for  *)
(* EVERY (unpadded length, block size, capacity), decided by Apalache.     *)
(* lib/Pad.tla and sys/PadMachine.tla give the byte-level meaning on small *)
(* buffers; this module states what utils.c:sodium_pad computes before it  *)
(* touches the buffer: xpadlen = blocksize - 1 - (len mod blocksize), the  *)
(* misuse test SIZE_MAX - len <= xpadlen, the capacity test, the result    *)
(* len + xpadlen + 1 (size_t arithmetic: sums wrap modulo 2^64).  Variant  *)
(* "nomisuse" drops the misuse test: the wrapped sum passes the capacity   *)
(* test and the padding is written far outside the buffer.                 *)
(***************************************************************************)
EXTENDS Integers

CONSTANTS
  \* @type: Str;
  Variant

VARIABLES
  \* @type: Int;
  len,
  \* @type: Int;
  bs,
  \* @type: Int;
  cap

SizeMax == 18446744073709551615
Word == 0 .. SizeMax
ConstInit == Variant \in {"code"}
ConstInitNoMisuse == Variant \in {"nomisuse"}
Init == len \in Word /\ bs \in 1 .. SizeMax /\ cap \in Word
Next == len' \in Word /\ bs' \in 1 .. SizeMax /\ cap' \in Word

XPad == (bs - 1) - (len % bs)
Misuse == IF Variant = "nomisuse" THEN FALSE ELSE SizeMax - len <= XPad
Refused == ~Misuse /\ ((len + XPad) % (SizeMax + 1)) >= cap
Accepted == ~Misuse /\ ~Refused
Padded == len + XPad + 1

\* an accepted call yields the smallest multiple of the block size strictly above len, within the capacity and a size_t
Exact == Accepted => /\ Padded % bs = 0 /\ Padded > len /\ Padded - len <= bs
                     /\ Padded <= SizeMax /\ Padded <= cap
\* nothing that fits is refused or treated as misuse
NotOverStrict == (\E q \in Word : q * bs > len /\ q * bs - len <= bs /\ q * bs <= cap) => Accepted
AllOK == Exact
=============================================================================
