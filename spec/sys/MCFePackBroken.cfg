CONSTANTS W = 3 C = 3 Variant = "skip_limb"
SPECIFICATION Spec
INVARIANT Canonical
CHECK_DEADLOCK FALSE
