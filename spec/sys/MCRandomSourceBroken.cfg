SPECIFICATION Spec
CONSTANTS
  Mod = 16
  Bounds <- Words
  Draws <- Words
  MaxDraws = 2
  IsSmall <- MCIsSmall
  Threshold <- MCThreshold
  Less <- MCLess
  Rem <- MCRem
  Zero = 0
  Strict = FALSE
INVARIANTS InRange FirstAccepted NoDrawForSmall Uniform
CHECK_DEADLOCK FALSE
