CONSTANTS T = 5
          P = 3
SPECIFICATION Spec
INVARIANTS TypeOK Position AllFilled
PROPERTY Terminates
CHECK_DEADLOCK FALSE
