------------------------------- MODULE Fe25519 -------------------------------
(* Arithmetic in GF(2^255 - 19) for the TLC-evaluated oracles. A field element is a sequence of 20 limbs in base
   2^13 kept "weakly reduced" (value < 2^260 + small, every limb < 2^14); Freeze gives the canonical
   representative. Every loop is a CommunityModules fold. Values, not code structure, are what the C code is
   compared with: the representation here (13-bit limbs, 2^260 = 608 mod p) has nothing in common with the
   library's 51-bit / 25.5-bit limbs. *)
EXTENDS Integers, Sequences, FiniteSets, FiniteSetsExt, Functions, SequencesExt, TLC, W32

FB == 8192
FN == 20
CarryStepF(stt, x) == LET v == x + stt[1] IN <<v \div FB, Append(stt[2], v % FB)>>
\* limbs (non-negative, < 2^31 - 2^18) -> normalised limbs plus one carry limb at the end
CarryF(c) == LET r == FoldLeft(CarryStepF, <<0, <<>>>>, c) IN Append(r[2], r[1])
\* 20 or 21 limbs -> weakly reduced 20 limbs (2^260 = 608 mod p)
Weak(f) ==
  LET t == CarryF(f)
      g == [k \in 1..FN |-> IF k = 1 THEN t[1] + (608 * t[FN + 1]) ELSE t[k]]
      u == CarryF(g)
  IN TLCEval([k \in 1..FN |-> IF k = 1 THEN u[1] + (608 * u[FN + 1]) ELSE u[k]])
FeSmall(n) == [k \in 1..FN |-> IF k = 1 THEN n % FB ELSE IF k = 2 THEN (n \div FB) % FB ELSE IF k = 3 THEN n \div (FB * FB) ELSE 0]
Fe0 == FeSmall(0)
Fe1 == FeSmall(1)
FeAdd(a, b) == Weak([k \in 1..FN |-> a[k] + b[k]])
C0 == [k \in 1..FN |-> IF k = 1 THEN (2 * (FB - 1)) - 1214 ELSE 2 * (FB - 1)]      \* = 0 (mod p), every limb >= any weak limb
FeSub(a, b) == Weak([k \in 1..FN |-> (a[k] + C0[k]) - b[k]])
FeNeg(a) == FeSub(Fe0, a)
FeMul(a, b) ==
  LET col(k) == FoldSet(LAMBDA i, acc : acc + (a[i] * b[(k + 1) - i]), 0, (IF k > FN THEN (k - FN) + 1 ELSE 1)..(IF k < FN THEN k ELSE FN))
      s == CarryF([k \in 1..((2 * FN) - 1) |-> col(k)])                                \* 40 limbs
  IN Weak([k \in 1..FN |-> s[k] + (608 * s[k + FN])])
FeSq(a) == FeMul(a, a)
FeMulSmall(a, n) == FeMul(a, FeSmall(n))
\* z^e for an exponent given as a sequence of bits, most significant first
FePowBits(z, bits) == FoldLeft(LAMBDA acc, b : LET s == FeSq(acc) IN IF b = 1 THEN FeMul(s, z) ELSE s, Fe1, bits)
\* p - 2 = 2^255 - 21: bits 254..0, all ones except bits 4 and 2
InvBits == [i \in 1..255 |-> IF (255 - i) \in {2, 4} THEN 0 ELSE 1]
FeInv(z) == FePowBits(z, InvBits)
\* (p - 5) / 8 = 2^252 - 3: bits 251..0, all ones except bit 1
Pow22523Bits == [i \in 1..252 |-> IF (252 - i) = 1 THEN 0 ELSE 1]
FePow22523(z) == FePowBits(z, Pow22523Bits)

\* canonical representative in [0, p): carry, fold the bits >= 255 (limb 20 holds bits 247..259) times 19, twice, then
\* one conditional subtraction of p
Fold255(f) == LET t == CarryF(f)   \* 21 limbs, t[21] <= small
                  hi == (t[FN] \div 256) + (32 * t[FN + 1])
              IN [k \in 1..FN |-> IF k = 1 THEN t[1] + (19 * hi) ELSE IF k = FN THEN t[FN] % 256 ELSE t[k]]
PLimbs == [k \in 1..FN |-> IF k = 1 THEN FB - 19 ELSE IF k = FN THEN 255 ELSE FB - 1]
GeP(f) == \* f normalised, < 2^255: f >= p
  LET d == {k \in 1..FN : f[k] # PLimbs[k]} IN IF d = {} THEN TRUE ELSE f[Max(d)] > PLimbs[Max(d)]
BorrowStepF(stt, x) == LET v == x - stt[1] IN IF v < 0 THEN <<1, Append(stt[2], v + FB)>> ELSE <<0, Append(stt[2], v)>>
Freeze(f) ==
  LET g == SubSeq(CarryF(Fold255(Fold255(f))), 1, FN)
  IN IF GeP(g) THEN FoldLeft(BorrowStepF, <<0, <<>>>>, [k \in 1..FN |-> g[k] - PLimbs[k]])[2] ELSE g
FeEq(a, b) == Freeze(a) = Freeze(b)
FeIsZero(a) == Freeze(a) = Fe0
\* "negative" = least significant bit of the canonical representative (RFC 8032 sign convention)
FeIsNegative(a) == Freeze(a)[1] % 2 = 1
FeAbs(a) == IF FeIsNegative(a) THEN FeNeg(a) ELSE a

\* 32 little-endian bytes (all 256 bits) -> weak element; callers mask the top bit where the standard says so
ByteAtF(b, j) == IF j <= Len(b) THEN b[j] ELSE 0
FeFromBytes(b) ==
  Weak([k \in 1..FN |->
     LET bit == 13 * (k - 1)  j == (bit \div 8) + 1  o == bit % 8
         v == ByteAtF(b, j) + (256 * ByteAtF(b, j + 1)) + (65536 * ByteAtF(b, j + 2))
     IN (v \div Pow2(o)) % FB])
FeToBytes(f) ==
  LET c == Freeze(f)
  IN [i \in 1..32 |->
       LET bit == 8 * (i - 1)  j == (bit \div 13) + 1  o == bit % 13
           v == c[j] + (FB * (IF j < FN THEN c[j + 1] ELSE 0))
       IN (v \div Pow2(o)) % 256]
MaskTop(b) == [b EXCEPT ![32] = @ % 128]
\* is the 255-bit little-endian number (top bit ignored) already < p ?
IsCanonicalFe(b) == FeToBytes(FeFromBytes(MaskTop(b))) = MaskTop(b)
=============================================================================
