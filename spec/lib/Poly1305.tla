------------------------------- MODULE Poly1305 -------------------------------
(* Poly1305 (RFC 8439 2.5) on exact naturals: tag = ((sum over blocks: (acc + block + 2^(8 len)) * r) mod
   (2^130 - 5) + s) mod 2^128, with r clamped. *)
EXTENDS BigNat

P1305 == BNSub(BNPow2(130), Small(5))

\* x mod 2^130-5 for x < 2^262 or so: fold the part above 2^130 (exactly limb 10) times 5, twice, then
\* one conditional subtraction
FoldP(x) == BNAdd(BNLow(x, 10), BNMul(BNHigh(x, 10), Small(5)))
ModP1305(x) ==
  LET y == FoldP(FoldP(FoldP(x)))
  IN IF BNCmp(y, P1305) >= 0 THEN BNSub(y, P1305) ELSE y

ClampR(r16) == [i \in 1..16 |-> IF i \in {4, 8, 12, 16} THEN r16[i] % 16
                                ELSE IF i \in {5, 9, 13} THEN r16[i] - (r16[i] % 4) ELSE r16[i]]

Poly1305Mac(msg, key32) ==
  LET r == BNFromBytes(ClampR(SubSeq(key32, 1, 16)))
      s == BNFromBytes(SubSeq(key32, 17, 32))
      nb == CeilDiv(Len(msg), 16)
      blk(i) == LET lo == (16 * (i - 1)) + 1
                    hi == IF 16 * i <= Len(msg) THEN 16 * i ELSE Len(msg)
                IN BNFromBytes(SubSeq(msg, lo, hi) \o <<1>>)
      acc == FoldLeft(LAMBDA a, i : ModP1305(BNMul(BNAdd(a, blk(i)), r)), <<>>, [i \in 1..nb |-> i])
  IN BNToBytes(BNAdd(acc, s), 16)
=============================================================================
