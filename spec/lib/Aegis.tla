------------------------------- MODULE Aegis -------------------------------
(* AEGIS-128L and AEGIS-256 (draft-irtf-cfrg-aegis-aead) with 256-bit tags, as crypto_aead_aegis128l / aegis256
   expose them. States are sequences of 16-byte blocks. *)
EXTENDS Aes
C0 == <<0, 1, 1, 2, 3, 5, 8, 13, 21, 34, 55, 89, 144, 233, 121, 98>>
C1 == <<219, 61, 24, 85, 109, 194, 47, 241, 32, 17, 49, 66, 115, 181, 40, 221>>
AndBytes(a, b) == [i \in 1..Len(a) |-> a[i] & b[i]]
X3b(a, b, c) == XorBytes(XorBytes(a, b), c)
LE64Bits(n) == \* little-endian 64-bit encoding of 8 * n (n < 2^28)
  <<(n % 32) * 8, (n \div 32) % 256, (n \div 8192) % 256, (n \div 2097152) % 256, (n \div 536870912) % 256, 0, 0, 0>>
ZeroPad(x, bs) == x \o Zeros((bs - (Len(x) % bs)) % bs)
Blocks(x, bs) == [i \in 1..(Len(x) \div bs) |-> SubSeq(x, (bs * (i - 1)) + 1, bs * i)]

\* ---------------------------------------------------------------- AEGIS-128L
Update128L(S, m0, m1) ==
  <<AesRound(S[8], XorBytes(S[1], m0)), AesRound(S[1], S[2]), AesRound(S[2], S[3]), AesRound(S[3], S[4]),
    AesRound(S[4], XorBytes(S[5], m1)), AesRound(S[5], S[6]), AesRound(S[6], S[7]), AesRound(S[7], S[8])>>
Init128L(key, nonce) ==
  LET kn == XorBytes(key, nonce)
      S0 == <<kn, C1, C0, C1, kn, XorBytes(key, C0), XorBytes(key, C1), XorBytes(key, C0)>>
  IN FoldLeft(LAMBDA S, i : Update128L(S, nonce, key), S0, [i \in 1..10 |-> i])
Z0(S) == X3b(S[7], S[2], AndBytes(S[3], S[4]))
Z1(S) == X3b(S[3], S[6], AndBytes(S[7], S[8]))
Aegis128LEncrypt(key, nonce, ad, m) ==
  LET s1 == FoldLeft(LAMBDA S, b : Update128L(S, SubSeq(b, 1, 16), SubSeq(b, 17, 32)), Init128L(key, nonce), Blocks(ZeroPad(ad, 32), 32))
      r == FoldLeft(LAMBDA st, b : LET t0 == SubSeq(b, 1, 16)  t1 == SubSeq(b, 17, 32)
                                   IN <<Update128L(st[1], t0, t1), st[2] \o XorBytes(t0, Z0(st[1])) \o XorBytes(t1, Z1(st[1]))>>,
                    <<s1, <<>>>>, Blocks(ZeroPad(m, 32), 32))
      t == XorBytes(r[1][3], LE64Bits(Len(ad)) \o LE64Bits(Len(m)))
      f == FoldLeft(LAMBDA S, i : Update128L(S, t, t), r[1], [i \in 1..7 |-> i])
      tag == XorBytes(XorBytes(f[1], f[2]), XorBytes(f[3], f[4])) \o XorBytes(XorBytes(f[5], f[6]), XorBytes(f[7], f[8]))
  IN SubSeq(r[2], 1, Len(m)) \o tag

\* Continuation from a given state, for associated data too long to absorb inside TLC: S is the state after the associated data
\* (AbsorbAd128L for short data - used to validate the absorber that produced S), adlen8 the byte count as 8 little-endian bytes;
\* the bit count goes through exact arithmetic (lib/BigNat.tla) - it does not fit TLC's integers.
BNA == INSTANCE BigNat
AbsorbAd128L(key, nonce, ad) ==
  FoldLeft(LAMBDA S, b : Update128L(S, SubSeq(b, 1, 16), SubSeq(b, 17, 32)), Init128L(key, nonce), Blocks(ZeroPad(ad, 32), 32))
Bits8(len8) == BNA!BNToBytes(BNA!BNMulSmall(BNA!BNFromBytes(len8), 8), 8)
Aegis128LFromState(S, adlen8, m) ==
  LET r == FoldLeft(LAMBDA st, b : LET t0 == SubSeq(b, 1, 16)  t1 == SubSeq(b, 17, 32)
                                   IN <<Update128L(st[1], t0, t1), st[2] \o XorBytes(t0, Z0(st[1])) \o XorBytes(t1, Z1(st[1]))>>,
                    <<S, <<>>>>, Blocks(ZeroPad(m, 32), 32))
      t == XorBytes(r[1][3], Bits8(adlen8) \o LE64Bits(Len(m)))
      f == FoldLeft(LAMBDA S2, i : Update128L(S2, t, t), r[1], [i \in 1..7 |-> i])
      tag == XorBytes(XorBytes(f[1], f[2]), XorBytes(f[3], f[4])) \o XorBytes(XorBytes(f[5], f[6]), XorBytes(f[7], f[8]))
  IN SubSeq(r[2], 1, Len(m)) \o tag

\* ---------------------------------------------------------------- AEGIS-256
Update256(S, m) ==
  <<AesRound(S[6], XorBytes(S[1], m)), AesRound(S[1], S[2]), AesRound(S[2], S[3]), AesRound(S[3], S[4]), AesRound(S[4], S[5]), AesRound(S[5], S[6])>>
Init256(key, nonce) ==
  LET k0 == SubSeq(key, 1, 16)  k1 == SubSeq(key, 17, 32)  n0 == SubSeq(nonce, 1, 16)  n1 == SubSeq(nonce, 17, 32)
      k0n0 == XorBytes(k0, n0)  k1n1 == XorBytes(k1, n1)
      S0 == <<k0n0, k1n1, C1, C0, XorBytes(k0, C0), XorBytes(k1, C1)>>
  IN FoldLeft(LAMBDA S, i : Update256(Update256(Update256(Update256(S, k0), k1), k0n0), k1n1), S0, [i \in 1..4 |-> i])
Z256(S) == XorBytes(XorBytes(S[2], S[5]), XorBytes(S[6], AndBytes(S[3], S[4])))
Aegis256Encrypt(key, nonce, ad, m) ==
  LET s1 == FoldLeft(LAMBDA S, b : Update256(S, b), Init256(key, nonce), Blocks(ZeroPad(ad, 16), 16))
      r == FoldLeft(LAMBDA st, b : <<Update256(st[1], b), st[2] \o XorBytes(b, Z256(st[1]))>>, <<s1, <<>>>>, Blocks(ZeroPad(m, 16), 16))
      t == XorBytes(r[1][4], LE64Bits(Len(ad)) \o LE64Bits(Len(m)))
      f == FoldLeft(LAMBDA S, i : Update256(S, t), r[1], [i \in 1..7 |-> i])
      tag == XorBytes(XorBytes(f[1], f[2]), f[3]) \o XorBytes(XorBytes(f[4], f[5]), f[6])
  IN SubSeq(r[2], 1, Len(m)) \o tag
\* continuation from the state after the associated data, as for AEGIS-128L above
AbsorbAd256(key, nonce, ad) == FoldLeft(LAMBDA S, b : Update256(S, b), Init256(key, nonce), Blocks(ZeroPad(ad, 16), 16))
Aegis256FromState(S, adlen8, m) ==
  LET r == FoldLeft(LAMBDA st, b : <<Update256(st[1], b), st[2] \o XorBytes(b, Z256(st[1]))>>, <<S, <<>>>>, Blocks(ZeroPad(m, 16), 16))
      t == XorBytes(r[1][4], Bits8(adlen8) \o LE64Bits(Len(m)))
      f == FoldLeft(LAMBDA S2, i : Update256(S2, t), r[1], [i \in 1..7 |-> i])
      tag == XorBytes(XorBytes(f[1], f[2]), f[3]) \o XorBytes(XorBytes(f[4], f[5]), f[6])
  IN SubSeq(r[2], 1, Len(m)) \o tag
=============================================================================
