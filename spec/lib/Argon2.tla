------------------------------- MODULE Argon2 -------------------------------
(* Argon2i and Argon2id, version 0x13 (RFC 9106), any number of lanes. Blocks are sequences of 128 64-bit words
   (W64 representation). Memory sizes in KiB blocks; all lengths < 2^31. *)
EXTENDS W64, TLC
B2 == INSTANCE Blake2b

LE32Small(n) == <<n % 256, (n \div 256) % 256, (n \div 65536) % 256, n \div 16777216>>
\* variable-length hash H' (RFC 9106 3.3)
HPrime(a, T) ==
  IF T <= 64 THEN B2!Blake2b(LE32Small(T) \o a, <<>>, T)
  ELSE LET r == CeilDiv(T, 32) - 2
           v1 == B2!Blake2b(LE32Small(T) \o a, <<>>, 64)
           st == FoldLeft(LAMBDA acc, i : LET v == B2!Blake2b(acc[2], <<>>, 64) IN <<acc[1] \o SubSeq(v, 1, 32), v>>,
                          <<SubSeq(v1, 1, 32), v1>>, [i \in 1..(r - 1) |-> i])
       IN st[1] \o B2!Blake2b(st[2], <<>>, T - (32 * r))

\* 32 x 32 -> 64 bit product of the low halves, through bytes (TLC integers are 32-bit)
LoBytes(x) == <<x[1] % 256, x[1] \div 256, x[2] % 256, x[2] \div 256>>
Mul32(x, y) ==
  LET a == LoBytes(x)  b == LoBytes(y)
      col(k) == FoldLeft(LAMBDA acc, i : IF (k + 1) - i >= 1 /\ (k + 1) - i <= 4 THEN acc + (a[i] * b[(k + 1) - i]) ELSE acc, 0, <<1, 2, 3, 4>>)
      r == FoldLeft(LAMBDA st, k : LET v == col(k) + st[1] IN <<v \div 256, Append(st[2], v % 256)>>, <<0, <<>>>>, <<1, 2, 3, 4, 5, 6, 7>>)
      by == Append(r[2], r[1] % 256)
  IN <<by[1] + (256 * by[2]), by[3] + (256 * by[4]), by[5] + (256 * by[6]), by[7] + (256 * by[8])>>
FBlaMka(x, y) == LET m == Mul32(x, y) IN Add64(Add64(x, y), Add64(m, m))
GB(v, a, b, c, d) ==
  LET a1 == FBlaMka(v[a], v[b])  d1 == Rotr64(Xor64(v[d], a1), 32)
      c1 == FBlaMka(v[c], d1)    b1 == Rotr64(Xor64(v[b], c1), 24)
      a2 == FBlaMka(a1, b1)      d2 == Rotr64(Xor64(d1, a2), 16)
      c2 == FBlaMka(c1, d2)      b2 == Rotr64(Xor64(b1, c2), 63)
  IN [v EXCEPT ![a] = a2, ![b] = b2, ![c] = c2, ![d] = d2]
\* permutation P on 16 words
PermP(v) ==
  LET v1 == GB(v, 1, 5, 9, 13)   v2 == GB(v1, 2, 6, 10, 14)  v3 == GB(v2, 3, 7, 11, 15)  v4 == GB(v3, 4, 8, 12, 16)
      v5 == GB(v4, 1, 6, 11, 16) v6 == GB(v5, 2, 7, 12, 13)  v7 == GB(v6, 3, 8, 9, 14)   v8 == GB(v7, 4, 5, 10, 15)
  IN v8
XorBlock(x, y) == [i \in 1..128 |-> Xor64(x[i], y[i])]
\* G(X, Y): P on the 8 rows of R = X xor Y, then on the 8 columns, then xor R
RowIdx(r) == [j \in 1..16 |-> (16 * (r - 1)) + j]
ColIdx(c) == [j \in 1..16 |-> (16 * ((j - 1) \div 2)) + (2 * (c - 1)) + ((j - 1) % 2) + 1]
ApplyAt(blk, idx) == LET p == PermP([j \in 1..16 |-> blk[idx[j]]])
                     IN [i \in 1..128 |-> LET hit == {j \in 1..16 : idx[j] = i} IN IF hit = {} THEN blk[i] ELSE p[CHOOSE j \in hit : TRUE]]
Compress(x, y) ==
  LET r == XorBlock(x, y)
      q == FoldLeft(LAMBDA b, i : TLCEval(ApplyAt(b, RowIdx(i))), r, <<1, 2, 3, 4, 5, 6, 7, 8>>)
      z == FoldLeft(LAMBDA b, i : TLCEval(ApplyAt(b, ColIdx(i))), q, <<1, 2, 3, 4, 5, 6, 7, 8>>)
  IN TLCEval(XorBlock(z, r))
BlockFromBytes(b) == [i \in 1..128 |-> LE64(b, (8 * i) - 7)]
BlockToBytes(blk) == Words64LE(blk)
ZeroBlock == [i \in 1..128 |-> Q0]

\* type: 1 = Argon2i, 2 = Argon2id
H0(p, T, m, t, type, pwd, salt, key, ad) ==
  B2!Blake2b(LE32Small(p) \o LE32Small(T) \o LE32Small(m) \o LE32Small(t) \o LE32Small(19) \o LE32Small(type)
             \o LE32Small(Len(pwd)) \o pwd \o LE32Small(Len(salt)) \o salt \o LE32Small(Len(key)) \o key \o LE32Small(Len(ad)) \o ad, <<>>, 64)
Lo32(w) == <<w[1], w[2]>>
Hi32(w) == <<w[3], w[4]>>
\* (a * b) >> 32 for 32-bit a, b given as <<lo16, hi16>>
MulHi32(a, b) == LET m == Mul32(<<a[1], a[2], 0, 0>>, <<b[1], b[2], 0, 0>>) IN <<m[3], m[4]>>
ToNat32(w) == w[1] + (65536 * w[2])               \* only for values < 2^31
Mod32(w, n) == (((w[2] % n) * (65536 % n)) + (w[1] % n)) % n      \* 32-bit value modulo a small n
\* position of the reference block inside the lane (RFC 9106 3.4.2) for an area of size `area` (< 2^31)
RefIndex(j1, area, start, laneLen) ==
  LET x == MulHi32(j1, j1)
      y == MulHi32(<<area % 65536, area \div 65536>>, x)
      rel == (area - 1) - ToNat32(y)
  IN (start + rel) % laneLen

Argon2Full(type, pwd, salt, key, ad, t, mKiB, p, T) ==
  LET mPrime == 4 * p * (mKiB \div (4 * p))
      laneLen == mPrime \div p
      segLen == laneLen \div 4
      h0 == H0(p, T, mKiB, t, type, pwd, salt, key, ad)
      first(l, k) == BlockFromBytes(HPrime(h0 \o LE32Small(k) \o LE32Small(l), 1024))
      \* memory: function from (lane * laneLen + col), 0-based, to block; built lane by lane, slice by slice
      Idx(l, c) == (l * laneLen) + c + 1
      mem0 == [i \in 1..mPrime |-> ZeroBlock]
      mem1 == FoldLeft(LAMBDA mm, l : [mm EXCEPT ![Idx(l, 0)] = first(l, 0), ![Idx(l, 1)] = first(l, 1)], mem0, [l \in 1..p |-> l - 1])
      \* Argon2i-style addresses for one segment: sequence of segLen 64-bit words
      Addresses(pass, l, sl) ==
        LET nblk == CeilDiv(segLen, 128)
            inp(cnt) == [i \in 1..128 |-> CASE i = 1 -> QSmall(pass) [] i = 2 -> QSmall(l) [] i = 3 -> QSmall(sl) [] i = 4 -> QSmall(mPrime)
                                               [] i = 5 -> QSmall(t) [] i = 6 -> QSmall(type) [] i = 7 -> QSmall(cnt) [] OTHER -> Q0]
            one(cnt) == Compress(ZeroBlock, Compress(ZeroBlock, inp(cnt)))
        IN FoldLeft(LAMBDA acc, c : acc \o one(c), <<>>, [c \in 1..nblk |-> c])
      DataIndependent(pass, sl) == type = 1 \/ (type = 2 /\ pass = 0 /\ sl < 2)
      FillSegment(mm, pass, sl, l) ==
        LET addrs == IF DataIndependent(pass, sl) THEN Addresses(pass, l, sl) ELSE <<>>
            startc == IF pass = 0 /\ sl = 0 THEN 2 ELSE 0
        IN FoldLeft(LAMBDA m2, i :
              LET col == (sl * segLen) + i
                  prevc == IF col = 0 THEN laneLen - 1 ELSE col - 1
                  prev == m2[Idx(l, prevc)]
                  j == IF DataIndependent(pass, sl) THEN addrs[i + 1] ELSE prev[1]
                  j1 == Lo32(j)  j2 == Hi32(j)
                  refLane == IF pass = 0 /\ sl = 0 THEN l ELSE Mod32(j2, p)
                  same == refLane = l
                  area == IF pass = 0
                            THEN IF sl = 0 THEN i - 1
                                 ELSE IF same THEN ((sl * segLen) + i) - 1 ELSE (sl * segLen) - (IF i = 0 THEN 1 ELSE 0)
                            ELSE IF same THEN ((laneLen - segLen) + i) - 1 ELSE (laneLen - segLen) - (IF i = 0 THEN 1 ELSE 0)
                  start == IF pass = 0 \/ sl = 3 THEN 0 ELSE (sl + 1) * segLen
                  refc == RefIndex(j1, area, start, laneLen)
                  new == Compress(prev, m2[Idx(refLane, refc)])
              IN [m2 EXCEPT ![Idx(l, col)] = IF pass = 0 THEN new ELSE XorBlock(new, m2[Idx(l, col)])],
              mm, [k \in 1..(segLen - startc) |-> (k - 1) + startc])
      filled == FoldLeft(LAMBDA mm, step : FillSegment(mm, step[1], step[2], step[3]), mem1,
                         [n \in 1..(t * 4 * p) |-> <<(n - 1) \div (4 * p), ((n - 1) \div p) % 4, (n - 1) % p>>])
      final == FoldLeft(LAMBDA acc, l : XorBlock(acc, filled[Idx(l, laneLen - 1)]), ZeroBlock, [l \in 1..p |-> l - 1])
  IN HPrime(BlockToBytes(final), T)
Argon2(type, pwd, salt, t, mKiB, p, T) == Argon2Full(type, pwd, salt, <<>>, <<>>, t, mKiB, p, T)
=============================================================================
