------------------------------- MODULE Salsa -------------------------------
(* Salsa20/20, /12, /8 (Bernstein's specification), HSalsa20 and XSalsa20. Byte sequences in and out; the
   64-bit block counter is <<c0,c1,c2,c3>> in 16-bit limbs. *)
EXTENDS W32

SigmaBytes == <<101,120,112,97,110,100,32,51,50,45,98,121,116,101,32,107>>     \* "expand 32-byte k"

\* quarterround on positions a,b,c,d of a 16-word state (1-based): b ^= (a+d)<<<7; c ^= (b+a)<<<9; d ^= (c+b)<<<13; a ^= (d+c)<<<18
SQR(s, a, b, c, d) ==
  LET b1 == Xor32(s[b], Rotl32(Add32(s[a], s[d]), 7))
      c1 == Xor32(s[c], Rotl32(Add32(b1, s[a]), 9))
      d1 == Xor32(s[d], Rotl32(Add32(c1, b1), 13))
      a1 == Xor32(s[a], Rotl32(Add32(d1, c1), 18))
  IN [s EXCEPT ![a] = a1, ![b] = b1, ![c] = c1, ![d] = d1]
\* columnround then rowround (indices of the specification + 1)
SDoubleRound(s) ==
  LET c1 == SQR(s, 1, 5, 9, 13)    c2 == SQR(c1, 6, 10, 14, 2)
      c3 == SQR(c2, 11, 15, 3, 7)  c4 == SQR(c3, 16, 4, 8, 12)
      r1 == SQR(c4, 1, 2, 3, 4)    r2 == SQR(r1, 6, 7, 8, 5)
      r3 == SQR(r2, 11, 12, 9, 10) r4 == SQR(r3, 16, 13, 14, 15)
  IN r4
SRounds(s, n) == FoldLeft(LAMBDA acc, i : SDoubleRound(acc), s, [i \in 1..(n \div 2) |-> i])

W4(b, i) == <<LE32(b, i), LE32(b, i + 4), LE32(b, i + 8), LE32(b, i + 12)>>
\* state from constant c (16 bytes), key (32 bytes) and the 16 input bytes (nonce || counter, or HSalsa20 input)
SState(c16, k, in16) ==
  <<LE32(c16, 1)>> \o W4(k, 1) \o <<LE32(c16, 5)>> \o W4(in16, 1) \o <<LE32(c16, 9)>> \o W4(k, 17) \o <<LE32(c16, 13)>>

\* the Salsa20 "core" / hash function with feed-forward
SalsaCore(in16, k, c16, rounds) ==
  LET s == SState(c16, k, in16)  r == SRounds(s, rounds)
  IN WordsLE([i \in 1..16 |-> Add32(r[i], s[i])])
\* HSalsa20: no feed-forward, words 0,5,10,15,6,7,8,9
HSalsa20C(k, in16, c16) ==
  LET r == SRounds(SState(c16, k, in16), 20)
  IN WordsLE(<<r[1], r[6], r[11], r[16], r[7], r[8], r[9], r[10]>>)
HSalsa20(k, in16) == HSalsa20C(k, in16, SigmaBytes)

SCtrBytes(c) == <<c[1] % 256, c[1] \div 256, c[2] % 256, c[2] \div 256, c[3] % 256, c[3] \div 256, c[4] % 256, c[4] \div 256>>
SCtrInc(c) ==
  LET a == c[1] + 1  b == c[2] + (a \div H)  cc == c[3] + (b \div H)  d == c[4] + (cc \div H)
  IN <<a % H, b % H, cc % H, d % H>>
SalsaStream(k, nonce8, ic, len, rounds) ==
  LET nb == CeilDiv(len, 64)
      r == FoldLeft(LAMBDA acc, i : <<acc[1] \o SalsaCore(nonce8 \o SCtrBytes(acc[2]), k, SigmaBytes, rounds), SCtrInc(acc[2])>>,
                    <<<<>>, ic>>, [i \in 1..nb |-> i])
  IN Take(r[1], len)
XSalsa20Stream(k, nonce24, ic, len) == SalsaStream(HSalsa20(k, Take(nonce24, 16)), SubSeq(nonce24, 17, 24), ic, len, 20)
=============================================================================
