------------------------------- MODULE Scrypt -------------------------------
(* scrypt (RFC 7914): PBKDF2-HMAC-SHA-256, Salsa20/8 core, BlockMix, ROMix. N a power of two < 2^31. *)
EXTENDS W32, TLC
S2 == INSTANCE Sha2
SA == INSTANCE Salsa
\* PBKDF2-HMAC-SHA-256 (RFC 8018), c iterations
I2OSP4(i) == <<(i \div 16777216) % 256, (i \div 65536) % 256, (i \div 256) % 256, i % 256>>
Pbkdf2(pwd, salt, c, dkLen) ==
  LET nb == CeilDiv(dkLen, 32)
      blockT(i) == LET u1 == S2!HmacSha256(pwd, salt \o I2OSP4(i))
                       r == FoldLeft(LAMBDA acc, k : LET u == S2!HmacSha256(pwd, acc[2]) IN <<XorBytes(acc[1], u), u>>, <<u1, u1>>, [k \in 1..(c - 1) |-> k])
                   IN r[1]
  IN Take(FoldLeft(LAMBDA acc, i : acc \o blockT(i), <<>>, [i \in 1..nb |-> i]), dkLen)
\* Salsa20/8 core on a 64-byte block: the Salsa20 hash with 8 rounds where the whole 64-byte input is the state
Salsa8(b64) ==
  LET s == [i \in 1..16 |-> LE32(b64, (4 * i) - 3)]
      r == SA!SRounds(s, 8)
  IN WordsLE([i \in 1..16 |-> Add32(r[i], s[i])])
Blk(b, i) == SubSeq(b, (64 * i) + 1, 64 * (i + 1))                     \* i-th 64-byte block, 0-based
BlockMix(b, r) ==
  LET st == FoldLeft(LAMBDA acc, i : LET x == Salsa8(XorBytes(acc[1], Blk(b, i))) IN <<x, Append(acc[2], x)>>,
                     <<Blk(b, (2 * r) - 1), <<>>>>, [i \in 1..(2 * r) |-> i - 1])
      y == st[2]
  IN FoldLeft(LAMBDA acc, i : acc \o y[(2 * i) + 1], <<>>, [i \in 1..r |-> i - 1]) \o FoldLeft(LAMBDA acc, i : acc \o y[(2 * i) + 2], <<>>, [i \in 1..r |-> i - 1])
\* Integerify(X) mod N for N = 2^k <= 2^30: low 32 bits of the last 64-byte block, little-endian
Integerify(x, r, N) == LET o == ((2 * r) - 1) * 64 IN (x[o + 1] + (256 * x[o + 2]) + (65536 * x[o + 3]) + (16777216 * (x[o + 4] % 64))) % N
ROMix(b, r, N) ==
  LET st1 == FoldLeft(LAMBDA acc, i : <<BlockMix(acc[1], r), Append(acc[2], acc[1])>>, <<b, <<>>>>, [i \in 1..N |-> i])
      v == st1[2]
  IN FoldLeft(LAMBDA x, i : BlockMix(XorBytes(x, v[Integerify(x, r, N) + 1]), r), st1[1], [i \in 1..N |-> i])
Scrypt(pwd, salt, N, r, p, dkLen) ==
  LET bl == 128 * r
      b0 == Pbkdf2(pwd, salt, 1, p * bl)
      b1 == FoldLeft(LAMBDA acc, i : acc \o ROMix(SubSeq(b0, (bl * (i - 1)) + 1, bl * i), r, N), <<>>, [i \in 1..p |-> i])
  IN Pbkdf2(pwd, b1, 1, dkLen)
=============================================================================
