------------------------------- MODULE PwhashStr -------------------------------
(* The password-hash string formats and the string API's contract (C08):
   $argon2id$v=19$m=<dec>,t=<dec>,p=<dec>$<b64 salt>$<b64 hash>   (minimal decimals, unpadded Base64)
   $7$<N_log2><r:5><p:5><salt>$<hash>                               (scrypt, itoa64 alphabet, LSB first)
   Strings are byte sequences (without the terminating NUL). *)
EXTENDS Argon2, TLC
CD == INSTANCE Codec
BN == INSTANCE BigNat

Str(s) == s                                   \* readability: byte sequences written with the helper below
IsDigit(c) == c >= 48 /\ c <= 57
\* longest prefix of decimal digits starting at position i (1-based); returns [ok, val (BigNat), next]
Decimal(s, i) ==
  LET stop == {j \in i..Len(s) : ~IsDigit(s[j])}
      e == IF stop = {} THEN Len(s) + 1 ELSE CHOOSE j \in stop : \A k \in stop : j <= k
      ds == SubSeq(s, i, e - 1)
      minimal == Len(ds) >= 1 /\ (ds[1] # 48 \/ Len(ds) = 1)
      val == FoldLeft(LAMBDA acc, c : BN!BNAdd(BN!BNMul(acc, <<10>>), BN!Small(c - 48)), <<>>, ds)
      u32 == Len(ds) <= 10 /\ BN!BNCmp(val, BN!BNSub(BN!BNPow2(32), <<1>>)) <= 0
  IN [ok |-> minimal /\ u32, val |-> val, next |-> e]
HasPrefixAt(s, i, p) == i + Len(p) - 1 <= Len(s) /\ SubSeq(s, i, i + Len(p) - 1) = p
\* unpadded standard Base64 body starting at i: parse while alphabet characters; [ok, bin, next]
B64At(s, i) ==
  LET stop == {j \in i..Len(s) : CD!B64Val(s[j], 3) < 0}
      e == IF stop = {} THEN Len(s) + 1 ELSE CHOOSE j \in stop : \A k \in stop : j <= k
      d == CD!B64Decode(SubSeq(s, i, e - 1), CD!NoIgnore, 3, Len(s), TRUE)
  IN [ok |-> d.ok /\ d.end = (e - i), bin |-> d.bin, next |-> e]
P_argon2id == <<36,97,114,103,111,110,50,105,100>>       \* "$argon2id"
P_argon2i  == <<36,97,114,103,111,110,50,105>>           \* "$argon2i"
P_v == <<36,118,61>>  P_m == <<36,109,61>>  P_t == <<44,116,61>>  P_p == <<44,112,61>>  Dollar == <<36>>
Nat32(v) == BN!Limb(v, 1) + (8192 * BN!Limb(v, 2)) + (67108864 * (BN!Limb(v, 3) % 32))     \* exact for v < 2^31
Small31(v) == BN!BNCmp(v, BN!BNPow2(31)) < 0
\* type: 1 = argon2i, 2 = argon2id
ParseArgon2(s, type) ==
  LET pre == IF type = 2 THEN P_argon2id ELSE P_argon2i
      i0 == Len(pre) + 1
      okPre == HasPrefixAt(s, 1, pre) /\ HasPrefixAt(s, i0, P_v)
      dv == Decimal(s, i0 + 3)
      okV == okPre /\ dv.ok /\ dv.val = BN!Small(19) /\ HasPrefixAt(s, dv.next, P_m)
      dm == Decimal(s, dv.next + 3)
      okM == okV /\ dm.ok /\ HasPrefixAt(s, dm.next, P_t)
      dt == Decimal(s, dm.next + 3)
      okT == okM /\ dt.ok /\ HasPrefixAt(s, dt.next, P_p)
      dp == Decimal(s, dt.next + 3)
      okP == okT /\ dp.ok /\ HasPrefixAt(s, dp.next, Dollar)
      bs == B64At(s, dp.next + 1)
      okS == okP /\ bs.ok /\ HasPrefixAt(s, bs.next, Dollar)
      bh == B64At(s, bs.next + 1)
      okH == okS /\ bh.ok /\ bh.next = Len(s) + 1
      \* argon2_validate_inputs
      valid == /\ okH /\ Len(bh.bin) >= 16 /\ Len(bs.bin) >= 8
               /\ BN!BNCmp(dp.val, <<1>>) >= 0 /\ BN!BNCmp(dp.val, BN!Small(16777215)) <= 0
               /\ BN!BNCmp(dm.val, <<8>>) >= 0 /\ BN!BNCmp(dm.val, BN!BNMul(dp.val, <<8>>)) >= 0
               /\ BN!BNCmp(dt.val, <<1>>) >= 0
  IN [ok |-> valid, m |-> dm.val, t |-> dt.val, p |-> dp.val, salt |-> bs.bin, hash |-> bh.bin]
\* the verification contract: well-formed string and the hash of the password under the string's own parameters
\* (any lane count) equals the stored hash. Evaluated only for parameters small enough to compute.
ArgonVerify(s, type, pwd) ==
  LET q == ParseArgon2(s, type)
  IN q.ok /\ Small31(q.m) /\ Small31(q.t) /\ Small31(q.p)
     /\ Argon2(type, pwd, q.salt, Nat32(q.t), Nat32(q.m), Nat32(q.p), Len(q.hash)) = q.hash
\* -1 malformed (or >= STRBYTES), 0 parameters equal, 1 different; ops and memKiB as BigNat
ArgonNeedsRehash(s, type, ops, memKiB) ==
  LET q == ParseArgon2(s, type)
  IN IF Len(s) >= 128 \/ ~q.ok THEN -1 ELSE IF q.t = ops /\ q.m = memKiB THEN 0 ELSE 1
\* prefix dispatch of crypto_pwhash_str_verify / crypto_pwhash_str_needs_rehash
DispatchType(s) == IF HasPrefixAt(s, 1, P_argon2id \o Dollar) THEN 2 ELSE IF HasPrefixAt(s, 1, P_argon2i \o Dollar) THEN 1 ELSE 0

\* ---------------------------------------------------------------- scrypt
Itoa64 == <<46,47,48,49,50,51,52,53,54,55,56,57,65,66,67,68,69,70,71,72,73,74,75,76,77,78,79,80,81,82,83,84,85,86,87,88,89,90,
            97,98,99,100,101,102,103,104,105,106,107,108,109,110,111,112,113,114,115,116,117,118,119,120,121,122>>
D64(c) == LET hit == {i \in 1..64 : Itoa64[i] = c} IN IF hit = {} THEN -1 ELSE (CHOOSE i \in hit : TRUE) - 1
\* 30-bit value in 5 characters, least significant first
D64x5(s, i) == LET v == [k \in 0..4 |-> D64(s[i + k])] IN
  [ok |-> \A k \in 0..4 : v[k] >= 0, val |-> v[0] + (64 * v[1]) + (4096 * v[2]) + (262144 * v[3]) + (16777216 * v[4])]
ParseScryptSetting(s) ==
  IF Len(s) < 14 \/ SubSeq(s, 1, 3) # <<36, 55, 36>> THEN [ok |-> FALSE]
  ELSE LET n == D64(s[4])  r == D64x5(s, 5)  p == D64x5(s, 10)
       IN [ok |-> n >= 0 /\ r.ok /\ p.ok, nlog2 |-> n, r |-> r.val, p |-> p.val]
\* hash / salt field codec of $7$ strings: 3 bytes -> 4 characters, least significant 6 bits first; a trailing group of
\* k < 3 bytes gives ceil(8k / 6) characters
E64Group(bs) == LET v == bs[1] + (IF Len(bs) > 1 THEN 256 * bs[2] ELSE 0) + (IF Len(bs) > 2 THEN 65536 * bs[3] ELSE 0)
                    n == CASE Len(bs) = 1 -> 2 [] Len(bs) = 2 -> 3 [] OTHER -> 4
                IN [k \in 1..n |-> Itoa64[((v \div (64 ^ (k - 1))) % 64) + 1]]
Enc64(bytes) == LET ng == (Len(bytes) + 2) \div 3
                    G(i) == E64Group(SubSeq(bytes, (3 * i) - 2, IF 3 * i > Len(bytes) THEN Len(bytes) ELSE 3 * i))
                    RECURSIVE Cat(_) Cat(i) == IF i = 0 THEN <<>> ELSE Cat(i - 1) \o G(i)
                IN Cat(ng)
\* crypto_pwhash_scryptsalsa208sha256_str_verify: the string must be exactly 101 characters, its setting must parse,
\* its salt is the raw characters between the setting and the LAST '$', and re-hashing must reproduce the string
LastDollar(s) == LET D == {i \in 15..Len(s) : s[i] = 36} IN IF D = {} THEN 0 ELSE CHOOSE i \in D : \A j \in D : j <= i
ScryptVerify(s, pwd, ScryptFn(_, _, _, _, _, _)) ==
  LET q == ParseScryptSetting(s)  ld == LastDollar(s)
  IN /\ Len(s) = 101 /\ q.ok /\ ld > 0
     /\ q.nlog2 >= 1 /\ q.nlog2 <= 20 /\ q.r >= 1 /\ q.p >= 1
     /\ s = SubSeq(s, 1, ld) \o Enc64(ScryptFn(pwd, SubSeq(s, 15, ld - 1), 2 ^ q.nlog2, q.r, q.p, 32))
\* pickparams(opslimit, memlimit) for values < 2^31 (the driver stays there)
PickNlog2(maxN) == CHOOSE k \in 1..63 : (IF k < 31 THEN 2 ^ k > maxN \div 2 ELSE TRUE) /\ \A j \in 1..(k - 1) : (j < 31 /\ 2 ^ j <= maxN \div 2)
PickParams(ops0, mem) ==
  LET ops == IF ops0 < 32768 THEN 32768 ELSE ops0
  IN IF ops < mem \div 32
       THEN [nlog2 |-> PickNlog2(ops \div 32), r |-> 8, p |-> 1]
       ELSE LET nl == PickNlog2(mem \div 1024)
                maxrp == (ops \div 4) \div (2 ^ nl)
            IN [nlog2 |-> nl, r |-> 8, p |-> (IF maxrp > 1073741823 THEN 1073741823 ELSE maxrp) \div 8]
ScryptNeedsRehash(s, ops, mem) ==
  LET q == ParseScryptSetting(s)  w == PickParams(ops, mem)
  IN IF Len(s) # 101 \/ ~q.ok THEN -1 ELSE IF q.nlog2 = w.nlog2 /\ q.r = w.r /\ q.p = w.p THEN 0 ELSE 1
=============================================================================
