------------------------------- MODULE X25519 -------------------------------
(* X25519 (RFC 7748 section 5): scalar clamped, top bit of u ignored, non-canonical u reduced mod p; the
   Montgomery ladder with conditional swaps; all-zero output = failure (crypto_scalarmult returns -1). *)
EXTENDS Fe25519
Clamp(k) == [k EXCEPT ![1] = @ - (@ % 8), ![32] = (@ % 64) + 64]
BitOf(k, t) == (k[(t \div 8) + 1] \div Pow2(t % 8)) % 2
A24 == FeSmall(121665)
LadderStep(s, t, kc, x1) ==
  LET kt == BitOf(kc, t)
      sw == (s.swap + kt) % 2
      x2 == IF sw = 1 THEN s.x3 ELSE s.x2   z2 == IF sw = 1 THEN s.z3 ELSE s.z2
      x3 == IF sw = 1 THEN s.x2 ELSE s.x3   z3 == IF sw = 1 THEN s.z2 ELSE s.z3
      A == FeAdd(x2, z2)  AA == FeSq(A)  Bq == FeSub(x2, z2)  BB == FeSq(Bq)  E == FeSub(AA, BB)
      Cc == FeAdd(x3, z3)  D == FeSub(x3, z3)  DA == FeMul(D, A)  CB == FeMul(Cc, Bq)
  IN [x3 |-> FeSq(FeAdd(DA, CB)), z3 |-> FeMul(x1, FeSq(FeSub(DA, CB))),
      x2 |-> FeMul(AA, BB), z2 |-> FeMul(E, FeAdd(AA, FeMul(A24, E))), swap |-> kt]
X25519(k, u) ==
  LET kc == Clamp(k)
      x1 == FeFromBytes(MaskTop(u))
      fin == FoldLeft(LAMBDA s, t : LadderStep(s, t, kc, x1),
                      [x2 |-> Fe1, z2 |-> Fe0, x3 |-> x1, z3 |-> Fe1, swap |-> 0], [i \in 1..255 |-> 255 - i])
      x2 == IF fin.swap = 1 THEN fin.x3 ELSE fin.x2
      z2 == IF fin.swap = 1 THEN fin.z3 ELSE fin.z2
  IN FeToBytes(FeMul(x2, FeInv(z2)))
BasePoint == <<9>> \o Zeros(31)
X25519Base(k) == X25519(k, BasePoint)
\* crypto_scalarmult: -1 exactly when the shared point is all-zero (low-order input points)
ScalarMultRet(q) == IF q = Zeros(32) THEN -1 ELSE 0
=============================================================================
