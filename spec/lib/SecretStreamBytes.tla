--------------------------- MODULE SecretStreamBytes ---------------------------
(* Byte-level definition of crypto_secretstream_xchacha20poly1305 (the documented construction):
   state = (k, nonce = counter32 || inonce64). *)
EXTENDS ChaCha, Poly1305

SSInit(key, hdr) == [k |-> HChaCha20(key, Take(hdr, 16)), nonce |-> <<1, 0, 0, 0>> \o SubSeq(hdr, 17, 24)]

Pad16(n) == Zeros((16 - (n % 16)) % 16)
\* one chunk: tag byte encrypted in a 64-byte block at counter 1, message from counter 2, Poly1305 key from
\* counter 0; MAC over ad || pad16 || block || c || pad' || le64(adlen) || le64(64 + mlen), where the
\* historical pad' has (0x10 - 64 + mlen) & 0xf = mlen mod 16 zero bytes
SSChunk(k, nonce, tag, m, ad) ==
  LET polykey == Take(StreamIETF(k, nonce, <<0, 0>>, 64), 32)
      block   == XorBytes(<<tag>> \o Zeros(63), StreamIETF(k, nonce, <<1, 0>>, 64))
      c       == ChaCha20IETFXor(m, k, nonce, <<2, 0>>)
      macdata == ad \o Pad16(Len(ad)) \o block \o c \o Zeros(Len(m) % 16)
                 \o LE64Small(Len(ad)) \o LE64Small(64 + Len(m))
  IN <<block[1]>> \o c \o Poly1305Mac(macdata, polykey)

SSRekey(k, nonce) ==
  LET x == ChaCha20IETFXor(k \o SubSeq(nonce, 5, 12), k, nonce, <<0, 0>>)
  IN [k |-> Take(x, 32), nonce |-> <<1, 0, 0, 0>> \o SubSeq(x, 33, 40)]

\* state after sealing / accepting a chunk whose MAC is mac
SSAfter(k, nonce, tag, mac) ==
  LET ctr == ToLE32(Add32(LE32(nonce, 1), <<1, 0>>))
      n1 == ctr \o XorBytes(SubSeq(nonce, 5, 12), Take(mac, 8))
  IN IF (tag \div 2) % 2 = 1 \/ ctr = <<0, 0, 0, 0>> THEN SSRekey(k, n1) ELSE [k |-> k, nonce |-> n1]
=============================================================================
