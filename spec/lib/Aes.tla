------------------------------- MODULE Aes -------------------------------
(* AES (FIPS 197): the S-box is generated at start-up from its definition (inverse in GF(2^8) followed by the
   affine map), not typed in. AES-256 block encryption (for GCM) and the bare round function (for AEGIS). *)
EXTENDS W32, TLC

Xo3(a, b, c) == (a ^^ b) ^^ c
Xo4(a, b, c, d) == ((a ^^ b) ^^ c) ^^ d
XTime(a) == LET b == 2 * a IN IF b >= 256 THEN (b - 256) ^^ 27 ELSE b
GMul(a, b) == \* product in GF(2^8) mod x^8 + x^4 + x^3 + x + 1
  FoldLeft(LAMBDA acc, i : <<IF (b \div Pow2(i)) % 2 = 1 THEN acc[1] ^^ acc[2] ELSE acc[1], XTime(acc[2])>>, <<0, a>>, [i \in 1..8 |-> i - 1])[1]
GInv(a) == IF a = 0 THEN 0 ELSE CHOOSE x \in 1..255 : GMul(a, x) = 1
RotlByte(x, n) == ((x * Pow2(n)) % 256) + (x \div Pow2(8 - n))
Affine(x) == Xo3(Xo4(x, RotlByte(x, 1), RotlByte(x, 2), RotlByte(x, 3)), RotlByte(x, 4), 99)
SboxT == TLCEval([i \in 1..256 |-> Affine(GInv(i - 1))])
X2T == TLCEval([i \in 1..256 |-> XTime(i - 1)])
Sb(x) == SboxT[x + 1]
X2(x) == X2T[x + 1]
X3(x) == X2T[x + 1] ^^ x

\* one AES round without key addition: MixColumns(ShiftRows(SubBytes(s))), state = 16 bytes in column-major order
RoundNoKey(s) ==
  LET col(c) == LET a0 == Sb(s[(4 * c) + 1])  a1 == Sb(s[(4 * ((c + 1) % 4)) + 2])
                    a2 == Sb(s[(4 * ((c + 2) % 4)) + 3])  a3 == Sb(s[(4 * ((c + 3) % 4)) + 4])
                IN <<Xo4(X2(a0), X3(a1), a2, a3), Xo4(a0, X2(a1), X3(a2), a3), Xo4(a0, a1, X2(a2), X3(a3)), Xo4(X3(a0), a1, a2, X2(a3))>>
  IN col(0) \o col(1) \o col(2) \o col(3)
\* AESRound(in, rk) of the AEGIS specification: one full encryption round
AesRound(s, rk) == XorBytes(RoundNoKey(s), rk)
FinalRound(s, rk) ==
  XorBytes([i \in 1..16 |-> LET c == (i - 1) \div 4  r == (i - 1) % 4 IN Sb(s[(4 * ((c + r) % 4)) + r + 1])], rk)

\* AES-256 key schedule: 15 round keys of 16 bytes
Rcon == <<1, 2, 4, 8, 16, 32, 64>>
KeyExpansion256(key) ==
  LET w0 == [i \in 1..8 |-> SubSeq(key, (4 * i) - 3, 4 * i)]
      step(w, i) ==    \* i = index of the new word, 9..60 (1-based)
        LET prev == w[i - 1]
            t == IF (i - 1) % 8 = 0 THEN LET r == <<prev[2], prev[3], prev[4], prev[1]>> IN <<Sb(r[1]) ^^ Rcon[(i - 1) \div 8], Sb(r[2]), Sb(r[3]), Sb(r[4])>>
                 ELSE IF (i - 1) % 8 = 4 THEN <<Sb(prev[1]), Sb(prev[2]), Sb(prev[3]), Sb(prev[4])>>
                 ELSE prev
        IN Append(w, XorBytes(w[i - 8], t))
      w == FoldLeft(step, w0, [i \in 1..52 |-> i + 8])
  IN [r \in 1..15 |-> w[(4 * r) - 3] \o w[(4 * r) - 2] \o w[(4 * r) - 1] \o w[4 * r]]
EncryptBlockRK(rk, blk) ==
  LET s0 == XorBytes(blk, rk[1])
      s13 == FoldLeft(LAMBDA s, r : AesRound(s, rk[r]), s0, [r \in 1..13 |-> r + 1])
  IN FinalRound(s13, rk[15])
Aes256EncryptBlock(key, blk) == EncryptBlockRK(KeyExpansion256(key), blk)
=============================================================================
