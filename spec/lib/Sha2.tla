------------------------------- MODULE Sha2 -------------------------------
(* SHA-256 and SHA-512 (FIPS 180-4), byte sequences in and out. Message length < 2^28 bytes. *)
EXTENDS W64, Sha2Tables

\* ---------------------------------------------------------------- SHA-256
Ch32(x, y, z) == Xor32(And32(x, y), And32(Not32(x), z))
Maj32(x, y, z) == Xor32(Xor32(And32(x, y), And32(x, z)), And32(y, z))
BSig0_32(x) == Xor32(Xor32(Rotr32(x, 2), Rotr32(x, 13)), Rotr32(x, 22))
BSig1_32(x) == Xor32(Xor32(Rotr32(x, 6), Rotr32(x, 11)), Rotr32(x, 25))
SSig0_32(x) == Xor32(Xor32(Rotr32(x, 7), Rotr32(x, 18)), Shr32(x, 3))
SSig1_32(x) == Xor32(Xor32(Rotr32(x, 17), Rotr32(x, 19)), Shr32(x, 10))
Sched256(block) ==
  FoldLeft(LAMBDA w, t : Append(w, Add32(Add32(SSig1_32(w[t - 2]), w[t - 7]), Add32(SSig0_32(w[t - 15]), w[t - 16]))),
           [i \in 1..16 |-> BE32(block, (4 * i) - 3)], [t \in 1..48 |-> t + 16])
Compress256(h, block) ==
  LET w == Sched256(block)
      step(s, t) == LET t1 == Add32(Add32(Add32(s[8], BSig1_32(s[5])), Add32(Ch32(s[5], s[6], s[7]), K256[t])), w[t])
                        t2 == Add32(BSig0_32(s[1]), Maj32(s[1], s[2], s[3]))
                    IN <<Add32(t1, t2), s[1], s[2], s[3], Add32(s[4], t1), s[5], s[6], s[7]>>
      r == FoldLeft(step, h, [t \in 1..64 |-> t])
  IN [i \in 1..8 |-> Add32(h[i], r[i])]
\* padding: 0x80, zeros, 64-bit big-endian bit length
BitLenBE64(n) == <<0, 0, 0, (n \div 536870912) % 256, (n \div 2097152) % 256, (n \div 8192) % 256, (n \div 32) % 256, (n % 32) * 8>>
Pad256(m) == m \o <<128>> \o Zeros((119 - (Len(m) % 64)) % 64) \o BitLenBE64(Len(m))
Sha256State(m) == LET p == Pad256(m) IN
  FoldLeft(LAMBDA h, i : Compress256(h, SubSeq(p, (64 * (i - 1)) + 1, 64 * i)), H256, [i \in 1..(Len(p) \div 64) |-> i])
Sha256(m) == WordsBE(Sha256State(m))

\* ---------------------------------------------------------------- SHA-512
Ch64(x, y, z) == Xor64(And64(x, y), And64(Not64(x), z))
Maj64(x, y, z) == Xor64(Xor64(And64(x, y), And64(x, z)), And64(y, z))
BSig0_64(x) == Xor64(Xor64(Rotr64(x, 28), Rotr64(x, 34)), Rotr64(x, 39))
BSig1_64(x) == Xor64(Xor64(Rotr64(x, 14), Rotr64(x, 18)), Rotr64(x, 41))
SSig0_64(x) == Xor64(Xor64(Rotr64(x, 1), Rotr64(x, 8)), Shr64(x, 7))
SSig1_64(x) == Xor64(Xor64(Rotr64(x, 19), Rotr64(x, 61)), Shr64(x, 6))
Sched512(block) ==
  FoldLeft(LAMBDA w, t : Append(w, Add64(Add64(SSig1_64(w[t - 2]), w[t - 7]), Add64(SSig0_64(w[t - 15]), w[t - 16]))),
           [i \in 1..16 |-> BE64(block, (8 * i) - 7)], [t \in 1..64 |-> t + 16])
Compress512(h, block) ==
  LET w == Sched512(block)
      step(s, t) == LET t1 == Add64(Add64(Add64(s[8], BSig1_64(s[5])), Add64(Ch64(s[5], s[6], s[7]), K512[t])), w[t])
                        t2 == Add64(BSig0_64(s[1]), Maj64(s[1], s[2], s[3]))
                    IN <<Add64(t1, t2), s[1], s[2], s[3], Add64(s[4], t1), s[5], s[6], s[7]>>
      r == FoldLeft(step, h, [t \in 1..80 |-> t])
  IN [i \in 1..8 |-> Add64(h[i], r[i])]
Pad512(m) == m \o <<128>> \o Zeros((239 - (Len(m) % 128)) % 128) \o Zeros(8) \o BitLenBE64(Len(m))
Sha512State(m) == LET p == Pad512(m) IN
  FoldLeft(LAMBDA h, i : Compress512(h, SubSeq(p, (128 * (i - 1)) + 1, 128 * i)), H512, [i \in 1..(Len(p) \div 128) |-> i])
Sha512(m) == Words64BE(Sha512State(m))

\* ---------------------------------------------------------------- HMAC (RFC 2104), HKDF (RFC 5869)
HmacGen(Hash(_), bs, k, m) ==
  LET k0 == IF Len(k) > bs THEN Hash(k) ELSE k
      kp == k0 \o Zeros(bs - Len(k0))
  IN Hash([i \in 1..bs |-> kp[i] ^^ 92] \o Hash([i \in 1..bs |-> kp[i] ^^ 54] \o m))
HmacSha256(k, m) == HmacGen(Sha256, 64, k, m)
HmacSha512(k, m) == HmacGen(Sha512, 128, k, m)
HmacSha512256(k, m) == Take(HmacSha512(k, m), 32)
HkdfExpandGen(Mac(_, _), hl, prk, info, len) ==
  LET n == CeilDiv(len, hl)
      r == FoldLeft(LAMBDA acc, i : LET t == Mac(prk, acc[2] \o info \o <<i>>) IN <<acc[1] \o t, t>>, <<<<>>, <<>>>>, [i \in 1..n |-> i])
  IN Take(r[1], len)
HkdfSha256Extract(salt, ikm) == HmacSha256(salt, ikm)
HkdfSha256Expand(prk, info, len) == HkdfExpandGen(HmacSha256, 32, prk, info, len)
HkdfSha512Extract(salt, ikm) == HmacSha512(salt, ikm)
HkdfSha512Expand(prk, info, len) == HkdfExpandGen(HmacSha512, 64, prk, info, len)
=============================================================================
