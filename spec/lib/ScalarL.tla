------------------------------- MODULE ScalarL -------------------------------
(* Arithmetic modulo the group order L = 2^252 + 27742317777372353535851937790883648493 on exact naturals
   (BigNat). Scalars travel as 32 (or 64) little-endian bytes. *)
EXTENDS BigNat
LBytes == <<237, 211, 245, 92, 26, 99, 18, 88, 214, 156, 247, 162, 222, 249, 222, 20,
            0, 0, 0, 0, 0, 0, 0, 0, 0, 0, 0, 0, 0, 0, 0, 16>>
LNat == BNFromBytes(LBytes)
ScToNat(b) == BNFromBytes(b)
ScFromNat(n) == BNToBytes(n, 32)
ScReduceNat(n) == BNMod(n, LNat)
ScIsCanonical(b) == BNCmp(BNFromBytes(b), LNat) < 0                 \* 0 <= s < L
ScReduce(b) == ScFromNat(ScReduceNat(BNFromBytes(b)))              \* any length (32 or 64 bytes)
ScAdd(a, b) == ScFromNat(ScReduceNat(BNAdd(BNFromBytes(a), BNFromBytes(b))))
ScNegNat(n) == LET r == ScReduceNat(n) IN IF BNIsZero(r) THEN <<>> ELSE BNSub(LNat, r)
ScSub(a, b) == ScFromNat(ScReduceNat(BNAdd(ScReduceNat(BNFromBytes(a)), ScNegNat(BNFromBytes(b)))))
ScMul(a, b) == ScFromNat(ScReduceNat(BNMul(ScReduceNat(BNFromBytes(a)), ScReduceNat(BNFromBytes(b)))))
ScNegate(a) == ScFromNat(ScNegNat(BNFromBytes(a)))
\* complement: 1 - a (mod L)
ScComplement(a) == ScFromNat(ScReduceNat(BNAdd(<<1>>, ScNegNat(BNFromBytes(a)))))
\* a^(L-2) mod L by square-and-multiply over the bits of L - 2
ScInvert(a) ==
  LET x == ScReduceNat(BNFromBytes(a))
      e == BNSub(LNat, <<2>>)
      r == FoldLeft(LAMBDA acc, i : LET s == ScReduceNat(BNMul(acc, acc)) IN IF BNBit(e, 252 - i) = 1 THEN ScReduceNat(BNMul(s, x)) ELSE s,
                    <<1>>, [i \in 0..252 |-> i])
  IN ScFromNat(r)
ScIsZero(a) == BNIsZero(ScReduceNat(BNFromBytes(a)))
=============================================================================
