------------------------------- MODULE ScalarL -------------------------------
(* Arithmetic modulo the group order L = 2^252 + 27742317777372353535851937790883648493 on exact naturals
   (BigNat). Scalars travel as 32 (or 64) little-endian bytes. *)
EXTENDS BigNat
LBytes == <<237, 211, 245, 92, 26, 99, 18, 88, 214, 156, 247, 162, 222, 249, 222, 20,
            0, 0, 0, 0, 0, 0, 0, 0, 0, 0, 0, 0, 0, 0, 0, 16>>
LNat == BNFromBytes(LBytes)
ScToNat(b) == BNFromBytes(b)
ScFromNat(n) == BNToBytes(n, 32)
\* Barrett reduction modulo L (k = 253 bits): valid for n < 2^506; larger inputs (64-byte strings) are split first.
\* It is exact arithmetic on naturals - only faster than the bit-by-bit BNMod; AnchorScalarL checks both agree.
Mu == TLCEval(BNDiv(BNPow2(506), LNat))
R260 == TLCEval(BNMod(BNPow2(260), LNat))
Barrett(n) ==
  LET q == BNShr(BNMul(BNShr(n, 252), Mu), 254)
      r0 == BNSub(n, BNMul(q, LNat))
      r1 == IF BNCmp(r0, LNat) >= 0 THEN BNSub(r0, LNat) ELSE r0
  IN IF BNCmp(r1, LNat) >= 0 THEN BNSub(r1, LNat) ELSE r1
ScReduceNat(n) ==
  IF Len(n) <= 38 THEN Barrett(n)
  ELSE Barrett(BNAdd(BNMul(Barrett(BNHigh(n, 20)), R260), BNLow(n, 20)))
ScIsCanonical(b) == BNCmp(BNFromBytes(b), LNat) < 0                 \* 0 <= s < L
ScReduce(b) == ScFromNat(ScReduceNat(BNFromBytes(b)))              \* any length (32 or 64 bytes)
ScAdd(a, b) == ScFromNat(ScReduceNat(BNAdd(BNFromBytes(a), BNFromBytes(b))))
ScNegNat(n) == LET r == ScReduceNat(n) IN IF BNIsZero(r) THEN <<>> ELSE BNSub(LNat, r)
ScSub(a, b) == ScFromNat(ScReduceNat(BNAdd(ScReduceNat(BNFromBytes(a)), ScNegNat(BNFromBytes(b)))))
ScMul(a, b) == ScFromNat(ScReduceNat(BNMul(ScReduceNat(BNFromBytes(a)), ScReduceNat(BNFromBytes(b)))))
ScNegate(a) == ScFromNat(ScNegNat(BNFromBytes(a)))
\* complement: 1 - a (mod L)
ScComplement(a) == ScFromNat(ScReduceNat(BNAdd(<<1>>, ScNegNat(BNFromBytes(a)))))
\* a^(L-2) mod L by square-and-multiply over the bits of L - 2
ScInvert(a) ==
  LET x == ScReduceNat(BNFromBytes(a))
      e == BNSub(LNat, <<2>>)
      r == FoldLeft(LAMBDA acc, i : LET s == ScReduceNat(BNMul(acc, acc)) IN IF BNBit(e, 253 - i) = 1 THEN ScReduceNat(BNMul(s, x)) ELSE s,
                    <<1>>, [i \in 1..253 |-> i])
  IN ScFromNat(r)
ScIsZero(a) == BNIsZero(ScReduceNat(BNFromBytes(a)))
=============================================================================
