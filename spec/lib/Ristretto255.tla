------------------------------- MODULE Ristretto255 -------------------------------
(* ristretto255 (RFC 9496) over lib/Ed25519.tla: decoding with all rejection rules, encoding, equality, the
   one-way map from 64 uniform bytes. *)
EXTENDS Ed25519

\* SQRT_RATIO_M1(u, v): [sq |-> was_square, r |-> non-negative root of u/v, or of SQRT_M1*u/v when u/v is not a square]
SqrtRatioM1(u, v) ==
  LET v3 == FeMul(FeSq(v), v)  v7 == FeMul(FeSq(v3), v)
      r0 == FeMul(FeMul(u, v3), FePow22523(FeMul(u, v7)))
      chk == FeMul(v, FeSq(r0))
      correct == FeEq(chk, u)
      flipped == FeEq(chk, FeNeg(u))
      flippedI == FeEq(chk, FeMul(FeNeg(u), SqrtM1))
      r1 == IF flipped \/ flippedI THEN FeMul(SqrtM1, r0) ELSE r0
  IN [sq |-> correct \/ flipped, r |-> FeAbs(r1)]
InvSqrtAMinusD == TLCEval(SqrtRatioM1(Fe1, FeSub(FeNeg(Fe1), D)).r)              \* 1/sqrt(a - d), non-negative
OneMinusDSq == TLCEval(FeSub(Fe1, FeSq(D)))
DMinusOneSq == TLCEval(FeSq(FeSub(D, Fe1)))
\* sqrt(a*d - 1): the root fixed by RFC 9496 section 4.1 (the one whose canonical value is odd)
SqrtADMinusOne == TLCEval(LET r == SqrtRatioM1(FeSub(FeNeg(D), Fe1), Fe1).r IN IF FeIsNegative(r) THEN r ELSE FeNeg(r))

RDecode(sb) ==
  LET s == FeFromBytes(sb)
      canonical == sb[32] < 128 /\ IsCanonicalFe(sb)
      ss == FeSq(s)  u1 == FeSub(Fe1, ss)  u2 == FeAdd(Fe1, ss)  u2s == FeSq(u2)
      v == FeSub(FeNeg(FeMul(D, FeSq(u1))), u2s)
      sr == SqrtRatioM1(Fe1, FeMul(v, u2s))
      denx == FeMul(sr.r, u2)  deny == FeMul(FeMul(sr.r, denx), v)
      x == FeAbs(FeMul(FeAdd(s, s), denx))  y == FeMul(u1, deny)  t == FeMul(x, y)
      ok == canonical /\ ~FeIsNegative(s) /\ sr.sq /\ ~FeIsNegative(t) /\ ~FeIsZero(y)
  IN [ok |-> ok, P |-> [X |-> x, Y |-> y, Z |-> Fe1, T |-> t]]
REncode(P) ==
  LET u1 == FeMul(FeAdd(P.Z, P.Y), FeSub(P.Z, P.Y))  u2 == FeMul(P.X, P.Y)
      inv == SqrtRatioM1(Fe1, FeMul(u1, FeSq(u2))).r
      den1 == FeMul(inv, u1)  den2 == FeMul(inv, u2)
      zinv == FeMul(FeMul(den1, den2), P.T)
      ix0 == FeMul(P.X, SqrtM1)  iy0 == FeMul(P.Y, SqrtM1)
      ench == FeMul(den1, InvSqrtAMinusD)
      rotate == FeIsNegative(FeMul(P.T, zinv))
      x == IF rotate THEN iy0 ELSE P.X
      y0 == IF rotate THEN ix0 ELSE P.Y
      deninv == IF rotate THEN ench ELSE den2
      y == IF FeIsNegative(FeMul(x, zinv)) THEN FeNeg(y0) ELSE y0
  IN FeToBytes(FeAbs(FeMul(deninv, FeSub(P.Z, y))))
\* MAP of RFC 9496 4.3.4
RMap(t) ==
  LET r == FeMul(SqrtM1, FeSq(t))
      u == FeMul(FeAdd(r, Fe1), OneMinusDSq)
      v == FeMul(FeSub(FeNeg(Fe1), FeMul(r, D)), FeAdd(r, D))
      sr == SqrtRatioM1(u, v)
      sprime == FeNeg(FeAbs(FeMul(sr.r, t)))
      s == IF sr.sq THEN sr.r ELSE sprime
      c == IF sr.sq THEN FeNeg(Fe1) ELSE r
      N == FeSub(FeMul(FeMul(c, FeSub(r, Fe1)), DMinusOneSq), v)
      w0 == FeMul(FeAdd(s, s), v)  w1 == FeMul(N, SqrtADMinusOne)
      w2 == FeSub(Fe1, FeSq(s))    w3 == FeAdd(Fe1, FeSq(s))
  IN [X |-> FeMul(w0, w3), Y |-> FeMul(w2, w1), Z |-> FeMul(w1, w3), T |-> FeMul(w0, w2)]
RFromHash(h64) ==
  LET r0 == FeFromBytes(MaskTop(SubSeq(h64, 1, 32)))  r1 == FeFromBytes(MaskTop(SubSeq(h64, 33, 64)))
  IN REncode(PtAdd(RMap(r0), RMap(r1)))
RIdentityBytes == Zeros(32)
=============================================================================
