------------------------------- MODULE BigNat -------------------------------
(* Natural numbers of arbitrary size as little-endian sequences of 13-bit limbs (TLC integers are 32-bit:
   a product of two limbs is < 2^26 and a column of up to 31 such products still fits). Exact arithmetic,
   no modular tricks: reductions are defined by the modules that need them. *)
EXTENDS Integers, Sequences, FiniteSets, FiniteSetsExt, Functions, SequencesExt, W32

B == 8192
BN0 == <<>>
Limb(a, i) == IF i <= Len(a) THEN a[i] ELSE 0

CarryStep(stt, x) == LET v == x + stt[1] IN <<v \div B, Append(stt[2], v % B)>>
\* normalise a sequence of non-negative column sums (each < 2^31 - 2^19) into limbs; two extra limbs hold the carry
Norm(c) == LET r == FoldLeft(CarryStep, <<0, <<>>>>, c)
           IN r[2] \o <<r[1] % B, r[1] \div B>>
Trim(a) == LET nz == {i \in 1..Len(a) : a[i] # 0}
           IN IF nz = {} THEN <<>> ELSE SubSeq(a, 1, Max(nz))
Small(n) == Trim(<<n % B, (n \div B) % B, n \div (B * B)>>)       \* n < 2^31
MaxLen(a, b) == IF Len(a) >= Len(b) THEN Len(a) ELSE Len(b)

BNAdd(a, b) == Trim(Norm([i \in 1..MaxLen(a, b) |-> Limb(a, i) + Limb(b, i)]))
BorrowStep(stt, x) == LET v == x - stt[1] IN IF v < 0 THEN <<1, Append(stt[2], v + B)>> ELSE <<0, Append(stt[2], v)>>
\* a - b for a >= b
BNSub(a, b) == Trim(FoldLeft(BorrowStep, <<0, <<>>>>, [i \in 1..MaxLen(a, b) |-> Limb(a, i) - Limb(b, i)])[2])
\* -1, 0, 1
BNCmp(a, b) ==
  LET d == {i \in 1..MaxLen(a, b) : Limb(a, i) # Limb(b, i)}
  IN IF d = {} THEN 0 ELSE IF Limb(a, Max(d)) < Limb(b, Max(d)) THEN -1 ELSE 1
BNEq(a, b) == BNCmp(a, b) = 0
BNLt(a, b) == BNCmp(a, b) = -1
BNIsZero(a) == \A i \in 1..Len(a) : a[i] = 0

\* schoolbook product; Len(a), Len(b) <= 31
BNMul(a, b) ==
  IF Len(a) = 0 \/ Len(b) = 0 THEN <<>> ELSE
  LET la == Len(a) lb == Len(b)
      col(k) == FoldSet(LAMBDA i, acc : acc + (a[i] * b[k + 1 - i]), 0,
                        (IF k > lb THEN k - lb + 1 ELSE 1)..(IF k < la THEN k ELSE la))
  IN Trim(Norm([k \in 1..(la + lb - 1) |-> col(k)]))
BNMulSmall(a, n) == Trim(Norm(Norm([i \in 1..Len(a) |-> a[i] * (n % B)]) ))    \* n < B

\* split at limb boundary: low k limbs, and the rest
BNLow(a, k) == IF Len(a) <= k THEN a ELSE SubSeq(a, 1, k)
BNHigh(a, k) == IF Len(a) <= k THEN <<>> ELSE SubSeq(a, k + 1, Len(a))
\* a * B^k
BNShiftLimbs(a, k) == IF Len(a) = 0 THEN a ELSE [i \in 1..k |-> 0] \o a

\* bytes (little-endian) <-> limbs
ByteAt(b, j) == IF j >= 1 /\ j <= Len(b) THEN b[j] ELSE 0
BNFromBytes(b) ==
  LET nl == CeilDiv(8 * Len(b), 13)
  IN Trim([k \in 1..nl |->
        LET bit == 13 * (k - 1)  j == (bit \div 8) + 1  o == bit % 8
            v == ByteAt(b, j) + (256 * ByteAt(b, j + 1)) + (65536 * ByteAt(b, j + 2))
        IN (v \div Pow2(o)) % B])
\* the low n bytes of a (a mod 2^(8n))
BNToBytes(a, n) ==
  [i \in 1..n |->
     LET bit == 8 * (i - 1)  j == (bit \div 13) + 1  o == bit % 13
         v == Limb(a, j) + (B * Limb(a, j + 1))
     IN (v \div Pow2(o)) % 256]
\* a mod n (n # 0) by shift-and-subtract over the bits of a, most significant first
BNMod(a, n) ==
  LET nb == 13 * Len(a)
  IN FoldLeft(LAMBDA rem, k :
                LET bit == (a[((nb - k) \div 13) + 1] \div Pow2((nb - k) % 13)) % 2
                    r2 == BNAdd(BNAdd(rem, rem), IF bit = 1 THEN <<1>> ELSE <<>>)
                IN IF BNCmp(r2, n) >= 0 THEN BNSub(r2, n) ELSE r2,
              <<>>, [k \in 1..nb |-> k])
\* floor(a / n) by the same shift-and-subtract loop (used once, for constants)
BNDiv(a, n) ==
  LET nb == 13 * Len(a)
      r == FoldLeft(LAMBDA st, k :
                LET bit == (a[((nb - k) \div 13) + 1] \div Pow2((nb - k) % 13)) % 2
                    r2 == BNAdd(BNAdd(st[1], st[1]), IF bit = 1 THEN <<1>> ELSE <<>>)
                    q2 == BNAdd(st[2], st[2])
                IN IF BNCmp(r2, n) >= 0 THEN <<BNSub(r2, n), BNAdd(q2, <<1>>)>> ELSE <<r2, q2>>,
              <<<<>>, <<>>>>, [k \in 1..nb |-> k])
  IN r[2]
\* floor(a / 2^n)
BNShr(a, n) ==
  LET q == n \div 13  b == n % 13
      x == IF Len(a) <= q THEN <<>> ELSE SubSeq(a, q + 1, Len(a))
  IN IF b = 0 THEN x
     ELSE Trim([i \in 1..Len(x) |-> (x[i] \div Pow2(b)) + ((Limb(x, i + 1) % Pow2(b)) * Pow2(13 - b))])
\* 2^n as a BigNat
BNPow2(n) == [i \in 1..(n \div 13) |-> 0] \o <<Pow2(n % 13)>>
\* number of significant bits
BNBit(a, n) == (Limb(a, (n \div 13) + 1) \div Pow2(n % 13)) % 2       \* bit n (0-based)
=============================================================================
