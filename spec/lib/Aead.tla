------------------------------- MODULE Aead -------------------------------
(* The authenticated-encryption constructions of libsodium composed from the primitive modules exactly as their
   public specifications do. Every operator returns [c |-> ciphertext, t |-> tag]; the call forms (combined,
   detached, NaCl zero-padded, precomputed key) are layouts of the same pair. *)
EXTENDS ChaCha, TLC
PL == INSTANCE Poly1305
SA == INSTANCE Salsa
GC == INSTANCE Gcm
AG == INSTANCE Aegis
XC == INSTANCE X25519
B2 == INSTANCE Blake2b
Pad16(n) == Zeros((16 - (n % 16)) % 16)

\* RFC 8439 (IETF): 96-bit nonce, one-time key from block 0, data from block 1
ChaChaPolyIETF(k, n12, ad, m) ==
  LET otk == Take(StreamIETF(k, n12, <<0, 0>>, 32), 32)
      c == XorBytes(m, StreamIETF(k, n12, <<1, 0>>, Len(m)))
  IN [c |-> c, t |-> PL!Poly1305Mac(ad \o Pad16(Len(ad)) \o c \o Pad16(Len(c)) \o LE64Small(Len(ad)) \o LE64Small(Len(c)), otk)]
\* original construction (draft-agl): 64-bit nonce and counter, lengths directly after each part, no padding
ChaChaPolyOrig(k, n8, ad, m) ==
  LET otk == Take(StreamDJB(k, n8, Ctr64Small(0), 32, 20), 32)
      c == XorBytes(m, StreamDJB(k, n8, Ctr64Small(1), Len(m), 20))
  IN [c |-> c, t |-> PL!Poly1305Mac(ad \o LE64Small(Len(ad)) \o c \o LE64Small(Len(c)), otk)]
\* XChaCha20-Poly1305-IETF: subkey by HChaCha20, nonce' = 0^4 || nonce[16..23]
XChaChaPoly(k, n24, ad, m) == ChaChaPolyIETF(HChaCha20(k, Take(n24, 16)), Zeros(4) \o SubSeq(n24, 17, 24), ad, m)
Aes256Gcm(k, n12, ad, m) == LET x == GC!GcmEncrypt(k, n12, ad, m) IN [c |-> Take(x, Len(m)), t |-> Drop(x, Len(m))]
Aegis128L(k16, n16, ad, m) == LET x == AG!Aegis128LEncrypt(k16, n16, ad, m) IN [c |-> Take(x, Len(m)), t |-> Drop(x, Len(m))]
Aegis256(k, n32, ad, m) == LET x == AG!Aegis256Encrypt(k, n32, ad, m) IN [c |-> Take(x, Len(m)), t |-> Drop(x, Len(m))]
\* crypto_secretbox (XSalsa20-Poly1305): Poly1305 key = first 32 keystream bytes, message from byte 32 on; MAC over the ciphertext
SecretboxXSalsa(k, n24, m) ==
  LET ks == SA!XSalsa20Stream(k, n24, <<0, 0, 0, 0>>, 32 + Len(m))
      c == XorBytes(m, Drop(ks, 32))
  IN [c |-> c, t |-> PL!Poly1305Mac(c, Take(ks, 32))]
SecretboxXChaCha(k, n24, m) ==
  LET ks == XChaCha20Stream(k, n24, Ctr64Small(0), 32 + Len(m))
      c == XorBytes(m, Drop(ks, 32))
  IN [c |-> c, t |-> PL!Poly1305Mac(c, Take(ks, 32))]
\* crypto_box: secretbox under the precomputed key; fails (ok = FALSE) when the shared point is all-zero
BoxKeySalsa(pk, sk) == LET q == XC!X25519(sk, pk) IN [ok |-> q # Zeros(32), k |-> SA!HSalsa20(q, Zeros(16))]
BoxKeyChaCha(pk, sk) == LET q == XC!X25519(sk, pk) IN [ok |-> q # Zeros(32), k |-> HChaCha20(q, Zeros(16))]
\* sealed box: ephemeral public key || box under nonce BLAKE2b-192(epk || pk)
SealNonce(epk, pk) == B2!Blake2b(epk \o pk, <<>>, 24)
Encrypt(alg, k, n, ad, m) ==
  CASE alg = "chacha20poly1305" -> ChaChaPolyOrig(k, n, ad, m)
    [] alg = "chacha20poly1305_ietf" -> ChaChaPolyIETF(k, n, ad, m)
    [] alg = "xchacha20poly1305_ietf" -> XChaChaPoly(k, n, ad, m)
    [] alg = "aes256gcm" -> Aes256Gcm(k, n, ad, m)
    [] alg = "aegis128l" -> Aegis128L(k, n, ad, m)
    [] alg = "aegis256" -> Aegis256(k, n, ad, m)
    [] alg = "secretbox" -> SecretboxXSalsa(k, n, m)
    [] alg = "secretbox_xchacha" -> SecretboxXChaCha(k, n, m)
=============================================================================
