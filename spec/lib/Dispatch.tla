------------------------------- MODULE Dispatch -------------------------------
(* CPU feature detection and implementation selection as read from runtime.c and the eight
   *_pick_best_implementation functions (properties C10, C19). Pure functions over sets of names.
   cpu   : CPUID bits the processor reports  (sse2 sse3 ssse3 sse41 avx xsave osxsave avx2 avx512f pclmul aesni rdrand)
   xcr0  : state components the OS enabled   (sse avx opmask zmm_hi256 hi16_zmm)
   build : what the build was configured with (emmintrin pmmintrin tmmintrin smmintrin avxintrin avx2intrin
           avx512fintrin wmmintrin rdrand cpuid xgetbv amd64_asm avx_asm ti_mode) *)
EXTENDS Integers, Sequences, FiniteSets

Detect(cpu, xcr0, build) ==
  LET c == IF "cpuid" \in build THEN cpu ELSE {}
      avx == /\ "avxintrin" \in build /\ {"avx", "xsave", "osxsave"} \subseteq c
             /\ "xgetbv" \in build /\ {"sse", "avx"} \subseteq xcr0
      avx2 == avx /\ "avx2intrin" \in build /\ "avx2" \in c
      avx512f == /\ avx2 /\ "avx512fintrin" \in build /\ "avx512f" \in c
                 /\ {"opmask", "zmm_hi256", "hi16_zmm"} \subseteq xcr0
  IN    (IF "emmintrin" \in build /\ "sse2" \in c THEN {"sse2"} ELSE {})
   \cup (IF "pmmintrin" \in build /\ "sse3" \in c THEN {"sse3"} ELSE {})
   \cup (IF "tmmintrin" \in build /\ "ssse3" \in c THEN {"ssse3"} ELSE {})
   \cup (IF "smmintrin" \in build /\ "sse41" \in c THEN {"sse41"} ELSE {})
   \cup (IF avx THEN {"avx"} ELSE {}) \cup (IF avx2 THEN {"avx2"} ELSE {}) \cup (IF avx512f THEN {"avx512f"} ELSE {})
   \cup (IF "wmmintrin" \in build /\ "pclmul" \in c THEN {"pclmul"} ELSE {})
   \cup (IF "wmmintrin" \in build /\ "aesni" \in c THEN {"aesni"} ELSE {})
   \cup (IF "rdrand" \in build /\ "rdrand" \in c THEN {"rdrand"} ELSE {})

\* what the processor + OS really provide (the reported flags must be a subset of this)
Provided(cpu, xcr0) ==
  LET avx == {"avx", "xsave", "osxsave"} \subseteq cpu /\ {"sse", "avx"} \subseteq xcr0
  IN (cpu \cap {"sse2", "sse3", "ssse3", "sse41", "pclmul", "aesni", "rdrand"})
     \cup (IF avx THEN {"avx"} ELSE {})
     \cup (IF avx /\ "avx2" \in cpu THEN {"avx2"} ELSE {})
     \cup (IF avx /\ "avx2" \in cpu /\ "avx512f" \in cpu /\ {"opmask", "zmm_hi256", "hi16_zmm"} \subseteq xcr0 THEN {"avx512f"} ELSE {})

Has(b, build) == b \in build
Prims == <<"argon2", "blake2b", "poly1305", "curve25519", "chacha20", "salsa20", "aegis128l", "aegis256">>

Pick(p, F, build) ==
  CASE p = "argon2" ->
         IF "avx512f" \in F /\ {"avx512fintrin", "avx2intrin", "tmmintrin", "smmintrin"} \subseteq build THEN "avx512f"
         ELSE IF "avx2" \in F /\ {"avx2intrin", "tmmintrin", "smmintrin"} \subseteq build THEN "avx2"
         ELSE IF "ssse3" \in F /\ {"emmintrin", "tmmintrin"} \subseteq build THEN "ssse3" ELSE "ref"
    [] p = "blake2b" ->
         IF "avx2" \in F /\ {"avx2intrin", "tmmintrin", "smmintrin"} \subseteq build THEN "avx2"
         ELSE IF "sse41" \in F /\ {"emmintrin", "tmmintrin", "smmintrin"} \subseteq build THEN "sse41"
         ELSE IF "ssse3" \in F /\ {"emmintrin", "tmmintrin"} \subseteq build THEN "ssse3" ELSE "ref"
    [] p = "poly1305" -> IF "sse2" \in F /\ {"ti_mode", "emmintrin"} \subseteq build THEN "sse2" ELSE "donna"
    [] p = "curve25519" -> IF "avx" \in F /\ "avx_asm" \in build THEN "sandy2x" ELSE "ref10"
    [] p = "chacha20" ->
         IF "avx2" \in F /\ {"avx2intrin", "emmintrin", "tmmintrin", "smmintrin"} \subseteq build THEN "avx2"
         ELSE IF "ssse3" \in F /\ {"emmintrin", "tmmintrin"} \subseteq build THEN "ssse3" ELSE "ref"
    [] p = "salsa20" ->
         IF "avx2" \in F /\ {"avx2intrin", "emmintrin", "tmmintrin", "smmintrin"} \subseteq build THEN "avx2"
         ELSE IF "amd64_asm" \notin build /\ "emmintrin" \in build /\ "sse2" \in F THEN "sse2"
         ELSE IF "amd64_asm" \in build THEN "xmm6" ELSE "ref"
    [] p \in {"aegis128l", "aegis256"} ->
         IF {"aesni", "avx"} \subseteq F /\ {"avxintrin", "wmmintrin"} \subseteq build THEN "aesni" ELSE "soft"

\* CPU features an implementation executes (xmm6 is SSE2 assembly, baseline on x86-64)
Requires(p, impl) ==
  CASE impl \in {"ref", "donna", "ref10", "soft"} -> {}
    [] impl = "avx512f" -> {"avx512f", "avx2", "avx", "sse41", "ssse3", "sse2"}
    [] impl = "avx2" -> {"avx2", "avx", "sse41", "ssse3", "sse2"}
    [] impl = "sse41" -> {"sse41", "ssse3", "sse2"}
    [] impl = "ssse3" -> {"ssse3", "sse2"}
    [] impl \in {"sse2", "xmm6"} -> {"sse2"}
    [] impl = "sandy2x" -> {"avx"}
    [] impl = "aesni" -> {"aesni", "avx"}

Aes256GcmAvailable(F, build) == {"pclmul", "aesni", "avx"} \subseteq F /\ {"tmmintrin", "wmmintrin"} \subseteq build
ScryptImpl(F, build) == IF "sse2" \in F /\ "emmintrin" \in build THEN "sse" ELSE "nosse"

\* on real processors the SIMD generations are nested; the code relies on it
Closed(S) == /\ ("avx512f" \in S => "avx2" \in S) /\ ("avx2" \in S => "avx" \in S) /\ ("avx" \in S => "sse41" \in S)
             /\ ("sse41" \in S => "ssse3" \in S) /\ ("ssse3" \in S => "sse3" \in S) /\ ("sse3" \in S => "sse2" \in S)
=============================================================================
