------------------------------- MODULE Ed25519 -------------------------------
(* edwards25519 and Ed25519 (RFC 8032) on exact field arithmetic: point decoding/encoding, complete addition in
   extended coordinates, scalar multiplication, signing, and the strict verification predicate of property C06. *)
EXTENDS Fe25519
SC == INSTANCE ScalarL
S2 == INSTANCE Sha2

D == TLCEval(FeMul(FeNeg(FeSmall(121665)), FeInv(FeSmall(121666))))
D2 == TLCEval(FeAdd(D, D))
\* sqrt(-1) = 2^((p-1)/4), (p-1)/4 = 2^253 - 5: bits 252..0 all ones except bit 2
SqrtM1 == TLCEval(FePowBits(FeSmall(2), [i \in 1..253 |-> IF (253 - i) = 2 THEN 0 ELSE 1]))

Identity == [X |-> Fe0, Y |-> Fe1, Z |-> Fe1, T |-> Fe0]
Affine(x, y) == [X |-> x, Y |-> y, Z |-> Fe1, T |-> FeMul(x, y)]
\* complete unified addition (a = -1), RFC 8032 5.1.4
PtAdd(P, Q) ==
  LET A == FeMul(FeSub(P.Y, P.X), FeSub(Q.Y, Q.X))   B == FeMul(FeAdd(P.Y, P.X), FeAdd(Q.Y, Q.X))
      C == FeMul(FeMul(P.T, D2), Q.T)                Dd == FeMul(FeAdd(P.Z, P.Z), Q.Z)
      E == FeSub(B, A)  F == FeSub(Dd, C)  G == FeAdd(Dd, C)  HH == FeAdd(B, A)
  IN [X |-> FeMul(E, F), Y |-> FeMul(G, HH), Z |-> FeMul(F, G), T |-> FeMul(E, HH)]
PtNeg(P) == [X |-> FeNeg(P.X), Y |-> P.Y, Z |-> P.Z, T |-> FeNeg(P.T)]
PtSub(P, Q) == PtAdd(P, PtNeg(Q))
PtDbl(P) == PtAdd(P, P)
PtEq(P, Q) == FeEq(FeMul(P.X, Q.Z), FeMul(Q.X, P.Z)) /\ FeEq(FeMul(P.Y, Q.Z), FeMul(Q.Y, P.Z))
IsIdentity(P) == FeIsZero(P.X) /\ FeEq(P.Y, P.Z)
\* [k]P for k given as bits, most significant first
PtMulBits(bits, P) == FoldLeft(LAMBDA acc, b : LET d == PtDbl(acc) IN IF b = 1 THEN PtAdd(d, P) ELSE d, Identity, bits)
BitsOfBytes(k, n) == [i \in 1..n |-> (k[((n - i) \div 8) + 1] \div Pow2((n - i) % 8)) % 2]     \* n bits, msb first
PtMul(k32, P) == PtMulBits(BitsOfBytes(k32, 256), P)
LBits == BitsOfBytes(SC!LBytes, 253)
PtMul8(P) == PtDbl(PtDbl(PtDbl(P)))
IsSmallOrder(P) == IsIdentity(PtMul8(P))
OnMainSubgroup(P) == IsIdentity(PtMulBits(LBits, P))

\* decoding (RFC 8032 5.1.3) WITHOUT the canonicity test, which is a separate predicate: y is reduced mod p
XFromY(y, sign) ==
  LET y2 == FeSq(y)  u == FeSub(y2, Fe1)  v == FeAdd(FeMul(D, y2), Fe1)
      v3 == FeMul(FeSq(v), v)  v7 == FeMul(FeSq(v3), v)
      x0 == FeMul(FeMul(u, v3), FePow22523(FeMul(u, v7)))
      vxx == FeMul(v, FeSq(x0))
      x1 == IF FeEq(vxx, u) THEN x0 ELSE FeMul(x0, SqrtM1)
      ok == FeEq(vxx, u) \/ FeEq(vxx, FeNeg(u))
      x2 == IF FeIsNegative(x1) # (sign = 1) THEN FeNeg(x1) ELSE x1
  IN [ok |-> ok, x |-> x2]
Decode(s) ==
  LET y == FeFromBytes(MaskTop(s))  sign == s[32] \div 128  r == XFromY(y, sign)
  IN [ok |-> r.ok, P |-> Affine(r.x, y), xzero |-> FeIsZero(r.x), sign |-> sign]
CanonicalY(s) == IsCanonicalFe(s)                    \* the 255-bit y is < p
\* strict decoding as RFC 8032 states it: canonical y, square, and not "negative zero"
DecodeStrict(s) == LET d == Decode(s) IN [ok |-> d.ok /\ CanonicalY(s) /\ ~(d.xzero /\ d.sign = 1), P |-> d.P]
Encode(P) ==
  LET zi == FeInv(P.Z)  x == FeMul(P.X, zi)  y == FeMul(P.Y, zi)  b == FeToBytes(y)
  IN [b EXCEPT ![32] = @ + (IF FeIsNegative(x) THEN 128 ELSE 0)]
BaseBytes == <<88>> \o [i \in 1..31 |-> 102]
Base == TLCEval(Decode(BaseBytes).P)

ClampEd(h) == [h EXCEPT ![1] = @ - (@ % 8), ![32] = (@ % 64) + 64]
\* key pair from a 32-byte seed
SecretScalar(seed) == ClampEd(SubSeq(S2!Sha512(seed), 1, 32))
PublicKey(seed) == Encode(PtMul(SecretScalar(seed), Base))
\* signature of msg; ph = TRUE gives Ed25519ph (dom2 prefix, message pre-hashed with SHA-512)
Dom2(ph) == IF ph THEN <<83,105,103,69,100,50,53,53,49,57,32,110,111,32,69,100,50,53,53,49,57,32,99,111,108,108,105,115,105,111,110,115,1,0>> ELSE <<>>
Sign(seed, msg, ph) ==
  LET h == S2!Sha512(seed)  a == ClampEd(SubSeq(h, 1, 32))  prefix == SubSeq(h, 33, 64)
      A == Encode(PtMul(a, Base))
      m == IF ph THEN S2!Sha512(msg) ELSE msg
      r == SC!ScReduce(S2!Sha512(Dom2(ph) \o prefix \o m))
      Rb == Encode(PtMul(r, Base))
      k == SC!ScReduce(S2!Sha512(Dom2(ph) \o Rb \o A \o m))
      S == SC!ScFromNat(SC!ScReduceNat(SC!BNAdd(SC!BNFromBytes(r), SC!BNMul(SC!BNFromBytes(k), SC!BNFromBytes(a)))))
  IN Rb \o S
\* the necessary condition of property C06 for a triple to be accepted
VerifyStrict(sig, msg, pk, ph) ==
  LET Rb == SubSeq(sig, 1, 32)  S == SubSeq(sig, 33, 64)
      dA == Decode(pk)  dR == Decode(Rb)
  IN /\ SC!ScIsCanonical(S)
     /\ CanonicalY(pk) /\ dA.ok /\ ~IsSmallOrder(dA.P)
     /\ dR.ok /\ ~IsSmallOrder(dR.P)
     /\ LET m == IF ph THEN S2!Sha512(msg) ELSE msg
            k == SC!ScReduce(S2!Sha512(Dom2(ph) \o Rb \o pk \o m))
            lhs == PtMul(S, Base)
            rhs == PtAdd(dR.P, PtMul(k, dA.P))
        IN IsIdentity(PtMul8(PtSub(lhs, rhs)))
\* Ed25519 -> X25519 conversions
PkToCurve(pk) == LET d == Decode(pk) IN FeToBytes(FeMul(FeAdd(d.P.Z, d.P.Y), FeInv(FeSub(d.P.Z, d.P.Y))))
SkToCurve(seed) == SecretScalar(seed)
=============================================================================
