------------------------------- MODULE W64 -------------------------------
(* 64-bit words as <<w0, w1, w2, w3>>, four 16-bit limbs, least significant first. *)
EXTENDS W32

Q0 == <<0, 0, 0, 0>>
QSmall(n) == <<n % H, n \div H, 0, 0>>             \* n < 2^31
Add64(a, b) ==
  LET s0 == a[1] + b[1]  s1 == a[2] + b[2] + (s0 \div H)  s2 == a[3] + b[3] + (s1 \div H)  s3 == a[4] + b[4] + (s2 \div H)
  IN <<s0 % H, s1 % H, s2 % H, s3 % H>>
Xor64(a, b) == <<a[1] ^^ b[1], a[2] ^^ b[2], a[3] ^^ b[3], a[4] ^^ b[4]>>
And64(a, b) == <<a[1] & b[1], a[2] & b[2], a[3] & b[3], a[4] & b[4]>>
Or64(a, b)  == <<a[1] | b[1], a[2] | b[2], a[3] | b[3], a[4] | b[4]>>
Not64(a)    == <<65535 - a[1], 65535 - a[2], 65535 - a[3], 65535 - a[4]>>
\* rotate right by n, 0 <= n < 64
Rotr64(a, n) ==
  LET q == n \div 16  b == n % 16
      x == <<a[q + 1], a[((q + 1) % 4) + 1], a[((q + 2) % 4) + 1], a[((q + 3) % 4) + 1]>>       \* rotated by whole limbs
  IN IF b = 0 THEN x
     ELSE LET p == Pow2(b)  r == Pow2(16 - b)
          IN <<(x[1] \div p) + ((x[2] % p) * r), (x[2] \div p) + ((x[3] % p) * r),
               (x[3] \div p) + ((x[4] % p) * r), (x[4] \div p) + ((x[1] % p) * r)>>
Rotl64(a, n) == Rotr64(a, (64 - n) % 64)
\* logical shift right by n, 0 <= n < 64
Shr64(a, n) ==
  LET q == n \div 16  b == n % 16
      x == [i \in 1..4 |-> IF i + q <= 4 THEN a[i + q] ELSE 0]
  IN IF b = 0 THEN x
     ELSE LET p == Pow2(b)  r == Pow2(16 - b)
          IN <<(x[1] \div p) + ((x[2] % p) * r), (x[2] \div p) + ((x[3] % p) * r), (x[3] \div p) + ((x[4] % p) * r), x[4] \div p>>
LE64(b, i) == <<b[i] + (256 * b[i + 1]), b[i + 2] + (256 * b[i + 3]), b[i + 4] + (256 * b[i + 5]), b[i + 6] + (256 * b[i + 7])>>
BE64(b, i) == <<b[i + 7] + (256 * b[i + 6]), b[i + 5] + (256 * b[i + 4]), b[i + 3] + (256 * b[i + 2]), b[i + 1] + (256 * b[i])>>
ToLE64(w) == <<w[1] % 256, w[1] \div 256, w[2] % 256, w[2] \div 256, w[3] % 256, w[3] \div 256, w[4] % 256, w[4] \div 256>>
ToBE64(w) == <<w[4] \div 256, w[4] % 256, w[3] \div 256, w[3] % 256, w[2] \div 256, w[2] % 256, w[1] \div 256, w[1] % 256>>
Words64LE(ws) == FoldLeft(LAMBDA acc, w : acc \o ToLE64(w), <<>>, ws)
Words64BE(ws) == FoldLeft(LAMBDA acc, w : acc \o ToBE64(w), <<>>, ws)
=============================================================================
