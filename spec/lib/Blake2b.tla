------------------------------- MODULE Blake2b -------------------------------
(* BLAKE2b (RFC 7693) with key, salt and personalisation, and crypto_kdf_blake2b. Messages < 2^31 bytes. *)
EXTENDS W64, Sha2Tables

IV == H512
SigmaT == << <<0,1,2,3,4,5,6,7,8,9,10,11,12,13,14,15>>, <<14,10,4,8,9,15,13,6,1,12,0,2,11,7,5,3>>,
             <<11,8,12,0,5,2,15,13,10,14,3,6,7,1,9,4>>, <<7,9,3,1,13,12,11,14,2,6,5,10,4,0,15,8>>,
             <<9,0,5,7,2,4,10,15,14,1,11,12,6,8,3,13>>, <<2,12,6,10,0,11,8,3,4,13,7,5,15,14,1,9>>,
             <<12,5,1,15,14,13,4,10,0,7,6,3,9,2,8,11>>, <<13,11,7,14,12,1,3,9,5,0,15,4,8,6,2,10>>,
             <<6,15,14,9,11,3,0,8,12,2,13,7,1,4,10,5>>, <<10,2,8,4,7,6,1,5,15,11,9,14,3,12,13,0>> >>

G(v, a, b, c, d, x, y) ==
  LET a1 == Add64(Add64(v[a], v[b]), x)   d1 == Rotr64(Xor64(v[d], a1), 32)
      c1 == Add64(v[c], d1)               b1 == Rotr64(Xor64(v[b], c1), 24)
      a2 == Add64(Add64(a1, b1), y)       d2 == Rotr64(Xor64(d1, a2), 16)
      c2 == Add64(c1, d2)                 b2 == Rotr64(Xor64(b1, c2), 63)
  IN [v EXCEPT ![a] = a2, ![b] = b2, ![c] = c2, ![d] = d2]
Round(v, m, r) ==
  LET s == SigmaT[(r % 10) + 1]
      v1 == G(v, 1, 5, 9, 13, m[s[1] + 1], m[s[2] + 1])    v2 == G(v1, 2, 6, 10, 14, m[s[3] + 1], m[s[4] + 1])
      v3 == G(v2, 3, 7, 11, 15, m[s[5] + 1], m[s[6] + 1])  v4 == G(v3, 4, 8, 12, 16, m[s[7] + 1], m[s[8] + 1])
      v5 == G(v4, 1, 6, 11, 16, m[s[9] + 1], m[s[10] + 1]) v6 == G(v5, 2, 7, 12, 13, m[s[11] + 1], m[s[12] + 1])
      v7 == G(v6, 3, 8, 9, 14, m[s[13] + 1], m[s[14] + 1]) v8 == G(v7, 4, 5, 10, 15, m[s[15] + 1], m[s[16] + 1])
  IN v8
\* compress 128-byte block; t = bytes hashed so far (< 2^31), last = final block flag
Compress(h, block, t, last) ==
  LET m == [i \in 1..16 |-> LE64(block, (8 * i) - 7)]
      v0 == h \o <<IV[1], IV[2], IV[3], IV[4], Xor64(IV[5], QSmall(t)), IV[6], IF last THEN Not64(IV[7]) ELSE IV[7], IV[8]>>
      v == FoldLeft(LAMBDA acc, r : Round(acc, m, r), v0, [r \in 1..12 |-> r - 1])
  IN [i \in 1..8 |-> Xor64(Xor64(h[i], v[i]), v[i + 8])]
\* parameter block: digest length, key length, fanout 1, depth 1, salt (16), personal (16)
InitState(outlen, keylen, salt16, pers16) ==
  LET p == <<outlen, keylen, 1, 1>> \o Zeros(28) \o salt16 \o pers16
  IN [i \in 1..8 |-> Xor64(IV[i], LE64(p, (8 * i) - 7))]
Blake2bSP(msg, key, outlen, salt16, pers16) ==
  LET data == (IF Len(key) > 0 THEN key \o Zeros(128 - Len(key)) ELSE <<>>) \o msg
      n == Len(data)
      nb == IF n = 0 THEN 1 ELSE CeilDiv(n, 128)                 \* the last block is never empty unless the input is
      h0 == InitState(outlen, Len(key), salt16, pers16)
      blk(i) == LET b == SubSeq(data, (128 * (i - 1)) + 1, IF 128 * i <= n THEN 128 * i ELSE n) IN b \o Zeros(128 - Len(b))
      h == FoldLeft(LAMBDA acc, i : Compress(acc, blk(i), IF i = nb THEN n ELSE 128 * i, i = nb), h0, [i \in 1..nb |-> i])
  IN Take(Words64LE(h), outlen)
Blake2b(msg, key, outlen) == Blake2bSP(msg, key, outlen, Zeros(16), Zeros(16))
\* crypto_generichash accepts outlen 1..64 (16..64 documented MIN), keylen 0..64
GenericHashValid(outlen, keylen) == outlen >= 1 /\ outlen <= 64 /\ keylen <= 64
\* crypto_kdf_blake2b_derive_from_key: salt = le64(subkey_id) || 0^8, personal = ctx (8) || 0^8, no message
KdfValid(len) == len >= 16 /\ len <= 64
Kdf(len, id8, ctx8, key32) == Blake2bSP(<<>>, key32, len, id8 \o Zeros(8), ctx8 \o Zeros(8))
=============================================================================
