------------------------------- MODULE Codec -------------------------------
(* Hex and Base64 (RFC 4648) encoders and the DECLARATIVE decoders: what sodium_hex2bin /
   sodium_base642bin are documented to accept, written from the grammar and not from the C loops.
   Text and binary data are sequences of 0..255. Variants: 1 original, 3 original without padding,
   5 URL-safe, 7 URL-safe without padding. An ignore argument is Ignoring(set of bytes) or NoIgnore (NULL pointer).
   Named deviation that is modelled, not flagged: with a non-NULL ignore string the NUL byte is ignorable
   too (the code uses strchr, which finds the terminator). *)
EXTENDS Integers, Sequences, FiniteSets, FiniteSetsExt, Functions, SequencesExt

NoIgnore == [null |-> TRUE, set |-> {}]
Ignoring(S) == [null |-> FALSE, set |-> S]
UrlSafe(v) == v \in {5, 7}
NoPad(v) == v \in {3, 7}
Ign(c, ignore) == ~ignore.null /\ (c = 0 \/ c \in ignore.set)

\* ---------------------------------------------------------------- hex
HexVal(c) == IF c >= 48 /\ c <= 57 THEN c - 48
             ELSE IF c >= 65 /\ c <= 70 THEN c - 55
             ELSE IF c >= 97 /\ c <= 102 THEN c - 87 ELSE -1
HexChar(x) == IF x < 10 THEN 48 + x ELSE 87 + x
Hex(bin) == FoldLeft(LAMBDA acc, b : acc \o <<HexChar(b \div 16), HexChar(b % 16)>>, <<>>, bin)

\* number of hex digits among text[1..i-1]
HexDigitsBefore(text, i) == Cardinality({j \in 1..(i - 1) : HexVal(text[j]) >= 0})
\* first position that is neither a hex digit nor an ignorable character standing between two pairs
HexBodyEnd(text, ignore) ==
  LET stop == {i \in 1..Len(text) : HexVal(text[i]) < 0 /\
                 ~(Ign(text[i], ignore) /\ HexDigitsBefore(text, i) % 2 = 0)}
  IN IF stop = {} THEN Len(text) + 1 ELSE Min(stop)
\* result of decoding: ok, decoded bytes, end position (0-based offset of the first unparsed character)
HexDecode(text, ignore, cap, wantEnd) ==
  LET e == HexBodyEnd(text, ignore)
      ds == SelectSeq(SubSeq(text, 1, e - 1), LAMBDA c : HexVal(c) >= 0)
      n == Len(ds)
      ok == n % 2 = 0 /\ n \div 2 <= cap /\ (wantEnd \/ e = Len(text) + 1)
  IN [ok |-> ok,
      bin |-> IF ok THEN [j \in 1..(n \div 2) |-> (16 * HexVal(ds[(2 * j) - 1])) + HexVal(ds[2 * j])] ELSE <<>>,
      end |-> e - 1]

\* ---------------------------------------------------------------- Base64
B64Val(c, v) ==
  IF c >= 65 /\ c <= 90 THEN c - 65
  ELSE IF c >= 97 /\ c <= 122 THEN c - 71
  ELSE IF c >= 48 /\ c <= 57 THEN c + 4
  ELSE IF c = (IF UrlSafe(v) THEN 45 ELSE 43) THEN 62
  ELSE IF c = (IF UrlSafe(v) THEN 95 ELSE 47) THEN 63 ELSE -1
B64Char(x, v) ==
  IF x < 26 THEN 65 + x ELSE IF x < 52 THEN 71 + x ELSE IF x < 62 THEN x - 4
  ELSE IF x = 62 THEN (IF UrlSafe(v) THEN 45 ELSE 43) ELSE (IF UrlSafe(v) THEN 95 ELSE 47)

B64Len(n, v) == IF NoPad(v) THEN (4 * (n \div 3)) + (IF n % 3 = 0 THEN 0 ELSE (n % 3) + 1) ELSE 4 * ((n + 2) \div 3)
ByteOr0(bin, i) == IF i <= Len(bin) THEN bin[i] ELSE 0
B64(bin, v) ==
  LET n == Len(bin)
      nd == ((8 * n) + 5) \div 6                       \* number of digits
      digit(k) == \* k-th 6-bit group (1-based) of the bit string of bin, zero padded
        LET bit == 6 * (k - 1)  j == (bit \div 8) + 1  o == bit % 8
            w == (256 * ByteOr0(bin, j)) + ByteOr0(bin, j + 1)
        IN (w \div (2 ^ (10 - o))) % 64
  IN [k \in 1..B64Len(n, v) |-> IF k <= nd THEN B64Char(digit(k), v) ELSE 61]

\* first position that is neither an alphabet character nor ignorable
B64BodyEnd(text, ignore, v) ==
  LET stop == {i \in 1..Len(text) : B64Val(text[i], v) < 0 /\ ~Ign(text[i], ignore)}
  IN IF stop = {} THEN Len(text) + 1 ELSE Min(stop)
\* position just after the k-th '=' at or after position e, provided only '=' and ignorable characters occur
\* before it; 0 if there is no such position (foreign character first, or text exhausted)
PadEnd(text, ignore, e, k) ==
  IF k = 0 THEN e ELSE
  LET eqs == {i \in e..Len(text) : text[i] = 61}
  IN IF Cardinality(eqs) < k THEN 0 ELSE
     LET q == CHOOSE i \in eqs : Cardinality({j \in eqs : j <= i}) = k
     IN IF \A j \in e..q : text[j] = 61 \/ Ign(text[j], ignore) THEN q + 1 ELSE 0
SkipIgn(text, ignore, p) ==
  LET stop == {i \in p..Len(text) : ~Ign(text[i], ignore)}
  IN IF stop = {} THEN Len(text) + 1 ELSE Min(stop)

B64Decode(text, ignore, v, cap, wantEnd) ==
  LET e == B64BodyEnd(text, ignore, v)
      ds == SelectSeq(SubSeq(text, 1, e - 1), LAMBDA c : B64Val(c, v) >= 0)
      n == Len(ds)
      nbytes == (6 * n) \div 8
      rem == (6 * n) % 8                                   \* 0, 2, 4 or 6 trailing bits
      last == IF n = 0 THEN 0 ELSE B64Val(ds[n], v)
      wellformed == rem # 6 /\ last % (2 ^ rem) = 0        \* whole quantum, zero trailing bits
      p == IF NoPad(v) THEN e ELSE PadEnd(text, ignore, e, rem \div 2)
      body == wellformed /\ nbytes <= cap /\ p # 0
      fin == IF body THEN SkipIgn(text, ignore, p) ELSE 0
      ok == body /\ (wantEnd \/ fin = Len(text) + 1)
      val(k) == B64Val(ds[k], v)
      byte(j) == LET bit == 8 * (j - 1)  k == (bit \div 6) + 1  o == bit % 6
                     w == (4096 * val(k)) + (64 * val(k + 1)) + (IF k + 2 <= n THEN val(k + 2) ELSE 0)
                 IN (w \div (2 ^ (10 - o))) % 256
  IN [ok |-> ok, bin |-> IF ok THEN [j \in 1..nbytes |-> byte(j)] ELSE <<>>, end |-> fin - 1]
=============================================================================
