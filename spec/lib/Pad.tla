------------------------------- MODULE Pad -------------------------------
(* ISO/IEC 7816-4 padding as sodium_pad / sodium_unpad document it. Buffers are sequences of 0..255. *)
EXTENDS Integers, Sequences, FiniteSets, FiniteSetsExt, Functions, SequencesExt

PadLen(len, bs) == len + (bs - (len % bs))                     \* a whole block when already aligned
\* result of padding the first len bytes held in a buffer of capacity cap
Pad(data, bs, cap) ==
  IF bs = 0 THEN [ok |-> FALSE]
  ELSE LET pl == PadLen(Len(data), bs)
       IN IF pl > cap THEN [ok |-> FALSE]
          ELSE [ok |-> TRUE, plen |-> pl, buf |-> data \o <<128>> \o [i \in 1..(pl - Len(data) - 1) |-> 0]]
\* unpadding looks at the final block only: the last non-zero byte of the buffer must be 0x80 and lie in it
Unpad(buf, bs) ==
  IF bs = 0 \/ Len(buf) < bs THEN [ok |-> FALSE]
  ELSE LET nz == {i \in (Len(buf) - bs + 1)..Len(buf) : buf[i] # 0}
       IN IF nz = {} THEN [ok |-> FALSE]
          ELSE IF buf[Max(nz)] = 128 THEN [ok |-> TRUE, len |-> Max(nz) - 1] ELSE [ok |-> FALSE]
=============================================================================
