------------------------------- MODULE SipHash -------------------------------
(* SipHash-2-4 with 64-bit and 128-bit output (Aumasson, Bernstein). *)
EXTENDS W64
SipRound(v) ==
  LET a0 == Add64(v[1], v[2])  b0 == Xor64(Rotl64(v[2], 13), a0)  a1 == Rotl64(a0, 32)
      c0 == Add64(v[3], v[4])  d0 == Xor64(Rotl64(v[4], 16), c0)
      a2 == Add64(a1, d0)      d1 == Xor64(Rotl64(d0, 21), a2)
      c1 == Add64(c0, b0)      b1 == Xor64(Rotl64(b0, 17), c1)  c2 == Rotl64(c1, 32)
  IN <<a2, b1, c2, d1>>
Rounds(v, n) == FoldLeft(LAMBDA acc, i : SipRound(acc), v, [i \in 1..n |-> i])
C0 == LE64(<<117,101,115,112,101,109,111,115>>, 1)   \* "somepseu"
C1 == LE64(<<109,111,100,110,97,114,111,100>>, 1)    \* "dorandom"
C2 == LE64(<<97,114,101,110,101,103,121,108>>, 1)    \* "lygenera"
C3 == LE64(<<115,101,116,121,98,100,101,116>>, 1)    \* "tedbytes"
SipGen(msg, key16, wide) ==
  LET k0 == LE64(key16, 1)  k1 == LE64(key16, 9)
      v0 == <<Xor64(k0, C0), Xor64(k1, IF wide THEN Xor64(C1, QSmall(238)) ELSE C1), Xor64(k0, C2), Xor64(k1, C3)>>
      n == Len(msg)  nw == n \div 8
      absorb(v, m) == LET x == Rounds(<<v[1], v[2], v[3], Xor64(v[4], m)>>, 2) IN <<Xor64(x[1], m), x[2], x[3], x[4]>>
      v1 == FoldLeft(LAMBDA v, i : absorb(v, LE64(msg, (8 * i) - 7)), v0, [i \in 1..nw |-> i])
      tail == SubSeq(msg, (8 * nw) + 1, n) \o Zeros(7 - (n % 8)) \o <<n % 256>>
      v2 == absorb(v1, LE64(tail, 1))
      f1 == Rounds(<<v2[1], v2[2], Xor64(v2[3], QSmall(IF wide THEN 238 ELSE 255)), v2[4]>>, 4)
      o1 == Xor64(Xor64(f1[1], f1[2]), Xor64(f1[3], f1[4]))
      f2 == Rounds(<<f1[1], Xor64(f1[2], QSmall(221)), f1[3], f1[4]>>, 4)
      o2 == Xor64(Xor64(f2[1], f2[2]), Xor64(f2[3], f2[4]))
  IN IF wide THEN ToLE64(o1) \o ToLE64(o2) ELSE ToLE64(o1)
SipHash24(msg, key16) == SipGen(msg, key16, FALSE)
SipHashX24(msg, key16) == SipGen(msg, key16, TRUE)
=============================================================================
