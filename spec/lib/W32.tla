------------------------------- MODULE W32 -------------------------------
(* 32-bit words as pairs <<lo, hi>> of 16-bit halves (TLC integers are 32-bit signed and overflow is an
   error), with byte-sequence conversion. All loops are CommunityModules folds (Java-backed). *)
EXTENDS Integers, Sequences, Bitwise, Functions, SequencesExt

H == 65536
Byte == 0..255

W(lo, hi) == <<lo, hi>>
W0 == <<0, 0>>
WSmall(n) == <<n % H, n \div H>>                  \* n < 2^31

Add32(a, b) == LET l == a[1] + b[1] IN <<l % H, (a[2] + b[2] + (l \div H)) % H>>
Xor32(a, b) == <<a[1] ^^ b[1], a[2] ^^ b[2]>>
And32(a, b) == <<a[1] & b[1], a[2] & b[2]>>
Or32(a, b)  == <<a[1] | b[1], a[2] | b[2]>>
Not32(a)    == <<65535 - a[1], 65535 - a[2]>>

Pow2(n) == CASE n = 0 -> 1 [] n = 1 -> 2 [] n = 2 -> 4 [] n = 3 -> 8 [] n = 4 -> 16 [] n = 5 -> 32
             [] n = 6 -> 64 [] n = 7 -> 128 [] n = 8 -> 256 [] n = 9 -> 512 [] n = 10 -> 1024
             [] n = 11 -> 2048 [] n = 12 -> 4096 [] n = 13 -> 8192 [] n = 14 -> 16384 [] n = 15 -> 32768
             [] n = 16 -> 65536

\* rotate left by n, 0 < n < 32
RotS(a, n) == \* 0 < n < 16
  LET p == Pow2(n)  q == Pow2(16 - n)
  IN <<((a[1] * p) % H) + (a[2] \div q), ((a[2] * p) % H) + (a[1] \div q)>>
Rotl32(a, n) == IF n = 0 THEN a
                ELSE IF n = 16 THEN <<a[2], a[1]>>
                ELSE IF n < 16 THEN RotS(a, n)
                ELSE RotS(<<a[2], a[1]>>, n - 16)
Rotr32(a, n) == Rotl32(a, (32 - n) % 32)
\* logical shift right by n, 0 <= n < 32
Shr32(a, n) == IF n = 0 THEN a
               ELSE IF n >= 16 THEN <<a[2] \div Pow2(n - 16), 0>>
               ELSE <<(a[1] \div Pow2(n)) + ((a[2] % Pow2(n)) * Pow2(16 - n)), a[2] \div Pow2(n)>>

\* little-endian / big-endian load and store on byte sequences (1-based offset i)
LE32(b, i) == <<b[i] + (256 * b[i + 1]), b[i + 2] + (256 * b[i + 3])>>
BE32(b, i) == <<b[i + 3] + (256 * b[i + 2]), b[i + 1] + (256 * b[i])>>
ToLE32(w) == <<w[1] % 256, w[1] \div 256, w[2] % 256, w[2] \div 256>>
ToBE32(w) == <<w[2] \div 256, w[2] % 256, w[1] \div 256, w[1] % 256>>

\* byte sequence helpers
Zeros(n) == [i \in 1..n |-> 0]
XorBytes(a, b) == [i \in 1..Len(a) |-> a[i] ^^ b[i]]          \* Len(b) >= Len(a)
Take(s, n) == SubSeq(s, 1, n)
Drop(s, n) == SubSeq(s, n + 1, Len(s))
Concat(ss) == FoldLeft(LAMBDA acc, x : acc \o x, <<>>, ss)
WordsLE(ws) == FoldLeft(LAMBDA acc, w : acc \o ToLE32(w), <<>>, ws)
WordsBE(ws) == FoldLeft(LAMBDA acc, w : acc \o ToBE32(w), <<>>, ws)
\* 64-bit little-endian encoding of a small number (< 2^31)
LE64Small(n) == <<n % 256, (n \div 256) % 256, (n \div 65536) % 256, n \div 16777216, 0, 0, 0, 0>>
BE64Small(n) == <<0, 0, 0, 0, n \div 16777216, (n \div 65536) % 256, (n \div 256) % 256, n % 256>>
CeilDiv(a, b) == (a + b - 1) \div b
=============================================================================
