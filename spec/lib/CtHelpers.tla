------------------------------- MODULE CtHelpers -------------------------------
(* What the constant-time helpers compute: equality, zero-ness, little-endian ordering and little-endian
   arithmetic modulo 2^(8 len) on byte sequences. *)
EXTENDS Integers, Sequences, FiniteSets, FiniteSetsExt, Functions, SequencesExt

Memcmp(a, b) == IF a = b THEN 0 ELSE -1                       \* sodium_memcmp, crypto_verify_16/32/64
IsZero(a) == IF \A i \in 1..Len(a) : a[i] = 0 THEN 1 ELSE 0
\* numbers are little-endian: the most significant differing byte decides
Compare(a, b) ==
  LET d == {i \in 1..Len(a) : a[i] # b[i]}
  IN IF d = {} THEN 0 ELSE IF a[Max(d)] < b[Max(d)] THEN -1 ELSE 1
AddStep(stt, x) == LET v == x + stt[1] IN <<v \div 256, Append(stt[2], v % 256)>>
Add(a, b) == FoldLeft(AddStep, <<0, <<>>>>, [i \in 1..Len(a) |-> a[i] + b[i]])[2]
Increment(a) == FoldLeft(AddStep, <<1, <<>>>>, a)[2]
SubStep(stt, x) == LET v == x - stt[1] IN IF v < 0 THEN <<1, Append(stt[2], v + 256)>> ELSE <<0, Append(stt[2], v)>>
Sub(a, b) == FoldLeft(SubStep, <<0, <<>>>>, [i \in 1..Len(a) |-> a[i] - b[i]])[2]
\* memzero of len bytes at offset off (0-based) inside a region
Memzero(region, off, len) == [i \in 1..Len(region) |-> IF i > off /\ i <= off + len THEN 0 ELSE region[i]]
=============================================================================
