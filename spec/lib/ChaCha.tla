------------------------------- MODULE ChaCha -------------------------------
(* ChaCha20 (RFC 8439 / original djb variant), HChaCha20 and XChaCha20, written from the RFC text.
   Keys/nonces/outputs are byte sequences. Block counters are pairs/quadruples of 16-bit limbs. *)
EXTENDS W32

SigmaBytes == <<101,120,112,97,110,100,32,51,50,45,98,121,116,101,32,107>>     \* "expand 32-byte k"
Sigma == <<LE32(SigmaBytes, 1), LE32(SigmaBytes, 5), LE32(SigmaBytes, 9), LE32(SigmaBytes, 13)>>

QR(s, a, b, c, d) ==
  LET a1 == Add32(s[a], s[b])   d1 == Rotl32(Xor32(s[d], a1), 16)
      c1 == Add32(s[c], d1)     b1 == Rotl32(Xor32(s[b], c1), 12)
      a2 == Add32(a1, b1)       d2 == Rotl32(Xor32(d1, a2), 8)
      c2 == Add32(c1, d2)       b2 == Rotl32(Xor32(b1, c2), 7)
  IN [s EXCEPT ![a] = a2, ![b] = b2, ![c] = c2, ![d] = d2]

DoubleRound(s) ==
  LET s1 == QR(s, 1, 5, 9, 13)   s2 == QR(s1, 2, 6, 10, 14)
      s3 == QR(s2, 3, 7, 11, 15) s4 == QR(s3, 4, 8, 12, 16)
      s5 == QR(s4, 1, 6, 11, 16) s6 == QR(s5, 2, 7, 12, 13)
      s7 == QR(s6, 3, 8, 9, 14)  s8 == QR(s7, 4, 5, 10, 15)
  IN s8

Rounds(s, n) == FoldLeft(LAMBDA acc, i : DoubleRound(acc), s, [i \in 1..(n \div 2) |-> i])

KeyWords(k) == [i \in 1..8 |-> LE32(k, 4 * i - 3)]

\* initial state from key words kw, and the four words w13..w16 (counter / nonce)
State(kw, tail) == Sigma \o kw \o tail

BlockOfState(s, rounds) ==
  LET r == Rounds(s, rounds) IN WordsLE([i \in 1..16 |-> Add32(r[i], s[i])])

\* 64-bit block counter as <<c0,c1,c2,c3>> 16-bit limbs, little-endian
Ctr64Inc(c) ==
  LET a == c[1] + 1  b == c[2] + (a \div H)  cc == c[3] + (b \div H)  d == c[4] + (cc \div H)
  IN <<a % H, b % H, cc % H, d % H>>
Ctr64Add(c, n) == \* n < 2^31
  LET a == c[1] + (n % H)  b == c[2] + (n \div H) + (a \div H)  cc == c[3] + (b \div H)  d == c[4] + (cc \div H)
  IN <<a % H, b % H, cc % H, d % H>>
Ctr64Small(n) == <<n % H, n \div H, 0, 0>>

\* original ChaCha20: 64-bit counter (words 13,14), 64-bit nonce (words 15,16)
BlockDJB(kw, nonce8, ctr, rounds) ==
  BlockOfState(State(kw, <<<<ctr[1], ctr[2]>>, <<ctr[3], ctr[4]>>, LE32(nonce8, 1), LE32(nonce8, 5)>>), rounds)
\* IETF ChaCha20: 32-bit counter (word 13) as <<lo,hi>>, 96-bit nonce (words 14..16)
BlockIETF(kw, nonce12, ctr32) ==
  BlockOfState(State(kw, <<ctr32, LE32(nonce12, 1), LE32(nonce12, 5), LE32(nonce12, 9)>>), 20)

\* keystreams: first len bytes of Block(ic) || Block(ic+1) || ...
StreamDJB(k, nonce8, ic, len, rounds) ==
  LET kw == KeyWords(k)
      nb == CeilDiv(len, 64)
      r == FoldLeft(LAMBDA acc, i : <<acc[1] \o BlockDJB(kw, nonce8, acc[2], rounds), Ctr64Inc(acc[2])>>,
                    <<<<>>, ic>>, [i \in 1..nb |-> i])
  IN Take(r[1], len)
\* the IETF counter is a 32-bit word; the spec here lets it run in N: callers are refused (misuse)
\* before it would wrap, see IETFWouldWrap
StreamIETF(k, nonce12, ic32, len) ==
  LET kw == KeyWords(k)
      nb == CeilDiv(len, 64)
      r == FoldLeft(LAMBDA acc, i : <<acc[1] \o BlockIETF(kw, nonce12, acc[2]), Add32(acc[2], <<1, 0>>)>>,
                    <<<<>>, ic32>>, [i \in 1..nb |-> i])
  IN Take(r[1], len)
\* ic + ceil(len/64) > 2^32 (len < 2^31)
IETFWouldWrap(ic32, len) ==
  LET nb == CeilDiv(len, 64)
      lo == ic32[1] + (nb % H)
      hi == ic32[2] + (nb \div H) + (lo \div H)
  IN hi > H \/ (hi = H /\ (lo % H) > 0)

ChaCha20Xor(m, k, nonce8, ic) == XorBytes(m, StreamDJB(k, nonce8, ic, Len(m), 20))
ChaCha20IETFXor(m, k, nonce12, ic32) == XorBytes(m, StreamIETF(k, nonce12, ic32, Len(m)))

\* HChaCha20(key, 16-byte input): words 1-4 and 13-16 of the permuted state, no feed-forward
HChaCha20(k, in16) ==
  LET s == State(KeyWords(k), <<LE32(in16, 1), LE32(in16, 5), LE32(in16, 9), LE32(in16, 13)>>)
      r == Rounds(s, 20)
  IN WordsLE(<<r[1], r[2], r[3], r[4], r[13], r[14], r[15], r[16]>>)
\* with the optional constant argument of crypto_core_hchacha20
HChaCha20C(k, in16, c16) ==
  LET s == <<LE32(c16, 1), LE32(c16, 5), LE32(c16, 9), LE32(c16, 13)>> \o KeyWords(k)
             \o <<LE32(in16, 1), LE32(in16, 5), LE32(in16, 9), LE32(in16, 13)>>
      r == Rounds(s, 20)
  IN WordsLE(<<r[1], r[2], r[3], r[4], r[13], r[14], r[15], r[16]>>)

\* XChaCha20: subkey = HChaCha20(k, nonce[0..15]); then original ChaCha20 with nonce[16..23]
XChaCha20Stream(k, nonce24, ic, len) ==
  StreamDJB(HChaCha20(k, Take(nonce24, 16)), SubSeq(nonce24, 17, 24), ic, len, 20)
XChaCha20Xor(m, k, nonce24, ic) == XorBytes(m, XChaCha20Stream(k, nonce24, ic, Len(m)))
=============================================================================
