------------------------------- MODULE Gcm -------------------------------
(* AES-256-GCM (NIST SP 800-38D) with 96-bit IVs and 128-bit tags. *)
EXTENDS Aes
\* multiplication in GF(2^128), GCM bit order: bit 0 is the most significant bit of byte 1
ShiftR1(v) == [i \in 1..16 |-> (v[i] \div 2) + (IF i > 1 THEN (v[i - 1] % 2) * 128 ELSE 0)]
RPoly == <<225>> \o Zeros(15)
GfMul(x, h) ==
  FoldLeft(LAMBDA st, i :
             LET bit == (x[(i \div 8) + 1] \div Pow2(7 - (i % 8))) % 2
                 z == IF bit = 1 THEN XorBytes(st[1], st[2]) ELSE st[1]
                 v == IF st[2][16] % 2 = 1 THEN XorBytes(ShiftR1(st[2]), RPoly) ELSE ShiftR1(st[2])
             IN <<z, v>>,
           <<Zeros(16), h>>, [i \in 1..128 |-> i - 1])[1]
Pad16(n) == Zeros((16 - (n % 16)) % 16)
Ghash(h, data) == \* Len(data) is a multiple of 16
  FoldLeft(LAMBDA y, i : GfMul(XorBytes(y, SubSeq(data, (16 * i) - 15, 16 * i)), h), Zeros(16), [i \in 1..(Len(data) \div 16) |-> i])
BE32Bytes(n) == <<(n \div 16777216) % 256, (n \div 65536) % 256, (n \div 256) % 256, n % 256>>
BitLen64(n) == <<0, 0, 0, (n \div 536870912) % 256, (n \div 2097152) % 256, (n \div 8192) % 256, (n \div 32) % 256, (n % 32) * 8>>
\* returns ciphertext || tag
GcmEncrypt(key, iv12, ad, m) ==
  LET rk == KeyExpansion256(key)
      h == EncryptBlockRK(rk, Zeros(16))
      ctr(i) == iv12 \o BE32Bytes(i)                      \* J0 = ctr(1); data blocks start at counter 2 (message < 2^31 bytes)
      nb == CeilDiv(Len(m), 16)
      ks == FoldLeft(LAMBDA acc, i : acc \o EncryptBlockRK(rk, ctr(i + 1)), <<>>, [i \in 1..nb |-> i])
      c == XorBytes(m, ks)
      s == Ghash(h, ad \o Pad16(Len(ad)) \o c \o Pad16(Len(c)) \o BitLen64(Len(ad)) \o BitLen64(Len(c)))
  IN c \o XorBytes(s, EncryptBlockRK(rk, ctr(1)))
=============================================================================
