------------------------------- MODULE H2C -------------------------------
(* Hashing to edwards25519 (RFC 9380): expand_message_xmd with SHA-256 / SHA-512 (including the rule for
   domain-separation tags longer than 255 bytes), hash_to_field (m = 1, L = 48), the Elligator 2 map for
   curve25519 (6.7.1) composed with the rational map to edwards25519, cofactor clearing; NU ("encode") and RO
   ("hash") constructions. hash = 256 or 512. *)
EXTENDS Ristretto255

HashFn(hash, m) == IF hash = 256 THEN S2!Sha256(m) ELSE S2!Sha512(m)
BInBytes(hash) == IF hash = 256 THEN 32 ELSE 64
SInBytes(hash) == IF hash = 256 THEN 64 ELSE 128
OversizePrefix == <<72,50,67,45,79,86,69,82,83,73,90,69,45,68,83,84,45>>       \* "H2C-OVERSIZE-DST-"
EffectiveDST(dst, hash) == IF Len(dst) > 255 THEN HashFn(hash, OversizePrefix \o dst) ELSE dst

\* b_0, b_1 .. b_ell as the RFC defines them; DstOf(i) is the tag used for block i (0 = b_0) - the RFC uses the
\* same (effective) tag everywhere
XmdGen(msg, len, hash, DstOf(_)) ==
  LET b == BInBytes(hash)  ell == CeilDiv(len, b)
      prime(i) == LET d == DstOf(i) IN d \o <<Len(d) % 256>>
      b0 == HashFn(hash, Zeros(SInBytes(hash)) \o msg \o <<len \div 256, len % 256>> \o <<0>> \o prime(0))
      step(acc, i) == LET bi == HashFn(hash, XorBytes(b0, acc[2]) \o <<i>> \o prime(i)) IN <<acc[1] \o bi, bi>>
      r == FoldLeft(step, <<<<>>, Zeros(b)>>, [i \in 1..ell |-> i])
  IN SubSeq(r[1], 1, len)
ExpandMessageXmd(msg, dst, len, hash) == LET d == EffectiveDST(dst, hash) IN XmdGen(msg, len, hash, LAMBDA i : d)

\* OS2IP(48 big-endian bytes) mod p
FeFromBE48(b) ==
  LET le == [i \in 1..48 |-> b[49 - i]]
      lo == FeFromBytes(SubSeq(le, 1, 32))                                   \* bits 0..255
      hi == FeFromBytes(SubSeq(le, 33, 48) \o Zeros(16))                     \* bits 256..383
  IN FeAdd(lo, FeMul(hi, FeSmall(38)))                                       \* 2^256 = 38 (mod p)
HashToField(msg, dst, count, hash) ==
  LET u == ExpandMessageXmd(msg, dst, 48 * count, hash) IN [i \in 1..count |-> FeFromBE48(SubSeq(u, (48 * (i - 1)) + 1, 48 * i))]

\* square root: [sq |-> is a square, r |-> a root]
FeSqrt(a) == SqrtRatioM1(a, Fe1)
FeSgn0(a) == IF FeIsNegative(a) THEN 1 ELSE 0
J == FeSmall(486662)
\* Elligator 2 for curve25519, Z = 2 (RFC 9380 6.7.1 / G.2.1): affine Montgomery point (x, y)
MapToCurve25519(u) ==
  LET x1 == FeMul(FeNeg(J), FeInv(FeAdd(Fe1, FeMulSmall(FeSq(u), 2))))
      gx(x) == FeAdd(FeAdd(FeMul(FeSq(x), x), FeMul(J, FeSq(x))), x)
      s1 == FeSqrt(gx(x1))
      x2 == FeSub(FeNeg(x1), J)
      s2 == FeSqrt(gx(x2))
      x == IF s1.sq THEN x1 ELSE x2
      y0 == IF s1.sq THEN s1.r ELSE s2.r
      \* sgn0(y) = 1 when gx1 is square, 0 otherwise
      y == IF FeSgn0(y0) = (IF s1.sq THEN 1 ELSE 0) THEN y0 ELSE FeNeg(y0)
  IN [x |-> x, y |-> y]
\* c1 = sqrt(-486664) with sgn0(c1) = 0
C1 == TLCEval(LET r == FeSqrt(FeNeg(FeSmall(486664))).r IN IF FeIsNegative(r) THEN FeNeg(r) ELSE r)
MapToEdwards(u) ==
  LET m == MapToCurve25519(u)
      xd == m.y  yd == FeAdd(m.x, Fe1)
  IN IF FeIsZero(FeMul(xd, yd)) THEN Identity
     ELSE Affine(FeMul(FeMul(C1, m.x), FeInv(xd)), FeMul(FeSub(m.x, Fe1), FeInv(yd)))
EncodeToCurve(msg, dst, hash) == Encode(PtMul8(MapToEdwards(HashToField(msg, dst, 1, hash)[1])))            \* NU
HashToCurve(msg, dst, hash) ==                                                                                  \* RO
  LET u == HashToField(msg, dst, 2, hash) IN Encode(PtMul8(PtAdd(MapToEdwards(u[1]), MapToEdwards(u[2]))))

\* NAMED DEVIATION (known finding F4): for tags longer than 255 bytes the library keeps the hashed tag in the buffer
\* that then receives b_0, so every later block is computed with b_0 in place of the tag
ExpandAliased(msg, dst, len, hash) ==
  LET d == EffectiveDST(dst, hash)
      b0 == HashFn(hash, Zeros(SInBytes(hash)) \o msg \o <<len \div 256, len % 256>> \o <<0>> \o d \o <<Len(d) % 256>>)
  IN XmdGen(msg, len, hash, LAMBDA i : IF i = 0 THEN d ELSE b0)
AliasedToCurve(msg, dst, hash, ro) ==
  LET n == IF ro THEN 2 ELSE 1
      ub == ExpandAliased(msg, dst, 48 * n, hash)
      u == [i \in 1..n |-> FeFromBE48(SubSeq(ub, (48 * (i - 1)) + 1, 48 * i))]
  IN IF ro THEN Encode(PtMul8(PtAdd(MapToEdwards(u[1]), MapToEdwards(u[2])))) ELSE Encode(PtMul8(MapToEdwards(u[1])))
=============================================================================
