------------------------------- MODULE OracleCodec -------------------------------
(* Validation of codec records (C15) against lib/Codec.tla. A decode record is right iff the return value,
   decoded length and bytes are the declarative decoder's and, on success with an end pointer, the reported
   end position is; on failure only a non-zero return is required (the reported length must not exceed the
   capacity and the end pointer must stay inside the text: the property states nothing more). *)
EXTENDS Codec, TLC, Json, IOUtils
Recs == ndJsonDeserialize(IOEnv.TRACE)
IgnSet(r) == IF r.noign THEN NoIgnore ELSE Ignoring({r.ign[i] : i \in 1..Len(r.ign)})
CheckDec(r) ==
  LET x == IF r.codec = 0 THEN HexDecode(r.text, IgnSet(r), r.cap, r.wantEnd)
                          ELSE B64Decode(r.text, IgnSet(r), r.codec, r.cap, r.wantEnd)
  IN r.nullsame /\ IF x.ok THEN r.ret = 0 /\ r.n = Len(x.bin) /\ r.bin = x.bin /\ (r.wantEnd => r.end = x.end)
             ELSE r.ret = -1 /\ r.n <= r.cap /\ (r.wantEnd => (r.end >= 0 /\ r.end <= Len(r.text)))
CheckEnc(r) ==
  LET t == IF r.codec = 0 THEN Hex(r.bin) ELSE B64(r.bin, r.codec)
  IN r.text = t /\ r.nul /\ r.retself /\ r.elen = Len(t) + 1 /\ r.macro = r.elen /\ r.dret = 0 /\ r.dn = Len(r.bin) /\ r.rt
Check(r) == CASE r.op = "dec" -> CheckDec(r) [] r.op = "enc" -> CheckEnc(r)
Bad == {i \in 1..Len(Recs) : ~Check(Recs[i])}
ASSUME PrintT(<<"ORACLE", Len(Recs), ToJson(SetToSeq(Bad))>>)
=============================================================================
