------------------------------- MODULE OracleOverlap -------------------------------
(* C13: relational records. For an API and offset that the contract table allows, the call with overlapping /
   aliased buffers must have produced the same output and return code as the call with disjoint buffers and must
   not have written outside its output region. The contract table is the one sys/Overlap.tla derives: arbitrary
   overlap for secretbox / box (easy, detached) and sign / sign_open, exact aliasing only for stream XOR and AEADs. *)
EXTENDS Integers, Sequences, TLC, Json, IOUtils, SequencesExt, FiniteSets
Recs == ndJsonDeserialize(IOEnv.TRACE)
AnyOffset == {"secretbox_easy", "secretbox_open_easy", "secretbox_xchacha_easy", "secretbox_xchacha_open_easy", "secretbox_detached",
              "box_easy", "box_open_easy", "sign", "sign_open"}
InContract(r) == r.api \in AnyOffset \/ r.off = 0
Check(r) == InContract(r) /\ r.equal /\ r.outside_ok /\ r.ret_same
Bad == {i \in 1..Len(Recs) : ~Check(Recs[i])}
ASSUME PrintT(<<"ORACLE", Len(Recs), ToJson(SetToSeq(Bad))>>)
=============================================================================
