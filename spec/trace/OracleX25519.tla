------------------------------- MODULE OracleX25519 -------------------------------
(* Validation of X25519 / key-agreement records (C05) against lib/X25519.tla (RFC 7748), HSalsa20/HChaCha20,
   BLAKE2b and SHA-512. *)
EXTENDS X25519, TLC, Json, IOUtils
CC == INSTANCE ChaCha
SS == INSTANCE Salsa
B2 == INSTANCE Blake2b
S2 == INSTANCE Sha2
Recs == ndJsonDeserialize(IOEnv.TRACE)
Z32 == Zeros(32)
Check(r) ==
  \* on failure (all-zero shared point) only the return code is required: ref10 refuses low-order points before
  \* writing the output, sandy2x writes the zero point; the property does not say what the buffer holds then
  CASE r.op = "x25519" -> LET q == X25519(r.k, r.u) IN r.ret = ScalarMultRet(q) /\ (r.ret = 0 => r.q = q) /\ r.same
    [] r.op = "x25519_base" -> r.q = X25519Base(r.k) /\ r.ret = 0
    [] r.op = "beforenm" -> LET q == X25519(r.sk, r.pk) IN
         IF q = Z32 THEN r.ret_salsa = -1 /\ r.ret_chacha = -1
         ELSE r.ret_salsa = 0 /\ r.ret_chacha = 0 /\ r.salsa = SS!HSalsa20(q, Zeros(16)) /\ r.chacha = CC!HChaCha20(q, Zeros(16))
    [] r.op = "kx" -> LET csk == B2!Blake2b(r.seed_c, <<>>, 32)  ssk == B2!Blake2b(r.seed_s, <<>>, 32)
                          cpk == X25519Base(csk)  spk == X25519Base(ssk)
                          q == X25519(csk, spk)
                          keys == B2!Blake2b(q \o cpk \o spk, <<>>, 64) IN
         /\ r.csk = csk /\ r.ssk = ssk /\ r.cpk = cpk /\ r.spk = spk /\ r.ret_c = 0 /\ r.ret_s = 0
         /\ r.crx = SubSeq(keys, 1, 32) /\ r.ctx = SubSeq(keys, 33, 64)
         /\ r.srx = r.ctx /\ r.stx = r.crx                                      \* cross-equality
    \* every API built on X25519 (box easy/detached in both ciphers, sealed boxes, precomputation, key exchange in either
    \* role, crypto_scalarmult itself) fails exactly when the shared point is all-zero; opening garbage always fails
    [] r.op = "consumers" -> LET e == IF X25519(r.sk, r.pk) = Z32 THEN -1 ELSE 0 IN
         /\ \A j \in (1..10) \cup {12} : r.rets[j] = e
         /\ r.rets[11] = -1
    [] r.op = "box_seed_keypair" -> LET sk == SubSeq(S2!Sha512(r.seed), 1, 32) IN r.sk = sk /\ r.pk = X25519Base(sk)
Bad == {i \in 1..Len(Recs) : ~Check(Recs[i])}
ASSUME PrintT(<<"ORACLE", Len(Recs), ToJson(SetToSeq(Bad))>>)
=============================================================================
