------------------------------- MODULE OracleAead -------------------------------
(* Validation of authenticated-encryption records (C01) against lib/Aead.tla. A record lists every DISTINCT
   (ciphertext, tag) pair produced by all call forms of one construction for one input: there must be exactly one,
   equal to the specified value, and every decryption form must have returned the message. *)
EXTENDS Aead, Json, IOUtils
Recs == ndJsonDeserialize(IOEnv.TRACE)
OnePair(r, x) == Len(r.res) = 1 /\ r.res[1].c = x.c /\ r.res[1].t = x.t /\ r.dec_ok /\ r.nforms >= 2
Check(r) ==
  CASE r.op = "aead" -> OnePair(r, Encrypt(r.alg, r.k, r.n, r.ad, r.m))
    [] r.op = "box" -> LET bk == IF r.alg = "box" THEN BoxKeySalsa(r.pk, r.sk) ELSE BoxKeyChaCha(r.pk, r.sk) IN
         IF ~bk.ok THEN r.ret_all = -1
         ELSE r.ret_all = 0 /\ r.kb = bk.k /\ OnePair(r, IF r.alg = "box" THEN SecretboxXSalsa(bk.k, r.n, r.m) ELSE SecretboxXChaCha(bk.k, r.n, r.m))
    [] r.op = "seal" -> LET epk == XC!X25519Base(r.esk)
                            bk == IF r.alg = "seal" THEN BoxKeySalsa(r.pk, r.esk) ELSE BoxKeyChaCha(r.pk, r.esk)
                            x == IF r.alg = "seal" THEN SecretboxXSalsa(bk.k, SealNonce(epk, r.pk), r.m) ELSE SecretboxXChaCha(bk.k, SealNonce(epk, r.pk), r.m)
                        IN r.out = epk \o x.t \o x.c /\ r.open_ok /\ r.short_rejected
    \* AEGIS-128L with associated data of 2^29 bytes and more: the state after the associated data comes from the harness's own absorber,
    \* which "aegis_absorb" records validate against the specification on short data; the rest (message, lengths, tag) is evaluated here
    [] r.op = "aegis_absorb" -> r.S = (IF r.alg = "aegis256" THEN AG!AbsorbAd256(r.k, r.n, r.ad) ELSE AG!AbsorbAd128L(r.k, r.n, r.ad))
    [] r.op = "aegis_huge" -> r.ret = 0 /\ r.dec_ok
                              /\ r.out = (IF r.alg = "aegis256" THEN AG!Aegis256FromState(r.S, r.adlen8, r.m) ELSE AG!Aegis128LFromState(r.S, r.adlen8, r.m))
Bad == {i \in 1..Len(Recs) : ~Check(Recs[i])}
ASSUME PrintT(<<"ORACLE", Len(Recs), ToJson(SetToSeq(Bad))>>)
=============================================================================
