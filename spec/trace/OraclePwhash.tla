------------------------------- MODULE OraclePwhash -------------------------------
(* Validation of password-hashing records (C08) against lib/Argon2.tla (RFC 9106), Scrypt.tla (RFC 7914) and
   PwhashStr.tla (string grammar, verification and needs-rehash contracts, parameter selection). *)
EXTENDS PwhashStr, Json, IOUtils
SCR == INSTANCE Scrypt
Recs == ndJsonDeserialize(IOEnv.TRACE)
Nat8(b) == BN!BNFromBytes(b)
InRangeBN(v, lo, hi) == BN!BNCmp(v, lo) >= 0 /\ BN!BNCmp(v, hi) <= 0
U32Max == BN!BNSub(BN!BNPow2(32), <<1>>)
\* documented limits (crypto_pwhash_*_MIN / _MAX); an argument outside them must be refused with -1
LimitsOK(r) ==
  LET o == Nat8(r.outlen)  ops == Nat8(r.ops)  mem == Nat8(r.mem)  pl == Nat8(r.pwdlen)
  IN IF r.alg = "scrypt"
       THEN InRangeBN(o, <<16>>, BN!BNFromBytes(<<224, 255, 255, 255, 31>>)) /\ InRangeBN(ops, BN!Small(32768), U32Max) /\ InRangeBN(mem, BN!Small(16777216), BN!BNPow2(36))
       ELSE InRangeBN(o, <<16>>, U32Max) /\ InRangeBN(ops, IF r.alg = "argon2i" THEN <<3>> ELSE <<1>>, U32Max)
            /\ InRangeBN(mem, BN!Small(8192), BN!BNFromBytes(<<0, 252, 255, 255, 255, 3>>)) /\ BN!BNCmp(pl, U32Max) <= 0
V(b) == IF b THEN 0 ELSE -1
CheckStrCase(r) ==
  LET ty == DispatchType(r.str)
      vi == ArgonVerify(r.str, 1, r.pwd)  vd == ArgonVerify(r.str, 2, r.pwd)
      ops == BN!Small(r.ops)  mem == BN!Small(r.memKiB)
  IN /\ r.dispatch = ty
     /\ r.v_i = V(vi) /\ r.v_id = V(vd)
     /\ r.v_generic = (IF ty = 2 THEN V(vd) ELSE IF ty = 1 THEN V(vi) ELSE -1)
     /\ r.nr_i = ArgonNeedsRehash(r.str, 1, ops, mem) /\ r.nr_id = ArgonNeedsRehash(r.str, 2, ops, mem)
     /\ r.nr_generic = (IF ty = 2 THEN ArgonNeedsRehash(r.str, 2, ops, mem) ELSE IF ty = 1 THEN ArgonNeedsRehash(r.str, 1, ops, mem) ELSE -1)
Check(r) ==
  CASE r.op = "argon2_raw" -> r.ret = 0 /\ r.same /\ r.out = Argon2(r.type, r.pwd, r.salt, r.t, r.m, 1, Len(r.out))
    [] r.op = "limit" -> IF LimitsOK(r) THEN (r.field = "ok" => r.ret = 0) ELSE r.ret = -1
    [] r.op = "pwhash_str" -> LET q == ParseArgon2(r.str, r.type) IN
         /\ r.ret = 0 /\ r.tail_zero /\ q.ok /\ q.t = BN!Small(r.ops) /\ q.m = BN!Small(r.memKiB) /\ q.p = <<1>>
         /\ Len(q.salt) = 16 /\ Len(q.hash) = 32 /\ q.hash = Argon2(r.type, r.pwd, q.salt, r.ops, r.memKiB, 1, 32)
    [] r.op = "str_case" -> CheckStrCase(r)
    [] r.op = "scrypt_ll" -> r.ret = 0 /\ r.out = SCR!Scrypt(r.pwd, r.salt, r.N, r.r, r.p, Len(r.out))
    [] r.op = "scrypt_ll_invalid" -> r.rets = <<-1, -1, -1>>                         \* N not a power of two, N < 2, r = 0
    [] r.op = "scrypt_str" -> LET q == ParseScryptSetting(r.str)  w == PickParams(r.ops, r.mem) IN
         /\ r.ret = 0 /\ Len(r.str) = 101 /\ q.ok /\ q.nlog2 = w.nlog2 /\ q.r = w.r /\ q.p = w.p
         /\ r.v_same = 0 /\ r.v_other = -1 /\ r.mutated_all_fail
    [] r.op = "scrypt_nr" -> r.ret = ScryptNeedsRehash(r.str, r.ops, r.mem)
    [] r.op = "scrypt_foreign" -> r.v = V(ScryptVerify(r.str, r.pwd, SCR!Scrypt))
Bad == {i \in 1..Len(Recs) : ~Check(Recs[i])}
\* NAMED DEVIATION (known finding F5): the scrypt API never compares opslimit / memlimit with its documented limits
\* (pickparams clamps small opslimit values up and derives N from whatever it is given): an out-of-range opslimit or
\* memlimit with everything else in range is accepted
F5Known(r) == r.op = "limit" /\ r.alg = "scrypt" /\ r.field \in {"ops", "mem"} /\ ~LimitsOK(r) /\ r.ret = 0
Known == {i \in Bad : F5Known(Recs[i])}
ASSUME PrintT(<<"ORACLE", Len(Recs), ToJson(SetToSeq(Bad \ Known))>>)
ASSUME PrintT(<<"KNOWN", ToJson(SetToSeq(Known))>>)
=============================================================================
