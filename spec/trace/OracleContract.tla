----------------------------- MODULE OracleContract -----------------------------
(* C12: every record written by harness/contract_driver.c is judged against sys/Contract.tla. Record i of the
   trace is the outcome of call Cs[i + 1], the call list TLC itself enumerated from Contract (IOEnv.CALLS):
   it must be that call (same function, lengths, content class, placement and - above all - the buffer sizes
   the contract states), its outcome must be one Contract!Allowed permits (never "signal", "sanitizer",
   "misuse", "nodriver") and no byte outside the writable arguments may have changed (frame). *)
EXTENDS Contract, TLC, Json, IOUtils, SequencesExt
Recs == ndJsonDeserialize(IOEnv.TRACE)
Cs == ndJsonDeserialize(IOEnv.CALLS)
Sizes(c) == [k \in 1..Len(c.bufs) |-> c.bufs[k].size]
CheckCall(r) ==
  /\ r.i + 1 \in 1..Len(Cs)
  /\ LET c == Cs[r.i + 1] IN
       /\ r.fn = c.fn /\ r.l1 = c.l1 /\ r.l2 = c.l2 /\ r.cm = c.cm /\ r.mode = c.mode /\ r.al = c.al
       /\ r.sz = Sizes(c)
       /\ r.out \in Allowed(c)
       /\ r.frame
Check(r) == IF "e" \in DOMAIN r
              THEN CASE r.e = "statebytes" -> r.name \in DOMAIN StateBytes /\ StateBytes[r.name] = r.lib
                     [] r.e = "probe" -> <<r.name, r.out>> \in Probes
                     [] OTHER -> FALSE
              ELSE CheckCall(r)
Bad == {i \in 1..Len(Recs) : ~Check(Recs[i])}
Seen == {Recs[i].i : i \in {j \in 1..Len(Recs) : "e" \notin DOMAIN Recs[j]}}
ASSUME PrintT(<<"ORACLE", Len(Recs), ToJson(SetToSeq(Bad))>>)
ProbesSeen == {Recs[i].name : i \in {j \in 1..Len(Recs) : "e" \in DOMAIN Recs[j] /\ Recs[j].e = "probe"}}
ASSUME PrintT(<<"COMPLETE", Cardinality(Seen), Len(Cs), Cardinality(ProbesSeen), Cardinality(ProbeNames)>>)
=============================================================================
