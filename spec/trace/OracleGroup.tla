------------------------------- MODULE OracleGroup -------------------------------
(* Validation of Edwards25519 / Ristretto255 records (C07) against lib/Ed25519.tla, ScalarL.tla, Ristretto255.tla
   (RFC 9496) and H2C.tla (RFC 9380). Also prints the records that match the NAMED deviation of known finding F4
   (hash-to-group with a context longer than 255 bytes). *)
EXTENDS H2C, TLC, Json, IOUtils
Recs == ndJsonDeserialize(IOEnv.TRACE)
\* the valid-point predicate of the property: canonical encoding of a point of prime order (the identity excluded)
EdValid(p) == LET d == Decode(p) IN CanonicalY(p) /\ d.ok /\ ~(d.xzero /\ d.sign = 1) /\ ~IsSmallOrder(d.P) /\ OnMainSubgroup(d.P)
\* NAMED DEVIATION (known finding F2): the library tests [L]P = neutral by X = 0 only, which also holds for [L]P = (0,-1),
\* i.e. it treats P + (0,-1) (order 2L) like the prime-order point P
EdValidDev(p) == LET d == Decode(p) IN CanonicalY(p) /\ d.ok /\ ~(d.xzero /\ d.sign = 1) /\ ~IsSmallOrder(d.P) /\ FeIsZero(PtMulBits(LBits, d.P).X)
Bit255Cleared(n) == [n EXCEPT ![32] = @ % 128]
EdScalar(n, clamp) == Bit255Cleared(IF clamp THEN [n EXCEPT ![1] = @ - (@ % 8), ![32] = (@ % 64) + 64 + (128 * (@ \div 128))] ELSE n)
IdentityEnc(o) == [o EXCEPT ![32] = @ % 128] = <<1>> \o Zeros(31)
EdMulWith(r, Valid(_)) ==
  LET P == IF r.base THEN Base ELSE Decode(r.p).P
      validIn == r.base \/ Valid(r.p)
  IN IF ~validIn THEN r.ret = -1
     ELSE LET Q == PtMul(EdScalar(r.n, r.clamp), P) IN
          IF IsIdentity(Q) THEN r.ret = -1
          ELSE (r.ret = 0 /\ r.out = Encode(Q)) \/ (r.ret = -1 /\ r.n = Zeros(32))     \* an all-zero scalar argument is always refused
CheckEdMul(r) == EdMulWith(r, EdValid)
CheckSc(r) ==
  \* add and sub are specified for reduced inputs; mul, negate, complement, invert for any byte strings
  CASE r.f \in {"add", "r_add"} -> r.reduced => r.out = SC!ScAdd(r.a, r.b)
    [] r.f = "sub" -> r.reduced => r.out = SC!ScSub(r.a, r.b)
    [] r.f \in {"mul", "r_mul"} -> r.out = SC!ScMul(r.a, r.b)
    [] r.f \in {"negate", "r_negate"} -> r.out = SC!ScNegate(r.a)
    [] r.f = "complement" -> r.out = SC!ScComplement(r.a)
    \* zero has no inverse: only the all-zero byte string must be refused; other multiples of L are not judged
    [] r.f = "invert" -> IF SC!ScIsZero(r.a) THEN (r.a = Zeros(32) => r.ret = -1) ELSE r.ret = 0 /\ r.out = SC!ScInvert(r.a)
H2CValue(r, Xmd(_, _, _, _), ToCurve(_, _, _, _)) ==
  CASE r.grp = 0 -> ToCurve(r.msg, r.ctx, r.hash, r.ro)
    [] r.grp = 1 -> RFromHash(Xmd(r.msg, r.ctx, 64, r.hash))
    [] r.grp = 2 -> LET b == Xmd(r.msg, r.ctx, 48, r.hash) IN SC!ScReduce([i \in 1..48 |-> b[49 - i]])
RfcCurve(m, c, h, ro) == IF ro THEN HashToCurve(m, c, h) ELSE EncodeToCurve(m, c, h)
H2COk(r) == r.ret = 0 /\ r.out = H2CValue(r, ExpandMessageXmd, RfcCurve)
H2CKnown(r) == r.op = "h2c" /\ Len(r.ctx) > 255 /\ ~H2COk(r) /\ r.ret = 0 /\ r.out = H2CValue(r, ExpandAliased, AliasedToCurve)
Check(r) ==
  CASE r.op = "ed_valid" -> r.ret = (IF EdValid(r.p) THEN 1 ELSE 0)
    [] r.op = "r_valid" -> r.ret = (IF RDecode(r.p).ok THEN 1 ELSE 0)
    [] r.op \in {"ed_add", "ed_sub"} -> LET dp == Decode(r.p)  dq == Decode(r.q) IN
         IF ~(dp.ok /\ dq.ok) THEN r.ret = -1
         ELSE r.ret = 0 /\ r.out = Encode(IF r.op = "ed_add" THEN PtAdd(dp.P, dq.P) ELSE PtSub(dp.P, dq.P))
    [] r.op = "ed_mul" -> CheckEdMul(r)
    [] r.op \in {"r_add", "r_sub"} -> LET dp == RDecode(r.p)  dq == RDecode(r.q) IN
         IF ~(dp.ok /\ dq.ok) THEN r.ret = -1
         ELSE r.ret = 0 /\ r.out = REncode(IF r.op = "r_add" THEN PtAdd(dp.P, dq.P) ELSE PtSub(dp.P, dq.P))
    [] r.op = "r_mul" -> LET dp == IF r.base THEN [ok |-> TRUE, P |-> Base] ELSE RDecode(r.p) IN
         IF ~dp.ok THEN r.ret = -1
         ELSE LET Q == PtMul(Bit255Cleared(r.n), dp.P)  e == REncode(Q) IN
              IF e = RIdentityBytes THEN r.ret = -1 ELSE r.ret = 0 /\ r.out = e
    [] r.op = "sc" -> CheckSc(r)
    [] r.op = "sc_canonical" -> r.ret = (IF SC!ScIsCanonical(r.a) THEN 1 ELSE 0) /\ r.ret_r = r.ret
    [] r.op = "sc_reduce" -> r.out = SC!ScReduce(r.w)
    [] r.op = "r_from_hash" -> r.out = RFromHash(r.h)
    [] r.op = "ed_from_uniform" -> LET d == Decode(r.out) IN CanonicalY(r.out) /\ d.ok /\ OnMainSubgroup(d.P)
    [] r.op = "h2c" -> H2COk(r) \/ H2CKnown(r)
Bad == {i \in 1..Len(Recs) : ~Check(Recs[i])}
Known == {i \in 1..Len(Recs) : Recs[i].op = "h2c" /\ Len(Recs[i].ctx) > 255 /\ H2CKnown(Recs[i])}
\* records that are wrong by the property but are exactly what the F2 deviation model predicts
F2Known(r) == CASE r.op = "ed_valid" -> r.ret = 1 /\ ~EdValid(r.p) /\ EdValidDev(r.p)
                [] r.op = "ed_mul" -> ~r.base /\ ~EdValid(r.p) /\ EdValidDev(r.p) /\ EdMulWith(r, EdValidDev)
                [] OTHER -> FALSE
Known2 == {i \in Bad : F2Known(Recs[i])}
ASSUME PrintT(<<"ORACLE", Len(Recs), ToJson(SetToSeq(Bad))>>)
ASSUME PrintT(<<"KNOWN", ToJson(SetToSeq(Known))>>)
ASSUME PrintT(<<"KNOWN2", ToJson(SetToSeq(Known2))>>)
=============================================================================
