
