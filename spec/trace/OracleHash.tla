------------------------------- MODULE OracleHash -------------------------------
(* Validation of hash / MAC / KDF records (C04). A record lists every DISTINCT output observed for one (function,
   input) over the one-shot call and all chunkings of the multi-part API: there must be exactly one, and it must be
   the value the specification module computes. *)
EXTENDS Sha2, TLC, Json, IOUtils
B2 == INSTANCE Blake2b
SH == INSTANCE SipHash
PL == INSTANCE Poly1305
Recs == ndJsonDeserialize(IOEnv.TRACE)
One(r, v) == r.outs = <<v>> /\ r.forms >= 1
Check(r) ==
  CASE r.op = "sha256" -> One(r, Sha256(r.m))
    [] r.op = "sha512" -> One(r, Sha512(r.m))
    [] r.op = "hmacsha256" -> One(r, HmacSha256(r.k, r.m)) /\ r.verify = 0
    [] r.op = "hmacsha512" -> One(r, HmacSha512(r.k, r.m)) /\ r.verify = 0
    [] r.op = "hmacsha512256" -> One(r, HmacSha512256(r.k, r.m)) /\ r.verify = 0
    [] r.op = "blake2b" -> One(r, B2!Blake2b(r.m, r.k, r.outlen))
    [] r.op = "blake2b_sp" -> One(r, B2!Blake2bSP(r.m, r.k, r.outlen, r.salt, r.pers))
    [] r.op = "siphash24" -> One(r, SH!SipHash24(r.m, r.k))
    [] r.op = "siphashx24" -> One(r, SH!SipHashX24(r.m, r.k))
    [] r.op = "poly1305" -> One(r, PL!Poly1305Mac(r.m, r.k)) /\ r.verify = 0
    [] r.op = "verify_flips" -> r.rejected = r.trials
    [] r.op = "gh_range" -> LET ok == B2!GenericHashValid(r.outlen, r.keylen) IN r.ret = (IF ok THEN 0 ELSE -1) /\ r.ret_init = r.ret
    [] r.op = "kdf_range" -> r.ret = (IF B2!KdfValid(r.len) THEN 0 ELSE -1)
    [] r.op = "kdf" -> r.ret = 0 /\ r.out = B2!Kdf(Len(r.out), r.id, r.ctx, r.k)
    [] r.op = "hkdf256" -> r.ret = 0 /\ r.prk = HkdfSha256Extract(r.salt, r.ikm) /\ r.out = HkdfSha256Expand(r.prk, r.info, Len(r.out))
    [] r.op = "hkdf512" -> r.ret = 0 /\ r.prk = HkdfSha512Extract(r.salt, r.ikm) /\ r.out = HkdfSha512Expand(r.prk, r.info, Len(r.out))
    [] r.op = "hkdf_limit" -> r.r = <<0, -1, 0, -1>>
Bad == {i \in 1..Len(Recs) : ~Check(Recs[i])}
ASSUME PrintT(<<"ORACLE", Len(Recs), ToJson(SetToSeq(Bad))>>)
=============================================================================
