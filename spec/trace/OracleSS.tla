------------------------------- MODULE OracleSS -------------------------------
(* Oracle validation of byte-level secretstream records (C09): every record logged by ss_driver must equal the
   value the specification computes. *)
EXTENDS SecretStreamBytes, TLC, Json, IOUtils
Recs == ndJsonDeserialize(IOEnv.TRACE)
Check(r) ==
  CASE r.op = "ss_init"  -> LET s == SSInit(r.key, r.hdr) IN s.k = r.k /\ s.nonce = r.nonce
    [] r.op = "ss_chunk" -> LET c == SSChunk(r.k, r.nonce, r.tag, r.m, r.ad)
                                s == SSAfter(r.k, r.nonce, r.tag, SubSeq(c, Len(c) - 15, Len(c)))
                            IN c = r.c /\ s.k = r.k2 /\ s.nonce = r.nonce2
    [] r.op = "ss_rekey" -> LET s == SSRekey(r.k, r.nonce) IN s.k = r.k2 /\ s.nonce = r.nonce2
Bad == {i \in 1..Len(Recs) : ~Check(Recs[i])}
ASSUME PrintT(<<"ORACLE", Len(Recs), ToJson(SetToSeq(Bad))>>)
=============================================================================
