------------------------------- MODULE OracleEd25519 -------------------------------
(* Validation of Ed25519 records (C06) against lib/Ed25519.tla (RFC 8032). Verification is judged one way, as the
   property states it: a triple may be accepted ONLY IF VerifyStrict holds; honestly produced signatures MUST be
   accepted. *)
EXTENDS Ed25519, TLC, Json, IOUtils
XC == INSTANCE X25519
Recs == ndJsonDeserialize(IOEnv.TRACE)
Check(r) ==
  CASE r.op = "keypair" -> LET pk == PublicKey(r.seed) IN r.pk = pk /\ r.sk = r.seed \o pk
    [] r.op = "sign" -> r.sig = Sign(r.seed, r.m, r.ph) /\ r.forms_agree
    [] r.op = "verify" -> /\ r.open_agrees /\ r.open_ok
                          /\ (r.honest => r.accepted)
                          /\ (r.accepted => VerifyStrict(r.sig, r.m, r.pk, r.ph))
    [] r.op = "convert" -> /\ r.ret_pk = 0 /\ r.ret_sk = 0
                           /\ r.xsk = SkToCurve(r.seed) /\ r.xpk = PkToCurve(r.pk)
                           /\ XC!X25519Base(r.xsk) = r.xpk                       \* conversion commutes with public-key derivation
    [] r.op = "convert_bad" -> r.ret = -1
Bad == {i \in 1..Len(Recs) : ~Check(Recs[i])}
ASSUME PrintT(<<"ORACLE", Len(Recs), ToJson(SetToSeq(Bad))>>)
=============================================================================
