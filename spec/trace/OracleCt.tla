------------------------------- MODULE OracleCt -------------------------------
(* Validation of constant-time helper records (C14) against lib/CtHelpers.tla. *)
EXTENDS CtHelpers, TLC, Json, IOUtils
Recs == ndJsonDeserialize(IOEnv.TRACE)
Check(r) ==
  CASE r.op = "memcmp"    -> r.ret = Memcmp(r.a, r.b)
    [] r.op = "verify"    -> r.ret = Memcmp(r.a, r.b) /\ Len(r.a) \in {16, 32, 64}
    [] r.op = "is_zero"   -> r.ret = IsZero(r.a)
    [] r.op = "compare"   -> r.ret = Compare(r.a, r.b)
    [] r.op = "increment" -> r.out = Increment(r.a)
    [] r.op = "add"       -> r.out = Add(r.a, r.b) /\ r.bsame
    [] r.op = "sub"       -> r.out = Sub(r.a, r.b) /\ r.bsame
    [] r.op = "memzero"   -> r.out = Memzero(r.a, r.off, r.len)
Bad == {i \in 1..Len(Recs) : ~Check(Recs[i])}
ASSUME PrintT(<<"ORACLE", Len(Recs), ToJson(SetToSeq(Bad))>>)
=============================================================================
