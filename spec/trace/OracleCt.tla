------------------------------- MODULE OracleCt -------------------------------
(* Validation of constant-time helper records (C14) against lib/CtHelpers.tla. *)
EXTENDS CtHelpers, TLC, Json, IOUtils
Recs == ndJsonDeserialize(IOEnv.TRACE)
Check(r) ==
  CASE r.op = "memcmp"    -> r.ret = Memcmp(r.a, r.b)
    [] r.op = "verify"    -> r.ret = Memcmp(r.a, r.b) /\ Len(r.a) \in {16, 32, 64}
    [] r.op = "is_zero"   -> r.ret = IsZero(r.a)
    [] r.op = "compare"   -> r.ret = Compare(r.a, r.b)
    [] r.op = "increment" -> r.out = Increment(r.a)
    [] r.op = "add"       -> r.out = Add(r.a, r.b) /\ r.bsame
    [] r.op = "sub"       -> r.out = Sub(r.a, r.b) /\ r.bsame
    \* operands of 2^32 + 300 bytes, all zero except one byte (value 1 or 9) at the given position in x or y (-1: none); position
    \* codes are only compared for order (x low / y high in the last case): the most significant differing byte decides
    [] r.op = "huge" -> r.ret = (CASE r.fn = "is_zero" -> (IF r.xpos = -1 THEN 1 ELSE 0)
                                   [] r.fn = "memcmp"  -> (IF r.xpos = -1 /\ r.ypos = -1 THEN 0 ELSE -1)
                                   [] r.fn = "compare" -> (IF r.xpos = -1 /\ r.ypos = -1 THEN 0
                                                           ELSE IF r.ypos = -1 THEN 1 ELSE IF r.xpos = -1 THEN -1
                                                           ELSE IF r.xpos > r.ypos THEN 1 ELSE -1))
    [] r.op = "memzero"   -> r.out = Memzero(r.a, r.off, r.len)
Bad == {i \in 1..Len(Recs) : ~Check(Recs[i])}
ASSUME PrintT(<<"ORACLE", Len(Recs), ToJson(SetToSeq(Bad))>>)
=============================================================================
