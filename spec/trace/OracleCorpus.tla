------------------------------- MODULE OracleCorpus -------------------------------
(* C10: every deterministic function must return the same bytes and the same return code in every CPU
   configuration and build as in the reference configuration (native build, all features). Each record pairs
   the digest/return code observed in one configuration with the reference ones for the same (function, case). *)
EXTENDS Integers, Sequences, TLC, Json, IOUtils, SequencesExt, FiniteSets
Recs == ndJsonDeserialize(IOEnv.TRACE)
Check(r) == r.dig = r.ref_dig /\ r.ret = r.ref_ret /\ r.olen = r.ref_olen
Bad == {i \in 1..Len(Recs) : ~Check(Recs[i])}
ASSUME PrintT(<<"ORACLE", Len(Recs), ToJson(SetToSeq(Bad))>>)
=============================================================================
