
CONSTANTS Dense = 0
          Als = {}
