------------------------------- MODULE OraclePad -------------------------------
(* Validation of sodium_pad / sodium_unpad records (C16) against lib/Pad.tla. *)
EXTENDS Pad, TLC, Json, IOUtils
Recs == ndJsonDeserialize(IOEnv.TRACE)
CheckPad(r) ==
  LET p == Pad(r.data, r.bs, r.cap)
  IN /\ r.data_ok /\ r.rest_ok                       \* data bytes and everything outside the padded length untouched
     /\ IF p.ok THEN r.ret = 0 /\ r.plen = p.plen /\ r.buf = p.buf
                ELSE r.ret = -1 /\ r.buf = <<>>      \* fails without writing (rest_ok covers the whole buffer)
CheckUnpad(r) ==
  LET u == Unpad([i \in 1..r.pre |-> 0] \o r.block, r.bs)
  IN IF u.ok THEN r.ret = 0 /\ r.len = u.len ELSE r.ret = -1
Check(r) == CASE r.op = "pad" -> CheckPad(r) [] r.op = "unpad" -> CheckUnpad(r)
Bad == {i \in 1..Len(Recs) : ~Check(Recs[i])}
ASSUME PrintT(<<"ORACLE", Len(Recs), ToJson(SetToSeq(Bad))>>)
=============================================================================
