------------------------------- MODULE OraclePad -------------------------------
(* Validation of sodium_pad / sodium_unpad records (C16) against lib/Pad.tla. *)
EXTENDS Pad, TLC, Json, IOUtils
Recs == ndJsonDeserialize(IOEnv.TRACE)
CheckPad(r) ==
  LET p == Pad(r.data, r.bs, r.cap)
  IN /\ r.data_ok /\ r.rest_ok                       \* data bytes and everything outside the padded length untouched
     /\ IF p.ok THEN r.ret = 0 /\ (r.nullp \/ r.plen = p.plen) /\ r.buf = p.buf   \* nullp: the form with padded_buflen_p = NULL
                ELSE r.ret = -1 /\ r.buf = <<>>      \* fails without writing (rest_ok covers the whole buffer)
CheckUnpad(r) ==
  LET u == Unpad([i \in 1..r.pre |-> 0] \o r.block, r.bs)
  IN IF u.ok THEN r.ret = 0 /\ r.len = u.len ELSE r.ret = -1
\* lengths beyond 2^32 (TLC integers are 32-bit: exact arithmetic on BigNat): padded length = len + (bs - len mod bs); refused iff it
\* exceeds the capacity; marker at buf[len], zeros up to the padded length, the byte behind it untouched; unpadding returns len
BN == INSTANCE BigNat
HugePlen(r) == LET len == BN!BNFromBytes(r.len)  m == BN!BNMod(len, BN!Small(r.bs)) IN BN!BNAdd(len, BN!BNSub(BN!Small(r.bs), m))
CheckPadHuge(r) ==
  LET pl == HugePlen(r)  cap == BN!BNFromBytes(r.cap)
  IN IF BN!BNCmp(pl, cap) > 0 THEN r.ret = -1
     ELSE r.ret = 0 /\ BN!BNFromBytes(r.plen) = pl /\ r.marker_ok /\ r.zeros_ok /\ r.after_ok
Check(r) == CASE r.op = "pad" -> CheckPad(r) [] r.op = "unpad" -> CheckUnpad(r)
              [] r.op = "pad_huge" -> CheckPadHuge(r)
              [] r.op = "unpad_huge" -> r.ret = 0 /\ r.ulen = r.len
Bad == {i \in 1..Len(Recs) : ~Check(Recs[i])}
ASSUME PrintT(<<"ORACLE", Len(Recs), ToJson(SetToSeq(Bad))>>)
=============================================================================
