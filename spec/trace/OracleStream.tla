------------------------------- MODULE OracleStream -------------------------------
(* Validation of stream-cipher records (C03) against lib/ChaCha.tla and lib/Salsa.tla. For a group record the
   keystream is evaluated once for the largest length; the output at EVERY length must then be its prefix (XORed
   with the message for the xor forms): checked byte by byte at the boundary lengths and through two
   position-weighted checksums at all lengths. *)
EXTENDS ChaCha, TLC, Json, IOUtils
S == INSTANCE Salsa
Recs == ndJsonDeserialize(IOEnv.TRACE)
Ctr64(b) == <<b[1] + (256 * b[2]), b[3] + (256 * b[4]), b[5] + (256 * b[6]), b[7] + (256 * b[8])>>
Keystream(r) ==
  LET ic == Ctr64(r.ic)  L == r.maxlen IN
  CASE r.v = "chacha20"      -> StreamDJB(r.k, r.n, ic, L, 20)
    [] r.v = "chacha20_ietf" -> StreamIETF(r.k, r.n, <<ic[1], ic[2]>>, L)
    [] r.v = "xchacha20"     -> XChaCha20Stream(r.k, r.n, ic, L)
    [] r.v = "salsa20"       -> S!SalsaStream(r.k, r.n, ic, L, 20)
    [] r.v = "salsa2012"     -> S!SalsaStream(r.k, r.n, ic, L, 12)
    [] r.v = "salsa208"      -> S!SalsaStream(r.k, r.n, ic, L, 8)
    [] r.v = "xsalsa20"      -> S!XSalsa20Stream(r.k, r.n, ic, L)
Msg(L) == [i \in 1..L |-> ((7 * (i - 1)) + 3) % 256]
Boundary(L, mx) == L \in {0, 1, 63, 64, 65, 127, 128, 129, 191, 192, 255, 256, 257, 319, 320, 383, 384, 447, 448, 511, 512, 513, 575, 576, 577,
                          639, 640, 1023, 1024, 1025, 1151, 1152, 2047, 2048, 2303, mx}
CheckStream(r) ==
  LET ks == Keystream(r)
      out == IF r.form = 0 THEN ks ELSE XorBytes(ks, Msg(r.maxlen))
      \* cumulative checksums: cum[L+1] = <<sum of out[1..L], weighted sum>>
      cum == FoldLeft(LAMBDA acc, i : Append(acc, <<acc[i][1] + out[i], acc[i][2] + ((((i - 1) % 251) + 1) * out[i])>>),
                      <<<<0, 0>>>>, [i \in 1..r.maxlen |-> i])
      bl == SelectSeq([L \in 1..(r.maxlen + 1) |-> L - 1], LAMBDA L : Boundary(L, r.maxlen))
  IN /\ r.ret0 /\ r.untouched
     /\ Len(r.sums) = r.maxlen + 1
     /\ \A j \in 1..Len(r.sums) : r.sums[j] = <<j - 1, cum[j][1], cum[j][2]>>
     /\ Len(r.full) = Len(bl)
     /\ \A j \in 1..Len(bl) : r.full[j] = SubSeq(out, 1, bl[j])
Check(r) ==
  CASE r.op = "stream" -> CheckStream(r)
    \* 128 bytes of a huge keystream at a given block index (r.ic): they are the first 128 bytes of the keystream started there
    [] r.op = "stream_at" -> r.ret = 0 /\ r.bytes = Keystream(r)
    \* a secretstream chunk longer than 2^32 bytes: pulled in place it yields the (zero) message, the tag pushed, the length, and the
    \* two states stay byte-identical for the next chunk (its ciphertext bytes are judged by the stream_at records next to it)
    [] r.op = "ss_huge" -> r.ret_push = 0 /\ r.ret_pull = 0 /\ r.mlen_ok /\ r.tag = 0 /\ r.zeros /\ r.sync
    [] r.op = "ietf_limit" -> (r.outcome = "misuse") = IETFWouldWrap(LE32(r.ic, 1), r.len) /\ r.outcome # "error"
    [] r.op = "hchacha20" -> r.out = (IF r.wc = 1 THEN HChaCha20C(r.k, r.in, r.c) ELSE HChaCha20(r.k, r.in))
    [] r.op = "hsalsa20" -> r.out = (IF r.wc = 1 THEN S!HSalsa20C(r.k, r.in, r.c) ELSE S!HSalsa20(r.k, r.in))
    [] r.op = "salsacore" -> r.out = S!SalsaCore(r.in, r.k, IF r.wc = 1 THEN r.c ELSE S!SigmaBytes, r.rounds)
Bad == {i \in 1..Len(Recs) : ~Check(Recs[i])}
ASSUME PrintT(<<"ORACLE", Len(Recs), ToJson(SetToSeq(Bad))>>)
=============================================================================
