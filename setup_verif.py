"""./check --setup : offline, needs nothing from /repo. Verifies the tools, parses every specification
module with SANY and runs the anchors (published vectors stated as ASSUMEs about spec/lib)."""
import glob
import os
import subprocess
import sys
from concurrent.futures import ThreadPoolExecutor

import vlib


def sany(path):
    r = subprocess.run(["java", "-DTLA-Library=" + vlib.TLA_LIBRARY, "-cp", vlib.TLA_JARS, "tla2sany.SANY", path],
                       capture_output=True, text=True, cwd=os.path.dirname(path))
    bad = r.returncode != 0 or "rror" in r.stdout or "Exception" in r.stdout
    return path, not bad, r.stdout[-1500:]


def main():
    for tool in ("java", "gcc", "clang", "ar"):
        if subprocess.run(["which", tool], capture_output=True).returncode != 0:
            print("missing tool " + tool)
            return 2
    mods = sorted(glob.glob(os.path.join(vlib.SPEC, "*", "*.tla")))
    ok = True
    with ThreadPoolExecutor(max_workers=8) as ex:
        for path, good, out in ex.map(sany, mods):
            if not good:
                ok = False
                print("SANY failed: %s\n%s" % (path, out))
    print("parsed %d modules" % len(mods))
    R = vlib.Run("setup", "quick", 1, "other")
    try:
        anchors = sorted(glob.glob(os.path.join(vlib.SPEC, "anchors", "Anchor*.tla")))
        with ThreadPoolExecutor(max_workers=8) as ex:
            res = list(ex.map(lambda a: (a, R.tlc(a, "Empty.cfg", timeout=900)), anchors))
        for a, r in res:
            if not r.ok:
                ok = False
                print("anchor failed: %s\n%s" % (a, r.tail(15)))
        print("anchors run: %d" % len(anchors))
        # recorded vectors from independent implementations (hashlib, hmac, OpenSSL; see tools/gen_anchors.py)
        for mod, fn in (("trace/OracleHash.tla", "hash_anchors.ndjson"), ("trace/OracleAead.tla", "aead_anchors.ndjson"), ("trace/OracleStream.tla", "stream_anchors.ndjson")):
            src = os.path.join(vlib.SPEC, "anchors", fn)
            files = R.split_file(src, 8, fn)
            total, bad = R.oracle(mod, files, timeout=1800)
            if bad or R.violations:
                ok = False
                print("anchor records rejected by %s: %d of %d, first: %s" % (mod, len(bad), total, str(bad[:1])[:400]))
            else:
                print("anchor records accepted by %s: %d" % (mod, total))
    finally:
        R.cleanup()
    return 0 if ok else 2
